// Command reload binds specs/Server/SrvReload.tla (C15) to a real in-process BFE:
// client goroutines issue requests while reloader goroutines publish new configuration
// generations (server data conf) and reload gslb / TLS / module data. Build with -race.
package main

import (
	"crypto/tls"
	"encoding/json"
	"fmt"
	"io/ioutil"
	"net"
	"net/http"
	"net/url"
	"os"
	"path/filepath"
	"strconv"
	"sync"
	"sync/atomic"
	"time"

	"github.com/bfenetworks/bfe/bfe_http"
	"github.com/bfenetworks/bfe/bfe_module"

	"verifharness/e2e"
	"verifharness/vh"
)

type rcase struct {
	ID        int  `json:"id"`
	Clients   int  `json:"clients"`
	Requests  int  `json:"requests"`
	Reloaders int  `json:"reloaders"`
	Reloads   int  `json:"reloads"`
	SlowMs    int  `json:"slowMs"` // backend delay, so that requests span reloads
	NoLog     bool `json:"nolog"`
}

func prod(g int) (string, string) {
	if g%2 == 0 {
		return "pa", "pb"
	}
	return "pb", "pa"
}

// writeGen writes generation g of the server data conf into dir (basenames as configured)
// goodCluster / decoyCluster of generation g: the cluster NAMES alternate too, and generation g's
// cluster_conf.data holds only its own two clusters, so a request routed by one generation that
// looks its cluster up in another one fails instead of passing unnoticed.
func goodCluster(g int) string {
	if g%2 == 0 {
		return "ca"
	}
	return "cb"
}
func decoyCluster(g int) string {
	if g%2 == 0 {
		return "da"
	}
	return "db"
}

func writeGen(dir string, g int, clusterConfAll []byte, vip []byte) error {
	p, q := prod(g)
	var cc struct {
		Version string
		Config  map[string]json.RawMessage
	}
	if err := json.Unmarshal(clusterConfAll, &cc); err != nil {
		return err
	}
	clusterConf, _ := json.Marshal(map[string]interface{}{"Version": fmt.Sprintf("g%d", g),
		"Config": map[string]json.RawMessage{goodCluster(g): cc.Config[goodCluster(g)], decoyCluster(g): cc.Config[decoyCluster(g)],
			"ex": cc.Config["ex"]}})
	ver := fmt.Sprintf("g%d", g)
	host := map[string]interface{}{"Version": ver, "DefaultProduct": nil,
		"Hosts":    map[string][]string{"t": {"probe.example"}, "u": {"other.example"}, "x": {"ex.example"}},
		"HostTags": map[string][]string{p: {"t"}, q: {"u"}, "px": {"x"}}}
	route := map[string]interface{}{"Version": ver, "ProductRule": map[string]interface{}{
		p:    []map[string]string{{"Cond": "default_t()", "ClusterName": goodCluster(g)}},
		q:    []map[string]string{{"Cond": "default_t()", "ClusterName": decoyCluster(g)}},
		"px": []map[string]string{{"Cond": "default_t()", "ClusterName": "ex"}}}}
	hb, _ := json.Marshal(host)
	rb, _ := json.Marshal(route)
	for name, b := range map[string][]byte{"host_rule.data": hb, "route_rule.data": rb, "cluster_conf.data": clusterConf, "vip_rule.data": vip} {
		if err := ioutil.WriteFile(filepath.Join(dir, name), b, 0644); err != nil {
			return err
		}
	}
	return nil
}

func main() {
	if len(os.Args) < 2 || os.Args[1] != "reload-run" {
		fmt.Fprintln(os.Stderr, "usage: reload reload-run")
		os.Exit(2)
	}
	defer vh.Flush()
	var cases []rcase
	vh.EachCase(func(line []byte) {
		var c rcase
		if json.Unmarshal(line, &c) == nil {
			cases = append(cases, c)
		}
	})
	var delay int64
	mk := func(body string) *e2e.Backend {
		b, _ := e2e.NewBackend(e2e.RespondFunc(func(req *http.Request, b []byte, n int) (string, bool) {
			if d := atomic.LoadInt64(&delay); d > 0 {
				time.Sleep(time.Duration(d) * time.Millisecond)
			}
			return e2e.OK(body), true
		}))
		return b
	}
	b0, b1 := mk("c0"), mk("c1")
	s, err := e2e.Start(e2e.Options{
		Clusters: []e2e.Cluster{{Name: "ca", Backends: []string{b0.Addr}}, {Name: "cb", Backends: []string{b0.Addr}},
			{Name: "da", Backends: []string{b1.Addr}}, {Name: "db", Backends: []string{b1.Addr}},
			{Name: "ex", Backends: []string{b0.Addr}}},
		Modules: []string{"mod_header", "mod_block", "mod_rewrite"},
		TLS:     true,
	})
	if err != nil {
		vh.Emit(map[string]interface{}{"_fatal": "e2e.Start: " + err.Error()})
		vh.Flush()
		os.Exit(2)
	}
	defer s.Close()
	// observation: product and cluster the request was routed with
	s.AddFilter(bfe_module.HandleReadResponse, func(c *e2e.Call) (int, *bfe_http.Response) {
		if c.Res != nil {
			c.Res.Header.Set("X-V-Product", c.Req.Route.Product)
			c.Res.Header.Set("X-V-Cluster", c.Req.Route.ClusterName)
			if c.Req.ErrCode != nil {
				c.Res.Header.Set("X-V-Err", c.Req.ErrCode.Error())
			}
		}
		return bfe_module.BfeHandlerGoOn, nil
	})
	clusterConf, err := ioutil.ReadFile(filepath.Join(s.ConfRoot, "server_data_conf/cluster_conf.data"))
	if err != nil {
		vh.Emit(map[string]interface{}{"_fatal": err.Error()})
		return
	}
	vip, _ := ioutil.ReadFile(filepath.Join(s.ConfRoot, "server_data_conf/vip_rule.data"))
	// balancer-table generations: cluster "ex" comes and goes (gslb.data + cluster_table.data)
	readJSON := func(rel string) map[string]interface{} {
		var m map[string]interface{}
		b, _ := ioutil.ReadFile(filepath.Join(s.ConfRoot, rel))
		json.Unmarshal(b, &m)
		return m
	}
	gslbAll, tableAll := readJSON("cluster_conf/gslb.data"), readJSON("cluster_conf/cluster_table.data")
	writeBal := func(dir string, withEx bool, n int) error {
		g := map[string]interface{}{}
		for k, v := range gslbAll["Clusters"].(map[string]interface{}) {
			if k != "ex" || withEx {
				g[k] = v
			}
		}
		t := map[string]interface{}{}
		for k, v := range tableAll["Config"].(map[string]interface{}) {
			if k != "ex" || withEx {
				t[k] = v
			}
		}
		gb, _ := json.Marshal(map[string]interface{}{"Clusters": g, "Hostname": "", "Ts": strconv.Itoa(n)})
		tb, _ := json.Marshal(map[string]interface{}{"Config": t, "Version": strconv.Itoa(n)})
		if err := ioutil.WriteFile(filepath.Join(dir, "gslb.data"), gb, 0644); err != nil {
			return err
		}
		return ioutil.WriteFile(filepath.Join(dir, "cluster_table.data"), tb, 0644)
	}
	gen := int64(0)
	genDir := func(g int) string {
		d := filepath.Join(s.ConfRoot, "gen", strconv.Itoa(g))
		os.MkdirAll(d, 0755)
		return d
	}
	done := 0
	for _, c := range cases {
		// start every case from a freshly published generation
		g0 := int(atomic.AddInt64(&gen, 1))
		d := genDir(g0)
		if err := writeGen(d, g0, clusterConf, vip); err != nil {
			vh.Emit(map[string]interface{}{"_fatal": err.Error()})
			break
		}
		if err := s.Srv.ServerDataConfReload(url.Values{"path": {d}}); err != nil {
			vh.Emit(map[string]interface{}{"_fatal": "initial reload: " + err.Error()})
			break
		}
		atomic.StoreInt64(&delay, int64(c.SlowMs))
		var mu sync.Mutex
		var evs []map[string]interface{}
		log := func(m map[string]interface{}) {
			if c.NoLog {
				return
			}
			mu.Lock()
			m["cid"] = c.ID
			evs = append(evs, m)
			mu.Unlock()
		}
		var panicked int32
		var failures int32
		var wg sync.WaitGroup
		stop := int32(0)
		var reqID int64
		for k := 0; k < c.Clients; k++ {
			wg.Add(1)
			go func(k int) {
				defer wg.Done()
				for i := 0; i < c.Requests && atomic.LoadInt32(&stop) == 0; i++ {
					id := int(atomic.AddInt64(&reqID, 1))
					cli, err := e2e.DialH1(s.Addr)
					if err != nil {
						continue
					}
					log(map[string]interface{}{"ev": "req_start", "id": id})
					if i%5 == 4 {
						// a TLS handshake that selects its certificate by server name, while TLS rules / certificates reload
						tc, err := tls.DialWithDialer(&net.Dialer{Timeout: 5 * time.Second}, "tcp", s.TLSAddr,
							&tls.Config{InsecureSkipVerify: true, NextProtos: []string{"http/1.1"},
								ServerName: []string{"example.org", "www.example.org", "probe.example"}[id%3]})
						ok := false
						if err == nil {
							h := e2e.NewH1(tc)
							h.Send("GET /r HTTP/1.1\r\nHost: probe.example\r\nConnection: close\r\n\r\n")
							if r, e := h.ReadResponse("GET", 20*time.Second); e == nil && r != nil && r.Status == 200 && string(r.Body) == "c0" {
								ok = true
							}
							h.Close()
						}
						if !ok {
							atomic.AddInt32(&failures, 1)
						}
						log(map[string]interface{}{"ev": "tls_end", "id": id, "ok": ok})
						cli.Close()
						continue
					}
					if i%3 == 2 {
						// probe of the cluster that balancer-table reloads add and remove: either the old table
						// (no balancer: BK_NO_BALANCE) or the new one (complete: 200), nothing in between
						cli.Send("GET /r HTTP/1.1\r\nHost: ex.example\r\nConnection: close\r\n\r\n")
						r, err := cli.ReadResponse("GET", 20*time.Second)
						status, errc := -1, ""
						if err == nil && r != nil {
							status, errc = r.Status, r.Header.Get("X-V-Err")
						}
						okEx := (status == 200 && string(r.Body) == "c0") || (status == 500 && (errc == "BK_NO_BALANCE" || errc == "BK_NO_CLUSTER"))
						if !okEx {
							atomic.AddInt32(&failures, 1)
						}
						log(map[string]interface{}{"ev": "ex_end", "id": id, "status": status, "err": errc, "ok": okEx})
						cli.Close()
						continue
					}
					cli.Send("GET /r HTTP/1.1\r\nHost: probe.example\r\nConnection: close\r\n\r\n")
					r, err := cli.ReadResponse("GET", 20*time.Second)
					status, product, cluster := -1, "", ""
					if err == nil && r != nil {
						status = r.Status
						product = r.Header.Get("X-V-Product")
						cluster = string(r.Body)
						if xc := r.Header.Get("X-V-Cluster"); status == 200 && (cluster != "c0" || (xc != "ca" && xc != "cb")) {
							cluster = "c1"
						}
					}
					if status != 200 || cluster != "c0" {
						atomic.AddInt32(&failures, 1)
					}
					log(map[string]interface{}{"ev": "req_end", "id": id, "status": status, "product": product, "cluster": cluster})
					cli.Close()
				}
			}(k)
		}
		for x := 0; x < c.Reloaders; x++ {
			wg.Add(1)
			go func(x int) {
				defer wg.Done()
				for i := 0; i < c.Reloads; i++ {
					g := int(atomic.AddInt64(&gen, 1))
					d := genDir(g)
					if err := writeGen(d, g, clusterConf, vip); err != nil {
						continue
					}
					log(map[string]interface{}{"ev": "swap_start", "g": g})
					if p := vh.Guard(func() { s.Srv.ServerDataConfReload(url.Values{"path": {d}}) }); p != "" {
						atomic.StoreInt32(&panicked, 1)
					}
					log(map[string]interface{}{"ev": "swap_end", "g": g})
					os.RemoveAll(d)
					time.Sleep(time.Duration(200+x*130) * time.Microsecond)
				}
			}(x)
		}
		// other reloads running concurrently (race / panic detection only)
		wg.Add(1)
		go func() {
			defer wg.Done()
			for i := 0; i < c.Reloads; i++ {
				bd := genDir(1000000 + i)
				writeBal(bd, i%2 == 0, i)
				if p := vh.Guard(func() {
					s.Srv.GslbDataConfReload(url.Values{"path": {bd}})
					s.Srv.TLSConfReload(url.Values{})
					s.Reload("mod_header", nil)
					s.Reload("mod_block.global_ip_table", nil)
					s.Reload("mod_rewrite", nil)
				}); p != "" {
					atomic.StoreInt32(&panicked, 1)
				}
				os.RemoveAll(bd)
				time.Sleep(300 * time.Microsecond)
			}
		}()
		wg.Wait()
		vh.Emit(map[string]interface{}{"ev": "new", "cid": c.ID, "g": g0})
		for _, e := range evs {
			vh.Emit(e)
		}
		vh.Emit(map[string]interface{}{"ev": "end", "cid": c.ID, "panic": atomic.LoadInt32(&panicked) == 1,
			"failures": int(atomic.LoadInt32(&failures)), "requests": int(atomic.LoadInt64(&reqID)), "nolog": c.NoLog})
		done++
	}
	vh.Emit(map[string]interface{}{"summary": true, "cases": done})
}
