package main

import (
	"encoding/json"
	"fmt"
	"net"

	"github.com/bfenetworks/bfe/bfe_balance/bal_slb"
	"github.com/bfenetworks/bfe/bfe_basic"
	"github.com/bfenetworks/bfe/bfe_config/bfe_cluster_conf/cluster_conf"
	"github.com/spaolacci/murmur3"

	"verifharness/vh"
)

// C02: residue -> target tables recorded from the real code, validated by TraceSticky.tla.

type stickyCase struct {
	ID    int     `json:"id"`
	Kind  string  `json:"kind"` // "slb" (session-sticky backend pick) or "gslb" (hash sub-cluster pick)
	N     int     `json:"n"`
	W     []int   `json:"w"`
	Av    []bool  `json:"av"`
	Perms [][]int `json:"perms"`
}

const stickyN = 4 // slots of TraceSticky.cfg

func padI(w []int) []int {
	o := make([]int, stickyN)
	copy(o, w)
	return o
}
func padB(b []bool) []bool {
	o := make([]bool, stickyN)
	copy(o, b)
	return o
}

// keysFor returns, for every residue 0..total-1, k distinct keys hashing to it.
func keysFor(total, k int, mk func(i int) []byte) [][][]byte {
	out := make([][][]byte, total)
	missing := total * k
	for i := 0; missing > 0; i++ {
		key := mk(i)
		r := int(murmur3.Sum64(key) % uint64(total))
		if len(out[r]) < k {
			out[r] = append(out[r], key)
			missing--
		}
	}
	return out
}

func stickyRun() {
	nCases := 0
	vh.EachCase(func(line []byte) {
		var c stickyCase
		if err := json.Unmarshal(line, &c); err != nil {
			vh.Emit(map[string]interface{}{"_bad_case": string(line)})
			return
		}
		nCases++
		vh.Emit(map[string]interface{}{"ev": "cfg", "cid": c.ID, "kind": c.Kind, "w": padI(c.W), "av": padB(c.Av)})
		switch c.Kind {
		case "slb":
			record := func(pi int, obj *slbObj) {
				total := 0
				for _, s := range obj.brr.VerifSnapshot() {
					if s.Avail && s.Weight > 0 {
						total += s.Weight
					}
				}
				if total == 0 {
					id, _ := obj.pick("sticky", []byte("k"))
					vh.Emit(map[string]interface{}{"ev": "tab", "cid": c.ID, "perm": pi, "T": 0, "tab": []int{id}, "tab2": []int{id}})
					return
				}
				keys := keysFor(total, 2, func(i int) []byte { return []byte(fmt.Sprintf("sess-%d-%d", pi, i)) })
				tab, tab2 := make([]int, total), make([]int, total)
				for r := 0; r < total; r++ {
					tab[r], _ = obj.pick("sticky", keys[r][0])
					// other picks in between must not matter
					obj.pick("smooth", nil)
					tab2[r], _ = obj.pick("sticky", keys[r][1])
					if again, _ := obj.pick("sticky", keys[r][0]); again != tab[r] {
						tab2[r] = -9 // same key, different answer
					}
				}
				vh.Emit(map[string]interface{}{"ev": "tab", "cid": c.ID, "perm": pi, "T": total, "tab": tab, "tab2": tab2})
			}
			setAvail := func(obj *slbObj) {
				for i, a := range c.Av {
					if b, ok := obj.backs[i+1]; ok {
						b.SetAvail(a)
					}
				}
			}
			for pi, perm := range c.Perms {
				obj := newSlbObj(perm, c.W, "10.0.0.")
				setAvail(obj)
				record(pi, obj)
			}
			// the same eligible set reached through a reload history: the object starts with one backend
			// replaced by another one (id 9), serves sticky picks, and is then reloaded to the configuration
			for hi, gone := range []int{1, c.N} {
				if len(c.Perms) == 0 || c.N < 2 {
					break
				}
				perm := c.Perms[len(c.Perms)-1]
				start := make([]int, len(perm))
				for i, id := range perm {
					start[i] = id
					if id == gone {
						start[i] = 9
					}
				}
				w9 := append(append([]int{}, c.W...), make([]int, 9-len(c.W))...)
				w9[8] = 1
				obj := newSlbObj(start, w9, "10.0.0.")
				setAvail(obj)
				obj.pick("sticky", []byte("warm-up"))
				obj.pick("sticky", []byte("warm-up-2"))
				obj.brr.Update(mkConf(perm, c.W, obj.base))
				obj.refresh()
				setAvail(obj)
				record(100+hi, obj)
			}
		case "gslb":
			// sub-clusters 1..n are "a","b","c" (+ index 0 blackhole unused here); all have two eligible backends
			sw := []int{naWeight, naWeight, naWeight, naWeight}
			shape := []string{"empty", "two", "two", "two"}
			for i, w := range c.W {
				if c.Av[i] { // av=false: sub-cluster not configured
					sw[i+1] = w
				}
			}
			total := positiveTotal(sw)
			strategies := []struct {
				name     string
				strategy int
				header   string
			}{
				{"ip", cluster_conf.ClientIpOnly, ""},
				{"header", cluster_conf.ClientIdOnly, "X-Client-Id"},
				{"cookie", cluster_conf.ClientIdOnly, "Cookie:UID"},
				{"uri", cluster_conf.RequestURI, ""},
				{"preferred-fallback-ip", cluster_conf.ClientIdPreferred, "X-Client-Id"},
			}
			for pi, st := range strategies {
				for rep := 0; rep < 2; rep++ { // map iteration order differs between objects
					bal, _, err := buildGslb(sw, shape)
					if err != nil {
						vh.Emit(map[string]interface{}{"ev": "tab", "cid": c.ID, "perm": pi*2 + rep, "T": -1, "tab": []int{}, "tab2": []int{}})
						continue
					}
					setBasic(bal, 1, 0, st.strategy, st.header, false, "WRR")
					mkReq := func(key []byte) *bfe_basic.Request {
						switch st.name {
						case "ip", "preferred-fallback-ip":
							return newReq(net.IP(key), "/", nil)
						case "header":
							return newReq(net.IP{10, 1, 1, 1}, "/", map[string]string{"X-Client-Id": string(key)})
						case "cookie":
							return newReq(net.IP{10, 1, 1, 1}, "/", map[string]string{"Cookie": "UID=" + string(key)})
						default:
							return newReq(net.IP{10, 1, 1, 1}, string(key), nil)
						}
					}
					keys := keysFor(total, 2, func(i int) []byte {
						switch st.name {
						case "ip", "preferred-fallback-ip":
							v := uint32(i+1) * 2654435761
							return []byte{10, byte(v >> 16), byte(v >> 8), byte(v)}
						case "uri":
							return []byte(fmt.Sprintf("/p/%d?x=%d", i, pi))
						default:
							return []byte(fmt.Sprintf("id%dx%d", i, pi))
						}
					})
					tab, tab2 := make([]int, total), make([]int, total)
					lookup := func(key []byte) int {
						req := mkReq(key)
						var e error
						p := vh.Guard(func() { _, e = bal.Balance(req) })
						if p != "" {
							return -1
						}
						if e != nil {
							return 0
						}
						for i, n := range subNames {
							if n == req.Backend.SubclusterName {
								return i // "a" = 1, "b" = 2, "c" = 3
							}
						}
						return -3
					}
					for r := 0; r < total; r++ {
						tab[r] = lookup(keys[r][0])
						tab2[r] = lookup(keys[r][1])
						if lookup(keys[r][0]) != tab[r] {
							tab2[r] = -9
						}
					}
					vh.Emit(map[string]interface{}{"ev": "tab", "cid": c.ID, "perm": pi*2 + rep, "strategy": st.name, "T": total, "tab": tab, "tab2": tab2})
				}
			}
		}
	})
	vh.Emit(map[string]interface{}{"summary": true, "cases": nCases})
	_ = bal_slb.WrrSticky
}
