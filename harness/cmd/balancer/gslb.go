package main

import (
	"encoding/json"
	"fmt"
	"net"
	"strings"

	"github.com/bfenetworks/bfe/bfe_balance/backend"
	"github.com/bfenetworks/bfe/bfe_balance/bal_gslb"
	"github.com/bfenetworks/bfe/bfe_basic"
	"github.com/bfenetworks/bfe/bfe_config/bfe_cluster_conf/cluster_conf"
	"github.com/bfenetworks/bfe/bfe_config/bfe_cluster_conf/cluster_table_conf"
	"github.com/bfenetworks/bfe/bfe_config/bfe_cluster_conf/gslb_conf"
	"github.com/bfenetworks/bfe/bfe_http"
	"github.com/spaolacci/murmur3"

	"verifharness/vh"
)

var subNames = []string{"GSLB_BLACKHOLE", "a", "b", "c"}

const naWeight = 9

type gslbExpect struct {
	Load    bool     `json:"load"`
	MustOk  bool     `json:"mustOk"`
	MustErr bool     `json:"mustErr"`
	OkSubs  []string `json:"okSubs"`
	MFirst  string   `json:"mFirst"`
	MOut    []struct {
		Kind string `json:"kind"`
		Sub  string `json:"sub"`
	} `json:"mOut"`
}

type gslbCase struct {
	ID         int        `json:"id"`
	Sw         []int      `json:"sw"`
	Shape      []string   `json:"shape"`
	RetryMax   int        `json:"retryMax"`
	CrossRetry int        `json:"crossRetry"`
	Rt         int        `json:"rt"`
	R          int        `json:"r"`
	Expect     gslbExpect `json:"expect"`
}

func errName(err error) string {
	switch err {
	case bfe_basic.ErrBkRetryTooMany:
		return "RetryTooMany"
	case bfe_basic.ErrGslbBlackhole:
		return "Blackhole"
	case bfe_basic.ErrBkNoBackend:
		return "NoBackend"
	case bfe_basic.ErrBkNoSubClusterCross:
		return "NoSubClusterCross"
	case bfe_basic.ErrBkCrossRetryBalance:
		return "CrossRetryBalance"
	case bfe_basic.ErrBkNoSubCluster:
		return "NoSubCluster"
	}
	return "other:" + err.Error()
}

func mkBackend(name, addr string, weight int) *cluster_table_conf.BackendConf {
	port := 80
	return &cluster_table_conf.BackendConf{Name: &name, Addr: &addr, Port: &port, Weight: &weight}
}

// buildGslb constructs a BalanceGslb from sub-cluster weights and backend-list shapes.
// shape: empty = no entry in the cluster table; down = two backends, both unavailable;
// nonpos = one weight-1 backend unavailable + one weight-0 backend available;
// one = first available, second unavailable; two = both available.
func buildGslb(sw []int, shape []string) (*bal_gslb.BalanceGslb, map[string]*backend.BfeBackend, error) {
	return buildGslbVia(sw, shape, 0)
}

// buildGslbVia: via = 0 builds with Init; via = 1 / 2 first initialises another configuration
// (1: only the last configured sub-cluster, weight 1; 2: every sub-cluster with weight 1) and
// then reaches the wanted one through Reload + BackendReload, as a gslb reload does.
func buildGslbVia(sw []int, shape []string, via int) (*bal_gslb.BalanceGslb, map[string]*backend.BfeBackend, error) {
	gc := gslb_conf.GslbClusterConf{}
	cb := cluster_table_conf.ClusterBackend{}
	for i, w := range sw {
		if w == naWeight {
			continue
		}
		n := subNames[i]
		gc[n] = w
		sh := shape[i]
		if sh == "empty" {
			continue
		}
		w2 := 1
		if sh == "nonpos" {
			w2 = 0
		}
		cb[n] = cluster_table_conf.SubClusterBackend{
			mkBackend(n+"1", fmt.Sprintf("10.0.%d.1", i), 1),
			mkBackend(n+"2", fmt.Sprintf("10.0.%d.2", i), w2),
		}
	}
	bal := bal_gslb.NewBalanceGslb("cl")
	if via == 0 {
		if err := bal.Init(gc); err != nil {
			return nil, nil, err
		}
		if err := bal.BackendInit(cb); err != nil {
			return nil, nil, err
		}
	} else {
		if err := gc.Check(); err != nil { // what the loader does before a reload
			return nil, nil, err
		}
		start := gslb_conf.GslbClusterConf{}
		last := ""
		for i, w := range sw {
			if w != naWeight {
				last = subNames[i]
				if via == 2 {
					start[subNames[i]] = 1
				}
			}
		}
		if via == 1 {
			start[last] = 1
		}
		if err := bal.Init(start); err != nil {
			return nil, nil, err
		}
		if err := bal.BackendInit(cb); err != nil {
			return nil, nil, err
		}
		if err := bal.Reload(gc); err != nil {
			return nil, nil, err
		}
		if err := bal.BackendReload(cb); err != nil {
			return nil, nil, err
		}
	}
	backs := map[string]*backend.BfeBackend{}
	for _, s := range bal.VerifSubs() {
		for _, b := range s.RR.VerifBackends() {
			backs[b.Name] = b
		}
	}
	for i, w := range sw {
		if w == naWeight {
			continue
		}
		n := subNames[i]
		switch shape[i] {
		case "down":
			backs[n+"1"].SetAvail(false)
			backs[n+"2"].SetAvail(false)
		case "nonpos":
			backs[n+"1"].SetAvail(false)
		case "one":
			backs[n+"2"].SetAvail(false)
		}
	}
	return bal, backs, nil
}

func setBasic(bal *bal_gslb.BalanceGslb, retryMax, crossRetry, strategy int, header string, sticky bool, mode string) {
	hc := &cluster_conf.HashConf{HashStrategy: &strategy, HashHeader: &header, SessionSticky: &sticky}
	bal.SetGslbBasic(cluster_conf.GslbBasicConf{CrossRetry: &crossRetry, RetryMax: &retryMax, HashConf: hc, BalanceMode: &mode})
}

func newReq(ip net.IP, uri string, hdr map[string]string) *bfe_basic.Request {
	hr, _ := bfe_http.NewRequest("GET", "http://example.org"+uri, nil)
	hr.RequestURI = uri
	for k, v := range hdr {
		hr.Header.Set(k, v)
	}
	req := bfe_basic.NewRequest(hr, nil, nil, nil, nil)
	if ip != nil {
		req.ClientAddr = &net.TCPAddr{IP: ip, Port: 12345}
	}
	return req
}

// ipForResidue finds an IPv4 client address whose murmur3 hash has the wanted residue.
func ipForResidue(res, total int, salt int) net.IP {
	for i := 0; ; i++ {
		v := uint32(salt*7919+i) * 2654435761
		ip := net.IP{10, byte(v >> 16), byte(v >> 8), byte(v)}
		if int(murmur3.Sum64(ip)%uint64(total)) == res {
			return ip
		}
	}
}

func positiveTotal(sw []int) int {
	t := 0
	for _, w := range sw {
		if w != naWeight && w > 0 {
			t += w
		}
	}
	return t
}

func gslbRun() {
	n, fails := 0, 0
	modes := []struct {
		mode   string
		sticky bool
	}{{"WRR", false}, {"WLC", false}, {"WRR", true}}
	vh.EachCase(func(line []byte) {
		var c gslbCase
		if err := json.Unmarshal(line, &c); err != nil {
			vh.Emit(map[string]interface{}{"_bad_case": string(line)})
			return
		}
		n++
		res := vh.Result{ID: c.ID, OK: true}
		fail := func(sig, detail string) {
			if res.OK {
				res.OK = false
				res.Sig = sig
				res.Detail = detail
				fails++
			}
		}
		for mi, m := range modes {
			var bal *bal_gslb.BalanceGslb
			var backs map[string]*backend.BfeBackend
			var lerr error
			if p := vh.Guard(func() { bal, backs, lerr = buildGslbVia(c.Sw, c.Shape, (c.ID+mi)%3) }); p != "" {
				fail("gslb/panic/build", p)
				break
			}
			if !c.Expect.Load {
				if lerr == nil {
					fail("gslb/load-accepted-total-weight<=0", fmt.Sprintf("sw=%v", c.Sw))
				}
				break
			}
			if lerr != nil {
				fail("gslb/load-rejected", lerr.Error())
				break
			}
			setBasic(bal, c.RetryMax, c.CrossRetry, cluster_conf.ClientIpOnly, "", m.sticky, m.mode)
			total := positiveTotal(c.Sw)
			req := newReq(ipForResidue(c.R%total, total, c.ID+mi), "/", nil)
			req.RetryTime = c.Rt
			var b *backend.BfeBackend
			var err error
			if p := vh.Guard(func() { b, err = bal.Balance(req) }); p != "" {
				fail("gslb/panic/balance", p)
				break
			}
			obs := map[string]interface{}{"mode": m.mode, "sticky": m.sticky, "sub": req.Backend.SubclusterName, "via_reload": (c.ID + mi) % 3}
			if err != nil {
				obs["err"] = errName(err)
				if c.Expect.MustOk {
					fail("gslb/error-although-target-eligible/"+errName(err), fmt.Sprintf("%v", obs))
				}
				okM := false
				for _, o := range c.Expect.MOut {
					if o.Kind == "err" && o.Sub == errName(err) {
						okM = true
					}
				}
				if !okM && res.Drift == "" {
					res.Drift = fmt.Sprintf("error %s not among the model's %v", errName(err), c.Expect.MOut)
				}
			} else {
				if b == nil {
					fail("gslb/nil-backend-without-error", fmt.Sprintf("%v", obs))
					break
				}
				obs["backend"] = b.Name
				sub := strings.TrimRight(b.Name, "12")
				if backs[b.Name] != b {
					fail("gslb/unknown-backend", b.Name)
				}
				if c.Expect.MustErr {
					fail("gslb/target-although-none-eligible/"+sub, fmt.Sprintf("%v", obs))
				}
				in := false
				for _, s := range c.Expect.OkSubs {
					if s == sub {
						in = true
					}
				}
				if !in && !c.Expect.MustErr {
					fail("gslb/target-from-disallowed-subcluster/"+sub, fmt.Sprintf("%v allowed=%v", obs, c.Expect.OkSubs))
				}
				// the backend itself must be eligible: available and (by construction) weight > 0
				idx := -1
				for i, nme := range subNames {
					if nme == sub {
						idx = i
					}
				}
				if !b.Avail() || (idx >= 0 && c.Shape[idx] == "nonpos" && strings.HasSuffix(b.Name, "2")) {
					fail("gslb/ineligible-backend", fmt.Sprintf("%v", obs))
				}
				if req.Backend.SubclusterName != sub && res.Drift == "" {
					res.Drift = "SubclusterName " + req.Backend.SubclusterName + " != sub-cluster of backend " + sub
				}
			}
			if mi == 0 {
				res.Obs = obs
			}
		}
		if !res.OK {
			res.Case = json.RawMessage(line)
		}
		vh.Emit(res)
	})
	vh.Emit(map[string]interface{}{"summary": true, "cases": n, "fails": fails})
}
