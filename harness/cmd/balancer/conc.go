package main

import (
	"encoding/json"
	"math/rand"
	"net"
	"sync"
	"sync/atomic"
	"time"

	"github.com/bfenetworks/bfe/bfe_balance"
	"github.com/bfenetworks/bfe/bfe_balance/backend"
	"github.com/bfenetworks/bfe/bfe_config/bfe_cluster_conf/cluster_conf"

	"verifharness/vh"
)

// C05: really concurrent use of the balancers (run with -race). Call start/end events are
// ordered by one atomic counter; validated by TraceConc.tla.

const concN = 4

type concCase struct {
	ID      int   `json:"id"`
	W       []int `json:"w"`
	Pickers int   `json:"pickers"`
	Ops     int   `json:"ops"` // operations per goroutine
	Seed    int64 `json:"seed"`
	NoLog   bool  `json:"nolog"` // no event recording: nothing but the balancer's own locks orders the goroutines (race detection)
}

type cEvent struct {
	seq int64
	m   map[string]interface{}
}

func concRun() {
	var cases []concCase
	vh.EachCase(func(line []byte) {
		var c concCase
		if json.Unmarshal(line, &c) == nil {
			cases = append(cases, c)
		}
	})
	algos := []string{"smooth", "simple", "sticky", "wlc_smooth", "wlc_simple"}
	done := 0
	for _, c := range cases {
		var seq int64
		var mu sync.Mutex
		var evs []cEvent
		log := func(m map[string]interface{}) {
			if c.NoLog {
				if m["ev"] == "pick_end" && (m["b"] == -1 || m["b"] == -2) {
					mu.Lock()
					m["cid"] = c.ID
					evs = append(evs, cEvent{0, map[string]interface{}{"ev": "end", "cid": c.ID, "panic": true, "detail": m}})
					mu.Unlock()
				}
				return
			}
			// the counter is advanced and the event stored under one lock: the stored order is the seq order
			mu.Lock()
			seq++
			m["cid"] = c.ID
			evs = append(evs, cEvent{seq, m})
			mu.Unlock()
		}
		ord := []int{1, 2, 3, 4}
		obj := newSlbObj(ord, c.W, "10.0.0.")
		av := []bool{true, true, true, true}
		vh.Emit(map[string]interface{}{"ev": "new", "cid": c.ID, "w": c.W, "av": av})
		var wg sync.WaitGroup
		var callID int64
		var panicked int32
		var hung int32
		stop := make(chan struct{})
		// pickers
		for p := 0; p < c.Pickers; p++ {
			wg.Add(1)
			go func(p int) {
				defer wg.Done()
				rnd := rand.New(rand.NewSource(c.Seed*131 + int64(p)))
				for i := 0; i < c.Ops; i++ {
					if atomic.LoadInt32(&hung) != 0 {
						return
					}
					algo := algos[rnd.Intn(len(algos))]
					id := int(atomic.AddInt64(&callID, 1))
					key := []byte{byte(rnd.Intn(256)), byte(rnd.Intn(256)), byte(p)}
					log(map[string]interface{}{"ev": "pick_start", "id": id, "algo": algo})
					var b *backend.BfeBackend
					var err error
					pn, fin := vh.GuardTimeout(5*time.Second, func() { b, err = obj.brr.Balance(algoNo[algo], key) })
					res := 0
					switch {
					case !fin:
						res = -2
						atomic.StoreInt32(&hung, 1)
					case pn != "":
						res = -1
					case err != nil:
						res = 0
					default:
						res = -3
						for bid, bo := range obj.backs {
							if bo == b {
								res = bid
							}
						}
						if res == -3 {
							res = -1
						}
					}
					pe := map[string]interface{}{"ev": "pick_end", "id": id, "b": res, "algo": algo}
					if pn != "" {
						pe["detail"] = pn
					} else if res == -1 {
						pe["detail"] = "returned backend is not one of the configured objects"
					}
					log(pe)
				}
			}(p)
		}
		// flippers: one per backend (no two flips of the same backend overlap)
		for b := 1; b <= concN; b++ {
			wg.Add(1)
			go func(b int) {
				defer wg.Done()
				rnd := rand.New(rand.NewSource(c.Seed*977 + int64(b)))
				cur := true
				for i := 0; i < c.Ops/4; i++ {
					if atomic.LoadInt32(&hung) != 0 {
						return
					}
					if rnd.Intn(3) != 0 {
						time.Sleep(time.Duration(rnd.Intn(200)) * time.Microsecond)
					}
					cur = !cur
					log(map[string]interface{}{"ev": "flip_start", "b": b, "v": cur})
					obj.backs[b].SetAvail(cur)
					log(map[string]interface{}{"ev": "flip_end", "b": b, "v": cur})
				}
			}(b)
		}
		// reloader: same backends, new weights
		wg.Add(1)
		go func() {
			defer wg.Done()
			rnd := rand.New(rand.NewSource(c.Seed * 31))
			for i := 0; i < c.Ops/8; i++ {
				if atomic.LoadInt32(&hung) != 0 {
					return
				}
				time.Sleep(time.Duration(rnd.Intn(300)) * time.Microsecond)
				w := []int{rnd.Intn(4) - 1, rnd.Intn(4) - 1, rnd.Intn(3), rnd.Intn(3)}
				log(map[string]interface{}{"ev": "upd_start", "w": w})
				if p := vh.Guard(func() { obj.brr.Update(mkConf(ord, w, obj.base)) }); p != "" {
					atomic.StoreInt32(&panicked, 1)
				}
				log(map[string]interface{}{"ev": "upd_end", "w": w})
			}
		}()
		// slow-start setter
		wg.Add(1)
		go func() {
			defer wg.Done()
			for i := 0; i < c.Ops/8; i++ {
				obj.brr.SetSlowStart(i % 3)
				time.Sleep(100 * time.Microsecond)
			}
		}()
		wg.Wait()
		close(stop)
		mu.Lock()
		for _, e := range evs {
			vh.Emit(e.m)
		}
		mu.Unlock()
		vh.Emit(map[string]interface{}{"ev": "end", "cid": c.ID, "panic": atomic.LoadInt32(&panicked) == 1})
		done++
		if atomic.LoadInt32(&hung) != 0 {
			break
		}
	}
	// second phase: cluster level — BalTable reloads against concurrent Balance (panic / race / hang only)
	tp := concTable(cases)
	vh.Emit(map[string]interface{}{"summary": true, "cases": done, "table_phase": tp})
}

func concTable(cases []concCase) map[string]interface{} {
	out := map[string]interface{}{"balances": 0, "reloads": 0, "panic": "", "hang": false}
	if len(cases) == 0 {
		return out
	}
	dir, gf, tf := tmpConfDir()
	defer cleanup(dir)
	confA := [][]string{{"c1", "s1", "b1"}, {"c1", "s1", "b2"}, {"c1", "s2", "b3"}, {"c2", "s1", "b1"}}
	confB := [][]string{{"c1", "s1", "b2"}, {"c1", "s2", "b1"}, {"c1", "s2", "b3"}}
	confC := [][]string{{"c1", "s2", "b2"}, {"c2", "s1", "b2"}, {"c2", "s2", "b3"}}
	_ = gf
	_ = tf
	g, t, _ := writeConfs(dir, confA, 0)
	tbl := bfe_balance.NewBalTable(nil)
	if err := tbl.Init(g, t); err != nil {
		out["panic"] = "init: " + err.Error()
		return out
	}
	var wg sync.WaitGroup
	var nb, nr int64
	var pmu sync.Mutex
	stop := int32(0)
	for p := 0; p < 6; p++ {
		wg.Add(1)
		go func(p int) {
			defer wg.Done()
			for i := 0; atomic.LoadInt32(&stop) == 0 && i < 4000; i++ {
				pn, fin := vh.GuardTimeout(5*time.Second, func() {
					for _, cn := range []string{"c1", "c2"} {
						bal, err := tbl.Lookup(cn)
						if err != nil {
							continue
						}
						req := newReq(net.IP{10, 3, byte(p), byte(i)}, "/", nil)
						req.RetryTime = i % 4
						bal.Balance(req)
						bal.SetSlowStart(*defaultBackendBasic(i % 2))
						if i%7 == 0 {
							// server-data reloads push new gslb settings (hash strategy / header, retries, mode)
							strategies := []int{cluster_conf.ClientIpOnly, cluster_conf.ClientIdOnly, cluster_conf.ClientIdPreferred, cluster_conf.RequestURI}
							setBasic(bal, i%3, i%2, strategies[i%4], []string{"X-Id", "Cookie:UID", ""}[i%3], i%5 == 0, []string{"WRR", "WLC"}[i%2])
						}
					}
				})
				atomic.AddInt64(&nb, 1)
				if !fin {
					out["hang"] = true
					atomic.StoreInt32(&stop, 1)
					return
				}
				if pn != "" {
					pmu.Lock()
					out["panic"] = pn
					pmu.Unlock()
				}
			}
		}(p)
	}
	wg.Add(1)
	go func() {
		defer wg.Done()
		confs := [][][]string{confB, confC, confA}
		for i := 0; i < 60 && atomic.LoadInt32(&stop) == 0; i++ {
			d2, _, _ := tmpConfDir()
			g, t, _ := writeConfs(d2, confs[i%3], i+1)
			pn := vh.Guard(func() {
				gc, tc, err := tbl.BalTableConfLoad(g, t)
				if err == nil {
					tbl.BalTableReload(gc, tc)
				}
				tbl.GetState()
			})
			cleanup(d2)
			atomic.AddInt64(&nr, 1)
			if pn != "" {
				pmu.Lock()
				out["panic"] = pn
				pmu.Unlock()
			}
			time.Sleep(500 * time.Microsecond)
		}
		atomic.StoreInt32(&stop, 1)
	}()
	wg.Wait()
	out["balances"], out["reloads"] = nb, nr
	return out
}
