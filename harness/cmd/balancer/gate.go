package main

import (
	"encoding/json"
	"fmt"

	"github.com/bfenetworks/bfe/bfe_balance/bal_slb"

	"verifharness/vh"
)

// C05: deterministic replay of an availability flip landing between the two passes of a
// least-connection pick (SlbGate.tla), using the verif scheduler gate in bal_slb.

type gateCase struct {
	ID    int    `json:"id"`
	W     []int  `json:"w"`
	Conns []int  `json:"conns"`
	Av    []bool `json:"av"`
	Flips []int  `json:"flips"`
	Algo  string `json:"algo"`
	Could []int  `json:"could"`
	ErrOk bool   `json:"errOk"`
	MOut  []int  `json:"mOut"`
}

func inInts(x int, s []int) bool {
	for _, y := range s {
		if x == y {
			return true
		}
	}
	return false
}

func gateRun() {
	n, gated := 0, 0
	vh.EachCase(func(line []byte) {
		var c gateCase
		if err := json.Unmarshal(line, &c); err != nil {
			vh.Emit(map[string]interface{}{"_bad_case": string(line)})
			return
		}
		n++
		ord := make([]int, len(c.W))
		for i := range ord {
			ord[i] = i + 1
		}
		obj := newSlbObj(ord, c.W, "10.0.0.")
		for i, k := range c.Conns {
			for j := 0; j < k; j++ {
				obj.backs[i+1].IncConnNum()
			}
		}
		for i, a := range c.Av {
			obj.backs[i+1].SetAvail(a)
		}
		fired := false
		bal_slb.VerifGate = func(point string) {
			if point != "lc_second_pass" || fired {
				return
			}
			fired = true
			for _, b := range c.Flips {
				bk := obj.backs[b]
				bk.SetAvail(!bk.Avail())
			}
		}
		id, detail := obj.pick(c.Algo, nil)
		bal_slb.VerifGate = nil
		if fired {
			gated++
		}
		res := vh.Result{ID: c.ID, OK: true, Obs: map[string]interface{}{"reply": id, "gate_reached": fired}}
		switch {
		case id == -1:
			res.OK, res.Sig, res.Detail = false, "panic/"+c.Algo+"/flip-between-passes", detail
		case id == -2:
			res.OK, res.Sig, res.Detail = false, "hang/"+c.Algo+"/flip-between-passes", detail
		case id == 0 && !c.ErrOk:
			res.OK, res.Sig = false, "ErrorAlthoughEligibleThroughout/"+c.Algo+"/flip-between-passes"
			res.Detail = fmt.Sprintf("error %q although some backend was eligible before the flips and some after (ever eligible: %v)", detail, c.Could)
		case id > 0 && !inInts(id, c.Could):
			res.OK, res.Sig = false, "IneligibleThroughoutCall/"+c.Algo+"/flip-between-passes"
			res.Detail = fmt.Sprintf("returned %d, never eligible during the call (could=%v)", id, c.Could)
		case id < -2:
			res.OK, res.Sig, res.Detail = false, "unknown-backend/"+c.Algo, detail
		}
		if res.OK && !inInts(id, c.MOut) {
			res.Drift = fmt.Sprintf("reply %d not among the model's %v", id, c.MOut)
		}
		if !res.OK {
			res.Case = json.RawMessage(line)
		}
		vh.Emit(res)
	})
	vh.Emit(map[string]interface{}{"summary": true, "cases": n, "gate_reached": gated})
}
