package main

import (
	"encoding/json"
	"fmt"
	"strconv"
	"time"

	"github.com/bfenetworks/bfe/bfe_balance/backend"
	"github.com/bfenetworks/bfe/bfe_balance/bal_slb"
	"github.com/bfenetworks/bfe/bfe_config/bfe_cluster_conf/cluster_table_conf"
	"github.com/spaolacci/murmur3"

	"verifharness/vh"
)

// TraceN is the number of backend slots of the trace spec (specs/Balancer/Trace.cfg).
const TraceN = 6

type slbOp struct {
	Op   string `json:"op"`
	N    int    `json:"n"`
	Ord  []int  `json:"ord"`
	W    []int  `json:"w"`
	Algo string `json:"algo"`
	R    int    `json:"r"`
	ExpM *int   `json:"expM"`
	B    int    `json:"b"`
	D    int    `json:"d"`
	Keep []int  `json:"keep"` // update: ids present in the new conf (nil = all)
	T    int    `json:"t"`    // slowstart: slow_start_time in seconds; sleep: milliseconds
}

type slbCase struct {
	ID   int     `json:"id"`
	Twin bool    `json:"twin"` // run a second fresh object side by side (C01 determinism)
	Ops  []slbOp `json:"ops"`
}

var algoNo = map[string]int{
	"simple": bal_slb.WrrSimple, "smooth": bal_slb.WrrSmooth, "sticky": bal_slb.WrrSticky,
	"wlc_simple": bal_slb.WlcSimple, "wlc_smooth": bal_slb.WlcSmooth,
}

func mkConf(ord, w []int, addrBase string) cluster_table_conf.SubClusterBackend {
	var conf cluster_table_conf.SubClusterBackend
	for _, id := range ord {
		name := "b" + strconv.Itoa(id)
		addr := addrBase + strconv.Itoa(id)
		port := 80
		weight := w[id-1]
		conf = append(conf, &cluster_table_conf.BackendConf{Name: &name, Addr: &addr, Port: &port, Weight: &weight})
	}
	return conf
}

func pad(w []int) []int {
	out := make([]int, TraceN)
	copy(out, w)
	return out
}

type slbObj struct {
	brr   *bal_slb.BalanceRR
	backs map[int]*backend.BfeBackend
	ord   []int
	base  string
	dead  bool
}

func newSlbObj(ord, w []int, base string) *slbObj {
	o := &slbObj{brr: bal_slb.NewBalanceRR("sub"), backs: map[int]*backend.BfeBackend{}, ord: ord, base: base}
	o.brr.Init(mkConf(ord, w, base))
	for _, b := range o.brr.VerifBackends() {
		id, _ := strconv.Atoi(b.Name[1:])
		o.backs[id] = b
	}
	return o
}

// refresh re-reads the backend objects after a reload
func (o *slbObj) refresh() {
	o.backs = map[int]*backend.BfeBackend{}
	o.ord = nil
	for _, b := range o.brr.VerifBackends() {
		id, _ := strconv.Atoi(b.Name[1:])
		o.backs[id] = b
		o.ord = append(o.ord, id)
	}
}

// freshLike builds a new object from o's current ordered weight list (and availability)
func freshLike(o *slbObj, w []int, base string) *slbObj {
	o.refresh()
	f := newSlbObj(o.ord, w, base)
	for id, b := range o.backs {
		if fb, ok := f.backs[id]; ok {
			fb.SetAvail(b.Avail())
		}
	}
	return f
}

// stickyKey finds a key whose murmur3 hash has residue r modulo the current eligible
// (scaled) weight sum; r is given in units of configured weight.
func (o *slbObj) stickyKey(r int, salt int) []byte {
	if o.dead {
		return []byte("k")
	}
	total := 0
	for _, s := range o.brr.VerifSnapshot() {
		if s.Avail && s.Weight > 0 {
			total += s.Weight
		}
	}
	if total == 0 {
		return []byte("k")
	}
	scale := 100
	want := uint64(r*scale + salt%scale)
	if want >= uint64(total) {
		want = uint64(r) % uint64(total)
	}
	for i := 0; ; i++ {
		k := []byte(fmt.Sprintf("key-%d-%d", salt, i))
		if murmur3.Sum64(k)%uint64(total) == want {
			return k
		}
	}
}

// pick returns id (>0), 0 = error, -1 = panic, -2 = hang, -3 = backend not of this object
func (o *slbObj) pick(algo string, key []byte) (int, string) {
	if o.dead {
		return -2, "object abandoned after hang"
	}
	var b *backend.BfeBackend
	var err error
	p, fin := vh.GuardTimeout(3*time.Second, func() { b, err = o.brr.Balance(algoNo[algo], key) })
	if !fin {
		o.dead = true
		hangs++
		return -2, "Balance did not return within 3s"
	}
	if p != "" {
		return -1, p
	}
	if err != nil {
		return 0, err.Error()
	}
	if b == nil {
		return -3, "nil backend without error"
	}
	id, e := strconv.Atoi(b.Name[1:])
	if e != nil || o.backs[id] != b {
		return -3, "backend object not in the current list: " + b.Name
	}
	return id, ""
}

// hangs counts calls that never returned; each leaks a goroutine that may spin, so the
// run is cut short after a few of them (the hung cases are already reported).
var hangs int

func slbRun() {
	nCases, nEvents, nDrift := 0, 0, 0
	var drifts []string
	rnd := vh.Rand(7)
	vh.EachCase(func(line []byte) {
		var c slbCase
		if err := json.Unmarshal(line, &c); err != nil || len(c.Ops) == 0 || c.Ops[0].Op != "load" {
			vh.Emit(map[string]interface{}{"_bad_case": string(line)})
			return
		}
		if hangs >= 3 {
			return
		}
		nCases++
		ld := c.Ops[0]
		w := append([]int{}, ld.W...)
		av := make([]bool, TraceN)
		for i := range w {
			av[i] = true
		}
		obj := newSlbObj(ld.Ord, w, "10.0.0.")
		var twin, fresh *slbObj
		if c.Twin {
			twin = newSlbObj(ld.Ord, w, "10.9.9.") // other names/addresses, same ordered weight list
			fresh = newSlbObj(ld.Ord, w, "10.8.8.") // replaced by a newly built object at every reload
		}
		vh.Emit(map[string]interface{}{"ev": "load", "cid": c.ID, "w": pad(w), "av": av})
		nEvents++
		ramping := false
		sharing := false
		effWeights := func() []int {
			o := make([]int, TraceN)
			for _, st := range obj.brr.VerifSnapshot() {
				id, _ := strconv.Atoi(st.Name[1:])
				o[id-1] = st.Weight
			}
			return o
		}
		for _, op := range c.Ops[1:] {
			if obj.dead {
				break
			}
			if op.Op == "sleep" {
				time.Sleep(time.Duration(op.T) * time.Millisecond)
				continue
			}
			if op.Op == "ssdone" {
				// the ramp-up period is over: from here on the configured shares apply again
				ramping = false
				sharing = true
				vh.Emit(map[string]interface{}{"ev": "ssdone", "cid": c.ID})
				nEvents++
				continue
			}
			if op.Op == "sharecheck" {
				vh.Emit(map[string]interface{}{"ev": "sharecheck", "cid": c.ID})
				nEvents++
				continue
			}
			if op.Op == "slowstart" {
				// a backend brought back by the health check: weight ramps from 1 to its full value
				obj.brr.SetSlowStart(op.T)
				obj.backs[op.B].SetRestart(true)
				ramping = true
				continue
			}
			nEvents++
			switch op.Op {
			case "pick":
				var key []byte
				if op.Algo == "sticky" {
					key = obj.stickyKey(op.R, rnd.Intn(1000))
				}
				if ramping {
					before := effWeights()
					id, detail := obj.pick(op.Algo, key)
					after := before
					if !obj.dead { // a hung call still holds the balancer lock
						after = effWeights()
					}
					lo, hi := make([]int, TraceN), make([]int, TraceN)
					for i := range lo {
						lo[i], hi[i] = before[i], after[i]
						if after[i] < lo[i] {
							lo[i] = after[i]
						}
						if before[i] > hi[i] {
							hi[i] = before[i]
						}
					}
					ev := map[string]interface{}{"ev": "pickw", "cid": c.ID, "algo": op.Algo, "b": id, "wlo": lo, "whi": hi}
					if detail != "" && id < 0 {
						ev["detail"] = detail
					}
					vh.Emit(ev)
					continue
				}
				if sharing {
					id, _ := obj.pick(op.Algo, key)
					vh.Emit(map[string]interface{}{"ev": "pshare", "cid": c.ID, "b": id})
					continue
				}
				id, detail := obj.pick(op.Algo, key)
				ev := map[string]interface{}{"ev": "pick", "cid": c.ID, "algo": op.Algo, "b": id}
				if detail != "" && id < 0 {
					ev["detail"] = detail
				}
				if twin != nil {
					id2, _ := twin.pick(op.Algo, key)
					ev["b2"] = id2
					id3, _ := fresh.pick(op.Algo, key)
					ev["b3"] = id3
				}
				if op.ExpM != nil && *op.ExpM >= 0 && id >= 0 && id != *op.ExpM {
					nDrift++
					if len(drifts) < 5 {
						drifts = append(drifts, fmt.Sprintf("case %d %s: model %d, code %d", c.ID, op.Algo, *op.ExpM, id))
					}
				}
				vh.Emit(ev)
			case "flip":
				b := obj.backs[op.B]
				b.SetAvail(!b.Avail())
				if twin != nil {
					t := twin.backs[op.B]
					t.SetAvail(!t.Avail())
					f := fresh.backs[op.B]
					f.SetAvail(!f.Avail())
				}
				vh.Emit(map[string]interface{}{"ev": "flip", "cid": c.ID, "b": op.B})
			case "conn":
				for _, o := range []*slbObj{obj, twin, fresh} {
					if o == nil {
						continue
					}
					if op.D > 0 {
						o.backs[op.B].IncConnNum()
					} else {
						o.backs[op.B].DecConnNum()
					}
				}
				vh.Emit(map[string]interface{}{"ev": "conn", "cid": c.ID, "b": op.B, "d": op.D})
			case "update":
				w = append([]int{}, op.W...)
				if obj.dead {
					continue
				}
				// new conf: surviving backends in their current order, then the added ones
				confOrd := func(o *slbObj) []int {
					o.refresh()
					if op.Keep == nil {
						return o.ord
					}
					var out []int
					for _, id := range o.ord {
						if inInts(id, op.Keep) {
							out = append(out, id)
						}
					}
					for _, id := range op.Keep {
						if !inInts(id, o.ord) {
							out = append(out, id)
						}
					}
					return out
				}
				if p := vh.Guard(func() { obj.brr.Update(mkConf(confOrd(obj), w, obj.base)); obj.refresh() }); p != "" {
					vh.Emit(map[string]interface{}{"ev": "pick", "cid": c.ID, "algo": "update", "b": -1, "detail": p})
					continue
				}
				if twin != nil && !twin.dead {
					twin.brr.Update(mkConf(confOrd(twin), w, twin.base))
					twin.refresh()
					fresh = freshLike(obj, w, "10.8.8.")
				}
				// availability / connection counts of the configured backends as they are after the reload
				avNow, cnNow := make([]bool, TraceN), make([]int, TraceN)
				for id, b := range obj.backs {
					avNow[id-1], cnNow[id-1] = b.Avail(), b.ConnNum()
				}
				vh.Emit(map[string]interface{}{"ev": "update", "cid": c.ID, "w": pad(w), "av": avNow, "cn": cnNow})
			}
		}
	})
	vh.Emit(map[string]interface{}{"summary": true, "cases": nCases, "events": nEvents, "drift": nDrift, "drift_examples": drifts, "hangs": hangs})
}
