package main

import (
	"io/ioutil"
	"os"

	"github.com/bfenetworks/bfe/bfe_config/bfe_cluster_conf/cluster_conf"
)

func tmpConfDir() (string, string, string) {
	d, err := ioutil.TempDir("", "verif-conc")
	if err != nil {
		panic(err)
	}
	return d, d + "/gslb.data", d + "/cluster_table.data"
}

func cleanup(d string) { os.RemoveAll(d) }

func defaultBackendBasic(ss int) *cluster_conf.BackendBasic {
	return &cluster_conf.BackendBasic{SlowStartTime: &ss}
}
