// Command balancer binds the Balancer specs (specs/Balancer) to bfe_balance.
package main

import (
	"fmt"
	"os"

	"verifharness/vh"
)

func main() {
	if len(os.Args) < 2 {
		fmt.Fprintln(os.Stderr, "usage: balancer <slb-run|...>")
		os.Exit(2)
	}
	defer vh.Flush()
	switch os.Args[1] {
	case "slb-run":
		slbRun()
	case "gslb-run":
		gslbRun()
	case "sticky-run":
		stickyRun()
	case "reload-run":
		reloadRun()
	case "health-run":
		healthRun()
	case "conc-run":
		concRun()
	case "gate-run":
		gateRun()
	default:
		fmt.Fprintln(os.Stderr, "unknown subcommand", os.Args[1])
		vh.Flush()
		os.Exit(2)
	}
}
