package main

import (
	"encoding/json"
	"net"
	"runtime"
	"strconv"
	"sync"
	"sync/atomic"
	"time"

	"github.com/bfenetworks/bfe/bfe_balance/backend"
	"github.com/bfenetworks/bfe/bfe_config/bfe_cluster_conf/cluster_conf"
	"github.com/bfenetworks/bfe/bfe_config/bfe_cluster_conf/cluster_table_conf"

	"verifharness/vh"
)

// C06: real backends, real health-check goroutines against a loopback listener the harness
// opens and closes; hooks (build tag verif) in bfe_balance/backend record the events.

type healthOp struct {
	Op      string `json:"op"`
	T       int    `json:"t"`
	Ok      bool   `json:"ok"`
	SuccNum int    `json:"succNum"` // op "conf": the cluster's health-check success threshold is reloaded
}
type healthCase struct {
	ID      int        `json:"id"`
	FailNum int        `json:"failNum"`
	SuccNum int        `json:"succNum"`
	Ops     []healthOp `json:"ops"`
}

type hEvent struct {
	Ev    string `json:"ev"`
	Cid   int    `json:"cid"`
	Seq   int64  `json:"seq"`
	G     int    `json:"g"`
	Avail bool   `json:"avail"`
	Fail  int    `json:"fail"`
	Succ  int    `json:"succ"`
	Arg   int    `json:"arg"`
}

func goid() int {
	var buf [64]byte
	n := runtime.Stack(buf[:], false)
	// "goroutine 123 [running]:"
	s := string(buf[10:n])
	for i := 0; i < len(s); i++ {
		if s[i] == ' ' {
			id, _ := strconv.Atoi(s[:i])
			return id
		}
	}
	return 0
}

type hRec struct {
	mu  sync.Mutex
	seq int64
	evs []hEvent
	cid int
}

// toggled listener: when closed the port refuses connections
type toggleListener struct {
	mu   sync.Mutex
	addr *net.TCPAddr
	ln   net.Listener
}

func (t *toggleListener) set(open bool) {
	t.mu.Lock()
	defer t.mu.Unlock()
	if open && t.ln == nil {
		for i := 0; i < 50; i++ {
			ln, err := net.ListenTCP("tcp", t.addr)
			if err == nil {
				t.ln = ln
				go func() {
					for {
						c, err := ln.Accept()
						if err != nil {
							return
						}
						c.Close()
					}
				}()
				return
			}
			time.Sleep(2 * time.Millisecond)
		}
	} else if !open && t.ln != nil {
		t.ln.Close()
		t.ln = nil
	}
}

var (
	recMu   sync.Mutex
	recs    = map[*backend.BfeBackend]*hRec{}
	confs   = map[string]*cluster_conf.BackendCheck{}
	confsMu sync.Mutex
)

func healthRun() {
	backend.VerifTracer = func(ev string, b *backend.BfeBackend, avail bool, fail, succ, arg int) {
		recMu.Lock()
		r := recs[b]
		recMu.Unlock()
		if r == nil {
			return
		}
		g := goid()
		r.mu.Lock()
		r.seq++
		r.evs = append(r.evs, hEvent{ev, r.cid, r.seq, g, avail, fail, succ, arg})
		r.mu.Unlock()
	}
	backend.SetCheckConfFetcher(func(cluster string) *cluster_conf.BackendCheck {
		confsMu.Lock()
		defer confsMu.Unlock()
		return confs[cluster]
	})
	var cases []healthCase
	vh.EachCase(func(line []byte) {
		var c healthCase
		if json.Unmarshal(line, &c) == nil {
			cases = append(cases, c)
		}
	})
	const interval = 8 // ms
	sem := make(chan struct{}, 24)
	var wg sync.WaitGroup
	var nDone int32
	var blocksMu sync.Mutex
	var blocks [][]interface{}
	for _, c := range cases {
		wg.Add(1)
		sem <- struct{}{}
		go func(c healthCase) {
			defer wg.Done()
			defer func() { <-sem }()
			// reserve a loopback port
			ln0, err := net.ListenTCP("tcp", &net.TCPAddr{IP: net.IPv4(127, 0, 0, 1)})
			if err != nil {
				return
			}
			addr := ln0.Addr().(*net.TCPAddr)
			ln0.Close()
			tl := &toggleListener{addr: addr}
			cluster := "cl" + strconv.Itoa(c.ID)
			schem, iv, to := "tcp", interval, 200
			fn, sn := c.FailNum, c.SuccNum
			confsMu.Lock()
			confs[cluster] = &cluster_conf.BackendCheck{Schem: &schem, FailNum: &fn, SuccNum: &sn, CheckInterval: &iv, CheckTimeout: &to}
			confsMu.Unlock()
			b := backend.NewBfeBackend()
			name, ip, w := "hb", "127.0.0.1", 1
			b.Init("sub", &cluster_table_conf.BackendConf{Name: &name, Addr: &ip, Port: &addr.Port, Weight: &w})
			rec := &hRec{cid: c.ID}
			recMu.Lock()
			recs[b] = rec
			recMu.Unlock()
			// request threads
			chans := map[int]chan string{}
			var twg sync.WaitGroup
			panicked := int32(0)
			for t := 1; t <= 3; t++ {
				ch := make(chan string, 64)
				chans[t] = ch
				twg.Add(1)
				go func() {
					defer twg.Done()
					for op := range ch {
						p := vh.Guard(func() {
							if op == "fail" {
								b.OnFail(cluster)
							} else {
								b.OnSuccess()
							}
						})
						if p != "" {
							atomic.StoreInt32(&panicked, 1)
						}
					}
				}()
			}
			released := false
			for _, op := range c.Ops {
				switch op.Op {
				case "fail", "succ":
					chans[op.T] <- op.Op
				case "conf":
					nsn := op.SuccNum
					nfn, nschem, niv, nto := c.FailNum, "tcp", interval, 200
					confsMu.Lock()
					confs[cluster] = &cluster_conf.BackendCheck{Schem: &nschem, FailNum: &nfn, SuccNum: &nsn, CheckInterval: &niv, CheckTimeout: &nto}
					confsMu.Unlock()
					rec.mu.Lock()
					rec.seq++
					rec.evs = append(rec.evs, hEvent{Ev: "conf", Cid: rec.cid, Seq: rec.seq, Succ: nsn})
					rec.mu.Unlock()
				case "probe":
					tl.set(op.Ok)
					time.Sleep(time.Duration(interval+3) * time.Millisecond)
				case "release":
					if !released {
						released = true
						if p := vh.Guard(func() { b.Release() }); p != "" {
							atomic.StoreInt32(&panicked, 1)
						}
					}
				}
			}
			for _, ch := range chans {
				close(ch)
			}
			twg.Wait()
			// let a few more probes happen, then release (if not yet) and wait for quiescence
			tl.set(true)
			time.Sleep(time.Duration(3*interval) * time.Millisecond)
			if !released {
				if p := vh.Guard(func() { b.Release() }); p != "" {
					atomic.StoreInt32(&panicked, 1)
				}
			}
			// a probe in flight may take up to CheckTimeout; interval sleep follows it
			deadline := time.Now().Add(2 * time.Second)
			for time.Now().Before(deadline) {
				time.Sleep(time.Duration(2*interval) * time.Millisecond)
				rec.mu.Lock()
				starts, exits := 0, 0
				for _, e := range rec.evs {
					if e.Ev == "check_start" {
						starts++
					} else if e.Ev == "check_exit" {
						exits++
					}
				}
				rec.mu.Unlock()
				if starts == exits {
					break
				}
			}
			tl.set(false)
			recMu.Lock()
			delete(recs, b)
			recMu.Unlock()
			rec.mu.Lock()
			block := []interface{}{map[string]interface{}{"ev": "new", "cid": c.ID, "failNum": c.FailNum, "succNum": c.SuccNum}}
			for _, e := range rec.evs {
				if e.Ev == "conf" {
					block = append(block, map[string]interface{}{"ev": "conf", "cid": e.Cid, "succNum": e.Succ})
					continue
				}
				block = append(block, e)
			}
			block = append(block, map[string]interface{}{"ev": "end", "cid": c.ID, "panic": atomic.LoadInt32(&panicked) == 1})
			rec.mu.Unlock()
			blocksMu.Lock()
			blocks = append(blocks, block)
			blocksMu.Unlock()
			atomic.AddInt32(&nDone, 1)
		}(c)
	}
	wg.Wait()
	for _, blk := range blocks {
		for _, e := range blk {
			vh.Emit(e)
		}
	}
	vh.Emit(map[string]interface{}{"summary": true, "cases": int(nDone)})
}
