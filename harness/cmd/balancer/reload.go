package main

import (
	"encoding/json"
	"fmt"
	"io/ioutil"
	"net"
	"os"
	"path/filepath"
	"sort"

	"github.com/bfenetworks/bfe/bfe_balance"
	"github.com/bfenetworks/bfe/bfe_balance/backend"

	"verifharness/vh"
)

// C09: reload histories on the real BalTable; snapshots validated by TraceReload.tla.

type reloadOp struct {
	Op    string     `json:"op"`
	Conf  [][]string `json:"conf"`
	Zero  [][]string `json:"zero"` // [cluster, sub] pairs configured with weight 0
	Extra [][]string `json:"extra"` // backends present in cluster_table.data only (their sub-cluster is not in gslb.data)
	K     []string   `json:"k"`
	Avail bool       `json:"avail"`
	D     int        `json:"d"`
	C     string     `json:"c"`
}
type reloadCase struct {
	ID  int        `json:"id"`
	Ops []reloadOp `json:"ops"`
}

var backAddr = map[string]string{"b1": "10.1.0.1", "b2": "10.1.0.2", "b3": "fd00::3", "b4": "10.1.0.4"}

func writeConfs(dir string, conf [][]string, ver int, zero ...[]string) (string, string, error) {
	return writeConfsX(dir, conf, nil, ver, zero...)
}

func writeConfsX(dir string, conf, extra [][]string, ver int, zero ...[]string) (string, string, error) {
	gslb := map[string]map[string]int{}
	table := map[string]map[string][]map[string]interface{}{}
	for _, k := range conf {
		c, s, b := k[0], k[1], k[2]
		if gslb[c] == nil {
			gslb[c] = map[string]int{}
			table[c] = map[string][]map[string]interface{}{}
		}
		gslb[c][s] = 1
		for _, z := range zero {
			if len(z) == 2 && z[0] == c && z[1] == s {
				gslb[c][s] = 0
			}
		}
		table[c][s] = append(table[c][s], map[string]interface{}{
			"Name": c + "." + s + "." + b, "Addr": backAddr[b], "Port": 80, "Weight": 1})
	}
	for _, k := range extra {
		c, s, b := k[0], k[1], k[2]
		if table[c] == nil {
			continue
		}
		table[c][s] = append(table[c][s], map[string]interface{}{
			"Name": c + "." + s + "." + b, "Addr": backAddr[b], "Port": 80, "Weight": 1})
	}
	g, _ := json.Marshal(map[string]interface{}{"Clusters": gslb, "Hostname": "verif", "Ts": fmt.Sprintf("%d", ver)})
	t, _ := json.Marshal(map[string]interface{}{"Config": table, "Version": fmt.Sprintf("v%d", ver)})
	gf, tf := filepath.Join(dir, "gslb.data"), filepath.Join(dir, "cluster_table.data")
	if err := ioutil.WriteFile(gf, g, 0644); err != nil {
		return "", "", err
	}
	if err := ioutil.WriteFile(tf, t, 0644); err != nil {
		return "", "", err
	}
	return gf, tf, nil
}

type snapObj struct {
	ID    int      `json:"id"`
	Key   []string `json:"key"`
	Avail bool     `json:"avail"`
	Conn  int      `json:"conn"`
}

func isClosed(b *backend.BfeBackend) bool {
	select {
	case <-b.CloseChan():
		return true
	default:
		return false
	}
}

func reloadRun() {
	dir, err := ioutil.TempDir("", "verif-reload")
	if err != nil {
		panic(err)
	}
	defer os.RemoveAll(dir)
	n := 0
	vh.EachCase(func(line []byte) {
		var c reloadCase
		if err := json.Unmarshal(line, &c); err != nil || len(c.Ops) == 0 {
			vh.Emit(map[string]interface{}{"_bad_case": string(line)})
			return
		}
		n++
		ids := map[*backend.BfeBackend]int{}
		var order []*backend.BfeBackend
		idOf := func(b *backend.BfeBackend) int {
			if id, ok := ids[b]; ok {
				return id
			}
			ids[b] = len(ids) + 1
			order = append(order, b)
			return ids[b]
		}
		var tbl *bfe_balance.BalTable
		snapshot := func() ([]snapObj, []int) {
			var snap []snapObj
			cl := tbl.VerifClusters()
			var cnames []string
			for k := range cl {
				cnames = append(cnames, k)
			}
			sort.Strings(cnames)
			for _, cn := range cnames {
				for _, sub := range cl[cn].VerifSubs() {
					for _, b := range sub.RR.VerifBackends() {
						bn := b.Name[len(b.Name)-2:]
						snap = append(snap, snapObj{idOf(b), []string{cn, sub.Name, bn}, b.Avail(), b.ConnNum()})
					}
				}
			}
			closed := []int{}
			for _, b := range order {
				if isClosed(b) {
					closed = append(closed, ids[b])
				}
			}
			if snap == nil {
				snap = []snapObj{}
			}
			return snap, closed
		}
		find := func(k []string) *backend.BfeBackend {
			cl := tbl.VerifClusters()[k[0]]
			if cl == nil {
				return nil
			}
			for _, sub := range cl.VerifSubs() {
				if sub.Name != k[1] {
					continue
				}
				for _, b := range sub.RR.VerifBackends() {
					if b.Name == k[0]+"."+k[1]+"."+k[2] {
						return b
					}
				}
			}
			return nil
		}
		for i, op := range c.Ops {
			switch op.Op {
			case "init", "reload":
				gf, tf, err := writeConfsX(dir, op.Conf, op.Extra, i, op.Zero...)
				if err != nil {
					panic(err)
				}
				var lerr error
				p := vh.Guard(func() {
					if op.Op == "init" {
						tbl = bfe_balance.NewBalTable(nil)
						lerr = tbl.Init(gf, tf)
					} else {
						g, t, e := tbl.BalTableConfLoad(gf, tf)
						if e != nil {
							lerr = e
							return
						}
						lerr = tbl.BalTableReload(g, t)
					}
				})
				zz := op.Zero
				if zz == nil {
					zz = [][]string{}
				}
				ev := map[string]interface{}{"ev": op.Op, "cid": c.ID, "conf": op.Conf, "zero": zz, "panic": p != ""}
				if p != "" {
					ev["snap"], ev["closed"], ev["detail"] = []snapObj{}, []int{}, p
				} else {
					ev["snap"], ev["closed"] = snapshot()
					if lerr != nil {
						ev["err"] = lerr.Error()
					}
				}
				vh.Emit(ev)
			case "touch":
				b := find(op.K)
				if b == nil {
					vh.Emit(map[string]interface{}{"ev": "touch", "cid": c.ID, "id": 0, "avail": false, "conn": 0, "missing": true})
					continue
				}
				b.SetAvail(op.Avail)
				if op.D > 0 {
					b.IncConnNum()
				}
				vh.Emit(map[string]interface{}{"ev": "touch", "cid": c.ID, "id": idOf(b), "avail": b.Avail(), "conn": b.ConnNum()})
			case "select":
				id := 0
				p := vh.Guard(func() {
					bal, err := tbl.Lookup(op.C)
					if err != nil {
						return
					}
					req := newReq(net.IP{10, 2, byte(i), byte(c.ID)}, "/", nil)
					b, err := bal.Balance(req)
					if err == nil && b != nil {
						id = idOf(b)
					}
				})
				if p != "" {
					id = -1
				}
				vh.Emit(map[string]interface{}{"ev": "select", "cid": c.ID, "c": op.C, "id": id})
			}
		}
	})
	vh.Emit(map[string]interface{}{"summary": true, "cases": n})
}
