package main

import (
	"encoding/json"
	"fmt"
	"os"
	"path/filepath"
	"strings"

	"github.com/bfenetworks/bfe/bfe_config/bfe_cluster_conf/cluster_conf"
	"github.com/bfenetworks/bfe/bfe_config/bfe_cluster_conf/cluster_table_conf"
	"github.com/bfenetworks/bfe/bfe_config/bfe_cluster_conf/gslb_conf"
	"github.com/bfenetworks/bfe/bfe_config/bfe_route_conf/host_rule_conf"
	"github.com/bfenetworks/bfe/bfe_config/bfe_route_conf/route_rule_conf"
	"github.com/bfenetworks/bfe/bfe_config/bfe_route_conf/vip_rule_conf"
	"github.com/bfenetworks/bfe/bfe_route"

	"verifharness/vh"
)

// C13: configuration shapes.  Case = GenConf.tla output.
type confCase struct {
	ID int               `json:"id"`
	K  string            `json:"k"` // sdc | gslb | ctable | file
	S  map[string]string `json:"s"` // field -> state
	E  string            `json:"e"` // accept | reject | gray   (Layer P)
	M  string            `json:"m"` // acc | rej                (Layer M)
	R  []string          `json:"r"` // reasons of a must-reject verdict (field=state of class R)
}

type obj = map[string]interface{}
type arr = []interface{}

func confRun() {
	eachCase(func(line []byte) {
		var c confCase
		if err := json.Unmarshal(line, &c); err != nil {
			vh.Emit(map[string]interface{}{"_bad_case": err.Error()})
			return
		}
		res := result{ID: c.ID, OK: true}
		if p := vh.Guard(func() { confCaseRun(&c, &res) }); p != "" {
			res.fail("harness-panic", p, nil)
		}
		vh.Emit(res)
	})
}

// ---- the documented baseline documents --------------------------------------------------

func docClusterConf() obj { // docs/en_us/configuration/server_data_conf/cluster_conf.data.md, first cluster
	return obj{
		"BackendConf": obj{"TimeoutConnSrv": 2000, "TimeoutResponseHeader": 50000, "MaxIdleConnsPerHost": 0,
			"MaxConnsPerHost": 0, "RetryLevel": 0, "OutlierDetectionHttpCode": "5xx|400"},
		"CheckConf": obj{"Schem": "http", "Uri": "/healthcheck", "Host": "example.org", "StatusCode": 200,
			"FailNum": 10, "CheckInterval": 1000},
		"GslbBasic": obj{"CrossRetry": 0, "RetryMax": 2,
			"HashConf": obj{"HashStrategy": 0, "HashHeader": "Cookie:UID", "SessionSticky": false}},
		"ClusterBasic": obj{"TimeoutReadClient": 30000, "TimeoutWriteClient": 60000, "TimeoutReadClientAgain": 30000,
			"ReqWriteBufferSize": 512, "ReqFlushInterval": 0, "ResFlushInterval": -1, "CancelOnClientClose": false},
	}
}

func docFcgiClusterConf() obj { // second cluster of the documented example
	c := docClusterConf()
	c["BackendConf"] = obj{"Protocol": "fcgi", "TimeoutConnSrv": 2000, "TimeoutResponseHeader": 50000,
		"MaxIdleConnsPerHost": 0, "RetryLevel": 0,
		"FCGIConf": obj{"Root": "/home/work", "EnvVars": obj{"VarKey": "VarVal"}}}
	return c
}

// place puts the subject element of a list at the position the shape asks for, among
// well-formed siblings: only [s], first [s p1], middle [p1 s p2], last [p1 s].
func place(pos string, subject interface{}, p1, p2 interface{}) arr {
	switch pos {
	case "first":
		return arr{subject, p1}
	case "middle":
		return arr{p1, subject, p2}
	case "last":
		return arr{p1, subject}
	}
	return arr{subject}
}

// container states shared by many fields: sets doc[key] according to st; returns true when handled
func container(doc obj, key, st string, okVal interface{}, badType interface{}) bool {
	switch st {
	case "ok":
		doc[key] = okVal
	case "absent":
		delete(doc, key)
	case "null":
		doc[key] = nil
	case "badtype":
		doc[key] = badType
	default:
		return false
	}
	return true
}

func setVersion(doc obj, key, st string) {
	if container(doc, key, st, "20190101000000", 20190101) {
		return
	}
	if st == "empty" {
		doc[key] = ""
		return
	}
	panic("version state " + st)
}

func buildHost(s map[string]string) obj {
	doc := obj{}
	setVersion(doc, "Version", s["hVersion"])
	switch st := s["hDefault"]; st {
	case "null":
		doc["DefaultProduct"] = nil
	case "absent":
	case "ok":
		doc["DefaultProduct"] = "p1"
	case "dangling":
		doc["DefaultProduct"] = "ghost_product"
	case "badtype":
		doc["DefaultProduct"] = 5
	case "empty":
		doc["DefaultProduct"] = ""
	default:
		panic("hDefault " + st)
	}
	pos := s["sPos"]
	hl := func(subject interface{}) arr { return place(pos, subject, "pad1.example.org", "pad2.example.org") }
	okHosts := obj{"tag1": hl("example.org")}
	if !container(doc, "Hosts", s["hHosts"], okHosts, arr{}) {
		switch st := s["hHosts"]; st {
		case "empty":
			doc["Hosts"] = obj{}
		case "vnull":
			doc["Hosts"] = obj{"tag1": nil}
		case "vbadtype":
			doc["Hosts"] = obj{"tag1": "example.org"}
		case "vempty":
			doc["Hosts"] = obj{"tag1": arr{}}
		case "ebadtype":
			doc["Hosts"] = obj{"tag1": hl(5)}
		case "tagdangling":
			doc["Hosts"] = obj{"tag1": hl("example.org"), "ghost_tag": arr{"ghost.example.org"}}
		default:
			panic("hHosts " + st)
		}
	}
	tl := func(subject interface{}) arr { return place(pos, subject, "padtag1", "padtag2") }
	okTags := obj{"p1": tl("tag1")}
	if !container(doc, "HostTags", s["hHostTags"], okTags, arr{}) {
		switch st := s["hHostTags"]; st {
		case "empty":
			doc["HostTags"] = obj{}
		case "vnull":
			doc["HostTags"] = obj{"p1": nil}
		case "vbadtype":
			doc["HostTags"] = obj{"p1": "tag1"}
		case "vempty":
			doc["HostTags"] = obj{"p1": arr{}}
		case "ebadtype":
			doc["HostTags"] = obj{"p1": tl(5)}
		default:
			panic("hHostTags " + st)
		}
	}
	return doc
}

func buildVip(s map[string]string) obj {
	doc := obj{}
	setVersion(doc, "Version", s["vVersion"])
	vl := func(subject interface{}) arr { return place(s["sPos"], subject, "111.111.111.121", "111.111.111.122") }
	ok := obj{"p1": vl("111.111.111.111")}
	if !container(doc, "Vips", s["vVips"], ok, arr{}) {
		switch st := s["vVips"]; st {
		case "empty":
			doc["Vips"] = obj{}
		case "vnull":
			doc["Vips"] = obj{"p1": nil}
		case "vbadtype":
			doc["Vips"] = obj{"p1": "111.111.111.111"}
		case "vempty":
			doc["Vips"] = obj{"p1": arr{}}
		case "ebadtype":
			doc["Vips"] = obj{"p1": vl(5)}
		case "badip":
			doc["Vips"] = obj{"p1": vl("300.1.1.1")}
		case "ipv6":
			doc["Vips"] = obj{"p1": vl("fd00::1")}
		case "proddangling":
			doc["Vips"] = obj{"p1": vl("111.111.111.111"), "ghost_product": arr{"111.111.111.112"}}
		default:
			panic("vVips " + st)
		}
	}
	return doc
}

func buildRoute(s map[string]string) obj {
	doc := obj{}
	setVersion(doc, "Version", s["rVersion"])
	// first advanced rule carries the Cond / ClusterName states
	r1 := obj{"Cond": `req_host_in("example.org")`, "ClusterName": "c1"}
	switch st := s["rCond"]; st {
	case "ok":
	case "absent":
		delete(r1, "Cond")
	case "null":
		r1["Cond"] = nil
	case "badtype":
		r1["Cond"] = 5
	case "syntaxerr":
		r1["Cond"] = `req_host_in("example.org"`
	case "unknownprim":
		r1["Cond"] = `no_such_primitive("example.org")`
	case "empty":
		r1["Cond"] = ""
	default:
		panic("rCond " + st)
	}
	switch st := s["rAdvCluster"]; st {
	case "ok":
	case "absent":
		delete(r1, "ClusterName")
	case "null":
		r1["ClusterName"] = nil
	case "badtype":
		r1["ClusterName"] = 5
	case "dangling":
		r1["ClusterName"] = "ghost_cluster"
	case "empty":
		r1["ClusterName"] = ""
	default:
		panic("rAdvCluster " + st)
	}
	pos := s["sPos"]
	defRule := obj{"Cond": "default_t()", "ClusterName": "c1"} // "There must be one Default Rule"
	padRule := obj{"Cond": `req_path_in("/pad1", false)`, "ClusterName": "c1"}
	advList := func(subject interface{}) arr {
		switch pos {
		case "first":
			return arr{subject, padRule, defRule}
		case "middle":
			return arr{padRule, subject, defRule}
		case "last":
			return arr{padRule, defRule, subject}
		}
		return arr{subject, defRule} // the documented example
	}
	okAdv := obj{"p1": advList(r1)}
	if !container(doc, "ProductRule", s["rProductRule"], okAdv, arr{}) {
		switch st := s["rProductRule"]; st {
		case "empty":
			doc["ProductRule"] = obj{}
		case "vnull":
			doc["ProductRule"] = obj{"p1": nil}
		case "vbadtype":
			doc["ProductRule"] = obj{"p1": "default_t()"}
		case "vempty":
			doc["ProductRule"] = obj{"p1": arr{}}
		case "ebadtype":
			doc["ProductRule"] = obj{"p1": advList(5)}
		case "proddangling":
			doc["ProductRule"] = obj{"p1": arr{obj{"Cond": "default_t()", "ClusterName": "c1"}},
				"ghost_product": arr{obj{"Cond": "default_t()", "ClusterName": "c1"}}}
		default:
			panic("rProductRule " + st)
		}
	}
	// Hostname / Path lists of the subject basic rule: subject element among well-formed siblings
	bl := func(key string, subject interface{}) arr {
		if key == "Hostname" {
			return place(pos, subject, "padh1.example.org", "padh2.example.org")
		}
		return place(pos, subject, "/padp1", "/padp2")
	}
	b1 := obj{"Hostname": bl("Hostname", "x.example.org"), "Path": bl("Path", "/a"), "ClusterName": "c1"}
	listField := func(key, st string, vals map[string]interface{}) {
		switch st {
		case "ok":
		case "absent":
			delete(b1, key)
		case "null":
			b1[key] = nil
		case "badtype":
			b1[key] = "x.example.org"
		case "ebadtype":
			b1[key] = bl(key, 5)
		case "emptystr":
			b1[key] = bl(key, "")
		case "emptylist":
			b1[key] = arr{}
		default:
			v, ok := vals[st]
			if !ok {
				panic(key + " " + st)
			}
			b1[key] = bl(key, v)
		}
	}
	listField("Hostname", s["rBasicHost"], map[string]interface{}{
		"wildcard": "*.example.org", "any": "*", "badwild": "*est.com", "twostar": "*.*.com"})
	listField("Path", s["rBasicPath"], map[string]interface{}{
		"prefix": "/a/*", "any": "*", "badprefix": "/fo*", "twostar": "/*/*",
		"midstar": "/a*/b", "noslash": "a"})
	switch st := s["rBasicCluster"]; st {
	case "ok":
	case "advmode":
		b1["ClusterName"] = "ADVANCED_MODE"
	case "absent":
		delete(b1, "ClusterName")
	case "null":
		b1["ClusterName"] = nil
	case "badtype":
		b1["ClusterName"] = 5
	case "dangling":
		b1["ClusterName"] = "ghost_cluster"
	case "empty":
		b1["ClusterName"] = ""
	default:
		panic("rBasicCluster " + st)
	}
	padB := func(i int) obj {
		return obj{"Hostname": arr{fmt.Sprintf("padrule%d.example.org", i)}, "Path": arr{"/pad"}, "ClusterName": "c1"}
	}
	basicList := func(subject interface{}) arr { return place(pos, subject, padB(1), padB(2)) }
	okBasic := obj{"p1": basicList(b1)}
	if !container(doc, "BasicRule", s["rBasicRule"], okBasic, arr{}) {
		switch st := s["rBasicRule"]; st {
		case "empty":
			doc["BasicRule"] = obj{}
		case "vnull":
			doc["BasicRule"] = obj{"p1": nil}
		case "vbadtype":
			doc["BasicRule"] = obj{"p1": "c1"}
		case "vempty":
			doc["BasicRule"] = obj{"p1": arr{}}
		case "ebadtype":
			doc["BasicRule"] = obj{"p1": basicList(5)}
		case "proddangling":
			doc["BasicRule"] = obj{"ghost_product": arr{obj{"Hostname": arr{"x.example.org"}, "ClusterName": "c1"}}}
		default:
			panic("rBasicRule " + st)
		}
	}
	return doc
}

func buildCluster(s map[string]string) obj {
	doc := obj{}
	setVersion(doc, "Version", s["cVersion"])
	c1 := docClusterConf()
	be := c1["BackendConf"].(obj)
	switch st := s["cProtocol"]; st {
	case "absent":
	case "http", "fcgi", "h2c":
		be["Protocol"] = st
	case "upper":
		be["Protocol"] = "HTTP"
	case "unknown":
		be["Protocol"] = "ftp"
	case "badtype":
		be["Protocol"] = 5
	default:
		panic("cProtocol " + st)
	}
	switch st := s["cTimeout"]; st {
	case "ok":
	case "absent":
		delete(be, "TimeoutConnSrv")
	case "negative":
		be["TimeoutConnSrv"] = -5
	case "badtype":
		be["TimeoutConnSrv"] = "2000"
	default:
		panic("cTimeout " + st)
	}
	ck := c1["CheckConf"].(obj)
	switch st := s["cSchem"]; st {
	case "http":
	case "absent":
		delete(ck, "Schem")
	case "tcp":
		ck["Schem"] = "tcp"
	case "upper":
		ck["Schem"] = "HTTP"
	case "unknown":
		ck["Schem"] = "udp"
	case "badtype":
		ck["Schem"] = 5
	default:
		panic("cSchem " + st)
	}
	gb := c1["GslbBasic"].(obj)
	hc := gb["HashConf"].(obj)
	switch st := s["cHashStrategy"]; st {
	case "id":
	case "absent":
		delete(hc, "HashStrategy")
	case "idnoheader":
		delete(hc, "HashHeader")
	case "ip":
		hc["HashStrategy"] = 1
	case "idpreferred":
		hc["HashStrategy"] = 2
	case "uri":
		hc["HashStrategy"] = 3
	case "unknown":
		hc["HashStrategy"] = 9
	case "badtype":
		hc["HashStrategy"] = "ClientIdOnly"
	default:
		panic("cHashStrategy " + st)
	}
	switch st := s["cBalanceMode"]; st {
	case "absent":
	case "wrr":
		gb["BalanceMode"] = "WRR"
	case "wlc":
		gb["BalanceMode"] = "WLC"
	case "lower":
		gb["BalanceMode"] = "wlc"
	case "unknown":
		gb["BalanceMode"] = "RANDOM"
	case "badtype":
		gb["BalanceMode"] = 5
	default:
		panic("cBalanceMode " + st)
	}
	ok := obj{"c1": c1}
	if !container(doc, "Config", s["cConfig"], ok, arr{}) {
		switch st := s["cConfig"]; st {
		case "empty":
			doc["Config"] = obj{}
		case "vnull":
			doc["Config"] = obj{"c1": nil}
		case "vbadtype":
			doc["Config"] = obj{"c1": 5}
		case "docexample":
			doc["Config"] = obj{"c1": c1, "cluster_example": docClusterConf(), "fcgi_cluster_example": docFcgiClusterConf()}
		default:
			panic("cConfig " + st)
		}
	}
	return doc
}

func buildGslb(s map[string]string) obj {
	doc := obj{}
	ok := obj{"cluster_example": obj{"example.bfe.bj": 100}}
	if !container(doc, "Clusters", s["gClusters"], ok, arr{}) {
		switch st := s["gClusters"]; st {
		case "empty":
			doc["Clusters"] = obj{}
		case "vnull":
			doc["Clusters"] = obj{"cluster_example": nil}
		case "vbadtype":
			doc["Clusters"] = obj{"cluster_example": 5}
		case "wbadtype":
			doc["Clusters"] = obj{"cluster_example": obj{"example.bfe.bj": "100"}}
		case "allzero":
			doc["Clusters"] = obj{"cluster_example": obj{"example.bfe.bj": 0}}
		case "blackhole":
			doc["Clusters"] = obj{"cluster_example": obj{"GSLB_BLACKHOLE": 0, "example.bfe.bj": 100}}
		case "negweight":
			doc["Clusters"] = obj{"cluster_example": obj{"example.bfe.bj": 100, "other.bfe.bj": -1}}
		default:
			panic("gClusters " + st)
		}
	}
	if !container(doc, "Hostname", s["gHostname"], "gslb-sch.example.com", 5) {
		panic("gHostname " + s["gHostname"])
	}
	if !container(doc, "Ts", s["gTs"], "20190101000000", 20190101) {
		panic("gTs " + s["gTs"])
	}
	return doc
}

func buildCTable(s map[string]string) obj {
	doc := obj{}
	if !container(doc, "Version", s["tVersion"], "20190101000000", 20190101) {
		panic("tVersion " + s["tVersion"])
	}
	inst := obj{"Addr": "10.199.189.26", "Name": "example_hostname", "Port": 10257, "Weight": 10}
	fld := func(key, st string, bad interface{}, extra map[string]interface{}) {
		if container(inst, key, st, inst[key], bad) {
			return
		}
		v, ok := extra[st]
		if !ok {
			panic(key + " " + st)
		}
		inst[key] = v
	}
	fld("Addr", s["tAddr"], 5, nil)
	fld("Name", s["tName"], 5, nil)
	fld("Port", s["tPort"], true, map[string]interface{}{"strnum": "10257"})
	fld("Weight", s["tWeight"], true, map[string]interface{}{"strnum": "10", "zero": 0})
	padI := func(i int) obj {
		return obj{"Addr": fmt.Sprintf("10.199.189.%d", 100+i), "Name": fmt.Sprintf("pad_hostname%d", i), "Port": 10257, "Weight": 10}
	}
	il := func(subject interface{}) arr { return place(s["tPos"], subject, padI(1), padI(2)) }
	ok := obj{"cluster_example": obj{"example.bfe.bj": il(inst)}}
	if !container(doc, "Config", s["tConfig"], ok, arr{}) {
		switch st := s["tConfig"]; st {
		case "empty":
			doc["Config"] = obj{}
		case "vnull":
			doc["Config"] = obj{"cluster_example": nil}
		case "vbadtype":
			doc["Config"] = obj{"cluster_example": 5}
		case "subnull":
			doc["Config"] = obj{"cluster_example": obj{"example.bfe.bj": nil}}
		case "subbadtype":
			doc["Config"] = obj{"cluster_example": obj{"example.bfe.bj": 5}}
		case "subempty":
			doc["Config"] = obj{"cluster_example": obj{"example.bfe.bj": arr{}}}
		case "elemnull":
			doc["Config"] = obj{"cluster_example": obj{"example.bfe.bj": il(nil)}}
		case "elembadtype":
			doc["Config"] = obj{"cluster_example": obj{"example.bfe.bj": il(5)}}
		default:
			panic("tConfig " + st)
		}
	}
	return doc
}

// whole-file damage
func damage(b []byte, st string) ([]byte, bool) {
	switch st {
	case "ok":
		return b, true
	case "missing":
		return nil, false
	case "emptyfile":
		return []byte{}, true
	case "garbage":
		return []byte("this is not json {{{"), true
	case "truncated":
		return b[:len(b)/2], true
	case "toparray":
		return []byte("[" + string(b) + "]"), true
	case "topstring":
		return []byte(`"Version"`), true
	case "topnull":
		return []byte("null"), true
	case "trailing":
		return append(append([]byte{}, b...), []byte("\n} trailing garbage")...), true
	case "bom":
		return append([]byte{0xEF, 0xBB, 0xBF}, b...), true
	}
	panic("whole " + st)
}

func baseStates(k string) map[string]string {
	m := map[string]string{
		"hVersion": "ok", "hDefault": "null", "hHosts": "ok", "hHostTags": "ok", "vVersion": "ok", "vVips": "ok",
		"rVersion": "ok", "rProductRule": "ok", "rCond": "ok", "rAdvCluster": "ok", "rBasicRule": "ok",
		"rBasicHost": "ok", "rBasicPath": "ok", "rBasicCluster": "ok", "cVersion": "ok", "cConfig": "ok",
		"cProtocol": "absent", "cSchem": "http", "cHashStrategy": "id", "cBalanceMode": "absent", "cTimeout": "ok",
		"gClusters": "ok", "gHostname": "ok", "gTs": "ok",
		"tVersion": "ok", "tConfig": "ok", "tAddr": "ok", "tName": "ok", "tPort": "ok", "tWeight": "ok",
		"sPos": "only", "tPos": "only",
	}
	return m
}

// loaders by file kind; each returns the loader's error, guarded
var loaders = map[string]func(path string) error{
	"host":    func(p string) error { _, err := host_rule_conf.HostRuleConfLoad(p); return err },
	"vip":     func(p string) error { _, err := vip_rule_conf.VipRuleConfLoad(p); return err },
	"route":   func(p string) error { _, err := route_rule_conf.RouteConfLoad(p); return err },
	"cluster": func(p string) error { _, err := cluster_conf.ClusterConfLoad(p); return err },
	"gslb":    func(p string) error { _, err := gslb_conf.GslbConfLoad(p); return err },
	"ctable":  func(p string) error { _, err := cluster_table_conf.ClusterTableLoad(p); return err },
}

func guardedLoad(res *result, name, sig string, f func() error) (err error, panicked bool) {
	if p := vh.Guard(func() { err = f() }); p != "" {
		res.fail("panic/"+sig, name+" panicked: "+p, nil)
		return nil, true
	}
	return err, false
}

// canonical signature of a shape: the fields off the baseline
func shapeSig(c *confCase) string {
	base := baseStates(c.K)
	var parts []string
	for f, st := range c.S {
		if f == "target" {
			continue
		}
		if b, ok := base[f]; (ok && b != st) || (!ok && st != "ok") {
			parts = append(parts, f+"="+st)
		}
	}
	if t, ok := c.S["target"]; ok {
		parts = append(parts, "target="+t)
	}
	sortStrings(parts)
	if len(parts) == 0 {
		return "baseline"
	}
	return strings.Join(parts, ",")
}

func sortStrings(a []string) {
	for i := 1; i < len(a); i++ {
		for j := i; j > 0 && a[j] < a[j-1]; j-- {
			a[j], a[j-1] = a[j-1], a[j]
		}
	}
}

func confCaseRun(c *confCase, res *result) {
	dir := caseDir()
	defer os.RemoveAll(dir)
	sig := shapeSig(c)
	res.Obs = map[string]interface{}{"shape": sig}
	var accepted bool
	var loadErr error
	var what string
	switch c.K {
	case "sdc":
		files := map[string]obj{"host": buildHost(c.S), "vip": buildVip(c.S), "route": buildRoute(c.S), "cluster": buildCluster(c.S)}
		paths := map[string]string{}
		for k, d := range files {
			paths[k] = filepath.Join(dir, k+".data")
			writeJSON(paths[k], d)
		}
		// every loader on its own file: must not crash
		for k := range files {
			kk := k
			guardedLoad(res, kk+" loader", sig, func() error { return loaders[kk](paths[kk]) })
		}
		what = "LoadServerDataConf"
		var panicked bool
		var sdc *bfe_route.ServerDataConf
		loadErr, panicked = guardedLoad(res, what, sig, func() error {
			var err error
			sdc, err = bfe_route.LoadServerDataConf(paths["host"], paths["vip"], paths["route"], paths["cluster"])
			if err == nil && sdc == nil {
				return fmt.Errorf("nil ServerDataConf without error")
			}
			return err
		})
		if panicked {
			return
		}
		accepted = loadErr == nil
		if accepted {
			if p := useSDC(sdc, dir); p != "" {
				res.fail("panic-in-use/"+sig, "LoadServerDataConf accepted the files, using the configuration panicked: "+p, c.S)
				return
			}
		}
	case "gslb", "ctable":
		var d obj
		if c.K == "gslb" {
			d = buildGslb(c.S)
		} else {
			d = buildCTable(c.S)
		}
		p := filepath.Join(dir, c.K+".data")
		writeJSON(p, d)
		what = c.K + " loader"
		var panicked bool
		loadErr, panicked = guardedLoad(res, what, sig, func() error { return loaders[c.K](p) })
		if panicked {
			return
		}
		accepted = loadErr == nil
		if accepted && useWithCounterpart(res, c.K, p, dir, sig, c.S) {
			return
		}
	case "file":
		tgt := c.S["target"]
		base := baseStates("")
		var d obj
		switch tgt {
		case "host":
			d = buildHost(base)
		case "vip":
			d = buildVip(base)
		case "route":
			d = buildRoute(base)
		case "cluster":
			d = buildCluster(base)
		case "gslb":
			d = buildGslb(base)
		case "ctable":
			d = buildCTable(base)
		}
		b, _ := json.MarshalIndent(d, "", " ")
		p := filepath.Join(dir, tgt+".data")
		if nb, exists := damage(b, c.S["whole"]); exists {
			writeRaw(p, nb)
		}
		what = tgt + " loader"
		var panicked bool
		loadErr, panicked = guardedLoad(res, what, sig, func() error { return loaders[tgt](p) })
		if panicked {
			return
		}
		accepted = loadErr == nil
		if accepted && useWithCounterpart(res, tgt, p, dir, sig, c.S) {
			return
		}
	default:
		panic("kind " + c.K)
	}
	obs := "accepted"
	if !accepted {
		obs = "rejected: " + errStr(loadErr)
	}
	res.Obs.(map[string]interface{})["verdict"] = obs
	switch c.E {
	case "accept":
		res.Checked++
		if !accepted {
			res.fail("rejected-documented/"+sig, fmt.Sprintf("%s rejected a configuration in the documented format (%s): %v", what, sig, loadErr), c.S)
		}
	case "reject":
		res.Checked++
		if accepted {
			rs := append([]string{}, c.R...)
			sortStrings(rs)
			res.fail("accepted-malformed/"+strings.Join(rs, ","), fmt.Sprintf("%s accepted a malformed / non-closed configuration (shape %s; must be rejected because of %v)", what, sig, rs), c.S)
		}
	default:
		res.Gray++
	}
	m := "rej"
	if accepted {
		m = "acc"
	}
	if m != c.M && res.OK { // (a Layer-P contradiction is reported as such, not as drift)
		res.Drift = append(res.Drift, fmt.Sprintf("action=load kind=%s shape=%s loaders say %s, mechanism model says %s (%v)", c.K, sig, m, c.M, loadErr))
	}
}

// useWithCounterpart uses an accepted single file together with documented counterparts:
// gslb.data + cluster_table.data through BalTable, a route-side file through LoadServerDataConf.
// Returns true when the use crashed (reported).
func useWithCounterpart(res *result, kind, path, dir, sig string, shape interface{}) bool {
	base := baseStates("")
	var p string
	switch kind {
	case "gslb":
		ct := filepath.Join(dir, "cp_cluster_table.data")
		writeJSON(ct, buildCTable(base))
		p = useBal(path, ct, nil)
	case "ctable":
		g := filepath.Join(dir, "cp_gslb.data")
		writeJSON(g, buildGslb(base))
		p = useBal(g, path, nil)
	default:
		paths := map[string]string{}
		for _, k := range []string{"host", "vip", "route", "cluster"} {
			if k == kind {
				paths[k] = path
				continue
			}
			paths[k] = filepath.Join(dir, "cp_"+k+".data")
			var d obj
			switch k {
			case "host":
				d = buildHost(base)
			case "vip":
				d = buildVip(base)
			case "route":
				d = buildRoute(base)
			case "cluster":
				d = buildCluster(base)
			}
			writeJSON(paths[k], d)
		}
		var sdc *bfe_route.ServerDataConf
		p = vh.Guard(func() {
			sdc, _ = bfe_route.LoadServerDataConf(paths["host"], paths["vip"], paths["route"], paths["cluster"])
		})
		if p == "" && sdc != nil {
			p = useSDC(sdc, dir)
		}
	}
	if p != "" {
		res.fail("panic-in-use/"+sig, kind+" loader accepted the file, using the configuration panicked: "+p, shape)
		return true
	}
	return false
}
