package main

import (
	"fmt"
	"net"
	"path/filepath"
	"sort"

	"github.com/bfenetworks/bfe/bfe_balance"
	"github.com/bfenetworks/bfe/bfe_basic"
	"github.com/bfenetworks/bfe/bfe_config/bfe_cluster_conf/cluster_table_conf"
	"github.com/bfenetworks/bfe/bfe_config/bfe_cluster_conf/gslb_conf"
	"github.com/bfenetworks/bfe/bfe_http"
	"github.com/bfenetworks/bfe/bfe_route"
	"github.com/bfenetworks/bfe/bfe_route/bfe_cluster"

	"verifharness/vh"
)

// "Loaded configs are closed / loaders never panic" is judged by also *using* an accepted
// configuration the way the server does (bfe_server InitDataLoad / reload, ServeHTTP): every step
// runs under recover; a crash is a violation, errors are fine.

func balReq(i int) *bfe_basic.Request {
	hr := &bfe_http.Request{Method: "GET", Host: "example.org", Header: make(bfe_http.Header), RequestURI: "/a"}
	hr.Header.Set("Cookie", "UID=abc")
	req := bfe_basic.NewRequest(hr, nil, nil, bfe_basic.NewSession(nil), nil)
	req.ClientAddr = &net.TCPAddr{IP: net.ParseIP(fmt.Sprintf("192.0.2.%d", 1+i*13)), Port: 1000 + i}
	return req
}

func balanceAll(bt *bfe_balance.BalTable, clusters []string) {
	for _, c := range clusters {
		bal, err := bt.Lookup(c)
		if err != nil {
			continue
		}
		for i := 0; i < 6; i++ {
			bal.Balance(balReq(i))
		}
	}
	bt.GetState()
}

// useBal: BalTable.Init, balancing, BalTableReload with the same files (what GslbDataConfReload does).
func useBal(gslbFile, ctFile string, sdc *bfe_route.ServerDataConf) (panicked string) {
	return vh.Guard(func() {
		bt := bfe_balance.NewBalTable(nil)
		if err := bt.Init(gslbFile, ctFile); err != nil {
			return
		}
		var clusters []string
		if g, err := gslb_conf.GslbConfLoad(gslbFile); err == nil {
			for c := range *g.Clusters {
				clusters = append(clusters, c)
			}
			sort.Strings(clusters)
			if sdc != nil {
				bt.SetGslbBasic(sdc.ClusterTable)
				bt.SetSlowStart(sdc.ClusterTable)
			}
			balanceAll(bt, clusters)
			if ct, err := cluster_table_conf.ClusterTableLoad(ctFile); err == nil {
				if bt.BalTableReload(g, ct) == nil {
					if sdc != nil {
						bt.SetGslbBasic(sdc.ClusterTable)
						bt.SetSlowStart(sdc.ClusterTable)
					}
					balanceAll(bt, clusters)
				}
			}
		}
	})
}

// useSDC: host -> product -> cluster lookups for a few requests, the cluster objects' accessors,
// and a balancer table over the configuration's clusters.
func useSDC(sdc *bfe_route.ServerDataConf, dir string) (panicked string) {
	p := vh.Guard(func() {
		hosts := []string{"example.org", "x.example.org", "EXAMPLE.ORG:8080", "pad1.example.org", "padrule1.example.org", "unknown.invalid", ""}
		paths := []string{"/a", "/pad", "/zzz", ""}
		vips := []net.IP{nil, net.ParseIP("111.111.111.111"), net.ParseIP("111.111.111.112"), net.ParseIP("fd00::1")}
		for _, h := range hosts {
			for _, q := range paths {
				for _, v := range vips {
					req := newReq(h, q, v)
					rt := sdc.HostTable.Lookup(req)
					if rt.Error == nil {
						if cl, err := sdc.ClusterTableLookup(rt.ClusterName); err == nil {
							touchCluster(cl)
						}
					}
					sdc.HostTableLookup(h)
				}
			}
		}
		sdc.HostTable.GetStatus()
		sdc.HostTable.GetVersions()
		sdc.ClusterTable.GetVersions()
		for _, cl := range sdc.ClusterTable.ClusterMap() {
			touchCluster(cl)
		}
	})
	if p != "" {
		return p
	}
	// a balancer table over the clusters of the configuration (SetGslbBasic / SetSlowStart / Balance)
	var names []string
	for n := range sdc.ClusterTable.ClusterMap() {
		names = append(names, n)
	}
	sort.Strings(names)
	if len(names) == 0 {
		return ""
	}
	gc, tc := obj{}, obj{}
	for _, n := range names {
		gc[n] = obj{"sub1": 100}
		tc[n] = obj{"sub1": arr{
			obj{"Addr": "10.3.0.1", "Name": n + "-b1", "Port": 8000, "Weight": 1},
			obj{"Addr": "10.3.0.2", "Name": n + "-b2", "Port": 8000, "Weight": 1}}}
	}
	g := filepath.Join(dir, "use_gslb.data")
	t := filepath.Join(dir, "use_cluster_table.data")
	writeJSON(g, obj{"Clusters": gc, "Hostname": "gslb-sch.example.com", "Ts": "20190101000000"})
	writeJSON(t, obj{"Version": "v1", "Config": tc})
	return useBal(g, t, sdc)
}

func touchCluster(c *bfe_cluster.BfeCluster) {
	if c == nil {
		return
	}
	c.TimeoutConnSrv()
	c.RetryLevel()
	c.OutlierDetectionHttpCode()
	c.CancelOnClientClose()
	c.BackendConf()
	c.BackendCheckConf()
	c.TimeoutReadClient()
	c.ResFlushInterval()
}
