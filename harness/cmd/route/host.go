package main

import (
	"encoding/json"
	"fmt"
	"net"
	"os"
	"path/filepath"
	"strings"

	"github.com/bfenetworks/bfe/bfe_basic"
	"github.com/bfenetworks/bfe/bfe_route"

	"verifharness/vh"
)

// C10: host -> product.  Case = GenHost.tla output.
type hostCase struct {
	ID int `json:"id"`
	T  []struct {
		Pat  string `json:"pat"`
		Prod string `json:"prod"`
	} `json:"t"`
	Vips []struct {
		Vip  string `json:"vip"`
		Prod string `json:"prod"`
	} `json:"vips"`
	Def    string `json:"def"`
	Probes []struct {
		H   string `json:"h"`
		Vip string `json:"vip"`
		K   string `json:"k"` // host | vip | default | none
		P   string `json:"p"`
		M   string `json:"m"` // pattern of the deciding entry when k = host
	} `json:"probes"`
	Vars []struct {
		Up   bool `json:"up"`
		Port bool `json:"port"`
		Dot  bool `json:"dot"`
	} `json:"vars"`
	Conc *int `json:"conc,omitempty"` // fixed concretisation (replay)
}

var hostProducts = []string{"p1", "p2"}

func hostRun() {
	eachCase(func(line []byte) {
		var c hostCase
		if err := json.Unmarshal(line, &c); err != nil {
			vh.Emit(map[string]interface{}{"_bad_case": err.Error()})
			return
		}
		res := result{ID: c.ID, OK: true}
		if p := vh.Guard(func() { hostCaseRun(&c, &res) }); p != "" {
			res.fail("panic/load", p, nil)
		}
		vh.Emit(res)
	})
}

func hostCaseRun(c *hostCase, res *result) {
	conc := int(vh.Seed())*7 + c.ID
	if c.Conc != nil {
		conc = *c.Conc
	}
	rnd := vh.Rand(int64(1000 + conc))
	lm := labelMaps[conc%len(labelMaps)]
	tagPerProduct := (conc/3)%2 == 1
	vipIdx := (conc / 6) % 2
	res.Obs = map[string]interface{}{"conc": conc}

	dir := caseDir()
	// host_rule.data
	hosts := map[string][]string{}
	hostTags := map[string][]string{}
	for _, p := range hostProducts {
		// every product owns at least one host tag (a name outside the probe alphabet)
		hostTags[p] = []string{"base_" + p}
		hosts["base_"+p] = []string{"base-" + p + ".invalid"}
	}
	tagOf := map[string]string{} // pattern -> tag
	for i, e := range c.T {
		tag := fmt.Sprintf("tag%d", i+1)
		if tagPerProduct {
			tag = "tag_" + e.Prod
		}
		tagOf[e.Pat] = tag
		h := mapHost(e.Pat, lm)
		switch rnd.Intn(3) { // spelling of the configured name: compared case-insensitively
		case 1:
			h = strings.ToUpper(h)
		case 2:
			h = mixCase(h, rnd)
		}
		hosts[tag] = append(hosts[tag], h)
		found := false
		for _, t := range hostTags[e.Prod] {
			found = found || t == tag
		}
		if !found {
			hostTags[e.Prod] = append(hostTags[e.Prod], tag)
		}
	}
	var def interface{}
	if c.Def != "" {
		def = c.Def
	}
	writeJSON(filepath.Join(dir, "host_rule.data"), map[string]interface{}{
		"Version": "v1", "DefaultProduct": def, "Hosts": hosts, "HostTags": hostTags})
	// vip_rule.data
	vips := map[string][]string{}
	for _, v := range c.Vips {
		vips[v.Prod] = append(vips[v.Prod], vipAddr[v.Vip][vipIdx])
	}
	writeJSON(filepath.Join(dir, "vip_rule.data"), map[string]interface{}{"Version": "v1", "Vips": vips})
	// route_rule.data / cluster_conf.data: the documented minimal shape for both products
	routeFile, clusterFile := staticFiles()
	sdc, err := bfe_route.LoadServerDataConf(filepath.Join(dir, "host_rule.data"), filepath.Join(dir, "vip_rule.data"),
		routeFile, clusterFile)
	os.RemoveAll(dir)
	if err != nil {
		// every generated configuration follows the documented format
		res.fail("load/rejected", "LoadServerDataConf rejected a documented configuration: "+err.Error(), nil)
		return
	}
	req := newReq("", "/", nil)
	for _, pb := range c.Probes {
		for _, v := range c.Vars {
			host := spell(mapHost(pb.H, lm), v.Up, v.Port, v.Dot)
			var vip net.IP
			if pb.Vip != "" {
				vip = net.ParseIP(vipAddr[pb.Vip][vipIdx])
			}
			req.HttpRequest.Host = host
			req.Session.Vip = vip
			req.Route = bfe_basic.RequestRoute{}
			var lerr error
			if p := vh.Guard(func() { lerr = sdc.HostTable.LookupHostTagAndProduct(req) }); p != "" {
				res.fail("panic/lookup", p, pb)
				continue
			}
			res.Checked++
			variant := fmt.Sprintf("up=%v,port=%v,dot=%v", v.Up, v.Port, v.Dot)
			obs := fmt.Sprintf("host=%q vip=%v -> product=%q tag=%q err=%v (expected %s %q entry %q)",
				host, vip, req.Route.Product, req.Route.HostTag, lerr, pb.K, pb.P, pb.M)
			if pb.K == "none" {
				if lerr == nil || req.Route.Error == nil {
					res.fail("none/accepted/"+variant, obs, pb)
				}
				continue
			}
			if lerr != nil || req.Route.Error != nil {
				res.fail(pb.K+"/error/"+variant, obs, pb)
				continue
			}
			if req.Route.Product != pb.P {
				res.fail(pb.K+"/product/"+variant, obs, pb)
				continue
			}
			if pb.K == "host" && req.Route.HostTag != tagOf[pb.M] {
				res.fail("host/tag/"+variant, obs, pb)
			}
		}
	}
}
