// Command route binds the Route specs (specs/Route) to bfe_route, bfe_config/bfe_route_conf
// and bfe_config/bfe_cluster_conf: cases printed by TLC (configuration + probes + the verdict
// the spec computes) are materialised as real configuration files, loaded by the real loaders
// and probed through HostTable / BasicRouteRuleTree; one ndjson result per case.
package main

import (
	"fmt"
	"os"

	"verifharness/vh"
)

func main() {
	if len(os.Args) < 2 {
		fmt.Fprintln(os.Stderr, "usage: route <host|basic|lookup|conf|determ|determ-child>")
		os.Exit(2)
	}
	defer vh.Flush()
	switch os.Args[1] {
	case "host":
		hostRun()
	case "basic":
		basicRun()
	case "lookup":
		lookupRun()
	case "conf":
		confRun()
	case "determ":
		determRun()
	case "determ-child":
		determChild()
	case "conf-fuzz":
		confFuzz()
	case "conf-fuzz-one":
		confFuzzOne()
	default:
		fmt.Fprintln(os.Stderr, "unknown subcommand", os.Args[1])
		vh.Flush()
		os.Exit(2)
	}
}
