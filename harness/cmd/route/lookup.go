package main

import (
	"encoding/json"
	"fmt"
	"os"
	"path/filepath"

	"github.com/bfenetworks/bfe/bfe_basic/condition"
	"github.com/bfenetworks/bfe/bfe_config/bfe_route_conf/host_rule_conf"
	"github.com/bfenetworks/bfe/bfe_config/bfe_route_conf/route_rule_conf"
	"github.com/bfenetworks/bfe/bfe_config/bfe_route_conf/vip_rule_conf"
	"github.com/bfenetworks/bfe/bfe_route"

	"verifharness/vh"
)

// C12: basic + advanced rules.  Case = GenLookup.tla output.
type lookupCase struct {
	ID    int `json:"id"`
	Basic struct {
		Has   bool `json:"has"`
		Rules []struct {
			H string `json:"h"`
			P string `json:"p"`
			C string `json:"c"`
		} `json:"rules"`
	} `json:"basic"`
	Adv struct {
		Has bool `json:"has"`
		L   []struct {
			Cond string `json:"cond"`
			C    string `json:"c"`
		} `json:"l"`
	} `json:"adv"`
	Probes []struct {
		H string   `json:"h"`
		Q string   `json:"q"`
		T []bool   `json:"t"`
		E []string `json:"e"` // admitted answers: cluster names or "ERR"
	} `json:"probes"`
	Conc *int `json:"conc,omitempty"`
}

func lookupRun() {
	eachCase(func(line []byte) {
		var c lookupCase
		if err := json.Unmarshal(line, &c); err != nil {
			vh.Emit(map[string]interface{}{"_bad_case": err.Error()})
			return
		}
		res := result{ID: c.ID, OK: true}
		if p := vh.Guard(func() { lookupCaseRun(&c, &res) }); p != "" {
			res.fail("panic/load", p, nil)
		}
		vh.Emit(res)
	})
}

// realisations of the abstract conditions; index chosen per case
func condText(letter string, alt int, hostXT string) string {
	switch letter {
	case "T":
		return []string{`default_t()`, `req_path_prefix_in("/", false)`}[alt%2]
	case "F":
		return []string{`req_host_in("nomatch.invalid")`, `!default_t()`}[alt%2]
	case "H":
		return fmt.Sprintf(`req_host_in("%s")`, hostXT)
	case "P":
		return []string{`req_path_in("/a", false)`, `req_path_in("/a|/zzz", false)`}[alt%2]
	}
	return "bad"
}

func lookupCaseRun(c *lookupCase, res *result) {
	conc := int(vh.Seed())*13 + c.ID
	if c.Conc != nil {
		conc = *c.Conc
	}
	res.Obs = map[string]interface{}{"conc": conc}
	lm := labelMaps[conc%len(labelMaps)]
	dir := caseDir()
	defer os.RemoveAll(dir)

	route := map[string]interface{}{"Version": "v1"}
	// product p2 keeps the file in the documented shape whatever p1 has
	adv := map[string]interface{}{"p2": []map[string]string{{"Cond": "default_t()", "ClusterName": "c1"}}}
	var condTexts []string
	if c.Adv.Has {
		l := []map[string]string{}
		for _, r := range c.Adv.L {
			ct := condText(r.Cond, conc/3, mapHost("x.t", lm))
			condTexts = append(condTexts, ct)
			l = append(l, map[string]string{"Cond": ct, "ClusterName": r.C})
		}
		adv["p1"] = l
	}
	route["ProductRule"] = adv
	if c.Basic.Has {
		rs := []fileRule{}
		for _, r := range c.Basic.Rules {
			rs = append(rs, fileRule{Hostname: []string{mapHost(r.H, lm)}, Path: []string{r.P}, ClusterName: r.C})
		}
		route["BasicRule"] = map[string]interface{}{"p1": rs}
	}
	routeFile := filepath.Join(dir, "route_rule.data")
	writeJSON(routeFile, route)
	hostFile := filepath.Join(dir, "host_rule.data")
	writeJSON(hostFile, map[string]interface{}{"Version": "v1", "DefaultProduct": nil,
		"Hosts":    map[string][]string{"tag1": {mapHost("x.t", lm), mapHost("y.t", lm), mapHost("t", lm)}, "tag2": {"other.invalid"}},
		"HostTags": map[string][]string{"p1": {"tag1"}, "p2": {"tag2"}}})
	vipFile := filepath.Join(dir, "vip_rule.data")
	writeJSON(vipFile, map[string]interface{}{"Version": "v1", "Vips": map[string][]string{}})

	hostConf, err := host_rule_conf.HostRuleConfLoad(hostFile)
	if err != nil {
		res.fail("load/rejected", "HostRuleConfLoad: "+err.Error(), nil)
		return
	}
	vipConf, err := vip_rule_conf.VipRuleConfLoad(vipFile)
	if err != nil {
		res.fail("load/rejected", "VipRuleConfLoad: "+err.Error(), nil)
		return
	}
	routeConf, err := route_rule_conf.RouteConfLoad(routeFile)
	if err != nil {
		res.fail("load/rejected", fmt.Sprintf("RouteConfLoad rejected a documented route table %v: %v", route, err), nil)
		return
	}
	ht := new(bfe_route.HostTable)
	ht.Update(hostConf, vipConf, routeConf)

	for _, pb := range c.Probes {
		host := mapHost(pb.H, lm)
		req := newReq(host, pb.Q, nil)
		// the spec's truth assignment must be the one the real conditions produce; otherwise the
		// case says nothing about C12 (condition semantics belong to the condition family)
		grayCase := false
		for i, ct := range condTexts {
			cond, err := condition.Build(ct)
			if err != nil {
				res.Drift = append(res.Drift, fmt.Sprintf("action=cond %s does not build: %v", ct, err))
				grayCase = true
				break
			}
			if cond.Match(req) != pb.T[i] {
				res.Drift = append(res.Drift, fmt.Sprintf("action=cond %s on host=%s path=%s is %v, spec alphabet says %v",
					ct, host, pb.Q, !pb.T[i], pb.T[i]))
				grayCase = true
			}
		}
		if grayCase {
			res.Gray++
			continue
		}
		allowed := map[string]bool{}
		for _, e := range pb.E {
			allowed[e] = true
		}
		for api := 0; api < 2; api++ {
			req := newReq(host, pb.Q, nil)
			var got string
			var lerr error
			name := "LookupCluster"
			if api == 0 {
				req.Route.Product = "p1"
				if p := vh.Guard(func() { lerr = ht.LookupCluster(req) }); p != "" {
					res.fail("panic/lookupcluster", p, pb)
					continue
				}
				got = req.Route.ClusterName
			} else {
				name = "Lookup"
				var rr struct{ c string }
				if p := vh.Guard(func() {
					out := ht.Lookup(req)
					lerr = out.Error
					rr.c = out.ClusterName
				}); p != "" {
					res.fail("panic/lookup", p, pb)
					continue
				}
				got = rr.c
			}
			res.Checked++
			obs := got
			if lerr != nil {
				obs = "ERR"
				if got != "" {
					res.fail("lookup/error-with-cluster", fmt.Sprintf("%s returned error %v but left cluster %q", name, lerr, got), pb)
					continue
				}
			} else if got == "" {
				obs = "EMPTY"
			}
			if !allowed[obs] {
				exp := "cluster"
				if allowed["ERR"] {
					exp = "error"
				}
				g := "cluster"
				if obs == "ERR" || obs == "EMPTY" {
					g = obs
				} else if obs == "ADVANCED_MODE" {
					g = "ADVANCED_MODE"
				}
				res.fail(fmt.Sprintf("lookup/expected-%s/got-%s", exp, g),
					fmt.Sprintf("%s(host=%q,path=%q) basic=%v adv=%v conds=%v -> cluster=%q err=%v; spec admits %v",
						name, host, pb.Q, c.Basic, c.Adv, condTexts, got, lerr, pb.E), pb)
			}
		}
	}
}
