package main

import (
	"encoding/json"
	"math/rand"
	"os"
	"path/filepath"
	"strconv"

	"github.com/bfenetworks/bfe/bfe_route"

	"verifharness/vh"
)

// Crash-freedom part of C13 ("any malformed file is rejected with an error rather than a crash"):
// seeded structural and byte-level mutations of the documented files; no accept/reject verdict.

var fuzzValues = []interface{}{nil, 5, -1, 0, "x", "", true, false, arr{}, obj{}, arr{nil}, obj{"k": nil}, arr{5},
	arr{"a", nil}, obj{"": ""}, 1e99, "*", "ADVANCED_MODE", arr{arr{}}, obj{"a": obj{"b": nil}}}

// a (parent, key/index) slot of a JSON tree
type slot struct {
	m   obj
	k   string
	a   arr
	i   int
	isM bool
}

// fresh returns a private copy of a fuzz value (they are inserted into trees that are mutated again)
func fresh(v interface{}) interface{} {
	b, _ := json.Marshal(v)
	var out interface{}
	json.Unmarshal(b, &out)
	return normalise(out)
}

func normalise(v interface{}) interface{} { // obj/arr aliases after a JSON round trip
	switch t := v.(type) {
	case map[string]interface{}:
		o := obj{}
		for k, c := range t {
			o[k] = normalise(c)
		}
		return o
	case []interface{}:
		a := arr{}
		for _, c := range t {
			a = append(a, normalise(c))
		}
		return a
	}
	return v
}

// pathSlots returns slots in a deterministic depth-first order (keys sorted).
func pathSlots(v interface{}, out *[]slot) {
	switch t := v.(type) {
	case obj:
		ks := make([]string, 0, len(t))
		for k := range t {
			ks = append(ks, k)
		}
		sortStrings(ks)
		for _, k := range ks {
			*out = append(*out, slot{m: t, k: k, isM: true})
			pathSlots(t[k], out)
		}
	case arr:
		for i, c := range t {
			*out = append(*out, slot{a: t, i: i})
			pathSlots(c, out)
		}
	}
}

var fuzzTargets = []string{"host", "vip", "route", "cluster", "gslb", "ctable", "sdc-host", "sdc-vip", "sdc-route", "sdc-cluster"}

func fuzzBase(kind string) obj {
	base := baseStates("")
	switch kind {
	case "host":
		return buildHost(base)
	case "vip":
		return buildVip(base)
	case "route":
		return buildRoute(base)
	case "cluster":
		s := baseStates("")
		s["cConfig"] = "docexample"
		return buildCluster(s)
	case "gslb":
		return buildGslb(base)
	case "ctable":
		return buildCTable(base)
	}
	panic(kind)
}

// fuzzLoad feeds text to the loader(s) of target; returns the panic text, if any
func fuzzLoad(target string, text []byte) string {
	dir := caseDir()
	defer os.RemoveAll(dir)
	if len(target) > 4 && target[:4] == "sdc-" {
		kind := target[4:]
		paths := map[string]string{}
		for _, k := range []string{"host", "vip", "route", "cluster"} {
			paths[k] = filepath.Join(dir, k+".data")
			if k == kind {
				writeRaw(paths[k], text)
			} else {
				writeJSON(paths[k], fuzzBase(k))
			}
		}
		var sdc *bfe_route.ServerDataConf
		if p := vh.Guard(func() {
			sdc, _ = bfe_route.LoadServerDataConf(paths["host"], paths["vip"], paths["route"], paths["cluster"])
		}); p != "" {
			return p
		}
		if sdc != nil {
			return useSDC(sdc, dir)
		}
		return ""
	}
	p := filepath.Join(dir, target+".data")
	writeRaw(p, text)
	var err error
	if pn := vh.Guard(func() { err = loaders[target](p) }); pn != "" {
		return pn
	}
	if err == nil && (target == "gslb" || target == "ctable") {
		r := result{OK: true}
		if useWithCounterpart(&r, target, p, dir, "fuzz", nil) {
			return r.Fails[0].Detail
		}
	}
	return ""
}

func confFuzz() {
	n := 1000
	if len(os.Args) > 2 {
		if v, err := strconv.Atoi(os.Args[2]); err == nil {
			n = v
		}
	}
	rnd := vh.Rand(4242)
	files, panics := 0, 0
	for i := 0; i < n; i++ {
		target := fuzzTargets[i%len(fuzzTargets)]
		kind := target
		if len(target) > 4 && target[:4] == "sdc-" {
			kind = target[4:]
		}
		text := mutateDocDet(fuzzBase(kind), rnd)
		files++
		if p := fuzzLoad(target, text); p != "" {
			panics++
			if panics <= 20 {
				vh.Emit(map[string]interface{}{"fuzz_panic": true, "loader": target, "text": string(text), "detail": p})
			}
		}
	}
	vh.Emit(map[string]interface{}{"fuzz_summary": true, "files": files, "panics": panics})
}

// mutateDocDet: like mutateDoc but with a deterministic slot order (same VERIF_SEED => same files)
func mutateDocDet(doc obj, rnd *rand.Rand) []byte {
	b, _ := json.Marshal(doc)
	var tree interface{}
	json.Unmarshal(b, &tree)
	root := normalise(tree).(obj)
	for n := 1 + rnd.Intn(3); n > 0; n-- {
		var ss []slot
		pathSlots(root, &ss)
		if len(ss) == 0 {
			break
		}
		s := ss[rnd.Intn(len(ss))]
		v := fresh(fuzzValues[rnd.Intn(len(fuzzValues))])
		switch {
		case s.isM && rnd.Intn(5) == 0:
			delete(s.m, s.k)
		case s.isM:
			s.m[s.k] = v
		default:
			s.a[s.i] = v
		}
	}
	out, _ := json.Marshal(root)
	if rnd.Intn(4) == 0 && len(out) > 2 {
		switch rnd.Intn(3) {
		case 0:
			out = out[:rnd.Intn(len(out))]
		case 1:
			out[rnd.Intn(len(out))] = byte(rnd.Intn(256))
		case 2:
			i := rnd.Intn(len(out))
			out = append(append(append([]byte{}, out[:i]...), []byte(`{"a":[`)...), out[i:]...)
		}
	}
	return out
}

func confFuzzOne() {
	files := 0
	vh.EachCase(func(line []byte) {
		var c struct {
			Loader string `json:"loader"`
			Text   string `json:"text"`
		}
		if json.Unmarshal(line, &c) != nil {
			return
		}
		files++
		if p := fuzzLoad(c.Loader, []byte(c.Text)); p != "" {
			vh.Emit(map[string]interface{}{"fuzz_panic": true, "loader": c.Loader, "text": c.Text, "detail": p})
		}
	})
	vh.Emit(map[string]interface{}{"fuzz_summary": true, "files": files})
}
