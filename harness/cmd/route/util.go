package main

import (
	"encoding/json"
	"fmt"
	"math/rand"
	"net"
	"net/url"
	"os"
	"path/filepath"
	"runtime"
	"strings"
	"sync"
	"sync/atomic"

	"github.com/bfenetworks/bfe/bfe_basic"
	"github.com/bfenetworks/bfe/bfe_http"

	"verifharness/vh"
)

// result is one ndjson line per case.
type result struct {
	ID      int         `json:"id"`
	OK      bool        `json:"ok"`
	Checked int         `json:"checked"`         // probe evaluations compared with the spec
	Gray    int         `json:"gray,omitempty"`  // evaluations without verdict
	Fails   []failure   `json:"fails,omitempty"` // first few contradictions
	Drift   []string    `json:"drift,omitempty"` // Layer-M only
	Obs     interface{} `json:"obs,omitempty"`
}

type failure struct {
	Sig    string      `json:"sig"`
	Detail string      `json:"detail"`
	Probe  interface{} `json:"probe,omitempty"`
}

func (r *result) fail(sig, detail string, probe interface{}) {
	r.OK = false
	for _, f := range r.Fails {
		if f.Sig == sig {
			return
		}
	}
	if len(r.Fails) < 8 {
		r.Fails = append(r.Fails, failure{Sig: sig, Detail: detail, Probe: probe})
	}
}

var dirSeq int64

// caseDir returns a fresh directory under the working directory (the check's scratch dir).
func caseDir() string {
	base := filepath.Join(".", "route-conf")
	d := filepath.Join(base, fmt.Sprintf("c%d-%d", os.Getpid(), atomic.AddInt64(&dirSeq, 1)))
	if err := os.MkdirAll(d, 0o755); err != nil {
		panic(err)
	}
	return d
}

func writeJSON(path string, v interface{}) {
	b, err := json.MarshalIndent(v, "", " ")
	if err != nil {
		panic(err)
	}
	writeRaw(path, b)
}

func writeRaw(path string, b []byte) {
	if err := os.WriteFile(path, b, 0o644); err != nil {
		panic(err)
	}
}

// ---------------------------------------------------------------- concretisation

// labelMaps: realistic spellings of the abstract labels (chosen per case from VERIF_SEED).
var labelMaps = []map[string]string{
	{},
	{"a": "com", "b": "example", "x": "www", "y": "img", "t": "test1"},
	{"a": "org", "b": "xn--bcher-kva", "x": "api-1", "y": "v2", "t": "co"},
}

func mapHost(h string, m map[string]string) string {
	if len(m) == 0 || h == "" {
		return h
	}
	ls := strings.Split(h, ".")
	for i, l := range ls {
		if v, ok := m[l]; ok {
			ls[i] = v
		} else if l == "xt" { // two-character label of the Basic alphabet: keep it one label
			ls[i] = m["x"] + m["t"]
		}
	}
	return strings.Join(ls, ".")
}

func mixCase(s string, rnd *rand.Rand) string {
	b := []byte(s)
	for i := range b {
		if rnd.Intn(2) == 0 {
			b[i] = strings.ToUpper(string(b[i]))[0]
		}
	}
	return string(b)
}

// spell applies a spelling variant to a normalised host.
func spell(h string, up, port, dot bool) string {
	if up {
		h = strings.ToUpper(h)
	}
	if dot {
		h += "."
	}
	if port {
		h += ":8080"
	}
	return h
}

var vipAddr = map[string][]string{
	"v1": {"10.1.1.1", "fd00::1"},
	"v2": {"10.1.1.2", "fd00::2"},
}

func newReq(host, path string, vip net.IP) *bfe_basic.Request {
	hr := &bfe_http.Request{Method: "GET", Host: host, Header: make(bfe_http.Header)}
	hr.URL = &url.URL{Path: path}
	hr.RequestURI = path
	sess := bfe_basic.NewSession(nil)
	sess.Vip = vip
	return bfe_basic.NewRequest(hr, nil, nil, sess, nil)
}

// minimal, documented cluster_conf.data for the given cluster names
func clusterConfFile(path string, clusters []string) {
	cfg := map[string]interface{}{}
	for _, c := range clusters {
		cfg[c] = map[string]interface{}{
			"BackendConf": map[string]interface{}{"TimeoutConnSrv": 2000, "TimeoutResponseHeader": 50000,
				"MaxIdleConnsPerHost": 0, "RetryLevel": 0},
			"CheckConf": map[string]interface{}{"Schem": "http", "Uri": "/healthcheck", "Host": "example.org",
				"StatusCode": 200, "FailNum": 10, "CheckInterval": 1000},
			"GslbBasic": map[string]interface{}{"CrossRetry": 0, "RetryMax": 2,
				"HashConf": map[string]interface{}{"HashStrategy": 0, "HashHeader": "Cookie:UID", "SessionSticky": false}},
			"ClusterBasic": map[string]interface{}{"TimeoutReadClient": 30000, "TimeoutWriteClient": 60000,
				"TimeoutReadClientAgain": 30000},
		}
	}
	writeJSON(path, map[string]interface{}{"Version": "20190101000000", "Config": cfg})
}

func errStr(err error) string {
	if err == nil {
		return ""
	}
	return err.Error()
}

// eachCase runs f on every stdin case with a small worker pool (cases are independent).
func eachCase(f func(line []byte)) {
	n := runtime.NumCPU() / 2
	if n > 8 {
		n = 8
	}
	if n < 1 {
		n = 1
	}
	ch := make(chan []byte, 64)
	var wg sync.WaitGroup
	for i := 0; i < n; i++ {
		wg.Add(1)
		go func() {
			defer wg.Done()
			for l := range ch {
				f(l)
			}
		}()
	}
	vh.EachCase(func(line []byte) { ch <- line })
	close(ch)
	wg.Wait()
}

var staticOnce sync.Once
var staticDir string

// staticFiles: documented minimal route_rule.data / cluster_conf.data shared by all host cases.
func staticFiles() (routeFile, clusterFile string) {
	staticOnce.Do(func() {
		staticDir = caseDir()
		pr := map[string]interface{}{}
		for _, p := range hostProducts {
			pr[p] = []map[string]string{{"Cond": "default_t()", "ClusterName": "c1"}}
		}
		writeJSON(filepath.Join(staticDir, "route_rule.data"), map[string]interface{}{"Version": "v1", "ProductRule": pr})
		clusterConfFile(filepath.Join(staticDir, "cluster_conf.data"), []string{"c1"})
	})
	return filepath.Join(staticDir, "route_rule.data"), filepath.Join(staticDir, "cluster_conf.data")
}
