package main

import (
	"bufio"
	"bytes"
	"encoding/json"
	"fmt"
	"net"
	"os"
	"os/exec"
	"path/filepath"
	"sort"
	"strings"

	"github.com/bfenetworks/bfe/bfe_balance"
	"github.com/bfenetworks/bfe/bfe_basic"
	"github.com/bfenetworks/bfe/bfe_http"
	"github.com/bfenetworks/bfe/bfe_route"

	"verifharness/vh"
)

// C14: deterministic interpretation.  Case = GenDeterm.tla output.
type spelling struct {
	N string `json:"n"`
	C string `json:"c"`
}
type vipSp struct {
	IP   string `json:"ip"`
	Form string `json:"form"`
}
type determCase struct {
	ID    int                   `json:"id"`
	Kind  string                `json:"kind"` // host | vip | gslb
	Hosts map[string][]spelling `json:"hosts"`
	Tags  map[string][]string   `json:"tags"`
	Vips  map[string][]vipSp    `json:"vips"`
	W     map[string]int        `json:"w"`
	Prevs []map[string]int      `json:"prevs"` // gslb: predecessor tables from which the files are reached by a reload (9 = absent)
	E     string                `json:"e"` // reject | function
	Why   []string              `json:"why"`
	Mean  struct {
		Host []struct{ N, Tag, Prod string } `json:"host"`
		Vip  []struct{ IP, Prod string }     `json:"vip"`
	} `json:"mean"`
}

func nameOf(sp spelling) string {
	h := sp.N + ".example.org"
	if sp.C == "up" {
		return strings.ToUpper(h)
	}
	return h
}

var vipText = map[string]string{"v1/a": "10.1.1.1", "v1/b": "::ffff:10.1.1.1", "v2/a": "10.1.1.2"}
var vipIP = map[string]string{"v1": "10.1.1.1", "v2": "10.1.1.2"}

func sortedKeys(m interface{}) []string {
	var ks []string
	switch mm := m.(type) {
	case map[string][]spelling:
		for k := range mm {
			ks = append(ks, k)
		}
	case map[string][]string:
		for k := range mm {
			ks = append(ks, k)
		}
	case map[string][]vipSp:
		for k := range mm {
			ks = append(ks, k)
		}
	case map[string]int:
		for k := range mm {
			ks = append(ks, k)
		}
	}
	sort.Strings(ks)
	return ks
}

// writeDetermFiles materialises the case once; every load reads the same bytes.
func writeDetermFiles(c *determCase, dir string) {
	if c.Kind == "gslb" {
		clusters := obj{}
		backends := obj{}
		for _, s := range sortedKeys(c.W) {
			clusters[s] = c.W[s]
			backends[s] = arr{
				obj{"Addr": "10.2." + s[1:] + ".1", "Name": s + "-b1", "Port": 8000, "Weight": 1},
				obj{"Addr": "10.2." + s[1:] + ".2", "Name": s + "-b2", "Port": 8000, "Weight": 1}}
		}
		writeJSON(filepath.Join(dir, "gslb.data"), obj{"Clusters": obj{"c1": clusters},
			"Hostname": "gslb-sch.example.com", "Ts": "20190101000000"})
		writeJSON(filepath.Join(dir, "cluster_table.data"), obj{"Version": "v1", "Config": obj{"c1": backends}})
		return
	}
	hosts := obj{}
	for _, t := range sortedKeys(c.Hosts) {
		if len(c.Hosts[t]) == 0 {
			continue
		}
		l := arr{}
		for _, sp := range c.Hosts[t] {
			l = append(l, nameOf(sp))
		}
		hosts[t] = l
	}
	tags := obj{}
	pr := obj{}
	for _, p := range sortedKeys(c.Tags) {
		l := arr{}
		for _, t := range c.Tags[p] {
			l = append(l, t)
		}
		tags[p] = l
		if len(l) > 0 {
			pr[p] = arr{obj{"Cond": "default_t()", "ClusterName": "c1"}}
		}
	}
	writeJSON(filepath.Join(dir, "host_rule.data"), obj{"Version": "v1", "DefaultProduct": nil, "Hosts": hosts, "HostTags": tags})
	vips := obj{}
	for _, p := range sortedKeys(c.Vips) {
		l := arr{}
		for _, v := range c.Vips[p] {
			l = append(l, vipText[v.IP+"/"+v.Form])
		}
		vips[p] = l
	}
	writeJSON(filepath.Join(dir, "vip_rule.data"), obj{"Version": "v1", "Vips": vips})
	writeJSON(filepath.Join(dir, "route_rule.data"), obj{"Version": "v1", "ProductRule": pr})
	clusterConfFile(filepath.Join(dir, "cluster_conf.data"), []string{"c1"})
}

// oneLoad loads the files once and returns a canonical description of every answer.
func oneLoad(c *determCase, dir string, r int) (obs string, accepted bool, panicked string) {
	var sb strings.Builder
	panicked = vh.Guard(func() {
		if c.Kind == "gslb" {
			bt := bfe_balance.NewBalTable(nil)
			if k := r % (len(c.Prevs) + 1); k > 0 {
				// the same files reached by a reload: Init with predecessor k, then what GslbDataConfReload does
				pf := filepath.Join(dir, fmt.Sprintf("gslb_prev%d.data", k))
				pc := obj{}
				for s, w := range c.Prevs[k-1] {
					if w != 9 {
						pc[s] = w
					}
				}
				writeJSON(pf, obj{"Clusters": obj{"c1": pc}, "Hostname": "gslb-sch.example.com", "Ts": "20180101000000"})
				if err := bt.Init(pf, filepath.Join(dir, "cluster_table.data")); err != nil {
					sb.WriteString("predecessor-rejected")
					return
				}
				g, ct, err := bt.BalTableConfLoad(filepath.Join(dir, "gslb.data"), filepath.Join(dir, "cluster_table.data"))
				if err == nil {
					err = bt.BalTableReload(g, ct)
				}
				if err != nil {
					sb.WriteString("rejected")
					return
				}
			} else if err := bt.Init(filepath.Join(dir, "gslb.data"), filepath.Join(dir, "cluster_table.data")); err != nil {
				sb.WriteString("rejected")
				return
			}
			accepted = true
			bal, err := bt.Lookup("c1")
			if err != nil {
				sb.WriteString("no-balancer")
				return
			}
			for i := 1; i <= 12; i++ {
				hr := &bfe_http.Request{Method: "GET", Host: "example.org", Header: make(bfe_http.Header), RequestURI: "/"}
				req := bfe_basic.NewRequest(hr, nil, nil, bfe_basic.NewSession(nil), nil)
				req.ClientAddr = &net.TCPAddr{IP: net.ParseIP(fmt.Sprintf("192.0.2.%d", i*7)), Port: 1000 + i}
				b, err := bal.Balance(req)
				name := ""
				if b != nil {
					name = b.Name
				}
				fmt.Fprintf(&sb, "ip%d:%s/%s/%v;", i, req.Backend.SubclusterName, name, err != nil)
			}
			return
		}
		sdc, err := bfe_route.LoadServerDataConf(filepath.Join(dir, "host_rule.data"), filepath.Join(dir, "vip_rule.data"),
			filepath.Join(dir, "route_rule.data"), filepath.Join(dir, "cluster_conf.data"))
		if err != nil {
			sb.WriteString("rejected")
			return
		}
		accepted = true
		for _, n := range []string{"h1", "h2"} {
			for _, cs := range []string{"lo", "up"} {
				req := newReq(nameOf(spelling{N: n, C: cs}), "/", nil)
				err := sdc.HostTable.LookupHostTagAndProduct(req)
				fmt.Fprintf(&sb, "%s/%s:%s/%s/%v;", n, cs, req.Route.Product, req.Route.HostTag, err != nil)
			}
		}
		for _, v := range []string{"v1", "v2"} {
			req := newReq("unknown.invalid", "/", net.ParseIP(vipIP[v]))
			err := sdc.HostTable.LookupHostTagAndProduct(req)
			fmt.Fprintf(&sb, "%s:%s/%v;", v, req.Route.Product, err != nil)
		}
	})
	return sb.String(), accepted, panicked
}

// what a successful load must answer according to Layer P
func meaningObs(c *determCase) string {
	var sb strings.Builder
	hm := map[string][2]string{}
	for _, h := range c.Mean.Host {
		hm[h.N] = [2]string{h.Prod, h.Tag}
	}
	for _, n := range []string{"h1", "h2"} {
		for _, cs := range []string{"lo", "up"} {
			if m, ok := hm[n]; ok {
				fmt.Fprintf(&sb, "%s/%s:%s/%s/false;", n, cs, m[0], m[1])
			} else {
				fmt.Fprintf(&sb, "%s/%s://true;", n, cs)
			}
		}
	}
	vm := map[string]string{}
	for _, v := range c.Mean.Vip {
		vm[v.IP] = v.Prod
	}
	for _, v := range []string{"v1", "v2"} {
		if p, ok := vm[v]; ok {
			fmt.Fprintf(&sb, "%s:%s/false;", v, p)
		} else {
			fmt.Fprintf(&sb, "%s:/true;", v)
		}
	}
	return sb.String()
}

func determDir(id int) string {
	d := filepath.Join(".", "route-determ", fmt.Sprintf("case%d", id))
	if err := os.MkdirAll(d, 0o755); err != nil {
		panic(err)
	}
	return d
}

// subOnly projects a gslb observation "ipN:<sub-cluster>/<backend>/<err>;..." onto its sub-clusters.
func subOnly(o string) string {
	var sb strings.Builder
	for _, it := range strings.Split(o, ";") {
		sb.WriteString(strings.SplitN(it, "/", 2)[0])
		sb.WriteByte(';')
	}
	return sb.String()
}

func repeats() int {
	if vh.Tier() == "thorough" {
		return 60
	}
	return 20
}

func determRun() {
	// read all cases, write their files once; loads in this process, then in fresh processes
	var cases []*determCase
	var raw bytes.Buffer
	vh.EachCase(func(line []byte) {
		var c determCase
		if err := json.Unmarshal(line, &c); err != nil {
			vh.Emit(map[string]interface{}{"_bad_case": err.Error()})
			return
		}
		cases = append(cases, &c)
		raw.Write(line)
		raw.WriteByte('\n')
	})
	for _, c := range cases {
		writeDetermFiles(c, determDir(c.ID))
	}
	// fresh processes (map iteration seeds differ per process)
	nchild := 1
	if vh.Tier() == "thorough" {
		nchild = 2
	}
	childObs := make([]map[int]string, 0, nchild)
	for i := 0; i < nchild; i++ {
		m, err := runChild(raw.Bytes())
		if err != nil {
			vh.Emit(map[string]interface{}{"_child_error": err.Error()})
			vh.Flush()
			os.Exit(3)
		}
		childObs = append(childObs, m)
	}
	for _, c := range cases {
		res := result{ID: c.ID, OK: true}
		dir := determDir(c.ID)
		seen := map[string]int{}
		anyAccepted := false
		for r := 0; r < repeats(); r++ {
			obs, acc, p := oneLoad(c, dir, r)
			if p != "" {
				res.fail("panic/"+c.Kind, p, nil)
				break
			}
			if c.Kind == "gslb" && r%(len(c.Prevs)+1) > 0 {
				// reached by a reload: the sub-cluster is a function of the files and the client address; which
				// backend of it comes next is round-robin state, not configuration - compare the sub-clusters only
				matched := false
				for o := range seen {
					if subOnly(o) == subOnly(obs) {
						seen[o]++
						matched = true
						break
					}
				}
				if !matched {
					seen["via-reload-from-"+fmt.Sprint(c.Prevs[r%(len(c.Prevs)+1)-1])+" "+obs]++
				}
				anyAccepted = anyAccepted || acc
				continue
			}
			seen[obs]++
			anyAccepted = anyAccepted || acc
		}
		for _, m := range childObs {
			if o, ok := m[c.ID]; ok {
				seen[o]++
				anyAccepted = anyAccepted || o != "rejected"
			}
		}
		res.Checked++
		why := strings.Join(c.Why, "+")
		var variants []string
		for o, n := range seen {
			variants = append(variants, fmt.Sprintf("%dx %s", n, o))
		}
		sort.Strings(variants)
		desc := fmt.Sprintf("kind=%s hosts=%v tags=%v vips=%v w=%v: %d loads gave %v", c.Kind, c.Hosts, c.Tags, c.Vips, c.W,
			repeats()+len(childObs), variants)
		switch {
		case c.E == "reject":
			if anyAccepted {
				res.fail("ambiguous-accepted/"+why, "a file set without order-independent meaning was accepted: "+desc, nil)
			}
		case len(seen) > 1:
			res.fail("nondeterministic/"+c.Kind, "repeated loads of the same files disagree: "+desc, nil)
		case anyAccepted && c.Kind != "gslb":
			want := meaningObs(c)
			for o := range seen {
				if o != want {
					res.fail("meaning/"+c.Kind, fmt.Sprintf("loads answer %s, the files mean %s; %s", o, want, desc), nil)
				}
			}
		case !anyAccepted:
			res.Gray++ // rejected although it has a meaning: not C14's business (C13)
		}
		res.Obs = map[string]interface{}{"accepted": anyAccepted}
		vh.Emit(res)
	}
	os.RemoveAll(filepath.Join(".", "route-determ"))
}

func runChild(input []byte) (map[int]string, error) {
	exe, err := os.Executable()
	if err != nil {
		return nil, err
	}
	cmd := exec.Command(exe, "determ-child")
	cmd.Stdin = bytes.NewReader(input)
	cmd.Stderr = os.Stderr
	out, err := cmd.Output()
	if err != nil {
		return nil, fmt.Errorf("determ-child: %v", err)
	}
	m := map[int]string{}
	sc := bufio.NewScanner(bytes.NewReader(out))
	sc.Buffer(make([]byte, 1<<20), 1<<26)
	for sc.Scan() {
		var r struct {
			ID  int    `json:"id"`
			Obs string `json:"o"`
		}
		if json.Unmarshal(sc.Bytes(), &r) == nil && r.ID != 0 {
			m[r.ID] = r.Obs
		}
	}
	return m, nil
}

// determChild: one load per case in this (fresh) process; files were written by the parent.
func determChild() {
	vh.EachCase(func(line []byte) {
		var c determCase
		if json.Unmarshal(line, &c) != nil {
			return
		}
		obs, _, p := oneLoad(&c, determDir(c.ID), 0)
		if p != "" {
			obs = "panic"
		}
		vh.Emit(map[string]interface{}{"id": c.ID, "o": obs})
	})
}
