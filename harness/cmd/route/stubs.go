package main

func lookupRun()   {}
func confRun()     {}
func determRun()   {}
func determChild() {}
