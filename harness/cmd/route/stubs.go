package main

func confRun()     {}
func determRun()   {}
func determChild() {}
