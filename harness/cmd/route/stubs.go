package main

func determRun()   {}
func determChild() {}
