package main

import (
	"encoding/json"
	"fmt"
	"os"
	"path/filepath"
	"sort"
	"strings"

	"github.com/bfenetworks/bfe/bfe_config/bfe_route_conf/route_rule_conf"
	"github.com/bfenetworks/bfe/bfe_route"

	"verifharness/vh"
)

// C11: basic route rules.  Case = GenBasic.tla output.
type basicRule struct {
	H string `json:"h"`
	P string `json:"p"`
}
type basicProbe struct {
	H string `json:"h"`
	Q string `json:"q"`
	E []int  `json:"e"` // admitted answers: indexes into rules (1-based), 0 = no basic rule hit
}
type basicCase struct {
	ID     int          `json:"id"`
	Rules  []basicRule  `json:"rules"`
	Probes []basicProbe `json:"probes"`
	Conc   *int         `json:"conc,omitempty"`
}

func basicRun() {
	eachCase(func(line []byte) {
		var c basicCase
		if err := json.Unmarshal(line, &c); err != nil {
			vh.Emit(map[string]interface{}{"_bad_case": err.Error()})
			return
		}
		res := result{ID: c.ID, OK: true}
		conc := int(vh.Seed())*11 + c.ID
		if c.Conc != nil {
			conc = *c.Conc
		}
		res.Obs = map[string]interface{}{"conc": conc}
		// mode 0: one rule per (host, path) pair, every rule its own cluster (most discriminating);
		// modes 1, 2: pairs grouped into multi-path / multi-host rules
		modes := []int{0, 1 + conc%2}
		for _, mode := range modes {
			m := mode
			if p := vh.Guard(func() { basicCaseRun(&c, &res, conc, m) }); p != "" {
				res.fail("panic/load", p, nil)
			}
		}
		vh.Emit(res)
	})
}

type fileRule struct {
	Hostname    []string `json:"Hostname,omitempty"`
	Path        []string `json:"Path,omitempty"`
	ClusterName string   `json:"ClusterName"`
}

// buildBasicRules turns the abstract pairs into route_rule.data rules.
// clusterOf[i] is the cluster name of abstract rule i (0-based).
func buildBasicRules(rules []basicRule, conc, mode int, lm map[string]string) ([]fileRule, []string) {
	rnd := vh.Rand(int64(2000 + conc*3 + mode))
	spellHost := func(h string) string {
		h = mapHost(h, lm)
		switch rnd.Intn(3) {
		case 1:
			h = strings.ToUpper(h)
		case 2:
			h = mixCase(h, rnd)
		}
		return h
	}
	clusterOf := make([]string, len(rules))
	var out []fileRule
	switch mode {
	case 0:
		for i, r := range rules {
			fr := fileRule{ClusterName: fmt.Sprintf("c%d", i+1)}
			clusterOf[i] = fr.ClusterName
			// "any" may be spelled "*" or left out (but not both left out)
			omitH := r.H == "*" && r.P != "*" && rnd.Intn(2) == 0
			omitP := r.P == "*" && !omitH && r.H != "*" && rnd.Intn(2) == 0
			if r.H == "*" && r.P == "*" && rnd.Intn(2) == 0 {
				if rnd.Intn(2) == 0 {
					omitH = true
				} else {
					omitP = true
				}
			}
			if !omitH {
				fr.Hostname = []string{spellHost(r.H)}
			}
			if !omitP {
				fr.Path = []string{r.P}
			}
			out = append(out, fr)
		}
	case 1, 2: // group by host (mode 1) or by path (mode 2)
		key := func(r basicRule) string {
			if mode == 1 {
				return r.H
			}
			return r.P
		}
		groups := map[string][]int{}
		var keys []string
		for i, r := range rules {
			if _, ok := groups[key(r)]; !ok {
				keys = append(keys, key(r))
			}
			groups[key(r)] = append(groups[key(r)], i)
		}
		sort.Strings(keys)
		for gi, k := range keys {
			fr := fileRule{ClusterName: fmt.Sprintf("g%d", gi+1)}
			for _, i := range groups[k] {
				clusterOf[i] = fr.ClusterName
				if mode == 1 {
					fr.Path = append(fr.Path, rules[i].P)
				} else {
					fr.Hostname = append(fr.Hostname, spellHost(rules[i].H))
				}
			}
			if mode == 1 {
				fr.Hostname = []string{spellHost(k)}
			} else {
				fr.Path = []string{k}
			}
			out = append(out, fr)
		}
		rnd.Shuffle(len(out), func(i, j int) { out[i], out[j] = out[j], out[i] })
	}
	if out == nil {
		out = []fileRule{}
	}
	return out, clusterOf
}

func basicCaseRun(c *basicCase, res *result, conc, mode int) {
	lm := labelMaps[conc%len(labelMaps)]
	frs, clusterOf := buildBasicRules(c.Rules, conc, mode, lm)
	dir := caseDir()
	routeFile := filepath.Join(dir, "route_rule.data")
	writeJSON(routeFile, map[string]interface{}{"Version": "v1",
		"BasicRule": map[string]interface{}{"p1": frs}})
	conf, err := route_rule_conf.RouteConfLoad(routeFile)
	if err != nil {
		res.fail("load/rejected", fmt.Sprintf("RouteConfLoad rejected a documented basic rule table (mode %d): %v", mode, err), frs)
		return
	}
	tree := conf.BasicRuleTree["p1"]
	// the same table behind LookupCluster (port stripping happens there)
	hostFile := filepath.Join(dir, "host_rule.data")
	writeJSON(hostFile, map[string]interface{}{"Version": "v1", "DefaultProduct": nil,
		"Hosts": map[string][]string{"tag1": {"example.org"}}, "HostTags": map[string][]string{"p1": {"tag1"}}})
	writeJSON(filepath.Join(dir, "vip_rule.data"), map[string]interface{}{"Version": "v1", "Vips": map[string][]string{}})
	var clusters []string
	seen := map[string]bool{}
	for _, fr := range frs {
		if !seen[fr.ClusterName] {
			seen[fr.ClusterName] = true
			clusters = append(clusters, fr.ClusterName)
		}
	}
	clusterConfFile(filepath.Join(dir, "cluster_conf.data"), clusters)
	sdc, err := bfe_route.LoadServerDataConf(hostFile, filepath.Join(dir, "vip_rule.data"), routeFile,
		filepath.Join(dir, "cluster_conf.data"))
	os.RemoveAll(dir)
	if err != nil {
		res.fail("load/rejected", fmt.Sprintf("LoadServerDataConf rejected a documented configuration (mode %d): %v", mode, err), frs)
		return
	}
	for _, pb := range c.Probes {
		allowed := map[string]bool{}
		for _, e := range pb.E {
			if e == 0 {
				allowed[""] = true
			} else {
				allowed[clusterOf[e-1]] = true
			}
		}
		want := fmt.Sprint(pb.E)
		for vi := 0; vi < 4; vi++ {
			up, port := vi&1 == 1, vi&2 == 2
			host := spell(mapHost(pb.H, lm), up, port, false)
			variant := fmt.Sprintf("up=%v,port=%v", up, port)
			// (a) BasicRouteRuleTree.Get (no port: the tree is given the bare host name)
			if tree != nil && !port {
				var got string
				var found bool
				if p := vh.Guard(func() { got, found = tree.Get(host, pb.Q) }); p != "" {
					res.fail("panic/get", p, pb)
					continue
				}
				if !found {
					got = ""
				}
				res.Checked++
				if !allowed[got] {
					res.fail(basicSig(pb, got, clusterOf, "get", variant),
						fmt.Sprintf("mode=%d rules=%v Get(%q,%q)=%q found=%v, spec admits rules %s (clusters %v)",
							mode, frs, host, pb.Q, got, found, want, keys(allowed)), pb)
				}
			}
			// (b) HostTable.LookupCluster
			req := newReq(host, pb.Q, nil)
			req.Route.Product = "p1"
			var lerr error
			if p := vh.Guard(func() { lerr = sdc.HostTable.LookupCluster(req) }); p != "" {
				res.fail("panic/lookupcluster", p, pb)
				continue
			}
			got := req.Route.ClusterName
			if lerr != nil {
				got = ""
			}
			res.Checked++
			if !allowed[got] {
				res.fail(basicSig(pb, got, clusterOf, "lookup", variant),
					fmt.Sprintf("mode=%d rules=%v LookupCluster(host=%q,path=%q) cluster=%q err=%v, spec admits rules %s (clusters %v)",
						mode, frs, host, pb.Q, req.Route.ClusterName, lerr, want, keys(allowed)), pb)
			}
		}
	}
}

func keys(m map[string]bool) []string {
	var ks []string
	for k := range m {
		if k == "" {
			k = "<miss>"
		}
		ks = append(ks, k)
	}
	sort.Strings(ks)
	return ks
}

// canonical signature: which kind of rule was expected / obtained
func basicSig(pb basicProbe, got string, clusterOf []string, api, variant string) string {
	exp := "miss"
	if len(pb.E) > 0 && pb.E[0] != 0 {
		exp = "hit"
	}
	g := "miss"
	if got != "" {
		g = "other-rule"
	}
	return fmt.Sprintf("basic/%s/expected-%s/got-%s/%s", api, exp, g, variant)
}

var _ = json.Marshal
