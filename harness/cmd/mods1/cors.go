package main

func corsRun() {}
