package main

import (
	"encoding/json"
	"sort"
	"strings"

	"github.com/bfenetworks/bfe/bfe_basic"
	"github.com/bfenetworks/bfe/bfe_http"
	"github.com/bfenetworks/bfe/bfe_module"
	"github.com/bfenetworks/bfe/bfe_modules/mod_cors"

	"verifharness/vh"
)

// One C52 case as printed by specs/Mod/GenCors.tla.
type corsCase struct {
	ID    int `json:"id"`
	Rules []struct {
		Cond    string   `json:"cond"`
		Origins []string `json:"origins"`
		Cred    bool     `json:"cred"`
		Full    bool     `json:"full"`
	} `json:"rules"` // the product's ordered rule list
	Req struct {
		Method string   `json:"method"`
		Path   string   `json:"path"`
		Origin string   `json:"origin"`
		Acrm   string   `json:"acrm"`
		Vary   []string `json:"vary"`
	} `json:"req"`
}

type corsObs struct {
	Loaded    bool              `json:"loaded"`
	LoadErr   string            `json:"loaderr,omitempty"`
	Panic     string            `json:"panic,omitempty"`
	Preflight bool              `json:"preflight"` // the module answered itself (BfeHandlerResponse)
	Status    int               `json:"status"`
	AC        map[string]string `json:"ac"`   // every Access-Control-* response header
	Vary      []string          `json:"vary"` // Vary header lines of the response
}

func corsRuleFile(c *corsCase) string {
	rules := make([]interface{}, 0, len(c.Rules))
	for _, r := range c.Rules {
		rule := map[string]interface{}{
			"Cond":                          r.Cond,
			"AccessControlAllowOrigins":     r.Origins,
			"AccessControlAllowCredentials": r.Cred,
		}
		if r.Full {
			rule["AccessControlExposeHeaders"] = []string{"X-Custom-Header"}
			rule["AccessControlAllowMethods"] = []string{"GET", "PUT"}
			rule["AccessControlAllowHeaders"] = []string{"X-Custom-Header"}
			rule["AccessControlMaxAge"] = 600
		}
		rules = append(rules, rule)
	}
	return mustJSON(map[string]interface{}{"Version": "v1", "Config": map[string]interface{}{product: rules}})
}

func corsRun() {
	mi, err := newMod(mod_cors.NewModuleCors(), "[Basic]\nDataPath = mod_cors/cors_rule.data\n[Log]\nOpenDebug = false\n",
		"mod_cors/cors_rule.data", emptyRules)
	if err != nil {
		panic("harness: mod_cors init: " + err.Error())
	}
	defer mi.close()
	loaded, loadErr := "", ""

	vh.EachCase(func(line []byte) {
		var c corsCase
		if err := json.Unmarshal(line, &c); err != nil {
			vh.Emit(map[string]interface{}{"_bad_case": err.Error()})
			return
		}
		var o corsObs
		file := corsRuleFile(&c)
		if loaded != file {
			loaded, loadErr = file, ""
			var lerr error
			if p := vh.Guard(func() { lerr = mi.reload(file) }); p != "" {
				loadErr = p
			} else if lerr != nil {
				loadErr = lerr.Error()
			}
			if loadErr != "" {
				mi.reload(emptyRules)
			}
		}
		if loadErr != "" {
			o.LoadErr = loadErr
			if strings.HasPrefix(loadErr, "panic") {
				o.Panic = loadErr
			}
			vh.Emit(map[string]interface{}{"id": c.ID, "obs": o})
			return
		}
		o.Loaded = true
		var hdr [][2]string
		if c.Req.Origin != "" {
			hdr = append(hdr, [2]string{"Origin", c.Req.Origin})
		}
		if c.Req.Acrm != "" {
			hdr = append(hdr, [2]string{"Access-Control-Request-Method", c.Req.Acrm})
		}
		req, err := mkReq(c.Req.Method, "origin", "a.example.com", c.Req.Path, "", hdr)
		if err != nil {
			vh.Emit(map[string]interface{}{"id": c.ID, "_bad_case": "request does not parse: " + err.Error()})
			return
		}
		var res *bfe_http.Response
		o.Panic = vh.Guard(func() {
			// as bfe_server does: request-side filters first; a filter may answer itself
			ret, r := bfe_module.BfeHandlerGoOn, (*bfe_http.Response)(nil)
			for _, pt := range []int{bfe_module.HandleBeforeLocation, bfe_module.HandleFoundProduct, bfe_module.HandleAfterLocation} {
				if ret, r = mi.request(pt, req); ret != bfe_module.BfeHandlerGoOn {
					break
				}
			}
			if ret == bfe_module.BfeHandlerResponse && r != nil {
				o.Preflight = true
				res = r
				return
			}
			// otherwise the backend's response passes the response-side filters
			res = bfe_basic.CreateInternalResp(req, 200)
			for _, v := range c.Req.Vary {
				res.Header.Add("Vary", v)
			}
			mi.response(bfe_module.HandleReadResponse, req, res)
		})
		o.AC = map[string]string{}
		if res != nil {
			o.Status = res.StatusCode
			keys := make([]string, 0)
			for k := range res.Header {
				keys = append(keys, k)
			}
			sort.Strings(keys)
			for _, k := range keys {
				if strings.HasPrefix(strings.ToLower(k), "access-control-") {
					o.AC[k] = strings.Join(res.Header[k], "\n")
				}
			}
			o.Vary = hdrVals(res.Header, "Vary")
		}
		vh.Emit(map[string]interface{}{"id": c.ID, "obs": o})
	})
}
