package main

import (
	"encoding/json"
	"fmt"
	"strings"
	"sync"
	"time"

	"github.com/bfenetworks/bfe/bfe_module"
	"github.com/bfenetworks/bfe/bfe_modules/mod_prison"

	"github.com/bfenetworks/bfe/bfe_basic"

	"verifharness/vh"
)

func ruleName(id, i int) string { return fmt.Sprintf("r%d_%d", id, i+1) }
func jailHeader(i int) string   { return fmt.Sprintf("X-Bfe-Jail-%d", i+1) }

// ruleVerdicts maps what one call of the filter shows to a per-rule verdict:
// 1 = the rule had the key in jail, 0 = it admitted the request, -1 = not observable.
//   - REQ_HEADER_SET: its own header is on the request or not;
//   - CLOSE / FINISH: the filter's result, when only one rule of the list has that action;
//   - PASS: nothing to observe;
//   - rules after a CLOSE / FINISH rule that ended the request: nothing to observe.
func ruleVerdicts(c *prisonCase, ret int, req *bfe_basic.Request) []int {
	code := map[string]int{"CLOSE": bfe_module.BfeHandlerClose, "FINISH": bfe_module.BfeHandlerFinish}
	count := map[string]int{}
	for _, r := range c.Rules {
		count[r.Action]++
	}
	out := make([]int, len(c.Rules))
	ended := false // an earlier terminal rule certainly or possibly ended the request
	for i, r := range c.Rules {
		switch r.Action {
		case "REQ_HEADER_SET":
			if req.HttpRequest.Header.Get(jailHeader(i)) != "" {
				out[i] = 1
			} else if ended {
				out[i] = -1
			}
		case "CLOSE", "FINISH":
			switch {
			case ended:
				out[i] = -1
			case ret == code[r.Action] && count[r.Action] == 1:
				out[i] = 1
				ended = true
			case ret == code[r.Action]:
				out[i] = -1 // which of the rules with this action fired?
				ended = true
			}
		default:
			out[i] = -1
		}
	}
	return out
}

// One C53 case: an arrival schedule in ticks (specs/Mod/GenPrison.tla or a seeded driver)
// and the real periods to play it with.
type prisonCase struct {
	ID     int    `json:"id"`
	Th     int    `json:"th"`
	Kind   string `json:"kind"`    // "scaled": periods set in microseconds through the overlay setter; "real": whole seconds from the rule file
	CpUs   int64  `json:"cp_us"`   // CheckPeriod
	SpUs   int64  `json:"sp_us"`   // StayPeriod
	TickUs int64  `json:"tick_us"` // real length of one schedule tick
	// the product's ordered rule list (all rules match every request); empty = one CLOSE rule with Th
	Rules []struct {
		Th     int    `json:"th"`
		Action string `json:"action"` // CLOSE | FINISH | PASS | REQ_HEADER_SET
	} `json:"rules"`
	Arr []struct {
		K int `json:"k"`
		T int `json:"t"`
	} `json:"arr"`
}

type prisonEv struct {
	Ev   string `json:"ev"`
	Cid  int    `json:"cid"`
	Th   int    `json:"th"`
	P    int64  `json:"p"`
	J    int64  `json:"j"`
	K    int    `json:"k"`
	Lo   int64  `json:"lo"`
	Hi   int64  `json:"hi"`
	Deny bool   `json:"deny"`
	U    bool   `json:"u"` // verdict of this rule not observable for this arrival
	Info string `json:"info,omitempty"`
}

func prisonRun() {
	var cases []*prisonCase
	vh.EachCase(func(line []byte) {
		c := new(prisonCase)
		if err := json.Unmarshal(line, c); err != nil {
			vh.Emit(map[string]interface{}{"_bad_case": err.Error()})
			return
		}
		cases = append(cases, c)
	})
	if len(cases) == 0 {
		return
	}
	// one product (one rule with its own dictionaries) per case, all in one rule file
	conf := map[string]interface{}{}
	for _, c := range cases {
		cp, sp := int64(1), int64(1)
		if c.Kind == "real" {
			cp, sp = c.CpUs/1000000, c.SpUs/1000000
		}
		if len(c.Rules) == 0 {
			c.Rules = append(c.Rules, struct {
				Th     int    `json:"th"`
				Action string `json:"action"`
			}{c.Th, "CLOSE"})
		}
		var rules []interface{}
		for i, r := range c.Rules {
			params := []string{}
			if r.Action == "REQ_HEADER_SET" {
				params = []string{jailHeader(i), "1"}
			}
			rules = append(rules, map[string]interface{}{
				"Name": ruleName(c.ID, i), "Cond": "default_t()",
				"AccessSignConf": map[string]interface{}{"Header": []string{"X-Key"}},
				"Action":         map[string]interface{}{"Cmd": r.Action, "Params": params},
				"CheckPeriod":    cp, "StayPeriod": sp, "Threshold": r.Th,
				"AccessDictSize": 64, "PrisonDictSize": 64,
			})
		}
		conf[fmt.Sprintf("c%d", c.ID)] = rules
	}
	// a product of its own for the warm-up call (first-call costs must not fall into a schedule)
	conf["warm"] = []interface{}{map[string]interface{}{
		"Name": "warm", "Cond": "default_t()",
		"AccessSignConf": map[string]interface{}{"Header": []string{"X-Key"}},
		"Action":         map[string]interface{}{"Cmd": "CLOSE", "Params": []string{}},
		"CheckPeriod":    1, "StayPeriod": 1, "Threshold": 1000,
		"AccessDictSize": 8, "PrisonDictSize": 8,
	}}
	m := mod_prison.NewModulePrison()
	mi, err := newMod(m, "[basic]\nProductRulePath = mod_prison/prison.data\n", "mod_prison/prison.data", emptyRules)
	if err != nil {
		panic("harness: mod_prison init: " + err.Error())
	}
	defer mi.close()
	if err := mi.reload(mustJSON(map[string]interface{}{"Version": "v1", "Config": conf})); err != nil {
		panic("harness: mod_prison refused the rule file: " + err.Error())
	}
	for _, c := range cases {
		prod := fmt.Sprintf("c%d", c.ID)
		if c.Kind == "scaled" {
			for i := range c.Rules {
				if !m.VerifSetPeriods(prod, ruleName(c.ID, i), c.CpUs*1000, c.SpUs*1000) {
					panic("harness: rule not found after load: " + ruleName(c.ID, i))
				}
			}
		}
		// the trace carries the periods as configured (rule file seconds for "real", the values
		// just set for "scaled"), never what the code derived from them
	}

	for i := 0; i < 50; i++ {
		req, err := mkReq("GET", "origin", "a.example.com", "/x", "", [][2]string{{"X-Key", "w"}})
		if err != nil {
			panic("harness: " + err.Error())
		}
		req.Route.Product = "warm"
		mi.request(bfe_module.HandleFoundProduct, req)
	}

	out := make([][]prisonEv, len(cases))
	var wg sync.WaitGroup
	for i, c := range cases {
		wg.Add(1)
		go func(i int, c *prisonCase) {
			defer wg.Done()
			// one recorded case per rule: cid = 10*case + rule
			evs := make([][]prisonEv, len(c.Rules))
			for r := range c.Rules {
				evs[r] = []prisonEv{{Ev: "load", Cid: 10*c.ID + r + 1, Th: c.Rules[r].Th, P: c.CpUs, J: c.SpUs}}
			}
			prod := fmt.Sprintf("c%d", c.ID)
			t0 := time.Now().Add(30*time.Millisecond + time.Duration(i%50)*time.Millisecond)
			for _, a := range c.Arr {
				req, err := mkReq("GET", "origin", "a.example.com", "/x", "", [][2]string{{"X-Key", strings.Repeat("k", a.K)}, {"X-Key-Other", "k"}})
				if err != nil {
					panic("harness: " + err.Error())
				}
				req.Route.Product = prod
				if d := time.Until(t0.Add(time.Duration(int64(a.T)*c.TickUs) * time.Microsecond)); d > 0 {
					time.Sleep(d)
				}
				var ret int
				lo := time.Now()
				p := vh.Guard(func() { ret, _ = mi.request(bfe_module.HandleFoundProduct, req) })
				hi := time.Now()
				info := p
				if p == "" && ret != bfe_module.BfeHandlerClose && ret != bfe_module.BfeHandlerFinish && ret != bfe_module.BfeHandlerGoOn {
					info = fmt.Sprintf("unexpected handler result %d", ret)
				}
				verdicts := ruleVerdicts(c, ret, req)
				for r := range c.Rules {
					ev := prisonEv{Ev: "arr", Cid: 10*c.ID + r + 1, K: a.K}
					// lo is rounded down, hi up: every clock reading of the code lies in [lo, hi]
					ev.Lo = lo.Sub(t0).Microseconds() + 1000000
					ev.Hi = (hi.Sub(t0) + time.Microsecond - 1).Microseconds() + 1000000
					ev.Deny, ev.U = verdicts[r] == 1, verdicts[r] < 0
					if r == 0 {
						ev.Info = info
					}
					evs[r] = append(evs[r], ev)
				}
			}
			for _, e := range evs {
				out[i] = append(out[i], e...)
			}
		}(i, c)
	}
	wg.Wait()
	for _, evs := range out {
		for _, e := range evs {
			vh.Emit(e)
		}
	}
}
