package main

func prisonRun() {}
