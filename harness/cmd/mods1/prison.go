package main

import (
	"encoding/json"
	"fmt"
	"strings"
	"sync"
	"time"

	"github.com/bfenetworks/bfe/bfe_module"
	"github.com/bfenetworks/bfe/bfe_modules/mod_prison"

	"verifharness/vh"
)

// One C53 case: an arrival schedule in ticks (specs/Mod/GenPrison.tla or a seeded driver)
// and the real periods to play it with.
type prisonCase struct {
	ID     int    `json:"id"`
	Th     int    `json:"th"`
	Kind   string `json:"kind"`    // "scaled": periods set in microseconds through the overlay setter; "real": whole seconds from the rule file
	CpUs   int64  `json:"cp_us"`   // CheckPeriod
	SpUs   int64  `json:"sp_us"`   // StayPeriod
	TickUs int64  `json:"tick_us"` // real length of one schedule tick
	Arr    []struct {
		K int `json:"k"`
		T int `json:"t"`
	} `json:"arr"`
}

type prisonEv struct {
	Ev   string `json:"ev"`
	Cid  int    `json:"cid"`
	Th   int    `json:"th"`
	P    int64  `json:"p"`
	J    int64  `json:"j"`
	K    int    `json:"k"`
	Lo   int64  `json:"lo"`
	Hi   int64  `json:"hi"`
	Deny bool   `json:"deny"`
	Info string `json:"info,omitempty"`
}

func prisonRun() {
	var cases []*prisonCase
	vh.EachCase(func(line []byte) {
		c := new(prisonCase)
		if err := json.Unmarshal(line, c); err != nil {
			vh.Emit(map[string]interface{}{"_bad_case": err.Error()})
			return
		}
		cases = append(cases, c)
	})
	if len(cases) == 0 {
		return
	}
	// one product (one rule with its own dictionaries) per case, all in one rule file
	conf := map[string]interface{}{}
	for _, c := range cases {
		cp, sp := int64(1), int64(1)
		if c.Kind == "real" {
			cp, sp = c.CpUs/1000000, c.SpUs/1000000
		}
		conf[fmt.Sprintf("c%d", c.ID)] = []interface{}{map[string]interface{}{
			"Name": fmt.Sprintf("r%d", c.ID), "Cond": "default_t()",
			"AccessSignConf": map[string]interface{}{"Header": []string{"X-Key"}},
			"Action":         map[string]interface{}{"Cmd": "CLOSE", "Params": []string{}},
			"CheckPeriod":    cp, "StayPeriod": sp, "Threshold": c.Th,
			"AccessDictSize": 64, "PrisonDictSize": 64,
		}}
	}
	// a product of its own for the warm-up call (first-call costs must not fall into a schedule)
	conf["warm"] = []interface{}{map[string]interface{}{
		"Name": "warm", "Cond": "default_t()",
		"AccessSignConf": map[string]interface{}{"Header": []string{"X-Key"}},
		"Action":         map[string]interface{}{"Cmd": "CLOSE", "Params": []string{}},
		"CheckPeriod":    1, "StayPeriod": 1, "Threshold": 1000,
		"AccessDictSize": 8, "PrisonDictSize": 8,
	}}
	m := mod_prison.NewModulePrison()
	mi, err := newMod(m, "[basic]\nProductRulePath = mod_prison/prison.data\n", "mod_prison/prison.data", emptyRules)
	if err != nil {
		panic("harness: mod_prison init: " + err.Error())
	}
	defer mi.close()
	if err := mi.reload(mustJSON(map[string]interface{}{"Version": "v1", "Config": conf})); err != nil {
		panic("harness: mod_prison refused the rule file: " + err.Error())
	}
	for _, c := range cases {
		prod, name := fmt.Sprintf("c%d", c.ID), fmt.Sprintf("r%d", c.ID)
		if c.Kind == "scaled" {
			if !m.VerifSetPeriods(prod, name, c.CpUs*1000, c.SpUs*1000) {
				panic("harness: rule not found after load: " + name)
			}
		}
		// the trace carries the periods as configured (rule file seconds for "real", the values
		// just set for "scaled"), never what the code derived from them
	}

	for i := 0; i < 50; i++ {
		req, err := mkReq("GET", "origin", "a.example.com", "/x", "", [][2]string{{"X-Key", "w"}})
		if err != nil {
			panic("harness: " + err.Error())
		}
		req.Route.Product = "warm"
		mi.request(bfe_module.HandleFoundProduct, req)
	}

	out := make([][]prisonEv, len(cases))
	var wg sync.WaitGroup
	for i, c := range cases {
		wg.Add(1)
		go func(i int, c *prisonCase) {
			defer wg.Done()
			evs := []prisonEv{{Ev: "load", Cid: c.ID, Th: c.Th, P: c.CpUs, J: c.SpUs}}
			prod := fmt.Sprintf("c%d", c.ID)
			t0 := time.Now().Add(30*time.Millisecond + time.Duration(i%50)*time.Millisecond)
			for _, a := range c.Arr {
				req, err := mkReq("GET", "origin", "a.example.com", "/x", "", [][2]string{{"X-Key", strings.Repeat("k", a.K)}, {"X-Key-Other", "k"}})
				if err != nil {
					panic("harness: " + err.Error())
				}
				req.Route.Product = prod
				if d := time.Until(t0.Add(time.Duration(int64(a.T)*c.TickUs) * time.Microsecond)); d > 0 {
					time.Sleep(d)
				}
				ev := prisonEv{Ev: "arr", Cid: c.ID, K: a.K}
				var ret int
				lo := time.Now()
				p := vh.Guard(func() { ret, _ = mi.request(bfe_module.HandleFoundProduct, req) })
				hi := time.Now()
				// lo is rounded down, hi up: every clock reading of the code lies in [lo, hi]
				ev.Lo = lo.Sub(t0).Microseconds() + 1000000
				ev.Hi = (hi.Sub(t0) + time.Microsecond - 1).Microseconds() + 1000000
				ev.Deny = ret == bfe_module.BfeHandlerClose
				if p != "" {
					ev.Info = p
				} else if ret != bfe_module.BfeHandlerClose && ret != bfe_module.BfeHandlerGoOn {
					ev.Info = fmt.Sprintf("unexpected handler result %d", ret)
				}
				evs = append(evs, ev)
			}
			out[i] = evs
		}(i, c)
	}
	wg.Wait()
	for _, evs := range out {
		for _, e := range evs {
			vh.Emit(e)
		}
	}
}
