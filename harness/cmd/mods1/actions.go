package main

import (
	"encoding/json"
	"strings"

	"github.com/bfenetworks/bfe/bfe_basic"
	"github.com/bfenetworks/bfe/bfe_http"
	"github.com/bfenetworks/bfe/bfe_module"
	"github.com/bfenetworks/bfe/bfe_modules/mod_header"
	"github.com/bfenetworks/bfe/bfe_modules/mod_redirect"
	"github.com/bfenetworks/bfe/bfe_modules/mod_rewrite"
	"github.com/bfenetworks/bfe/bfe_server"

	"verifharness/vh"
)

// One C49 case as printed by specs/Mod/GenActions.tla (or a documentation example).
type actCase struct {
	ID     int      `json:"id"`
	Fam    string   `json:"fam"` // rewrite | header | redirect
	Cmd    string   `json:"cmd"`
	Params []string `json:"params"`
	Status int      `json:"status"`
	Doc    string   `json:"doc"` // verbatim rule file from the documentation (acceptance only)
	Req    struct {
		Form string              `json:"form"`
		Host string              `json:"host"`
		Path string              `json:"path"`
		Rawq string              `json:"rawq"`
		Hdr  map[string][]string `json:"hdr"`
		Rhdr map[string][]string `json:"rhdr"`
	} `json:"req"`
	Exp struct {
		Code int `json:"code"`
	} `json:"exp"`
}

type actObs struct {
	Accepted bool                `json:"accepted"`
	LoadErr  string              `json:"loaderr,omitempty"`
	Panic    string              `json:"panic,omitempty"`
	Host     string              `json:"host"`
	Path     string              `json:"path"`
	Rawq     string              `json:"rawq"`
	URI      string              `json:"uri"`
	Q        map[string][]string `json:"q"`
	Hdr      map[string][]string `json:"hdr"`
	Rhdr     map[string][]string `json:"rhdr"`
	URL      string              `json:"url"`
	Code     int                 `json:"code"`
	Location string              `json:"location"`
	Ret      int                 `json:"ret"`
	Redir    bool                `json:"redirected"`
}

const hdrT, hdrO = "X-Bfe-T", "X-Bfe-T-Other"

type recWriter struct {
	h    bfe_http.Header
	code int
}

func (w *recWriter) Header() bfe_http.Header     { return w.h }
func (w *recWriter) Write(b []byte) (int, error) { return len(b), nil }
func (w *recWriter) WriteHeader(c int)           { w.code = c }

func ruleFile(fam, cmd string, params []string, status int) string {
	if params == nil {
		params = []string{}
	}
	act := map[string]interface{}{"Cmd": cmd, "Params": params}
	rule := map[string]interface{}{"Cond": "default_t()", "Actions": []interface{}{act}}
	if fam == "redirect" {
		rule["Status"] = status
	} else {
		rule["Last"] = true
	}
	return mustJSON(map[string]interface{}{"Version": "v1", "Config": map[string]interface{}{product: []interface{}{rule}}})
}

const emptyRules = `{"Version":"v0","Config":{}}`

func actionsRun() {
	rw, err := newMod(mod_rewrite.NewModuleReWrite(), "[basic]\nDataPath = mod_rewrite/rewrite.data\n", "mod_rewrite/rewrite.data", emptyRules)
	if err != nil {
		panic("harness: mod_rewrite init: " + err.Error())
	}
	defer rw.close()
	hd, err := newMod(mod_header.NewModuleHeader(), "[basic]\nDataPath = mod_header/header_rule.data\nDisableDefaultHeader = true\n", "mod_header/header_rule.data", emptyRules)
	if err != nil {
		panic("harness: mod_header init: " + err.Error())
	}
	defer hd.close()
	rd, err := newMod(mod_redirect.NewModuleRedirect(), "[basic]\nDataPath = mod_redirect/redirect.data\n", "mod_redirect/redirect.data", emptyRules)
	if err != nil {
		panic("harness: mod_redirect init: " + err.Error())
	}
	defer rd.close()
	mods := map[string]*modInst{"rewrite": rw, "header": hd, "redirect": rd}
	loaded := map[string]string{} // family -> rule file currently in the module's table
	loadErr := map[string]string{}

	vh.EachCase(func(line []byte) {
		var c actCase
		if err := json.Unmarshal(line, &c); err != nil {
			vh.Emit(map[string]interface{}{"_bad_case": err.Error()})
			return
		}
		mi := mods[c.Fam]
		var o actObs
		file := c.Doc
		if file == "" {
			file = ruleFile(c.Fam, c.Cmd, c.Params, c.Exp.Code)
		}
		// acceptance: the module's own loader (reload handler)
		if loaded[c.Fam] != file {
			loaded[c.Fam] = file
			loadErr[c.Fam] = ""
			var lerr error
			if p := vh.Guard(func() { lerr = mi.reload(file) }); p != "" {
				loadErr[c.Fam] = p
			} else if lerr != nil {
				loadErr[c.Fam] = lerr.Error()
			}
			if loadErr[c.Fam] != "" {
				mi.reload(emptyRules) // a rejected file leaves the previous table; make it empty
			}
		}
		if e := loadErr[c.Fam]; e != "" {
			o.LoadErr = e
			if strings.HasPrefix(e, "panic") {
				o.Panic = e
			}
			vh.Emit(map[string]interface{}{"id": c.ID, "obs": o})
			return
		}
		o.Accepted = true
		if c.Doc != "" {
			vh.Emit(map[string]interface{}{"id": c.ID, "obs": o})
			return
		}
		// effect: the handlers the module registered, on a request parsed by bfe_http
		var hdr [][2]string
		for _, n := range []string{"t", "o"} {
			name := map[string]string{"t": hdrT, "o": hdrO}[n]
			for _, v := range c.Req.Hdr[n] {
				hdr = append(hdr, [2]string{name, v})
			}
		}
		req, err := mkReq("GET", c.Req.Form, c.Req.Host, c.Req.Path, c.Req.Rawq, hdr)
		if err != nil {
			vh.Emit(map[string]interface{}{"id": c.ID, "_bad_case": "request does not parse: " + err.Error()})
			return
		}
		res := bfe_basic.CreateInternalResp(req, 200)
		for _, n := range []string{"t", "o"} {
			name := map[string]string{"t": hdrT, "o": hdrO}[n]
			for _, v := range c.Req.Rhdr[n] {
				res.Header.Add(name, v)
			}
		}
		o.Panic = vh.Guard(func() {
			switch c.Fam {
			case "rewrite":
				o.Ret = mi.requestPoints(req)
			case "header":
				o.Ret = mi.requestPoints(req)
				mi.response(bfe_module.HandleReadResponse, req, res)
			case "redirect":
				o.Ret = mi.requestPoints(req)
				if o.Ret == bfe_module.BfeHandlerRedirect {
					o.Redir = true
					w := &recWriter{h: bfe_http.Header{}}
					bfe_server.Redirect(w, req.HttpRequest, req.Redirect.Url, req.Redirect.Code, req.Redirect.Header)
					o.Location = w.h.Get("Location")
					o.Code = w.code
				}
			}
		})
		u := req.HttpRequest.URL
		o.Host, o.Path, o.Rawq = req.HttpRequest.Host, u.Path, u.RawQuery
		o.URI = u.RequestURI()
		o.Q = qmap(u.RawQuery)
		o.Hdr = map[string][]string{"t": hdrVals(req.HttpRequest.Header, hdrT), "o": hdrVals(req.HttpRequest.Header, hdrO)}
		o.Rhdr = map[string][]string{"t": hdrVals(res.Header, hdrT), "o": hdrVals(res.Header, hdrO)}
		o.URL = req.Redirect.Url
		vh.Emit(map[string]interface{}{"id": c.ID, "obs": o})
	})
}
