// Command mods1 binds specs/Mod/{Actions,Cors,Prison}.tla to bfe_basic/action,
// mod_rewrite, mod_header, mod_redirect (C49), mod_cors (C52) and mod_prison (C53).
package main

import (
	"fmt"
	"os"

	"verifharness/vh"
)

func main() {
	if len(os.Args) < 2 {
		fmt.Fprintln(os.Stderr, "usage: mods1 <actions|cors|prison>")
		os.Exit(2)
	}
	defer vh.Flush()
	switch os.Args[1] {
	case "actions":
		actionsRun()
	case "cors":
		corsRun()
	case "prison":
		prisonRun()
	default:
		fmt.Fprintln(os.Stderr, "unknown subcommand", os.Args[1])
		vh.Flush()
		os.Exit(2)
	}
}
