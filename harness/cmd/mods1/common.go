package main

import (
	"encoding/json"
	"fmt"
	"net"
	"net/url"
	"os"
	"path/filepath"
	"sort"
	"strings"

	"github.com/baidu/go-lib/web-monitor/web_monitor"

	"github.com/bfenetworks/bfe/bfe_basic"
	"github.com/bfenetworks/bfe/bfe_bufio"
	"github.com/bfenetworks/bfe/bfe_http"
	"github.com/bfenetworks/bfe/bfe_module"
)

const product = "p"

// module is what the harness needs from a bfe module: the way bfe itself uses it.
type module interface {
	Name() string
	Init(cbs *bfe_module.BfeCallbacks, whs *web_monitor.WebHandlers, cr string) error
}

// modInst is a module initialised from a private conf root, exactly as bfe_server does
// (Init registers the filters in the callback table and the reload handler in the web handlers).
type modInst struct {
	name string
	cbs  *bfe_module.BfeCallbacks
	whs  *web_monitor.WebHandlers
	root string
	seq  int
}

// newMod writes <root>/<name>/<name>.conf and the initial data file, then runs Init.
func newMod(m module, conf string, dataRel string, data string) (*modInst, error) {
	root, err := os.MkdirTemp("", "mods1.")
	if err != nil {
		return nil, err
	}
	name := m.Name()
	if err := os.MkdirAll(filepath.Join(root, name), 0o755); err != nil {
		return nil, err
	}
	if err := os.WriteFile(filepath.Join(root, name, name+".conf"), []byte(conf), 0o644); err != nil {
		return nil, err
	}
	if err := os.WriteFile(filepath.Join(root, dataRel), []byte(data), 0o644); err != nil {
		return nil, err
	}
	mi := &modInst{name: name, cbs: bfe_module.NewBfeCallbacks(), whs: web_monitor.NewWebHandlers(), root: root}
	if err := m.Init(mi.cbs, mi.whs, root); err != nil {
		return nil, err
	}
	return mi, nil
}

func (mi *modInst) close() { os.RemoveAll(mi.root) }

// reload loads a rule file through the module's registered reload handler (what
// "curl /reload/<module>?path=..." does in a running bfe).
func (mi *modInst) reload(data string) error {
	mi.seq++
	p := filepath.Join(mi.root, fmt.Sprintf("data.%d.json", mi.seq%4))
	if err := os.WriteFile(p, []byte(data), 0o644); err != nil {
		return fmt.Errorf("harness: %v", err)
	}
	h, err := mi.whs.GetHandler(web_monitor.WebHandleReload, mi.name)
	if err != nil {
		panic("harness: no reload handler for " + mi.name)
	}
	q := url.Values{"path": []string{p}}
	switch f := h.(type) {
	case func(url.Values) error:
		return f(q)
	case func(url.Values) (string, error):
		_, err := f(q)
		return err
	default:
		panic(fmt.Sprintf("harness: reload handler of %s has type %T", mi.name, h))
	}
}

func (mi *modInst) request(point int, req *bfe_basic.Request) (int, *bfe_http.Response) {
	return mi.cbs.GetHandlerList(point).FilterRequest(req)
}

// requestPoints runs the request-side callback points in bfe_server's order until a
// filter returns something other than GoOn.
func (mi *modInst) requestPoints(req *bfe_basic.Request) int {
	for _, pt := range []int{bfe_module.HandleBeforeLocation, bfe_module.HandleFoundProduct, bfe_module.HandleAfterLocation} {
		if ret, _ := mi.request(pt, req); ret != bfe_module.BfeHandlerGoOn {
			return ret
		}
	}
	return bfe_module.BfeHandlerGoOn
}

func (mi *modInst) response(point int, req *bfe_basic.Request, res *bfe_http.Response) int {
	return mi.cbs.GetHandlerList(point).FilterResponse(req, res)
}

// mkReq parses a request with bfe's own HTTP/1 parser and wraps it as bfe_server does.
func mkReq(method, form, host, path, rawq string, hdr [][2]string) (*bfe_basic.Request, error) {
	target := path
	if rawq != "" {
		target += "?" + rawq
	}
	if form == "absolute" {
		target = "http://" + host + target
	}
	var b strings.Builder
	fmt.Fprintf(&b, "%s %s HTTP/1.1\r\nHost: %s\r\n", method, target, host)
	for _, kv := range hdr {
		fmt.Fprintf(&b, "%s: %s\r\n", kv[0], kv[1])
	}
	b.WriteString("\r\n")
	hr, err := bfe_http.ReadRequest(bfe_bufio.NewReader(strings.NewReader(b.String())), 65536)
	if err != nil {
		return nil, err
	}
	sess := bfe_basic.NewSession(nil)
	sess.RemoteAddr = &net.TCPAddr{IP: net.ParseIP("1.2.3.4"), Port: 5678}
	sess.SessionId = "SESS1"
	sess.Vip = net.ParseIP("9.9.9.9")
	req := bfe_basic.NewRequest(hr, nil, &bfe_basic.RequestStat{}, sess, nil)
	req.ClientAddr = &net.TCPAddr{IP: net.ParseIP("1.2.3.4"), Port: 5678}
	req.LogId = "LOGID1"
	req.Route.Product = product
	req.Route.ClusterName = "cluster_x"
	return req, nil
}

// qmap is the decoded view a backend has of a raw query string: key -> ordered values.
// (segments split at '&', key/value at the first '=', both percent-decoded.)
func qmap(raw string) map[string][]string {
	m := map[string][]string{}
	if raw == "" {
		return m
	}
	for _, seg := range strings.Split(raw, "&") {
		if seg == "" {
			continue
		}
		k, v := seg, ""
		if i := strings.IndexByte(seg, '='); i >= 0 {
			k, v = seg[:i], seg[i+1:]
		}
		if d, err := url.QueryUnescape(k); err == nil {
			k = d
		}
		if d, err := url.QueryUnescape(v); err == nil {
			v = d
		}
		m[k] = append(m[k], v)
	}
	return m
}

func hdrVals(h bfe_http.Header, name string) []string {
	v := h[name]
	out := make([]string, len(v))
	copy(out, v)
	return out
}

func sortedKeys(m map[string][]string) []string {
	ks := make([]string, 0, len(m))
	for k := range m {
		ks = append(ks, k)
	}
	sort.Strings(ks)
	return ks
}

func mustJSON(v interface{}) string {
	b, err := json.Marshal(v)
	if err != nil {
		panic(err)
	}
	return string(b)
}
