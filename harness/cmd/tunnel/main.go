// Command tunnel binds specs/Tunnel (C47) to the real WebSocket proxy (ws, wss) and the
// TLS-offload stream proxy of an in-process BFE. Both endpoints are raw sockets owned by
// the harness; what they send and receive is recorded and validated by TraceTunnel.tla.
package main

import (
	"bufio"
	"crypto/tls"
	"encoding/json"
	"fmt"
	"io"
	"net"
	"os"
	"strings"
	"sync"
	"time"

	"github.com/bfenetworks/bfe/bfe_balance/backend"

	"verifharness/e2e"
	"verifharness/vh"
)

// connection-counter observations (C07: websocket / stream tunnels count against the backend too)
var (
	cmu     sync.Mutex
	cevents []map[string]interface{}
	cseen   = map[*backend.BfeBackend]bool{}
	clast   time.Time
)

type top struct {
	Op   string `json:"op"`
	Size string `json:"size"`
}
type tcase struct {
	ID     int    `json:"id"`
	Proto  string `json:"proto"`
	EarlyC string `json:"earlyC"`
	EarlyB string `json:"earlyB"`
	Ops    []top  `json:"ops"`
	Closer string `json:"closer"`
}

func sizeOf(class string, rnd func(int) int) int {
	switch class {
	case "none":
		return 0
	case "1":
		return 1
	case "small":
		return 2 + rnd(200)
	case "page":
		return 4096 + rnd(3000)
	case "big":
		return 70000 + rnd(200000)
	}
	return 0
}

// pattern byte at stream offset i for direction d
func pat(d byte, i int) byte { return byte((i*131 + i/251 + int(d)) & 0xff) }

func mkData(d byte, off, n int) []byte {
	b := make([]byte, n)
	for i := range b {
		b[i] = pat(d, off+i)
	}
	return b
}

// endpoint: one side of the tunnel
type endpoint struct {
	side byte // 'c' or 'b'
	conn net.Conn
	r    io.Reader
	mu   sync.Mutex
	recv int
	bad  bool
	eof  bool
	evs  *[]map[string]interface{}
	emu  *sync.Mutex
	cid  int
	sent int
}

func (e *endpoint) log(m map[string]interface{}) {
	e.emu.Lock()
	m["cid"] = e.cid
	*e.evs = append(*e.evs, m)
	e.emu.Unlock()
}

// readLoop consumes the incoming stream, checking the content against the peer's pattern
func (e *endpoint) readLoop(peer byte, done chan struct{}) {
	defer close(done)
	buf := make([]byte, 32768)
	for {
		n, err := e.r.Read(buf)
		if n > 0 {
			ok := true
			e.mu.Lock()
			for i := 0; i < n; i++ {
				if buf[i] != pat(peer, e.recv+i) {
					ok = false
				}
			}
			e.recv += n
			if !ok {
				e.bad = true
			}
			// logged while e.mu is held: whoever sees the new counter (sync points read it under e.mu)
			// finds the recv event already in the trace, so a sync event can never overtake it
			e.log(map[string]interface{}{"ev": "recv", "side": string(e.side), "n": n, "ok": ok})
			e.mu.Unlock()
		}
		if err != nil {
			e.mu.Lock()
			e.eof = true
			e.mu.Unlock()
			return
		}
	}
}

func (e *endpoint) send(n int) error {
	data := mkData(e.side, e.sent, n)
	e.log(map[string]interface{}{"ev": "send", "side": string(e.side), "n": n})
	e.sent += n
	_, err := e.conn.Write(data)
	return err
}

func (e *endpoint) received() int {
	e.mu.Lock()
	defer e.mu.Unlock()
	return e.recv
}

func waitUntil(max time.Duration, f func() bool) bool {
	dl := time.Now().Add(max)
	for time.Now().Before(dl) {
		if f() {
			return true
		}
		time.Sleep(5 * time.Millisecond)
	}
	return f()
}

func main() {
	if len(os.Args) < 2 || os.Args[1] != "tunnel-run" {
		fmt.Fprintln(os.Stderr, "usage: tunnel tunnel-run")
		os.Exit(2)
	}
	defer vh.Flush()
	var cases []tcase
	vh.EachCase(func(line []byte) {
		var c tcase
		if json.Unmarshal(line, &c) == nil {
			cases = append(cases, c)
		}
	})
	backend.VerifTracer = func(ev string, b *backend.BfeBackend, avail bool, fail, succ, arg int) {
		if ev != "inc_conn" && ev != "dec_conn" {
			return
		}
		cmu.Lock()
		cseen[b] = true
		clast = time.Now()
		cevents = append(cevents, map[string]interface{}{"ev": ev[:3], "b": b.Name, "n": arg})
		cmu.Unlock()
	}
	// one raw backend listener; each accepted connection is handed to the case that waits for it
	ln, err := net.Listen("tcp", "127.0.0.1:0")
	if err != nil {
		panic(err)
	}
	accepted := make(chan net.Conn, 16)
	go func() {
		for {
			c, err := ln.Accept()
			if err != nil {
				return
			}
			accepted <- c
		}
	}()
	dead := e2e.ClosedPort()
	ws, err := e2e.Start(e2e.Options{Clusters: []e2e.Cluster{{Name: "c", Backends: []string{dead, ln.Addr().String()}}}, TLS: true,
		NextProtos: []string{"http/1.1"}})
	if err != nil {
		vh.Emit(map[string]interface{}{"_fatal": "e2e.Start(ws): " + err.Error()})
		return
	}
	defer ws.Close()
	st, err := e2e.Start(e2e.Options{Clusters: []e2e.Cluster{{Name: "c", Backends: []string{dead, ln.Addr().String()}}}, TLS: true,
		NextProtos: []string{"stream", "http/1.1"}})
	if err != nil {
		vh.Emit(map[string]interface{}{"_fatal": "e2e.Start(stream): " + err.Error()})
		return
	}
	defer st.Close()
	rnd := vh.Rand(47)
	done := 0
	for _, c := range cases {
		cmu.Lock()
		cevents = nil
		base := map[*backend.BfeBackend]int{}
		for b := range cseen {
			base[b] = b.ConnNum()
		}
		cmu.Unlock()
		runCase(c, ws, st, accepted, func(n int) int { return rnd.Intn(n) })
		// both tunnel ends are closed now: wait until the proxy has let go of the backend
		dl := time.Now().Add(5 * time.Second)
		for time.Now().Before(dl) {
			time.Sleep(40 * time.Millisecond)
			cmu.Lock()
			quiet := time.Since(clast) > 400*time.Millisecond
			zero := true
			for b := range cseen {
				if b.ConnNum()-base[b] != 0 {
					zero = false
				}
			}
			cmu.Unlock()
			if quiet && zero {
				break
			}
		}
		cmu.Lock()
		for _, e := range cevents {
			e["cid"] = c.ID
			vh.Emit(map[string]interface{}{"cev": e["ev"], "cid": c.ID, "b": e["b"], "n": e["n"]})
		}
		conns := []int{}
		for b := range cseen {
			conns = append(conns, b.ConnNum()-base[b])
		}
		vh.Emit(map[string]interface{}{"cev": "quiet", "cid": c.ID, "conns": conns, "proto": c.Proto})
		cmu.Unlock()
		done++
	}
	vh.Emit(map[string]interface{}{"summary": true, "cases": done})
}

const upgradeReq = "GET /ws HTTP/1.1\r\nHost: example.org\r\nUpgrade: websocket\r\nConnection: Upgrade\r\n" +
	"Sec-WebSocket-Key: dGhlIHNhbXBsZSBub25jZQ==\r\nSec-WebSocket-Version: 13\r\n\r\n"
const upgradeResp = "HTTP/1.1 101 Switching Protocols\r\nUpgrade: websocket\r\nConnection: Upgrade\r\n" +
	"Sec-WebSocket-Accept: s3pPLMBiTxaQ9kYGzzhZRbK+xOo=\r\n\r\n"

func runCase(c tcase, ws, st *e2e.Server, accepted chan net.Conn, rnd func(int) int) {
	var evs []map[string]interface{}
	var emu sync.Mutex
	emit := func() {
		emu.Lock()
		for _, e := range evs {
			vh.Emit(e)
		}
		emu.Unlock()
	}
	// drain stale backend connections of earlier cases
	for {
		select {
		case x := <-accepted:
			x.Close()
			continue
		default:
		}
		break
	}
	fail := func(why string) {
		vh.Emit(map[string]interface{}{"ev": "new", "cid": c.ID, "established": false, "why": why})
	}
	var cconn net.Conn
	var err error
	switch c.Proto {
	case "ws":
		cconn, err = net.DialTimeout("tcp", ws.Addr, 5*time.Second)
	case "wss":
		cconn, err = tls.Dial("tcp", ws.TLSAddr, &tls.Config{InsecureSkipVerify: true, NextProtos: []string{"http/1.1"}})
	case "stream":
		cconn, err = tls.Dial("tcp", st.TLSAddr, &tls.Config{InsecureSkipVerify: true, NextProtos: []string{"stream"}})
	}
	if err != nil {
		fail("dial: " + err.Error())
		return
	}
	defer cconn.Close()
	cl := &endpoint{side: 'c', conn: cconn, evs: &evs, emu: &emu, cid: c.ID}
	bk := &endpoint{side: 'b', evs: &evs, emu: &emu, cid: c.ID}
	earlyC := sizeOf(c.EarlyC, rnd)
	earlyB := sizeOf(c.EarlyB, rnd)
	// client: upgrade request + early bytes in one write
	first := []byte{}
	if c.Proto != "stream" {
		first = append(first, upgradeReq...)
	}
	first = append(first, mkData('c', 0, earlyC)...)
	if earlyC > 0 {
		cl.log(map[string]interface{}{"ev": "send", "side": "c", "n": earlyC})
		cl.sent = earlyC
	}
	if len(first) > 0 {
		if _, err := cconn.Write(first); err != nil {
			fail("client write: " + err.Error())
			return
		}
	} else {
		// stream proxy connects to the backend only after the TLS handshake; force it
		if tc, ok := cconn.(*tls.Conn); ok {
			tc.Handshake()
		}
	}
	var bconn net.Conn
	select {
	case bconn = <-accepted:
	case <-time.After(10 * time.Second):
		fail("backend saw no connection")
		return
	}
	defer bconn.Close()
	bk.conn = bconn
	bbr := bufio.NewReaderSize(bconn, 65536)
	bk.r = bbr
	if c.Proto != "stream" {
		// read the forwarded upgrade request
		bconn.SetReadDeadline(time.Now().Add(10 * time.Second))
		for {
			line, err := bbr.ReadString('\n')
			if err != nil {
				fail("backend read upgrade request: " + err.Error())
				return
			}
			if line == "\r\n" {
				break
			}
		}
		bconn.SetReadDeadline(time.Time{})
	}
	// backend: 101 response + early bytes in one write
	firstB := []byte{}
	if c.Proto != "stream" {
		firstB = append(firstB, upgradeResp...)
	}
	firstB = append(firstB, mkData('b', 0, earlyB)...)
	if earlyB > 0 {
		bk.log(map[string]interface{}{"ev": "send", "side": "b", "n": earlyB})
		bk.sent = earlyB
	}
	if len(firstB) > 0 {
		if _, err := bconn.Write(firstB); err != nil {
			fail("backend write: " + err.Error())
			return
		}
	}
	cbr := bufio.NewReaderSize(cconn, 65536)
	cl.r = cbr
	if c.Proto != "stream" {
		cconn.SetReadDeadline(time.Now().Add(10 * time.Second))
		status, err := cbr.ReadString('\n')
		if err != nil || !strings.Contains(status, " 101 ") {
			fail(fmt.Sprintf("client did not get 101: %q %v", status, err))
			return
		}
		for {
			line, err := cbr.ReadString('\n')
			if err != nil {
				fail("client read 101 headers: " + err.Error())
				return
			}
			if line == "\r\n" {
				break
			}
		}
		cconn.SetReadDeadline(time.Time{})
	}
	// the "new" event must come first in the trace
	emu.Lock()
	evs = append([]map[string]interface{}{{"ev": "new", "cid": c.ID, "established": true}}, evs...)
	emu.Unlock()
	cdone, bdone := make(chan struct{}), make(chan struct{})
	go cl.readLoop('b', cdone)
	go bk.readLoop('c', bdone)
	sync1 := func() bool {
		ok := waitUntil(10*time.Second, func() bool { return bk.received() >= cl.sent && cl.received() >= bk.sent })
		cl.log(map[string]interface{}{"ev": "sync"})
		return ok
	}
	if !sync1() {
		emit() // bytes were lost: the case is already rejected, do not wait at every later sync point
		return
	}
	for _, op := range c.Ops {
		n := sizeOf(op.Size, rnd)
		if op.Op == "c2b" {
			if err := cl.send(n); err != nil {
				break
			}
		} else {
			if err := bk.send(n); err != nil {
				break
			}
		}
		if !sync1() {
			emit()
			return
		}
	}
	// nobody has closed so far: neither side may have seen end-of-stream
	cl.mu.Lock()
	ceof := cl.eof
	cl.mu.Unlock()
	bk.mu.Lock()
	beof := bk.eof
	bk.mu.Unlock()
	cl.log(map[string]interface{}{"ev": "eof", "side": "c", "seen": ceof})
	cl.log(map[string]interface{}{"ev": "eof", "side": "b", "seen": beof})
	// close one side; the other must observe end-of-stream
	cl.log(map[string]interface{}{"ev": "close", "side": c.Closer})
	if c.Closer == "c" {
		cconn.Close()
		seen := false
		select {
		case <-bdone:
			seen = true
		case <-time.After(10 * time.Second):
		}
		cl.log(map[string]interface{}{"ev": "eof", "side": "b", "seen": seen})
	} else {
		bconn.Close()
		seen := false
		select {
		case <-cdone:
			seen = true
		case <-time.After(10 * time.Second):
		}
		cl.log(map[string]interface{}{"ev": "eof", "side": "c", "seen": seen})
	}
	emit()
}
