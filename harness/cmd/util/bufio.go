package main

import (
	"bufio"
	"encoding/json"
	"io"
	"os"

	"github.com/bfenetworks/bfe/bfe_bufio"

	"verifharness/vh"
)

const bufSize = 16 // B of specs/Util (the minimum reader buffer of both libraries)

type bufOp struct {
	Op   string `json:"op"`
	A    int    `json:"a"`
	Ch   int    `json:"ch"`
	E    bool   `json:"e"`
	Xpos *int   `json:"xpos"`
	Xbuf *int   `json:"xbuf"`
	Xn   *int   `json:"xn"`
}

type bufCase struct {
	ID     int     `json:"id"`
	Kind   string  `json:"kind"` // "r" | "w"
	S      []int   `json:"s"`
	Chunks []int   `json:"chunks"`
	Eofd   bool    `json:"eofd"`
	Urf    bool    `json:"urf"`
	Ops    []bufOp `json:"ops"`
}

var symByte = []byte{'x', '\r', '\n'}

func toSyms(b []byte) []int {
	out := make([]int, len(b))
	for i, c := range b {
		switch c {
		case 'x':
			out[i] = 0
		case '\r':
			out[i] = 1
		case '\n':
			out[i] = 2
		default:
			out[i] = 9
		}
	}
	return out
}

func toInts(b []byte) []int {
	out := make([]int, len(b))
	for i, c := range b {
		out[i] = int(c)
	}
	return out
}

// chunkSrc is the underlying reader of the spec: at most chunks[nr] bytes per call,
// io.EOF together with the last bytes iff eofd, (0, nil) for an empty p.
type chunkSrc struct {
	data   []byte
	off    int
	chunks []int
	nr     int
	eofd   bool
}

func (s *chunkSrc) Read(p []byte) (int, error) {
	if len(p) == 0 {
		return 0, nil
	}
	if s.off >= len(s.data) {
		return 0, io.EOF
	}
	n := len(p)
	if c := s.chunks[s.nr%len(s.chunks)]; c < n {
		n = c
	}
	if r := len(s.data) - s.off; r < n {
		n = r
	}
	copy(p, s.data[s.off:s.off+n])
	s.off += n
	s.nr++
	if s.eofd && s.off == len(s.data) {
		return n, io.EOF
	}
	return n, nil
}

type chunkSrcWT struct{ *chunkSrc }

func (s chunkSrcWT) WriteTo(w io.Writer) (int64, error) {
	n, err := w.Write(s.data[s.off:])
	s.off += n
	return int64(n), err
}

type sink struct{ b []byte }

func (s *sink) Write(p []byte) (int, error) { s.b = append(s.b, p...); return len(p), nil }

type sinkRF struct{ sink }

func (s *sinkRF) ReadFrom(r io.Reader) (int64, error) {
	var n int64
	buf := make([]byte, 7)
	for {
		m, err := r.Read(buf)
		s.b = append(s.b, buf[:m]...)
		n += int64(m)
		if err == io.EOF {
			return n, nil
		}
		if err != nil {
			return n, err
		}
	}
}

type rdr interface {
	io.Reader
	io.ByteScanner
	io.RuneScanner
	io.WriterTo
	ReadSlice(byte) ([]byte, error)
	ReadLine() ([]byte, bool, error)
	ReadBytes(byte) ([]byte, error)
	ReadString(byte) (string, error)
	Peek(int) ([]byte, error)
	Buffered() int
}

type wtr interface {
	io.Writer
	io.ByteWriter
	io.StringWriter
	io.ReaderFrom
	WriteRune(rune) (int, error)
	Flush() error
	Buffered() int
}

func errCode(err error) int {
	switch err {
	case nil:
		return 0
	case io.EOF:
		return 1
	case bfe_bufio.ErrBufferFull, bufio.ErrBufferFull:
		return 2
	case bfe_bufio.ErrInvalidUnreadByte, bufio.ErrInvalidUnreadByte:
		return 3
	case bfe_bufio.ErrInvalidUnreadRune, bufio.ErrInvalidUnreadRune:
		return 4
	}
	return 9
}

type bufEv struct {
	Cid   int    `json:"cid"`
	Ev    string `json:"ev"`
	A     int    `json:"a"`
	N     int    `json:"n"`
	Data  []int  `json:"data"`
	Err   int    `json:"err"`
	Pfx   bool   `json:"pfx"`
	Delta []int  `json:"delta"`
	Tot   int    `json:"tot"`
	Buf   int    `json:"buf"`
	Det   string `json:"detail,omitempty"`
}

func mkSrc(c *bufCase, data []byte) io.Reader {
	src := &chunkSrc{data: data, chunks: c.Chunks, eofd: c.Eofd}
	for _, o := range c.Ops {
		if o.Op == "writeto" {
			if o.A == 1 {
				return chunkSrcWT{src}
			}
			break
		}
	}
	return src
}

// runReader executes the script on one library; returns the events.
func runReader(c *bufCase, cid int, std bool) []bufEv {
	data := make([]byte, len(c.S))
	for i, s := range c.S {
		data[i] = symByte[s]
	}
	var r rdr
	var br *bfe_bufio.Reader
	if std {
		r = bufio.NewReaderSize(mkSrc(c, data), bufSize)
	} else {
		br = bfe_bufio.NewReaderSize(mkSrc(c, data), bufSize)
		r = br
	}
	var evs []bufEv
	for i, op := range c.Ops {
		ev := bufEv{Cid: cid, Ev: op.Op, A: op.A, Data: []int{}, Delta: []int{}, Tot: -1}
		p, finished := guardTimeout(func() {
			var err error
			switch op.Op {
			case "read":
				buf := make([]byte, op.A)
				var n int
				n, err = r.Read(buf)
				ev.N = n
				if n >= 0 && n <= len(buf) {
					ev.Data = toSyms(buf[:n])
				}
			case "readbyte":
				var b byte
				b, err = r.ReadByte()
				if err == nil {
					ev.N, ev.Data = 1, toSyms([]byte{b})
				}
			case "readrune":
				var ru rune
				var size int
				ru, size, err = r.ReadRune()
				if err == nil {
					ev.N = size
					if ru >= 0 && ru < 128 {
						ev.Data = toSyms([]byte{byte(ru)})
					} else {
						ev.Data = []int{9}
					}
				}
			case "unreadbyte":
				err = r.UnreadByte()
			case "unreadrune":
				err = r.UnreadRune()
			case "readslice":
				var line []byte
				line, err = r.ReadSlice(symByte[op.A])
				ev.N, ev.Data = len(line), toSyms(line)
			case "readbytes":
				var line []byte
				if i%2 == 0 {
					line, err = r.ReadBytes(symByte[op.A])
				} else {
					var s string
					s, err = r.ReadString(symByte[op.A])
					line = []byte(s)
				}
				ev.N, ev.Data = len(line), toSyms(line)
			case "readline":
				var line []byte
				line, ev.Pfx, err = r.ReadLine()
				ev.N, ev.Data = len(line), toSyms(line)
			case "peek":
				var line []byte
				line, err = r.Peek(op.A)
				ev.N, ev.Data = len(line), toSyms(line)
			case "writeto":
				var sk sink
				var n int64
				n, err = r.WriteTo(&sk)
				ev.N, ev.Data = int(n), toSyms(sk.b)
			}
			ev.Err = errCode(err)
			if ev.Err == 9 {
				ev.Det = err.Error()
			}
			ev.Buf = r.Buffered()
			if br != nil {
				ev.Tot = br.TotalRead
			}
		})
		if !finished {
			bufHangs++
			evs = append(evs, bufEv{Cid: cid, Ev: op.Op, A: op.A, Data: []int{}, Delta: []int{}, Tot: -1, Err: -2,
				Det: "call did not return within 12s"})
			break
		}
		if p != "" {
			ev.Err, ev.Det = -1, p
			evs = append(evs, ev)
			break
		}
		evs = append(evs, ev)
	}
	return evs
}

func runWriter(c *bufCase, cid int, std bool) []bufEv {
	var under *sink
	var uw io.Writer
	if c.Urf {
		s := &sinkRF{}
		under, uw = &s.sink, s
	} else {
		under = &sink{}
		uw = under
	}
	var w wtr
	var bw *bfe_bufio.Writer
	if std {
		w = bufio.NewWriterSize(uw, bufSize)
	} else {
		bw = bfe_bufio.NewWriterSize(uw, bufSize)
		w = bw
	}
	count := 0
	next := func(n int) []byte {
		b := make([]byte, n)
		for i := range b {
			b[i] = byte(1 + count%100)
			count++
		}
		return b
	}
	var evs []bufEv
	for i, op := range c.Ops {
		ev := bufEv{Cid: cid, Ev: op.Op, A: op.A, Data: []int{}, Delta: []int{}, Tot: -1}
		before := len(under.b)
		p, finished := guardTimeout(func() {
			var err error
			switch op.Op {
			case "write":
				d := next(op.A)
				ev.Data = toInts(d)
				ev.N, err = w.Write(d)
			case "writestring":
				d := next(op.A)
				ev.Data = toInts(d)
				ev.N, err = w.WriteString(string(d))
			case "writebyte":
				d := next(1)
				ev.Data = toInts(d)
				if i%2 == 0 {
					err = w.WriteByte(d[0])
					if err == nil {
						ev.N = 1
					}
				} else {
					ev.N, err = w.WriteRune(rune(d[0]))
				}
			case "flush":
				err = w.Flush()
			case "readfrom":
				d := next(op.A)
				ev.Data = toInts(d)
				var n int64
				n, err = w.ReadFrom(&chunkSrc{data: d, chunks: []int{op.Ch}, eofd: op.E})
				ev.N = int(n)
			}
			ev.Err = errCode(err)
			if ev.Err == 9 {
				ev.Det = err.Error()
			}
			ev.Buf = w.Buffered()
			if bw != nil {
				ev.Tot = bw.TotalWrite
			}
		})
		if !finished {
			bufHangs++
			evs = append(evs, bufEv{Cid: cid, Ev: op.Op, A: op.A, Data: []int{}, Delta: []int{}, Tot: -1, Err: -2,
				Det: "call did not return within 12s"})
			break
		}
		if len(under.b) >= before {
			ev.Delta = toInts(under.b[before:])
		}
		if p != "" {
			ev.Err, ev.Det = -1, p
			evs = append(evs, ev)
			break
		}
		evs = append(evs, ev)
	}
	return evs
}

// bufHangs counts calls that did not return (each leaves a goroutine behind).
var bufHangs int

func sameReply(a, b *bufEv) bool {
	if a.N != b.N || a.Err != b.Err || a.Pfx != b.Pfx || len(a.Data) != len(b.Data) {
		return false
	}
	for i := range a.Data {
		if a.Data[i] != b.Data[i] {
			return false
		}
	}
	return true
}

// bufioRun: every case is executed on bfe_bufio (cid = 2*id) and on std bufio (cid = 2*id+1).
func bufioRun() {
	cases, drift, stdDiff := 0, 0, 0
	var driftEx, stdDiffEx []string
	vh.EachCase(func(line []byte) {
		var c bufCase
		if err := json.Unmarshal(line, &c); err != nil {
			vh.Emit(map[string]interface{}{"_bad_case": err.Error()})
			return
		}
		cases++
		if bufHangs >= 3 {
			return
		}
		var a, b []bufEv
		if c.Kind == "w" {
			a, b = runWriter(&c, 2*c.ID, false), runWriter(&c, 2*c.ID+1, true)
		} else {
			a, b = runReader(&c, 2*c.ID, false), runReader(&c, 2*c.ID+1, true)
		}
		for i := range a {
			op := c.Ops[i]
			x := op.Xbuf
			if c.Kind == "w" {
				x = op.Xn
			}
			if x != nil && a[i].Err >= 0 && *x != a[i].Buf {
				drift++
				if len(driftEx) < 3 {
					driftEx = append(driftEx, op.Op)
				}
			}
			if i < len(b) && !sameReply(&a[i], &b[i]) {
				stdDiff++
				if len(stdDiffEx) < 5 {
					stdDiffEx = append(stdDiffEx, op.Op)
				}
				break
			}
		}
		s := c.S
		if s == nil {
			s = []int{}
		}
		for k, evs := range [][]bufEv{a, b} {
			vh.Emit(map[string]interface{}{"cid": 2*c.ID + k, "ev": "new", "kind": c.Kind, "s": s})
			for i := range evs {
				vh.Emit(&evs[i])
			}
		}
	})
	vh.Emit(map[string]interface{}{"summary": true, "cases": cases, "drift": drift, "drift_examples": driftEx,
		"std_diff": stdDiff, "std_diff_examples": stdDiffEx, "hangs": bufHangs})
	if bufHangs > 0 {
		vh.Flush()
		os.Exit(0) // do not wait for the spinning goroutines
	}
}
