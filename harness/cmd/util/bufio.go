package main

func bufioRun() {}
