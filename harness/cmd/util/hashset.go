package main

import (
	"encoding/json"
	"os"

	"github.com/bfenetworks/bfe/bfe_util/hash_set"
	"github.com/bfenetworks/bfe/bfe_util/ipdict"

	"verifharness/vh"
)

const hsElemSize = 4

type hsOp struct {
	Op   string `json:"op"`
	K    int    `json:"k"`
	ExpM *bool  `json:"expM"`
}

// hsCase: a history over abstract key ids 1..NK; Valid = ids of legal length.
type hsCase struct {
	ID    int    `json:"id"`
	Cap   int    `json:"cap"`
	NK    int    `json:"nk"`
	Valid []int  `json:"valid"`
	Fixed bool   `json:"fixed"`
	Hash  string `json:"hash"` // const | mod | pair | nil | fnv
	Ops   []hsOp `json:"ops"`
}

// hsKey concretises an abstract key id for a fixed-length or variable-length set.
func hsKey(id int, valid, fixed bool) []byte {
	b := byte(id)
	if fixed {
		if valid {
			return []byte{b, 0xAA, 0x55, b}
		}
		switch id % 3 {
		case 0:
			return []byte{}
		case 1:
			return []byte{1, 0xAA} // a proper prefix of key 1
		default:
			return []byte{b, 0xAA, 0x55, b, 1}
		}
	}
	if valid {
		switch id {
		case 1:
			return []byte{}
		case 2:
			return []byte("a")
		case 3:
			return []byte("ab")
		case 4:
			return []byte("abc")
		case 5:
			return []byte("abcd")
		}
		return []byte{b, 'x', 'y', 'z'}[:1+id%4]
	}
	if id%2 == 0 {
		return []byte("abcde")
	}
	return []byte{b, 1, 2, 3, 4, 5, 6}
}

// hsMaxHangs: a hung call leaves a spinning goroutine behind; stop after a few of them.
const hsMaxHangs = 3

func hashsetRun() {
	cases, drift, hangs := 0, 0, 0
	var driftEx []string
	vh.EachCase(func(line []byte) {
		var c hsCase
		if err := json.Unmarshal(line, &c); err != nil {
			vh.Emit(map[string]interface{}{"_bad_case": err.Error()})
			return
		}
		cases++
		if hangs >= hsMaxHangs {
			return
		}
		valid := map[int]bool{}
		for _, v := range c.Valid {
			valid[v] = true
		}
		keys := make([][]byte, c.NK+1)
		ids := map[string]int{}
		for id := 1; id <= c.NK; id++ {
			keys[id] = hsKey(id, valid[id], c.Fixed)
			ids[string(keys[id])] = id
		}
		haSize := uint64(c.Cap * hash_set.LOAD_FACTOR)
		var hf func([]byte) uint64
		switch c.Hash {
		case "const":
			hf = func([]byte) uint64 { return 7 }
		case "mod":
			hf = func(k []byte) uint64 { return uint64(ids[string(k)]) % haSize }
		case "pair":
			hf = func(k []byte) uint64 { return haSize*3 + uint64(ids[string(k)]%2) }
		case "fnv":
			hf = ipdict.Hash
		default:
			hf = nil
		}
		var set *hash_set.HashSet
		var err error
		if p := vh.Guard(func() { set, err = hash_set.NewHashSet(c.Cap, hsElemSize, c.Fixed, hf) }); p != "" || err != nil {
			vh.Emit(map[string]interface{}{"_bad_case": "NewHashSet failed", "p": p})
			return
		}
		vh.Emit(map[string]interface{}{"cid": c.ID, "ev": "new", "cap": c.Cap, "valid": c.Valid})
		for _, op := range c.Ops {
			ret := 0
			ex := []int{}
			ln := 0
			detail := ""
			p, finished := guardTimeout(func() {
				arg := append([]byte{}, keys[op.K]...)
				var e error
				if op.Op == "add" {
					e = set.Add(arg)
				} else {
					e = set.Remove(arg)
				}
				for i := range arg { // the caller may reuse its buffer
					arg[i] ^= 0xFF
				}
				if e == nil {
					ret = 1
				} else {
					detail = e.Error()
				}
				for id := 1; id <= c.NK; id++ {
					if set.Exist(append([]byte{}, keys[id]...)) {
						ex = append(ex, id)
					}
				}
				ln = set.Len()
			})
			if !finished { // the call (or the Exist/Len probes after it) did not return
				hangs++
				vh.Emit(map[string]interface{}{"cid": c.ID, "ev": op.Op, "k": op.K, "ret": -2, "ex": []int{}, "len": 0,
					"detail": "call did not return within 12s"})
				break
			}
			ev := map[string]interface{}{"cid": c.ID, "ev": op.Op, "k": op.K, "ret": ret, "ex": ex, "len": ln}
			if p != "" {
				ev["ret"] = -1
				ev["detail"] = p
				vh.Emit(ev)
				break
			}
			if detail != "" {
				ev["detail"] = detail
			}
			if op.ExpM != nil && *op.ExpM != (ret == 1) {
				drift++
				if len(driftEx) < 3 {
					driftEx = append(driftEx, op.Op)
				}
			}
			vh.Emit(ev)
		}
	})
	vh.Emit(map[string]interface{}{"summary": true, "cases": cases, "drift": drift, "drift_examples": driftEx, "hangs": hangs})
	if hangs > 0 {
		vh.Flush()
		os.Exit(0) // do not wait for the spinning goroutines
	}
}
