// Command util binds the Util specs (specs/Util) to bfe_util/ipdict (C19),
// bfe_util/hash_set (C20) and bfe_bufio (C22).
package main

import (
	"fmt"
	"os"
	"time"

	"verifharness/vh"
)

// guardTimeout is vh.GuardTimeout with a long watchdog and a last look at the result channel when
// the timer fires, so that a starved process (both ready at once) is never reported as a hang.
func guardTimeout(f func()) (panicked string, finished bool) {
	done := make(chan string, 1)
	go func() { done <- vh.Guard(f) }()
	t := time.NewTimer(10 * time.Second)
	defer t.Stop()
	select {
	case p := <-done:
		return p, true
	case <-t.C:
		select {
		case p := <-done:
			return p, true
		case <-time.After(2 * time.Second):
			return "", false
		}
	}
}

func main() {
	if len(os.Args) < 2 {
		fmt.Fprintln(os.Stderr, "usage: util <ipdict|hashset|bufio>")
		os.Exit(2)
	}
	defer vh.Flush()
	switch os.Args[1] {
	case "ipdict":
		ipdictRun()
	case "hashset":
		hashsetRun()
	case "bufio":
		bufioRun()
	default:
		fmt.Fprintln(os.Stderr, "unknown subcommand", os.Args[1])
		vh.Flush()
		os.Exit(2)
	}
}
