// Command util binds the Util specs (specs/Util) to bfe_util/ipdict (C19),
// bfe_util/hash_set (C20) and bfe_bufio (C22).
package main

import (
	"fmt"
	"os"

	"verifharness/vh"
)

func main() {
	if len(os.Args) < 2 {
		fmt.Fprintln(os.Stderr, "usage: util <ipdict|hashset|bufio>")
		os.Exit(2)
	}
	defer vh.Flush()
	switch os.Args[1] {
	case "ipdict":
		ipdictRun()
	case "hashset":
		hashsetRun()
	case "bufio":
		bufioRun()
	default:
		fmt.Fprintln(os.Stderr, "unknown subcommand", os.Args[1])
		vh.Flush()
		os.Exit(2)
	}
}
