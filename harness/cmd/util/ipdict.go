package main

import (
	"encoding/json"
	"fmt"
	"net"
	"os"
	"strings"

	"github.com/bfenetworks/bfe/bfe_util/ipdict"
	"github.com/bfenetworks/bfe/bfe_util/ipdict/txt_load"

	"verifharness/vh"
)

// ipCase is one finished input printed by GenIpDict.tla: key k <= a is ::k, key k > a is
// 0.0.0.(k-a-1); exp is the set of probe keys (0..2a+1) the spec says are contained.
type ipCase struct {
	ID   int      `json:"id"`
	A    int      `json:"a"`
	R    [][2]int `json:"r"`
	S    []int    `json:"s"`
	Exp  []int    `json:"exp"`
	Path string   `json:"path"` // "api" | "txt" | "" (chosen from id)
}

func keyIP(a, k int, short bool) net.IP {
	if k <= a {
		ip := make(net.IP, 16)
		ip[15] = byte(k)
		return ip
	}
	ip := net.IPv4(0, 0, 0, byte(k-a-1))
	if short {
		return ip.To4()
	}
	return ip
}

func buildAPI(c *ipCase) (*ipdict.IPItems, error) {
	items, err := ipdict.NewIPItems(len(c.S), len(c.R))
	if err != nil {
		return nil, fmt.Errorf("NewIPItems: %v", err)
	}
	for i, r := range c.R {
		short := (c.ID+i)%2 == 0
		if err := items.InsertPair(keyIP(c.A, r[0], short), keyIP(c.A, r[1], short)); err != nil {
			return nil, fmt.Errorf("InsertPair(%v): %v", r, err)
		}
	}
	for i, s := range c.S {
		if err := items.InsertSingle(keyIP(c.A, s, (c.ID+i)%2 == 1)); err != nil {
			return nil, fmt.Errorf("InsertSingle(%v): %v", s, err)
		}
	}
	items.Sort()
	items.Version = "v"
	return items, nil
}

func buildTxt(c *ipCase) (*ipdict.IPItems, error) {
	var sb strings.Builder
	if c.ID%3 == 0 { // with and without the meta line
		fmt.Fprintf(&sb, "#{\"version\":\"v%d\",\"singleIPNum\":%d,\"pairIPNum\":%d}\n", c.ID, len(c.S)+len(c.R), len(c.R))
	}
	for i, r := range c.R {
		sep := " "
		if i%2 == 1 {
			sep = "\t"
		}
		fmt.Fprintf(&sb, "%s%s%s\n", keyIP(c.A, r[0], false).String(), sep, keyIP(c.A, r[1], false).String())
	}
	for _, s := range c.S {
		fmt.Fprintf(&sb, "%s\n", keyIP(c.A, s, false).String())
	}
	name := fmt.Sprintf("ipdict_%d.txt", os.Getpid())
	if err := os.WriteFile(name, []byte(sb.String()), 0o644); err != nil {
		return nil, err
	}
	defer os.Remove(name)
	return txt_load.NewTxtFileLoader(name).CheckAndLoad("")
}

func ipShape(c *ipCase, k int) string {
	shape := ""
	for _, r := range c.R {
		if r[0] <= k && k <= r[1] {
			switch {
			case r[0] == 0:
				return "range-from-zero6"
			case r[0] == c.A+1:
				shape = "range-from-zero4"
			default:
				if shape == "" {
					shape = "range"
				}
			}
		}
	}
	if shape == "" {
		shape = "single"
	}
	return shape
}

func ipdictRun() {
	n, probes, fails := 0, 0, 0
	vh.EachCase(func(line []byte) {
		var c ipCase
		if err := json.Unmarshal(line, &c); err != nil {
			vh.Emit(map[string]interface{}{"_bad_case": err.Error()})
			return
		}
		n++
		path := c.Path
		if path == "" {
			path = "api"
			if c.ID%7 == 3 {
				path = "txt"
			}
		}
		exp := map[int]bool{}
		for _, k := range c.Exp {
			exp[k] = true
		}
		var items *ipdict.IPItems
		var err error
		obs := map[string]interface{}{}
		fail := func(sig, detail string) {
			fails++
			vh.Emit(vh.Result{ID: c.ID, OK: false, Sig: sig, Detail: detail, Obs: obs,
				Case: map[string]interface{}{"a": c.A, "r": c.R, "s": c.S, "exp": c.Exp, "path": path}})
		}
		p := vh.Guard(func() {
			if path == "txt" {
				items, err = buildTxt(&c)
			} else {
				items, err = buildAPI(&c)
			}
		})
		if p != "" {
			fail("panic/"+path+"/load", p)
			return
		}
		if err != nil {
			fail("load-error/"+path, err.Error())
			return
		}
		table := ipdict.NewIPTable()
		table.Update(items)
		var got []int
		bad := ""
		detail := ""
		p = vh.Guard(func() {
			for k := 0; k <= 2*c.A+1; k++ {
				for _, short := range []bool{false, true} {
					if short && k <= c.A {
						continue
					}
					probes++
					hit := table.Search(keyIP(c.A, k, short))
					if hit && !short {
						got = append(got, k)
					}
					if hit != exp[k] && bad == "" {
						if exp[k] {
							bad = "miss/" + path + "/" + ipShape(&c, k)
						} else {
							bad = "false-hit/" + path
						}
						detail = fmt.Sprintf("Search(%s) = %v, spec says %v; ranges %v singles %v (key k<=%d is ::k, above is 0.0.0.(k-%d))",
							keyIP(c.A, k, short), hit, exp[k], c.R, c.S, c.A, c.A+1)
					}
				}
			}
		})
		obs["contained"] = got
		if p != "" {
			fail("panic/"+path+"/search", p)
			return
		}
		if bad != "" {
			fail(bad, detail)
		}
	})
	vh.Emit(map[string]interface{}{"summary": true, "cases": n, "probes": probes, "fails": fails})
}
