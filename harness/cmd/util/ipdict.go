package main

import (
	"encoding/json"
	"fmt"
	"net"
	"os"
	"strings"

	"github.com/bfenetworks/bfe/bfe_util/ipdict"
	"github.com/bfenetworks/bfe/bfe_util/ipdict/txt_load"

	"verifharness/vh"
)

// ipCase is one finished input printed by GenIpDict.tla.  Keys live in ONE ordered address space
// (16-byte order): 0..a is ::k, a+1..2a+1 is the IPv4 address 0.0.0.(k-a-1) (= ::ffff:0.0.0.n),
// 2a+2..3a+2 is ::1:0:0:(k-2a-2), just above the IPv4-mapped block, 3a+3..4a+2 are the a highest
// addresses of the space (4a+2 is ffff:ffff:ffff:ffff:ffff:ffff:ffff:ffff).  exp is the set of
// probe keys (0..4a+2) the spec says are contained.
type ipCase struct {
	ID   int      `json:"id"`
	A    int      `json:"a"`
	R    [][2]int `json:"r"`
	S    []int    `json:"s"`
	Exp  []int    `json:"exp"`
	Path string   `json:"path"` // "api" | "txt" | "" (chosen from id)
}

func isV4(a, k int) bool { return k >= a+1 && k <= 2*a+1 }

// keyIP: short selects the 4-byte form of an IPv4 address (ignored for IPv6 keys).
func keyIP(a, k int, short bool) net.IP {
	switch {
	case k <= a:
		ip := make(net.IP, 16)
		ip[15] = byte(k)
		return ip
	case isV4(a, k):
		ip := net.IPv4(0, 0, 0, byte(k-a-1)) // 16-byte IPv4-mapped form
		if short {
			return ip.To4()
		}
		return ip
	case k <= 3*a+2:
		ip := make(net.IP, 16)
		ip[9] = 1 // ::1:0:0:n
		ip[15] = byte(k - 2*a - 2)
		return ip
	default: // top of the space: 4a+2 is the highest address
		ip := make(net.IP, 16)
		for i := range ip {
			ip[i] = 0xff
		}
		ip[15] = byte(0xff - (4*a + 2 - k))
		return ip
	}
}

// keyText: textual form for the txt loader; IPv4 alternately dotted and as IPv4-mapped IPv6.
func keyText(a, k int, mapped bool) string {
	if isV4(a, k) && mapped {
		return fmt.Sprintf("::ffff:0.0.0.%d", k-a-1)
	}
	return keyIP(a, k, false).String()
}

func buildAPI(c *ipCase) (*ipdict.IPItems, error) {
	items, err := ipdict.NewIPItems(len(c.S), len(c.R))
	if err != nil {
		return nil, fmt.Errorf("NewIPItems: %v", err)
	}
	for i, r := range c.R {
		short := (c.ID+i)%2 == 0
		if err := items.InsertPair(keyIP(c.A, r[0], short), keyIP(c.A, r[1], short)); err != nil {
			return nil, fmt.Errorf("InsertPair(%v): %v", r, err)
		}
	}
	for i, s := range c.S {
		if err := items.InsertSingle(keyIP(c.A, s, (c.ID+i)%2 == 1)); err != nil {
			return nil, fmt.Errorf("InsertSingle(%v): %v", s, err)
		}
	}
	items.Sort()
	items.Version = "v"
	return items, nil
}

func buildTxt(c *ipCase) (*ipdict.IPItems, error) {
	var sb strings.Builder
	if c.ID%3 == 0 { // with and without the meta line
		fmt.Fprintf(&sb, "#{\"version\":\"v%d\",\"singleIPNum\":%d,\"pairIPNum\":%d}\n", c.ID, len(c.S)+len(c.R), len(c.R))
	}
	for i, r := range c.R {
		sep := " "
		if i%2 == 1 {
			sep = "\t"
		}
		fmt.Fprintf(&sb, "%s%s%s\n", keyText(c.A, r[0], (c.ID+i)%2 == 0), sep, keyText(c.A, r[1], (c.ID+i)%3 == 0))
	}
	for i, s := range c.S {
		fmt.Fprintf(&sb, "%s\n", keyText(c.A, s, (c.ID+i)%2 == 1))
	}
	name := fmt.Sprintf("ipdict_%d.txt", os.Getpid())
	if err := os.WriteFile(name, []byte(sb.String()), 0o644); err != nil {
		return nil, err
	}
	defer os.Remove(name)
	return txt_load.NewTxtFileLoader(name).CheckAndLoad("")
}

// ipShape classifies a missed probe k for the signature.
func ipShape(c *ipCase, k int) string {
	zero4 := c.A + 1
	zero4Pair, fromBelow := false, false
	for _, r := range c.R {
		if r[0] == zero4 && r[1] == zero4 {
			zero4Pair = true
		}
		if r[0] < zero4 && k <= r[1] {
			fromBelow = true // k is covered by a range that starts below the IPv4-mapped block
		}
	}
	for _, s := range c.S {
		if s == k {
			return "single"
		}
	}
	if zero4Pair && fromBelow && k > zero4 {
		// the pair 0.0.0.0-0.0.0.0 nested in an IPv6 range that straddles the IPv4-mapped block
		return "zero4-pair-shadows-straddling-range"
	}
	shape := ""
	for _, r := range c.R {
		if r[0] <= k && k <= r[1] {
			switch {
			case r[0] <= c.A && r[1] >= 2*c.A+2:
				return "range-straddling-v4"
			case r[0] == 0:
				shape = "range-from-zero6"
			case r[0] == zero4 && shape == "":
				shape = "range-from-zero4"
			default:
				if shape == "" {
					shape = "range"
				}
			}
		}
	}
	return shape
}

func ipdictRun() {
	n, probes, fails := 0, 0, 0
	vh.EachCase(func(line []byte) {
		var c ipCase
		if err := json.Unmarshal(line, &c); err != nil {
			vh.Emit(map[string]interface{}{"_bad_case": err.Error()})
			return
		}
		n++
		path := c.Path
		if path == "" {
			path = "api"
			if c.ID%7 == 3 {
				path = "txt"
			}
		}
		exp := map[int]bool{}
		for _, k := range c.Exp {
			exp[k] = true
		}
		var items *ipdict.IPItems
		var err error
		obs := map[string]interface{}{}
		fail := func(sig, detail string) {
			fails++
			vh.Emit(vh.Result{ID: c.ID, OK: false, Sig: sig, Detail: detail, Obs: obs,
				Case: map[string]interface{}{"a": c.A, "r": c.R, "s": c.S, "exp": c.Exp, "path": path}})
		}
		p := vh.Guard(func() {
			if path == "txt" {
				items, err = buildTxt(&c)
			} else {
				items, err = buildAPI(&c)
			}
		})
		if p != "" {
			fail("panic/"+path+"/load", p)
			return
		}
		if err != nil {
			fail("load-error/"+path, err.Error())
			return
		}
		table := ipdict.NewIPTable()
		table.Update(items)
		var got []int
		bad := ""
		detail := ""
		p = vh.Guard(func() {
			for k := 0; k <= 4*c.A+2; k++ {
				for _, short := range []bool{false, true} {
					if short && !isV4(c.A, k) {
						continue
					}
					probes++
					hit := table.Search(keyIP(c.A, k, short))
					if hit && !short {
						got = append(got, k)
					}
					if hit != exp[k] && bad == "" {
						if exp[k] {
							bad = "miss/" + path + "/" + ipShape(&c, k)
						} else {
							bad = "false-hit/" + path
						}
						detail = fmt.Sprintf("Search(%s) = %v, spec says %v; ranges %v singles %v (keys 0..%d are ::k, %d..%d are 0.0.0.(k-%d), %d..%d ::1:0:0:(k-%d), %d is ffff:..:ffff)",
							keyIP(c.A, k, short), hit, exp[k], c.R, c.S, c.A, c.A+1, 2*c.A+1, c.A+1, 2*c.A+2, 3*c.A+2, 2*c.A+2, 4*c.A+2)
					}
				}
			}
		})
		obs["contained"] = got
		if p != "" {
			fail("panic/"+path+"/search", p)
			return
		}
		if bad != "" {
			fail(bad, detail)
		}
	})
	vh.Emit(map[string]interface{}{"summary": true, "cases": n, "probes": probes, "fails": fails})
}
