package main

// C39: replay of the cases enumerated by specs/Spdy/GenFrame.tla on a pair of real
// bfe_spdy.Framer objects (writer A -> wire -> reader B, one zlib context per case).
// The expectation (p) of every item comes from the TLC-printed case.

import (
	"bytes"
	"encoding/binary"
	"encoding/hex"
	"encoding/json"
	"fmt"
	"math/rand"
	"reflect"
	"runtime"
	"sort"
	"strings"
	"time"

	http "github.com/bfenetworks/bfe/bfe_http"
	spdy "github.com/bfenetworks/bfe/bfe_spdy"

	"verifharness/vh"
)

type shape struct {
	Mode string `json:"mode"`
	K    string `json:"k"`
	Len  string `json:"len"`
	Fl   int    `json:"fl"`
	Sid  string `json:"sid"`
	Aux  string `json:"aux"`
	Np   int    `json:"np"`
	N1   string `json:"n1"`
	V1   string `json:"v1"`
	N2   string `json:"n2"`
	V2   string `json:"v2"`
	Bm   string `json:"bm"`
}

type item struct {
	S  shape  `json:"s"`
	P  string `json:"p"`
	M  string `json:"m"`
	Ng bool   `json:"ng"`
}

type frameCase struct {
	ID  int    `json:"id"`
	Var int64  `json:"var"`
	Seq []item `json:"seq"`
}

type alphabet struct {
	Names  map[string]map[string][]string `json:"names"`
	Values map[string][][]string          `json:"values"`
}

var alpha alphabet

func decodeRep(s string) string {
	switch {
	case strings.HasPrefix(s, "hex:"):
		b, err := hex.DecodeString(s[4:])
		if err != nil {
			panic("alphabet: " + err.Error())
		}
		return string(b)
	case strings.HasPrefix(s, "rep:"):
		p := strings.SplitN(s, ":", 3)
		var n int
		fmt.Sscanf(p[2], "%d", &n)
		return strings.Repeat(p[1], n/len(p[1])+1)[:n]
	}
	return s
}

// pick: variant 0 -> canonical representative, otherwise seeded choice
func pick(n int, rnd *rand.Rand) int {
	if rnd == nil || n <= 1 {
		return 0
	}
	return rnd.Intn(n)
}

type pair struct {
	name string
	vals []string
}

func concretePairs(s shape, rnd *rand.Rand) []pair {
	var out []pair
	cls := [][2]string{{s.N1, s.V1}, {s.N2, s.V2}}
	for i := 0; i < s.Np; i++ {
		pos := "p1"
		if i == 1 {
			pos = "p2"
		}
		reps := alpha.Names[cls[i][0]][pos]
		if len(reps) == 0 {
			panic("alphabet: no name class " + cls[i][0])
		}
		nm := reps[pick(len(reps), rnd)]
		if nm == "=p1" {
			if i == 0 {
				nm = "x-lc"
			} else {
				nm = out[0].name
			}
		} else {
			nm = decodeRep(nm)
		}
		vreps := alpha.Values[cls[i][1]]
		if len(vreps) == 0 {
			panic("alphabet: no value class " + cls[i][1])
		}
		vr := vreps[pick(len(vreps), rnd)]
		vals := make([]string, len(vr))
		for j, v := range vr {
			vals[j] = decodeRep(v)
		}
		out = append(out, pair{nm, vals})
	}
	return out
}

func u32(v ...uint32) []byte {
	var b []byte
	for _, x := range v {
		b = binary.BigEndian.AppendUint32(b, x)
	}
	return b
}

func ctl(typ uint16, flags uint8, length uint32, payload []byte) []byte {
	b := make([]byte, 8, 8+len(payload))
	binary.BigEndian.PutUint16(b[0:], 0x8000|3)
	binary.BigEndian.PutUint16(b[2:], typ)
	binary.BigEndian.PutUint32(b[4:], uint32(flags)<<24|(length&0xffffff))
	return append(b, payload...)
}

// expected frame fields (what a correct reader returns)
type expect struct {
	Kind     string
	Flags    uint8
	StreamID uint32
	Assoc    uint32
	Prio     uint8
	Slot     uint8
	Status   uint32
	Delta    uint32
	PingID   uint32
	Settings [][3]uint32
	Pairs    []pair
	DataLen  int
	DataSum  uint32
}

func sidOf(cls string, rnd *rand.Rand) (wire uint32, want uint32) {
	id := uint32(1)
	if rnd != nil {
		id = uint32(rnd.Intn(1<<20))*2 + 1
	}
	switch cls {
	case "zero":
		return 0, 0
	case "hi":
		return 0x80000000 | id, id
	}
	return id, id
}

// bigLen is the "far larger than the payload" length-field class (namebig/valbig): well above
// the allocation cap for a small frame, small enough that an implementation that does
// allocate it up front does not endanger the harness process.
const bigLen = 4 << 20

func rawBlock(s shape, pairs []pair) []byte {
	count := uint32(len(pairs))
	switch s.Bm {
	case "cntmore":
		count++
	case "cnt1025":
		count = 1025
	case "cnthuge":
		count = 0xffffffff
	}
	b := u32(count)
	for i, p := range pairs {
		last := i == len(pairs)-1
		v := strings.Join(p.vals, "\x00")
		nl, vl := uint32(len(p.name)), uint32(len(v))
		if last {
			switch s.Bm {
			case "namebig":
				nl = bigLen
			case "namemax":
				nl = 0xffffffff
			case "valbig":
				vl = bigLen
			case "valmax":
				vl = 0xffffffff
			}
		}
		b = append(b, u32(nl)...)
		if last && s.Bm == "truncname" {
			return append(b, p.name[:len(p.name)/2]...)
		}
		b = append(b, p.name...)
		if last && s.Bm == "truncval" {
			if len(v) == 0 {
				return append(b, 0, 0) // inside the value length field
			}
			b = append(b, u32(vl)...)
			return append(b, v[:len(v)/2]...)
		}
		b = append(b, u32(vl)...)
		b = append(b, v...)
	}
	if s.Bm == "trail" {
		b = append(b, 0, 0, 0, 0)
	}
	return b
}

var typeOf = map[string]uint16{"syn": 1, "reply": 2, "rst": 3, "settings": 4, "ping": 6, "goaway": 7, "headers": 8, "wu": 9}

func dataBytes(n int, rnd *rand.Rand) ([]byte, uint32) {
	b := make([]byte, n)
	var sum uint32
	for i := range b {
		b[i] = byte(i*7 + 3)
		if rnd != nil {
			b[i] ^= byte(rnd.Intn(256))
		}
		sum = sum*31 + uint32(b[i])
	}
	return b, sum
}

func sumOf(b []byte) uint32 {
	var sum uint32
	for _, x := range b {
		sum = sum*31 + uint32(x)
	}
	return sum
}

// buildRaw lays the shape out by hand; header blocks go through A's own compressor.
func buildRaw(s shape, a *spdy.Framer, rnd *rand.Rand) (wire []byte, ex expect, declared uint32, err error) {
	ex.Kind = s.K
	ex.Flags = uint8(s.Fl)
	fl := uint8(s.Fl)
	wsid, sid := sidOf(s.Sid, rnd)
	ex.StreamID = sid
	lenAdj := func(exact uint32, payload []byte) ([]byte, uint32) {
		switch s.Len {
		case "short":
			return payload[:len(payload)-4], exact - 4
		case "long":
			return append(payload, 0, 0, 0, 9), exact + 4
		case "zero":
			return nil, 0
		}
		return payload, exact
	}
	switch s.K {
	case "rst":
		st := uint32(5)
		if s.Aux == "zero" {
			st = 0
		}
		ex.Status = st
		p, l := lenAdj(8, u32(wsid, st))
		return ctl(3, fl, l, p), ex, l, nil
	case "ping":
		id := wsid // 32-bit opaque id, no reserved bit
		ex.PingID = id
		p, l := lenAdj(4, u32(id))
		return ctl(6, fl, l, p), ex, l, nil
	case "goaway":
		st := uint32(1)
		if s.Aux == "zero" {
			st = 0
		}
		ex.Status = st
		p, l := lenAdj(8, u32(wsid, st))
		return ctl(7, fl, l, p), ex, l, nil
	case "wu":
		d, want := uint32(4096), uint32(4096)
		switch s.Aux {
		case "zero":
			d, want = 0, 0
		case "hi":
			d, want = 0x80000000|77, 77
		}
		ex.Delta = want
		p, l := lenAdj(8, u32(wsid, d))
		return ctl(9, fl, l, p), ex, l, nil
	case "settings":
		var body []byte
		for i := 0; i < s.Np; i++ {
			f, id, v := uint32(i&1), uint32(7-3*i), uint32(65536+i)
			ex.Settings = append(ex.Settings, [3]uint32{f, id, v})
			body = append(body, u32(f<<24|id, v)...)
		}
		count := uint32(s.Np)
		switch s.Bm {
		case "cntmore":
			count++
		case "cntless":
			count--
		case "cnthuge":
			count = 0xffffffff
		}
		p := append(u32(count), body...)
		l := uint32(len(p))
		switch s.Len {
		case "short": // frame (declared and present) 4 octets shorter than the count needs
			p = p[:len(p)-4]
			l -= 4
		case "long":
			p = append(p, 0, 0, 0, 9)
			l += 4
		}
		return ctl(4, fl, l, p), ex, l, nil
	case "data":
		n := 10
		switch s.Len {
		case "zero":
			n = 0
		case "big", "long":
			n = 100000
		}
		var d []byte
		d, ex.DataSum = dataBytes(n, rnd)
		ex.DataLen = n
		hdr := u32(wsid&0x7fffffff, uint32(fl)<<24|uint32(n))
		if s.Len == "long" {
			d = d[:10]
		}
		return append(hdr, d...), ex, uint32(n), nil
	case "unknown":
		t := map[string]uint16{"t5": 5, "t10": 10, "tffff": 0xffff}[s.Aux]
		return ctl(t, 0, 4, u32(1)), ex, 4, nil
	}
	// header-bearing frames
	var fixed []byte
	if s.K == "syn" {
		ex.Assoc, ex.Prio, ex.Slot = 0, 3, 0
		if rnd != nil {
			ex.Assoc, ex.Prio, ex.Slot = uint32(rnd.Intn(4))*2, uint8(rnd.Intn(8)), uint8(rnd.Intn(256))
		}
		fixed = append(u32(wsid, ex.Assoc), ex.Prio<<5, ex.Slot)
	} else {
		fixed = u32(wsid)
	}
	typ := typeOf[s.K]
	switch s.Len {
	case "ltfixed":
		l := uint32(len(fixed) - 2)
		return ctl(typ, fl, l, fixed[:l]), ex, l, nil
	case "zero":
		return ctl(typ, fl, 0, nil), ex, 0, nil
	}
	ex.Pairs = concretePairs(s, rnd)
	var comp []byte
	if s.Bm == "notzlib" {
		comp = bytes.Repeat([]byte{0xab, 0x13, 0x37, 0x55}, 4)
	} else {
		comp, err = a.VerifCompressBlock(rawBlock(s, ex.Pairs))
		if err != nil {
			return nil, ex, 0, err
		}
	}
	if s.Len == "cut" {
		// The frame ends in the middle of the compressed block.  At least 8 octets are removed:
		// the trailing sync-flush marker (4) and the end-of-block code do not carry header
		// octets, a reader that has all of the data may return the frame without them.
		if len(comp) >= 16 {
			comp = comp[:len(comp)/2]
		} else {
			comp = comp[:1]
		}
	}
	l := uint32(len(fixed) + len(comp))
	return ctl(typ, fl, l, append(fixed, comp...)), ex, l, nil
}

// buildRt makes the frame struct for WriteFrame.
func buildRt(s shape, rnd *rand.Rand) (spdy.Frame, expect) {
	var ex expect
	ex.Kind = s.K
	ex.Flags = uint8(s.Fl)
	wsid, sid := sidOf(s.Sid, rnd)
	ex.StreamID = sid
	hdr := func() http.Header {
		ex.Pairs = concretePairs(s, rnd)
		h := make(http.Header)
		for _, p := range ex.Pairs {
			h[p.name] = append([]string(nil), p.vals...)
		}
		return h
	}
	switch s.K {
	case "syn":
		f := &spdy.SynStreamFrame{StreamId: spdy.StreamId(sid), Priority: 3, Headers: hdr()}
		if rnd != nil {
			f.AssociatedToStreamId, f.Priority, f.Slot = spdy.StreamId(rnd.Intn(4)*2), uint8(rnd.Intn(8)), uint8(rnd.Intn(256))
		}
		ex.Assoc, ex.Prio, ex.Slot = uint32(f.AssociatedToStreamId), f.Priority, f.Slot
		f.CFHeader.Flags = spdy.ControlFlags(s.Fl)
		return f, ex
	case "reply":
		f := &spdy.SynReplyFrame{StreamId: spdy.StreamId(sid), Headers: hdr()}
		f.CFHeader.Flags = spdy.ControlFlags(s.Fl)
		return f, ex
	case "headers":
		f := &spdy.HeadersFrame{StreamId: spdy.StreamId(sid), Headers: hdr()}
		f.CFHeader.Flags = spdy.ControlFlags(s.Fl)
		return f, ex
	case "rst":
		ex.Status = 5
		if s.Aux == "zero" {
			ex.Status = 0
		}
		ex.Flags = 0
		return &spdy.RstStreamFrame{StreamId: spdy.StreamId(sid), Status: spdy.RstStreamStatus(ex.Status)}, ex
	case "ping":
		ex.PingID = sid
		ex.Flags = 0
		return &spdy.PingFrame{Id: sid}, ex
	case "goaway":
		st := uint32(1)
		if s.Aux == "zero" {
			st = 0
		}
		ex.Status = st
		ex.Flags = 0
		return &spdy.GoAwayFrame{LastGoodStreamId: spdy.StreamId(sid), Status: spdy.GoAwayStatus(st)}, ex
	case "wu":
		ex.Delta = 4096
		ex.Flags = 0
		return &spdy.WindowUpdateFrame{StreamId: spdy.StreamId(sid), DeltaWindowSize: 4096}, ex
	case "settings":
		f := &spdy.SettingsFrame{}
		f.CFHeader.Flags = spdy.ControlFlags(s.Fl)
		for i := 0; i < s.Np; i++ {
			fl, id, v := uint32(i&1), uint32(7-3*i), uint32(65536+i)
			ex.Settings = append(ex.Settings, [3]uint32{fl, id, v})
			f.FlagIdValues = append(f.FlagIdValues, spdy.SettingsFlagIdValue{Flag: spdy.SettingsFlag(fl), Id: spdy.SettingsId(id), Value: v})
		}
		return f, ex
	case "data":
		n := 10
		switch s.Len {
		case "zero":
			n = 0
		case "big":
			n = 100000
		}
		d, sum := dataBytes(n, rnd)
		ex.DataLen, ex.DataSum = n, sum
		// sid "hi": the struct carries the control bit (the writer must refuse it)
		return &spdy.DataFrame{StreamId: spdy.StreamId(wsid), Flags: spdy.DataFlags(s.Fl), Data: d}, ex
	}
	panic("buildRt: kind " + s.K)
}

// compare the frame the reader returned with what was put on the wire
func compareFrame(f spdy.Frame, ex expect, nameGray bool) string {
	hdrs := func(h http.Header) string {
		if len(h) != len(ex.Pairs) {
			return fmt.Sprintf("header count %d, want %d (%q)", len(h), len(ex.Pairs), h)
		}
		used := map[string]bool{}
		for _, p := range ex.Pairs {
			found := false
			for k, vv := range h {
				if used[k] {
					continue
				}
				nameOK := strings.EqualFold(k, p.name)
				if nameGray {
					nameOK = true
				}
				if nameOK && reflect.DeepEqual([]string(vv), p.vals) {
					used[k] = true
					found = true
					break
				}
			}
			if !found {
				return fmt.Sprintf("header %q=%.40q not read back (got %.200q)", p.name, p.vals, fmt.Sprint(h))
			}
		}
		return ""
	}
	want := func(what string, got, w interface{}) string {
		if !reflect.DeepEqual(got, w) {
			return fmt.Sprintf("%s=%v want %v", what, got, w)
		}
		return ""
	}
	first := func(ss ...string) string {
		for _, s := range ss {
			if s != "" {
				return s
			}
		}
		return ""
	}
	switch ex.Kind {
	case "syn":
		g, ok := f.(*spdy.SynStreamFrame)
		if !ok {
			return fmt.Sprintf("type %T", f)
		}
		return first(want("stream", uint32(g.StreamId), ex.StreamID), want("assoc", uint32(g.AssociatedToStreamId), ex.Assoc),
			want("prio", g.Priority, ex.Prio), want("slot", g.Slot, ex.Slot), want("flags", uint8(g.CFHeader.Flags), ex.Flags), hdrs(g.Headers))
	case "reply":
		g, ok := f.(*spdy.SynReplyFrame)
		if !ok {
			return fmt.Sprintf("type %T", f)
		}
		return first(want("stream", uint32(g.StreamId), ex.StreamID), want("flags", uint8(g.CFHeader.Flags), ex.Flags), hdrs(g.Headers))
	case "headers":
		g, ok := f.(*spdy.HeadersFrame)
		if !ok {
			return fmt.Sprintf("type %T", f)
		}
		return first(want("stream", uint32(g.StreamId), ex.StreamID), want("flags", uint8(g.CFHeader.Flags), ex.Flags), hdrs(g.Headers))
	case "rst":
		g, ok := f.(*spdy.RstStreamFrame)
		if !ok {
			return fmt.Sprintf("type %T", f)
		}
		return first(want("stream", uint32(g.StreamId), ex.StreamID), want("status", uint32(g.Status), ex.Status))
	case "ping":
		g, ok := f.(*spdy.PingFrame)
		if !ok {
			return fmt.Sprintf("type %T", f)
		}
		return want("id", g.Id, ex.PingID)
	case "goaway":
		g, ok := f.(*spdy.GoAwayFrame)
		if !ok {
			return fmt.Sprintf("type %T", f)
		}
		return first(want("last-good", uint32(g.LastGoodStreamId), ex.StreamID), want("status", uint32(g.Status), ex.Status))
	case "wu":
		g, ok := f.(*spdy.WindowUpdateFrame)
		if !ok {
			return fmt.Sprintf("type %T", f)
		}
		return first(want("stream", uint32(g.StreamId), ex.StreamID), want("delta", g.DeltaWindowSize, ex.Delta))
	case "settings":
		g, ok := f.(*spdy.SettingsFrame)
		if !ok {
			return fmt.Sprintf("type %T", f)
		}
		var got [][3]uint32
		for _, x := range g.FlagIdValues {
			got = append(got, [3]uint32{uint32(x.Flag), uint32(x.Id), x.Value})
		}
		return first(want("flags", uint8(g.CFHeader.Flags), ex.Flags), want("entries", got, ex.Settings))
	case "data":
		g, ok := f.(*spdy.DataFrame)
		if !ok {
			return fmt.Sprintf("type %T", f)
		}
		return first(want("stream", uint32(g.StreamId), ex.StreamID), want("flags", uint8(g.Flags), ex.Flags),
			want("len", len(g.Data), ex.DataLen), want("sum", sumOf(g.Data), ex.DataSum))
	}
	return "" // unknown: nothing to compare
}

func shapeKey(s shape) string {
	var kv []string
	add := func(k, v, def string) {
		if v != def {
			kv = append(kv, k+"="+v)
		}
	}
	add("len", s.Len, "exact")
	add("fl", fmt.Sprint(s.Fl), "0")
	add("sid", s.Sid, "odd")
	add("aux", s.Aux, "na")
	add("bm", s.Bm, "none")
	if s.K == "settings" {
		add("np", fmt.Sprint(s.Np), "-")
	}
	if s.Np > 0 && s.K != "settings" {
		ns, vs := []string{s.N1}, []string{s.V1}
		if s.Np > 1 {
			ns, vs = append(ns, s.N2), append(vs, s.V2)
		}
		sort.Strings(ns)
		sort.Strings(vs)
		kv = append(kv, "n="+strings.Join(ns, "+"), "v="+strings.Join(vs, "+"))
	}
	return s.Mode + "/" + s.K + "/" + strings.Join(kv, ",")
}

var allocUnbounded = false // set once a *big shape showed an unbounded allocation

// allocSeen: shape classes (mode/kind/block malformation/name classes) that already showed an
// allocation above the cap.  A reader that allocates what a length field announces zeroes
// gigabytes per such case; once a class has produced its violation, further members of the same
// class (they differ in values/flags only) are skipped and counted, so that the check still
// terminates in reasonable time on a tree with that defect.
var allocSeen = map[string]bool{}
var allocSkipped = 0
var retrying = false // confirmation replays of a case whose allocation exceeded the cap

func allocClass(s shape) string {
	ns := []string{}
	if s.Np > 0 {
		ns = append(ns, s.N1)
	}
	if s.Np > 1 {
		ns = append(ns, s.N2)
	}
	sort.Strings(ns)
	return s.Mode + "/" + s.K + "/" + s.Bm + "/" + s.Len + "/" + strings.Join(ns, "+")
}

type itemObs struct {
	Out   string `json:"out"` // ok | err | panic | hang | skipped
	Err   string `json:"err,omitempty"`
	Alloc uint64 `json:"alloc"`
	Cap   uint64 `json:"cap"`
	Next  string `json:"next,omitempty"`
}

func runFrameCase(c frameCase) vh.Result {
	res := vh.Result{ID: c.ID, OK: true}
	var rnd *rand.Rand
	if c.Var != 0 {
		rnd = rand.New(rand.NewSource(c.Var))
	}
	var wire bytes.Buffer
	a, err := spdy.NewFramer(&wire, new(bytes.Buffer))
	if err != nil {
		return vh.Result{ID: c.ID, OK: false, Sig: "machinery", Detail: err.Error()}
	}
	defer a.ReleaseWriter()
	b, _ := spdy.NewFramer(new(bytes.Buffer), &wire)
	defer b.ReleaseWriter()
	var obs []itemObs
	fail := func(what string, it item, detail string) {
		if res.OK {
			res.OK = false
			res.Sig = what + "/" + shapeKey(it.S)
			res.Detail = detail
		}
	}
	var drift []string
	for i, it := range c.Seq {
		s := it.S
		var o itemObs
		if (s.Bm == "namemax" || s.Bm == "valmax") && allocUnbounded {
			o.Out = "skipped"
			obs = append(obs, o)
			break
		}
		if allocSeen[allocClass(s)] && !retrying {
			o.Out = "skipped"
			allocSkipped++
			obs = append(obs, o)
			break
		}
		var ex expect
		var declared uint32
		before := wire.Len()
		if s.Mode == "rt" {
			var f spdy.Frame
			f, ex = buildRt(s, rnd)
			var werr error
			if p := vh.Guard(func() { werr = a.WriteFrame(f) }); p != "" {
				fail("write-panic", it, p)
				o.Out = "panic"
				obs = append(obs, o)
				break
			}
			if it.P == "refused" {
				// Layer P: the writer refuses and leaves no trace.  Nothing may have reached the wire;
				// what it left in the shared compression context shows on the frames that follow.
				switch {
				case werr == nil:
					drift = append(drift, shapeKey(s)+": writer accepted a frame struct the model refuses")
					o.Out = "ok"
				case wire.Len() != before:
					o.Out, o.Err = "refused", werr.Error()
					fail("refused-wrote", it, fmt.Sprintf("WriteFrame returned %q after putting %d octets on the wire (% x)",
						werr.Error(), wire.Len()-before, wire.Bytes()[before:]))
				default:
					o.Out, o.Err = "refused", werr.Error()
				}
				obs = append(obs, o)
				if o.Out == "refused" && res.OK {
					continue // the connection goes on as if nothing had happened
				}
				break
			}
			if werr != nil {
				fail("write-error", it, werr.Error())
				o.Out, o.Err = "err", werr.Error()
				obs = append(obs, o)
				break
			}
			declared = uint32(wire.Len() - before - 8)
		} else {
			var raw []byte
			var berr error
			if p := vh.Guard(func() { raw, ex, declared, berr = buildRaw(s, a, rnd) }); p != "" || berr != nil {
				return vh.Result{ID: c.ID, OK: false, Sig: "machinery", Detail: "buildRaw: " + p + fmt.Sprint(berr)}
			}
			wire.Write(raw)
		}
		frameOctets := uint64(wire.Len() - before)
		if d := uint64(declared) + 8; d > frameOctets {
			frameOctets = d
		}
		o.Cap = 64*frameOctets + 1<<20
		// sentinel: a PING written by the real writer
		sentinel := uint32(0x51000001 + 2*i)
		if err := a.WriteFrame(&spdy.PingFrame{Id: sentinel}); err != nil {
			return vh.Result{ID: c.ID, OK: false, Sig: "machinery", Detail: "sentinel: " + err.Error()}
		}
		var f spdy.Frame
		var rerr error
		var m0, m1 runtime.MemStats
		runtime.ReadMemStats(&m0)
		p, fin := vh.GuardTimeout(20*time.Second, func() { f, rerr = b.ReadFrame() })
		runtime.ReadMemStats(&m1)
		o.Alloc = m1.TotalAlloc - m0.TotalAlloc
		switch {
		case !fin:
			o.Out = "hang"
			fail("hang", it, "ReadFrame did not return within 20s")
		case p != "":
			o.Out = "panic"
			fail("panic", it, p)
		case rerr != nil:
			o.Out, o.Err = "err", rerr.Error()
		default:
			o.Out = "ok"
		}
		if o.Alloc > o.Cap {
			if s.Bm == "namebig" || s.Bm == "valbig" {
				allocUnbounded = true
			}
			if o.Alloc > 64<<20 {
				allocSeen[allocClass(s)] = true
			}
			fail("alloc", it, fmt.Sprintf("ReadFrame allocated %d octets for a frame of %d octets (cap %d); result %s %s", o.Alloc, frameOctets, o.Cap, o.Out, o.Err))
		}
		if o.Out == "ok" {
			// boundary rule: the next frame must be the sentinel
			var f2 spdy.Frame
			var err2 error
			p2, fin2 := vh.GuardTimeout(20*time.Second, func() { f2, err2 = b.ReadFrame() })
			pf, isPing := f2.(*spdy.PingFrame)
			switch {
			case !fin2:
				o.Next = "hang"
				fail("hang", it, "ReadFrame (next frame) did not return")
			case p2 != "":
				o.Next = "panic"
				fail("panic", it, "reading the next frame: "+p2)
			case err2 != nil || !isPing || pf.Id != sentinel:
				o.Next = fmt.Sprintf("lost: %T %v", f2, err2)
				fail("boundary", it, fmt.Sprintf("reader returned a frame (%T) for declared length %d but the following PING(%#x) was read as %T %+v err=%v",
					f, declared, sentinel, f2, f2, err2))
			default:
				o.Next = "sentinel"
			}
			switch it.P {
			case "ok":
				if d := compareFrame(f, ex, it.Ng); d != "" {
					fail("mismatch", it, "frame read back differs: "+d)
				}
			case "err", "serr":
				fail("accepted", it, fmt.Sprintf("malformed frame returned as %T %+v", f, f))
			}
		} else if o.Out == "err" && it.P == "ok" {
			fail("rejected", it, "well-formed frame not read back: "+o.Err)
		} else if o.Out == "err" && it.P == "serr" {
			// stream error: the frame is refused, the session goes on.  The sentinel must be the next
			// frame; whether the whole block was consumed shows on the header frames that follow.
			var f2 spdy.Frame
			var err2 error
			p2, fin2 := vh.GuardTimeout(20*time.Second, func() { f2, err2 = b.ReadFrame() })
			pf, isPing := f2.(*spdy.PingFrame)
			switch {
			case !fin2:
				o.Next = "hang"
				fail("hang", it, "ReadFrame (frame after a rejected one) did not return")
			case p2 != "":
				o.Next = "panic"
				fail("panic", it, "reading the frame after a rejected one: "+p2)
			case err2 != nil || !isPing || pf.Id != sentinel:
				o.Next = fmt.Sprintf("lost: %T %v", f2, err2)
				fail("boundary-after-reject", it, fmt.Sprintf("after rejecting the frame (%s) the following PING(%#x) was read as %T %+v err=%v",
					o.Err, sentinel, f2, f2, err2))
			default:
				o.Next = "sentinel"
			}
		}
		mOut := it.M
		if mOut == "serr" {
			mOut = "err"
		}
		if (o.Out == "ok" || o.Out == "err") && o.Out != mOut {
			drift = append(drift, fmt.Sprintf("%s: code %s, model %s", shapeKey(s), o.Out, it.M))
		}
		obs = append(obs, o)
		if o.Out == "err" && it.P == "serr" && o.Next == "sentinel" && res.OK {
			continue // stream error: the connection is still in use
		}
		if o.Out != "ok" || o.Next != "sentinel" {
			break // connection is dead
		}
	}
	res.Obs = obs
	if len(drift) > 0 {
		res.Drift = strings.Join(drift, "; ")
	}
	return res
}

func framesRun() {
	first := true
	n := 0
	vh.EachCase(func(line []byte) {
		if first {
			first = false
			var hdr struct {
				Alphabet *alphabet `json:"alphabet"`
			}
			if err := json.Unmarshal(line, &hdr); err != nil || hdr.Alphabet == nil {
				vh.Emit(map[string]string{"_fatal": "first line must carry the alphabet"})
				return
			}
			alpha = *hdr.Alphabet
			// probe: is a length field far larger than the payload allocated up front?
			probe := frameCase{ID: -1, Seq: []item{{S: shape{Mode: "raw", K: "reply", Len: "exact", Sid: "odd", Aux: "na", Np: 1, N1: "lc", V1: "v", N2: "na", V2: "na", Bm: "namebig"}, P: "err", M: "err"}}}
			runFrameCase(probe)
			return
		}
		var c frameCase
		if err := json.Unmarshal(line, &c); err != nil {
			vh.Emit(map[string]string{"_fatal": "bad case: " + err.Error()})
			return
		}
		r := runFrameCase(c)
		// TotalAlloc is process-wide: an allocation by the runtime itself inside the measured window
		// must not become a verdict.  An allocation made on the word of a length field is
		// deterministic: the case is replayed on fresh framers and must exceed the cap every time.
		for try := 0; try < 2 && !r.OK && strings.HasPrefix(r.Sig, "alloc/"); try++ {
			retrying = true
			r2 := runFrameCase(c)
			retrying = false
			if r2.OK || !strings.HasPrefix(r2.Sig, "alloc/") {
				r = r2
			}
		}
		vh.Emit(r)
		n++
		if n%64 == 0 {
			vh.Flush() // results already produced survive a fatal error of the process
		}
	})
	vh.Emit(map[string]interface{}{"summary": true, "cases": n, "alloc_unbounded": allocUnbounded, "alloc_skipped": allocSkipped})
}
