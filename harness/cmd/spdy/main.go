// Command spdy binds the Spdy specs (specs/Spdy) to bfe_spdy:
//
//	frames : C39, cases of GenFrame.tla on a pair of real Framers
//	conn   : C40, scripts of GenConn.tla against the real SPDY server on an in-memory connection
package main

import (
	"fmt"
	"os"
	"runtime/pprof"

	"verifharness/vh"
)

func main() {
	if len(os.Args) < 2 {
		fmt.Fprintln(os.Stderr, "usage: spdy <frames|conn|e2e-smoke>")
		os.Exit(2)
	}
	defer vh.Flush()
	if pf := os.Getenv("VERIF_PROF"); pf != "" {
		if fh, err := os.Create(pf); err == nil {
			pprof.StartCPUProfile(fh)
			defer pprof.StopCPUProfile()
		}
	}
	switch os.Args[1] {
	case "frames":
		framesRun()
	case "conn":
		connRun()
	case "e2e-smoke":
		e2eSmoke()
	default:
		fmt.Fprintln(os.Stderr, "unknown subcommand", os.Args[1])
		vh.Flush()
		os.Exit(2)
	}
}
