package main

// `spdy e2e-smoke`: the shared SPDY/3.1 client helper (verifharness/e2e.DialSPDY) against an
// in-process BFE with one OK backend: GET without body, GET with a 5-byte body, POST of 100 KB.
// Keeps the helper compiled; prints one ndjson line per request, exit 1 if one fails.

import (
	"bytes"
	"fmt"
	"os"
	"time"

	"verifharness/e2e"
	"verifharness/vh"
)

func e2eSmoke() {
	bk, err := e2e.NewBackend(e2e.Respond(e2e.OK("hello"), false))
	if err != nil {
		fmt.Fprintln(os.Stderr, "backend:", err)
		vh.Flush()
		os.Exit(2)
	}
	defer bk.Close()
	s, err := e2e.Start(e2e.Options{
		Clusters:   []e2e.Cluster{{Name: "c1", Backends: []string{bk.Addr}}},
		TLS:        true,
		NextProtos: []string{"spdy/3.1", "http/1.1"},
	})
	if err != nil {
		fmt.Fprintln(os.Stderr, "start:", err)
		vh.Flush()
		os.Exit(2)
	}
	defer s.Close()
	c, err := e2e.DialSPDY(s.TLSAddr)
	if err != nil {
		fmt.Fprintln(os.Stderr, "dial:", err)
		vh.Flush()
		os.Exit(1)
	}
	defer c.Close()
	big := bytes.Repeat([]byte("0123456789abcdef"), 6400) // 100 KB
	reqs := []struct {
		name, method string
		body         []byte
	}{{"get-nobody", "GET", nil}, {"get-5", "GET", []byte("12345")}, {"post-100k", "POST", big}}
	bad := false
	for _, r := range reqs {
		hdr := map[string]string{}
		if r.body != nil {
			hdr["content-length"] = fmt.Sprint(len(r.body))
		}
		status, body, err := c.Do(r.method, "/"+r.name, "example.org", hdr, r.body, 15*time.Second)
		bk.WaitQuiet(100*time.Millisecond, 3*time.Second)
		var got []byte
		for _, raw := range bk.Received() {
			got = append(got, raw...)
		}
		delivered := r.body == nil || bytes.Contains(got, r.body)
		seen := bytes.Contains(got, []byte(r.method+" /"+r.name+" "))
		ok := err == nil && status == 200 && string(body) == "hello" && delivered && seen
		if !ok {
			bad = true
		}
		e := ""
		if err != nil {
			e = err.Error()
		}
		vh.Emit(map[string]interface{}{"req": r.name, "ok": ok, "status": status, "resp": string(body), "err": e,
			"backend_saw_request": seen, "backend_got_body": delivered})
	}
	if bad {
		vh.Flush()
		os.Exit(1)
	}
}
