package main

func connRun() {}
