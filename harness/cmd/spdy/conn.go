package main

// C40: lock-step replay of the scripts printed by specs/Spdy/GenConn.tla against the REAL
// bfe_spdy server (Server.handleConn + serverConn.serve via the overlay wrapper VerifServeConn)
// on an in-memory connection (net.Pipe).  The client is built on the repository's own Framer
// (no independent SPDY implementation is available offline).
//
// One script step = one client frame or one handler step.  After a step the harness
//   1. waits (generous timeout) until the wire shows what the model predicts (Layer M),
//   2. synchronises with two PING round trips,
//   3. evaluates the Layer-P expectations printed with the step: outcome in the allowed set,
//      handlers started, WINDOW_UPDATE sums vs octets consumed, DATA vs the client's windows,
//      silence on closed streams, body delivery, no panic (bfe_spdy's own panic counters).
// A difference inside what Layer P allows is reported as drift and ends the case.

import (
	"encoding/json"
	"fmt"
	"io"
	"net"
	"os"
	"sort"
	"strconv"
	"strings"
	"sync"
	"time"

	"github.com/baidu/go-lib/web-monitor/metrics"
	http "github.com/bfenetworks/bfe/bfe_http"
	spdy "github.com/bfenetworks/bfe/bfe_spdy"

	"verifharness/vh"
)

type sexp struct {
	ID    uint32 `json:"id"`
	St    string `json:"st"`
	H     string `json:"h"`
	Wu    int64  `json:"wu"`
	Cons  int64  `json:"cons"`
	Acc   int64  `json:"acc"`
	Out   int64  `json:"out"`
	Lim   int64  `json:"lim"`
	Buf   int64  `json:"buf"`
	Rep   bool   `json:"rep"`
	Fin   bool   `json:"fin"`
	Quiet bool   `json:"quiet"`
}

type rstExp struct {
	ID   uint32 `json:"id"`
	Code uint32 `json:"code"`
}

type expState struct {
	WuC     int64    `json:"wuC"`
	ConsC   int64    `json:"consC"`
	OutC    int64    `json:"outC"`
	LimC    int64    `json:"limC"`
	Goaway  bool     `json:"goaway"`
	Dead    bool     `json:"dead"`
	Started []uint32 `json:"started"`
	Rsts    []rstExp `json:"rsts"`
	S       []sexp   `json:"s"`
}

type cstep struct {
	A       string   `json:"a"`
	ID      uint32   `json:"id"`
	X       int64    `json:"x"`
	F       bool     `json:"f"`
	Allowed []string `json:"allowed"`
	Why     string   `json:"why"`
	M       string   `json:"m"`
	Exp     expState `json:"exp"`
}

type connCase struct {
	ID    int     `json:"id"`
	MaxS  uint32  `json:"maxs"`
	Slow  int     `json:"slow"` // timeout multiplier (re-runs)
	Steps []cstep `json:"steps"`
}

// ---- what the client has seen on the wire
type wire struct {
	mu      sync.Mutex
	cond    *sync.Cond
	wuC     int64
	wuS     map[uint32]int64
	out     map[uint32]int64
	outC    int64
	rep     map[uint32]int
	fin     map[uint32]bool
	rsts    []rstExp
	goaway  bool
	closed  bool
	readErr string
	pings   map[uint32]bool
	settled bool // server SETTINGS seen
	quiet   map[uint32]bool
	late    []string // frames on streams that must be silent
	tags    map[uint32]map[byte]bool
	log     []string
}

func newWire() *wire {
	w := &wire{wuS: map[uint32]int64{}, out: map[uint32]int64{}, rep: map[uint32]int{}, fin: map[uint32]bool{},
		pings: map[uint32]bool{}, quiet: map[uint32]bool{}}
	w.cond = sync.NewCond(&w.mu)
	return w
}

func (w *wire) note(s string) {
	if len(w.log) < 400 {
		w.log = append(w.log, s)
	}
}

func (w *wire) readLoop(fr *spdy.Framer) {
	for {
		f, err := fr.ReadFrame()
		w.mu.Lock()
		if err != nil {
			w.closed = true
			w.readErr = err.Error()
			w.note("closed:" + err.Error())
			w.cond.Broadcast()
			w.mu.Unlock()
			return
		}
		switch g := f.(type) {
		case *spdy.SettingsFrame:
			w.settled = true
			w.note("settings")
		case *spdy.WindowUpdateFrame:
			if g.StreamId == 0 {
				w.wuC += int64(g.DeltaWindowSize)
			} else {
				w.wuS[uint32(g.StreamId)] += int64(g.DeltaWindowSize)
			}
			w.note(fmt.Sprintf("wu:%d:%d", g.StreamId, g.DeltaWindowSize))
		case *spdy.DataFrame:
			id := uint32(g.StreamId)
			w.out[id] += int64(len(g.Data))
			w.outC += int64(len(g.Data))
			if g.StreamEnded() {
				w.fin[id] = true
			}
			if w.quiet[id] {
				w.late = append(w.late, fmt.Sprintf("DATA(%d octets, fin=%v) on stream %d", len(g.Data), g.StreamEnded(), id))
			}
			w.note(fmt.Sprintf("data:%d:%d:%v", id, len(g.Data), g.StreamEnded()))
		case *spdy.SynReplyFrame:
			id := uint32(g.StreamId)
			w.rep[id]++
			if g.StreamEnded() {
				w.fin[id] = true
			}
			if w.quiet[id] {
				w.late = append(w.late, fmt.Sprintf("SYN_REPLY on stream %d", id))
			}
			w.note(fmt.Sprintf("reply:%d:%v", id, g.StreamEnded()))
		case *spdy.RstStreamFrame:
			w.rsts = append(w.rsts, rstExp{uint32(g.StreamId), uint32(g.Status)})
			w.note(fmt.Sprintf("rst:%d:%d", g.StreamId, g.Status))
		case *spdy.GoAwayFrame:
			w.goaway = true
			w.note(fmt.Sprintf("goaway:%d:%d", g.LastGoodStreamId, g.Status))
		case *spdy.PingFrame:
			w.pings[g.Id] = true
		default:
			w.note(fmt.Sprintf("other:%T", f))
		}
		w.cond.Broadcast()
		w.mu.Unlock()
	}
}

// waitFor: cond must be called with w.mu held.
func (w *wire) waitFor(d time.Duration, cond func() bool) bool {
	deadline := time.Now().Add(d)
	t := time.AfterFunc(d, func() { w.mu.Lock(); w.cond.Broadcast(); w.mu.Unlock() })
	defer t.Stop()
	w.mu.Lock()
	defer w.mu.Unlock()
	for !cond() {
		if time.Now().After(deadline) {
			return false
		}
		w.cond.Wait()
	}
	return true
}

// ---- handlers under harness control
type hcmd struct {
	op string
	n  int64
}
type hres struct {
	op   string
	n    int64
	err  string
	tags map[byte]bool
}
type hctl struct {
	id   uint32
	cmds chan hcmd
	res  chan hres
}

type conn struct {
	c        connCase
	w        *wire
	cli      net.Conn
	fr       *spdy.Framer
	wmu      sync.Mutex
	hmu      sync.Mutex
	handlers map[uint32]*hctl
	started  []uint32
	extra    []string // handler invocations that cannot be attributed
	base     time.Duration
	pingSeq  uint32
}

func (cn *conn) handler(rw http.ResponseWriter, r *http.Request) {
	id64, err := strconv.ParseUint(r.Header.Get("X-Id"), 10, 32)
	id := uint32(id64)
	cn.hmu.Lock()
	if err != nil {
		cn.extra = append(cn.extra, "handler invoked without x-id: "+r.Method+" "+r.RequestURI)
		cn.hmu.Unlock()
		return
	}
	if _, dup := cn.handlers[id]; dup {
		cn.extra = append(cn.extra, fmt.Sprintf("second handler invoked for stream %d", id))
		cn.hmu.Unlock()
		return
	}
	h := &hctl{id: id, cmds: make(chan hcmd, 16), res: make(chan hres, 16)}
	cn.handlers[id] = h
	cn.started = append(cn.started, id)
	cn.hmu.Unlock()
	cn.w.mu.Lock()
	cn.w.cond.Broadcast()
	cn.w.mu.Unlock()
	for cmd := range h.cmds {
		switch cmd.op {
		case "read":
			buf := make([]byte, 16384)
			var got int64
			tags := map[byte]bool{}
			var rerr error
			for got < cmd.n {
				want := cmd.n - got
				if want > int64(len(buf)) {
					want = int64(len(buf))
				}
				n, e := r.Body.Read(buf[:want])
				for _, b := range buf[:n] {
					tags[b] = true
				}
				got += int64(n)
				if e != nil {
					rerr = e
					break
				}
			}
			res := hres{op: "read", n: got, tags: tags}
			if rerr != nil {
				res.err = rerr.Error()
			}
			h.res <- res
		case "reply":
			rw.WriteHeader(200)
			rw.(http.Flusher).Flush()
			h.res <- hres{op: "reply"}
		case "write":
			n, e := rw.Write(make([]byte, cmd.n))
			rw.(http.Flusher).Flush()
			res := hres{op: "write", n: int64(n)}
			if e != nil {
				res.err = e.Error()
			}
			h.res <- res
		case "finish":
			return
		}
	}
}

func (cn *conn) send(f spdy.Frame) error {
	cn.wmu.Lock()
	defer cn.wmu.Unlock()
	cn.cli.SetWriteDeadline(time.Now().Add(10 * cn.base))
	return cn.fr.WriteFrame(f)
}

// two PING round trips: everything the server queued before the first PING was processed
// is on the wire before the second echo.
func (cn *conn) sync() bool {
	for i := 0; i < 2; i++ {
		cn.pingSeq += 2
		id := cn.pingSeq
		if err := cn.send(&spdy.PingFrame{Id: id}); err != nil {
			return false
		}
		ok := cn.w.waitFor(5*cn.base, func() bool { return cn.w.pings[id] || cn.w.closed || cn.w.goaway })
		if !ok || !cn.w.pingSeen(id) {
			return false
		}
	}
	return true
}

func (w *wire) pingSeen(id uint32) bool {
	w.mu.Lock()
	defer w.mu.Unlock()
	return w.pings[id]
}

func u32set(xs []uint32) string {
	s := append([]uint32(nil), xs...)
	sort.Slice(s, func(i, j int) bool { return s[i] < s[j] })
	return fmt.Sprint(s)
}

func (cn *conn) startedSet() []uint32 {
	cn.hmu.Lock()
	defer cn.hmu.Unlock()
	return append([]uint32(nil), cn.started...)
}

func hasRst(rs []rstExp, want rstExp) bool {
	for _, r := range rs {
		if r == want {
			return true
		}
	}
	return false
}

type connResult struct {
	ID     int      `json:"id"`
	OK     bool     `json:"ok"`
	Sig    string   `json:"sig,omitempty"`
	Detail string   `json:"detail,omitempty"`
	Drift  string   `json:"drift,omitempty"`
	Steps  int      `json:"steps"` // steps replayed and checked
	Log    []string `json:"log,omitempty"`
}

var spdyState = spdy.GetSpdyState()

func runConnCase(c connCase) (res connResult) {
	res = connResult{ID: c.ID, OK: true}
	slow := c.Slow
	if slow < 1 {
		slow = 1
	}
	cn := &conn{c: c, w: newWire(), handlers: map[uint32]*hctl{}, base: time.Duration(slow) * time.Second, pingSeq: 1001}
	fail := func(sig, detail string) {
		if res.OK {
			res.OK = false
			res.Sig = sig
			res.Detail = detail
		}
	}
	panicConn0, panicStream0 := spdyState.SpdyPanicConn.Get(), spdyState.SpdyPanicStream.Get()

	cli, srv := net.Pipe()
	cn.cli = cli
	fr, err := spdy.NewFramer(cli, cli)
	if err != nil {
		return connResult{ID: c.ID, Sig: "machinery", Detail: err.Error()}
	}
	cn.fr = fr
	defer fr.ReleaseWriter()
	served := make(chan string, 1)
	hs := &http.Server{ReadTimeout: time.Hour, GracefulShutdownTimeout: time.Hour}
	go func() {
		served <- vh.Guard(func() {
			spdy.VerifServeConn(&spdy.Server{MaxConcurrentStreams: c.MaxS}, hs, srv, http.HandlerFunc(cn.handler))
		})
	}()
	go cn.w.readLoop(fr)
	if !cn.w.waitFor(10*cn.base, func() bool { return cn.w.settled || cn.w.closed }) || !cn.w.settled {
		cli.Close()
		return connResult{ID: c.ID, Sig: "machinery", Detail: "no SETTINGS from the server"}
	}

	ended := false // the model says the connection is over (GOAWAY / close)
	for i, s := range c.Steps {
		if ended {
			break
		}
		stepName := fmt.Sprintf("step %d %s(id=%d,x=%d,f=%v) [%s]", i+1, s.A, s.ID, s.X, s.F, s.Why)
		cn.w.mu.Lock()
		rst0 := len(cn.w.rsts)
		cn.w.note(">> " + stepName)
		cn.w.mu.Unlock()
		tag := byte(i + 1)
		isClient := true
		var werr error
		var hr *hres
		switch s.A {
		case "syn":
			f := &spdy.SynStreamFrame{StreamId: spdy.StreamId(s.ID), Headers: http.Header{
				":method": {"POST"}, ":path": {"/"}, ":version": {"HTTP/1.1"}, ":host": {"verif.example"}, ":scheme": {"http"},
				"x-id": {strconv.Itoa(int(s.ID))}}}
			if s.F {
				f.Headers[":method"] = []string{"GET"}
				f.CFHeader.Flags = spdy.ControlFlagFin
			} else if s.X >= 0 { // declared content-length of a request whose body follows in DATA frames
				f.Headers["content-length"] = []string{strconv.FormatInt(s.X, 10)}
			}
			werr = cn.send(f)
		case "synbad":
			// well-framed SYN_STREAM, malformed request (draft 3.2.1): unsupported :scheme / no :path
			f := &spdy.SynStreamFrame{StreamId: spdy.StreamId(s.ID), Headers: http.Header{
				":method": {"POST"}, ":path": {"/"}, ":version": {"HTTP/1.1"}, ":host": {"verif.example"}, ":scheme": {"ftp"},
				"x-id": {strconv.Itoa(int(s.ID))}}}
			if s.F {
				f.Headers[":method"] = []string{"GET"}
				f.Headers[":scheme"] = []string{"http"}
				delete(f.Headers, ":path")
				f.CFHeader.Flags = spdy.ControlFlagFin
			}
			werr = cn.send(f)
		case "data":
			d := make([]byte, s.X)
			for j := range d {
				d[j] = tag
			}
			f := &spdy.DataFrame{StreamId: spdy.StreamId(s.ID), Data: d}
			if s.F {
				f.Flags = spdy.DataFlagFin
			}
			werr = cn.send(f)
		case "wu":
			werr = cn.send(&spdy.WindowUpdateFrame{StreamId: spdy.StreamId(s.ID), DeltaWindowSize: uint32(s.X)})
		case "rst":
			werr = cn.send(&spdy.RstStreamFrame{StreamId: spdy.StreamId(s.ID), Status: spdy.Cancel})
		case "settings":
			werr = cn.send(&spdy.SettingsFrame{FlagIdValues: []spdy.SettingsFlagIdValue{{Flag: 0, Id: spdy.SettingsInitialWindowSize, Value: uint32(s.X)}}})
		case "ping":
			werr = cn.send(&spdy.PingFrame{Id: 7})
		case "goaway":
			werr = cn.send(&spdy.GoAwayFrame{LastGoodStreamId: 0, Status: spdy.GoAwayOK})
		case "headers":
			werr = cn.send(&spdy.HeadersFrame{StreamId: spdy.StreamId(s.ID), Headers: http.Header{"x-late": {"1"}}})
		case "hread", "hreply", "hwrite", "hfinish":
			isClient = false
			cn.hmu.Lock()
			h := cn.handlers[s.ID]
			cn.hmu.Unlock()
			if h == nil {
				fail("machinery", stepName+": no handler for this stream (model and code out of step)")
				ended = true
				break
			}
			switch s.A {
			case "hread":
				h.cmds <- hcmd{"read", s.X}
			case "hreply":
				h.cmds <- hcmd{"reply", 0}
			case "hwrite":
				h.cmds <- hcmd{"write", s.X}
			case "hfinish":
				h.cmds <- hcmd{"finish", 0}
				close(h.cmds)
			}
			if s.A == "hread" || s.A == "hreply" {
				wantOp := s.A[1:]
				deadline := time.After(10 * cn.base)
				for hr == nil && !ended {
					select {
					case r := <-h.res:
						if r.op == wantOp { // results of earlier (blocked) writes are skipped
							hr = &r
						}
					case <-deadline:
						fail("hang/"+s.A, stepName+": the handler call did not return within the timeout")
						ended = true
					}
				}
			}
		default:
			fail("machinery", "unknown step "+s.A)
			ended = true
		}
		if ended {
			break
		}
		if werr != nil {
			cn.w.mu.Lock()
			cn.w.note("write error: " + werr.Error())
			cn.w.mu.Unlock()
		}

		// ---- 1. wait for what the model predicts
		exp := s.Exp
		matches := func() bool {
			w := cn.w
			if exp.Dead {
				return w.closed
			}
			if exp.Goaway {
				return w.goaway
			}
			if w.wuC != exp.WuC || w.outC != exp.OutC {
				return false
			}
			for _, e := range exp.S {
				if w.wuS[e.ID] != e.Wu || w.out[e.ID] != e.Out || (w.rep[e.ID] > 0) != e.Rep || w.fin[e.ID] != e.Fin {
					return false
				}
			}
			for _, r := range exp.Rsts {
				if !hasRst(w.rsts, r) {
					return false
				}
			}
			return u32set(cn.startedSet()) == u32set(exp.Started)
		}
		// (the PING round trips come first: processSettings does not kick the write scheduler,
		// data unblocked by a SETTINGS frame leaves only with the next event)
		synced := false
		cn.w.mu.Lock()
		over := cn.w.closed || cn.w.goaway
		cn.w.mu.Unlock()
		if !over && !exp.Dead && !exp.Goaway {
			synced = cn.sync()
		}
		matched := cn.w.waitFor(3*cn.base, func() bool { return matches() || (cn.w.closed && !exp.Dead && !exp.Goaway) })
		if !synced {
			cn.w.mu.Lock()
			over = cn.w.closed || cn.w.goaway
			cn.w.mu.Unlock()
			if !over {
				synced = cn.sync()
			}
		}
		cn.w.mu.Lock()
		w := cn.w
		// ---- 3. Layer P
		// 3a. outcome of a client frame
		token := "acc"
		var newRst []rstExp
		newRst = append(newRst, w.rsts[rst0:]...)
		switch {
		case w.goaway:
			token = "goaway"
		case w.closed:
			token = "close"
		default:
			for _, r := range newRst {
				if r.ID == s.ID {
					token = fmt.Sprintf("rst:%d", r.Code)
				}
			}
		}
		allowed := map[string]bool{}
		for _, a := range s.Allowed {
			allowed[a] = true
		}
		snapshot := fmt.Sprintf("wire: wuC=%d outC=%d wuS=%v out=%v rep=%v fin=%v rsts=%v goaway=%v closed=%v(%s) started=%v synced=%v",
			w.wuC, w.outC, w.wuS, w.out, w.rep, w.fin, w.rsts, w.goaway, w.closed, w.readErr, cn.startedSet(), synced)
		if !allowed[token] {
			if !synced && !w.closed && !w.goaway {
				fail("hang/sync/"+s.Why, stepName+": no PING echo within the timeout; "+snapshot)
			} else {
				fail(fmt.Sprintf("outcome/%s/%s", s.Why, token), fmt.Sprintf("%s: outcome %q not in the allowed set %v (model: %s); %s", stepName, token, s.Allowed, s.M, snapshot))
			}
		}
		// RST_STREAM on a stream other than the one addressed (handler steps: only CANCEL on own stream)
		for _, r := range newRst {
			if r.ID != s.ID && !hasRst(exp.Rsts, r) {
				fail(fmt.Sprintf("stray-rst/%s/rst:%d", s.Why, r.Code), fmt.Sprintf("%s: RST_STREAM(%d, status %d) on another stream; %s", stepName, r.ID, r.Code, snapshot))
			}
		}
		// 3b. handlers started: only and all those the model started
		got, want := cn.startedSet(), exp.Started
		wantSet := map[uint32]bool{}
		for _, x := range want {
			wantSet[x] = true
		}
		for _, x := range got {
			if !wantSet[x] && res.OK {
				fail("started/"+s.Why, fmt.Sprintf("%s: a handler was started for stream %d; %s", stepName, x, snapshot))
			}
		}
		cn.hmu.Lock()
		if len(cn.extra) > 0 {
			fail("started-extra/"+s.Why, stepName+": "+strings.Join(cn.extra, "; "))
		}
		cn.hmu.Unlock()
		if token == s.M && len(got) < len(want) {
			fail("not-started/"+s.Why, fmt.Sprintf("%s: handlers %v expected, %v started; %s", stepName, want, got, snapshot))
		}
		// 3c. replenishment: session WINDOW_UPDATEs = octets consumed; stream: never more
		if w.wuC > exp.ConsC {
			fail("overgrant/session/"+s.Why, fmt.Sprintf("%s: session WINDOW_UPDATEs add up to %d, handlers consumed %d; %s", stepName, w.wuC, exp.ConsC, snapshot))
		} else if w.wuC < exp.ConsC && !w.closed && !w.goaway {
			fail("replenish/session/"+s.Why, fmt.Sprintf("%s: session WINDOW_UPDATEs add up to %d, handlers consumed %d; %s", stepName, w.wuC, exp.ConsC, snapshot))
		}
		for _, e := range exp.S {
			if w.wuS[e.ID] > e.Cons {
				fail("overgrant/stream/"+s.Why, fmt.Sprintf("%s: stream %d WINDOW_UPDATEs add up to %d, handler consumed %d; %s", stepName, e.ID, w.wuS[e.ID], e.Cons, snapshot))
			}
			// 3d. DATA within the client's windows
			if w.out[e.ID] > e.Lim {
				fail("oversend/stream/"+s.Why, fmt.Sprintf("%s: %d DATA octets on stream %d, the client's window allows %d; %s", stepName, w.out[e.ID], e.ID, e.Lim, snapshot))
			}
		}
		if w.outC > exp.LimC {
			fail("oversend/session/"+s.Why, fmt.Sprintf("%s: %d DATA octets in total, the client's session window allows %d; %s", stepName, w.outC, exp.LimC, snapshot))
		}
		// 3e. silence on closed streams
		if len(w.late) > 0 {
			fail("after-close/"+s.Why, fmt.Sprintf("%s: %v after the stream was reset / finished; %s", stepName, w.late, snapshot))
		}
		for _, e := range exp.S {
			if e.Quiet {
				w.quiet[e.ID] = true
			}
		}
		// 3f. body delivery
		if hr != nil && s.A == "hread" {
			if hr.n != s.X {
				fail("body/short/"+s.Why, fmt.Sprintf("%s: handler read %d of %d accepted octets (err %q); %s", stepName, hr.n, s.X, hr.err, snapshot))
			}
			for t := range hr.tags {
				k := int(t) - 1
				if k < 0 || k >= len(c.Steps) || c.Steps[k].A != "data" || !contains(c.Steps[k].Allowed, "acc") {
					fail("body/rejected-data-delivered", fmt.Sprintf("%s: handler read octets of the DATA frame of step %d, which was not accepted; %s", stepName, k+1, snapshot))
				}
			}
		}
		// ---- Layer M: exact agreement, otherwise drift and stop
		if res.OK && (!matched || !matches() || token != s.M) {
			res.Drift = fmt.Sprintf("%s: code and model differ inside Layer P (outcome %s, model %s); expected %+v; %s", stepName, token, s.M, exp, snapshot)
			ended = true
		}
		_ = isClient
		if exp.Dead || exp.Goaway || w.closed || w.goaway || !res.OK {
			ended = true
		}
		w.mu.Unlock()
		res.Steps = i + 1
	}

	// ---- end of the case: release handlers, close, the server must wind down without panic
	cn.hmu.Lock()
	for _, h := range cn.handlers {
		func() {
			defer func() { recover() }() // already closed by hfinish
			h.cmds <- hcmd{"finish", 0}
			close(h.cmds)
		}()
	}
	cn.hmu.Unlock()
	cli.Close()
	select {
	case p := <-served:
		if p != "" {
			fail("panic/serve-goroutine", p)
		}
	case <-time.After(20 * cn.base):
		fail("hang/shutdown", "the serve loop did not return within the timeout after the client closed the connection")
	}
	time.Sleep(time.Millisecond)
	if d := spdyState.SpdyPanicConn.Get() - panicConn0; d != 0 {
		fail("panic/serve-loop", fmt.Sprintf("bfe_spdy counted %d recovered panic(s) of the serve loop (SPDY_PANIC_CONN) during this script", d))
	}
	if d := spdyState.SpdyPanicStream.Get() - panicStream0; d != 0 {
		fail("panic/handler", fmt.Sprintf("bfe_spdy counted %d panic(s) on handler goroutines (SPDY_PANIC_STREAM) during this script", d))
	}
	if !res.OK || res.Drift != "" {
		cn.w.mu.Lock()
		res.Log = append([]string(nil), cn.w.log...)
		cn.w.mu.Unlock()
	}
	return res
}

func connRun() {
	spdyState.SpdyPanicConn = new(metrics.Counter)
	spdyState.SpdyPanicStream = new(metrics.Counter)
	n := 0
	vh.EachCase(func(line []byte) {
		var c connCase
		if err := json.Unmarshal(line, &c); err != nil {
			vh.Emit(map[string]string{"_fatal": "bad case: " + err.Error()})
			return
		}
		// a panic on one of the server's reader/writer goroutines kills the process:
		// leave a trace of the case being replayed
		fmt.Fprintf(os.Stderr, "CASE %d\n", c.ID)
		vh.Emit(runConnCase(c))
		n++
		vh.Flush() // per script: the first script without a result is the one that killed the process
	})
	vh.Emit(map[string]interface{}{"summary": true, "cases": n})
}

func contains(xs []string, x string) bool {
	for _, y := range xs {
		if y == x {
			return true
		}
	}
	return false
}

var _ = io.EOF
