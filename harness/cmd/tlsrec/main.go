// Command tlsrec binds specs/Tls/{Padding,Record,Msg}*.tla to /repo/bfe_tls
// (C43 CBC padding removal, C42 record integrity, C45 handshake message codec).
package main

import (
	"fmt"
	"os"

	"verifharness/vh"
)

func main() {
	if len(os.Args) < 2 {
		fmt.Fprintln(os.Stderr, "usage: tlsrec <padding-replay|padding-sweep|padding-record|record-run|msg-run>")
		os.Exit(2)
	}
	defer vh.Flush()
	switch os.Args[1] {
	case "padding-replay":
		paddingReplay()
	case "padding-sweep":
		paddingSweep()
	case "padding-record":
		paddingRecord()
	case "record-run":
		recordRun()
	case "msg-run":
		msgRun()
	default:
		fmt.Fprintln(os.Stderr, "unknown subcommand", os.Args[1])
		vh.Flush()
		os.Exit(2)
	}
}
