package main

// C45: handshake message codec.  Shapes (type x presence vector x operation) come from
// specs/Tls/GenMsg.tla together with the node list of the shape in wire order and the verdict
// (accept / reject / any).  This file fills the message structs with seeded contents
// (reflection over the unexported fields), finds byte offsets by walking the marshalled bytes
// along the node list, and runs the real marshal / unmarshal under recover on buffers whose
// capacity equals their length (any access outside the message panics).

import (
	"bytes"
	"encoding/json"
	"fmt"
	"hash/fnv"
	mrand "math/rand"
	"os"
	"reflect"
	"sort"
	"strings"
	"unsafe"

	"github.com/bfenetworks/bfe/bfe_tls"

	"verifharness/vh"
)

type msgNode struct {
	ID    string `json:"id"`
	K     string `json:"k"`
	Par   string `json:"par"`
	LB    int    `json:"lb"`
	SZ    int    `json:"sz"`
	Tag   int    `json:"tag"`
	Opt   string `json:"opt"`
	EndOK bool   `json:"endok"`
}

type msgOp struct {
	K      string `json:"k"` // rt | cut | pert
	Node   string `json:"node"`
	W      string `json:"w"`
	Framed bool   `json:"framed"`
	Expect string `json:"expect"` // accept | reject | any
}

type msgShape struct {
	ID    int       `json:"id"`
	T     string    `json:"t"`
	Pres  []string  `json:"pres"`
	Nodes []msgNode `json:"nodes"`
	Ops   []msgOp   `json:"ops"`
	Reps  int       `json:"reps"`           // content variants per shape
	Rep0  int       `json:"rep0"`           // first variant number (replay: the failing one)
	Fuzz  int       `json:"fuzz"`           // random mutations per variant (panic check only)
	Seed  *int64    `json:"seed,omitempty"` // replay: the seed of the run that found the case
}

// ---------------------------------------------------------------- reflection over unexported fields
func fld(m interface{}, name string) (reflect.Value, error) {
	v := reflect.ValueOf(m).Elem()
	f := v.FieldByName(name)
	if !f.IsValid() {
		return f, fmt.Errorf("%s has no field %q", v.Type(), name)
	}
	return reflect.NewAt(f.Type(), unsafe.Pointer(f.UnsafeAddr())).Elem(), nil
}

type setter struct {
	m   interface{}
	set map[string]bool
	err error
}

func (s *setter) put(name string, val interface{}) {
	f, err := fld(s.m, name)
	if err != nil {
		if s.err == nil {
			s.err = err
		}
		return
	}
	s.set[name] = true
	rv := reflect.ValueOf(val)
	switch {
	case rv.Type().AssignableTo(f.Type()):
		f.Set(rv)
	case rv.Kind() == reflect.Slice && f.Kind() == reflect.Slice && f.Type().Elem().Kind() == reflect.Struct:
		// [][2]byte -> []signatureAndHash{hash, signature}
		out := reflect.MakeSlice(f.Type(), rv.Len(), rv.Len())
		for i := 0; i < rv.Len(); i++ {
			e := out.Index(i)
			for j := 0; j < 2; j++ {
				ef := e.Field(j)
				reflect.NewAt(ef.Type(), unsafe.Pointer(ef.UnsafeAddr())).Elem().SetUint(rv.Index(i).Index(j).Uint())
			}
		}
		f.Set(out)
	case rv.Kind() == reflect.Array && f.Kind() == reflect.Struct:
		for j := 0; j < 2; j++ {
			ef := f.Field(j)
			reflect.NewAt(ef.Type(), unsafe.Pointer(ef.UnsafeAddr())).Elem().SetUint(rv.Index(j).Uint())
		}
	case rv.Kind() == reflect.Slice && f.Kind() == reflect.Slice:
		out := reflect.MakeSlice(f.Type(), rv.Len(), rv.Len())
		for i := 0; i < rv.Len(); i++ {
			out.Index(i).Set(rv.Index(i).Convert(f.Type().Elem()))
		}
		f.Set(out)
	case rv.Type().ConvertibleTo(f.Type()):
		f.Set(rv.Convert(f.Type()))
	default:
		if s.err == nil {
			s.err = fmt.Errorf("cannot set %s (%s) from %s", name, f.Type(), rv.Type())
		}
	}
}

// canon renders a field value so that nil and empty slices compare equal.
func canon(v reflect.Value) string {
	switch v.Kind() {
	case reflect.Slice:
		if v.Type().Elem().Kind() == reflect.Uint8 {
			return fmt.Sprintf("[%x]", v.Bytes())
		}
		parts := make([]string, v.Len())
		for i := range parts {
			parts[i] = canon(v.Index(i))
		}
		return "[" + strings.Join(parts, ",") + "]"
	case reflect.Struct:
		parts := make([]string, v.NumField())
		for i := range parts {
			f := v.Field(i)
			if f.CanAddr() {
				f = reflect.NewAt(f.Type(), unsafe.Pointer(f.UnsafeAddr())).Elem()
				parts[i] = canon(f)
			} else {
				parts[i] = fmt.Sprint(f)
			}
		}
		return "{" + strings.Join(parts, ",") + "}"
	case reflect.String:
		return fmt.Sprintf("%q", v.String())
	case reflect.Bool:
		return fmt.Sprint(v.Bool())
	default:
		return fmt.Sprint(v.Uint())
	}
}

// ---------------------------------------------------------------- seeded contents
// vfield: a variable-length field of the message under construction, by node id of the layout:
// smallest and largest byte length the grammar allows, and the element size.
type vfield struct{ lo, max, unit int }

type gen struct {
	r   *mrand.Rand
	ov  map[string]int    // node id -> byte length wanted (size classes)
	reg map[string]vfield // filled while building
}

// n draws the seeded length (always, so that other fields do not depend on overrides), registers
// the field and applies an override.
func (g gen) n(id string, lo, hi, max, unit int) int {
	k := lo + g.r.Intn(hi-lo+1)
	if g.reg != nil {
		g.reg[id] = vfield{lo * unit, max * unit, unit}
	}
	if v, ok := g.ov[id]; ok {
		return v / unit
	}
	return k
}

// The contents of a variable field come from a generator of their own (one draw from the main
// stream whatever the length), so that resizing one field leaves every other field as it was.
func (g gen) sub() *mrand.Rand { return mrand.New(mrand.NewSource(g.r.Int63())) }

func (g gen) vbytes(id string, lo, hi, max int) []byte {
	b := make([]byte, g.n(id, lo, hi, max, 1))
	g.sub().Read(b)
	return b
}
func (g gen) vname(id string, lo, hi, max int) string {
	const al = "abcdefghijklmnopqrstuvwxyz0123456789-./"
	b := make([]byte, g.n(id, lo, hi, max, 1))
	r := g.sub()
	for i := range b {
		b[i] = al[r.Intn(len(al))]
	}
	return string(b)
}
func (g gen) vu16s(id string, lo, hi, max int, avoid uint16) []uint16 {
	out := make([]uint16, g.n(id, lo, hi, max, 2))
	r := g.sub()
	for i := range out {
		for {
			out[i] = uint16(r.Intn(65536))
			if out[i] != avoid {
				break
			}
		}
	}
	return out
}
func (g gen) vpairs(id string, lo, hi, max int) [][2]byte {
	out := make([][2]byte, g.n(id, lo, hi, max, 2))
	r := g.sub()
	for i := range out {
		out[i] = [2]byte{byte(r.Intn(256)), byte(r.Intn(256))}
	}
	return out
}

func (g gen) bytes(lo, hi int) []byte {
	b := make([]byte, lo+g.r.Intn(hi-lo+1))
	g.r.Read(b)
	return b
}
func (g gen) name(lo, hi int) string {
	const al = "abcdefghijklmnopqrstuvwxyz0123456789-./"
	b := make([]byte, lo+g.r.Intn(hi-lo+1))
	for i := range b {
		b[i] = al[g.r.Intn(len(al))]
	}
	return string(b)
}
func (g gen) u16s(lo, hi int, avoid uint16) []uint16 {
	out := make([]uint16, lo+g.r.Intn(hi-lo+1))
	for i := range out {
		for {
			out[i] = uint16(g.r.Intn(65536))
			if out[i] != avoid {
				break
			}
		}
	}
	return out
}
func (g gen) pairs(lo, hi int) [][2]byte {
	out := make([][2]byte, lo+g.r.Intn(hi-lo+1))
	for i := range out {
		out[i] = [2]byte{byte(g.r.Intn(256)), byte(g.r.Intn(256))}
	}
	return out
}

// build fills a fresh message of type t according to the presence flags.
// preset: fields the caller of unmarshal sets beforehand (version dependent layout switches).
func build(t string, pres map[string]bool, g gen) (m interface{}, set map[string]bool, preset map[string]interface{}, err error) {
	m = bfe_tls.VerifTlsrecNewMsg(t)
	if m == nil {
		return nil, nil, nil, fmt.Errorf("unknown message type %q", t)
	}
	s := &setter{m: m, set: map[string]bool{}}
	preset = map[string]interface{}{}
	switch t {
	case "clientHello":
		s.put("vers", uint16(g.r.Intn(65536)))
		s.put("random", g.bytes(32, 32))
		s.put("sessionId", g.vbytes("sessionId", 0, 32, 32))
		// 0x00ff is the renegotiation SCSV: by RFC 5746 it MEANS secureRenegotiation, so it is kept
		// out of seeded suite lists (a list with it does not round-trip by design)
		s.put("cipherSuites", g.vu16s("cipherSuites", 1, 8, 32767, 0x00ff))
		s.put("compressionMethods", g.vbytes("compression", 1, 3, 255))
		s.put("nextProtoNeg", pres["npn"])
		sn := ""
		if pres["sni"] {
			sn = g.vname("sni.name", 1, 30, 65535)
		}
		s.put("serverName", sn)
		s.put("ocspStapling", pres["ocsp"])
		if pres["curves"] {
			s.put("supportedCurves", g.vu16s("curves.list", 1, 4, 32767, 0xffff))
		} else {
			s.put("supportedCurves", []uint16{})
		}
		if pres["points"] {
			s.put("supportedPoints", g.vbytes("points.list", 1, 3, 255))
		} else {
			s.put("supportedPoints", []byte{})
		}
		s.put("ticketSupported", pres["ticket"])
		if pres["ticket"] {
			s.put("sessionTicket", g.vbytes("ticket", 0, 40, 65535))
		} else {
			s.put("sessionTicket", []byte{})
		}
		if pres["sigalgs"] {
			s.put("signatureAndHashes", g.vpairs("sigalgs.list", 1, 4, 32767))
		} else {
			s.put("signatureAndHashes", [][2]byte{})
		}
		s.put("secureRenegotiation", pres["reneg"])
		if pres["alpn"] {
			s.put("alpnProtocols", []string{g.vname("alpn.n1", 1, 10, 255), g.vname("alpn.n2", 1, 10, 255)})
		} else {
			s.put("alpnProtocols", []string{})
		}
	case "serverHello":
		s.put("vers", uint16(g.r.Intn(65536)))
		s.put("random", g.bytes(32, 32))
		s.put("sessionId", g.vbytes("sessionId", 0, 32, 32))
		s.put("cipherSuite", uint16(g.r.Intn(65536)))
		s.put("compressionMethod", uint8(g.r.Intn(256)))
		s.put("nextProtoNeg", pres["npn"])
		if pres["npn"] {
			s.put("nextProtos", []string{g.vname("npn.p1", 1, 10, 255), g.vname("npn.p2", 1, 10, 255)})
		} else {
			s.put("nextProtos", []string{})
		}
		s.put("ocspStapling", pres["ocsp"])
		s.put("ticketSupported", pres["ticket"])
		s.put("secureRenegotiation", pres["reneg"])
		ap := ""
		if pres["alpn"] {
			ap = g.vname("alpn.name", 1, 10, 255)
		}
		s.put("alpnProtocol", ap)
	case "certificate":
		certs := [][]byte{}
		for i, f := range []string{"c1", "c2"} {
			if pres[f] {
				certs = append(certs, g.vbytes(fmt.Sprintf("cert%d", i+1), 1, 50, 1<<24-1))
			}
		}
		s.put("certificates", certs)
	case "serverKeyExchange":
		s.put("key", g.vbytes("key", 0, 60, 1<<24-1))
	case "certificateStatus":
		if pres["ocsp"] {
			s.put("statusType", uint8(1))
			s.put("response", g.vbytes("response", 1, 40, 1<<24-1))
		} else {
			s.put("statusType", uint8(2+g.r.Intn(254)))
			s.put("response", []byte{})
		}
	case "serverHelloDone":
	case "clientKeyExchange":
		s.put("ciphertext", g.vbytes("ciphertext", 0, 60, 1<<24-1))
	case "finished":
		s.put("verifyData", g.vbytes("verifyData", 0, 40, 1<<24-1))
	case "nextProto":
		s.put("proto", g.vname("proto", 0, 20, 255))
	case "certificateRequest":
		s.put("hasSignatureAndHash", pres["sig"])
		preset["hasSignatureAndHash"] = pres["sig"]
		s.put("certificateTypes", g.vbytes("types", 1, 4, 255))
		if pres["sig"] {
			s.put("signatureAndHashes", g.vpairs("sigalgs", 1, 4, 32767))
		} else {
			s.put("signatureAndHashes", [][2]byte{})
		}
		cas := [][]byte{}
		for _, f := range []string{"ca1", "ca2"} {
			if pres[f] {
				cas = append(cas, g.vbytes(f, 1, 30, 65535))
			}
		}
		s.put("certificateAuthorities", cas)
	case "certificateVerify":
		s.put("hasSignatureAndHash", pres["sig"])
		preset["hasSignatureAndHash"] = pres["sig"]
		if pres["sig"] {
			s.put("signatureAndHash", [2]byte{byte(g.r.Intn(256)), byte(g.r.Intn(256))})
		}
		s.put("signature", g.vbytes("signature", 0, 60, 65535))
	case "newSessionTicket":
		s.put("ticket", g.vbytes("ticket", 0, 60, 65535))
	case "sessionState":
		s.put("vers", uint16(g.r.Intn(65536)))
		s.put("cipherSuite", uint16(g.r.Intn(65536)))
		s.put("masterSecret", g.vbytes("master", 0, 48, 65535))
		certs := [][]byte{}
		for i, f := range []string{"c1", "c2"} {
			if pres[f] {
				certs = append(certs, g.vbytes(fmt.Sprintf("cert%d", i+1), 0, 50, 1<<24-1))
			}
		}
		s.put("certificates", certs)
	}
	return m, s.set, preset, s.err
}

func fresh(t string, preset map[string]interface{}) (interface{}, error) {
	m := bfe_tls.VerifTlsrecNewMsg(t)
	s := &setter{m: m, set: map[string]bool{}}
	for k, v := range preset {
		s.put(k, v)
	}
	return m, s.err
}

// ---------------------------------------------------------------- layout walk
type extent struct {
	start, lenAt, lb, cstart, cend int
}

func rdN(d []byte, at, n int) (int, bool) {
	if at < 0 || at+n > len(d) {
		return 0, false
	}
	v := 0
	for i := 0; i < n; i++ {
		v = v<<8 | int(d[at+i])
	}
	return v, true
}

func walk(data []byte, nodes []msgNode) (map[string]*extent, error) {
	ext := map[string]*extent{}
	var kids func(par string, pos, end int) (int, error)
	kids = func(par string, pos, end int) (int, error) {
		for _, n := range nodes {
			if n.Par != par {
				continue
			}
			e := &extent{start: pos, lenAt: -1}
			ext[n.ID] = e
			switch n.K {
			case "hdr":
				l, ok := rdN(data, pos+1, 3)
				if !ok || pos+4+l != len(data) {
					return 0, fmt.Errorf("handshake header length %d does not frame the %d-byte message", l, len(data))
				}
				e.lenAt, e.lb, e.cstart, e.cend = pos+1, 3, pos+4, pos+4+l
				pos = pos + 4
			case "fix":
				e.cstart, e.cend = pos, pos+n.SZ
				if e.cend > end {
					return 0, fmt.Errorf("node %s: fixed field overruns its parent", n.ID)
				}
				pos = e.cend
			case "vec", "ext":
				if n.K == "ext" {
					tag, ok := rdN(data, pos, 2)
					if !ok || tag != n.Tag {
						return 0, fmt.Errorf("node %s: extension type %d where %d expected", n.ID, tag, n.Tag)
					}
					pos += 2
				}
				l, ok := rdN(data, pos, n.LB)
				if !ok || pos+n.LB+l > end {
					return 0, fmt.Errorf("node %s: length %d overruns its parent", n.ID, l)
				}
				e.lenAt, e.lb, e.cstart, e.cend = pos, n.LB, pos+n.LB, pos+n.LB+l
				hasKids := false
				for _, c := range nodes {
					hasKids = hasKids || c.Par == n.ID
				}
				if hasKids {
					p2, err := kids(n.ID, e.cstart, e.cend)
					if err != nil {
						return 0, err
					}
					if p2 != e.cend {
						return 0, fmt.Errorf("node %s: children end at %d, declared end %d", n.ID, p2, e.cend)
					}
				}
				pos = e.cend
			case "cnt":
				c, ok := rdN(data, pos, n.LB)
				if !ok {
					return 0, fmt.Errorf("node %s: count outside the message", n.ID)
				}
				e.lenAt, e.lb, e.cstart = pos, n.LB, pos+n.LB
				nk := 0
				for _, k := range nodes {
					if k.Par == n.ID {
						nk++
					}
				}
				if nk != c {
					return 0, fmt.Errorf("node %s: count %d for %d elements", n.ID, c, nk)
				}
				p2, err := kids(n.ID, e.cstart, end)
				if err != nil {
					return 0, err
				}
				e.cend = p2
				pos = p2
			case "rest":
				e.cstart, e.cend = pos, end
				pos = end
			default:
				return 0, fmt.Errorf("node %s: unknown kind %q", n.ID, n.K)
			}
		}
		return pos, nil
	}
	pos, err := kids("", 0, len(data))
	if err != nil {
		return nil, err
	}
	if pos != len(data) {
		return nil, fmt.Errorf("layout ends at %d of %d bytes", pos, len(data))
	}
	return ext, nil
}

// exact makes a copy whose capacity equals its length.
func exact(b []byte) []byte {
	c := make([]byte, len(b))
	copy(c, b)
	return c[:len(c):len(c)]
}

func parse(t string, preset map[string]interface{}, data []byte) (m interface{}, ok bool, ptxt string) {
	m, err := fresh(t, preset)
	if err != nil {
		return nil, false, "verif: " + err.Error()
	}
	d := exact(data)
	ptxt = vh.Guard(func() { ok = bfe_tls.VerifTlsrecUnmarshal(m, d) })
	return
}

func shapeSeed(seed int64, t string, pres []string, rep int) int64 {
	h := fnv.New64a()
	fmt.Fprintf(h, "%d|%s|%s|%d", seed, t, strings.Join(pres, ","), rep)
	return int64(h.Sum64() >> 1)
}

// roundTrip: unmarshal(marshal(m1)) must succeed, every field that was set must compare equal, the
// package's own equal() must agree, and marshalling the parsed message again must give the same bytes.
func roundTrip(t string, preset map[string]interface{}, m1 interface{}, set map[string]bool, data []byte) (why, p string) {
	m2, ok, p := parse(t, preset, data)
	switch {
	case p != "":
		why = "panic-unmarshal"
	case !ok:
		why = "unmarshal-false"
	default:
		names := make([]string, 0, len(set))
		for n := range set {
			names = append(names, n)
		}
		sort.Strings(names)
		for _, n := range names {
			a, _ := fld(m1, n)
			b, _ := fld(m2, n)
			if canon(a) != canon(b) {
				why = "field:" + n
				p = fmt.Sprintf("sent %s, parsed %s", canon(a), canon(b))
				break
			}
		}
		if why == "" {
			eq := false
			if p = vh.Guard(func() {
				bfe_tls.VerifTlsrecMarshal(m2) // fill the marshal cache, as the package's test does
				eq = bfe_tls.VerifTlsrecEqual(m1, m2)
			}); p != "" {
				why = "panic-equal"
			} else if !eq {
				why = "equal-false"
			}
		}
		if why == "" {
			// marshalling the parsed message from its fields must give the same bytes
			if rf, e := fld(m2, "raw"); e == nil {
				rf.Set(reflect.Zero(rf.Type()))
			}
			var again []byte
			if p = vh.Guard(func() { again = bfe_tls.VerifTlsrecMarshal(m2) }); p != "" {
				why = "panic-remarshal"
			} else if !bytes.Equal(again, data) {
				why = "remarshal-differs"
				p = fmt.Sprintf("first %x second %x", data, again)
			}
		}
	}
	return why, p
}

// opGen: the random choices of one operation depend only on (seed, shape, variant, operation),
// so that a replay file holding that single operation reproduces the same bytes.
func opGen(seed int64, sh *msgShape, rep int, op *msgOp) gen {
	h := fnv.New64a()
	fmt.Fprintf(h, "%d|%s|%s|%d|%s|%s|%s|%v", seed, sh.T, strings.Join(sh.Pres, ","), rep, op.K, op.Node, op.W, op.Framed)
	return gen{r: mrand.New(mrand.NewSource(int64(h.Sum64() >> 1)))}
}

type msgFail struct {
	ID     int         `json:"id"`
	OK     bool        `json:"ok"`
	Sig    string      `json:"sig"`
	Detail string      `json:"detail"`
	Case   interface{} `json:"case"`
}

func msgRun() {
	var total, skipped, shapes int
	vh.EachCase(func(line []byte) {
		var sh msgShape
		if err := json.Unmarshal(line, &sh); err != nil {
			fmt.Fprintln(os.Stderr, "bad case:", err)
			vh.Flush()
			os.Exit(2)
		}
		shapes++
		seed := vh.Seed()
		if sh.Seed != nil {
			seed = *sh.Seed
		}
		sort.Strings(sh.Pres)
		pres := map[string]bool{}
		for _, p := range sh.Pres {
			pres[p] = true
		}
		hasHdr := len(sh.Nodes) > 0 && sh.Nodes[0].K == "hdr"
		evals, skips := 0, 0
		fail := func(rep int, op *msgOp, sig, detail string) {
			c := map[string]interface{}{"t": sh.T, "pres": sh.Pres, "nodes": sh.Nodes, "reps": 1, "rep0": rep,
				"fuzz": 0, "seed": seed}
			if op != nil {
				c["ops"] = []msgOp{*op}
			} else {
				c["ops"] = []msgOp{}
				c["fuzz"] = sh.Fuzz
			}
			vh.Emit(msgFail{ID: sh.ID, Sig: sig, Detail: detail, Case: c})
		}
		machinery := func(msg string) {
			vh.Emit(map[string]interface{}{"id": sh.ID, "machinery": fmt.Sprintf("%s %v: %s", sh.T, sh.Pres, msg)})
		}
		for rep := sh.Rep0; rep < sh.Rep0+sh.Reps; rep++ {
			g := gen{r: mrand.New(mrand.NewSource(shapeSeed(seed, sh.T, sh.Pres, rep))), reg: map[string]vfield{}}
			m1, set, preset, err := build(sh.T, pres, g)
			if err != nil {
				machinery(err.Error())
				return
			}
			var data []byte
			if p := vh.Guard(func() { data = bfe_tls.VerifTlsrecMarshal(m1) }); p != "" {
				fail(rep, &msgOp{K: "rt", Framed: true, Expect: "accept"}, "rt/"+sh.T+"/panic-marshal", p)
				continue
			}
			data = exact(data)
			// the walk is needed for cuts and perturbations only; a failed walk is reported after the
			// round trip, which tells a marshal defect (violation) from a wrong layout in the spec
			ext, werr := walk(data, sh.Nodes)
			rtFailed := false
			for i := range sh.Ops {
				op := &sh.Ops[i]
				if op.K != "rt" && rtFailed {
					continue
				}
				if op.K != "rt" && werr != nil {
					machinery(fmt.Sprintf("marshalled bytes %x do not follow the layout of the spec: %v", data, werr))
					return
				}
				switch op.K {
				case "rt":
					evals++
					why, p := roundTrip(sh.T, preset, m1, set, data)
					if why != "" {
						rtFailed = true
						fail(rep, op, "rt/"+sh.T+"/"+why, fmt.Sprintf("%s pres=%v bytes=%x: %s", sh.T, sh.Pres, data, p))
					}
				case "size":
					// content of op.Node exactly as long as the class says: one descendant field is resized
					if rep != sh.Rep0 && (rep != sh.Rep0+1 || vh.Tier() == "quick") {
						continue // one variant (thorough: two) is resized
					}
					e, okn := ext[op.Node]
					if !okn {
						machinery("operation on unknown node " + op.Node)
						return
					}
					og := opGen(seed, &sh, rep, op)
					filler, need, target := sizePlan(sh.Nodes, ext, g.reg, op.Node, e, op.W, og)
					if filler == "" {
						skips++
						continue
					}
					g2 := gen{r: mrand.New(mrand.NewSource(shapeSeed(seed, sh.T, sh.Pres, rep))), reg: map[string]vfield{},
						ov: map[string]int{filler: need}}
					mb, setb, presetb, err := build(sh.T, pres, g2)
					if err != nil {
						machinery(err.Error())
						return
					}
					var big []byte
					if p := vh.Guard(func() { big = bfe_tls.VerifTlsrecMarshal(mb) }); p != "" {
						fail(rep, op, fmt.Sprintf("size/%s/%s/%s/panic-marshal", sh.T, op.Node, op.W), p)
						continue
					}
					big = exact(big)
					// the class is reached when the walk (or, if the marshalled bytes no longer follow the
					// layout, the arithmetic) says so; a failed walk here is for the round trip to explain
					have := ext[filler].cend - ext[filler].cstart
					if len(big) != len(data)+need-have {
						skips++ // another length moved with it (e.g. NPN padding): class not reachable
						continue
					}
					if ext2, e2 := walk(big, sh.Nodes); e2 == nil {
						if x := ext2[op.Node]; x.cend-x.cstart != target {
							skips++
							continue
						}
					}
					evals++
					if why, p := roundTrip(sh.T, presetb, mb, setb, big); why != "" {
						if d := os.Getenv("VERIF_DUMP"); d != "" {
							os.WriteFile(d, big, 0o644)
						}
						fail(rep, op, fmt.Sprintf("size/%s/%s/%s/%s", sh.T, op.Node, op.W, why),
							fmt.Sprintf("%s pres=%v: content of %s made %d bytes long (field %s = %d bytes), message of %d bytes starting %x: %s",
								sh.T, sh.Pres, op.Node, target, filler, need, len(big), big[:min(len(big), 24)], trunc(p, 300)))
					}
				case "cut", "pert":
					e, okn := ext[op.Node]
					if !okn {
						machinery("operation on unknown node " + op.Node)
						return
					}
					mut, note := mutate(data, e, op, hasHdr, opGen(seed, &sh, rep, op))
					if mut == nil {
						skips++
						continue
					}
					evals++
					_, ok, p := parse(sh.T, preset, mut)
					why := ""
					if p != "" {
						why = "panic"
					} else if op.Expect == "reject" && ok {
						why = "accepted"
					} else if op.Expect == "accept" && !ok {
						why = "refused"
					}
					if why != "" {
						fail(rep, op, fmt.Sprintf("%s/%s/%s/%s/%s", op.K, sh.T, op.Node, op.W, why),
							fmt.Sprintf("%s pres=%v %s %s/%s framed=%v (%s): original %x, parsed %x -> unmarshal=%v %s",
								sh.T, sh.Pres, op.K, op.Node, op.W, op.Framed, note, data, mut, ok, p))
					}
				}
			}
			// seeded mutations: nothing may panic
			g = opGen(seed, &sh, rep, &msgOp{K: "fuzz"})
			for k := 0; k < sh.Fuzz; k++ {
				mut := append([]byte(nil), data...)
				switch g.r.Intn(4) {
				case 0, 1:
					for j := 0; j < 1+g.r.Intn(3) && len(mut) > 0; j++ {
						mut[g.r.Intn(len(mut))] = byte(g.r.Intn(256))
					}
				case 2:
					if len(mut) > 0 {
						mut = mut[:g.r.Intn(len(mut))]
						for j := 0; j < g.r.Intn(2) && len(mut) > 0; j++ {
							mut[g.r.Intn(len(mut))] = byte(g.r.Intn(256))
						}
					}
				default:
					mut = make([]byte, g.r.Intn(120))
					g.r.Read(mut)
					if len(mut) > 0 && len(data) > 0 {
						mut[0] = data[0]
					}
				}
				evals++
				if _, _, p := parse(sh.T, preset, mut); p != "" {
					fail(rep, nil, "fuzz/"+sh.T+"/panic", fmt.Sprintf("%s parsing %x: %s", sh.T, mut, p))
					break
				}
			}
		}
		total += evals
		skipped += skips
		vh.Emit(map[string]interface{}{"id": sh.ID, "shape": true, "evals": evals, "skipped": skips})
	})
	vh.Emit(map[string]interface{}{"summary": true, "shapes": shapes, "evals": total, "skipped": skipped})
}

// mutate applies a cut or a length perturbation; nil when the concrete message has no room for it.
func mutate(data []byte, e *extent, op *msgOp, hasHdr bool, g gen) ([]byte, string) {
	if op.K == "cut" {
		off := -1
		clen := e.cend - e.cstart
		switch op.W {
		case "before":
			off = e.start
		case "intag":
			off = e.start + 1
		case "inlen":
			if e.lb >= 2 {
				off = e.lenAt + 1 + g.r.Intn(e.lb-1)
			}
		case "afterlen":
			if clen >= 1 && e.lenAt >= 0 {
				off = e.cstart
			}
		case "mid":
			if clen >= 2 {
				off = e.cstart + 1 + g.r.Intn(clen-1)
			}
		case "endm1":
			if clen >= 2 {
				off = e.cend - 1
			}
		}
		if off < 0 || off >= len(data) {
			return nil, ""
		}
		if op.Node == "hdr" {
			off = 0
			if op.W == "inlen" {
				off = 1 + g.r.Intn(3)
			}
			return append([]byte(nil), data[:off]...), fmt.Sprintf("cut at %d", off)
		}
		mut := append([]byte(nil), data[:off]...)
		if op.Framed && hasHdr {
			if off < 4 {
				return nil, ""
			}
			l := off - 4
			mut[1], mut[2], mut[3] = byte(l>>16), byte(l>>8), byte(l)
		}
		return mut, fmt.Sprintf("cut at %d of %d", off, len(data))
	}
	// pert
	if e.lenAt < 0 {
		return nil, ""
	}
	v, _ := rdN(data, e.lenAt, e.lb)
	max := 1<<(8*uint(e.lb)) - 1
	nv := -1
	switch op.W {
	case "plus1":
		if v+1 <= max {
			nv = v + 1
		}
	case "max":
		if v != max {
			nv = max
		}
	case "minus1":
		if v >= 1 {
			nv = v - 1
		}
	case "zero":
		if v > 0 {
			nv = 0
		}
	}
	if nv < 0 {
		return nil, ""
	}
	mut := append([]byte(nil), data...)
	for i := 0; i < e.lb; i++ {
		mut[e.lenAt+i] = byte(nv >> (8 * uint(e.lb-1-i)))
	}
	return mut, fmt.Sprintf("length at %d: %d -> %d", e.lenAt, v, nv)
}

func trunc(s string, n int) string {
	if len(s) > n {
		return s[:n] + "..."
	}
	return s
}

// sizePlan picks the descendant field of node that can be resized so that the content of node
// becomes a length of the class, and says how long that field must be.  "" when not reachable.
func sizePlan(nodes []msgNode, ext map[string]*extent, reg map[string]vfield, node string, e *extent, class string, g gen) (string, int, int) {
	par := map[string]string{}
	for _, n := range nodes {
		par[n.ID] = n.Par
	}
	within := func(id string) bool {
		if node == "hdr" {
			return true
		}
		for x := id; x != ""; x = par[x] {
			if x == node {
				return true
			}
		}
		return false
	}
	var lo, hi int
	switch class {
	case "c250":
		lo, hi = 250, 254
	case "c255":
		lo, hi = 255, 255
	case "c256":
		lo, hi = 256, 261
	case "c65530":
		lo, hi = 65530, 65534
	case "c65535":
		lo, hi = 65535, 65535
	case "c65536":
		lo, hi = 65536, 65541
	default:
		return "", 0, 0
	}
	cur := e.cend - e.cstart
	kind := map[string]msgNode{}
	for _, n := range nodes {
		kind[n.ID] = n
	}
	// growing a field grows every length-prefixed ancestor of it: all of them must have the room
	roomAbove := func(id string, delta int) bool {
		for x := par[id]; x != ""; x = par[x] {
			a, n := ext[x], kind[x]
			if a == nil || a.lenAt < 0 || n.K == "cnt" {
				continue
			}
			if a.cend-a.cstart+delta > 1<<(8*uint(a.lb))-1 {
				return false
			}
		}
		return true
	}
	start := lo + g.r.Intn(hi-lo+1)
	// candidates in wire order; the roomiest field that can hit a length of the class, then the last
	best, bestNeed, bestTarget := "", 0, 0
	for _, n := range nodes {
		f, ok := reg[n.ID]
		if !ok || ext[n.ID] == nil || !within(n.ID) {
			continue
		}
		if best != "" && f.max < reg[best].max {
			continue
		}
		have := ext[n.ID].cend - ext[n.ID].cstart
		for k := 0; k <= hi-lo; k++ {
			target := lo + (start-lo+k)%(hi-lo+1)
			need := have + target - cur
			if need >= f.lo && need <= f.max && need%f.unit == 0 && roomAbove(n.ID, need-have) {
				best, bestNeed, bestTarget = n.ID, need, target
				break
			}
		}
	}
	return best, bestNeed, bestTarget
}
