package main

func msgRun() {}
