package main

import (
	"encoding/json"
	"fmt"
	"os"
	"strconv"

	"github.com/bfenetworks/bfe/bfe_tls"

	"verifharness/vh"
)

// padCase is one element of Padding!Space as printed by GenPadding.
type padCase struct {
	ID   int    `json:"id"`
	Len  int    `json:"len"`
	P    int    `json:"p"`
	Bad  []int  `json:"bad"` // 1-based positions whose byte differs from p
	VC   string `json:"vc"`
	ExpP struct {
		Valid   bool `json:"valid"`
		Valid30 bool `json:"valid30"`
	} `json:"expP"`
	ExpM struct {
		Rm     int  `json:"rm"`
		Good   bool `json:"good"`
		Rm30   int  `json:"rm30"`
		Good30 bool `json:"good30"`
	} `json:"expM"`
}

// differ returns a byte different from p according to the value class.
func differ(p byte, vc string, r func() byte) byte {
	switch vc {
	case "x01":
		return p ^ 0x01
	case "x80":
		return p ^ 0x80
	case "xff":
		return p ^ 0xff
	default: // "rnd"
		for {
			b := r()
			if b != p {
				return b
			}
		}
	}
}

// build makes the concrete payload for (len, p, bad): every byte equals p except the bad ones.
func buildPayload(n, p int, bad []int, vc string, r func() byte) []byte {
	// exact capacity: any access outside the payload panics
	buf := make([]byte, n)
	pl := buf[:n:n]
	for i := range pl {
		pl[i] = byte(p)
	}
	for _, b := range bad {
		if b >= 1 && b <= n-1 {
			pl[b-1] = differ(byte(p), vc, r)
		}
	}
	return pl
}

type padObs struct {
	Rm    int  `json:"rm"`
	Good  int  `json:"good"` // the raw byte returned
	Panic bool `json:"panic,omitempty"`
}

func callPad(variant string, pl []byte) (o padObs, ptxt string) {
	cp := append(make([]byte, 0, len(pl)), pl...)
	ptxt = vh.Guard(func() {
		var g byte
		if variant == "ssl30" {
			o.Rm, g = bfe_tls.VerifTlsrecRemovePaddingSSL30(cp)
		} else {
			o.Rm, g = bfe_tls.VerifTlsrecRemovePadding(cp)
		}
		o.Good = int(g)
	})
	if ptxt != "" {
		o.Panic = true
	}
	return
}

// pclass / bclass: canonical shape of a failing input (signature).
func pclass(n, p int) string {
	switch {
	case n == 0:
		return "empty"
	case p == 255:
		return "255"
	case p+1 == n:
		return "whole"
	case p+1 > n:
		return "over"
	case p == 0:
		return "zero"
	case p == 254:
		return "254"
	}
	return "inner"
}

func bclass(n, p int, bad []int) string {
	lo := n - p
	if lo < 1 {
		lo = 1
	}
	in := []int{}
	for _, b := range bad {
		if b >= lo && b <= n-1 {
			in = append(in, b)
		}
	}
	switch {
	case len(in) == 0:
		return "none"
	case len(in) == 1 && in[0] == lo:
		return "first"
	case len(in) == 1 && in[0] == n-1:
		return "last"
	case len(in) == 1:
		return "middle"
	}
	return "several"
}

// judge compares one observation with the Layer-P expectation printed by TLC.
// good must be 255 (valid) or 0 (bad): the contract in the function's comment.
func judgePad(variant string, n, p int, bad []int, valid bool, o padObs) (why string) {
	if o.Panic {
		return "panic"
	}
	good := o.Good == 255
	switch {
	case o.Good != 255 && o.Good != 0:
		return "good-not-0-or-255"
	case good && !valid:
		return "accept-invalid"
	case !good && valid:
		return "reject-valid"
	case valid && o.Rm != p+1:
		return "wrong-remove"
	case o.Rm < 0 || o.Rm > n:
		return "remove-range"
	}
	return ""
}

func paddingReplay() {
	rnd := vh.Rand(43)
	rb := func() byte { return byte(rnd.Intn(256)) }
	n := 0
	vh.EachCase(func(line []byte) {
		var c padCase
		if err := json.Unmarshal(line, &c); err != nil {
			fmt.Fprintln(os.Stderr, "bad case:", err)
			vh.Flush()
			os.Exit(2)
		}
		n++
		pl := buildPayload(c.Len, c.P, c.Bad, c.VC, rb)
		for _, variant := range []string{"tls", "ssl30"} {
			valid := c.ExpP.Valid
			if variant == "ssl30" {
				valid = c.ExpP.Valid30
			}
			o, ptxt := callPad(variant, pl)
			why := judgePad(variant, c.Len, c.P, c.Bad, valid, o)
			res := vh.Result{ID: c.ID, OK: why == "", Obs: o}
			if why != "" {
				bc := bclass(c.Len, c.P, c.Bad)
				if variant == "ssl30" {
					bc = "any"
				}
				res.Sig = variant + "/" + why + "/p:" + pclass(c.Len, c.P) + "/bad:" + bc
				res.Detail = fmt.Sprintf("%s len=%d p=%d bad=%v vc=%s valid=%v -> removed=%d good=%d %s",
					variant, c.Len, c.P, c.Bad, c.VC, valid, o.Rm, o.Good, ptxt)
				res.Case = map[string]interface{}{"len": c.Len, "p": c.P, "bad": c.Bad, "vc": c.VC,
					"expP": c.ExpP, "expM": c.ExpM}
			} else if variant == "tls" && (o.Rm != c.ExpM.Rm || (o.Good == 255) != c.ExpM.Good) ||
				variant == "ssl30" && (o.Rm != c.ExpM.Rm30 || (o.Good == 255) != c.ExpM.Good30) {
				res.Drift = fmt.Sprintf("%s len=%d p=%d bad=%v: removed=%d good=%d, mechanism model says %+v",
					variant, c.Len, c.P, c.Bad, o.Rm, o.Good, c.ExpM)
			}
			if why != "" || res.Drift != "" || variant == "tls" {
				vh.Emit(res)
			}
		}
	})
	vh.Emit(map[string]interface{}{"summary": true, "cases": n})
}

// paddingSweep calls the real functions on every (length <= maxLen, p) pair, with no / one
// corrupted byte at the first, middle, last padding byte, just in front of the window and at
// payload byte 1, with data-like and all-p bytes in front of the window, and records one trace
// line per length for TracePadding.tla.
func paddingSweep() {
	maxLen := 300
	if len(os.Args) > 2 {
		if v, err := strconv.Atoi(os.Args[2]); err == nil {
			maxLen = v
		}
	}
	rnd := vh.Rand(4343)
	rb := func() byte { return byte(rnd.Intn(256)) }
	vcs := []string{"x01", "x80", "xff", "rnd"}
	calls := 0
	quick := vh.Tier() == "quick"
	for _, variant := range []string{"tls", "ssl30"} {
		for n := 0; n <= maxLen; n++ {
			rows := [][5]int{}
			seen := map[[3]int]bool{}
			pmax := 255
			if n == 0 {
				pmax = 0
			}
			for p := 0; p <= pmax; p++ {
				lo := n - p
				if lo < 1 {
					lo = 1
				}
				hi := n - 1
				cands := []int{0, lo, (lo + hi) / 2, hi, lo - 1, 1}
				if quick {
					cands = []int{0, lo, hi}
				}
				for _, b := range cands {
					if b != 0 && (b < 1 || b > n-1) {
						continue
					}
					for fill := 0; fill <= 1; fill++ {
						if fill == 1 && n-p-1 < 1 {
							continue // nothing in front of the window
						}
						if quick && (b == 0) != (fill == 1) && n-p-1 >= 1 {
							continue // quick: clean padding behind data-like bytes, corrupted padding behind p bytes
						}
						if variant == "ssl30" && (b != 0 && b != lo || fill == 1) {
							continue // contents are irrelevant for SSLv3: fewer rows
						}
						k := [3]int{p, b, fill}
						if seen[k] {
							continue
						}
						seen[k] = true
						bad := []int{}
						if b != 0 {
							bad = append(bad, b)
						}
						if fill == 1 {
							for i := 1; i <= n-p-1; i++ {
								if i != b {
									bad = append(bad, i)
								}
							}
						}
						vc := vcs[rnd.Intn(len(vcs))]
						if n == 0 {
							o, _ := callPad(variant, nil)
							rows = append(rows, [5]int{0, 0, 0, o.Rm, g01(o)})
							calls++
							continue
						}
						pl := buildPayload(n, p, bad, vc, rb)
						pl[n-1] = byte(p)
						o, _ := callPad(variant, pl)
						calls++
						rows = append(rows, [5]int{p, b, fill, o.Rm, g01(o)})
					}
				}
			}
			vh.Emit(map[string]interface{}{"v": variant, "len": n, "rows": rows})
		}
	}
	vh.Emit(map[string]interface{}{"summary": true, "calls": calls})
}

func g01(o padObs) int {
	if o.Panic {
		return 2
	}
	if o.Good == 255 {
		return 1
	}
	if o.Good == 0 {
		return 0
	}
	return 3 // neither 0 nor 255: judged as a wrong answer by the trace spec
}
