package main

func recordRun() {}
