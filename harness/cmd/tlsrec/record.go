package main

// C42: record-level man-in-the-middle between a TLS peer and the real bfe_tls connection.
//
//   sender  <--net.Pipe-->  MITM  <--net.Pipe-->  receiver
//
// The handshake is passed through untouched.  Then the sender writes N chunks; the MITM captures
// the application-data records, rewrites the wire as the TLC-generated case says (flip / drop /
// duplicate / replay / swap / truncate / inject), feeds it to the receiver and closes the
// transport.  Observed: the bytes Conn.Read handed out and the final error.

import (
	"bytes"
	"crypto/ecdsa"
	"crypto/elliptic"
	"crypto/rand"
	"crypto/rsa"
	"crypto/tls"
	"crypto/x509"
	"crypto/x509/pkix"
	"encoding/json"
	"errors"
	"fmt"
	"io"
	"math/big"
	mrand "math/rand"
	"net"
	"os"
	"strings"
	"sync"
	"time"

	"github.com/bfenetworks/bfe/bfe_tls"

	"verifharness/vh"
)

type wireRec struct {
	Src  int    `json:"src"`
	Mod  string `json:"mod"`
	Inj  string `json:"inj"`
	Part string `json:"part"`
}

type recCase struct {
	ID    int    `json:"id"`
	Combo string `json:"combo"` // peer/version/suite/dir, e.g. go/tls12/c02f/c2s
	N     int    `json:"n"`
	// PadAuth false: SSL 3.0 block cipher, padding not authenticated (Record.tla, PadAuth): only
	// "prefix of what was sent" and "ends in an error" are decisive
	PadAuth *bool                    `json:"padauth"`
	RSeed   int64                    `json:"rseed"` // seed of this case's concrete choices (chunk bytes, flipped bits, cut offsets)
	Wire    []wireRec                `json:"wire"`
	Acts    []map[string]interface{} `json:"acts"`
	ExpP    struct {
		Clean   int  `json:"clean"`
		RealErr bool `json:"realerr"`
		After   int  `json:"after"` // records Layer P lets later Reads deliver: 0
	} `json:"expP"`
	ExpM struct {
		Deliver int    `json:"deliver"`
		Err     string `json:"err"`
	} `json:"expM"`
}

type combo struct {
	peer  string // "go": crypto/tls client, "bfe": bfe_tls.Client, "raw": bfe_tls both ends, keyed without a handshake
	vers  uint16
	suite uint16
	dir   string // "c2s" (judged at the bfe server) | "s2c"
}

var versByName = map[string]uint16{"ssl30": 0x0300, "tls10": 0x0301, "tls11": 0x0302, "tls12": 0x0303}

func parseCombo(s string) (combo, error) {
	f := strings.Split(s, "/")
	if len(f) != 4 {
		return combo{}, fmt.Errorf("bad combo %q", s)
	}
	v, ok := versByName[f[1]]
	if !ok {
		return combo{}, fmt.Errorf("bad version in combo %q", s)
	}
	var id uint16
	if _, err := fmt.Sscanf(f[2], "%x", &id); err != nil {
		return combo{}, fmt.Errorf("bad suite in combo %q", s)
	}
	if f[0] != "go" && f[0] != "bfe" && f[0] != "raw" || f[3] != "c2s" && f[3] != "s2c" {
		return combo{}, fmt.Errorf("bad combo %q", s)
	}
	return combo{f[0], v, id, f[3]}, nil
}

// suite family facts (public knowledge from the RFCs, used only to aim the flips)
type suiteShape struct {
	kind  string // aead | cbc | stream
	block int    // CBC block size
	tail  int    // tag / MAC length at the end of a non-CBC record
}

func shapeOf(id uint16) suiteShape {
	switch id {
	case 0xc02f, 0xc02b, 0xcca8, 0xcca9:
		return suiteShape{"aead", 0, 16}
	case 0x0005, 0xc007, 0xc011:
		return suiteShape{"stream", 0, 20}
	case 0x000a, 0xc012:
		return suiteShape{"cbc", 8, 20}
	case 0xe019:
		return suiteShape{"cbc", 16, 32}
	}
	return suiteShape{"cbc", 16, 20}
}

func isECDSA(id uint16) bool {
	switch id {
	case 0xc007, 0xc009, 0xc00a, 0xc02b, 0xcca9:
		return true
	}
	return false
}

// ---------------------------------------------------------------- certificates
var (
	certOnce      sync.Once
	rsaDER, ecDER []byte
	rsaKey        *rsa.PrivateKey
	ecKey         *ecdsa.PrivateKey
	certErr       error
)

func makeCerts() {
	certOnce.Do(func() {
		tmpl := &x509.Certificate{
			SerialNumber: big.NewInt(42), Subject: pkix.Name{CommonName: "verif.test"},
			NotBefore: time.Now().Add(-time.Hour), NotAfter: time.Now().Add(24 * time.Hour),
			KeyUsage:    x509.KeyUsageDigitalSignature | x509.KeyUsageKeyEncipherment,
			ExtKeyUsage: []x509.ExtKeyUsage{x509.ExtKeyUsageServerAuth}, DNSNames: []string{"verif.test"},
			BasicConstraintsValid: true,
		}
		rsaKey, certErr = rsa.GenerateKey(rand.Reader, 2048)
		if certErr != nil {
			return
		}
		rsaDER, certErr = x509.CreateCertificate(rand.Reader, tmpl, tmpl, &rsaKey.PublicKey, rsaKey)
		if certErr != nil {
			return
		}
		ecKey, certErr = ecdsa.GenerateKey(elliptic.P256(), rand.Reader)
		if certErr != nil {
			return
		}
		ecDER, certErr = x509.CreateCertificate(rand.Reader, tmpl, tmpl, &ecKey.PublicKey, ecKey)
	})
}

type noProtos struct{}

func (noProtos) Get(c *bfe_tls.Conn) []string { return nil }

type fixedRule struct{ r *bfe_tls.Rule }

func (f fixedRule) Get(c *bfe_tls.Conn) *bfe_tls.Rule { return f.r }

func serverConfig(cb combo) *bfe_tls.Config {
	cert := bfe_tls.Certificate{Certificate: [][]byte{rsaDER}, PrivateKey: rsaKey}
	if isECDSA(cb.suite) {
		cert = bfe_tls.Certificate{Certificate: [][]byte{ecDER}, PrivateKey: ecKey}
	}
	return &bfe_tls.Config{
		Certificates:           []bfe_tls.Certificate{cert},
		CipherSuites:           []uint16{cb.suite},
		MinVersion:             bfe_tls.VersionSSL30,
		MaxVersion:             bfe_tls.VersionTLS12,
		SessionTicketsDisabled: true,
		ServerRule:             fixedRule{&bfe_tls.Rule{NextProtos: noProtos{}, Grade: bfe_tls.GradeC, Chacha20: true}},
	}
}

// ---------------------------------------------------------------- the man in the middle
type rawRecord []byte // header + body exactly as seen on the wire

func readRawRecord(r io.Reader) (rawRecord, error) {
	hdr := make([]byte, 5)
	if _, err := io.ReadFull(r, hdr); err != nil {
		return nil, err
	}
	n := int(hdr[3])<<8 | int(hdr[4])
	rec := make([]byte, 5+n)
	copy(rec, hdr)
	if _, err := io.ReadFull(r, rec[5:]); err != nil {
		return nil, err
	}
	return rec, nil
}

type pump struct {
	mu       sync.Mutex
	mode     string      // pass | capture | discard
	hs       []rawRecord // records seen while passing (handshake phase)
	captured []rawRecord
	done     chan struct{}
}

func (p *pump) setMode(m string) { p.mu.Lock(); p.mode = m; p.mu.Unlock() }

func (p *pump) run(src io.Reader, dst io.Writer) {
	defer close(p.done)
	for {
		rec, err := readRawRecord(src)
		if err != nil {
			return
		}
		p.mu.Lock()
		m := p.mode
		switch m {
		case "pass":
			p.hs = append(p.hs, rec)
		case "capture":
			p.captured = append(p.captured, rec)
		}
		p.mu.Unlock()
		if m == "pass" {
			if _, err := dst.Write(rec); err != nil {
				return
			}
		}
	}
}

type tlsEnd interface {
	net.Conn
	Handshake() error
}

type session struct {
	cb             combo
	client, server tlsEnd
	pipes          []net.Conn
	c2s, s2c       *pump
	mB, mA         net.Conn
}

func (s *session) closeAll() {
	for _, p := range s.pipes {
		p.Close()
	}
}

func connect(cb combo) (*session, error) {
	makeCerts()
	if certErr != nil {
		return nil, certErr
	}
	cA, mA := net.Pipe()
	mB, sB := net.Pipe()
	s := &session{cb: cb, pipes: []net.Conn{cA, mA, mB, sB}, mA: mA, mB: mB,
		c2s: &pump{mode: "pass", done: make(chan struct{})},
		s2c: &pump{mode: "pass", done: make(chan struct{})}}
	if cb.peer == "raw" {
		// SSL 3.0 has no peer that can shake hands with the server here: both ends are bfe_tls
		// record layers keyed through the package's own key schedule (overlay export)
		secret := make([]byte, 48+32+32)
		rand.Read(secret)
		cl, sv, err := bfe_tls.VerifTlsrecKeyedPair(cA, sB, cb.vers, cb.suite, secret[:48], secret[48:80], secret[80:])
		if err != nil {
			s.closeAll()
			return nil, err
		}
		s.client, s.server = cl, sv
		go s.c2s.run(mA, mB)
		go s.s2c.run(mB, mA)
		return s, nil
	}
	s.server = bfe_tls.Server(sB, serverConfig(cb))
	if cb.peer == "go" {
		s.client = tls.Client(cA, &tls.Config{InsecureSkipVerify: true, ServerName: "verif.test",
			MinVersion: cb.vers, MaxVersion: cb.vers, CipherSuites: []uint16{cb.suite},
			SessionTicketsDisabled: true})
	} else {
		s.client = bfe_tls.Client(cA, &bfe_tls.Config{InsecureSkipVerify: true, ServerName: "verif.test",
			MinVersion: cb.vers, MaxVersion: cb.vers, CipherSuites: []uint16{cb.suite},
			SessionTicketsDisabled: true})
	}
	go s.c2s.run(mA, mB)
	go s.s2c.run(mB, mA)
	errs := make(chan error, 2)
	go func() { errs <- s.server.Handshake() }()
	go func() { errs <- s.client.Handshake() }()
	var first error
	for i := 0; i < 2; i++ {
		select {
		case e := <-errs:
			if e != nil && first == nil {
				first = e
				s.closeAll()
			}
		case <-time.After(20 * time.Second):
			s.closeAll()
			return nil, errors.New("handshake timed out")
		}
	}
	if first != nil {
		return nil, fmt.Errorf("handshake failed: %v", first)
	}
	return s, nil
}

func negotiated(s *session) (uint16, uint16) {
	switch c := s.server.(type) {
	case *bfe_tls.Conn:
		st := c.ConnectionState()
		return st.Version, st.CipherSuite
	}
	return 0, 0
}

// chunk i of the application stream: position-dependent bytes, so that reordered, duplicated or
// modified data can never look like a prefix.
func chunkBytes(i, size int, seed int64) []byte {
	r := mrand.New(mrand.NewSource(seed*7919 + int64(i)*104729 + 17))
	b := make([]byte, size)
	r.Read(b)
	b[0] = byte(i)
	return b
}

func classify(err error) string {
	if err == nil {
		return "none"
	}
	if err == io.EOF {
		return "eof"
	}
	if err == io.ErrUnexpectedEOF {
		return "ueof"
	}
	m := strings.ToLower(err.Error())
	switch {
	case strings.Contains(m, "bad record mac"):
		return "mac"
	case strings.Contains(m, "protocol version") || strings.Contains(m, "record with version"):
		return "version"
	case strings.Contains(m, "record overflow") || strings.Contains(m, "oversized record"):
		return "overflow"
	case strings.Contains(m, "unexpected message"):
		return "unexpected"
	case strings.Contains(m, "no renegotiation"):
		return "noreneg"
	case strings.Contains(m, "unexpected eof"):
		return "ueof"
	case strings.Contains(m, "closed pipe") || strings.Contains(m, "closed network"):
		return "closed"
	case m == "eof":
		return "eof"
	}
	return "other"
}

type runObs struct {
	Delivered  int    `json:"delivered"`       // bytes handed to the application
	Reads      []int  `json:"reads,omitempty"` // sizes of the successful reads
	PrefixOK   bool   `json:"prefix_ok"`       // delivered bytes are a prefix of the sent stream
	Err        string `json:"err"`             // final error text
	Class      string `json:"class"`           // its class
	Records    int    `json:"records"`         // application records captured
	Version    string `json:"version,omitempty"`
	Suite      string `json:"suite,omitempty"`
	Panic      string `json:"panic,omitempty"`       // the connection under test panicked
	After      int    `json:"after"`                 // bytes handed out by Read calls made after the first error
	AfterHex   string `json:"after_hex,omitempty"`   // the beginning of them
	LaterNil   int    `json:"later_nil"`             // later Read calls that returned a nil error
	WriteAfter string `json:"write_after,omitempty"` // class of the error of a Write after the read error
}

// runWire performs one behaviour.  wire == nil means the identity (all captured records forwarded).
func runWire(cb combo, n int, wire []wireRec, rnd *mrand.Rand, seed int64) (obs runObs, sent []byte, recs []rawRecord, err error) {
	s, err := connect(cb)
	if err != nil {
		return obs, nil, nil, err
	}
	defer s.closeAll()
	v, su := negotiated(s)
	obs.Version, obs.Suite = fmt.Sprintf("%04x", v), fmt.Sprintf("%04x", su)
	if v != cb.vers || su != cb.suite {
		return obs, nil, nil, fmt.Errorf("negotiated %04x/%04x, wanted %04x/%04x", v, su, cb.vers, cb.suite)
	}
	var sender, receiver tlsEnd
	var fwd, back *pump
	var toReceiver net.Conn
	if cb.dir == "c2s" {
		sender, receiver, fwd, back, toReceiver = s.client, s.server, s.c2s, s.s2c, s.mB
	} else {
		sender, receiver, fwd, back, toReceiver = s.server, s.client, s.s2c, s.c2s, s.mA
	}
	fwd.setMode("capture")
	back.setMode("discard")
	// the sender writes n chunks (at least n records) and closes its end of the transport
	sizes := []int{37, 300, 16, 129, 5, 64}
	for i := 1; i <= n; i++ {
		c := chunkBytes(i, sizes[(i-1)%len(sizes)], seed)
		sent = append(sent, c...)
		var werr error
		if p := vh.Guard(func() { _, werr = sender.Write(c) }); p != "" {
			if cb.peer == "go" && cb.dir == "c2s" {
				return obs, nil, nil, fmt.Errorf("crypto/tls Write panicked: %s", p)
			}
			obs.Panic = "Conn.Write: " + p
			return obs, sent, nil, nil
		}
		if werr != nil {
			return obs, nil, nil, fmt.Errorf("sender write failed: %v", werr)
		}
	}
	// closing the sender's transport ends the capture loop once everything has been read
	if cb.dir == "c2s" {
		s.pipes[0].Close()
	} else {
		s.pipes[3].Close()
	}
	select {
	case <-fwd.done:
	case <-time.After(10 * time.Second):
		return obs, nil, nil, errors.New("capture did not finish")
	}
	recs = fwd.captured
	obs.Records = len(recs)
	if len(recs) < n {
		return obs, nil, nil, fmt.Errorf("captured %d records for %d writes", len(recs), n)
	}
	for _, r := range recs {
		if r[0] != 23 {
			return obs, nil, nil, fmt.Errorf("captured a record of type %d", r[0])
		}
	}
	recs = recs[:n]
	var hsFin rawRecord
	for _, r := range fwd.hs {
		if r[0] == 22 {
			hsFin = r
		}
	}
	stream, berr := buildWire(cb, recs, wire, hsFin, rnd)
	if berr != nil {
		return obs, nil, nil, berr
	}
	// feed the receiver and close the transport behind the last byte
	go func() {
		toReceiver.Write(stream)
		toReceiver.Close()
	}()
	var got []byte
	buf := make([]byte, 1<<16)
	var rerr error
	// only the calls into the connection under test run under recover: a panic anywhere else
	// in this harness must crash it (machinery failure), never count as a verdict
	if p := vh.Guard(func() {
		for rerr == nil {
			var k int
			k, rerr = receiver.Read(buf)
			if k > 0 {
				got = append(got, buf[:k]...)
				obs.Reads = append(obs.Reads, k)
			}
			if len(obs.Reads) > 4*n+100 {
				rerr = errors.New("verif: receiver keeps delivering")
			}
		}
	}); p != "" {
		if cb.peer == "go" && cb.dir == "s2c" {
			return obs, nil, nil, fmt.Errorf("crypto/tls Read panicked: %s", p)
		}
		obs.Panic = "Conn.Read: " + p
		return obs, sent, recs, nil
	}
	obs.Delivered = len(got)
	obs.PrefixOK = len(got) <= len(sent) && bytes.Equal(got, sent[:len(got)])
	obs.Err = rerr.Error()
	obs.Class = classify(rerr)
	// the application asks again (Record!ReadAgain): the error must stay and nothing may come out
	if p := vh.Guard(func() {
		for i := 0; i < postReads; i++ {
			k, e := receiver.Read(buf)
			obs.After += k
			if k > 0 && len(obs.AfterHex) < 64 {
				obs.AfterHex += fmt.Sprintf("%x", buf[:min(k, 32-len(obs.AfterHex)/2)])
			}
			if e == nil {
				obs.LaterNil++
			}
		}
		// ... and tries to answer (diagnostic only: after a fatal alert the sending half is closed too)
		_, e := receiver.Write([]byte("verif: write after the read error"))
		obs.WriteAfter = classify(e)
	}); p != "" {
		if cb.peer == "go" && cb.dir == "s2c" {
			return obs, nil, nil, fmt.Errorf("crypto/tls panicked after its error: %s", p)
		}
		obs.Panic = "Conn.Read/Write after the error: " + p
	}
	return obs, sent, recs, nil
}

// further Read calls after the first error (the spec's MaxPost)
var postReads = 3

// buildWire turns the abstract wire of the case into bytes.
func buildWire(cb combo, recs []rawRecord, wire []wireRec, hsFin rawRecord, rnd *mrand.Rand) ([]byte, error) {
	var out []byte
	if wire == nil {
		for _, r := range recs {
			out = append(out, r...)
		}
		return out, nil
	}
	sh := shapeOf(cb.suite)
	vmaj, vmin := byte(cb.vers>>8), byte(cb.vers)
	for _, w := range wire {
		var r []byte
		switch {
		case w.Inj != "none":
			switch w.Inj {
			case "garbage":
				r = append([]byte(nil), recs[0]...)
				rnd.Read(r[5:])
			case "plainalert":
				r = []byte{21, vmaj, vmin, 0, 2, 1, 0}
			case "empty":
				r = []byte{23, vmaj, vmin, 0, 0}
			case "ccs":
				r = []byte{20, vmaj, vmin, 0, 1, 1}
			case "hsfinished":
				if hsFin == nil {
					return nil, errors.New("no handshake record captured to replay")
				}
				r = append([]byte(nil), hsFin...)
			default:
				return nil, fmt.Errorf("unknown inject kind %q", w.Inj)
			}
		case w.Src >= 1 && w.Src <= len(recs):
			r = append([]byte(nil), recs[w.Src-1]...)
		default:
			return nil, fmt.Errorf("wire refers to record %d", w.Src)
		}
		n := len(r) - 5
		pick := func(opts ...byte) byte { return opts[rnd.Intn(len(opts))] }
		idx := -1
		switch w.Mod {
		case "none":
		case "type":
			r[0] ^= pick(0x01, 0x02, 0x03)
		case "vmaj":
			r[1] ^= pick(0x01, 0x02)
		case "vmin":
			r[2] ^= pick(0x01, 0x02, 0x03)
		case "lenhi":
			r[3] ^= 0x01
		case "lenlo":
			r[4] ^= pick(0x01, 0x08, 0x10)
		case "lenover":
			r[3] |= 0x80
		case "first":
			idx = 0
		case "mid":
			idx = n / 2
		case "macstart":
			if sh.kind == "cbc" {
				idx = n - sh.block
			} else {
				idx = n - sh.tail
			}
		case "pad":
			if sh.kind == "cbc" {
				idx = n - 1 - sh.block
			} else {
				idx = n - 2
			}
		case "last":
			idx = n - 1
		default:
			return nil, fmt.Errorf("unknown region %q", w.Mod)
		}
		if idx >= 0 {
			if idx >= n {
				return nil, fmt.Errorf("region %s outside a %d-byte record body", w.Mod, n)
			}
			r[5+idx] ^= pick(0x01, 0x80, 0x10, 0xff)
		}
		switch w.Part {
		case "full":
		case "header":
			r = r[:1+rnd.Intn(4)]
		case "body":
			if n < 1 {
				return nil, errors.New("cannot cut inside an empty record body")
			}
			r = r[:5+rnd.Intn(n)]
		default:
			return nil, fmt.Errorf("unknown part %q", w.Part)
		}
		out = append(out, r...)
	}
	return out, nil
}

// calibration: plaintext bytes carried by each of the first n records of a combo (identity run)
var (
	calibMu sync.Mutex
	calib   = map[string]*calibEntry{}
)

type calibEntry struct {
	once  sync.Once
	sizes []int
	err   error
}

func calibrate(cb combo, key string, n int, seed int64) ([]int, error) {
	k := fmt.Sprintf("%s#%d", key, n)
	calibMu.Lock()
	e := calib[k]
	if e == nil {
		e = &calibEntry{}
		calib[k] = e
	}
	calibMu.Unlock()
	e.once.Do(func() {
		rnd := mrand.New(mrand.NewSource(1))
		obs, sent, _, err := runWire(cb, n, nil, rnd, seed)
		switch {
		case err != nil:
			e.err = err
		case obs.Panic != "":
			e.err = fmt.Errorf("untampered stream: %s", obs.Panic)
		case !obs.PrefixOK || len(obs.Reads) != n:
			e.err = fmt.Errorf("untampered stream: %d reads for %d records, prefix_ok=%v, err=%s (delivered %d of %d bytes)",
				len(obs.Reads), n, obs.PrefixOK, obs.Err, obs.Delivered, len(sent))
		case obs.Class != "eof" && obs.Class != "ueof" && obs.Class != "closed":
			e.err = fmt.Errorf("untampered stream ended with %q", obs.Err)
		default:
			e.sizes = obs.Reads
		}
	})
	return e.sizes, e.err
}

// what the mechanism model's error class may look like on the real connections (diagnostic only)
var mClasses = map[string][]string{
	"mac":      {"mac", "noreneg", "unexpected"},
	"lenerr":   {"mac", "ueof", "overflow", "noreneg", "unexpected"},
	"version":  {"version"},
	"overflow": {"overflow"},
	"ueof":     {"ueof"},
	"eof":      {"eof"},
}

func recordRun() {
	seed := vh.Seed()
	count := 0
	// the cases are independent connections: run them on a few workers
	work := make(chan recCase, 64)
	var wg sync.WaitGroup
	for w := 0; w < 6; w++ {
		wg.Add(1)
		go func() {
			defer wg.Done()
			for c := range work {
				recordOne(c, seed)
			}
		}()
	}
	vh.EachCase(func(line []byte) {
		var c recCase
		if err := json.Unmarshal(line, &c); err != nil {
			fmt.Fprintln(os.Stderr, "bad case:", err)
			vh.Flush()
			os.Exit(2)
		}
		count++
		work <- c
	})
	close(work)
	wg.Wait()
	vh.Emit(map[string]interface{}{"summary": true, "cases": count})
}

func recordOne(c recCase, seed int64) {
	{
		cb, err := parseCombo(c.Combo)
		if err != nil {
			vh.Emit(map[string]interface{}{"id": c.ID, "machinery": err.Error()})
			return
		}
		var sizes []int
		var obs runObs
		var runErr error
		attempt := func(limit time.Duration) (string, bool) {
			var sz []int
			var ob runObs
			var re error
			p, f := vh.GuardTimeout(limit, func() {
				sz, re = calibrate(cb, c.Combo, c.N, seed)
				if re != nil {
					return
				}
				rs := c.RSeed
				if rs == 0 {
					rs = seed*1000003 + int64(c.ID)
				}
				rnd := mrand.New(mrand.NewSource(rs))
				ob, _, _, re = runWire(cb, c.N, c.Wire, rnd, seed)
			})
			if f {
				sizes, obs, runErr = sz, ob, re
			}
			return p, f
		}
		// a case is a few milliseconds of work; the watchdog is generous and a first expiry (an
		// overloaded machine) is retried once with a much longer limit before it counts as a hang
		ptxt, fin := attempt(60 * time.Second)
		if !fin {
			ptxt, fin = attempt(300 * time.Second)
		}
		shape := shapeSig(c)
		res := vh.Result{ID: c.ID, Obs: obs}
		switch {
		case ptxt != "":
			// not inside a call into the connection under test: a defect of this harness
			vh.Emit(map[string]interface{}{"id": c.ID, "machinery": c.Combo + ": harness panic: " + ptxt})
			return
		case runErr == nil && obs.Panic != "":
			res.Sig, res.Detail = "panic/"+c.Combo+"/"+shape, obs.Panic
		case !fin:
			res.Sig, res.Detail = "hang/"+c.Combo+"/"+shape, "no result within 60 s and, retried, within 300 s"
		case runErr != nil:
			vh.Emit(map[string]interface{}{"id": c.ID, "machinery": c.Combo + ": " + runErr.Error()})
			return
		default:
			cum := func(k int) int {
				t := 0
				for i := 0; i < k && i < len(sizes); i++ {
					t += sizes[i]
				}
				return t
			}
			padAuth := c.PadAuth == nil || *c.PadAuth
			why := ""
			switch {
			case !obs.PrefixOK:
				why = "not-a-prefix"
			case padAuth && obs.Delivered > cum(c.ExpP.Clean):
				why = "delivered-past-tamper"
			case obs.Class == "none":
				why = "no-error"
			case obs.After > c.ExpP.After:
				why = "data-after-error"
			case obs.LaterNil > 0:
				why = "error-not-sticky"
			case padAuth && c.ExpP.RealErr && obs.Class == "eof":
				why = "tamper-reported-as-eof"
			}
			if why != "" {
				res.Sig = why + "/" + c.Combo + "/" + shape
				res.Detail = fmt.Sprintf("combo %s wire %s: delivered %d bytes (clean prefix = %d records = %d bytes, record sizes %v), prefix_ok=%v, error %q",
					c.Combo, wireText(c.Wire), obs.Delivered, c.ExpP.Clean, cum(c.ExpP.Clean), sizes, obs.PrefixOK, obs.Err) +
					fmt.Sprintf("; %d further Reads handed out %d bytes (%s...) and %d of them returned a nil error", postReads, obs.After, obs.AfterHex, obs.LaterNil)
			} else {
				okClass := false
				for _, k := range mClasses[c.ExpM.Err] {
					okClass = okClass || k == obs.Class
				}
				if cb.peer == "go" && cb.dir == "s2c" && c.ExpM.Err == "eof" && obs.Class == "ueof" {
					okClass = true // crypto/tls as the receiver reports a lost tail as unexpected EOF
				}
				if padAuth && (obs.Delivered != cum(c.ExpM.Deliver) || !okClass) {
					res.Drift = fmt.Sprintf("%s wire %s: delivered %d bytes / error class %s, mechanism model says %d bytes / %s",
						c.Combo, wireText(c.Wire), obs.Delivered, obs.Class, cum(c.ExpM.Deliver), c.ExpM.Err)
				}
			}
		}
		res.OK = res.Sig == ""
		if !res.OK {
			res.Case = c
		}
		vh.Emit(res)
	}
}

// canonical shape of the first non-authentic wire element (signature)
func shapeSig(c recCase) string {
	for i, w := range c.Wire {
		if w.Src == i+1 && w.Mod == "none" && w.Inj == "none" && w.Part == "full" {
			continue
		}
		switch {
		case w.Inj != "none":
			return "inject:" + w.Inj
		case w.Part != "full":
			return "truncate:" + w.Part
		case w.Mod != "none":
			return "flip:" + w.Mod
		case w.Src <= i:
			return "replayed-record"
		default:
			return "skipped-record"
		}
	}
	if len(c.Wire) < c.N {
		return "tail-loss"
	}
	return "untampered"
}

func wireText(w []wireRec) string {
	var b strings.Builder
	for i, r := range w {
		if i > 0 {
			b.WriteByte(' ')
		}
		switch {
		case r.Inj != "none":
			b.WriteString("<" + r.Inj + ">")
		default:
			fmt.Fprintf(&b, "r%d", r.Src)
			if r.Mod != "none" {
				b.WriteString("~" + r.Mod)
			}
			if r.Part != "full" {
				b.WriteString("|" + r.Part)
			}
		}
	}
	return "[" + b.String() + "]"
}
