package main

// C43 through the record layer: a sender that holds the keys (bfe_tls record layer keyed by the
// overlay export, no handshake) emits one CBC record with a correct MAC and the padding bytes of
// the case; the real receiving Conn decides.  Expectation (delivered or refused) comes from
// specs/Tls/GenPaddingRec.tla.

import (
	"bytes"
	"crypto/rand"
	"encoding/json"
	"fmt"
	"io"
	mrand "math/rand"
	"net"
	"os"

	"github.com/bfenetworks/bfe/bfe_tls"

	"verifharness/vh"
)

type padRecCase struct {
	ID    int    `json:"id"`
	Ver   string `json:"ver"`
	Suite string `json:"suite"`
	P     int    `json:"p"`
	Bad   string `json:"bad"`
	RSeed int64  `json:"rseed"`
	ExpP  struct {
		Accept bool `json:"accept"`
		Gray   bool `json:"gray"`
	} `json:"expP"`
	ExpM struct {
		Accept bool `json:"accept"`
	} `json:"expM"`
}

type padRecObs struct {
	Delivered int    `json:"delivered"`
	DataOK    bool   `json:"data_ok"`
	Err       string `json:"err"`
	Class     string `json:"class"`
	Panic     string `json:"panic,omitempty"`
}

func paddingRecord() {
	n := 0
	vh.EachCase(func(line []byte) {
		var c padRecCase
		if err := json.Unmarshal(line, &c); err != nil {
			fmt.Fprintln(os.Stderr, "bad case:", err)
			vh.Flush()
			os.Exit(2)
		}
		n++
		mach := func(msg string) {
			vh.Emit(map[string]interface{}{"id": c.ID, "machinery": fmt.Sprintf("%s/%s p=%d %s: %s", c.Ver, c.Suite, c.P, c.Bad, msg)})
		}
		vers, ok := versByName[c.Ver]
		var suite uint16
		if _, err := fmt.Sscanf(c.Suite, "%x", &suite); err != nil || !ok {
			mach("bad version or suite")
			return
		}
		sh := shapeOf(suite)
		if sh.kind != "cbc" {
			mach("not a CBC suite")
			return
		}
		rnd := mrand.New(mrand.NewSource(c.RSeed))
		// padding bytes: p times p, then the length byte p; corrupted as the class says
		pad := bytes.Repeat([]byte{byte(c.P)}, c.P+1)
		diff := []byte{0x01, 0x80, 0xff, 0x10}[rnd.Intn(4)]
		switch c.Bad {
		case "none":
		case "first":
			pad[0] ^= diff
		case "middle":
			pad[(c.P-1)/2] ^= diff
		case "last":
			pad[c.P-1] ^= diff
		case "all":
			for i := 0; i < c.P; i++ {
				pad[i] ^= diff
			}
		default:
			mach("unknown corruption class")
			return
		}
		if c.Bad != "none" && c.P < 1 {
			mach("no padding byte to corrupt")
			return
		}
		dlen := 1 + rnd.Intn(3)*sh.block
		for (dlen+sh.tail+c.P+1)%sh.block != 0 {
			dlen++
		}
		data := make([]byte, dlen)
		rnd.Read(data)
		secret := make([]byte, 48+32+32+sh.block)
		rand.Read(secret)
		c1, c2 := net.Pipe()
		defer c1.Close()
		defer c2.Close()
		cl, sv, err := bfe_tls.VerifTlsrecKeyedPair(c1, c2, vers, suite, secret[:48], secret[48:80], secret[80:112])
		if err != nil {
			mach(err.Error())
			return
		}
		rec, err := bfe_tls.VerifTlsrecForgeCBC(cl, data, pad, secret[112:])
		if err != nil {
			mach(err.Error())
			return
		}
		go func() {
			c1.Write(rec)
			c1.Close()
		}()
		var o padRecObs
		var got []byte
		buf := make([]byte, 1<<15)
		var rerr error
		o.Panic = vh.Guard(func() {
			for i := 0; rerr == nil && i < 8; i++ {
				var k int
				k, rerr = sv.Read(buf)
				got = append(got, buf[:k]...)
			}
		})
		if rerr == nil {
			rerr = io.ErrNoProgress
		}
		o.Delivered, o.DataOK, o.Err, o.Class = len(got), bytes.Equal(got, data), rerr.Error(), classify(rerr)
		why := ""
		switch {
		case o.Panic != "":
			why = "panic"
		case c.ExpP.Gray:
		case c.ExpP.Accept && len(got) == 0:
			why = "reject-valid"
		case c.ExpP.Accept && !o.DataOK:
			why = "wrong-fragment"
		case !c.ExpP.Accept && len(got) > 0:
			why = "accept-invalid"
		case !c.ExpP.Accept && (o.Class == "eof" || o.Class == "none"):
			why = "invalid-not-reported"
		}
		res := vh.Result{ID: c.ID, OK: why == "", Obs: o}
		if why != "" {
			pc := "inner"
			switch {
			case c.P == 0:
				pc = "zero"
			case c.P == 255:
				pc = "255"
			case c.P == 254:
				pc = "254"
			case c.P >= sh.block:
				pc = "multiblock"
			}
			res.Sig = fmt.Sprintf("rec/%s/%s/%s/p:%s/bad:%s", c.Ver, c.Suite, why, pc, c.Bad)
			res.Detail = fmt.Sprintf("%s suite %s: record with correct MAC, %d-byte fragment, padding %x -> delivered %d bytes (fragment intact: %v), error %q %s",
				c.Ver, c.Suite, dlen, pad, len(got), o.DataOK, o.Err, o.Panic)
			res.Case = c
		} else if !c.ExpP.Gray && c.ExpM.Accept != (len(got) > 0) {
			res.Drift = fmt.Sprintf("%s/%s p=%d %s: delivered=%v, mechanism model says %v", c.Ver, c.Suite, c.P, c.Bad, len(got) > 0, c.ExpM.Accept)
		}
		vh.Emit(res)
	})
	vh.Emit(map[string]interface{}{"summary": true, "cases": n})
}
