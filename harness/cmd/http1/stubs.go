package main

func chunkEncMain() {}
func parseMain()    {}
