package main

import (
	"bufio"
	"bytes"
	"encoding/hex"
	"encoding/json"
	"fmt"
	"io"
	"math/rand"
	"net/http"
	"strings"
	"time"

	"github.com/bfenetworks/bfe/bfe_bufio"
	"github.com/bfenetworks/bfe/bfe_http"

	"verifharness/vh"
)

// constants of Gen_Parse.cfg / MC_Parse.cfg (checked against the rendering at start-up)
const (
	lenA  = 30
	lenB  = 35
	lenCH = 41
)

const smuggled = "GET /sm HTTP/1.1\r\nHost: hh\r\n\r\n" // 30 bytes: a complete request used as body bytes

type pClass struct {
	Class string `json:"class"` // reject | accept | ifacc | gray
	Why   string `json:"why"`
	Kind  string `json:"kind"` // none | cl | chunked | -
	N     int    `json:"n"`
}

type outcome struct {
	Blen    int  `json:"blen"`
	Next    int  `json:"next"`
	Berr    bool `json:"berr"`
	Aligned bool `json:"aligned"`
}

type mAns struct {
	V    string `json:"v"`
	Kind string `json:"kind"`
	N    int    `json:"n"`
}

type parseCase struct {
	ID    int      `json:"id"`
	RL    string   `json:"rl"`
	HS    []string `json:"hs"`
	Tail  string   `json:"tail"`
	P     pClass   `json:"p"`
	O     outcome  `json:"o"`
	M     mAns     `json:"m"`
	RL2   string   `json:"rl2"`
	HS2   []string `json:"hs2"`
	Tail2 string   `json:"tail2"`
	P2    pClass   `json:"p2"`
	O2    outcome  `json:"o2"`
	M2    mAns     `json:"m2"`
	Reps  int      `json:"reps"`
	Raw   string   `json:"raw,omitempty"` // replay: exact stream (hex)
	H1    int      `json:"h1,omitempty"`  // replay: length of the first header block
	H2    int      `json:"h2,omitempty"`  // replay: length of the second header block
	Split int      `json:"split,omitempty"`
}

func pick(rnd *rand.Rand, alts ...string) string {
	if rnd == nil {
		return alts[0]
	}
	return alts[rnd.Intn(len(alts))]
}

func caseName(rnd *rand.Rand, name string) string {
	if rnd == nil {
		return name
	}
	switch rnd.Intn(4) {
	case 0:
		return strings.ToLower(name)
	case 1:
		return strings.ToUpper(name)
	case 2:
		b := []byte(strings.ToLower(name))
		for i := range b {
			if rnd.Intn(2) == 0 && b[i] >= 'a' && b[i] <= 'z' {
				b[i] -= 32
			}
		}
		return string(b)
	}
	return name
}

func num(rnd *rand.Rand, n int) string {
	return pick(rnd, "", "", "0", "00") + fmt.Sprint(n)
}

var badNameBytes = []string{"(", " ", ")", ",", "/", ";", "<", "=", ">", "?", "@", "[", "\\", "]", "{", "}", "\"", "\x00", "\x01", "\x7f", "\x80", "\xff", "\t", "\r"}

// renderLine: one header-line variant as bytes (with its line terminator).
func renderLine(v string, rnd *rand.Rand) string {
	ows := func() string { return pick(rnd, " ", "", "\t", "  ") }
	tows := func() string { return pick(rnd, "", "", " ", "\t") }
	wsc := func() string { return pick(rnd, " ", "\t", "  ") }
	cl := func() string { return caseName(rnd, "Content-Length") }
	te := func() string { return caseName(rnd, "Transfer-Encoding") }
	ch := func() string { return pick(rnd, "chunked", "Chunked", "CHUNKED") }
	sep := func() string { return pick(rnd, ", ", ",", " , ") }
	switch v {
	case "F":
		return "X-A:" + ows() + "b" + tows() + "\r\n"
	case "WSC":
		return "X-A" + wsc() + ":" + ows() + "b\r\n"
	case "WSCL":
		return cl() + wsc() + ":" + ows() + num(rnd, lenA) + "\r\n"
	case "WSTE":
		return te() + wsc() + ":" + ows() + ch() + "\r\n"
	case "BADN":
		b := badNameBytes[0]
		if rnd != nil {
			b = badNameBytes[rnd.Intn(len(badNameBytes))]
		}
		return pick(rnd, "X"+b+"A", "X-A"+b+"B", "X"+b+"A") + ":" + ows() + "b\r\n"
	case "CLa":
		return cl() + ":" + ows() + num(rnd, lenA) + tows() + "\r\n"
	case "CLb":
		return cl() + ":" + ows() + num(rnd, lenB) + tows() + "\r\n"
	case "CLplus":
		return cl() + ":" + ows() + "+" + fmt.Sprint(lenA) + "\r\n"
	case "CLbad":
		return cl() + ":" + ows() + pick(rnd, "30x", "-30", "3 0", "0x1e", "30.0", "1e1", "30;", "x30", "3\x000") + "\r\n"
	case "CLlist":
		return cl() + ":" + ows() + "30, 30\r\n"
	case "CLempty":
		return cl() + ":" + pick(rnd, "", " ") + "\r\n"
	case "TEc":
		return te() + ":" + ows() + ch() + tows() + "\r\n"
	case "TEg":
		return te() + ":" + ows() + pick(rnd, "gzip", "deflate", "compress") + "\r\n"
	case "TEgc":
		return te() + ":" + ows() + "gzip" + sep() + ch() + "\r\n"
	case "TEcg":
		return te() + ":" + ows() + ch() + sep() + "gzip\r\n"
	case "TEi":
		return te() + ":" + ows() + pick(rnd, "identity", "Identity") + "\r\n"
	case "TEci":
		return te() + ":" + ows() + ch() + sep() + "identity\r\n"
	case "TEic":
		return te() + ":" + ows() + "identity" + sep() + ch() + "\r\n"
	case "TEcc":
		return te() + ":" + ows() + ch() + sep() + ch() + "\r\n"
	case "TEx":
		return te() + ":" + ows() + pick(rnd, "xchunked", "chunkedx", "chunke", "\"chunked\"", "chunked;q=1") + "\r\n"
	case "OBS":
		return pick(rnd, " ", "\t", "  ") + pick(rnd, "x", "7", "chunked") + "\r\n"
	case "EMPTYN":
		return ":" + ows() + "v\r\n"
	case "NOCOLON":
		return pick(rnd, "garbage", "Content-Length 30", "X-A b") + "\r\n"
	case "FLF":
		return "X-A:" + ows() + "b\n"
	case "CLaLF":
		return cl() + ":" + ows() + num(rnd, lenA) + "\n"
	case "FCR":
		return "X-A: b\r" + cl() + ": " + fmt.Sprint(lenB) + "\r\n"
	}
	panic("unknown header-line variant " + v)
}

func renderHead(rl string, hs []string, path string, rnd *rand.Rand) string {
	var s string
	switch rl {
	case "lead":
		s = "\r\nPOST " + path + " HTTP/1.1\r\n"
	case "rllf":
		s = "POST " + path + " HTTP/1.1\n"
	case "bad":
		s = "POST " + path + "\r\n"
	default:
		// "<method>11" / "<method>10": the method is part of the alphabet (Parse.tla MethodRL)
		if len(rl) < 3 || (rl[len(rl)-2:] != "11" && rl[len(rl)-2:] != "10") {
			panic("unknown request-line variant " + rl)
		}
		method := strings.ToUpper(rl[:len(rl)-2])
		target := path
		if method == "CONNECT" {
			target = "h:443"
		}
		s = method + " " + target + " HTTP/1." + rl[len(rl)-1:] + "\r\n"
	}
	s += "Host: h\r\n"
	for _, h := range hs {
		s += renderLine(h, rnd)
	}
	return s + "\r\n"
}

func renderTail(t string) string {
	switch t {
	case "a":
		return smuggled
	case "b":
		return smuggled + "zzzzz"
	case "ch":
		return "1e\r\n" + smuggled + "\r\n0\r\n\r\n"
	}
	return ""
}

const padding = "GET /pad HTTP/1.1\r\nHost: h\r\n\r\nGET /pad HTTP/1.1\r\nHost: h\r\n\r\n"

// shapeOf: canonical signature of the failing message for a Layer-P reason: only the line
// variants the reason is about (syntax reasons: the offending variants; framing reasons: the
// Transfer-Encoding / Content-Length variants in order), so that known findings can be matched.
func shapeOf(rl string, hs []string, why string) string {
	var parts []string
	if rl != "post11" && rl != "get11" {
		parts = append(parts, rl)
	}
	seen := map[string]bool{}
	for _, h := range hs {
		switch why {
		case "ws-before-colon":
			if (h == "WSC" || h == "WSCL" || h == "WSTE") && !seen[h] {
				parts = append(parts, h)
			}
		case "bad-name":
			if h == "BADN" && !seen[h] {
				parts = append(parts, h)
			}
		case "request-line", "obs-fold", "lenient-line":
			if h != "F" {
				parts = append(parts, h)
			}
		default:
			if strings.HasPrefix(h, "TE") || strings.HasPrefix(h, "CL") {
				parts = append(parts, h)
			}
		}
		seen[h] = true
	}
	if len(parts) == 0 {
		return "plain"
	}
	return strings.Join(parts, "+")
}

// msgObs: what ReadRequest + reading the body did for one message.
type msgObs struct {
	Accepted bool
	Err      string
	CL       int64
	Chunked  bool
	URI      string
	Body     []byte
	BodyErr  string // "" = clean EOF
	Next     int    // bytes consumed after the header block when the body was exhausted
	XA       []string
}

func readOne(br *bfe_bufio.Reader, fd *feeder, headEnd int, rd int) (o msgObs) {
	req, err := bfe_http.ReadRequest(br, 65536)
	if err != nil {
		o.Err = err.Error()
		return
	}
	o.Accepted = true
	o.CL = req.ContentLength
	o.Chunked = len(req.TransferEncoding) > 0 && req.TransferEncoding[0] == "chunked"
	o.URI = req.RequestURI
	o.XA = req.Header["X-A"]
	body, berr, _ := drain(req.Body, rd)
	o.Body = body
	if berr != io.EOF {
		o.BodyErr = berr.Error()
	}
	o.Next = fd.off - br.Buffered() - headEnd
	return
}

// judgeMsg applies Parse.tla's classes to one message's observation; "" = allowed.
func judgeMsg(p pClass, oc outcome, o msgObs, stream []byte, headEnd int, hs []string) (kind, detail string) {
	if !o.Accepted {
		if p.Class == "accept" {
			return "reject-valid", "a clean request was refused: " + o.Err
		}
		return "", ""
	}
	framing := fmt.Sprintf("ContentLength=%d chunked=%v body=%d bytes bodyErr=%q next=+%d", o.CL, o.Chunked, len(o.Body), o.BodyErr, o.Next)
	switch p.Class {
	case "reject":
		return "accept-mustreject", "accepted (" + framing + ")"
	case "accept", "ifacc":
		if oc.Berr {
			if o.BodyErr == "" {
				return "wrong-framing", "framing must be " + p.Kind + " (the bytes that follow are not a chunked body) but the body ended cleanly: " + framing
			}
			return "", ""
		}
		var want []byte
		if p.Kind == "chunked" {
			want = []byte(smuggled)
		} else {
			want = stream[headEnd : headEnd+oc.Blen]
		}
		if o.BodyErr != "" || !bytes.Equal(o.Body, want) || o.Next != oc.Next {
			return "wrong-framing", fmt.Sprintf("RFC 7230 3.3.3 framing is %s n=%d: body %d bytes, next request at +%d; got %s", p.Kind, p.N, oc.Blen, oc.Next, framing)
		}
		for i, h := range hs {
			if h == "F" && (i+1 == len(hs) || hs[i+1] != "OBS") {
				ok := false
				for _, v := range o.XA {
					ok = ok || v == "b"
				}
				if !ok {
					return "wrong-field", fmt.Sprintf("field X-A: b parsed as %q", o.XA)
				}
			}
		}
	default: // gray: self-consistency of what bfe itself announced
		if o.BodyErr == "" && !o.Chunked && o.CL >= 0 && (int64(len(o.Body)) != o.CL || int64(o.Next) != o.CL) {
			return "inconsistent", "announced " + framing
		}
	}
	return "", ""
}

type parseFail struct {
	ID     int    `json:"id"`
	OK     bool   `json:"ok"`
	Sig    string `json:"sig"`
	Detail string `json:"detail"`
	Raw    string `json:"raw"`
	H1     int    `json:"h1"`
	H2     int    `json:"h2"`
	Split  int    `json:"split"`
	Msg    int    `json:"msg"`
	Drift  string `json:"drift,omitempty"`
}

// witness: Go's net/http.ReadRequest on the same bytes (diagnostic only).
func witness(stream []byte) (accepted bool, kind string, n int64) {
	req, err := http.ReadRequest(bufio.NewReader(bytes.NewReader(stream)))
	if err != nil {
		return false, "-", 0
	}
	if len(req.TransferEncoding) > 0 {
		return true, "chunked", 0
	}
	if req.ContentLength > 0 {
		return true, "cl", req.ContentLength
	}
	return true, "none", 0
}

func parseMain() {
	if len(renderTail("a")) != lenA || len(renderTail("b")) != lenB || len(renderTail("ch")) != lenCH {
		vh.Emit(map[string]interface{}{"_bad_case": "tail lengths do not match the constants of Gen_Parse.cfg"})
		return
	}
	rnd := vh.Rand(24)
	var ncase, nevals, ndrift int
	wit := map[string]int{}
	vh.EachCase(func(line []byte) {
		var c parseCase
		if err := json.Unmarshal(line, &c); err != nil {
			vh.Emit(map[string]interface{}{"_bad_case": err.Error()})
			return
		}
		ncase++
		seen := map[string]bool{}
		for rep := 0; rep <= c.Reps; rep++ {
			var r *rand.Rand
			if rep > 0 {
				r = rnd
			}
			var stream []byte
			var h1, h2 int
			split := 0
			if c.Raw != "" {
				stream, _ = hex.DecodeString(c.Raw)
				h1, h2, split = c.H1, c.H2, c.Split
			} else {
				head1 := renderHead(c.RL, c.HS, "/p", r)
				head2 := renderHead(c.RL2, c.HS2, "/2", r)
				h1, h2 = len(head1), len(head2)
				stream = []byte(head1 + renderTail(c.Tail) + head2 + renderTail(c.Tail2) + padding)
				if rep > 0 {
					split = rnd.Intn(9)
				}
			}
			start2 := h1 + len(renderTail(c.Tail))
			fail := func(msg int, kind, why, shape, detail string) {
				sig := kind + "/" + why + "/" + shape
				if seen[sig] {
					return
				}
				seen[sig] = true
				vh.Emit(parseFail{ID: c.ID, Sig: sig, Detail: detail, Raw: hex.EncodeToString(stream), H1: h1, H2: h2, Split: split, Msg: msg})
			}
			fd := &feeder{data: stream, split: split}
			var o1, o2 msgObs
			second := false
			p, fin := vh.GuardTimeout(10*time.Second, func() {
				br := bfe_bufio.NewReaderSize(fd, 4096)
				o1 = readOne(br, fd, h1, 1+rnd.Intn(64))
				if o1.Accepted && (c.P.Class == "accept" || c.P.Class == "ifacc") && c.O.Aligned && o1.BodyErr == "" && o1.Next == c.O.Next {
					second = true
					o2 = readOne(br, fd, start2+h2, 1+rnd.Intn(64))
				}
			})
			nevals++
			shape1, shape2 := shapeOf(c.RL, c.HS, c.P.Why), shapeOf(c.RL2, c.HS2, c.P2.Why)
			if p != "" {
				fail(1, "panic", c.P.Why, shape1, p)
				continue
			}
			if !fin {
				fail(1, "hang", c.P.Why, shape1, "watchdog expired")
				continue
			}
			if kind, det := judgeMsg(c.P, c.O, o1, stream, h1, c.HS); kind != "" {
				fail(1, kind, c.P.Why, shape1, det)
			} else if rep == 0 && (o1.Accepted != (c.M.V == "accept") ||
				(o1.Accepted && o1.BodyErr == "" && !c.O.Berr && c.P.Class != "gray" && mKind(o1) != c.M.Kind)) {
				identity := false
				for _, h := range c.HS {
					identity = identity || h == "TEi" || h == "TEci" || h == "TEic"
				}
				if identity { // open finding F-C24-4: Layer M models the intended behaviour
					continue
				}
				ndrift++
				if ndrift <= 5 {
					vh.Emit(parseFail{ID: c.ID, OK: true, Drift: fmt.Sprintf("%s %v: mechanism model %v, code accepted=%v %s err=%q", c.RL, c.HS, c.M, o1.Accepted, mKind(o1), o1.Err)})
				}
			}
			if second {
				if kind, det := judgeMsg(c.P2, c.O2, o2, stream, start2+h2, c.HS2); kind != "" {
					fail(2, kind, c.P2.Why, shape2, "second pipelined message: "+det)
				} else if o2.Accepted && o2.URI != "/2" && o2.URI != "h:443" {
					fail(2, "wrong-boundary", c.P.Why, shape1, "the request after the first body is not the second message: "+o2.URI)
				}
			}
			if rep == 0 && c.P.Class != "gray" {
				acc, kind, n := witness(stream)
				agree := true
				switch c.P.Class {
				case "reject":
					agree = !acc
				case "accept":
					agree = acc && kind == c.P.Kind && (kind != "cl" || int(n) == c.P.N)
				case "ifacc":
					agree = !acc || (kind == c.P.Kind && (kind != "cl" || int(n) == c.P.N))
				}
				if !agree {
					wit[c.P.Class+"/"+c.P.Why]++
				}
			}
		}
	})
	vh.Emit(map[string]interface{}{"summary": true, "cases": ncase, "evals": nevals, "drift": ndrift, "witness_disagree": wit})
}

func mKind(o msgObs) string {
	switch {
	case o.Chunked:
		return "chunked"
	case o.CL > 0:
		return "cl"
	}
	return "none"
}
