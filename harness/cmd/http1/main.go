// Command http1 binds the Http1 specs (specs/Http1) to bfe_http / bfe_net/textproto.
//
//	http1 chunked   cases printed by TLC (EnumChunked / StructChunked: class items + Layer-P verdict) on
//	                stdin; each is concretised into bytes (canonical + seeded alternatives) and fed to the
//	                real chunkedReader (raw, several buffer sizes / delivery splits / read sizes) and to
//	                ReadRequest + Body (Transfer-Encoding: chunked, trailer, pipelined next request)
//	http1 chunkenc  write patterns on stdin; run on the real chunkedWriter; prints the wire as class
//	                items (validated by TLC, TraceChunked) and the round trip through the real reader
//	http1 parse     messages printed by TLC (GenParse: request-line / header-line variants + Layer-P
//	                class and framing) on stdin; two pipelined messages are run through ReadRequest
//
// Output: one ndjson line per failing (or drifting) case and a final summary line.
package main

import (
	"fmt"
	"os"

	"verifharness/vh"
)

func main() {
	if len(os.Args) < 2 {
		fmt.Fprintln(os.Stderr, "usage: http1 <chunked|chunkenc|parse>")
		os.Exit(2)
	}
	defer vh.Flush()
	switch os.Args[1] {
	case "chunked":
		chunkedMain()
	case "chunkenc":
		chunkEncMain()
	case "parse":
		parseMain()
	default:
		fmt.Fprintln(os.Stderr, "unknown subcommand", os.Args[1])
		vh.Flush()
		os.Exit(2)
	}
}
