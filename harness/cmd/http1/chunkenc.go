package main

import (
	"bytes"
	"encoding/hex"
	"encoding/json"
	"io"
	"math/rand"
	"time"

	"github.com/bfenetworks/bfe/bfe_bufio"
	"github.com/bfenetworks/bfe/bfe_http"

	"verifharness/vh"
)

type encCase struct {
	ID     int   `json:"id"`
	Writes []int `json:"writes"`
}

type encOut struct {
	ID   int    `json:"id"`
	Wire []Item `json:"wire"`
	Hex  string `json:"hex"`
	Data string `json:"data"`
	Fail string `json:"fail,omitempty"`
}

// chunkEncMain: run the write pattern on the real chunkedWriter, abstract the wire for TLC and
// decode it again with the real chunkedReader (round trip).
func chunkEncMain() {
	rnd := vh.Rand(24)
	n := 0
	vh.EachCase(func(line []byte) {
		var c encCase
		if err := json.Unmarshal(line, &c); err != nil {
			vh.Emit(map[string]interface{}{"_bad_case": err.Error()})
			return
		}
		n++
		var wire bytes.Buffer
		var data []byte
		o := encOut{ID: c.ID}
		p, fin := vh.GuardTimeout(10*time.Second, func() {
			cw := bfe_http.VerifNewChunkedWriter(&wire)
			for _, w := range c.Writes {
				b := dataRuns(rnd, w)
				data = append(data, b...)
				k, err := cw.Write(b)
				if err != nil || k != w {
					o.Fail = "write-error"
				}
			}
			if err := cw.Close(); err != nil {
				o.Fail = "close-error"
			}
			cr := bfe_http.VerifNewChunkedReader(bfe_bufio.NewReaderSize(bytes.NewReader(wire.Bytes()), 4096))
			back, err, _ := drain(cr, 1+rnd.Intn(64))
			if o.Fail == "" && (err != io.EOF || !bytes.Equal(back, data)) {
				o.Fail = "round-trip"
			}
		})
		if p != "" {
			o.Fail = "panic"
		} else if !fin {
			o.Fail = "hang"
		}
		o.Wire = abstract(wire.Bytes())
		o.Data = hex.EncodeToString(data)
		o.Hex = hex.EncodeToString(wire.Bytes())
		vh.Emit(o)
	})
	vh.Emit(map[string]interface{}{"summary": true, "cases": n, "evals": n})
}

// dataRuns: w bytes made of at most 6 runs, each a repeated byte of any class (CR, LF, digits, ';' ...
// included), so that the abstracted wire stays a short item list.
func dataRuns(rnd *rand.Rand, w int) []byte {
	special := []byte{'\r', '\n', '0', '1', 'a', 'F', ';', ' ', '\t', '=', 'x', '"', 0, 0xff}
	b := make([]byte, 0, w)
	for len(b) < w {
		n := 1 + rnd.Intn(w-len(b))
		if rnd.Intn(3) > 0 && w-len(b) > 6 {
			n = 1 + rnd.Intn((w-len(b))/3+1)
		}
		if cap(b)-len(b) < n || len(b)+n > w {
			n = w - len(b)
		}
		c := special[rnd.Intn(len(special))]
		if rnd.Intn(4) == 0 {
			c = byte(rnd.Intn(256))
		}
		for i := 0; i < n; i++ {
			b = append(b, c)
		}
	}
	return b
}
