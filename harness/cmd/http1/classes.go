package main

import (
	"math/rand"
)

// Item is one run of bytes of an abstract class (specs/Http1/Chunked.tla, alphabet.json).
type Item struct {
	C string `json:"c"`
	V int    `json:"v"` // hex value for class H
	U int    `json:"u"` // H: 1 lower 2 upper; TOK/OTH: literal byte when > 2
	K int    `json:"k"`
}

const tokAlt = "ghijklmnopqrstuvwxyzGHIJKLMNOPQRSTUVWXYZ!#$%&'*+-.^_`|~"

var othAlt = func() []byte {
	var b []byte
	for c := 0; c < 256; c++ {
		switch {
		case c == '\t' || c == '\n' || c == '\r' || c == ' ' || c == ';' || c == '=':
		case c >= '0' && c <= '9', c >= 'a' && c <= 'z', c >= 'A' && c <= 'Z':
		default:
			isTok := false
			for i := 0; i < len(tokAlt); i++ {
				if tokAlt[i] == byte(c) {
					isTok = true
				}
			}
			if !isTok {
				b = append(b, byte(c))
			}
		}
	}
	return b
}()

// concretise renders items; rnd == nil gives the canonical representative of every class.
func concretise(items []Item, rnd *rand.Rand) []byte {
	var out []byte
	for _, it := range items {
		for i := 0; i < it.K; i++ {
			out = append(out, classByte(it, i, rnd))
		}
	}
	return out
}

func classByte(it Item, i int, rnd *rand.Rand) byte {
	switch it.C {
	case "H":
		if it.V < 10 {
			return byte('0' + it.V)
		}
		if it.U == 2 {
			return byte('A' + it.V - 10)
		}
		return byte('a' + it.V - 10)
	case "SEMI":
		return ';'
	case "EQ":
		return '='
	case "CR":
		return '\r'
	case "LF":
		return '\n'
	case "WS":
		if rnd != nil && rnd.Intn(2) == 0 {
			return '\t'
		}
		return ' '
	case "TOK":
		if it.U > 2 {
			return byte(it.U)
		}
		if rnd == nil {
			return tokAlt[(i*7+17)%len(tokAlt)]
		}
		return tokAlt[rnd.Intn(len(tokAlt))]
	default: // OTH
		if it.U > 2 {
			return byte(it.U)
		}
		if rnd == nil {
			return othAlt[(i*13+40)%len(othAlt)]
		}
		return othAlt[rnd.Intn(len(othAlt))]
	}
}

// abstract is the inverse map (bytes -> run-length class items), used for the encoder's wire.
func abstract(b []byte) []Item {
	var out []Item
	for _, c := range b {
		it := Item{K: 1}
		switch {
		case c >= '0' && c <= '9':
			it.C, it.V = "H", int(c-'0')
		case c >= 'a' && c <= 'f':
			it.C, it.V, it.U = "H", int(c-'a')+10, 1
		case c >= 'A' && c <= 'F':
			it.C, it.V, it.U = "H", int(c-'A')+10, 2
		case c == ';':
			it.C = "SEMI"
		case c == '=':
			it.C = "EQ"
		case c == ' ' || c == '\t':
			it.C = "WS"
		case c == '\r':
			it.C = "CR"
		case c == '\n':
			it.C = "LF"
		default:
			it.C = "OTH"
			for i := 0; i < len(tokAlt); i++ {
				if tokAlt[i] == c {
					it.C = "TOK"
				}
			}
		}
		if n := len(out); n > 0 && out[n-1].C == it.C && out[n-1].V == it.V && out[n-1].U == it.U && it.C != "H" {
			out[n-1].K++
		} else if n > 0 && it.C == "H" && out[n-1].C == "H" && out[n-1].V == it.V && out[n-1].U == it.U {
			out[n-1].K++
		} else {
			out = append(out, it)
		}
	}
	return out
}

// feeder delivers the stream in pieces of at most `split` bytes and counts what it handed out.
type feeder struct {
	data  []byte
	off   int
	split int
}

func (f *feeder) Read(p []byte) (int, error) {
	if f.off >= len(f.data) {
		return 0, errEOF
	}
	n := len(p)
	if f.split > 0 && n > f.split {
		n = f.split
	}
	if n > len(f.data)-f.off {
		n = len(f.data) - f.off
	}
	copy(p, f.data[f.off:f.off+n])
	f.off += n
	return n, nil
}
