package main

import (
	"bytes"
	"encoding/hex"
	"encoding/json"
	"fmt"
	"io"
	"math/rand"
	"time"

	"github.com/bfenetworks/bfe/bfe_bufio"
	"github.com/bfenetworks/bfe/bfe_http"

	"verifharness/vh"
)

var errEOF = io.EOF

// PVerdict is Layer P's verdict as printed by TLC (Chunked.tla PV).
type PVerdict struct {
	V      string   `json:"v"` // accept | reject | incomplete
	Gray   string   `json:"gray"`
	Why    string   `json:"why"`
	Ext    bool     `json:"ext"`
	Segs   [][2]int `json:"segs"`
	Cons   int      `json:"cons"`
	InData bool     `json:"indata"`
}

// MVerdict is Layer M's verdict (diagnostic).
type MVerdict struct {
	V    string   `json:"v"`
	Segs [][2]int `json:"segs"`
	Cons int      `json:"cons"`
}

type chunkCase struct {
	ID    int      `json:"id"`
	Items []Item   `json:"items"`
	P     PVerdict `json:"p"`
	M     MVerdict `json:"m"`
	Tr    string   `json:"tr"`
	Trv   string   `json:"trv"`
	Reps  int      `json:"reps"`          // seeded alternatives besides the canonical rendering
	Raw   string   `json:"raw,omitempty"` // replay: exact bytes (hex) instead of a rendering of items
	Cfg   *rawCfg  `json:"cfg,omitempty"` // replay: exact reader configuration
	Path  string   `json:"path,omitempty"`
}

type rawCfg struct {
	Buf   int `json:"buf"`
	Split int `json:"split"`
	Rd    int `json:"rd"`
}

// obs is what a decoder did with the input.
type obs struct {
	Accept  bool   // clean io.EOF
	Payload []byte // bytes delivered
	Cons    int    // bytes consumed from the stream (relative to the body start)
	Err     string
	Panic   string
	Hang    bool
}

const nextReq = "GET /next HTTP/1.1\r\nHost: a\r\n\r\n"
const bodyHead = "POST /c HTTP/1.1\r\nHost: a\r\nTransfer-Encoding: chunked\r\n\r\n"

func trailerBytes(tr string) (b string, more bool) {
	switch tr {
	case "field":
		return "X-T: v\r\n\r\n", true
	case "fields":
		return "X-T: v\r\nX-U: w\r\n\r\n", true
	case "nocolon":
		return "garbage\r\n\r\n", true
	case "trunc":
		return "X-T: v\r\n", false
	case "lf":
		return "\n", true
	}
	return "\r\n", true
}

func expectedPayload(in []byte, segs [][2]int) []byte {
	var out []byte
	for _, s := range segs {
		if s[0]+s[1] <= len(in) {
			out = append(out, in[s[0]:s[0]+s[1]]...)
		}
	}
	return out
}

// drain reads r to the first error with read size rd.
func drain(r io.Reader, rd int) (payload []byte, err error, spins int) {
	buf := make([]byte, rd)
	zero := 0
	for {
		n, e := r.Read(buf)
		payload = append(payload, buf[:n]...)
		if e != nil {
			return payload, e, zero
		}
		if n == 0 {
			zero++
			if zero > 1000 {
				return payload, fmt.Errorf("verif: 1000 empty reads without error"), zero
			}
		}
		if len(payload) > 1<<22 {
			return payload, fmt.Errorf("verif: payload exceeds 4 MiB"), zero
		}
	}
}

func runRaw(stream []byte, cfg rawCfg) (o obs) {
	fd := &feeder{data: stream, split: cfg.Split}
	var br *bfe_bufio.Reader
	p, fin := vh.GuardTimeout(10*time.Second, func() {
		br = bfe_bufio.NewReaderSize(fd, cfg.Buf)
		cr := bfe_http.VerifNewChunkedReader(br)
		pl, err, _ := drain(cr, cfg.Rd)
		o.Payload = pl
		o.Accept = err == io.EOF
		if err != nil {
			o.Err = err.Error()
		}
		o.Cons = fd.off - br.Buffered()
	})
	o.Panic = p
	o.Hang = !fin
	return
}

// The connection reader of bfe_server has the default 4096-byte buffer (body.readTrailer bounds
// the trailer section by the buffer size), so only split and read size vary on this path.
func runBody(stream []byte, cfg rawCfg) (o obs, next string) {
	full := append([]byte(bodyHead), stream...)
	fd := &feeder{data: full, split: cfg.Split}
	p, fin := vh.GuardTimeout(10*time.Second, func() {
		br := bfe_bufio.NewReaderSize(fd, 4096)
		req, err := bfe_http.ReadRequest(br, 65536)
		if err != nil {
			o.Err = "head: " + err.Error()
			return
		}
		pl, err, _ := drain(req.Body, cfg.Rd)
		o.Payload = pl
		o.Accept = err == io.EOF
		if err != nil {
			o.Err = err.Error()
		}
		o.Cons = fd.off - br.Buffered() - len(bodyHead)
		if o.Accept {
			r2, err := bfe_http.ReadRequest(br, 65536)
			if err != nil {
				next = "error: " + err.Error()
			} else {
				next = r2.Method + " " + r2.RequestURI
			}
		}
	})
	o.Panic = p
	o.Hang = !fin
	return
}

// judge applies Chunked.tla's Allowed(pv, o) to an observation; "" = allowed.
func judge(pv PVerdict, want []byte, wantCons int, o obs, eofLenient bool) (sig, detail string) {
	reason := pv.Why
	if reason == "" {
		reason = pv.Gray
	}
	if reason == "" && pv.Ext {
		reason = "ext"
	}
	if reason == "" {
		reason = "plain"
	}
	switch {
	case o.Panic != "":
		return "panic/" + pv.V + "/" + reason, o.Panic
	case o.Hang:
		return "hang/" + pv.V + "/" + reason, "watchdog expired"
	}
	prefixOK := len(o.Payload) <= len(want) && bytes.Equal(o.Payload, want[:len(o.Payload)])
	if pv.V == "accept" {
		if o.Accept {
			if !bytes.Equal(o.Payload, want) {
				return "wrong-payload/" + reason, fmt.Sprintf("decoded %d bytes %q, the grammar gives %d bytes %q", len(o.Payload), clip(o.Payload), len(want), clip(want))
			}
			if o.Cons != wantCons {
				return "wrong-consumed/" + reason, fmt.Sprintf("consumed %d bytes, the body ends after %d", o.Cons, wantCons)
			}
			return "", ""
		}
		if !prefixOK {
			return "wrong-payload/" + reason, fmt.Sprintf("delivered %q before the error %q, not a prefix of %q", clip(o.Payload), o.Err, clip(want))
		}
		if pv.Gray != "" {
			return "", ""
		}
		if pv.Ext {
			return "reject-valid/ext", "valid body with chunk extensions refused: " + o.Err
		}
		return "reject-valid/" + reason, "valid chunked body refused: " + o.Err
	}
	// reject / incomplete: anything but a clean end of body
	if !prefixOK {
		return "wrong-payload/" + reason, fmt.Sprintf("delivered %q, not a prefix of what precedes the defect %q", clip(o.Payload), clip(want))
	}
	if o.Accept {
		if pv.V == "incomplete" && eofLenient && pv.InData {
			return "", ""
		}
		return "accept-invalid/" + pv.V + "/" + reason, fmt.Sprintf("clean end of body after %d decoded bytes %q (consumed %d)", len(o.Payload), clip(o.Payload), o.Cons)
	}
	return "", ""
}

func clip(b []byte) []byte {
	if len(b) > 48 {
		return append(append([]byte{}, b[:40]...), []byte("...")...)
	}
	return b
}

type chunkFail struct {
	ID     int    `json:"id"`
	OK     bool   `json:"ok"`
	Sig    string `json:"sig"`
	Detail string `json:"detail"`
	Path   string `json:"path"`
	Raw    string `json:"raw"`
	Cfg    rawCfg `json:"cfg"`
	Drift  string `json:"drift,omitempty"`
}

func maxLine(b []byte) int {
	m, cur := 0, 0
	for _, c := range b {
		cur++
		if c == '\n' {
			if cur > m {
				m = cur
			}
			cur = 0
		}
	}
	if cur > m {
		m = cur
	}
	return m
}

func chunkedMain() {
	rnd := vh.Rand(23)
	var ncase, nevals, ndrift int
	vh.EachCase(func(line []byte) {
		var c chunkCase
		if err := json.Unmarshal(line, &c); err != nil {
			vh.Emit(map[string]interface{}{"_bad_case": err.Error()})
			return
		}
		ncase++
		failed := map[string]bool{}
		report := func(sig, detail, path string, in []byte, cfg rawCfg) {
			if failed[sig+path] {
				return
			}
			failed[sig+path] = true
			vh.Emit(chunkFail{ID: c.ID, Sig: sig + "/" + path, Detail: detail, Path: path, Raw: hex.EncodeToString(in), Cfg: cfg})
		}
		for rep := 0; rep <= c.Reps; rep++ {
			var in []byte
			if c.Raw != "" {
				in, _ = hex.DecodeString(c.Raw)
			} else if rep == 0 {
				in = concretise(c.Items, nil)
			} else {
				in = concretise(c.Items, rnd)
			}
			want := expectedPayload(in, c.P.Segs)
			ml := maxLine(in)
			cfgs := pickCfgs(rnd, ml, len(in), rep)
			if c.Cfg != nil {
				cfgs = []rawCfg{*c.Cfg}
			}
			tr, more := trailerBytes(c.Tr)
			for _, cfg := range cfgs {
				// --- raw chunkedReader
				if c.Path == "" || c.Path == "raw" {
					stream := in
					if c.P.V != "incomplete" {
						stream = append(append([]byte{}, in...), []byte("\r\n"+nextReq)...)
					}
					o := runRaw(stream, cfg)
					nevals++
					if sig, det := judge(c.P, want, c.P.Cons, o, true); sig != "" {
						report(sig, det, "raw", in, cfg)
					} else if rep == 0 && (o.Accept != (c.M.V == "accept") || (o.Accept && o.Cons != c.M.Cons)) && !(c.P.V == "incomplete" && c.P.InData) && !c.P.Ext {
						ndrift++
						if ndrift <= 5 {
							vh.Emit(chunkFail{ID: c.ID, OK: true, Drift: fmt.Sprintf("mechanism model says %s/%d, code: accept=%v cons=%d err=%q", c.M.V, c.M.Cons, o.Accept, o.Cons, o.Err), Raw: hex.EncodeToString(in), Cfg: cfg})
						}
					}
				}
				// --- ReadRequest + Body (trailer, next request)
				if c.Path == "" || c.Path == "body" {
					stream := in
					pv := c.P
					wantCons := c.P.Cons
					if c.P.V != "incomplete" {
						stream = append(append([]byte{}, in...), []byte(tr)...)
						if more {
							stream = append(stream, []byte(nextReq)...)
						}
						wantCons += len(tr)
					}
					if c.P.V == "accept" {
						switch c.Trv {
						case "reject":
							pv.V, pv.Why = "reject", "bad-trailer"
						case "incomplete":
							pv.V, pv.InData = "incomplete", false
						case "gray":
							if pv.Gray == "" {
								pv.Gray = "trailer-bare-lf"
							}
						}
					}
					o, next := runBody(stream, cfg)
					nevals++
					if sig, det := judge(pv, want, wantCons, o, false); sig != "" {
						report(sig, det, "body", in, cfg)
					} else if o.Accept && pv.V == "accept" && pv.Gray == "" && next != "GET /next" {
						report("next-request-lost/"+c.Tr, "after the body the next pipelined request parsed as: "+next, "body", in, cfg)
					}
				}
			}
		}
	})
	vh.Emit(map[string]interface{}{"summary": true, "cases": ncase, "evals": nevals, "drift": ndrift})
}

// pickCfgs: reader buffer size (always larger than the longest line), delivery split, read size.
func pickCfgs(rnd *rand.Rand, maxLine, total, rep int) []rawCfg {
	small := 16
	for small <= maxLine+2 {
		small *= 2
	}
	if rep == 0 {
		return []rawCfg{{4096, 0, 4096}, {small, 1, 1}, {small, 3, 2}}
	}
	bufs := []int{small, small * 2, 512, 4096}
	b := bufs[rnd.Intn(len(bufs))]
	if b < small {
		b = small
	}
	return []rawCfg{{b, rnd.Intn(8), 1 + rnd.Intn(9)}}
}
