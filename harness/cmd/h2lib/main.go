// Command h2lib binds the specs/H2 library-level specs (Hpack, HpackDecode, Frame, Priority)
// to bfe_http2 and bfe_http2/hpack.
package main

import (
	"fmt"
	"os"
	"strconv"

	"verifharness/vh"
)

func main() {
	if len(os.Args) < 2 {
		fmt.Fprintln(os.Stderr, "usage: h2lib <prio-run|frame-run|hpack-run|hpack-record|hpackdec-run>")
		os.Exit(2)
	}
	defer vh.Flush()
	switch os.Args[1] {
	case "prio-run":
		prioRun()
	case "frame-run":
		frameRun()
	case "hpack-run":
		hpackRun()
	case "hpack-record":
		hpackRecord()
	case "hpackdec-run":
		hpackDecRun()
	default:
		fmt.Fprintln(os.Stderr, "unknown subcommand", os.Args[1])
		vh.Flush()
		os.Exit(2)
	}
}

// asciiOnly keeps result lines free of characters that line-oriented readers treat as line
// breaks (U+0085, U+2028, ...): everything outside printable ASCII is written as a Go escape.
func asciiOnly(s string) string {
	q := strconv.QuoteToASCII(s)
	return q[1 : len(q)-1]
}

func emitRes(r vh.Result) {
	r.Detail, r.Drift, r.Sig = asciiOnly(r.Detail), asciiOnly(r.Drift), asciiOnly(r.Sig)
	vh.Emit(r)
}
