package main

import (
	"encoding/json"
	"fmt"
	"strings"

	"github.com/bfenetworks/bfe/bfe_http2/hpack"
	xhpack "golang.org/x/net/http2/hpack"

	"verifharness/vh"
)

// case printed by GenHpackDecode.tla
type hdCase struct {
	ID     int       `json:"id"`
	Pre    []int     `json:"pre"`
	Bytes  []int     `json:"bytes"`
	Kind   string    `json:"kind"` // ok | err | either
	Fields []hpField `json:"fields"`
	Why    string    `json:"why"`
	Desc   string    `json:"desc"`
	Over   int       `json:"over"`
	Cut    int       `json:"cut"`
	Em     string    `json:"em"`  // emission: on | off | off1 (disabled by the consumer after the first field)
	Tab    []hpEnt   `json:"tab"` // dynamic table RFC 7541 leaves after the block, newest first
}

func octets(v []int) []byte {
	b := make([]byte, len(v))
	for i, x := range v {
		b[i] = byte(x)
	}
	return b
}

// the spec writes the symbols with 28- and 30-bit codes (octets 0x02, 0x0a) as X and Y
var hdUnabstract = strings.NewReplacer("X", "\x02", "Y", "\x0a")

type hdOutcome struct {
	tab    []hpEnt // dynamic table read back through indexed references after an accepted block
	fields []hpField
	err    string
	where  string
	pan    string
}

// decodeSplit feeds pre (a complete block) and then b in two Writes split at k, then Close, under
// the emission mode em; after an accepted block emission is switched on again and the dynamic
// table is read back with indexed references 62, 63, ... (each a block of its own).
func decodeSplit(pre, b []byte, k int, em string) (o hdOutcome) {
	o.pan = vh.Guard(func() {
		var got []hpField
		d := hpack.NewDecoder(4096, func(f hpack.HeaderField) error {
			got = append(got, hpField{f.Name, f.Value, f.Sensitive})
			return nil
		})
		if _, err := d.Write(pre); err != nil {
			o.err, o.where = err.Error(), "preamble"
			return
		}
		if err := d.Close(); err != nil {
			o.err, o.where = err.Error(), "preamble-close"
			return
		}
		got = nil
		switch em {
		case "off":
			d.SetEmitEnabled(false)
		case "off1":
			d.SetEmitFunc(func(f hpack.HeaderField) error {
				got = append(got, hpField{f.Name, f.Value, f.Sensitive})
				d.SetEmitEnabled(false)
				return nil
			})
		}
		if _, err := d.Write(b[:k]); err != nil {
			o.err, o.where = err.Error(), "write1"
		} else if _, err := d.Write(b[k:]); err != nil {
			o.err, o.where = err.Error(), "write2"
		} else if err := d.Close(); err != nil {
			o.err, o.where = err.Error(), "close"
		}
		o.fields = got
		if o.err != "" {
			return
		}
		d.SetEmitEnabled(true)
		d.SetEmitFunc(func(f hpack.HeaderField) error {
			got = append(got, hpField{f.Name, f.Value, f.Sensitive})
			return nil
		})
		o.tab = []hpEnt{}
		for idx := 62; idx < 62+16; idx++ {
			got = nil
			if _, err := d.Write([]byte{0x80 | byte(idx)}); err != nil {
				break
			}
			d.Close()
			if len(got) != 1 {
				break
			}
			o.tab = append(o.tab, hpEnt{got[0].N, got[0].V})
		}
	})
	return
}

func xdecode(pre, b []byte) (fields []hpField, errs string) {
	vh.Guard(func() {
		var got []hpField
		d := xhpack.NewDecoder(4096, func(f xhpack.HeaderField) { got = append(got, hpField{f.Name, f.Value, f.Sensitive}) })
		d.Write(pre)
		d.Close()
		got = nil
		if _, err := d.Write(b); err != nil {
			errs = err.Error()
		} else if err := d.Close(); err != nil {
			errs = err.Error()
		}
		fields = got
	})
	return
}

func eqFields(a, b []hpField) bool {
	if len(a) != len(b) {
		return false
	}
	for i := range a {
		if a[i] != b[i] {
			return false
		}
	}
	return true
}

func hpackDecRun() {
	vh.EachCase(func(line []byte) {
		var c hdCase
		if err := json.Unmarshal(line, &c); err != nil {
			vh.Emit(map[string]interface{}{"_bad_case": err.Error()})
			return
		}
		res := vh.Result{ID: c.ID, OK: true}
		pre, b := octets(c.Pre), octets(c.Bytes)
		want := make([]hpField, len(c.Fields))
		for i, f := range c.Fields {
			want[i] = hpField{hdUnabstract.Replace(f.N), hdUnabstract.Replace(f.V), f.S}
		}
		shape := c.Desc
		if c.Cut > 0 || c.Over > 0 {
			shape += "/cut"
		}
		if c.Em != "" && c.Em != "on" {
			shape += "/emit-" + c.Em
		}
		wantTab := make([]hpEnt, len(c.Tab))
		for i, e := range c.Tab {
			wantTab[i] = hpEnt{hdUnabstract.Replace(e.N), hdUnabstract.Replace(e.V)}
		}
		var first *hdOutcome
		for k := 0; k <= len(b) && res.OK; k++ {
			o := decodeSplit(pre, b, k, c.Em)
			if k == 0 {
				oc := o
				first = &oc
			}
			at := fmt.Sprintf("block %x split at %d (after preamble %x)", b, k, pre)
			switch {
			case o.pan != "":
				res.OK, res.Sig = false, fmt.Sprintf("panic/%s/%s", c.Kind, nz2(c.Why, shape))
				res.Detail = at + ": " + o.pan
			case o.where == "preamble" || o.where == "preamble-close":
				res.OK, res.Sig = false, "rejects/preamble"
				res.Detail = at + ": " + o.err
			case c.Kind == "err" && o.err == "":
				res.OK, res.Sig = false, "accepts/"+c.Why
				res.Detail = fmt.Sprintf("%s: RFC 7541 requires a decoding error (%s); Write/Write/Close returned nil, fields %+v", at, c.Why, o.fields)
			case c.Kind == "ok" && o.err != "":
				res.OK, res.Sig = false, "rejects/"+shape
				res.Detail = fmt.Sprintf("%s: valid block, expected fields %+v; %s returned %q", at, want, o.where, o.err)
			case o.err == "" && !eqFields(o.fields, want):
				res.OK, res.Sig = false, "fields/"+shape
				res.Detail = fmt.Sprintf("%s: decoded %+v, RFC 7541 gives %+v", at, o.fields, want)
			case o.err == "" && !eqTab(o.tab, wantTab):
				res.OK, res.Sig = false, "table/"+shape
				res.Detail = fmt.Sprintf("%s: indexed references after the block give dynamic table %+v, RFC 7541 gives %+v", at, o.tab, wantTab)
			}
			// all split points must agree with the unsplit delivery (k = 0 is a single Write)
			if res.OK && first != nil && ((o.err == "") != (first.err == "") || (o.err == "" && !eqFields(o.fields, first.fields))) {
				res.OK, res.Sig = false, "split-dependent/"+shape
				res.Detail = fmt.Sprintf("%s: outcome %q %+v differs from the unsplit delivery %q %+v", at, o.err, o.fields, first.err, first.fields)
			}
		}
		// independent witness, diagnostic
		if res.OK && first != nil {
			xf, xe := xdecode(pre, b)
			if (xe == "") != (first.err == "") || (xe == "" && !eqFields(xf, first.fields)) {
				res.Obs = map[string]interface{}{"xnet": fmt.Sprintf("x/net: err=%q fields=%+v; bfe: err=%q fields=%+v", xe, xf, first.err, first.fields)}
			}
		}
		emitRes(res)
	})
}

func nz2(a, b string) string {
	if a != "" {
		return a
	}
	return b
}
