package main

import (
	"encoding/json"
	"fmt"
	"time"

	"github.com/bfenetworks/bfe/bfe_http2"

	"verifharness/vh"
)

type prioSnap struct {
	St  []string `json:"st"`
	Par []uint32 `json:"par"`
}

type prioOp struct {
	K    string `json:"k"`
	S    uint32 `json:"s"`
	Hp   bool   `json:"hp"`
	Dep  uint32 `json:"dep"`
	Excl bool   `json:"excl"`
	W    uint8  `json:"w,omitempty"`
}

type prioStep struct {
	Op      prioOp   `json:"op"`
	Post    prioSnap `json:"post"`
	Acyclic bool     `json:"acyclic"`
}

type prioCase struct {
	ID   int        `json:"id"`
	Pre  *prioSnap  `json:"pre,omitempty"` // single transition: pre/op/post
	Op   *prioOp    `json:"op,omitempty"`
	Post *prioSnap  `json:"post,omitempty"`
	Ops  []prioStep `json:"ops,omitempty"` // history from the initial state
}

func prioApply(t *bfe_http2.VerifH2libTree, op prioOp) (sig string, detail string) {
	p := bfe_http2.PriorityParam{StreamDep: op.Dep, Exclusive: op.Excl, Weight: op.W}
	var err error
	pan, fin := vh.GuardTimeout(3*time.Second, func() {
		switch op.K {
		case "open":
			t.Open(op.S, op.Hp, p)
		case "prio":
			err = t.Priority(op.S, p)
		case "close":
			t.Close(op.S)
		}
	})
	shape := fmt.Sprintf("%s/excl=%v", op.K, op.Excl)
	if !fin {
		return "hang/" + shape, "operation did not return within 3s"
	}
	if pan != "" {
		return "panic/" + shape, pan
	}
	if err != nil {
		return "error/" + shape, err.Error()
	}
	return "", ""
}

// prioCheck compares the real tree with the expected snapshot: Layer P = acyclic, Layer M = equal maps.
func prioCheck(t *bfe_http2.VerifH2libTree, n int, want prioSnap, op prioOp) (sig, detail, drift string) {
	par := t.Parents()
	for id := uint32(1); id <= uint32(n); id++ {
		if _, ok := par[id]; !ok {
			continue
		}
		if t.WalkLen(id, len(par)+1) < 0 {
			return fmt.Sprintf("cycle/%s/excl=%v", op.K, op.Excl),
				fmt.Sprintf("ancestor walk from stream %d does not reach the root; parents=%v", id, par), ""
		}
	}
	for i := 0; i < n; i++ {
		id := uint32(i + 1)
		got, exists := par[id]
		open := t.IsOpen(id)
		wantSt := want.St[i]
		gotSt := "idle"
		if exists && open {
			gotSt = "open"
		} else if exists {
			gotSt = "closed"
		}
		if exists && !open && !t.StateClosed(id) {
			return "", "", fmt.Sprintf("op %+v: stream %d left the map without state == stateClosed", op, id)
		}
		if gotSt != wantSt || (exists && got != want.Par[i]) {
			return "", "", fmt.Sprintf("op %+v: stream %d status/parent real=%s/%d model=%s/%d (real parents %v)",
				op, id, gotSt, got, wantSt, want.Par[i], par)
		}
	}
	return "", "", ""
}

func prioBuild(s prioSnap) *bfe_http2.VerifH2libTree {
	t := bfe_http2.VerifH2libNewTree()
	for i, st := range s.St {
		if st != "idle" {
			t.Put(uint32(i+1), st == "open")
		}
	}
	for i, st := range s.St {
		if st != "idle" {
			t.SetParent(uint32(i+1), s.Par[i])
		}
	}
	return t
}

func prioRun() {
	vh.EachCase(func(line []byte) {
		var c prioCase
		if err := json.Unmarshal(line, &c); err != nil {
			vh.Emit(map[string]interface{}{"_bad_case": err.Error()})
			return
		}
		res := vh.Result{ID: c.ID, OK: true}
		if c.Pre != nil {
			t := prioBuild(*c.Pre)
			n := len(c.Pre.St)
			if sig, det := prioApply(t, *c.Op); sig != "" {
				res.OK, res.Sig, res.Detail = false, sig, det
			} else if sig, det, drift := prioCheck(t, n, *c.Post, *c.Op); sig != "" {
				res.OK, res.Sig, res.Detail = false, sig, det
			} else {
				res.Drift = drift
			}
			emitRes(res)
			return
		}
		t := bfe_http2.VerifH2libNewTree()
		for k, st := range c.Ops {
			n := len(st.Post.St)
			if sig, det := prioApply(t, st.Op); sig != "" {
				res.OK, res.Sig, res.Detail = false, sig, fmt.Sprintf("step %d: %s", k, det)
				res.Obs = k
				break
			}
			sig, det, drift := prioCheck(t, n, st.Post, st.Op)
			if sig != "" {
				res.OK, res.Sig, res.Detail = false, sig, fmt.Sprintf("step %d: %s", k, det)
				res.Obs = k
				break
			}
			if drift != "" {
				res.Drift = fmt.Sprintf("step %d: %s", k, drift)
				res.Obs = k
				break
			}
		}
		emitRes(res)
	})
}
