package main

import (
	"bytes"
	"encoding/binary"
	"encoding/json"
	"fmt"
	"math/rand"
	"sort"
	"strings"

	h2 "github.com/bfenetworks/bfe/bfe_http2"
	xh2 "golang.org/x/net/http2"

	"verifharness/vh"
)

// ---- case as printed by GenFrame.tla

type frShape struct {
	T   int    `json:"t"`
	Fl  []int  `json:"fl"`
	Sid int    `json:"sid"`
	R   bool   `json:"r"`
	Len int    `json:"len"`
	Pad int    `json:"pad"`
	Sv  string `json:"sv"`
	Wi  string `json:"wi"`
}

type frCase struct {
	ID      int         `json:"id"`
	Cname   string      `json:"cname"`
	Ctx     []frShape   `json:"ctx"`
	Sh      frShape     `json:"sh"`
	Exp     int         `json:"exp"`
	Gray    bool        `json:"gray"`
	Allowed [][2]string `json:"allowed"`
	M       [2]string   `json:"m"`
	Off     int         `json:"off"`
	Dlen    int         `json:"dlen"`
	Padv    int         `json:"padv"`
	Nexp    int         `json:"nexp"`
	Probe   [][2]string `json:"probe"`
	Alt     int         `json:"alt,omitempty"` // 0 = canonical representative, k>0 = seeded alternative k
}

const frMaxRead = 16384

var frTypeName = []string{"DATA", "HEADERS", "PRIORITY", "RST_STREAM", "SETTINGS", "PUSH_PROMISE", "PING",
	"GOAWAY", "WINDOW_UPDATE", "CONTINUATION", "UNKNOWN"}

func (s frShape) flags() byte {
	var b byte
	for _, f := range s.Fl {
		b |= byte(f)
	}
	return b
}

func (s frShape) has(f int) bool {
	for _, x := range s.Fl {
		if x == f {
			return true
		}
	}
	return false
}

// concretisation of the abstract classes (alphabet): alt 0 is canonical, others seeded
type frConc struct {
	sid     map[int]uint32 // class 0,1,3 -> stream id
	unknown byte           // frame type octet for t = 10
	rnd     *rand.Rand
	resv    bool // set reserved bits inside payload fields too
}

func newConc(alt int, id int) *frConc {
	c := &frConc{sid: map[int]uint32{0: 0, 1: 1, 3: 3}, unknown: 0x0b}
	c.rnd = rand.New(rand.NewSource(vh.Seed()*7919 + int64(alt)*104729 + int64(id)))
	if alt > 0 {
		a := uint32(c.rnd.Int31n(1<<30))*2 + 1
		b := uint32(c.rnd.Int31n(1<<30))*2 + 1
		for b == a {
			b = uint32(c.rnd.Int31n(1<<30))*2 + 1
		}
		if alt%2 == 0 {
			a = 1<<31 - 1
		}
		c.sid[1], c.sid[3] = a, b
		c.unknown = []byte{0x0a, 0x0c, 0x7f, 0xff, 0x10}[c.rnd.Intn(5)]
	}
	return c
}

// frame fields the harness puts on the wire (and expects back / passes to the Write API)
type frFields struct {
	data      []byte // data / fragment / opaque / debug
	dep       uint32
	excl      bool
	weight    byte
	promise   uint32
	code      uint32
	last      uint32
	incr      uint32
	settings  []h2.Setting
	ping      [8]byte
	padZeroed bool
}

func svSetting(sv string) h2.Setting {
	switch sv {
	case "iw_max":
		return h2.Setting{ID: h2.SettingInitialWindowSize, Val: 1<<31 - 1}
	case "iw_over":
		return h2.Setting{ID: h2.SettingInitialWindowSize, Val: 1 << 31}
	case "push2":
		return h2.Setting{ID: h2.SettingEnablePush, Val: 2}
	case "mfs_low":
		return h2.Setting{ID: h2.SettingMaxFrameSize, Val: 16383}
	case "mfs_ok":
		return h2.Setting{ID: h2.SettingMaxFrameSize, Val: 16384}
	case "mfs_high":
		return h2.Setting{ID: h2.SettingMaxFrameSize, Val: 1 << 24}
	case "unknown_id":
		return h2.Setting{ID: 0x99, Val: 0xffffffff}
	}
	return h2.Setting{ID: h2.SettingMaxConcurrentStreams, Val: 100}
}

// buildRaw lays the shape out as octets following RFC 7540 section 4.1 / 6.x.
func buildRaw(s frShape, c *frConc, off, dlen int, valid bool) ([]byte, *frFields) {
	ff := &frFields{}
	p := make([]byte, s.Len)
	for i := range p {
		p[i] = byte(1 + c.rnd.Intn(255))
	}
	padded := (s.T == 0 || s.T == 1 || s.T == 5) && s.has(8)
	pos := 0
	if padded && len(p) > 0 {
		p[0] = byte(s.Pad)
		pos = 1
	}
	put32 := func(v uint32) bool {
		if pos+4 > len(p) {
			return false
		}
		binary.BigEndian.PutUint32(p[pos:], v)
		pos += 4
		return true
	}
	resv := uint32(0)
	if s.R {
		resv = 1 << 31
	}
	switch s.T {
	case 1:
		if s.has(32) {
			ff.dep, ff.excl, ff.weight = 5+uint32(c.rnd.Intn(3)), c.rnd.Intn(2) == 0, byte(1+c.rnd.Intn(255))
			v := ff.dep
			if ff.excl {
				v |= 1 << 31
			}
			if put32(v) && pos < len(p) {
				p[pos] = ff.weight
				pos++
			}
		}
	case 2:
		ff.dep, ff.excl, ff.weight = 7, c.rnd.Intn(2) == 0, byte(c.rnd.Intn(256))
		v := ff.dep
		if ff.excl {
			v |= 1 << 31
		}
		if put32(v) && pos < len(p) {
			p[pos] = ff.weight
		}
	case 3:
		ff.code = uint32(c.rnd.Intn(14))
		put32(ff.code)
	case 4:
		for i := 0; i+6 <= len(p); i += 6 {
			st := h2.Setting{ID: h2.SettingMaxConcurrentStreams, Val: uint32(100 + i)}
			if i == 0 {
				st = svSetting(s.Sv)
			}
			binary.BigEndian.PutUint16(p[i:], uint16(st.ID))
			binary.BigEndian.PutUint32(p[i+2:], st.Val)
			ff.settings = append(ff.settings, st)
		}
	case 5:
		ff.promise = 2
		put32(ff.promise | resv)
	case 6:
		copy(ff.ping[:], p)
	case 7:
		ff.last, ff.code = 7, 2
		if put32(ff.last|resv) && put32(ff.code) {
			ff.data = p[pos:]
		}
	case 8:
		switch s.Wi {
		case "zero":
			ff.incr = 0
		case "one":
			ff.incr = 1
		case "max":
			ff.incr = 1<<31 - 1
		case "zero_r":
			ff.incr = 1 << 31
		case "one_r":
			ff.incr = 1<<31 + 1
		}
		put32(ff.incr)
		ff.incr &= 1<<31 - 1
	}
	if valid && (s.T == 0 || s.T == 1 || s.T == 5 || s.T == 9 || s.T == 10) {
		ff.data = p[off : off+dlen]
		for i := off + dlen; i < len(p); i++ {
			p[i] = 0 // padding octets
		}
		ff.padZeroed = true
	}
	hdr := make([]byte, 9, 9+len(p))
	hdr[0], hdr[1], hdr[2] = byte(s.Len>>16), byte(s.Len>>8), byte(s.Len)
	if s.T <= 9 {
		hdr[3] = byte(s.T)
	} else {
		hdr[3] = c.unknown
	}
	hdr[4] = s.flags()
	binary.BigEndian.PutUint32(hdr[5:], c.sid[s.Sid]|resv)
	return append(hdr, p...), ff
}

func codeName(c uint32) string {
	switch c {
	case 1:
		return "PROTOCOL"
	case 3:
		return "FLOW_CONTROL"
	case 6:
		return "FRAME_SIZE"
	}
	return fmt.Sprintf("CODE_%d", c)
}

// classify turns a bfe_http2 read error into the spec's <<class, code>>.
func classify(err error, sid uint32) ([2]string, string) {
	switch e := err.(type) {
	case nil:
		return [2]string{"ok", ""}, ""
	case h2.ConnectionError:
		return [2]string{"conn", codeName(uint32(e.Code))}, ""
	case h2.StreamError:
		if e.StreamID != sid {
			return [2]string{"stream", codeName(uint32(e.Code))}, fmt.Sprintf("stream error names stream %d, frame was on %d", e.StreamID, sid)
		}
		return [2]string{"stream", codeName(uint32(e.Code))}, ""
	}
	if err == h2.ErrFrameTooLarge {
		return [2]string{"toolarge", "FRAME_SIZE"}, ""
	}
	return [2]string{"untyped", ""}, ""
}

func xclassify(err error) [2]string {
	switch e := err.(type) {
	case nil:
		return [2]string{"ok", ""}
	case xh2.ConnectionError:
		return [2]string{"conn", codeName(uint32(e))}
	case xh2.StreamError:
		return [2]string{"stream", codeName(uint32(e.Code))}
	}
	if err == xh2.ErrFrameTooLarge {
		return [2]string{"toolarge", "FRAME_SIZE"}
	}
	return [2]string{"untyped", ""}
}

func inSet(v [2]string, set [][2]string) bool {
	for _, a := range set {
		if a == v {
			return true
		}
	}
	return false
}

func setStr(set [][2]string) string {
	var s []string
	for _, a := range set {
		s = append(s, a[0]+":"+a[1])
	}
	sort.Strings(s)
	return strings.Join(s, ",")
}

// readOne reads one frame (and applies Setting.Valid to SETTINGS parameters, which is where this
// code base enforces the SETTINGS value rules of RFC 7540 6.5.2).
func readOne(fr *h2.Framer, sid uint32) (f h2.Frame, v [2]string, note string, pan string) {
	var err error
	pan = vh.Guard(func() {
		f, err = fr.ReadFrame()
		if err == nil {
			if sf, ok := f.(*h2.SettingsFrame); ok && !sf.IsAck() {
				err = sf.ForeachSetting(func(s h2.Setting) error { return s.Valid() })
			}
		}
	})
	if pan != "" {
		return nil, [2]string{"panic", ""}, "", pan
	}
	v, note = classify(err, sid)
	return
}

// fieldsOf compares a frame read by bfe with what was put on the wire; returns "" or the name of
// the first differing field.
func fieldsOf(f h2.Frame, s frShape, c *frConc, ff *frFields, wantFlags byte) string {
	h := f.Header()
	wantType := byte(s.T)
	if s.T > 9 {
		wantType = c.unknown
	}
	if byte(h.Type) != wantType {
		return fmt.Sprintf("type got=%d want=%d", h.Type, wantType)
	}
	if byte(h.Flags) != wantFlags {
		return fmt.Sprintf("flags got=%#x want=%#x", byte(h.Flags), wantFlags)
	}
	if h.StreamID != c.sid[s.Sid] {
		return fmt.Sprintf("stream got=%d want=%d", h.StreamID, c.sid[s.Sid])
	}
	if int(h.Length) != s.Len {
		return fmt.Sprintf("length got=%d want=%d", h.Length, s.Len)
	}
	eq := func(name string, got, want []byte) string {
		if !bytes.Equal(got, want) {
			return fmt.Sprintf("%s got=%d octets %x.. want=%d octets %x..", name, len(got), head(got), len(want), head(want))
		}
		return ""
	}
	switch x := f.(type) {
	case *h2.DataFrame:
		if s.T != 0 {
			return "gotype"
		}
		if x.StreamEnded() != s.has(1) {
			return "end_stream"
		}
		return eq("data", x.Data(), ff.data)
	case *h2.HeadersFrame:
		if s.T != 1 {
			return "gotype"
		}
		if x.StreamEnded() != s.has(1) || x.HeadersEnded() != s.has(4) || x.HasPriority() != s.has(32) {
			return "flag accessors"
		}
		if s.has(32) && (x.Priority.StreamDep != ff.dep || x.Priority.Exclusive != ff.excl || x.Priority.Weight != ff.weight) {
			return fmt.Sprintf("priority got=%+v want=%d/%v/%d", x.Priority, ff.dep, ff.excl, ff.weight)
		}
		return eq("fragment", x.HeaderBlockFragment(), ff.data)
	case *h2.PriorityFrame:
		if s.T != 2 {
			return "gotype"
		}
		if x.StreamDep != ff.dep || x.Exclusive != ff.excl || x.Weight != ff.weight {
			return fmt.Sprintf("priority got=%+v want=%d/%v/%d", x.PriorityParam, ff.dep, ff.excl, ff.weight)
		}
	case *h2.RSTStreamFrame:
		if s.T != 3 {
			return "gotype"
		}
		if uint32(x.ErrCode) != ff.code {
			return "errcode"
		}
	case *h2.SettingsFrame:
		if s.T != 4 {
			return "gotype"
		}
		if x.IsAck() != s.has(1) {
			return "ack"
		}
		var got []h2.Setting
		x.ForeachSetting(func(st h2.Setting) error { got = append(got, st); return nil })
		if len(got) != len(ff.settings) {
			return fmt.Sprintf("settings count got=%d want=%d", len(got), len(ff.settings))
		}
		for i := range got {
			if got[i] != ff.settings[i] {
				return fmt.Sprintf("setting %d got=%v want=%v", i, got[i], ff.settings[i])
			}
		}
		if len(got) > 0 {
			if v, ok := x.Value(got[0].ID); !ok || v != got[0].Val {
				return "settings Value()"
			}
		}
	case *h2.PushPromiseFrame:
		if s.T != 5 {
			return "gotype"
		}
		if x.PromiseID != ff.promise {
			return fmt.Sprintf("promise got=%d want=%d", x.PromiseID, ff.promise)
		}
		if x.HeadersEnded() != s.has(4) {
			return "end_headers"
		}
		return eq("fragment", x.HeaderBlockFragment(), ff.data)
	case *h2.PingFrame:
		if s.T != 6 {
			return "gotype"
		}
		if x.IsAck() != s.has(1) {
			return "ack"
		}
		return eq("ping", x.Data[:], ff.ping[:])
	case *h2.GoAwayFrame:
		if s.T != 7 {
			return "gotype"
		}
		if x.LastStreamID != ff.last || uint32(x.ErrCode) != ff.code {
			return fmt.Sprintf("goaway got=%d/%d want=%d/%d", x.LastStreamID, x.ErrCode, ff.last, ff.code)
		}
		return eq("debug", x.DebugData(), ff.data)
	case *h2.WindowUpdateFrame:
		if s.T != 8 {
			return "gotype"
		}
		if x.Increment != ff.incr {
			return fmt.Sprintf("increment got=%d want=%d", x.Increment, ff.incr)
		}
	case *h2.ContinuationFrame:
		if s.T != 9 {
			return "gotype"
		}
		if x.HeadersEnded() != s.has(4) {
			return "end_headers"
		}
		return eq("fragment", x.HeaderBlockFragment(), ff.data)
	case *h2.UnknownFrame:
		if s.T != 10 {
			return "gotype"
		}
		return eq("payload", x.Payload(), ff.data)
	default:
		return fmt.Sprintf("unexpected frame type %T", f)
	}
	return ""
}

func head(b []byte) []byte {
	if len(b) > 12 {
		return b[:12]
	}
	return b
}

// writeAPI produces the same frame through the Framer's Write methods when they can express it.
func writeAPI(s frShape, c *frConc, ff *frFields, padv int) (out []byte, used string, err error) {
	var buf bytes.Buffer
	fr := h2.NewFramer(&buf, nil)
	sid := c.sid[s.Sid]
	padded := s.has(8)
	fl := s.flags()
	if s.R || s.Wi == "one_r" {
		return nil, "", nil // the Write methods cannot set reserved bits
	}
	switch s.T {
	case 0:
		if fl&^0x9 != 0 {
			return nil, "", nil
		}
		var pad []byte
		if padded {
			pad = make([]byte, padv)
		}
		used, err = "WriteDataPadded", fr.WriteDataPadded(sid, s.has(1), ff.data, pad)
	case 1:
		if padded && padv == 0 {
			return nil, "", nil
		}
		p := h2.HeadersFrameParam{StreamID: sid, BlockFragment: ff.data, EndStream: s.has(1), EndHeaders: s.has(4)}
		if padded {
			p.PadLength = uint8(padv)
		}
		if s.has(32) {
			p.Priority = h2.PriorityParam{StreamDep: ff.dep, Exclusive: ff.excl, Weight: ff.weight}
		}
		used, err = "WriteHeaders", fr.WriteHeaders(p)
	case 2:
		if fl != 0 {
			return nil, "", nil
		}
		used, err = "WritePriority", fr.WritePriority(sid, h2.PriorityParam{StreamDep: ff.dep, Exclusive: ff.excl, Weight: ff.weight})
	case 3:
		if fl != 0 {
			return nil, "", nil
		}
		used, err = "WriteRSTStream", fr.WriteRSTStream(sid, h2.ErrCode(ff.code))
	case 4:
		if fl == 1 && s.Len == 0 {
			used, err = "WriteSettingsAck", fr.WriteSettingsAck()
		} else if fl == 0 {
			used, err = "WriteSettings", fr.WriteSettings(ff.settings...)
		} else {
			return nil, "", nil
		}
	case 5:
		if fl&^0xc != 0 || (padded && padv == 0) {
			return nil, "", nil
		}
		p := h2.PushPromiseParam{StreamID: sid, PromiseID: ff.promise, BlockFragment: ff.data, EndHeaders: s.has(4)}
		if padded {
			p.PadLength = uint8(padv)
		}
		used, err = "WritePushPromise", fr.WritePushPromise(p)
	case 6:
		if fl&^0x1 != 0 {
			return nil, "", nil
		}
		used, err = "WritePing", fr.WritePing(s.has(1), ff.ping)
	case 7:
		if fl != 0 {
			return nil, "", nil
		}
		used, err = "WriteGoAway", fr.WriteGoAway(ff.last, h2.ErrCode(ff.code), ff.data)
	case 8:
		if fl != 0 {
			return nil, "", nil
		}
		used, err = "WriteWindowUpdate", fr.WriteWindowUpdate(sid, ff.incr)
	case 9:
		if fl&^0x4 != 0 {
			return nil, "", nil
		}
		used, err = "WriteContinuation", fr.WriteContinuation(sid, s.has(4), ff.data)
	default:
		used, err = "WriteRawFrame", fr.WriteRawFrame(h2.FrameType(c.unknown), h2.Flags(fl), sid, ff.data)
	}
	return buf.Bytes(), used, err
}

func shapeSig(c *frCase) string {
	s := c.Sh
	fl := 0
	for _, f := range s.Fl {
		fl |= f
	}
	r := ""
	if s.R {
		r = "/r"
	}
	extra := ""
	if s.T == 4 {
		extra = "/sv=" + s.Sv
	}
	if s.T == 8 {
		extra = "/wi=" + s.Wi
	}
	padded := (s.T == 0 || s.T == 1 || s.T == 5) && s.has(8)
	if padded {
		extra += fmt.Sprintf("/pad=%d", s.Pad)
	}
	return fmt.Sprintf("%s/fl=%#x/sid=%d%s/len=%d%s/ctx=%s", frTypeName[s.T], fl, s.Sid, r, s.Len, extra, c.Cname)
}

func frameRun() {
	vh.EachCase(func(line []byte) {
		var c frCase
		if err := json.Unmarshal(line, &c); err != nil {
			vh.Emit(map[string]interface{}{"_bad_case": err.Error()})
			return
		}
		res := vh.Result{ID: c.ID, OK: true}
		fail := func(sig, detail string) {
			if res.OK {
				res.OK, res.Sig, res.Detail = false, sig, detail
			}
		}
		conc := newConc(c.Alt, c.ID)
		valid := !c.Gray && len(c.Allowed) == 1 && c.Allowed[0][0] == "ok"
		// layout of gray HEADERS (empty fragment) is still well defined
		layoutOK := valid || (c.Gray && c.Exp != -1 && c.Dlen >= 0 && c.Off+c.Dlen <= c.Sh.Len)
		var stream bytes.Buffer
		for _, cs := range c.Ctx {
			off := 0
			if cs.T == 5 {
				off = 4
			}
			b, _ := buildRaw(cs, conc, off, cs.Len-off, true)
			stream.Write(b)
		}
		raw, ff := buildRaw(c.Sh, conc, c.Off, c.Dlen, layoutOK)
		stream.Write(raw)
		// probe: a PING after the frame shows the reader's CONTINUATION state
		ping := frShape{T: 6, Len: 8}
		pb, _ := buildRaw(ping, conc, 0, 8, true)
		stream.Write(pb)
		all := append([]byte(nil), stream.Bytes()...)

		fr := h2.NewFramer(nil, &stream)
		fr.SetMaxReadFrameSize(frMaxRead)
		for i, cs := range c.Ctx {
			_, v, _, pan := readOne(fr, conc.sid[cs.Sid])
			if pan != "" {
				fail("panic/context/"+c.Cname, pan)
			} else if v[0] != "ok" && c.Exp != -1 {
				fail(fmt.Sprintf("context-rejected/%s/%d", c.Cname, i), fmt.Sprintf("valid context frame %d (%+v) answered %v", i, cs, v))
			}
			if !res.OK {
				emitRes(res)
				return
			}
		}
		sid := conc.sid[c.Sh.Sid]
		f, v, note, pan := readOne(fr, sid)
		obs := map[string]interface{}{"got": v[0] + ":" + v[1]}
		res.Obs = obs
		sg := shapeSig(&c)
		switch {
		case pan != "":
			fail("panic/"+sg, pan)
		case c.Gray:
			// no verdict
		case !inSet(v, c.Allowed):
			fail(fmt.Sprintf("verdict/%s/got=%s:%s", sg, v[0], v[1]),
				fmt.Sprintf("RFC 7540 allows {%s}; ReadFrame answered %s:%s; frame octets (head) %x", setStr(c.Allowed), v[0], v[1], head(raw)))
		case note != "":
			fail("stream-id/"+sg, note)
		case v[0] == "ok":
			if d := fieldsOf(f, c.Sh, conc, ff, c.Sh.flags()); d != "" {
				fail("field/"+sg+"/"+strings.SplitN(d, " ", 2)[0], "read back differs from the octets on the wire: "+d)
			}
		}
		if res.OK && v != c.M && !c.Gray {
			res.Drift = fmt.Sprintf("%s: code answered %v, mechanism model %v", sg, v, c.M)
		}
		// reader state after an accepted frame
		if res.OK && v[0] == "ok" && !c.Gray && c.Nexp != -1 && len(c.Probe) > 0 {
			_, pv, _, ppan := readOne(fr, 0)
			if ppan != "" {
				fail("panic/probe/"+sg, ppan)
			} else if !inSet(pv, c.Probe) {
				fail(fmt.Sprintf("sequencing/%s/probe=%s:%s", sg, pv[0], pv[1]),
					fmt.Sprintf("after this frame the reader expects CONTINUATION for stream class %d; a PING was answered %v, allowed {%s}", c.Nexp, pv, setStr(c.Probe)))
			}
		}
		// Write API -> ReadFrame round trip
		if res.OK && valid {
			var wb []byte
			var used string
			var werr error
			wpan := vh.Guard(func() { wb, used, werr = writeAPI(c.Sh, conc, ff, c.Padv) })
			if wpan != "" {
				fail("panic/write/"+sg, wpan)
			} else if used != "" {
				obs["api"] = used
				if werr != nil {
					fail("write-error/"+sg, fmt.Sprintf("%s refused valid parameters: %v", used, werr))
				} else {
					rfr := h2.NewFramer(nil, bytes.NewReader(wb))
					rfr.SetMaxReadFrameSize(frMaxRead)
					rfr.AllowIllegalReads = true // a lone CONTINUATION is read back on its own
					var rf h2.Frame
					var rerr error
					rpan := vh.Guard(func() { rf, rerr = rfr.ReadFrame() })
					if rpan != "" {
						fail("panic/roundtrip/"+sg, rpan)
					} else if rerr != nil {
						fail("roundtrip/"+sg+"/read-error", fmt.Sprintf("%s wrote %x..; ReadFrame: %v", used, head(wb), rerr))
					} else if d := fieldsOf(rf, c.Sh, conc, ff, c.Sh.flags()); d != "" {
						fail("roundtrip/"+sg+"/"+strings.SplitN(d, " ", 2)[0], fmt.Sprintf("%s then ReadFrame: %s", used, d))
					} else if !bytes.Equal(wb, raw) && res.Drift == "" {
						res.Drift = fmt.Sprintf("%s: %s octets differ from the RFC layout built by the harness", sg, used)
					}
				}
			}
		}
		// independent witness (diagnostic): golang.org/x/net/http2.Framer on the same octets
		xfr := xh2.NewFramer(nil, bytes.NewReader(all))
		xfr.SetMaxReadFrameSize(frMaxRead)
		var xv [2]string
		xpan := vh.Guard(func() {
			for range c.Ctx {
				xfr.ReadFrame()
			}
			xf, xerr := xfr.ReadFrame()
			if xerr == nil {
				if sf, ok := xf.(*xh2.SettingsFrame); ok && !sf.IsAck() {
					xerr = sf.ForeachSetting(func(s xh2.Setting) error { return s.Valid() })
				}
			}
			xv = xclassify(xerr)
		})
		if xpan == "" && xv != v {
			obs["xnet"] = xv[0] + ":" + xv[1]
		}
		emitRes(res)
	})
}
