package main

import (
	"bytes"
	"encoding/json"
	"errors"
	"fmt"
	"math/rand"
	"strings"

	"github.com/bfenetworks/bfe/bfe_http2/hpack"
	xhpack "golang.org/x/net/http2/hpack"

	"verifharness/vh"
)

// ---------------------------------------------------------------- shared types

type hpField struct {
	N string `json:"n"`
	V string `json:"v"`
	S bool   `json:"s"`
}

type hpEnt struct {
	N string `json:"n"`
	V string `json:"v"`
}

// a representation, as in specs/H2/HpackP.tla
type hpRep struct {
	K string `json:"k"` // idx | inc | lit | nev | upd
	I uint64 `json:"i"`
	N string `json:"n"`
	V string `json:"v"`
}

type hpOp struct {
	Op       string  `json:"op"` // field | end | setmax | setlimit
	F        hpField `json:"f"`
	Reps     []hpRep `json:"reps"`
	Arg      uint32  `json:"arg"`
	Etab     []hpEnt `json:"etab"`
	Emax     uint32  `json:"emax"`
	Elimit   uint32  `json:"elimit"`
	Dtab     []hpEnt `json:"dtab"`
	Dmax     uint32  `json:"dmax"`
	Dallowed uint32  `json:"dallowed"`
	Sig      int64   `json:"sig"` // RFC 7541 4.2: an update <= Sig must open the block (-1: no obligation)
}

type hpCase struct {
	ID  int    `json:"id"`
	Ops []hpOp `json:"ops"`
	Alt int    `json:"alt,omitempty"`
}

// ---------------------------------------------------------------- independent wire parser
// RFC 7541 section 5/6 reader used only to look at what the encoder put on the wire; Huffman
// strings are decoded with golang.org/x/net's (independent) decoder.

func wpInt(n uint, p []byte) (uint64, []byte, error) {
	if len(p) == 0 {
		return 0, nil, errors.New("short")
	}
	mask := uint64(1)<<n - 1
	v := uint64(p[0]) & mask
	p = p[1:]
	if v < mask {
		return v, p, nil
	}
	var m uint
	for {
		if len(p) == 0 {
			return 0, nil, errors.New("short int")
		}
		b := p[0]
		p = p[1:]
		v += uint64(b&127) << m
		m += 7
		if b&128 == 0 {
			return v, p, nil
		}
		if m > 56 {
			return 0, nil, errors.New("int too long")
		}
	}
}

func wpStr(p []byte) (string, []byte, error) {
	if len(p) == 0 {
		return "", nil, errors.New("short")
	}
	huff := p[0]&128 != 0
	l, p, err := wpInt(7, p)
	if err != nil || uint64(len(p)) < l {
		return "", nil, errors.New("short string")
	}
	raw := p[:l]
	if !huff {
		return string(raw), p[l:], nil
	}
	s, err := xhpack.HuffmanDecodeToString(raw)
	return s, p[l:], err
}

func wpParse(p []byte) ([]hpRep, error) {
	var out []hpRep
	for len(p) > 0 {
		b := p[0]
		var r hpRep
		var err error
		switch {
		case b&128 != 0:
			r.K = "idx"
			r.I, p, err = wpInt(7, p)
		case b&224 == 32:
			r.K = "upd"
			r.I, p, err = wpInt(5, p)
		default:
			n := uint(4)
			switch {
			case b&192 == 64:
				r.K, n = "inc", 6
			case b&240 == 0:
				r.K = "lit"
			default:
				r.K = "nev"
			}
			r.I, p, err = wpInt(n, p)
			if err == nil && r.I == 0 {
				r.N, p, err = wpStr(p)
			}
			if err == nil {
				r.V, p, err = wpStr(p)
			}
		}
		if err != nil {
			return out, err
		}
		out = append(out, r)
	}
	return out, nil
}

// ---------------------------------------------------------------- the pair under test

type hpPair struct {
	buf   bytes.Buffer
	enc   *hpack.Encoder
	dec   *hpack.Decoder
	xdec  *xhpack.Decoder
	got   []hpField
	xgot  []hpField
	first bool
	// xdead: the witness is retired for the rest of the run.  golang.org/x/net's decoder (the
	// version /repo requires) refuses a second dynamic table size update at the start of a block
	// when its table is not empty, although RFC 7541 4.2 explicitly allows (and requires) two.
	xdead bool
}

func newPair() *hpPair {
	p := &hpPair{first: true}
	p.enc = hpack.NewEncoder(&p.buf)
	p.dec = hpack.NewDecoder(4096, func(f hpack.HeaderField) error {
		p.got = append(p.got, hpField{f.Name, f.Value, f.Sensitive})
		return nil
	})
	p.xdec = xhpack.NewDecoder(4096, func(f xhpack.HeaderField) {
		p.xgot = append(p.xgot, hpField{f.Name, f.Value, f.Sensitive})
	})
	return p
}

func tabOf(t hpack.VerifH2libTab) []hpEnt {
	out := make([]hpEnt, 0, len(t.Ents))
	for _, e := range t.Ents {
		out = append(out, hpEnt{e.Name, e.Value})
	}
	return out
}

func tabSize(t []hpEnt) uint32 {
	var s uint32
	for _, e := range t {
		s += uint32(len(e.N) + len(e.V) + 32)
	}
	return s
}

func isPrefix(a, b []hpEnt) bool {
	if len(a) > len(b) {
		return false
	}
	for i := range a {
		if a[i] != b[i] {
			return false
		}
	}
	return true
}

func eqTab(a, b []hpEnt) bool { return len(a) == len(b) && isPrefix(a, b) }

// what one field did
type hpObs struct {
	wire        []byte
	reps        []hpRep
	parseErr    string
	out, xout   []hpField
	err, xerr   string
	et, dt      hpack.VerifH2libTab
	panicked    string
	encodeError string
	xskip       bool
}

func (p *hpPair) field(f hpField) (o hpObs) {
	p.buf.Reset()
	p.got, p.xgot = nil, nil
	o.panicked = vh.Guard(func() {
		if err := p.enc.WriteField(hpack.HeaderField{Name: f.N, Value: f.V, Sensitive: f.S}); err != nil {
			o.encodeError = err.Error()
		}
		o.wire = append([]byte(nil), p.buf.Bytes()...)
		if _, err := p.dec.Write(o.wire); err != nil {
			o.err = err.Error()
		}
	})
	if o.panicked != "" {
		return
	}
	if xp := vh.Guard(func() {
		if _, err := p.xdec.Write(o.wire); err != nil {
			o.xerr = err.Error()
		}
	}); xp != "" {
		o.xerr = "witness panicked: " + xp
	}
	o.out, o.xout = p.got, p.xgot
	var err error
	if o.reps, err = wpParse(o.wire); err != nil {
		o.parseErr = err.Error()
	}
	nu := 0
	for _, r := range o.reps {
		if r.K == "upd" {
			nu++
		}
	}
	if nu >= 2 {
		p.xdead = true
	}
	o.xskip = p.xdead
	o.et, o.dt = p.enc.VerifH2libTable(), p.dec.VerifH2libTable()
	return
}

func (p *hpPair) end() (err, xerr string) {
	if e := p.dec.Close(); e != nil {
		err = e.Error()
	}
	if e := p.xdec.Close(); e != nil && !p.xdead {
		xerr = e.Error()
	}
	p.first = true
	return
}

func (p *hpPair) setMax(v uint32) {
	p.enc.SetMaxDynamicTableSize(v)
	p.dec.SetAllowedMaxDynamicTableSize(v)
	p.xdec.SetAllowedMaxDynamicTableSize(v)
}

func one(f hpField, got []hpField) bool { return len(got) == 1 && got[0] == f }

// layerP evaluates the wire-/API-level obligations of C30 on one observed field; "" = held.
func layerP(f hpField, o *hpObs, first bool, sig int64, limit uint32) (string, string) {
	switch {
	case o.panicked != "":
		return "panic", o.panicked
	case o.encodeError != "":
		return "encode-error", o.encodeError
	case o.err != "":
		return "decoder-error", fmt.Sprintf("own decoder rejects the encoder's output %x: %s", o.wire, o.err)
	case !one(f, o.out):
		return "roundtrip", fmt.Sprintf("in=%+v decoded=%+v wire=%x", f, o.out, o.wire)
	case o.xskip:
		// no witness verdict (see hpPair.xdead)
	case o.xerr != "":
		return "witness-error", fmt.Sprintf("golang.org/x/net decoder rejects the encoder's output %x: %s", o.wire, o.xerr)
	case !one(f, o.xout):
		return "witness-roundtrip", fmt.Sprintf("in=%+v x/net decoded=%+v wire=%x", f, o.xout, o.wire)
	}
	if o.parseErr != "" {
		return "wire-parse", fmt.Sprintf("wire %x: %s", o.wire, o.parseErr)
	}
	for k, r := range o.reps {
		if r.K == "upd" && !first {
			return "update-placement", fmt.Sprintf("size update inside a header block: reps=%+v", o.reps)
		}
		if r.K != "upd" && k != len(o.reps)-1 {
			return "wire-shape", fmt.Sprintf("more than one field representation: %+v", o.reps)
		}
	}
	if sig >= 0 && (len(o.reps) == 0 || o.reps[0].K != "upd" || int64(o.reps[0].I) > sig) {
		return "min-not-signalled", fmt.Sprintf("the peer lowered its table size to %d but the block starts with %+v", sig, o.reps)
	}
	et, dt := tabOf(o.et), tabOf(o.dt)
	switch {
	case tabSize(dt) != o.dt.Size || o.dt.Size > o.dt.Max || o.dt.Max > o.dt.Allowed:
		return "decoder-bounds", fmt.Sprintf("decoder table: entries %d octets, size field %d, max %d, allowed %d", tabSize(dt), o.dt.Size, o.dt.Max, o.dt.Allowed)
	case tabSize(et) != o.et.Size || o.et.Size > o.et.Max || o.et.Max > limit:
		return "encoder-bounds", fmt.Sprintf("encoder table: entries %d octets, size field %d, max %d, limit %d", tabSize(et), o.et.Size, o.et.Max, limit)
	case !isPrefix(et, dt) || o.et.Max != o.dt.Max:
		return "tables-diverged", fmt.Sprintf("encoder table %+v (max %d) is not the newest part of decoder table %+v (max %d)", et, o.et.Max, dt, o.dt.Max)
	}
	return "", ""
}

// ---------------------------------------------------------------- replay of GenHpack behaviours

var staticWords = map[string]bool{}

func init() {
	for _, w := range []string{":method", "GET", "POST", "cookie", ""} {
		staticWords[w] = true
	}
}

// concretise: alt 0 keeps the model's strings; alt > 0 replaces every string that is not a
// static-table word by a seeded random octet string of the same length (same entry sizes).
func concretise(c *hpCase) func(string) string {
	if c.Alt == 0 {
		return func(s string) string { return s }
	}
	rnd := rand.New(rand.NewSource(vh.Seed()*31337 + int64(c.Alt)*7 + int64(c.ID)))
	m := map[string]string{}
	used := map[string]bool{}
	return func(s string) string {
		if staticWords[s] {
			return s
		}
		if v, ok := m[s]; ok {
			return v
		}
		for {
			b := make([]byte, len(s))
			for i := range b {
				switch c.Alt % 3 {
				case 1:
					b[i] = byte(rnd.Intn(256)) // any octet: long Huffman codes, raw strings
				case 2:
					b[i] = "etaoinsrhl-0123456789"[rnd.Intn(21)] // short codes: Huffman wins
				default:
					b[i] = byte(32 + rnd.Intn(95))
				}
			}
			v := string(b)
			if !used[v] && !staticWords[v] {
				used[v] = true
				m[s] = v
				return v
			}
		}
	}
}

func repsEqual(a, b []hpRep) bool {
	if len(a) != len(b) {
		return false
	}
	for i := range a {
		if a[i] != b[i] {
			return false
		}
	}
	return true
}

func mapTab(t []hpEnt, cz func(string) string) []hpEnt {
	out := make([]hpEnt, len(t))
	for i, e := range t {
		out[i] = hpEnt{cz(e.N), cz(e.V)}
	}
	return out
}

func hpackRun() {
	vh.EachCase(func(line []byte) {
		var c hpCase
		if err := json.Unmarshal(line, &c); err != nil {
			vh.Emit(map[string]interface{}{"_bad_case": err.Error()})
			return
		}
		res := vh.Result{ID: c.ID, OK: true}
		cz := concretise(&c)
		p := newPair()
		limit := uint32(4096)
		for k, op := range c.Ops {
			switch op.Op {
			case "setmax":
				p.setMax(op.Arg)
			case "setlimit":
				p.enc.SetMaxDynamicTableSizeLimit(op.Arg)
				limit = op.Arg
			case "end":
				if e, xe := p.end(); e != "" || xe != "" {
					res.OK, res.Sig = false, "close-error"
					res.Detail = fmt.Sprintf("step %d: Close after a complete block: own=%q x/net=%q", k, e, xe)
				}
			case "field":
				f := hpField{cz(op.F.N), cz(op.F.V), op.F.S}
				o := p.field(f)
				why, det := layerP(f, &o, p.first, op.Sig, limit)
				p.first = false
				if why != "" {
					kind := "plain"
					if op.F.S {
						kind = "sensitive"
					}
					res.OK = false
					res.Sig = fmt.Sprintf("%s/%s/pending=%v", why, kind, len(op.Reps) > 1)
					res.Detail = fmt.Sprintf("step %d: %s", k, det)
					break
				}
				// Layer M: representation choice and exact tables
				want := make([]hpRep, len(op.Reps))
				for i, r := range op.Reps {
					want[i] = hpRep{r.K, r.I, cz(r.N), cz(r.V)}
					if r.K == "idx" || r.K == "upd" {
						want[i].N, want[i].V = "", ""
					}
				}
				if res.Drift == "" {
					if !repsEqual(o.reps, want) {
						res.Drift = fmt.Sprintf("step %d: wire %+v, mechanism model %+v", k, o.reps, want)
					} else if !eqTab(tabOf(o.et), mapTab(op.Etab, cz)) || !eqTab(tabOf(o.dt), mapTab(op.Dtab, cz)) ||
						o.et.Max != op.Emax || o.dt.Max != op.Dmax {
						res.Drift = fmt.Sprintf("step %d: tables enc=%+v/%d dec=%+v/%d, model enc=%+v/%d dec=%+v/%d", k,
							tabOf(o.et), o.et.Max, tabOf(o.dt), o.dt.Max, op.Etab, op.Emax, op.Dtab, op.Dmax)
					}
				}
			}
			if !res.OK {
				res.Obs = k
				break
			}
		}
		emitRes(res)
	})
}

// ---------------------------------------------------------------- recorded long runs (trace validation)

var recNames = []string{":method", ":path", ":status", ":authority", "cookie", "set-cookie", "accept-encoding",
	"content-length", "user-agent", "x-a", "x-bb", "x-forwarded-for", "authorization", "etag", "x-trace-id-0123456789"}

const recAlphabet = "abcdefghijklmnopqrstuvwxyzABCDEFGHIJKLMNOPQRSTUVWXYZ0123456789 -_.,;:/=+*()[]{}<>|~^`!@#$%&?'"

func recValue(r *rand.Rand, pool *[]string) string {
	if len(*pool) > 0 && r.Intn(3) > 0 {
		return (*pool)[r.Intn(len(*pool))]
	}
	var n int
	switch r.Intn(5) {
	case 0:
		n = 0
	case 1:
		n = 1 + r.Intn(4)
	case 2:
		n = 5 + r.Intn(20)
	case 3:
		n = 25 + r.Intn(60)
	default:
		n = []int{3, 4, 13, 100, 300}[r.Intn(5)]
	}
	var sb strings.Builder
	switch r.Intn(4) {
	case 0: // static-table values
		v := []string{"GET", "POST", "/", "/index.html", "200", "404", "gzip, deflate", "https"}[r.Intn(8)]
		*pool = append(*pool, v)
		return v
	case 1: // symbols with long Huffman codes: the raw form wins
		for i := 0; i < n; i++ {
			sb.WriteByte("<>{}|~^`\\#$@[]"[r.Intn(14)])
		}
	default:
		for i := 0; i < n; i++ {
			sb.WriteByte(recAlphabet[r.Intn(len(recAlphabet))])
		}
	}
	*pool = append(*pool, sb.String())
	return sb.String()
}

type recEvent struct {
	Cid      int       `json:"cid"`
	Ev       string    `json:"ev"`
	First    bool      `json:"first"`
	F        hpField   `json:"f"`
	Reps     []hpRep   `json:"reps"`
	Out      []hpField `json:"out"`
	Xout     []hpField `json:"xout"`
	Err      string    `json:"err"`
	Xerr     string    `json:"xerr"`
	Etab     []hpEnt   `json:"etab"`
	Esize    uint32    `json:"esize"`
	Emax     uint32    `json:"emax"`
	Elimit   uint32    `json:"elimit"`
	Dtab     []hpEnt   `json:"dtab"`
	Dsize    uint32    `json:"dsize"`
	Dmax     uint32    `json:"dmax"`
	Dallowed uint32    `json:"dallowed"`
	Arg      uint32    `json:"arg"`
	Wire     string    `json:"wire,omitempty"`
	Xskip    bool      `json:"xskip"`
}

func nz(e []hpEnt) []hpEnt {
	if e == nil {
		return []hpEnt{}
	}
	return e
}
func nzf(e []hpField) []hpField {
	if e == nil {
		return []hpField{}
	}
	return e
}
func nzr(e []hpRep) []hpRep {
	if e == nil {
		return []hpRep{}
	}
	return e
}

// hpackRecord: stdin = one line {"cases":N,"ops":M} (or explicit {"script":[...]} lines for replay);
// stdout = one event per operation.
func hpackRecord() {
	type script struct {
		ID       int    `json:"id"`
		Cases    int    `json:"cases"`
		Ops      int    `json:"ops"`
		Boundary bool   `json:"boundary"` // add the integer-coding boundary scripts
		Full     bool   `json:"full"`     // thorough tier: whole ranges instead of windows
		Script   []hpOp `json:"script"`
	}
	cid := 0
	vh.EachCase(func(line []byte) {
		var sc script
		if err := json.Unmarshal(line, &sc); err != nil {
			vh.Emit(map[string]interface{}{"_bad_case": err.Error()})
			return
		}
		var scripts [][]hpOp
		if sc.Script != nil {
			scripts = append(scripts, sc.Script)
		} else {
			for i := 0; i < sc.Cases; i++ {
				scripts = append(scripts, recScript(vh.Rand(int64(1000+i)), sc.Ops))
			}
			if sc.Boundary {
				scripts = append(scripts, boundaryScripts(vh.Rand(999), sc.Full)...)
			}
		}
		for _, ops := range scripts {
			cid++
			if sc.ID != 0 {
				cid = sc.ID
			}
			p := newPair()
			limit := uint32(4096)
			vh.Emit(recEvent{Cid: cid, Ev: "start", Reps: nzr(nil), Out: nzf(nil), Xout: nzf(nil), Etab: nz(nil), Dtab: nz(nil)})
			for _, op := range ops {
				ev := recEvent{Cid: cid, Ev: op.Op, Arg: op.Arg, F: op.F, Reps: nzr(nil), Out: nzf(nil), Xout: nzf(nil), Etab: nz(nil), Dtab: nz(nil)}
				switch op.Op {
				case "setmax":
					p.setMax(op.Arg)
				case "setlimit":
					p.enc.SetMaxDynamicTableSizeLimit(op.Arg)
					limit = op.Arg
				case "end":
					ev.Err, ev.Xerr = p.end()
				case "field":
					o := p.field(op.F)
					ev.First = p.first
					p.first = false
					ev.Reps, ev.Out, ev.Xout = nzr(o.reps), nzf(o.out), nzf(o.xout)
					ev.Err, ev.Xerr, ev.Xskip = o.err, o.xerr, o.xskip
					if o.panicked != "" {
						ev.Err = "panic: " + o.panicked
					} else if o.encodeError != "" {
						ev.Err = "encode: " + o.encodeError
					} else if o.parseErr != "" {
						ev.Err = "wire-parse: " + o.parseErr
					}
					ev.Etab, ev.Dtab = nz(tabOf(o.et)), nz(tabOf(o.dt))
					ev.Esize, ev.Emax, ev.Elimit = o.et.Size, o.et.Max, limit
					ev.Dsize, ev.Dmax, ev.Dallowed = o.dt.Size, o.dt.Max, o.dt.Allowed
					if len(o.wire) <= 64 {
						ev.Wire = fmt.Sprintf("%x", o.wire)
					}
				}
				vh.Emit(ev)
			}
		}
	})
}

// recScript draws one long run: header blocks of 1..8 fields, table-size changes between blocks.
func recScript(r *rand.Rand, n int) []hpOp {
	var ops []hpOp
	var pool []string
	sizes := []uint32{0, 1, 30, 31, 32, 33, 40, 64, 100, 128, 158, 159, 160, 200, 300, 512, 1000, 4096, 4097, 8192,
		16414, 16415, 16416, 65536}
	small := r.Intn(3) == 0
	if small { // start with a small table so that eviction happens all the time
		ops = append(ops, hpOp{Op: "setmax", Arg: sizes[4+r.Intn(7)]})
	}
	for len(ops) < n {
		switch x := r.Intn(100); {
		case x < 8:
			ops = append(ops, hpOp{Op: "setmax", Arg: sizes[r.Intn(len(sizes))]})
		case x < 11:
			ops = append(ops, hpOp{Op: "setlimit", Arg: sizes[r.Intn(len(sizes))]})
		case x < 14: // several changes in a row (minimum must be signalled)
			for k := 0; k < 2+r.Intn(2); k++ {
				ops = append(ops, hpOp{Op: "setmax", Arg: sizes[r.Intn(len(sizes))]})
			}
		default:
			for k := 1 + r.Intn(8); k > 0; k-- {
				f := hpField{N: recNames[r.Intn(len(recNames))], V: recValue(r, &pool), S: r.Intn(8) == 0}
				ops = append(ops, hpOp{Op: "field", F: f})
			}
			ops = append(ops, hpOp{Op: "end"})
		}
	}
	return ops
}

// ---------------------------------------------------------------- integer-coding boundaries
// RFC 7541 5.1: an integer with an N-bit prefix changes its octet count at 2^N-1, 2^N-1+128,
// 2^N-1+16384.  Every integer the encoder writes - string lengths (N = 7), indexed fields (7),
// name indices of literals (6 with indexing, 4 without), table sizes (5) - is driven across
// those points: bnd(N) = 2^N-2, 2^N-1, 2^N-1+127, +128, +129, +16383, +16384, +16385.

func bnd(n uint) []int {
	m := 1<<n - 1
	return []int{m - 1, m, m + 127, m + 128, m + 129, m + 16383, m + 16384, m + 16385}
}

func strOf(r *rand.Rand, charset string, n int) string {
	b := make([]byte, n)
	for i := range b {
		b[i] = charset[r.Intn(len(charset))]
	}
	return string(b)
}

func boundaryScripts(r *rand.Rand, full bool) [][]hpOp {
	const raw8 = "&*,;XZ"       // 8-bit Huffman codes: the raw form is used, encoded length = length
	const huff6 = "bdfghlmnpru" // 6-bit codes: encoded length = ceil(6n/8)
	const huff5 = "aceiost012"  // 5-bit codes: encoded length = ceil(5n/8)
	fld := func(n, v string, s bool) hpOp { return hpOp{Op: "field", F: hpField{N: n, V: v, S: s}} }
	end := hpOp{Op: "end"}
	var out [][]hpOp

	// 1. string lengths (7-bit prefix), values and names, raw and Huffman
	var a []hpOp
	encLens := bnd(7)
	for _, e := range encLens {
		if e > 300 && !full && e != 127+16384 {
			continue
		}
		big := e > 4000
		// raw: length e exactly; Huffman: every length whose encoded length is e
		a = append(a, fld("x-raw", strOf(r, raw8, e), big), end)
		for _, cs := range []struct {
			set  string
			bits int
		}{{huff6, 6}, {huff5, 5}} {
			if big && !full {
				continue
			}
			for n := (e*8 - 7 + cs.bits - 1) / cs.bits; (n*cs.bits+7)/8 <= e; n++ {
				if (n*cs.bits+7)/8 == e {
					a = append(a, fld("x-huff", strOf(r, cs.set, n), big || r.Intn(2) == 0))
					if !full {
						break
					}
				}
			}
			a = append(a, end)
		}
		if !big {
			a = append(a, fld(strOf(r, "abcdefghijklmnopqrstuvwxyz-", e), "v", r.Intn(2) == 0), end)
		}
	}
	out = append(out, a)

	// 2. table sizes (5-bit prefix), alone and as minimum followed by a larger final size
	var b []hpOp
	b = append(b, hpOp{Op: "setlimit", Arg: 65536})
	for _, v := range bnd(5) {
		b = append(b, hpOp{Op: "setmax", Arg: uint32(v)}, fld("x-a", strOf(r, huff5, 3), false), end)
		b = append(b, hpOp{Op: "setmax", Arg: uint32(v)}, hpOp{Op: "setmax", Arg: 20000},
			fld("x-b", strOf(r, huff5, 3), false), fld("x-a", "1", false), end)
	}
	out = append(out, b)

	// 3. indices: a ladder of K single-use names, then references to every rung
	//    7-bit (indexed field), 4-bit (never indexed, name index), 6-bit (incremental, name index)
	K := 200
	var c []hpOp
	c = append(c, hpOp{Op: "setlimit", Arg: 65536}, hpOp{Op: "setmax", Arg: 16384})
	name := func(i int) string { return fmt.Sprintf("k%03d", i) }
	for i := 0; i < K; i++ {
		c = append(c, fld(name(i), "", false))
		if i%8 == 7 {
			c = append(c, end)
		}
	}
	c = append(c, end)
	// rung i sits at dynamic position K-i, index 61+K-i
	want := func(n uint, idx int) bool {
		if full {
			return true
		}
		for _, v := range bnd(n) {
			if idx >= v-2 && idx <= v+2 {
				return true
			}
		}
		return false
	}
	for i := K - 1; i >= 0; i-- {
		if want(7, 61+K-i) {
			c = append(c, fld(name(i), "", false)) // exact match: indexed
		}
	}
	c = append(c, end)
	for i := K - 1; i >= 0; i-- {
		if want(4, 61+K-i) {
			c = append(c, fld(name(i), "s", true)) // never indexed, name by index
		}
	}
	c = append(c, end)
	added := 0
	for i := K - 1; i >= 0; i-- {
		if want(6, 61+K-i+added) {
			c = append(c, fld(name(i), "w", false)) // incremental indexing, name by index
			added++
		}
	}
	c = append(c, end)
	// static table: every entry by full match and by name
	for i := 0; i < 2; i++ {
		for _, e := range hpack.VerifH2libStatic() {
			if i == 0 {
				c = append(c, fld(e.Name, e.Value, false))
			} else {
				c = append(c, fld(e.Name, "q", true))
			}
		}
		c = append(c, end)
	}
	out = append(out, c)
	return out
}
