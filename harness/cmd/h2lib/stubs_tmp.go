package main

func hpackDecRun() {}
func huffTable()   {}
