package main

// C55: replay of GenFcgi cases on bfe_fcgi.
//
// The FastCGI application side (record reader/writer, name-value pair decoder) below is written
// from the FastCGI specification 1.0 (sections 3.3 records, 3.4 name-value pairs, 5.1-5.5 record
// types); it shares no code with bfe_fcgi.
//
// kind "req":  params with the name/value lengths chosen by TLC and a body are sent through the
//              real client (FCGIClient.Do on a net.Pipe, or Transport.RoundTrip on loopback TCP);
//              the application decodes what arrived and compares with what was handed to the client.
// kind "resp": the application answers with the record script chosen by TLC (STDOUT / STDERR /
//              END_REQUEST, paddings, write boundaries); the bytes the client returns must be the
//              concatenation of the records listed in `keep` (the STDOUT contents).

import (
	"bytes"
	"encoding/binary"
	"encoding/json"
	"errors"
	"fmt"
	"io"
	"io/ioutil"
	"math/rand"
	"net"
	"net/url"
	"strings"
	"time"

	"github.com/bfenetworks/bfe/bfe_fcgi"
	"github.com/bfenetworks/bfe/bfe_http"

	"verifharness/vh"
)

const (
	fcgiBegin  = 1
	fcgiAbort  = 2
	fcgiEnd    = 3
	fcgiParams = 4
	fcgiStdin  = 5
	fcgiStdout = 6
	fcgiStderr = 7
)

type fRec struct {
	Version byte
	Type    byte
	ID      uint16
	Content []byte
	Pad     int
}

// readRecord: FastCGI 3.3 — version, type, requestIdB1/B0, contentLengthB1/B0, paddingLength, reserved.
func readRecord(r io.Reader) (*fRec, error) {
	var h [8]byte
	if _, err := io.ReadFull(r, h[:]); err != nil {
		return nil, err
	}
	rec := &fRec{Version: h[0], Type: h[1], ID: binary.BigEndian.Uint16(h[2:4]), Pad: int(h[6])}
	cl := int(binary.BigEndian.Uint16(h[4:6]))
	rec.Content = make([]byte, cl)
	if _, err := io.ReadFull(r, rec.Content); err != nil {
		return rec, fmt.Errorf("record content: %v", err)
	}
	if _, err := io.CopyN(ioutil.Discard, r, int64(rec.Pad)); err != nil {
		return rec, fmt.Errorf("record padding: %v", err)
	}
	return rec, nil
}

func recordBytes(t byte, id uint16, content []byte, pad int) (hdr, c, p []byte) {
	hdr = []byte{1, t, byte(id >> 8), byte(id), byte(len(content) >> 8), byte(len(content)), byte(pad), 0}
	return hdr, content, bytes.Repeat([]byte{0x5a}, pad)
}

// decodePairs: FastCGI 3.4 — lengths of 1 byte (high bit 0) or 4 bytes (high bit 1, 31-bit value).
func decodePairs(b []byte) ([][2]string, error) {
	var out [][2]string
	rdLen := func() (int, error) {
		if len(b) < 1 {
			return 0, errors.New("truncated length")
		}
		if b[0]>>7 == 0 {
			n := int(b[0])
			b = b[1:]
			return n, nil
		}
		if len(b) < 4 {
			return 0, errors.New("truncated 4-byte length")
		}
		n := int(binary.BigEndian.Uint32(b[:4]) & 0x7fffffff)
		b = b[4:]
		return n, nil
	}
	for len(b) > 0 {
		nl, err := rdLen()
		if err != nil {
			return out, err
		}
		vl, err := rdLen()
		if err != nil {
			return out, err
		}
		if nl+vl > len(b) {
			return out, fmt.Errorf("pair of %d+%d bytes announced, %d bytes left", nl, vl, len(b))
		}
		out = append(out, [2]string{string(b[:nl]), string(b[nl : nl+vl])})
		b = b[nl+vl:]
	}
	return out, nil
}

type fcgiPair struct {
	NL int `json:"nl"`
	VL int `json:"vl"`
}

type fcgiScriptRec struct {
	T   string `json:"t"`   // out | err | end
	N   string `json:"n"`   // z (0) | t (1..7) | s (50..300) | m (65535)
	Pad int    `json:"pad"` // 0..255
}

type fcgiCase struct {
	ID     int             `json:"id"`
	Kind   string          `json:"kind"`
	API    string          `json:"api"`
	Pairs  []fcgiPair      `json:"pairs"`
	Body   int             `json:"body"`
	BChunk int             `json:"bchunk"`
	T      int             `json:"T"`
	MinRec int             `json:"minrec"`
	Script []fcgiScriptRec `json:"script"`
	Cuts   []int           `json:"cuts"`
	Keep   []int           `json:"keep"`
	ExpM   []int           `json:"expM"`
}

// what the application saw
type appView struct {
	recs []*fRec
	err  error
}

// serveApp reads one request (until the empty STDIN record), then writes the reply chunks.
func serveApp(conn net.Conn, reply [][]byte, done chan<- *appView) {
	v := &appView{}
	defer func() { done <- v }()
	conn.SetReadDeadline(time.Now().Add(15 * time.Second))
	for {
		rec, err := readRecord(conn)
		if rec != nil {
			v.recs = append(v.recs, rec)
		}
		if err != nil {
			v.err = err
			break
		}
		if rec.Version != 1 {
			v.err = fmt.Errorf("record %d has version %d", len(v.recs), rec.Version)
			break
		}
		if rec.Type == fcgiStdin && len(rec.Content) == 0 {
			break
		}
		if len(v.recs) > 4096 {
			v.err = errors.New("more than 4096 records")
			break
		}
	}
	conn.SetWriteDeadline(time.Now().Add(15 * time.Second))
	for _, ch := range reply {
		if len(ch) == 0 {
			continue
		}
		if _, err := conn.Write(ch); err != nil {
			break
		}
		if _, ok := conn.(*net.TCPConn); ok {
			time.Sleep(150 * time.Microsecond) // separate segments (best effort on TCP)
		}
	}
	conn.Close()
}

var stdReply = func() [][]byte {
	h1, c1, p1 := recordBytes(fcgiStdout, 1, []byte("Status: 200 OK\r\nContent-Type: text/plain\r\n\r\nok"), 2)
	h2, _, _ := recordBytes(fcgiStdout, 1, nil, 0)
	h3, c3, _ := recordBytes(fcgiEnd, 1, make([]byte, 8), 0)
	return [][]byte{bytes.Join([][]byte{h1, c1, p1, h2, h3, c3}, nil)}
}()

// chunkReader hands the body out in pieces of at most n bytes.
type chunkReader struct {
	b []byte
	n int
}

func (c *chunkReader) Read(p []byte) (int, error) {
	if len(c.b) == 0 {
		return 0, io.EOF
	}
	n := c.n
	if n > len(c.b) {
		n = len(c.b)
	}
	if n > len(p) {
		n = len(p)
	}
	copy(p, c.b[:n])
	c.b = c.b[n:]
	return n, nil
}

func (c *chunkReader) Close() error { return nil }

func nameClass(n int) string {
	switch {
	case n < 128:
		return "S"
	case n <= 65535:
		return "L"
	}
	return "X"
}

func valueClass(nl, vl int) string {
	switch {
	case 8+nl+vl > 65500:
		return "H"
	case vl == 0:
		return "E"
	case vl < 128:
		return "S"
	}
	return "L"
}

const alnum = "ABCDEFGHIJKLMNOPQRSTUVWXYZ0123456789"

func fcgiRun() {
	parallel(0, func(w int) func([]byte) {
		return func(line []byte) {
			var c fcgiCase
			if err := json.Unmarshal(line, &c); err != nil {
				vh.Emit(map[string]interface{}{"_bad_case": err.Error()})
				return
			}
			var ln net.Listener
			if c.API != "do" { // one listener per case: a stray accept can never serve another case
				var err error
				if ln, err = net.Listen("tcp", "127.0.0.1:0"); err != nil {
					vh.Emit(vh.Result{ID: c.ID, Sig: "machinery", Detail: "listen: " + err.Error()})
					return
				}
				defer ln.Close()
			}
			switch c.Kind {
			case "req":
				vh.Emit(fcgiReq(&c, ln))
			case "resp":
				vh.Emit(fcgiResp(&c, ln))
			default:
				vh.Emit(vh.Result{ID: c.ID, Sig: "machinery", Detail: "unknown kind " + c.Kind})
			}
		}
	})
}

// connect returns the client end for API "do" (a pipe) and starts the application on the other end.
func startApp(api string, ln net.Listener, reply [][]byte) (client net.Conn, done chan *appView) {
	done = make(chan *appView, 1)
	if api == "do" {
		cl, srv := net.Pipe()
		go serveApp(srv, reply, done)
		return cl, done
	}
	go func() {
		ln.(*net.TCPListener).SetDeadline(time.Now().Add(15 * time.Second))
		conn, err := ln.Accept()
		if err != nil {
			done <- &appView{err: fmt.Errorf("accept: %v", err)}
			return
		}
		serveApp(conn, reply, done)
	}()
	return nil, done
}

func newRTRequest(ln net.Listener, hdr bfe_http.Header, body []byte, bchunk int) *bfe_http.Request {
	u, _ := url.Parse("http://" + ln.Addr().String() + "/app.php?x=1")
	return &bfe_http.Request{
		Method: "POST", URL: u, Proto: "HTTP/1.1", ProtoMajor: 1, ProtoMinor: 1,
		Header: hdr, Host: "example.org", RemoteAddr: "192.0.2.1:4321",
		Body: &chunkReader{b: body, n: bchunk}, ContentLength: int64(len(body)),
	}
}

func fcgiReq(c *fcgiCase, ln net.Listener) vh.Result {
	res := vh.Result{ID: c.ID}
	r := rand.New(rand.NewSource(vh.Seed()*7919 + int64(c.ID)))
	var cls []string
	params := map[string]string{}
	hdr := bfe_http.Header{}
	want := map[string]string{}
	for i, p := range c.Pairs {
		cls = append(cls, "n"+nameClass(p.NL)+"v"+valueClass(p.NL, p.VL))
		nb := bytes.Repeat([]byte{'N'}, p.NL)
		nb[0] = alnum[i%len(alnum)]
		for j := 1; j < len(nb) && j < 12; j++ {
			nb[j] = alnum[r.Intn(len(alnum))]
		}
		vb := make([]byte, p.VL)
		r.Read(vb)
		if c.API == "rt" { // travels as an HTTP header value
			for j := range vb {
				vb[j] = alnum[int(vb[j])%len(alnum)]
			}
		}
		name, val := string(nb), string(vb)
		if c.API == "rt" {
			hdr[name] = []string{val} // raw key: RoundTrip upper-cases and prefixes it itself
			want["HTTP_"+name] = val
		} else {
			params[name] = val
			want[name] = val
		}
	}
	key := fmt.Sprintf("req/%s/%s/body%s", c.API, strings.Join(cls, "+"), map[bool]string{true: "0", false: "N"}[c.Body == 0])
	body := make([]byte, c.Body)
	r.Read(body)
	if c.BChunk <= 0 {
		c.BChunk = 32 * 1024
	}
	cl, done := startApp(c.API, ln, stdReply)
	var derr error
	pan, fin := vh.GuardTimeout(45*time.Second, func() {
		if c.API == "do" {
			client := bfe_fcgi.VerifNewClient(cl)
			defer client.Close()
			var rd io.Reader
			if c.Body > 0 {
				rd = &chunkReader{b: body, n: c.BChunk}
			}
			rr, err := client.Do(params, rd)
			if err != nil {
				derr = err
				return
			}
			_, derr = ioutil.ReadAll(rr)
			return
		}
		tr := &bfe_fcgi.Transport{Root: "/srv/www", EnvVars: map[string]string{"VERIF_ENV": "1"}}
		rsp, err := tr.RoundTrip(newRTRequest(ln, hdr, body, c.BChunk))
		if err != nil {
			derr = err
			return
		}
		_, derr = ioutil.ReadAll(rsp.Body)
	})
	if cl != nil {
		cl.Close()
	}
	fail := func(kind, det string) vh.Result {
		res.Sig, res.Detail = key+":"+kind, det
		return res
	}
	if pan != "" {
		return fail("panic", pan) // the application goroutine ends on its read deadline / listener close
	}
	if !fin {
		return fail("hang", "client did not finish within 45s")
	}
	v := <-done
	obs := map[string]interface{}{"records": len(v.recs), "client_err": fmt.Sprint(derr), "app_err": fmt.Sprint(v.err)}
	var lens []int
	for _, rc := range v.recs {
		if rc.Type == fcgiParams {
			lens = append(lens, len(rc.Content))
		}
	}
	if len(lens) > 12 {
		lens = lens[:12]
	}
	obs["params_record_lengths"] = lens
	res.Obs = obs
	if v.err != nil {
		return fail("undecodable", fmt.Sprintf("the application could not read the record stream: %v (after %d records; client error %v)", v.err, len(v.recs), derr))
	}
	// record-level grammar: BEGIN_REQUEST, PARAMS+ , PARAMS(empty), STDIN*, STDIN(empty)
	if len(v.recs) < 3 || v.recs[0].Type != fcgiBegin || len(v.recs[0].Content) != 8 {
		return fail("no-begin", "first record is not an 8-byte BEGIN_REQUEST")
	}
	if role := binary.BigEndian.Uint16(v.recs[0].Content[:2]); role != 1 {
		return fail("role", fmt.Sprintf("role %d, want 1 (responder)", role))
	}
	id := v.recs[0].ID
	if id == 0 {
		return fail("request-id", "request id 0 is reserved for management records")
	}
	var pbuf, sbuf []byte
	phase := 0 // 0 params, 1 stdin, 2 done
	for i, rc := range v.recs[1:] {
		if rc.ID != id {
			return fail("request-id", fmt.Sprintf("record %d has request id %d, BEGIN_REQUEST had %d", i+1, rc.ID, id))
		}
		switch {
		case phase == 0 && rc.Type == fcgiParams:
			if len(rc.Content) == 0 {
				phase = 1
			}
			pbuf = append(pbuf, rc.Content...)
		case phase == 1 && rc.Type == fcgiStdin:
			if len(rc.Content) == 0 {
				phase = 2
			}
			sbuf = append(sbuf, rc.Content...)
		default:
			return fail("record-order", fmt.Sprintf("record %d of type %d with %d content bytes in phase %d", i+1, rc.Type, len(rc.Content), phase))
		}
	}
	if phase != 2 {
		return fail("record-order", "stream not terminated by empty PARAMS and empty STDIN records")
	}
	got, err := decodePairs(pbuf)
	if err != nil {
		return fail("params-undecodable", fmt.Sprintf("PARAMS stream of %d bytes does not decode: %v", len(pbuf), err))
	}
	gm := map[string]string{}
	for _, kv := range got {
		if _, dup := gm[kv[0]]; dup {
			return fail("params-duplicate", fmt.Sprintf("name %.20q... sent twice", kv[0]))
		}
		gm[kv[0]] = kv[1]
	}
	for k, wv := range want {
		gv, ok := gm[k]
		switch {
		case !ok:
			return fail("params-missing", fmt.Sprintf("parameter %.20q (name %d bytes, value %d bytes) did not arrive", k, len(k), len(wv)))
		case len(gv) < len(wv) && strings.HasPrefix(wv, gv):
			return fail("value-truncated", fmt.Sprintf("parameter %.20q: value of %d bytes arrived as %d bytes", k, len(wv), len(gv)))
		case gv != wv:
			return fail("value-changed", fmt.Sprintf("parameter %.20q: value differs (%d vs %d bytes)", k, len(wv), len(gv)))
		}
	}
	if c.API == "do" {
		if len(gm) != len(want) {
			return fail("params-extra", fmt.Sprintf("%d parameters arrived, %d were given", len(gm), len(want)))
		}
		if len(pbuf) != c.T {
			return fail("params-length", fmt.Sprintf("PARAMS stream is %d bytes, the specification's encoding is %d", len(pbuf), c.T))
		}
		// Layer M (diagnostic): the record boundaries of the mechanism model
		var all []int
		for _, rc := range v.recs {
			if rc.Type == fcgiParams && len(rc.Content) > 0 {
				all = append(all, len(rc.Content))
			}
		}
		// the client walks a Go map: the model's record boundaries apply when the pairs went out in
		// the order of the case
		inOrder := len(got) == len(c.Pairs)
		for i := range got {
			if inOrder && (len(got[i][0]) != c.Pairs[i].NL || len(got[i][1]) != c.Pairs[i].VL || got[i][0][0] != alnum[i%len(alnum)]) {
				inOrder = false
			}
		}
		if inOrder && c.ExpM != nil && fmt.Sprint(all) != fmt.Sprint(c.ExpM) {
			res.Drift = fmt.Sprintf("PARAMS record lengths %v, mechanism model %v", all, c.ExpM)
		}
	} else {
		for _, k := range []string{"REQUEST_METHOD", "SCRIPT_FILENAME", "CONTENT_LENGTH", "VERIF_ENV"} {
			if _, ok := gm[k]; !ok {
				return fail("params-missing", "CGI variable "+k+" did not arrive")
			}
		}
	}
	if !bytes.Equal(sbuf, body) {
		return fail("body-changed", fmt.Sprintf("STDIN stream is %d bytes, the body is %d bytes", len(sbuf), len(body)))
	}
	if derr != nil {
		return fail("client-error", fmt.Sprintf("request was delivered but the client failed: %v", derr))
	}
	res.OK = true
	return res
}

const cgiHead = "Status: 201 Created\r\nX-Verif: yes\r\n\r\n"
const errText = "Status: 500 Oops\r\nX-Injected: 1\r\n\r\nPHP message: something went wrong on stderr\n"

func fcgiResp(c *fcgiCase, ln net.Listener) vh.Result {
	res := vh.Result{ID: c.ID}
	r := rand.New(rand.NewSource(vh.Seed()*104729 + int64(c.ID)))
	var shape []string
	sizes := make([]int, len(c.Script))
	outTotal := 0
	for i, s := range c.Script {
		shape = append(shape, s.T+s.N)
		switch s.N {
		case "t":
			sizes[i] = 1 + r.Intn(7)
		case "s":
			sizes[i] = 50 + r.Intn(250)
		case "m":
			sizes[i] = 65535
		}
		if s.T == "end" {
			sizes[i] = 8
		}
		if s.T == "out" {
			outTotal += sizes[i]
		}
	}
	key := "resp/" + c.API + "/" + strings.Join(shape, ",")
	stdout := make([]byte, outTotal)
	r.Read(stdout)
	copy(stdout, cgiHead)
	var syms [][]byte
	contents := make([][]byte, len(c.Script))
	off := 0
	for i, s := range c.Script {
		var t byte
		var content []byte
		switch s.T {
		case "out":
			t, content = fcgiStdout, stdout[off:off+sizes[i]]
			off += sizes[i]
		case "err":
			t = fcgiStderr
			content = []byte(strings.Repeat(errText, sizes[i]/len(errText)+1))[:sizes[i]]
		case "end":
			t, content = fcgiEnd, make([]byte, 8)
		default:
			res.Sig, res.Detail = "machinery", "unknown record kind "+s.T
			return res
		}
		contents[i] = content
		h, cc, p := recordBytes(t, 1, content, s.Pad)
		syms = append(syms, h, cc, p)
	}
	iscut := map[int]bool{}
	for _, k := range c.Cuts {
		iscut[k] = true
	}
	var reply [][]byte
	cur := []byte{}
	for i, b := range syms {
		cur = append(cur, b...)
		if iscut[i+1] {
			reply = append(reply, cur)
			cur = []byte{}
		}
	}
	reply = append(reply, cur)
	// what the response would be if every stream were taken for STDOUT (the shape of finding F-C55-2)
	var allcat []byte
	hasErr := false
	for i, s := range c.Script {
		if s.T != "end" {
			allcat = append(allcat, contents[i]...)
		}
		if s.T == "err" && len(contents[i]) > 0 {
			hasErr = true
		}
	}
	var want []byte
	for _, k := range c.Keep {
		if k < 1 || k > len(contents) {
			res.Sig, res.Detail = "machinery", "keep index out of range"
			return res
		}
		want = append(want, contents[k-1]...)
	}

	cl, done := startApp(c.API, ln, reply)
	var got []byte
	var derr error
	var rsp *bfe_http.Response
	pan, fin := vh.GuardTimeout(45*time.Second, func() {
		if c.API == "do" {
			client := bfe_fcgi.VerifNewClient(cl)
			defer client.Close()
			rr, err := client.Do(map[string]string{"REQUEST_METHOD": "GET", "SCRIPT_FILENAME": "/srv/www/app.php"}, nil)
			if err != nil {
				derr = err
				return
			}
			got, derr = ioutil.ReadAll(rr)
			return
		}
		tr := &bfe_fcgi.Transport{Root: "/srv/www"}
		var err error
		rsp, err = tr.RoundTrip(newRTRequest(ln, bfe_http.Header{}, nil, 1024))
		if err != nil {
			derr = err
			return
		}
		got, derr = ioutil.ReadAll(rsp.Body)
	})
	if cl != nil {
		cl.Close()
	}
	fail := func(kind, det string) vh.Result {
		res.Sig, res.Detail = key+":"+kind, det
		return res
	}
	if pan != "" {
		return fail("panic", pan)
	}
	if !fin {
		return fail("hang", "client did not finish within 45s")
	}
	select {
	case <-done:
	case <-time.After(20 * time.Second):
	}
	head := func(b []byte) string {
		if len(b) > 40 {
			return fmt.Sprintf("%q...", b[:40])
		}
		return fmt.Sprintf("%q", b)
	}
	res.Obs = map[string]interface{}{"got_len": len(got), "want_len": len(want), "client_err": fmt.Sprint(derr), "got_head": head(got)}
	if c.API == "do" {
		if derr != nil {
			return fail("client-error", fmt.Sprintf("reading the response failed: %v (after %d bytes)", derr, len(got)))
		}
		if !bytes.Equal(got, want) {
			kind := "stdout-mismatch"
			if hasErr && bytes.Equal(got, allcat) {
				kind = "stderr-in-response"
			}
			return fail(kind, fmt.Sprintf("response stream is %d bytes %s, STDOUT contents are %d bytes %s", len(got), head(got), len(want), head(want)))
		}
		res.OK = true
		return res
	}
	// RoundTrip level: status, header and body come from STDOUT only
	if len(want) < len(cgiHead) {
		res.OK = true // CGI header incomplete: nothing decisive to say at this level
		return res
	}
	// with STDERR content in the script: does the reply look like "all streams concatenated"?
	mixed := hasErr && (derr != nil || (len(got) > 0 && bytes.HasSuffix(allcat, got)) || (len(got) == 0 && rsp != nil))
	if derr != nil {
		kind := "client-error"
		if mixed {
			kind = "stderr-in-response"
		}
		return fail(kind, fmt.Sprintf("RoundTrip failed: %v", derr))
	}
	if rsp.StatusCode != 201 || rsp.Header.Get("X-Verif") != "yes" || rsp.Header.Get("X-Injected") != "" {
		kind := "head-mismatch"
		if mixed {
			kind = "stderr-in-response"
		}
		return fail(kind, fmt.Sprintf("status %d, X-Verif=%q, X-Injected=%q; STDOUT says 201 / yes", rsp.StatusCode, rsp.Header.Get("X-Verif"), rsp.Header.Get("X-Injected")))
	}
	if !bytes.Equal(got, want[len(cgiHead):]) {
		kind := "stdout-mismatch"
		if mixed {
			kind = "stderr-in-response"
		}
		return fail(kind, fmt.Sprintf("body is %d bytes %s, STDOUT body is %d bytes", len(got), head(got), len(want)-len(cgiHead)))
	}
	res.OK = true
	return res
}
