package main

// C56: replay of GenDoh cases on mod_doh.
//
// The client's DNS query is built by hand (RFC 1035 4.1, RFC 6891 6.1.2, RFC 7871 6) so that the
// input does not depend on miekg/dns; the request goes through mod_doh.RequestToDnsMsg and through
// DnsClient.Fetch to an in-harness UDP "upstream" that captures the bytes really forwarded.  The
// forwarded bytes are parsed by the hand-written parser below and compared with the client's
// message: same header, question and records, exactly one OPT record, the client's other EDNS
// options, and one client-subnet option with the family / prefix / address the case expects.

import (
	"bytes"
	"encoding/base64"
	"encoding/binary"
	"encoding/json"
	"errors"
	"fmt"
	"io"
	"io/ioutil"
	"net"
	"net/url"
	"strings"
	"sync/atomic"
	"time"

	"github.com/bfenetworks/bfe/bfe_basic"
	"github.com/bfenetworks/bfe/bfe_bufio"
	"github.com/bfenetworks/bfe/bfe_http"
	"github.com/bfenetworks/bfe/bfe_modules/mod_doh"

	"verifharness/vh"
)

type dohCase struct {
	ID      int      `json:"id"`
	Method  string   `json:"method"` // GET | POST | PUT
	Enc     string   `json:"enc"`    // GET: ok | padded | std | bad | missing | dup | empty
	Ctype   string   `json:"ctype"`  // POST: dns | other | none
	Size    string   `json:"size"`   // small | limit | over1 | overrr | huge
	Msg     string   `json:"msg"`    // valid | short | garbage
	Cfam    string   `json:"cfam"`   // v4 | v4in16 | v6
	Via     string   `json:"via"`    // remote | client
	Edns    string   `json:"edns"`   // none | opt | optdo | cookie | ecs
	Frame   string   `json:"frame"`  // POST: cl (Content-Length) | chunked
	Deliv   string   `json:"deliv"`  // POST: complete | cutrr | cutmid | reset
	Allowed []string `json:"allowed"`
	Gray    bool     `json:"gray"`
	Fam     int      `json:"fam"`
	Prefix  int      `json:"prefix"`
	Alt     int64    `json:"alt"`
}

// ---------------------------------------------------------------- DNS wire, by hand

type dRR struct {
	Name  []byte // wire form, uncompressed
	Type  uint16
	Class uint16
	TTL   uint32
	Data  []byte
}

type dMsg struct {
	ID, Flags uint16
	Question  []byte // wire form of the question section (uncompressed)
	QD        int
	RRs       [3][]dRR // answer, authority, additional
}

func (rr dRR) wire() []byte {
	b := append([]byte{}, rr.Name...)
	b = append(b, byte(rr.Type>>8), byte(rr.Type), byte(rr.Class>>8), byte(rr.Class),
		byte(rr.TTL>>24), byte(rr.TTL>>16), byte(rr.TTL>>8), byte(rr.TTL), byte(len(rr.Data)>>8), byte(len(rr.Data)))
	return append(b, rr.Data...)
}

func (m *dMsg) wire() []byte {
	b := make([]byte, 12)
	binary.BigEndian.PutUint16(b[0:], m.ID)
	binary.BigEndian.PutUint16(b[2:], m.Flags)
	binary.BigEndian.PutUint16(b[4:], uint16(m.QD))
	for i := 0; i < 3; i++ {
		binary.BigEndian.PutUint16(b[6+2*i:], uint16(len(m.RRs[i])))
	}
	b = append(b, m.Question...)
	for i := 0; i < 3; i++ {
		for _, rr := range m.RRs[i] {
			b = append(b, rr.wire()...)
		}
	}
	return b
}

func encName(s string) []byte {
	var b []byte
	for _, l := range strings.Split(strings.TrimSuffix(s, "."), ".") {
		if l == "" {
			continue
		}
		b = append(b, byte(len(l)))
		b = append(b, l...)
	}
	return append(b, 0)
}

// readName returns the uncompressed wire form of the name at off and the offset after it.
func readName(msg []byte, off int) ([]byte, int, error) {
	var out []byte
	end := -1
	for hops := 0; hops < 64; hops++ {
		if off >= len(msg) {
			return nil, 0, errors.New("name runs past the message")
		}
		c := int(msg[off])
		switch {
		case c == 0:
			out = append(out, 0)
			if end < 0 {
				end = off + 1
			}
			return out, end, nil
		case c&0xC0 == 0xC0:
			if off+1 >= len(msg) {
				return nil, 0, errors.New("truncated pointer")
			}
			if end < 0 {
				end = off + 2
			}
			off = (c&0x3F)<<8 | int(msg[off+1])
		case c&0xC0 == 0:
			if off+1+c > len(msg) {
				return nil, 0, errors.New("label runs past the message")
			}
			out = append(out, bytes.ToLower(msg[off:off+1+c])...)
			off += 1 + c
		default:
			return nil, 0, errors.New("bad label type")
		}
	}
	return nil, 0, errors.New("pointer loop")
}

func parseMsg(b []byte) (*dMsg, error) {
	if len(b) < 12 {
		return nil, errors.New("shorter than a DNS header")
	}
	m := &dMsg{ID: binary.BigEndian.Uint16(b), Flags: binary.BigEndian.Uint16(b[2:]), QD: int(binary.BigEndian.Uint16(b[4:]))}
	off := 12
	for i := 0; i < m.QD; i++ {
		n, o, err := readName(b, off)
		if err != nil {
			return nil, fmt.Errorf("question %d: %v", i, err)
		}
		if o+4 > len(b) {
			return nil, errors.New("truncated question")
		}
		m.Question = append(append(m.Question, n...), b[o:o+4]...)
		off = o + 4
	}
	for s := 0; s < 3; s++ {
		cnt := int(binary.BigEndian.Uint16(b[6+2*s:]))
		for i := 0; i < cnt; i++ {
			n, o, err := readName(b, off)
			if err != nil {
				return nil, fmt.Errorf("section %d record %d: %v", s, i, err)
			}
			if o+10 > len(b) {
				return nil, fmt.Errorf("section %d record %d: truncated fixed part", s, i)
			}
			rr := dRR{Name: n, Type: binary.BigEndian.Uint16(b[o:]), Class: binary.BigEndian.Uint16(b[o+2:]), TTL: binary.BigEndian.Uint32(b[o+4:])}
			l := int(binary.BigEndian.Uint16(b[o+8:]))
			if o+10+l > len(b) {
				return nil, fmt.Errorf("section %d record %d: truncated rdata", s, i)
			}
			rr.Data = b[o+10 : o+10+l]
			m.RRs[s] = append(m.RRs[s], rr)
			off = o + 10 + l
		}
	}
	if off != len(b) {
		return nil, fmt.Errorf("%d trailing byte(s)", len(b)-off)
	}
	return m, nil
}

type dOpt struct {
	Code uint16
	Data []byte
}

func parseOpts(b []byte) ([]dOpt, error) {
	var out []dOpt
	for len(b) > 0 {
		if len(b) < 4 {
			return nil, errors.New("truncated option header")
		}
		l := int(binary.BigEndian.Uint16(b[2:]))
		if 4+l > len(b) {
			return nil, errors.New("truncated option data")
		}
		out = append(out, dOpt{binary.BigEndian.Uint16(b), b[4 : 4+l]})
		b = b[4+l:]
	}
	return out, nil
}

func optWire(opts []dOpt) []byte {
	var b []byte
	for _, o := range opts {
		b = append(b, byte(o.Code>>8), byte(o.Code), byte(len(o.Data)>>8), byte(len(o.Data)))
		b = append(b, o.Data...)
	}
	return b
}

const (
	typeTXT = 16
	typeOPT = 41
	optECS  = 8
	optCOOK = 10
)

func txtRR(rdlen int) dRR { // a TXT record with exactly rdlen bytes of rdata (rdlen >= 1)
	var d []byte
	for rdlen > 0 {
		n := rdlen - 1
		if n > 255 {
			n = 255
		}
		d = append(d, byte(n))
		d = append(d, bytes.Repeat([]byte{'x'}, n)...)
		rdlen -= 1 + n
	}
	return dRR{Name: []byte{0}, Type: typeTXT, Class: 1, TTL: 0, Data: d}
}

// padTo appends additional TXT records until the message is exactly `size` bytes.
func padTo(m *dMsg, size int) error {
	for {
		cur := len(m.wire())
		if cur == size {
			return nil
		}
		room := size - cur - 11 // 11 = root name + fixed part
		if room < 1 {
			return fmt.Errorf("cannot pad from %d to %d", cur, size)
		}
		if room > 1000 && room < 1000+12 {
			room = 900
		} else if room > 1000 {
			room = 1000
		}
		m.RRs[2] = append(m.RRs[2], txtRR(room))
	}
}

// buildQuery returns the client's message and its wire form for the case.
func buildQuery(c *dohCase, limit int) (*dMsg, []byte, error) {
	m := &dMsg{ID: 0xE941, Flags: 0x0110, QD: 1}
	if c.Alt != 0 {
		m.ID = uint16(c.Alt*2654435761 + 7)
	}
	m.Question = append(encName(fmt.Sprintf("host%d.example.org.", c.Alt%977)), 0, 1, 0, 1)
	var opt *dRR
	switch c.Edns {
	case "opt":
		opt = &dRR{Name: []byte{0}, Type: typeOPT, Class: 1232}
	case "optdo":
		opt = &dRR{Name: []byte{0}, Type: typeOPT, Class: 4096, TTL: 0x8000}
	case "cookie":
		opt = &dRR{Name: []byte{0}, Type: typeOPT, Class: 1232, Data: optWire([]dOpt{{optCOOK, []byte("8bytesck")}})}
	case "ecs":
		opt = &dRR{Name: []byte{0}, Type: typeOPT, Class: 1232, Data: optWire([]dOpt{{optECS, []byte{0, 1, 24, 0, 203, 0, 113}}})}
	}
	target := 0
	switch c.Size {
	case "limit":
		target = limit
	case "over1":
		target = limit + 1
	case "huge":
		target = 2*limit + 77
	}
	optLen := 0
	if opt != nil {
		optLen = len(opt.wire())
	}
	switch c.Size {
	case "limit", "over1", "huge":
		if err := padTo(m, target-optLen); err != nil {
			return nil, nil, err
		}
	case "overrr": // a record boundary exactly at the limit, one more record behind it
		if err := padTo(m, limit); err != nil {
			return nil, nil, err
		}
		if opt == nil {
			m.RRs[2] = append(m.RRs[2], txtRR(40))
		}
	}
	if opt != nil {
		m.RRs[2] = append(m.RRs[2], *opt)
	}
	w := m.wire()
	switch c.Msg {
	case "short":
		w = w[:7]
	case "garbage":
		w = bytes.Repeat([]byte{0xFF}, 40)
	}
	return m, w, nil
}

// ---------------------------------------------------------------- the upstream

type upstream struct {
	pc   net.PacketConn
	last atomic.Value // []byte
	n    int64
}

func newUpstream() *upstream {
	pc, err := net.ListenPacket("udp", "127.0.0.1:0")
	if err != nil {
		panic(err)
	}
	u := &upstream{pc: pc}
	go func() {
		buf := make([]byte, 70000)
		for {
			n, addr, err := pc.ReadFrom(buf)
			if err != nil {
				return
			}
			q := append([]byte{}, buf[:n]...)
			u.last.Store(q)
			atomic.AddInt64(&u.n, 1)
			if n >= 12 { // minimal answer: same id, QR=1, no records
				r := []byte{q[0], q[1], 0x81, 0x80, 0, 0, 0, 0, 0, 0, 0, 0}
				pc.WriteTo(r, addr)
			}
		}
	}()
	return u
}

// dohLimit prints the POST size limit of the tree under test (a constant of the spec).
func dohLimit() {
	vh.Emit(map[string]interface{}{"limit": mod_doh.VerifMaxPostMsgLength()})
}

func dohRun() {
	limit := int(mod_doh.VerifMaxPostMsgLength())
	parallel(0, func(int) func([]byte) {
		up := newUpstream()
		fetcher := mod_doh.NewDnsClient(&mod_doh.DnsConf{Address: up.pc.LocalAddr().String(), RetryMax: 0, Timeout: 10000})
		return func(line []byte) {
			var c dohCase
			if err := json.Unmarshal(line, &c); err != nil {
				vh.Emit(map[string]interface{}{"_bad_case": err.Error()})
				return
			}
			vh.Emit(dohOne(&c, limit, up, fetcher))
		}
	})
}

// faultReader is the connection a POST arrives on: the bytes that were delivered, then the end of
// the stream (io.EOF: the sender closed) or a transport error (connection reset).
type faultReader struct {
	data []byte
	err  error
}

func (f *faultReader) Read(p []byte) (int, error) {
	if len(f.data) == 0 {
		return 0, f.err
	}
	n := copy(p, f.data)
	f.data = f.data[n:]
	return n, nil
}

// lastRecordOffset: where the last resource record of the message starts (12 = right after the
// header when nothing follows the question): a cut there leaves a prefix that still parses.
func lastRecordOffset(q *dMsg, wire []byte) int {
	for s := 2; s >= 0; s-- {
		if n := len(q.RRs[s]); n > 0 {
			return len(wire) - len(q.RRs[s][n-1].wire())
		}
	}
	return 12
}

// postRequest parses the POST off a byte stream with the real HTTP request reader, so that the
// body is the real body reader (Content-Length or chunked) over a connection that may end early.
func postRequest(c *dohCase, q *dMsg, wire []byte) (*bfe_http.Request, error) {
	cut := len(wire)
	var end error = io.EOF
	switch c.Deliv {
	case "", "-", "complete":
	case "cutrr":
		cut = lastRecordOffset(q, wire)
	case "cutmid":
		cut = len(wire) - 1
	case "reset":
		cut, end = len(wire)/2, errors.New("read tcp 192.0.2.1:40000->198.51.100.1:443: read: connection reset by peer")
	default:
		return nil, fmt.Errorf("unknown deliv %q", c.Deliv)
	}
	if cut < 0 || cut > len(wire) {
		return nil, fmt.Errorf("cut %d outside the %d-byte message", cut, len(wire))
	}
	head := c.Method + " /dns-query HTTP/1.1\r\nHost: doh.example.org\r\nAccept: application/dns-message\r\n"
	switch c.Ctype {
	case "dns":
		head += "Content-Type: application/dns-message\r\n"
	case "other":
		head += "Content-Type: text/plain\r\n"
	}
	var stream []byte
	if c.Frame == "chunked" {
		head += "Transfer-Encoding: chunked\r\n\r\n"
		stream = []byte(head)
		chunk := func(decl int, data []byte, closed bool) {
			stream = append(stream, fmt.Sprintf("%x\r\n", decl)...)
			stream = append(stream, data...)
			if closed {
				stream = append(stream, "\r\n"...)
			}
		}
		switch c.Deliv {
		case "cutrr": // the first chunk is complete, the stream ends where the next chunk should start
			split := cut
			if split == 0 {
				split = 1
			}
			chunk(split, wire[:split], true)
		case "cutmid", "reset": // the stream ends inside a chunk
			chunk(len(wire), wire[:cut], false)
		default:
			split := lastRecordOffset(q, wire)
			if split <= 0 || split >= len(wire) {
				split = (len(wire) + 1) / 2
			}
			if split > 0 && split < len(wire) {
				chunk(split, wire[:split], true)
				chunk(len(wire)-split, wire[split:], true)
			} else if len(wire) > 0 {
				chunk(len(wire), wire, true)
			}
			stream = append(stream, "0\r\n\r\n"...)
		}
	} else {
		head += fmt.Sprintf("Content-Length: %d\r\n\r\n", len(wire))
		stream = append([]byte(head), wire[:cut]...)
	}
	return bfe_http.ReadRequest(bfe_bufio.NewReader(&faultReader{data: stream, err: end}), 8192)
}

func dohRequest(c *dohCase, q *dMsg, wire []byte) (*bfe_basic.Request, net.IP, error) {
	var hr *bfe_http.Request
	var err error
	switch c.Method {
	case "GET":
		q := ""
		b64 := base64.RawURLEncoding.EncodeToString(wire)
		switch c.Enc {
		case "ok":
			q = "dns=" + b64
		case "padded":
			// force at least one '=': encode with padding a message whose length is not a multiple of 3
			w := wire
			for len(w)%3 == 0 {
				w = append(append([]byte{}, w...), 0) // trailing byte (kept for this gray class only)
			}
			q = "dns=" + url.QueryEscape(base64.URLEncoding.EncodeToString(w))
		case "std":
			q = "dns=" + url.QueryEscape(strings.NewReplacer("-", "+", "_", "/").Replace(b64)+"+/")
		case "bad":
			q = "dns=" + b64[:len(b64)/2] + "%21%2A" + b64[len(b64)/2:]
		case "missing":
			q = "name=example.org&type=A"
		case "dup":
			q = "dns=" + b64 + "&dns=" + b64
		case "empty":
			q = "dns="
		default:
			return nil, nil, fmt.Errorf("unknown enc %q", c.Enc)
		}
		hr, err = bfe_http.NewRequest("GET", "https://doh.example.org/dns-query?"+q, nil)
	default:
		hr, err = postRequest(c, q, wire)
	}
	if err != nil {
		return nil, nil, err
	}
	hr.Header.Set("Accept", "application/dns-message")
	var ip net.IP
	switch c.Cfam {
	case "v4":
		ip = net.IP{192, 0, 2, byte(1 + c.Alt%250)}
	case "v4in16":
		ip = net.IPv4(192, 0, 2, byte(1+c.Alt%250))
	case "v6":
		ip = net.ParseIP(fmt.Sprintf("2001:db8:85a3::8a2e:370:%x", 0x7000+c.Alt%4000))
	default:
		return nil, nil, fmt.Errorf("unknown cfam %q", c.Cfam)
	}
	req := new(bfe_basic.Request)
	req.HttpRequest = hr
	req.Session = &bfe_basic.Session{IsSecure: true}
	switch c.Via {
	case "remote":
		req.RemoteAddr = &net.TCPAddr{IP: ip, Port: 40000}
	default: // the peer is another proxy, the real client is known from ClientAddr
		req.RemoteAddr = &net.TCPAddr{IP: net.IP{10, 9, 8, 7}, Port: 40000}
		req.ClientAddr = &net.TCPAddr{IP: ip, Port: 50000}
	}
	return req, ip, nil
}

// compareForwarded checks the forwarded wire bytes against the client's message.
func compareForwarded(c *dohCase, q *dMsg, fwd []byte, ip net.IP) (kind, det string) {
	f, err := parseMsg(fwd)
	if err != nil {
		return "forwarded-malformed", fmt.Sprintf("forwarded message of %d bytes does not parse: %v", len(fwd), err)
	}
	if f.ID != q.ID || f.Flags != q.Flags {
		return "header-changed", fmt.Sprintf("id/flags %04x/%04x, client sent %04x/%04x", f.ID, f.Flags, q.ID, q.Flags)
	}
	if f.QD != q.QD || !bytes.Equal(f.Question, bytes.ToLower(q.Question)) {
		return "question-changed", "question section differs from the client's"
	}
	var fopt, qopt []dRR
	for s := 0; s < 3; s++ {
		var a, b []dRR
		for _, rr := range f.RRs[s] {
			if rr.Type == typeOPT {
				fopt = append(fopt, rr)
			} else {
				a = append(a, rr)
			}
		}
		for _, rr := range q.RRs[s] {
			if rr.Type == typeOPT {
				qopt = append(qopt, rr)
			} else {
				b = append(b, rr)
			}
		}
		if len(a) != len(b) {
			return "records-lost", fmt.Sprintf("section %d: %d record(s) forwarded, the client sent %d", s, len(a), len(b))
		}
		for i := range a {
			if a[i].Type != b[i].Type || a[i].Class != b[i].Class || !bytes.Equal(a[i].Data, b[i].Data) || !bytes.Equal(a[i].Name, b[i].Name) {
				return "records-changed", fmt.Sprintf("section %d record %d differs", s, i)
			}
		}
	}
	if len(fopt) != 1 {
		return fmt.Sprintf("opt-count=%d", len(fopt)), fmt.Sprintf("%d OPT records in the forwarded message (RFC 6891 6.1.1: at most one)", len(fopt))
	}
	opts, err := parseOpts(fopt[0].Data)
	if err != nil {
		return "opt-malformed", err.Error()
	}
	var ecs []dOpt
	others := map[uint16][]byte{}
	for _, o := range opts {
		if o.Code == optECS {
			ecs = append(ecs, o)
		} else {
			others[o.Code] = o.Data
		}
	}
	if len(qopt) == 1 {
		qo, _ := parseOpts(qopt[0].Data)
		for _, o := range qo {
			if o.Code != optECS {
				if d, ok := others[o.Code]; !ok || !bytes.Equal(d, o.Data) {
					return "client-option-lost", fmt.Sprintf("EDNS option %d of the client's query is not in the forwarded OPT record", o.Code)
				}
			}
		}
		if qopt[0].TTL&0x8000 != fopt[0].TTL&0x8000 {
			return "do-bit-changed", "DO bit of the client's OPT record not preserved"
		}
	}
	if c.Edns == "ecs" {
		return "", "" // client-supplied subnet: keep / replace is not dictated (gray), only the single OPT is
	}
	if len(ecs) != 1 {
		return fmt.Sprintf("ecs-count=%d", len(ecs)), fmt.Sprintf("%d client-subnet options", len(ecs))
	}
	d := ecs[0].Data
	if len(d) < 4 {
		return "ecs-malformed", "client-subnet option shorter than 4 bytes"
	}
	fam, src, scope, addr := int(binary.BigEndian.Uint16(d)), int(d[2]), int(d[3]), d[4:]
	if fam != c.Fam || src != c.Prefix {
		return fmt.Sprintf("ecs-family=%d/%d", fam, src), fmt.Sprintf("client-subnet family %d prefix %d for client %s; expected family %d prefix %d", fam, src, ip, c.Fam, c.Prefix)
	}
	if scope != 0 {
		return "ecs-scope", "SCOPE PREFIX-LENGTH must be 0 in queries"
	}
	wantAddr := []byte(ip.To4())
	if c.Fam == 2 {
		wantAddr = []byte(ip.To16())
	}
	if !bytes.Equal(addr, wantAddr) {
		return "ecs-address", fmt.Sprintf("client-subnet address % x, client address % x", addr, wantAddr)
	}
	return "", ""
}

func dohOne(c *dohCase, limit int, up *upstream, fetcher *mod_doh.DnsClient) vh.Result {
	res := vh.Result{ID: c.ID}
	key := fmt.Sprintf("doh/%s/enc=%s/size=%s/msg=%s/%s-%s/edns=%s/%s-%s", c.Method, c.Enc, c.Size, c.Msg, c.Cfam, c.Via, c.Edns, c.Frame, c.Deliv)
	q, wire, err := buildQuery(c, limit)
	if err != nil {
		res.Sig, res.Detail = "machinery", err.Error()
		return res
	}
	fail := func(kind, det string) vh.Result {
		// the signature names the dimensions the failure kind depends on
		k := key
		bare := strings.TrimPrefix(kind, "wire-")
		switch {
		case strings.HasPrefix(bare, "ecs-"), bare == "pack-error":
			k = "doh/client=" + c.Cfam
		case strings.HasPrefix(bare, "opt-"), bare == "client-option-lost", bare == "do-bit-changed":
			k = "doh/edns=" + c.Edns
		case strings.HasPrefix(bare, "verdict="):
			k = fmt.Sprintf("doh/%s/enc=%s/ctype=%s/size=%s/msg=%s", c.Method, c.Enc, c.Ctype, c.Size, c.Msg)
			if c.Deliv != "" && c.Deliv != "-" && c.Deliv != "complete" {
				k += "/body=" + c.Frame + "-" + c.Deliv
			}
		}
		res.Sig, res.Detail = k+":"+kind, fmt.Sprintf("[%s] %s [client message %d bytes, limit %d]", key, det, len(wire), limit)
		return res
	}
	obs := map[string]interface{}{"query_len": len(wire)}
	res.Obs = obs

	// (1) RequestToDnsMsg + Pack
	req, ip, err := dohRequest(c, q, wire)
	if err != nil {
		res.Sig, res.Detail = "machinery", err.Error()
		return res
	}
	var direct []byte
	var derr, perr error
	pan := vh.Guard(func() {
		msg, e := mod_doh.RequestToDnsMsg(req)
		if e != nil {
			derr = e
			return
		}
		direct, perr = msg.Pack()
	})
	if pan != "" {
		return fail("panic", pan)
	}
	// (2) the whole fetch path, observed at the upstream
	req2, _, _ := dohRequest(c, q, wire)
	before := atomic.LoadInt64(&up.n)
	var ferr error
	var frsp *bfe_http.Response
	pan, fin := vh.GuardTimeout(30*time.Second, func() { frsp, ferr = fetcher.Fetch(req2) })
	if pan != "" {
		return fail("panic", pan)
	}
	if !fin {
		return fail("hang", "Fetch did not return within 30s")
	}
	sent := atomic.LoadInt64(&up.n) - before
	var wireFwd []byte
	if sent > 0 {
		wireFwd, _ = up.last.Load().([]byte)
	}
	outcome := "fwd"
	if derr != nil {
		outcome = "rej"
	}
	obs["outcome"], obs["err"], obs["pack_err"], obs["fetch_err"], obs["upstream_packets"] = outcome, fmt.Sprint(derr), fmt.Sprint(perr), fmt.Sprint(ferr), sent
	if c.Gray {
		res.OK = true
		return res
	}
	if (derr != nil) != (sent == 0) && perr == nil {
		return fail("paths-disagree", fmt.Sprintf("RequestToDnsMsg error %v but %d packet(s) reached the upstream (fetch error %v)", derr, sent, ferr))
	}
	if !contains(c.Allowed, outcome) {
		if outcome == "rej" {
			return fail("verdict=rej", fmt.Sprintf("a well-formed request was rejected: %v", derr))
		}
		// forwarded although it had to be rejected: say what was sent
		det := fmt.Sprintf("the request had to be rejected but a %d-byte message was produced", len(direct))
		if f, e := parseMsg(direct); e == nil {
			cnt := func(m *dMsg) (n int) {
				for s := 0; s < 3; s++ {
					for _, rr := range m.RRs[s] {
						if rr.Type != typeOPT {
							n++
						}
					}
				}
				return
			}
			det += fmt.Sprintf(" (%d records besides OPT; the client sent %d)", cnt(f), cnt(q))
		}
		return fail("verdict=fwd", det)
	}
	if outcome == "rej" {
		res.OK = true
		return res
	}
	if perr != nil {
		return fail("pack-error", fmt.Sprintf("the message built for forwarding cannot be packed: %v (fetch error: %v, upstream packets: %d)", perr, ferr, sent))
	}
	if k, d := compareForwarded(c, q, direct, ip); k != "" {
		return fail(k, d)
	}
	if sent != 1 || ferr != nil {
		return fail("fetch-error", fmt.Sprintf("Fetch error %v, %d packet(s) at the upstream", ferr, sent))
	}
	if k, d := compareForwarded(c, q, wireFwd, ip); k != "" {
		return fail("wire-"+k, d)
	}
	if frsp != nil && frsp.Body != nil {
		b, _ := ioutil.ReadAll(frsp.Body)
		if frsp.StatusCode != 200 || frsp.Header.Get("Content-Type") != "application/dns-message" || len(b) < 12 || b[0] != byte(q.ID>>8) || b[1] != byte(q.ID) {
			return fail("answer", fmt.Sprintf("status %d content-type %q body %d bytes", frsp.StatusCode, frsp.Header.Get("Content-Type"), len(b)))
		}
	}
	res.OK = true
	return res
}
