// Command proto binds the Proto specs (specs/Proto) to bfe_proxy (C46), bfe_fcgi (C55) and
// bfe_modules/mod_doh (C56).
//
// Every sub-command reads ndjson cases printed by TLC (GenProxyProto / GenFcgi / GenDoh), turns the
// abstract symbols of a case into bytes, drives the real code, and prints one ndjson result per
// case.  The expectation (allowed outcomes, which symbols form the application stream, which
// records make up the response, ECS family/prefix, ...) always comes from the case.
package main

import (
	"fmt"
	"os"
	"runtime"
	"sync"

	"verifharness/vh"
)

func main() {
	if len(os.Args) < 2 {
		fmt.Fprintln(os.Stderr, "usage: proto <proxyproto|fcgi|doh>")
		os.Exit(2)
	}
	defer vh.Flush()
	switch os.Args[1] {
	case "proxyproto":
		proxyProtoRun()
	case "fcgi":
		fcgiRun()
	case "doh":
		dohRun()
	case "doh-limit":
		dohLimit()
	default:
		fmt.Fprintln(os.Stderr, "unknown subcommand", os.Args[1])
		vh.Flush()
		os.Exit(2)
	}
}

// parallel feeds every stdin line to one of n workers; mk creates the per-worker state.
func parallel(n int, mk func(w int) func(line []byte)) {
	if n <= 0 {
		n = runtime.NumCPU()
		if n > 8 {
			n = 8
		}
	}
	ch := make(chan []byte, 256)
	var wg sync.WaitGroup
	for i := 0; i < n; i++ {
		wg.Add(1)
		f := mk(i)
		go func() {
			defer wg.Done()
			for l := range ch {
				f(l)
			}
		}()
	}
	vh.EachCase(func(line []byte) { ch <- line })
	close(ch)
	wg.Wait()
}

func contains(l []string, s string) bool {
	for _, x := range l {
		if x == s {
			return true
		}
	}
	return false
}
