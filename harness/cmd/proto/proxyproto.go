package main

// C46: replay of GenProxyProto cases on bfe_proxy.NewConn over net.Pipe.
//
// A case is a sequence of abstract symbols (specs/Proto/alphabet.json): the first `hlen` symbols
// are the PROXY header as the sender produced it, the rest is application payload.  `cuts` are the
// positions (between symbols) where the sender's writes are split; every chunk is one Write on a
// synchronous net.Pipe, so the receiver sees exactly these deliveries.  `allowed` is the set of
// outcomes Layer P permits: "addr" (advertised addresses reported), "real" (socket addresses
// reported), "reject" (connection ended, nothing delivered).

import (
	"bytes"
	"encoding/binary"
	"encoding/json"
	"fmt"
	"io"
	"math/rand"
	"net"
	"strconv"
	"strings"
	"sync"
	"time"

	"github.com/bfenetworks/bfe/bfe_proxy"

	"verifharness/vh"
)

type ppCase struct {
	ID      int      `json:"id"`
	Shape   string   `json:"shape"`
	Syms    []string `json:"syms"`
	Hlen    int      `json:"hlen"`
	Cuts    []int    `json:"cuts"`
	Allowed []string `json:"allowed"`
	Gray    bool     `json:"gray"`
	Jit     int64    `json:"jit"`   // != 0: one additional byte-level cut chosen from this seed
	Order   int      `json:"order"` // 0: Read first, 1: RemoteAddr/VirtualAddr first
	Alt     int64    `json:"alt"`   // seed for the members of the symbol classes (0 = canonical)
}

type ppObs struct {
	Outcome  string `json:"outcome"`
	Remote   string `json:"remote"`
	Virtual  string `json:"virtual"`
	ReadErr  string `json:"read_err"`
	Closed   bool   `json:"closed_by_proxy"`
	DataLen  int    `json:"data_len"`
	WantLen  int    `json:"want_len"`
	DataHead string `json:"data_head,omitempty"`
	Chunks   []int  `json:"chunk_sizes"`
	Wire     string `json:"wire_head,omitempty"`
}

// trackConn records whether the proxy connection closed the underlying connection itself.
type trackConn struct {
	net.Conn
	mu     sync.Mutex
	closed bool
}

func (t *trackConn) Close() error {
	t.mu.Lock()
	t.closed = true
	t.mu.Unlock()
	return t.Conn.Close()
}

func (t *trackConn) wasClosed() bool {
	t.mu.Lock()
	defer t.mu.Unlock()
	return t.closed
}

var sigV2 = []byte{0x0D, 0x0A, 0x0D, 0x0A, 0x00, 0x0D, 0x0A, 0x51, 0x55, 0x49, 0x54, 0x0A}

// ppExpect holds the addresses the concretised header advertises.
type ppExpect struct {
	src, dst     net.IP
	sport, dport int
}

func rndV4(r *rand.Rand) net.IP {
	return net.IPv4(byte(1+r.Intn(222)), byte(r.Intn(256)), byte(r.Intn(256)), byte(1+r.Intn(254))).To4()
}

func rndV6(r *rand.Rand) net.IP {
	ip := make(net.IP, 16)
	r.Read(ip)
	ip[0], ip[1] = 0x20, 0x01 // global unicast, never v4-mapped
	return ip
}

// concretise turns one symbol into bytes (alphabet map).  r == nil: canonical representative.
func (e *ppExpect) concretise(sym string, r *rand.Rand) ([]byte, error) {
	v4 := func(def string) net.IP {
		if r != nil {
			return rndV4(r)
		}
		return net.ParseIP(def).To4()
	}
	v6 := func(def string) net.IP {
		if r != nil {
			return rndV6(r)
		}
		return net.ParseIP(def)
	}
	port := func(def int) int {
		if r != nil {
			return r.Intn(65536)
		}
		return def
	}
	switch sym {
	// ---- version 1
	case "P":
		return []byte("P"), nil
	case "ROXY":
		return []byte("ROXY"), nil
	case "_":
		return []byte(" "), nil
	case "TCP4", "TCP6", "UNKNOWN", "TCP5":
		return []byte(sym), nil
	case "CR":
		return []byte("\r"), nil
	case "LF":
		return []byte("\n"), nil
	case "S4":
		e.src = v4("192.0.2.17")
		return []byte(e.src.String()), nil
	case "D4":
		e.dst = v4("198.51.100.23")
		return []byte(e.dst.String()), nil
	case "S4m":
		e.src = net.ParseIP("255.255.255.255").To4()
		return []byte("255.255.255.255"), nil
	case "D4m":
		e.dst = net.ParseIP("255.255.255.254").To4()
		return []byte("255.255.255.254"), nil
	case "S6":
		e.src = v6("2001:db8::17")
		return []byte(e.src.String()), nil
	case "D6":
		e.dst = v6("2001:db8:1::23")
		return []byte(e.dst.String()), nil
	case "S6m":
		e.src = net.ParseIP("ffff:ffff:ffff:ffff:ffff:ffff:ffff:ffff")
		return []byte("ffff:ffff:ffff:ffff:ffff:ffff:ffff:ffff"), nil
	case "D6m":
		e.dst = net.ParseIP("ffff:ffff:ffff:ffff:ffff:ffff:ffff:fffe")
		return []byte("ffff:ffff:ffff:ffff:ffff:ffff:ffff:fffe"), nil
	case "S6x":
		// v4-mapped, written as the document demands (hex groups and colons only)
		e.src = net.ParseIP("::ffff:192.0.2.17")
		return []byte("::ffff:c000:211"), nil
	case "D6x":
		e.dst = net.ParseIP("::ffff:198.51.100.23")
		return []byte("::ffff:c633:6417"), nil
	case "sp":
		e.sport = port(40001)
		return []byte(strconv.Itoa(e.sport)), nil
	case "dp":
		e.dport = port(443)
		return []byte(strconv.Itoa(e.dport)), nil
	case "spm":
		e.sport = 65535
		return []byte("65535"), nil
	case "dpm":
		e.dport = 65534
		return []byte("65534"), nil
	case "pbad":
		return []byte("65536"), nil
	case "JUNK":
		return []byte("whatever the proxy felt like"), nil
	case "JUNKL":
		return []byte(strings.Repeat("long-junk ", 12)), nil // 120 bytes: line > 107
	// ---- version 2
	case "Q1":
		return sigV2[:1], nil
	case "Q2":
		return sigV2[1:5], nil
	case "Q3":
		return sigV2[5:], nil
	case "A4":
		e.src, e.dst, e.sport, e.dport = v4("192.0.2.17"), v4("198.51.100.23"), port(40001), port(443)
		b := append(append([]byte{}, e.src...), e.dst...)
		return append(b, byte(e.sport>>8), byte(e.sport), byte(e.dport>>8), byte(e.dport)), nil
	case "A6", "A6x":
		if sym == "A6x" {
			e.src, e.dst = net.ParseIP("::ffff:192.0.2.17"), net.ParseIP("::ffff:198.51.100.23")
		} else {
			e.src, e.dst = v6("2001:db8::17"), v6("2001:db8:1::23")
		}
		e.sport, e.dport = port(40001), port(443)
		b := append(append([]byte{}, e.src.To16()...), e.dst.To16()...)
		return append(b, byte(e.sport>>8), byte(e.sport), byte(e.dport>>8), byte(e.dport)), nil
	case "AU":
		b := make([]byte, 216)
		copy(b, "/var/run/src.sock")
		copy(b[108:], "/var/run/dst.sock")
		return b, nil
	// ---- streams without a header / payload
	case "nG":
		return []byte("GET /index.html HTTP/1.1\r\nHost: example.org\r\n\r\n"), nil
	case "nP":
		return []byte("POST /upload HTTP/1.1\r\nHost: example.org\r\nContent-Length: 0\r\n\r\n"), nil
	case "nX":
		return []byte("PROXIMITY /a HTTP/1.0\r\n\r\n"), nil
	case "nC":
		return append(append([]byte{}, sigV2[:11]...), []byte("X and more bytes")...), nil
	case "nT":
		return []byte{0x16, 0x03, 0x01, 0x00, 0x2e, 0x01, 0x00, 0x00, 0x2a, 0x03, 0x03, 0x50, 0x52, 0x4f, 0x58, 0x59}, nil
	case "nS":
		return []byte("PING\r\n"), nil
	case "dH":
		return []byte("PROXY TCP4 203.0.113.9 203.0.113.8 1 2\r\nrest"), nil
	case "dV":
		b := append(append([]byte{}, sigV2...), 0x21, 0x11, 0x00, 0x0c)
		return append(b, 203, 0, 113, 9, 203, 0, 113, 8, 0, 1, 0, 2, 'r', 'e', 's', 't'), nil
	case "dB":
		b := make([]byte, 5000)
		for i := range b {
			b[i] = byte('a' + i%26)
		}
		return b, nil
	case "d1", "d2", "d3":
		if r == nil {
			return []byte("data-" + sym + "\r\n"), nil
		}
		b := make([]byte, 1+r.Intn(40))
		r.Read(b)
		return b, nil
	}
	if len(sym) >= 3 && sym[:2] == "VC" { // version/command byte, decimal
		v, err := strconv.ParseUint(sym[2:], 10, 8)
		return []byte{byte(v)}, err
	}
	if len(sym) >= 2 && sym[0] == 'F' { // family/protocol byte, decimal
		v, err := strconv.ParseUint(sym[1:], 10, 8)
		return []byte{byte(v)}, err
	}
	if len(sym) >= 2 && (sym[0] == 'L' || sym[0] == 'T' || sym[0] == 'X') {
		n, err := strconv.Atoi(sym[1:])
		if err != nil || n < 0 || n > 65535 {
			return nil, fmt.Errorf("bad symbol %q", sym)
		}
		switch sym[0] {
		case 'L':
			b := make([]byte, 2)
			binary.BigEndian.PutUint16(b, uint16(n))
			return b, nil
		case 'T': // one TLV of n bytes in total: PP2_TYPE_NOOP (0x04), length, zeros
			if n < 3 {
				return nil, fmt.Errorf("TLV symbol too short %q", sym)
			}
			b := make([]byte, n)
			b[0] = 0x04
			binary.BigEndian.PutUint16(b[1:], uint16(n-3))
			return b, nil
		default:
			return bytes.Repeat([]byte{0xAA}, n), nil
		}
	}
	return nil, fmt.Errorf("unknown symbol %q", sym)
}

func addrString(a net.Addr) string {
	if a == nil {
		return "nil"
	}
	return a.Network() + "/" + a.String()
}

func proxyProtoRun() {
	parallel(0, func(int) func([]byte) {
		return func(line []byte) {
			var c ppCase
			if err := json.Unmarshal(line, &c); err != nil {
				vh.Emit(map[string]interface{}{"_bad_case": err.Error()})
				return
			}
			vh.Emit(ppOne(&c))
		}
	})
}

func ppOne(c *ppCase) vh.Result {
	res := vh.Result{ID: c.ID}
	var r *rand.Rand
	if c.Alt != 0 {
		r = rand.New(rand.NewSource(c.Alt))
	}
	exp := &ppExpect{}
	symBytes := make([][]byte, len(c.Syms))
	for i, s := range c.Syms {
		b, err := exp.concretise(s, r)
		if err != nil {
			res.Sig, res.Detail = "machinery", err.Error()
			return res
		}
		symBytes[i] = b
	}
	// chunks at the symbol cuts
	iscut := map[int]bool{}
	for _, k := range c.Cuts {
		iscut[k] = true
	}
	var chunks [][]byte
	cur := []byte{}
	for i, b := range symBytes {
		cur = append(cur, b...)
		if iscut[i+1] && i+1 < len(symBytes) {
			chunks = append(chunks, cur)
			cur = []byte{}
		}
	}
	chunks = append(chunks, cur)
	if c.Jit != 0 { // one more cut inside a symbol
		jr := rand.New(rand.NewSource(c.Jit))
		k := jr.Intn(len(chunks))
		if len(chunks[k]) >= 2 {
			p := 1 + jr.Intn(len(chunks[k])-1)
			nc := append([][]byte{}, chunks[:k]...)
			nc = append(nc, chunks[k][:p], chunks[k][p:])
			chunks = append(nc, chunks[k+1:]...)
		}
	}
	var wire, want []byte
	for i, b := range symBytes {
		wire = append(wire, b...)
		if i >= c.Hlen {
			want = append(want, b...)
		}
	}

	cl, raw := net.Pipe()
	srv := &trackConn{Conn: raw}
	obs := ppObs{WantLen: len(want)}
	for _, ch := range chunks {
		obs.Chunks = append(obs.Chunks, len(ch))
	}
	if len(wire) > 48 {
		obs.Wire = fmt.Sprintf("%q...", wire[:48])
	} else {
		obs.Wire = fmt.Sprintf("%q", wire)
	}
	var data []byte
	var rerr error
	var remote, virtual net.Addr
	var pc *bfe_proxy.Conn

	go func() { // the sender
		cl.SetWriteDeadline(time.Now().Add(30 * time.Second))
		for _, ch := range chunks {
			if len(ch) == 0 {
				continue
			}
			if _, err := cl.Write(ch); err != nil {
				break
			}
		}
		cl.Close()
	}()
	pan, fin := vh.GuardTimeout(40*time.Second, func() {
		pc = bfe_proxy.NewConn(srv, 20*time.Second, 0)
		if c.Order == 1 {
			remote, virtual = pc.RemoteAddr(), pc.VirtualAddr()
		}
		buf := make([]byte, 1500)
		for {
			n, err := pc.Read(buf)
			data = append(data, buf[:n]...)
			if err != nil {
				rerr = err
				break
			}
			if len(data) > len(wire)+16 {
				rerr = fmt.Errorf("more bytes than were sent")
				break
			}
		}
		if c.Order != 1 {
			remote, virtual = pc.RemoteAddr(), pc.VirtualAddr()
		}
	})
	// closed by the proxy connection itself (before the harness closes anything)
	obs.Closed = srv.wasClosed()
	cl.Close()
	raw.Close()

	key := c.Shape
	if pan != "" {
		res.Sig, res.Detail, res.Obs = key+":panic", pan, obs
		return res
	}
	if !fin {
		res.Sig, res.Detail, res.Obs = key+":hang", "no result within 40s", obs
		return res
	}
	obs.Remote, obs.Virtual = addrString(remote), addrString(virtual)
	obs.DataLen = len(data)
	if len(data) > 32 {
		obs.DataHead = fmt.Sprintf("%q...", data[:32])
	} else {
		obs.DataHead = fmt.Sprintf("%q", data)
	}
	if rerr != nil {
		obs.ReadErr = rerr.Error()
	}
	rtcp, isTCP := remote.(*net.TCPAddr)
	switch {
	case obs.Closed || rerr != io.EOF:
		obs.Outcome = "reject"
	case isTCP && rtcp != nil:
		obs.Outcome = "addr"
	default:
		obs.Outcome = "real"
	}
	res.Obs = obs
	if c.Gray {
		res.OK = true
		return res
	}
	fail := func(kind, det string) vh.Result {
		res.Sig = key + ":" + kind
		res.Detail = fmt.Sprintf("%s; allowed=%v wire=%s chunks=%v", det, c.Allowed, obs.Wire, obs.Chunks)
		return res
	}
	if obs.Outcome == "reject" && len(data) > 0 {
		return fail("data-after-reject", fmt.Sprintf("connection ended by the proxy layer (closed=%v, read error %q) but %d byte(s) %s were handed to the application",
			obs.Closed, obs.ReadErr, len(data), obs.DataHead))
	}
	if !contains(c.Allowed, obs.Outcome) {
		return fail("verdict="+obs.Outcome, fmt.Sprintf("outcome %s (remote=%s virtual=%s read_err=%q closed=%v data=%s)",
			obs.Outcome, obs.Remote, obs.Virtual, obs.ReadErr, obs.Closed, obs.DataHead))
	}
	if obs.Outcome == "reject" {
		res.OK = true
		return res
	}
	if !bytes.Equal(data, want) {
		kind := "stream-corrupt"
		switch {
		case len(data) > len(want) && bytes.HasSuffix(data, want):
			kind = fmt.Sprintf("stream-leak+%d", len(data)-len(want))
		case len(data) < len(want) && bytes.HasSuffix(want, data):
			kind = "stream-loss-head"
		case len(data) < len(want) && bytes.HasPrefix(want, data):
			kind = "stream-loss-tail"
		}
		return fail(kind, fmt.Sprintf("application read %d byte(s) %s, the sender's payload is %d byte(s)", len(data), obs.DataHead, len(want)))
	}
	if obs.Outcome == "addr" {
		vt, ok := virtual.(*net.TCPAddr)
		if exp.src == nil || exp.dst == nil {
			return fail("addr-unexpected", "addresses reported for a header that advertises none: "+obs.Remote)
		}
		if !rtcp.IP.Equal(exp.src) || rtcp.Port != exp.sport {
			return fail("addr-mismatch-src", fmt.Sprintf("RemoteAddr %s, advertised source %s port %d", obs.Remote, exp.src, exp.sport))
		}
		if !ok || vt == nil || !vt.IP.Equal(exp.dst) || vt.Port != exp.dport {
			return fail("addr-mismatch-dst", fmt.Sprintf("VirtualAddr %s, advertised destination %s port %d", obs.Virtual, exp.dst, exp.dport))
		}
	} else { // real
		if remote == nil || remote.String() != raw.RemoteAddr().String() {
			return fail("real-remote", "RemoteAddr "+obs.Remote+" is not the socket peer address")
		}
		if virtual != nil && virtual.String() != raw.LocalAddr().String() {
			return fail("real-virtual", "VirtualAddr "+obs.Virtual+" although no address was advertised")
		}
	}
	res.OK = true
	return res
}
