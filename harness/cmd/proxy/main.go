// Command proxy binds specs/Proxy/Invoke.tla (C07, C08) to the real reverse proxy:
// an in-process BFE (harness/e2e), scripted backends, connection-counter hooks.
package main

import (
	"encoding/json"
	"fmt"
	"os"
	"strconv"
	"strings"
	"sync"
	"time"

	"github.com/bfenetworks/bfe/bfe_balance/backend"
	"github.com/bfenetworks/bfe/bfe_http"
	"github.com/bfenetworks/bfe/bfe_module"

	"verifharness/e2e"
	"verifharness/vh"
)

type scenario struct {
	ID         int      `json:"id"`
	RetryMax   int      `json:"retryMax"`
	CrossRetry int      `json:"crossRetry"`
	RetryGet   bool     `json:"retryGet"`
	Get        bool     `json:"get"`
	Nobody     bool     `json:"nobody"`
	SubA       []string `json:"subA"`
	SubB       []string `json:"subB"`
	FinishAt   int      `json:"finishAt"`
	FinishEnd  bool     `json:"finishAtEnd"` // a HandleRequestFinish filter returns BfeHandlerFinish
	Conc       int      `json:"conc"`
	Front      string   `json:"front"` // "" / "h1": HTTP/1.1 client; "spdy": SPDY/3.1 client over TLS
	Flap       bool     `json:"flap"` // health flap: the only backend serves its first connection slowly, fails the others, health check brings it back
}

type attempt struct {
	Sub  string `json:"sub"`
	Kind string `json:"kind"`
}

type reqState struct {
	forwards int
	att      []attempt
	status   int
	panicked bool
}

var (
	mu      sync.Mutex
	reqs    = map[string]*reqState{}
	finish  = map[string]int{} // req id -> finishAt
	finEnd  = map[string]bool{}
	events  []map[string]interface{}
	seen    = map[*backend.BfeBackend]bool{}
	curCase int
	lastEv  time.Time
	// counter value of each backend object when the current case started: a defect exposed by
	// an earlier case must not be reported again for every later case
	base = map[*backend.BfeBackend]int{}
)

func parseName(name string) (sub, kind string) {
	// "<sub>.<kind>.<i>"
	p := strings.Split(name, ".")
	if len(p) >= 2 {
		return p[0], p[1]
	}
	return "?", "?"
}

func main() {
	if len(os.Args) < 2 || os.Args[1] != "invoke-run" {
		fmt.Fprintln(os.Stderr, "usage: proxy invoke-run")
		os.Exit(2)
	}
	defer vh.Flush()
	var cases []scenario
	vh.EachCase(func(line []byte) {
		var c scenario
		if json.Unmarshal(line, &c) == nil {
			cases = append(cases, c)
		}
	})
	// backend pool: three addresses per behaviour
	pool := map[string][]string{}
	for i := 0; i < 3; i++ {
		pool["connect"] = append(pool["connect"], e2e.ClosedPort())
		b1, _ := e2e.NewBackend(e2e.AcceptClose)
		pool["readhdr"] = append(pool["readhdr"], b1.Addr)
		b2, _ := e2e.NewBackend(e2e.Stall(3 * time.Second))
		pool["timeout"] = append(pool["timeout"], b2.Addr)
		b4, _ := e2e.NewBackend(e2e.ReadThenReset)
		pool["rst"] = append(pool["rst"], b4.Addr)
		b3, _ := e2e.NewBackend(e2e.Respond(e2e.OK("hello"), true))
		pool["ok"] = append(pool["ok"], b3.Addr)
	}
	backend.VerifTracer = func(ev string, b *backend.BfeBackend, avail bool, fail, succ, arg int) {
		if ev != "inc_conn" && ev != "dec_conn" {
			return
		}
		sub, kind := parseName(b.Name)
		mu.Lock()
		seen[b] = true
		lastEv = time.Now()
		events = append(events, map[string]interface{}{"ev": ev[:3], "cid": curCase, "b": b.Name, "sub": sub, "kind": kind, "n": arg - base[b]})
		mu.Unlock()
	}
	s, err := e2e.Start(e2e.Options{Clusters: []e2e.Cluster{{Name: "c", Backends: []string{pool["ok"][0]}}},
		TLS: true, NextProtos: []string{"spdy/3.1", "http/1.1"}})
	if err != nil {
		vh.Emit(map[string]interface{}{"_fatal": "e2e.Start: " + err.Error()})
		vh.Flush()
		os.Exit(2)
	}
	defer s.Close()
	s.AddFilter(bfe_module.HandleForward, func(c *e2e.Call) (int, *bfe_http.Response) {
		id := c.Req.HttpRequest.Header.Get("X-Case-Req")
		mu.Lock()
		defer mu.Unlock()
		st := reqs[id]
		if st == nil {
			return bfe_module.BfeHandlerGoOn, nil
		}
		st.forwards++
		if finish[id] != 0 && st.forwards == finish[id] {
			return bfe_module.BfeHandlerFinish, nil
		}
		if c.Req.Trans.Backend != nil {
			sub, kind := parseName(c.Req.Trans.Backend.Name)
			st.att = append(st.att, attempt{sub, kind})
		}
		return bfe_module.BfeHandlerGoOn, nil
	})
	s.AddFilter(bfe_module.HandleRequestFinish, func(c *e2e.Call) (int, *bfe_http.Response) {
		id := c.Req.HttpRequest.Header.Get("X-Case-Req")
		mu.Lock()
		defer mu.Unlock()
		if finEnd[id] {
			return bfe_module.BfeHandlerFinish, nil
		}
		return bfe_module.BfeHandlerGoOn, nil
	})
	done := 0
	for _, c := range cases {
		if err := runScenario(s, pool, c); err != nil {
			vh.Emit(map[string]interface{}{"_fatal": fmt.Sprintf("case %d: %v", c.ID, err)})
			break
		}
		done++
	}
	vh.Emit(map[string]interface{}{"summary": true, "cases": done})
}

func runScenario(s *e2e.Server, pool map[string][]string, c scenario) error {
	mu.Lock()
	curCase = c.ID
	events = nil
	for b := range seen {
		base[b] = b.ConnNum()
	}
	mu.Unlock()
	level := 0
	if c.RetryGet {
		level = 1
	}
	cl := e2e.Cluster{Name: "c", Backends: []string{pool["ok"][0]}, Conf: map[string]map[string]interface{}{
		"BackendConf": {"RetryLevel": level, "TimeoutResponseHeader": 250, "TimeoutConnSrv": 1000},
		"GslbBasic":   {"RetryMax": c.RetryMax, "CrossRetry": c.CrossRetry},
	}}
	if c.Flap {
		// first connection: answer after 700 ms; every other one (requests and tcp health checks): accept and close
		fb, _ := e2e.NewBackend(func(bc *e2e.BackendConn) {
			if bc.Index == 0 {
				bc.ReadRequest()
				time.Sleep(700 * time.Millisecond)
				bc.Conn.Write([]byte(e2e.OK("slow")))
			}
		})
		defer fb.Close()
		pool = map[string][]string{"flaky": {fb.Addr}}
		cl.Conf["BackendConf"]["TimeoutResponseHeader"] = 3000
		cl.Conf["CheckConf"] = map[string]interface{}{"Schem": "tcp", "FailNum": 1, "SuccNum": 1, "CheckInterval": 40}
	}
	if err := s.SetClusters([]e2e.Cluster{cl}, nil); err != nil {
		return err
	}
	used := map[string]int{}
	mk := func(sub string, kinds []string) []map[string]interface{} {
		var out []map[string]interface{}
		for _, k := range kinds {
			addr := pool[k][used[k]]
			used[k]++
			h, p := addr[:strings.LastIndex(addr, ":")], addr[strings.LastIndex(addr, ":")+1:]
			port, _ := strconv.Atoi(p)
			out = append(out, map[string]interface{}{"Name": fmt.Sprintf("%s.%s.%d", sub, k, len(out)), "Addr": h, "Port": port, "Weight": 1})
		}
		return out
	}
	table := map[string]interface{}{"A": mk("A", c.SubA)}
	gslb := map[string]int{"A": 100, "GSLB_BLACKHOLE": 0}
	if len(c.SubB) > 0 {
		table["B"] = mk("B", c.SubB)
		gslb["B"] = 0
	}
	ver := strconv.FormatInt(time.Now().UnixNano(), 10)
	tj, _ := json.Marshal(map[string]interface{}{"Version": ver, "Config": map[string]interface{}{"c": table}})
	gj, _ := json.Marshal(map[string]interface{}{"Clusters": map[string]interface{}{"c": gslb}, "Hostname": "", "Ts": ver})
	if err := s.WriteFile("cluster_conf/cluster_table.data", string(tj)); err != nil {
		return err
	}
	if err := s.WriteFile("cluster_conf/gslb.data", string(gj)); err != nil {
		return err
	}
	if err := s.ReloadServerData(); err != nil {
		return fmt.Errorf("reload server data: %v", err)
	}
	if err := s.ReloadGslb(); err != nil {
		return fmt.Errorf("reload gslb: %v", err)
	}
	vh.Emit(map[string]interface{}{"ev": "req", "cid": c.ID, "retryMax": c.RetryMax, "crossRetry": c.CrossRetry,
		"retryGet": c.RetryGet, "get": c.Get, "nobody": c.Nobody})
	var wg sync.WaitGroup
	ids := []string{}
	for i := 0; i < c.Conc; i++ {
		id := fmt.Sprintf("%d-%d", c.ID, i)
		ids = append(ids, id)
		mu.Lock()
		reqs[id] = &reqState{}
		finish[id] = c.FinishAt
		finEnd[id] = c.FinishEnd
		mu.Unlock()
		wg.Add(1)
		go func(id string, k int) {
			defer wg.Done()
			if c.Flap && k > 0 {
				time.Sleep(time.Duration(120*k) * time.Millisecond) // the slow request is in flight first
			}
			method := "POST"
			if c.Get {
				method = "GET"
			}
			body := "Content-Length: 5\r\n\r\nhello"
			if c.Nobody {
				body = "\r\n"
				if !c.Get {
					body = "Content-Length: 0\r\n\r\n"
				}
			}
			if c.Front == "spdy" {
				sc, err := e2e.DialSPDY(s.TLSAddr)
				if err != nil {
					return
				}
				defer sc.Close()
				var b []byte
				if !c.Nobody {
					b = []byte("hello")
				}
				st, _, err := sc.Do(method, "/x", "example.org", map[string]string{"x-case-req": id}, b, 20*time.Second)
				mu.Lock()
				if err == nil {
					reqs[id].status = st
				}
				mu.Unlock()
				return
			}
			cli, err := e2e.DialH1(s.Addr)
			if err != nil {
				return
			}
			defer cli.Close()
			cli.Send(method + " /x HTTP/1.1\r\nHost: example.org\r\nX-Case-Req: " + id + "\r\nConnection: close\r\n" + body)
			r, err := cli.ReadResponse(method, 20*time.Second)
			mu.Lock()
			if err == nil && r != nil {
				reqs[id].status = r.Status
			}
			mu.Unlock()
		}(id, i)
	}
	wg.Wait()
	// quiescence: FinishReq runs after the response was written; wait until the hooks are silent
	deadline := time.Now().Add(5 * time.Second)
	for time.Now().Before(deadline) {
		time.Sleep(30 * time.Millisecond)
		mu.Lock()
		quiet := time.Since(lastEv) > 150*time.Millisecond
		mu.Unlock()
		if quiet {
			break
		}
	}
	mu.Lock()
	for _, e := range events {
		vh.Emit(e)
	}
	for _, id := range ids {
		st := reqs[id]
		att := st.att
		if att == nil {
			att = []attempt{}
		}
		vh.Emit(map[string]interface{}{"ev": "fin", "cid": c.ID, "req": id, "att": att, "status": st.status, "forwards": st.forwards, "panic": false})
		delete(reqs, id)
		delete(finish, id)
		delete(finEnd, id)
	}
	conns := []int{}
	for b := range seen {
		conns = append(conns, b.ConnNum()-base[b])
	}
	mu.Unlock()
	vh.Emit(map[string]interface{}{"ev": "quiet", "cid": c.ID, "conns": conns})
	return nil
}
