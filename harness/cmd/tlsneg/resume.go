package main

import (
	"crypto/tls"
	"encoding/json"
	"fmt"
	"net"

	"github.com/bfenetworks/bfe/bfe_server"
	"github.com/bfenetworks/bfe/bfe_tls"

	"verifharness/vh"
)

type resStep struct {
	Op     string      `json:"op"` // epoch | conn
	Sv     *ServerSpec `json:"sv"`
	Cl     *ClientSpec `json:"cl"`
	Offer  string      `json:"offer"`  // saved | none
	Tamper string      `json:"tamper"` // see tamperTicket / tamperSID
}

type resCase struct {
	ID    int       `json:"id"`
	Steps []resStep `json:"steps"`
}

type stepObs struct {
	Obs
	Offered  bool   `json:"offered"`        // a session (possibly tampered) was handed to the client for this connection
	SessFrom int    `json:"sess_from"`      // index (in steps, initial epoch = 0) of the step in which the offered session was obtained (0: none)
	SessKind string `json:"sess_kind"`      // ticket | sid
	TLen     int    `json:"tlen,omitempty"` // ticket length offered
	Note     string `json:"note,omitempty"`
}

// saved session of the (single) client of a history
type savedSess struct {
	from   int
	goCS   *tls.ClientSessionState
	goTkt  []byte // the ticket as issued (NewResumptionState overwrites the ticket inside the shared SessionState)
	raw    *rawSession
	master []byte // server-side master secret of the originating connection
	vers   uint16
	suite  uint16
	certs  [][]byte
}

// Ticket layout (bfe_tls/ticket.go): iv[16] | ctr( vers[2] suite[2] mslen[2] ms[48] ncerts[2] {len[4] cert}* ) | mac[32]
func tamperTicket(t []byte, how string, s *savedSess) ([]byte, string) {
	out := append([]byte(nil), t...)
	n := len(out)
	flip := func(i int) ([]byte, string) {
		if i < 0 || i >= n {
			return out, "position out of range; untouched"
		}
		out[i] ^= 0x01
		return out, ""
	}
	switch how {
	case "none":
		return out, ""
	case "flip-iv0":
		return flip(0)
	case "flip-iv15":
		return flip(15)
	case "flip-vers":
		return flip(17)
	case "flip-suite":
		return flip(19)
	case "flip-mslen":
		return flip(21)
	case "flip-ms0":
		return flip(22)
	case "flip-msN":
		return flip(69)
	case "flip-ncert":
		return flip(71)
	case "flip-ctN":
		return flip(n - 33)
	case "flip-mac0":
		return flip(n - 32)
	case "flip-macN":
		return flip(n - 1)
	case "trunc-1":
		return out[:n-1], ""
	case "trunc-mac":
		return out[:n-32], ""
	case "trunc-47":
		if n > 47 {
			return out[:47], ""
		}
		return out, ""
	case "extend-1":
		return append(out, 0), ""
	case "garbage":
		r := vh.Rand(int64(n))
		for i := range out {
			out[i] = byte(r.Intn(256))
		}
		return out, ""
	case "foreign":
		// the same session record sealed under a key this server never had
		f, err := bfe_tls.VerifTlsnegForgeTicket(ticketKey(99), s.vers, s.suite, s.master, s.certs)
		if err != nil {
			return out, "forge failed: " + err.Error()
		}
		return f, ""
	}
	return out, "unknown tamper " + how
}

func tamperSID(id []byte, how string) ([]byte, string) {
	out := append([]byte(nil), id...)
	switch how {
	case "none":
		return out, ""
	case "flip-id0":
		out[0] ^= 1
		return out, ""
	case "flip-idN":
		out[len(out)-1] ^= 1
		return out, ""
	case "trunc-id":
		return out[:len(out)/2], ""
	case "cache-trunc", "cache-evict":
		return out, "" // the id is presented as issued; the server-side entry is damaged instead
	}
	return out, "unknown tamper " + how
}

// damageCache truncates / removes the server-side record of a session id in every cache generation.
func damageCache(caches map[int]*memCache, sid []byte, how string) {
	k := fmt.Sprintf("%x", sid)
	for _, c := range caches {
		c.mu.Lock()
		if v, ok := c.m[k]; ok {
			switch how {
			case "cache-trunc":
				c.m[k] = v[:len(v)-1]
			case "cache-evict":
				delete(c.m, k)
			}
		}
		c.mu.Unlock()
	}
}

// memListener is the inner net.Listener of the HttpsListener: Accept hands out the server end of the
// next in-memory connection.
type memListener struct{ ch chan net.Conn }

func (l *memListener) Accept() (net.Conn, error) { return <-l.ch, nil }
func (l *memListener) Close() error              { return nil }
func (l *memListener) Addr() net.Addr            { return pipeAddr{} }

// server is the TLS front of one history: a bfe_server.HttpsListener.  A change of the ticket key goes
// through the server's reload entry point UpdateSessionTicketKey (what SessionTicketKeyReload calls
// with the decoded key file); any other configuration change is a restart with the key in use.
type server struct {
	inner *memListener
	hl    *bfe_server.HttpsListener
	spec  ServerSpec
	key   int
}

func sameButKey(a, b ServerSpec) bool {
	a.Key, b.Key = 0, 0
	x, _ := json.Marshal(a)
	y, _ := json.Marshal(b)
	return string(x) == string(y)
}

func (s *server) epoch(sv *ServerSpec, caches map[int]*memCache) {
	restarted := false
	if s.hl == nil || !sameButKey(s.spec, *sv) {
		restarted = true
		start := *sv
		if s.hl != nil {
			start.Key = s.key // restart with the key file as it is, the rotation follows
		}
		s.inner = &memListener{ch: make(chan net.Conn, 1)}
		s.hl = bfe_server.NewHttpsListener(s.inner, buildServer(&start, caches))
		s.key = start.Key
	}
	if sv.Key != s.key || !restarted { // a reload of the key file, rotated or identical
		s.hl.UpdateSessionTicketKey(ticketKeyFile(sv.Key))
		s.key = sv.Key
	}
	s.spec = *sv
}

func (s *server) serverFor(sc net.Conn) *bfe_tls.Conn {
	s.inner.ch <- sc
	c, err := s.hl.VerifTlsnegAccept()
	if err != nil {
		panic(err)
	}
	return c.(*bfe_tls.Conn)
}

func resumeOne(c *resCase) []interface{} {
	caches := map[int]*memCache{}
	srv := &server{}
	var saved *savedSess
	out := make([]interface{}, len(c.Steps))
	for i := range c.Steps {
		st := &c.Steps[i]
		switch st.Op {
		case "epoch":
			srv.epoch(st.Sv, caches)
			out[i] = map[string]string{"op": "epoch"}
		case "conn":
			var so stepObs
			var goOffer *tls.ClientSessionState
			var rawOffer *rawSession
			if st.Offer == "saved" && saved != nil {
				so.SessFrom = saved.from
				if st.Cl.Kind == "go" && saved.goCS != nil {
					_, state, err := saved.goCS.ResumptionState()
					if err != nil || state == nil {
						so.Note = fmt.Sprintf("ResumptionState: %v", err)
					} else {
						mt, note := tamperTicket(saved.goTkt, st.Tamper, saved)
						so.Note = note
						cp := *state // private copy: the saved session keeps the ticket as issued
						cs, err := tls.NewResumptionState(mt, &cp)
						if err != nil {
							so.Note += fmt.Sprintf(" NewResumptionState: %v", err)
						} else {
							goOffer = cs
							so.Offered = true
							so.SessKind = "ticket"
							so.TLen = len(mt)
						}
					}
				} else if st.Cl.Kind == "raw" && saved.raw != nil {
					r := *saved.raw
					if len(r.Ticket) > 0 {
						r.Ticket, so.Note = tamperTicket(r.Ticket, st.Tamper, saved)
						so.SessKind = "ticket"
						so.TLen = len(r.Ticket)
						if len(r.Ticket) == 0 {
							so.Note += " empty ticket: nothing offered"
						}
					} else {
						r.SessionID, so.Note = tamperSID(r.SessionID, st.Tamper)
						so.SessKind = "sid"
						damageCache(caches, saved.raw.SessionID, st.Tamper)
					}
					rawOffer = &r
					so.Offered = true
				}
			}
			r := runConnVia(srv.serverFor, st.Cl, goOffer, rawOffer, vh.Seed()*1000003+int64(c.ID)*16+int64(i))
			so.Obs = r.obs
			out[i] = so
			if so.SessKind == "sid" && (st.Tamper == "cache-trunc" || st.Tamper == "cache-evict") {
				saved = nil // the entry is gone for good; the client forgets the id
			}
			if r.obs.COK && r.obs.SOK && !r.obs.SResumed && (r.goSaved != nil || r.rawSaved != nil) {
				ns := &savedSess{from: i, goCS: r.goSaved, raw: r.rawSaved, master: r.master,
					vers: vers(r.obs.SVers), suite: suiteID[r.obs.SSuite]}
				if id := clientIdentity(st.Cl.Cert, st.Cl.CA); id != nil && r.obs.SPeer > 0 {
					ns.certs = [][]byte{id.der}
				}
				if r.goSaved != nil {
					if t, _, err := r.goSaved.ResumptionState(); err == nil {
						ns.goTkt = append([]byte(nil), t...)
					}
				}
				saved = ns
			}
		}
	}
	return out
}

func resumeRun() {
	n := 0
	parallel(func(line []byte) {
		var c resCase
		if err := json.Unmarshal(line, &c); err != nil || len(c.Steps) == 0 {
			vh.Emit(map[string]interface{}{"_bad_case": string(line)})
			return
		}
		var steps []interface{}
		p := vh.Guard(func() { steps = resumeOne(&c) })
		vh.Emit(map[string]interface{}{"id": c.ID, "steps": steps, "panic": p})
		n++
	})
	vh.Emit(map[string]interface{}{"summary": true, "cases": n})
}
