// Command tlsneg binds specs/Tls/{Negotiate,Ticket}.tla to bfe_tls (server side).
//
//	tlsneg neg     C41: one handshake per case (client spec x server spec), ConnectionState on both
//	               ends, 1 KiB echoed both ways.
//	tlsneg resume  C44: one history per case (server epochs, connections offering saved / tampered
//	               tickets or session ids).
//
// The harness reports observations only; expectations come from the TLC-printed cases and are
// compared in families/tlsneg.py.
package main

import (
	"encoding/json"
	"fmt"
	"os"
	"runtime"
	"strconv"
	"sync"

	"verifharness/vh"
)

func workers() int {
	if n, err := strconv.Atoi(os.Getenv("VERIF_TLSNEG_WORKERS")); err == nil && n > 0 {
		return n
	}
	n := runtime.NumCPU()
	if n > 8 {
		n = 8
	}
	if n < 1 {
		n = 1
	}
	return n
}

// parallel runs f over all stdin lines with a bounded worker pool.
func parallel(f func(line []byte)) {
	ch := make(chan []byte, 64)
	var wg sync.WaitGroup
	for i := 0; i < workers(); i++ {
		wg.Add(1)
		go func() {
			defer wg.Done()
			for l := range ch {
				f(l)
			}
		}()
	}
	vh.EachCase(func(line []byte) { ch <- line })
	close(ch)
	wg.Wait()
}

type negCase struct {
	ID int         `json:"id"`
	Cl *ClientSpec `json:"cl"`
	Sv *ServerSpec `json:"sv"`
}

func negRun() {
	n := 0
	var mu sync.Mutex
	parallel(func(line []byte) {
		var c negCase
		if err := json.Unmarshal(line, &c); err != nil || c.Cl == nil || c.Sv == nil {
			vh.Emit(map[string]interface{}{"_bad_case": string(line)})
			return
		}
		var r connResult
		p := vh.Guard(func() {
			cfg := buildServer(c.Sv, nil)
			r = runConn(cfg, c.Cl, nil, nil, vh.Seed()*1000003+int64(c.ID))
		})
		if p != "" {
			r.obs.Panic = p
		}
		vh.Emit(map[string]interface{}{"id": c.ID, "obs": r.obs})
		mu.Lock()
		n++
		mu.Unlock()
	})
	vh.Emit(map[string]interface{}{"summary": true, "cases": n})
}

func main() {
	if len(os.Args) < 2 {
		fmt.Fprintln(os.Stderr, "usage: tlsneg <neg|resume>")
		os.Exit(2)
	}
	defer vh.Flush()
	initKeys()
	switch os.Args[1] {
	case "neg":
		negRun()
	case "resume":
		resumeRun()
	default:
		fmt.Fprintln(os.Stderr, "unknown subcommand", os.Args[1])
		vh.Flush()
		os.Exit(2)
	}
}
