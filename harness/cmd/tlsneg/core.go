package main

import (
	"bytes"
	"context"
	"crypto/ecdsa"
	"crypto/elliptic"
	"crypto/rand"
	"crypto/rsa"
	"crypto/sha256"
	"crypto/tls"
	"crypto/x509"
	"crypto/x509/pkix"
	"encoding/hex"
	"encoding/pem"
	"fmt"
	"math/big"
	"net"
	"os"
	"strconv"
	"strings"
	"sync"
	"time"

	"github.com/bfenetworks/bfe/bfe_tls"

	"verifharness/vh"
)

// ---------------------------------------------------------------- alphabets (abstract -> concrete)

var suiteID = map[string]uint16{
	"EG": 0xc02f, // TLS_ECDHE_RSA_WITH_AES_128_GCM_SHA256
	"EC": 0xc013, // TLS_ECDHE_RSA_WITH_AES_128_CBC_SHA
	"RC": 0x002f, // TLS_RSA_WITH_AES_128_CBC_SHA
	"R3": 0x000a, // TLS_RSA_WITH_3DES_EDE_CBC_SHA
	"XG": 0xc02b, // TLS_ECDHE_ECDSA_WITH_AES_128_GCM_SHA256
	"CH": 0xcca8, // TLS_ECDHE_RSA_WITH_CHACHA20_POLY1305_SHA256 (bfe: only under a rule with Chacha20)
}

const scsv = 0x5600

func suiteName(id uint16) string {
	for k, v := range suiteID {
		if v == id {
			return k
		}
	}
	return fmt.Sprintf("0x%04x", id)
}

func suites(names []string) []uint16 {
	out := make([]uint16, 0, len(names))
	for _, n := range names {
		id, ok := suiteID[n]
		if !ok {
			panic("unknown suite " + n)
		}
		out = append(out, id)
	}
	return out
}

func vers(v int) uint16 {
	switch v {
	case 0:
		return 0
	case 3:
		return 0x0300
	case 10:
		return 0x0301
	case 11:
		return 0x0302
	case 12:
		return 0x0303
	}
	panic(fmt.Sprintf("unknown version %d", v))
}

func versName(v uint16) int {
	switch v {
	case 0x0300:
		return 3
	case 0x0301:
		return 10
	case 0x0302:
		return 11
	case 0x0303:
		return 12
	case 0x0304:
		return 13
	}
	return int(v)
}

// ---------------------------------------------------------------- key material (fresh per process)

type pki struct {
	rsaCert, ecCert bfe_tls.Certificate
	// client CAs 1 ("A") and 2 ("B"); per CA a genuine leaf and a self-made leaf whose issuer NAME is
	// that CA's subject but which is signed by an unrelated key
	clientCAs [3]*x509.CertPool
	leaf      map[string]*clientID // "A", "B", "fakeA", "fakeB"
}

type clientID struct {
	goCert  tls.Certificate
	bfeCert bfe_tls.Certificate
	der     []byte
}

func caName(n int) string {
	if n == 2 {
		return "B"
	}
	return "A"
}

// clientIdentity maps the abstract certificate class of a connection to key material: "A"/"B" the leaf
// issued by that CA, "fake" the forgery naming the epoch's current CA as issuer, "none"/"" nothing.
func clientIdentity(class string, ca int) *clientID {
	switch class {
	case "A", "B":
		return keys.leaf[class]
	case "fake":
		return keys.leaf["fake"+caName(ca)]
	}
	return nil
}

var keys pki

func mustPEM(der []byte, key interface{}) (certPEM, keyPEM []byte) {
	certPEM = pem.EncodeToMemory(&pem.Block{Type: "CERTIFICATE", Bytes: der})
	kb, err := x509.MarshalPKCS8PrivateKey(key)
	if err != nil {
		panic(err)
	}
	keyPEM = pem.EncodeToMemory(&pem.Block{Type: "PRIVATE KEY", Bytes: kb})
	return
}

func initKeys() {
	now := time.Now()
	serial := int64(1)
	tmpl := func(cn string, ca bool, eku []x509.ExtKeyUsage) *x509.Certificate {
		serial++
		return &x509.Certificate{
			SerialNumber: big.NewInt(serial), Subject: pkix.Name{CommonName: cn},
			NotBefore: now.Add(-time.Hour), NotAfter: now.Add(240 * time.Hour),
			KeyUsage:    x509.KeyUsageDigitalSignature | x509.KeyUsageKeyEncipherment | x509.KeyUsageCertSign,
			ExtKeyUsage: eku, BasicConstraintsValid: true, IsCA: ca,
			DNSNames: []string{"a.example", "b.example"},
		}
	}
	srvEKU := []x509.ExtKeyUsage{x509.ExtKeyUsageServerAuth}
	rk, err := rsa.GenerateKey(rand.Reader, 2048)
	if err != nil {
		panic(err)
	}
	t := tmpl("verif rsa server", true, srvEKU)
	der, err := x509.CreateCertificate(rand.Reader, t, t, &rk.PublicKey, rk)
	if err != nil {
		panic(err)
	}
	cp, kp := mustPEM(der, rk)
	if keys.rsaCert, err = bfe_tls.X509KeyPair(cp, kp); err != nil {
		panic(err)
	}
	ek, _ := ecdsa.GenerateKey(elliptic.P256(), rand.Reader)
	t = tmpl("verif ecdsa server", true, srvEKU)
	der, err = x509.CreateCertificate(rand.Reader, t, t, &ek.PublicKey, ek)
	if err != nil {
		panic(err)
	}
	cp, kp = mustPEM(der, ek)
	if keys.ecCert, err = bfe_tls.X509KeyPair(cp, kp); err != nil {
		panic(err)
	}
	// client CAs + leaves
	keys.leaf = map[string]*clientID{}
	for n := 1; n <= 2; n++ {
		name := caName(n)
		cat := tmpl("verif client CA "+name, true, nil)
		mk := func(fake bool) {
			cak, _ := ecdsa.GenerateKey(elliptic.P256(), rand.Reader)
			cader, err := x509.CreateCertificate(rand.Reader, cat, cat, &cak.PublicKey, cak)
			if err != nil {
				panic(err)
			}
			cacert, _ := x509.ParseCertificate(cader)
			if !fake {
				keys.clientCAs[n] = x509.NewCertPool()
				keys.clientCAs[n].AddCert(cacert)
			}
			lk, _ := ecdsa.GenerateKey(elliptic.P256(), rand.Reader)
			lt := tmpl("verif client "+name, false, []x509.ExtKeyUsage{x509.ExtKeyUsageClientAuth})
			lt.KeyUsage = x509.KeyUsageDigitalSignature
			lder, err := x509.CreateCertificate(rand.Reader, lt, cacert, &lk.PublicKey, cak)
			if err != nil {
				panic(err)
			}
			id := &clientID{der: lder}
			cp, kp := mustPEM(lder, lk)
			if id.goCert, err = tls.X509KeyPair(cp, kp); err != nil {
				panic(err)
			}
			if id.bfeCert, err = bfe_tls.X509KeyPair(cp, kp); err != nil {
				panic(err)
			}
			if fake {
				keys.leaf["fake"+name] = id
			} else {
				keys.leaf[name] = id
			}
		}
		mk(false)
		mk(true)
	}
}

// ---------------------------------------------------------------- server side

// RuleSpec is a per-connection rule (bfe_tls.Rule) that applies to one SNI.
type RuleSpec struct {
	SNI        string   `json:"sni"`
	Grade      string   `json:"grade"`
	NP         []string `json:"np"`
	ClientAuth bool     `json:"clientauth"`
	Chacha     bool     `json:"chacha"`
}

// ServerSpec is the abstract server configuration of the specs.
type ServerSpec struct {
	Min    int       `json:"min"`    // 0 = field left at its zero default
	Max    int       `json:"max"`    // 0 = field left at its zero default
	Suites []string  `json:"suites"` // empty = nil (package default list)
	Prefer bool      `json:"prefer"`
	NP     []string  `json:"np"`
	Rule   *RuleSpec `json:"rule"`
	Cert   string    `json:"cert"` // rsa | ecdsa
	// resumption-related (C44)
	Key     int    `json:"key"`     // session ticket key number (>=1)
	Tickets bool   `json:"tickets"` // session tickets enabled
	Cache   int    `json:"cache"`   // 0: session cache disabled, n: cache generation n
	Auth    string `json:"auth"`    // none | request | require
	CA      int    `json:"ca"`      // client CA in force (1 | 2; 0 = 1), for Config.ClientCAs and the rule's ClientCAs
}

type staticProtos []string

func (p staticProtos) Get(c *bfe_tls.Conn) []string { return []string(p) }

type sniRule struct {
	sni  string
	rule *bfe_tls.Rule
}

func (r *sniRule) Get(c *bfe_tls.Conn) *bfe_tls.Rule {
	if c.GetServerName() == r.sni {
		return r.rule
	}
	return nil
}

// memCache is an in-memory bfe_tls.ServerSessionCache.
type memCache struct {
	mu sync.Mutex
	m  map[string][]byte
}

func newMemCache() *memCache { return &memCache{m: map[string][]byte{}} }

func (c *memCache) Get(k string) ([]byte, bool) {
	c.mu.Lock()
	defer c.mu.Unlock()
	v, ok := c.m[k]
	if !ok {
		return nil, false
	}
	return append([]byte(nil), v...), true
}

func (c *memCache) Put(k string, v []byte) error {
	c.mu.Lock()
	defer c.mu.Unlock()
	c.m[k] = append([]byte(nil), v...)
	return nil
}

// ticketKeyFile returns the 48 bytes of the session ticket key file for key number n: 16 bytes key
// name + 32 bytes key material.  Keys 1 and 2 share the NAME and differ in the material (a rotation
// that keeps the name), key 3 has another name.
func ticketKeyFile(n int) []byte {
	nameIdx := n
	switch n {
	case 2:
		nameIdx = 1
	case 3:
		nameIdx = 2
	}
	name := sha256.Sum256([]byte(fmt.Sprintf("verif ticket key name %d", nameIdx)))
	mat := sha256.Sum256([]byte(fmt.Sprintf("verif ticket key %d", n)))
	return append(append([]byte{}, name[:16]...), mat[:]...)
}

func ticketKey(n int) (k [32]byte) {
	copy(k[:], ticketKeyFile(n)[16:])
	return k
}

func caIdx(n int) int {
	if n == 2 {
		return 2
	}
	return 1
}

// buildServer makes a fresh bfe_tls.Config for the spec.  caches maps generation -> cache.
func buildServer(sv *ServerSpec, caches map[int]*memCache) *bfe_tls.Config {
	cfg := &bfe_tls.Config{
		MinVersion:               vers(sv.Min),
		MaxVersion:               vers(sv.Max),
		PreferServerCipherSuites: sv.Prefer,
		ClientCAs:                keys.clientCAs[caIdx(sv.CA)],
	}
	if len(sv.Suites) > 0 {
		cfg.CipherSuites = suites(sv.Suites)
	}
	if len(sv.NP) > 0 {
		cfg.NextProtos = append([]string(nil), sv.NP...)
	}
	if sv.Cert == "ecdsa" {
		cfg.Certificates = []bfe_tls.Certificate{keys.ecCert}
	} else {
		cfg.Certificates = []bfe_tls.Certificate{keys.rsaCert}
	}
	if sv.Rule != nil {
		g := sv.Rule.Grade
		if g == "" {
			g = bfe_tls.GradeC
		}
		r := &bfe_tls.Rule{Grade: g, NextProtos: staticProtos(sv.Rule.NP), ClientAuth: sv.Rule.ClientAuth,
			Chacha20: sv.Rule.Chacha}
		if sv.Rule.ClientAuth {
			r.ClientCAs = keys.clientCAs[caIdx(sv.CA)]
		}
		cfg.ServerRule = &sniRule{sni: sv.Rule.SNI, rule: r}
	}
	switch sv.Auth {
	case "request":
		cfg.ClientAuth = bfe_tls.RequestClientCert
	case "require":
		cfg.ClientAuth = bfe_tls.RequireAndVerifyClientCert
	}
	// resumption
	if sv.Key > 0 { // as BfeServer.initTLSSessionTicket does with the key file
		kf := ticketKeyFile(sv.Key)
		copy(cfg.SessionTicketKeyName[:], kf[:16])
		copy(cfg.SessionTicketKey[:], kf[16:])
	}
	cfg.SessionTicketsDisabled = !sv.Tickets
	if sv.Cache > 0 && caches != nil {
		c, ok := caches[sv.Cache]
		if !ok {
			c = newMemCache()
			caches[sv.Cache] = c
		}
		cfg.ServerSessionCache = c
	} else {
		cfg.SessionCacheDisabled = true
	}
	return cfg
}

// ---------------------------------------------------------------- client side

// ClientSpec is the abstract client of the specs.
type ClientSpec struct {
	Kind   string   `json:"kind"` // go (crypto/tls) | raw (explicit hello through the overlay driver)
	Min    int      `json:"min"`
	Max    int      `json:"max"`
	Suites []string `json:"suites"` // raw: exactly this order; go: as a set (crypto/tls orders them itself)
	SCSV   bool     `json:"scsv"`
	ECC    string   `json:"ecc"` // ok | none | foreign
	ALPN   []string `json:"alpn"`
	SNI    string   `json:"sni"`
	Cert   string   `json:"cert"` // client certificate to present: "" / none | A | B | fake (see clientIdentity)
	CA     int      `json:"ca"`   // the server's current client CA (decides which forgery "fake" is)
	// raw client: do not send the session_ticket extension (so that the server assigns a session id)
	NoTicket bool `json:"noticket"`
}

// Obs is what both ends saw.
type Obs struct {
	COK      bool   `json:"c_ok"`
	CErr     string `json:"c_err,omitempty"`
	CVers    int    `json:"c_vers,omitempty"`
	CSuite   string `json:"c_suite,omitempty"`
	CALPN    string `json:"c_alpn"`
	CResumed bool   `json:"c_resumed"`
	SOK      bool   `json:"s_ok"`
	SErr     string `json:"s_err,omitempty"`
	SVers    int    `json:"s_vers,omitempty"`
	SSuite   string `json:"s_suite,omitempty"`
	SALPN    string `json:"s_alpn"`
	SResumed bool   `json:"s_resumed"`
	SPeer    int    `json:"s_peer"`             // number of client certificates the server holds for the connection
	SMaster  string `json:"s_master,omitempty"` // hash of the server's master secret
	CMaster  string `json:"c_master,omitempty"` // raw client only
	CertReq  int    `json:"cert_req"`           // go client: 1 CertificateRequest seen, 0 not; raw: -1 unknown
	Alert    string `json:"alert,omitempty"`    // alert received from the server, normalised
	CAlert   string `json:"c_alert,omitempty"`  // alert the server received from the client
	Echo     string `json:"echo,omitempty"`     // ok | <what went wrong>
	HelloV   int    `json:"hello_vers,omitempty"`
	HelloALP string `json:"hello_alpn,omitempty"` // raw client: ALPN in ServerHello
	Panic    string `json:"panic,omitempty"`
	Hang     bool   `json:"hang,omitempty"`
	// session material the client got out of this connection
	GotTicket bool `json:"got_ticket"`
	GotSID    bool `json:"got_sid"`
}

// offered session
type goSession struct{ cs *tls.ClientSessionState }

type goCache struct {
	mu    sync.Mutex
	offer *tls.ClientSessionState
	saved *tls.ClientSessionState
}

func (c *goCache) Get(string) (*tls.ClientSessionState, bool) {
	c.mu.Lock()
	defer c.mu.Unlock()
	return c.offer, c.offer != nil
}

func (c *goCache) Put(_ string, cs *tls.ClientSessionState) {
	c.mu.Lock()
	defer c.mu.Unlock()
	if cs != nil {
		c.saved = cs
	}
}

var alertNames = []string{"inappropriate fallback", "handshake failure", "protocol version", "bad certificate",
	"no application protocol", "internal error", "unexpected message", "bad record mac", "illegal parameter",
	"decode", "decrypt", "certificate required", "unknown certificate authority"}

func alertOf(err error) string {
	if err == nil {
		return ""
	}
	s := strings.ToLower(err.Error())
	if !strings.Contains(s, "remote error") {
		return ""
	}
	for _, a := range alertNames {
		if strings.Contains(s, a) {
			return strings.ReplaceAll(a, " ", "_")
		}
	}
	return "other"
}

func mhash(b []byte) string {
	if len(b) == 0 {
		return ""
	}
	h := sha256.Sum256(b)
	return hex.EncodeToString(h[:8])
}

func payload(seed int64, dir byte) []byte {
	b := make([]byte, 1024)
	x := uint64(seed)*6364136223846793005 + uint64(dir) + 1442695040888963407
	for i := range b {
		x = x*6364136223846793005 + 1442695040888963407
		b[i] = byte(x >> 33)
	}
	return b
}

type rawSession = bfe_tls.VerifTlsnegSession

// connResult carries, besides the observation, the session material for later resumption.
type connResult struct {
	obs      Obs
	goSaved  *tls.ClientSessionState
	rawSaved *rawSession
	master   []byte // server-side master secret
}

// connTimeout is the watchdog for one connection (VERIF_TLSNEG_TIMEOUT seconds, default 20).
var connTimeout = func() time.Duration {
	if n, err := strconv.Atoi(os.Getenv("VERIF_TLSNEG_TIMEOUT")); err == nil && n > 0 {
		return time.Duration(n) * time.Second
	}
	return 20 * time.Second
}()

// runConn performs one connection: handshake + 1 KiB echo in both directions.
func runConn(cfg *bfe_tls.Config, cl *ClientSpec, goOffer *tls.ClientSessionState, rawOffer *rawSession, seed int64) (res connResult) {
	return runConnVia(func(sc net.Conn) *bfe_tls.Conn { return bfe_tls.Server(sc, cfg) }, cl, goOffer, rawOffer, seed)
}

// runConnVia is runConn with the server side of the connection produced by serverFor (directly, or by
// accepting it on a bfe_server.HttpsListener).
func runConnVia(serverFor func(net.Conn) *bfe_tls.Conn, cl *ClientSpec, goOffer *tls.ClientSessionState, rawOffer *rawSession, seed int64) (res connResult) {
	cc, sc := bufPipe()
	dl := time.Now().Add(connTimeout)
	cc.SetDeadline(dl)
	sc.SetDeadline(dl)
	defer cc.Close()
	defer sc.Close()
	o := &res.obs
	o.CertReq = -1
	up, down := payload(seed, 1), payload(seed, 2)

	var wg sync.WaitGroup
	wg.Add(1)
	var sPanic, sEcho string
	go func() {
		defer wg.Done()
		sPanic = vh.Guard(func() {
			s := serverFor(sc)
			err := s.Handshake()
			if err != nil {
				o.SErr = err.Error()
				o.CAlert = alertOf(err)
				sc.Close()
				return
			}
			st := s.ConnectionState()
			o.SOK = st.HandshakeComplete
			o.SVers = versName(st.Version)
			o.SSuite = suiteName(st.CipherSuite)
			o.SALPN = st.NegotiatedProtocol
			o.SResumed = st.DidResume
			o.SPeer = len(st.PeerCertificates)
			o.SMaster = mhash(st.MasterSecret)
			res.master = append([]byte(nil), st.MasterSecret...)
			buf := make([]byte, len(up))
			n := 0
			var rerr error
			for n < len(buf) {
				k, err := s.Read(buf[n:])
				n += k
				if err != nil {
					rerr = err
					break
				}
			}
			if !bytes.Equal(buf[:n], up) {
				sEcho = fmt.Sprintf("server received %d bytes, differ from what the client sent (read error: %v)", n, rerr)
				sc.Close()
				return
			}
			if _, err := s.Write(down); err != nil {
				sEcho = "server write: " + err.Error()
			}
			s.Close()
		})
	}()

	var cPanic, cEcho string
	cPanic = vh.Guard(func() {
		var rw interface {
			Read([]byte) (int, error)
			Write([]byte) (int, error)
		}
		if cl.Kind == "go" {
			cache := &goCache{offer: goOffer}
			conf := &tls.Config{
				InsecureSkipVerify: true,
				MinVersion:         vers(cl.Min),
				MaxVersion:         vers(cl.Max),
				CipherSuites:       suites(cl.Suites),
				NextProtos:         cl.ALPN,
				ServerName:         cl.SNI,
				ClientSessionCache: cache,
			}
			switch cl.ECC {
			case "foreign":
				conf.CurvePreferences = []tls.CurveID{tls.X25519}
			default:
				conf.CurvePreferences = []tls.CurveID{tls.CurveP256}
			}
			o.CertReq = 0
			conf.GetClientCertificate = func(*tls.CertificateRequestInfo) (*tls.Certificate, error) {
				o.CertReq = 1
				if id := clientIdentity(cl.Cert, cl.CA); id != nil {
					return &id.goCert, nil
				}
				return &tls.Certificate{}, nil
			}
			c := tls.Client(cc, conf)
			ctx, cancel := context.WithDeadline(context.Background(), dl)
			err := c.HandshakeContext(ctx)
			cancel()
			if err != nil {
				o.CErr = err.Error()
				o.Alert = alertOf(err)
				cc.Close()
				return
			}
			st := c.ConnectionState()
			o.COK = st.HandshakeComplete
			o.CVers = versName(st.Version)
			o.CSuite = suiteName(st.CipherSuite)
			o.CALPN = st.NegotiatedProtocol
			o.CResumed = st.DidResume
			cache.mu.Lock()
			res.goSaved = cache.saved
			cache.mu.Unlock()
			o.GotTicket = res.goSaved != nil
			rw = c
		} else {
			conf := &bfe_tls.Config{InsecureSkipVerify: true}
			if id := clientIdentity(cl.Cert, cl.CA); id != nil {
				conf.Certificates = []bfe_tls.Certificate{id.bfeCert}
			}
			h := &bfe_tls.VerifTlsnegHello{
				Vers: vers(cl.Max), MinVers: vers(cl.Min), CipherSuites: suites(cl.Suites),
				ALPN: cl.ALPN, ServerName: cl.SNI, Session: rawOffer,
			}
			if cl.SCSV {
				h.CipherSuites = append(h.CipherSuites, scsv)
			}
			switch cl.ECC {
			case "none":
			case "foreign":
				h.Curves = []uint16{29} // x25519: not supported by bfe_tls
				h.Points = []uint8{0}
			default:
				h.Curves = []uint16{23, 24}
				h.Points = []uint8{0}
			}
			// ticket path unless the caller resumes by session id / asks for ids
			h.TicketSupported = !(rawOffer != nil && len(rawOffer.Ticket) == 0) && !cl.NoTicket
			c := bfe_tls.Client(cc, conf)
			r, err := bfe_tls.VerifTlsnegClientHandshake(c, h)
			if r != nil {
				o.HelloV = versName(r.HelloVers)
				o.HelloALP = r.ALPN
			}
			if err != nil {
				o.CErr = err.Error()
				o.Alert = alertOf(err)
				cc.Close()
				return
			}
			o.COK = true
			o.CVers = versName(r.HelloVers)
			o.CSuite = suiteName(r.Suite)
			o.CALPN = r.ALPN
			o.CResumed = r.DidResume
			o.CMaster = mhash(r.Master)
			if !r.DidResume {
				if len(r.NewTicket) > 0 {
					res.rawSaved = &rawSession{Vers: r.HelloVers, Suite: r.Suite, Master: r.Master, Ticket: r.NewTicket}
					o.GotTicket = true
				} else if len(r.SessionID) > 0 {
					res.rawSaved = &rawSession{Vers: r.HelloVers, Suite: r.Suite, Master: r.Master, SessionID: r.SessionID}
					o.GotSID = true
				}
			}
			rw = c
		}
		if _, err := rw.Write(up); err != nil {
			cEcho = "client write: " + err.Error()
			cc.Close()
			return
		}
		buf := make([]byte, len(down))
		n := 0
		var rerr error
		for n < len(buf) {
			k, err := rw.Read(buf[n:])
			n += k
			if err != nil {
				rerr = err
				break
			}
		}
		if !bytes.Equal(buf[:n], down) {
			cEcho = fmt.Sprintf("client received %d bytes, differ from what the server sent (read error: %v)", n, rerr)
			cc.Close()
			return
		}
		cEcho = "ok"
	})
	cc.Close()
	done := make(chan struct{})
	go func() { wg.Wait(); close(done) }()
	select {
	case <-done:
	case <-time.After(connTimeout + 2*time.Second):
		o.Hang = true
	}
	// echo verdict once both ends are done: the server's view first (it fails first when data is damaged)
	switch {
	case sEcho != "":
		o.Echo = sEcho + "; client: " + cEcho
	case cEcho != "":
		o.Echo = cEcho
	}
	if cPanic != "" || sPanic != "" {
		o.Panic = "client: " + cPanic + " server: " + sPanic
	}
	for _, e := range []string{o.CErr, o.SErr, o.Echo} {
		if strings.Contains(e, "i/o timeout") || strings.Contains(e, "deadline exceeded") {
			o.Hang = true // watchdog expired (the family driver re-runs such cases alone before judging)
		}
	}
	return res
}
