package main

import (
	"io"
	"net"
	"os"
	"sync"
	"time"
)

// bufPipe is net.Pipe with unbounded buffering in each direction (like a TCP connection whose
// socket buffers never fill): a Write never waits for the peer's Read, so an endpoint that sends
// an alert while its peer is still sending its flight cannot deadlock the pair.

type pipeHalf struct {
	mu     sync.Mutex
	cond   *sync.Cond
	buf    []byte
	wclose bool // writer closed: reader gets EOF after draining
	rclose bool // reader closed: writer gets an error
}

func newHalf() *pipeHalf {
	h := &pipeHalf{}
	h.cond = sync.NewCond(&h.mu)
	return h
}

type bufConn struct {
	rd, wr *pipeHalf
	dmu    sync.Mutex
	dl     time.Time
	timer  *time.Timer
}

type pipeAddr struct{}

func (pipeAddr) Network() string { return "bufpipe" }
func (pipeAddr) String() string  { return "bufpipe" }

func bufPipe() (net.Conn, net.Conn) {
	a, b := newHalf(), newHalf()
	return &bufConn{rd: a, wr: b}, &bufConn{rd: b, wr: a}
}

func (c *bufConn) expired() bool {
	c.dmu.Lock()
	defer c.dmu.Unlock()
	return !c.dl.IsZero() && !time.Now().Before(c.dl)
}

func (c *bufConn) Read(p []byte) (int, error) {
	h := c.rd
	h.mu.Lock()
	defer h.mu.Unlock()
	for {
		if h.rclose {
			return 0, io.ErrClosedPipe
		}
		if len(h.buf) > 0 {
			n := copy(p, h.buf)
			h.buf = h.buf[n:]
			return n, nil
		}
		if h.wclose {
			return 0, io.EOF
		}
		if c.expired() {
			return 0, os.ErrDeadlineExceeded
		}
		h.cond.Wait()
	}
}

func (c *bufConn) Write(p []byte) (int, error) {
	h := c.wr
	h.mu.Lock()
	defer h.mu.Unlock()
	if h.wclose || h.rclose {
		return 0, io.ErrClosedPipe
	}
	if c.expired() {
		return 0, os.ErrDeadlineExceeded
	}
	h.buf = append(h.buf, p...)
	h.cond.Broadcast()
	return len(p), nil
}

func (c *bufConn) Close() error {
	c.rd.mu.Lock()
	c.rd.rclose = true
	c.rd.cond.Broadcast()
	c.rd.mu.Unlock()
	c.wr.mu.Lock()
	c.wr.wclose = true
	c.wr.cond.Broadcast()
	c.wr.mu.Unlock()
	c.dmu.Lock()
	if c.timer != nil {
		c.timer.Stop()
	}
	c.dmu.Unlock()
	return nil
}

func (c *bufConn) LocalAddr() net.Addr  { return pipeAddr{} }
func (c *bufConn) RemoteAddr() net.Addr { return pipeAddr{} }

func (c *bufConn) SetDeadline(t time.Time) error {
	c.dmu.Lock()
	c.dl = t
	if c.timer != nil {
		c.timer.Stop()
		c.timer = nil
	}
	if !t.IsZero() {
		d := time.Until(t)
		if d < 0 {
			d = 0
		}
		c.timer = time.AfterFunc(d, func() {
			c.rd.mu.Lock()
			c.rd.cond.Broadcast()
			c.rd.mu.Unlock()
		})
	}
	c.dmu.Unlock()
	return nil
}

func (c *bufConn) SetReadDeadline(t time.Time) error  { return c.SetDeadline(t) }
func (c *bufConn) SetWriteDeadline(t time.Time) error { return c.SetDeadline(t) }
