package main

import (
	"encoding/json"
	"fmt"
	"sync"
	"time"

	"github.com/bfenetworks/bfe/bfe_util/pipe"

	"verifharness/vh"
)

// A schedule printed by TLC (specs/Pipe/GenPipe.tla): calls in the order one controlling
// goroutine makes them; n/err/blk are the mechanism model's replies (diagnostic).
type schedOp struct {
	Op  string `json:"op"` // write | read | wake | close | break | release
	K   int    `json:"k"`
	E   string `json:"e"`
	N   int    `json:"n"`
	Err string `json:"err"`
	Blk bool   `json:"blk"`
}

type schedCase struct {
	ID  int       `json:"id"`
	Cap int       `json:"cap"`
	Ops []schedOp `json:"ops"`
}

type readReq struct{ k int }

// replayCase steps one schedule on a real pipe.  The blocking call (Read) runs in its own
// goroutine; whether it returned or went to sleep is learnt from the hooks ("read" /
// "block" events, emitted under p.mu), not from timing.  Only the absence of any reaction
// is decided by a watchdog (stuckAfter), and that is reported as a "stuck" event which the
// trace spec judges against its state.
func replayCase(c schedCase, stuckTimeout time.Duration) (evs []event, mismatch string, drift []string, stuck bool) {
	pool := &sync.Pool{New: func() interface{} { return pipe.NewFixedBuffer(make([]byte, c.Cap)) }}
	var p *pipe.Pipe
	if c.ID%2 == 0 {
		p = pipe.NewPipeFromBufferPool(pool) // as bfe_http2 / bfe_spdy do for the default window
	} else {
		p = pipe.NewPipeWithSize(uint32(c.Cap))
	}
	rec := newRecorder()
	p.VerifAttach(rec.tracer)
	src := &source{}

	reqc := make(chan readReq)
	readerDone := make(chan struct{})
	go func() { // the handler goroutine
		defer close(readerDone)
		for rq := range reqc {
			buf := make([]byte, rq.k)
			a := &apiRec{g: "reader", op: "read", asked: rq.k}
			a.panicked = vh.Guard(func() { a.n, a.err = p.Read(buf) })
			if a.n >= 0 && a.n <= len(buf) {
				a.data = buf[:a.n]
			}
			rec.addAPI(a)
		}
	}()

	inCall := false // the reader is inside Read (blocked)
	stuckAt := -1
	nReaderAPI := func() int { return len(rec.api["reader"]) } // requires rec.mu

	// awaitReader waits for the reader's reaction to whatever happened after sequence
	// number `mark`: a return (hook event + API record) or going (back) to sleep.
	awaitReader := func(mark uint64, apiBefore int) (returned, reacted bool) {
		ok := rec.waitSettled(stuckTimeout, func() bool {
			i := rec.readerEventAfter(mark)
			if i < 0 {
				return false
			}
			if rec.hook[i].op == "read" {
				return nReaderAPI() > apiBefore // the call has really returned
			}
			return true
		})
		if !ok {
			return false, false
		}
		rec.mu.Lock()
		defer rec.mu.Unlock()
		return rec.hook[rec.readerEventAfter(mark)].op == "read", true
	}
	apiCount := func() int {
		rec.mu.Lock()
		defer rec.mu.Unlock()
		return nReaderAPI()
	}
	lastAPI := func(g string) *apiRec {
		rec.mu.Lock()
		defer rec.mu.Unlock()
		l := rec.api[g]
		return l[len(l)-1]
	}
	note := func(i int, op schedOp, got string) {
		if len(drift) < 5 {
			drift = append(drift, fmt.Sprintf("case %d op %d %s k=%d e=%s: model n=%d err=%s blk=%v, code %s", c.ID, i, op.Op, op.K, op.E, op.N, op.Err, op.Blk, got))
		}
	}
	// compare the reader's reaction with the mechanism model (diagnostic only)
	checkReader := func(i int, op schedOp, returned bool) {
		if !returned {
			if !op.Blk {
				note(i, op, "blocked")
			}
			return
		}
		a := lastAPI("reader")
		if op.Blk || a.n != op.N || errClass(a.err) != op.Err {
			note(i, op, fmt.Sprintf("returned n=%d err=%s", a.n, errClass(a.err)))
		}
	}

loop:
	for i, op := range c.Ops {
		mark := rec.lastSeq()
		nAPI := apiCount()
		signals := false
		switch op.Op {
		case "write":
			a := &apiRec{g: "writer", op: "write", asked: op.K, data: src.take(op.K)}
			a.panicked = vh.Guard(func() { a.n, a.err = p.Write(a.data) })
			rec.addAPI(a)
			if a.panicked != "" {
				break loop
			}
			if a.n != op.N || errClass(a.err) != op.Err {
				note(i, op, fmt.Sprintf("returned n=%d err=%s", a.n, errClass(a.err)))
			}
			signals = true
		case "close", "break":
			a := &apiRec{g: "closer", op: op.Op, err: errByClass(op.E)}
			a.panicked = vh.Guard(func() {
				if op.Op == "close" {
					p.CloseWithError(a.err)
				} else {
					p.BreakWithError(a.err)
				}
			})
			rec.addAPI(a)
			if a.panicked != "" {
				break loop
			}
			signals = true
		case "release":
			a := &apiRec{g: "closer", op: "release"}
			a.panicked = vh.Guard(func() { p.Release(pool) })
			rec.addAPI(a)
			if a.panicked != "" {
				break loop
			}
		case "read":
			if inCall {
				break loop // lost step with the schedule; the divergence is in the trace already
			}
			reqc <- readReq{op.K}
			returned, reacted := awaitReader(mark, nAPI)
			if !reacted {
				inCall = true
				stuckAt = rec.nHook()
				break loop
			}
			inCall = !returned
			checkReader(i, op, returned)
			if returned && lastAPI("reader").panicked != "" {
				break loop
			}
		case "wake":
			// not a call: the reader's reaction to the previous call, awaited there
			continue
		}
		if signals && inCall {
			// the call signalled the condition: the sleeping reader re-evaluates and
			// either returns or goes back to sleep
			returned, reacted := awaitReader(mark, nAPI)
			if !reacted {
				stuckAt = rec.nHook()
				break loop
			}
			inCall = !returned
			if i+1 < len(c.Ops) && c.Ops[i+1].Op == "wake" {
				checkReader(i+1, c.Ops[i+1], returned)
			} else if i+1 < len(c.Ops) {
				note(i, op, "reader reacted, model has no wake")
			}
		} else if i+1 < len(c.Ops) && c.Ops[i+1].Op == "wake" {
			note(i, op, "model wakes the reader, code: reader not inside Read")
			break loop
		}
		// pure queries; nothing else runs now (a blocked reader does not change their answer)
		if pq := vh.Guard(func() {
			e, d := errClass(p.Err()), 0
			select {
			case <-p.Done():
				d = 1
			default:
			}
			rec.addExtra("query", d, e)
		}); pq != "" {
			rec.addAPI(&apiRec{g: "closer", op: "query", panicked: pq})
			break loop
		}
	}
	close(reqc)
	evs, mismatch = rec.merge(c.ID, c.Cap, stuckAt, map[string]bool{"read": inCall})
	// let the reader goroutine go (outside the trace)
	if inCall {
		p.VerifAttach(nil)
		vh.Guard(func() { p.BreakWithError(errCleanup) })
	}
	select {
	case <-readerDone:
	case <-time.After(5 * time.Second):
	}
	return evs, mismatch, drift, stuckAt >= 0
}

func replayMain() {
	stuckTimeout := 5 * time.Second
	var (
		ncases, nstuck, nmis, ndrift int
		driftEx                      []string
		misEx                        string
	)
	vh.EachCase(func(line []byte) {
		var c schedCase
		if err := json.Unmarshal(line, &c); err != nil {
			vh.Emit(map[string]interface{}{"_bad_case": err.Error()})
			return
		}
		ncases++
		if nstuck >= 3 {
			// every stuck case costs a watchdog period; enough evidence, skip the rest
			return
		}
		evs, mismatch, drift, stuck := replayCase(c, stuckTimeout)
		if stuck {
			nstuck++
		}
		if mismatch != "" {
			nmis++
			if misEx == "" {
				misEx = fmt.Sprintf("case %d: %s", c.ID, mismatch)
			}
		}
		if len(drift) > 0 {
			ndrift++
			if len(driftEx) < 3 {
				driftEx = append(driftEx, drift[0])
			}
		}
		for _, e := range evs {
			vh.Emit(e)
		}
	})
	vh.Emit(map[string]interface{}{"summary": true, "cases": ncases, "stuck": nstuck, "mismatch": nmis,
		"mismatch_example": misEx, "drift": ndrift, "drift_examples": driftEx})
}
