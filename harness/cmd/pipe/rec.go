package main

import (
	"errors"
	"fmt"
	"io"
	"sort"
	"sync"
	"time"

	"github.com/bfenetworks/bfe/bfe_util/pipe"
)

// Error values the drivers hand to CloseWithError / BreakWithError.  The class names are
// the ones the specs use (specs/Pipe/PipeP.tla never looks inside them).
var (
	errE1      = errors.New("verif: e1 (stream reset)")
	errE2      = errors.New("verif: e2 (conn closed)")
	errE3      = errors.New("verif: e3 (body closed by handler)")
	errCleanup = errors.New("verif: cleanup")
)

func errByClass(c string) error {
	switch c {
	case "eof":
		return io.EOF
	case "e1":
		return errE1
	case "e2":
		return errE2
	case "e3":
		return errE3
	}
	panic("unknown error class " + c)
}

// errClass maps an error returned by the pipe to its class.  The two errors created
// inside package pipe are unexported; through the API they are recognised by their text,
// the hook additionally reports their identity (VerifEvent.ErrClass).
func errClass(err error) string {
	switch err {
	case nil:
		return "none"
	case io.EOF:
		return "eof"
	case errE1:
		return "e1"
	case errE2:
		return "e2"
	case errE3:
		return "e3"
	}
	switch err.Error() {
	case "write on closed buffer":
		return "closed"
	case "write on full FixedBuffer":
		return "full"
	}
	return "other"
}

// event is one line of trace.ndjson (see specs/Pipe/TracePipe.tla).
type event struct {
	Cid   int    `json:"cid"`
	Ev    string `json:"ev"`
	Cap   int    `json:"cap"`
	Asked int    `json:"asked"`
	N     int    `json:"n"`
	Err   string `json:"err"`
	Data  []int  `json:"data"`
	Blen  int    `json:"blen"`
	Fc    bool   `json:"fc"`
	Fb    bool   `json:"fb"`
	Fr    bool   `json:"fr"`
	Seq   uint64 `json:"seq"`
	G     string `json:"g,omitempty"`      // goroutine the API record came from (diagnostic)
	Panic string `json:"detail,omitempty"` // panic text
}

// hookEv is what the tracer saw under p.mu.
type hookEv struct {
	seq      uint64
	op       string
	asked, n int
	err      error
	class    int
	data     []byte
	blen     int
	fc, fb   bool
	fr       bool
}

// apiRec is what a driver goroutine saw at the API: the call and its results.
type apiRec struct {
	g        string
	op       string
	asked, n int
	err      error
	data     []byte // write: payload offered; read: d[:n] after the call returned
	panicked string
	used     bool
}

// recorder collects hook events (ordered by the per-pipe sequence number) and per-goroutine
// API records.  Hook events arrive with p.mu held; rec.mu only protects the slices.
type recorder struct {
	mu   sync.Mutex
	cond *sync.Cond
	hook []hookEv
	api  map[string][]*apiRec // per goroutine, in program order
	// bytes the reader has received so far (API level)
	readBytes int
	// the reader goroutine has finished
	readerExited bool
	// observations made by the controlling goroutine between hook events (sequential replay only)
	extra []extraEv
}

type extraEv struct {
	after int // number of hook events that precede it
	ev    event
}

// addExtra records a query result (Err(), Done()) observed now, i.e. after all hook events so far.
func (r *recorder) addExtra(ev string, n int, errc string) {
	r.mu.Lock()
	r.extra = append(r.extra, extraEv{after: len(r.hook), ev: event{Ev: ev, N: n, Err: errc, Data: []int{}, Blen: -2}})
	r.mu.Unlock()
}

func newRecorder() *recorder {
	r := &recorder{api: map[string][]*apiRec{}}
	r.cond = sync.NewCond(&r.mu)
	return r
}

// tracer is installed with (*pipe.Pipe).VerifAttach.
func (r *recorder) tracer(ev *pipe.VerifEvent) {
	h := hookEv{seq: ev.Seq, op: ev.Op, asked: ev.Asked, n: ev.N, err: ev.Err, class: ev.ErrClass,
		data: append([]byte(nil), ev.Data...), blen: ev.Buffered, fc: ev.Closed, fb: ev.Broken, fr: ev.Released}
	r.mu.Lock()
	r.hook = append(r.hook, h)
	r.cond.Broadcast()
	r.mu.Unlock()
}

func (r *recorder) addAPI(a *apiRec) {
	r.mu.Lock()
	r.api[a.g] = append(r.api[a.g], a)
	if a.op == "read" && a.n > 0 {
		r.readBytes += a.n
	}
	r.cond.Broadcast()
	r.mu.Unlock()
}

func (r *recorder) markReaderExited() {
	r.mu.Lock()
	r.readerExited = true
	r.cond.Broadcast()
	r.mu.Unlock()
}

func (r *recorder) nHook() int {
	r.mu.Lock()
	defer r.mu.Unlock()
	return len(r.hook)
}

func (r *recorder) lastSeq() uint64 {
	r.mu.Lock()
	defer r.mu.Unlock()
	if len(r.hook) == 0 {
		return 0
	}
	return r.hook[len(r.hook)-1].seq
}

// waitFor blocks until pred (evaluated under r.mu) holds or d has passed.
func (r *recorder) waitFor(d time.Duration, pred func() bool) bool {
	deadline := time.Now().Add(d)
	t := time.AfterFunc(d, func() {
		r.mu.Lock()
		r.cond.Broadcast()
		r.mu.Unlock()
	})
	defer t.Stop()
	r.mu.Lock()
	defer r.mu.Unlock()
	for !pred() {
		if !time.Now().Before(deadline) {
			return false
		}
		r.cond.Wait()
	}
	return true
}

// waitSettled is waitFor for verdict-relevant watchdogs: when the period expires without
// pred, wait once more for a short fresh period and re-check, so that a stall of the whole
// process (the timer and the awaited goroutine become runnable together) is not mistaken
// for a goroutine that never reacted.
func (r *recorder) waitSettled(d time.Duration, pred func() bool) bool {
	if r.waitFor(d, pred) {
		return true
	}
	for i := 0; i < 4; i++ {
		time.Sleep(50 * time.Millisecond)
		if r.waitFor(500*time.Millisecond, pred) {
			return true
		}
	}
	return false
}

// readerEventAfter: index of the first "read"/"block" hook event with seq > s, or -1.
// requires r.mu.
func (r *recorder) readerEventAfter(s uint64) int {
	for i := len(r.hook) - 1; i >= 0 && r.hook[i].seq > s; i-- {
		if r.hook[i].op == "read" || r.hook[i].op == "block" {
			// there may be several; find the first
			j := i
			for k := i - 1; k >= 0 && r.hook[k].seq > s; k-- {
				if r.hook[k].op == "read" || r.hook[k].op == "block" {
					j = k
				}
			}
			return j
		}
	}
	return -1
}

func ints(b []byte) []int {
	out := make([]int, len(b))
	for i, x := range b {
		out[i] = int(x)
	}
	return out
}

// merge turns the recording into trace events.  Order: the hook's sequence numbers.
// Content of read/write events: the API record of the call (what the caller really got);
// the k-th call of a goroutine is matched with the k-th hook event it produced.  A hook
// event without API record, or the reverse, means the hooks do not cover the calls
// (binding broken) and is returned as mismatch, not as a verdict.
// stuckAfter >= 0 inserts a "stuck" event after that many hook events.
func (r *recorder) merge(cid, capacity int, stuckAfter int, inflight map[string]bool) (evs []event, mismatch string) {
	r.mu.Lock()
	defer r.mu.Unlock()
	evs = append(evs, event{Cid: cid, Ev: "new", Cap: capacity, Err: "none", Data: []int{}, Blen: -2})
	next := map[string]int{}
	goroutines := make([]string, 0, len(r.api))
	for g := range r.api {
		goroutines = append(goroutines, g)
	}
	sort.Strings(goroutines)
	var prev uint64
	xi := 0
	flushExtra := func(upto int) {
		for xi < len(r.extra) && r.extra[xi].after <= upto {
			e := r.extra[xi].ev
			e.Cid, e.Cap = cid, capacity
			evs = append(evs, e)
			xi++
		}
	}
	for i, h := range r.hook {
		flushExtra(i)
		if stuckAfter == i {
			evs = append(evs, event{Cid: cid, Ev: "stuck", Cap: capacity, Err: "none", Data: []int{}, Blen: -2})
		}
		if h.seq != prev+1 {
			mismatch = fmt.Sprintf("hook sequence numbers not contiguous: %d after %d", h.seq, prev)
		}
		prev = h.seq
		e := event{Cid: cid, Ev: h.op, Cap: capacity, Asked: h.asked, N: h.n, Err: errClass(h.err), Data: []int{},
			Blen: h.blen, Fc: h.fc, Fb: h.fb, Fr: h.fr, Seq: h.seq}
		if h.op == "block" {
			evs = append(evs, e)
			continue
		}
		var a *apiRec
		for _, g := range goroutines {
			recs := r.api[g]
			k := next[g]
			if k < len(recs) && recs[k].op == h.op && recs[k].asked == h.asked &&
				(recs[k].panicked != "" || (recs[k].n == h.n && recs[k].err == h.err)) {
				a = recs[k]
				next[g] = k + 1
				e.G = g
				break
			}
		}
		if a == nil {
			if !inflight[h.op] && mismatch == "" {
				mismatch = fmt.Sprintf("hook event %d (%s asked=%d n=%d err=%v) has no matching API record", h.seq, h.op, h.asked, h.n, h.err)
			}
			// a call that is still in flight (the goroutine hangs after the hook): use the hook's view
			e.Data = ints(h.data)
			evs = append(evs, e)
			continue
		}
		a.used = true
		switch h.op {
		case "read":
			e.Data = ints(a.data)
		case "write":
			e.Data = ints(a.data)
		}
		evs = append(evs, e)
		if a.panicked != "" {
			evs = append(evs, event{Cid: cid, Ev: "panic", Cap: capacity, Err: "none", Data: []int{}, Blen: -2, Panic: a.panicked})
		}
	}
	flushExtra(len(r.hook))
	if stuckAfter >= len(r.hook) {
		evs = append(evs, event{Cid: cid, Ev: "stuck", Cap: capacity, Err: "none", Data: []int{}, Blen: -2})
	}
	for _, g := range goroutines {
		recs := r.api[g]
		for k := next[g]; k < len(recs); k++ {
			if recs[k].panicked != "" {
				// panicked before reaching the hook
				evs = append(evs, event{Cid: cid, Ev: "panic", Cap: capacity, Err: "none", Data: []int{}, Blen: -2, Panic: recs[k].panicked, G: g})
				continue
			}
			if mismatch == "" {
				mismatch = fmt.Sprintf("API call of %s (%s asked=%d n=%d err=%v) produced no hook event", g, recs[k].op, recs[k].asked, recs[k].n, recs[k].err)
			}
		}
	}
	return evs, mismatch
}

// payload: the i-th byte ever offered to a pipe has the value ((i-1) mod 251) + 1, so a
// lost, duplicated or reordered stretch shows up unless its length is a multiple of 251.
type source struct{ next int }

func (s *source) take(k int) []byte {
	b := make([]byte, k)
	for i := range b {
		b[i] = byte(s.next%251 + 1)
		s.next++
	}
	return b
}
