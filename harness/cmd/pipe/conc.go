package main

import (
	"encoding/json"
	"fmt"
	"math/rand"
	"runtime"
	"sync"
	"time"

	"github.com/bfenetworks/bfe/bfe_util/pipe"

	"verifharness/vh"
)

// A concurrent scenario (parameters are drawn by families/pipe.py from VERIF_SEED):
// a writer goroutine (the serve goroutine: Write per DATA frame, then possibly
// CloseWithError(io.EOF) as endStream does), a reader goroutine (the handler: Read until
// an error comes back, possibly CloseWithError(errClosedBody) as RequestBody.Close does)
// and a closer goroutine (closeStream: CloseWithError + Release; or BreakWithError),
// running freely.  Pauses only diversify the interleavings; the order of the events is
// the hook's per-pipe sequence number.
type closerAct struct {
	Op    string `json:"op"` // close | break | release
	E     string `json:"e"`
	After int    `json:"after"` // act once this many hook events exist (or everybody else is done)
}

type scenario struct {
	ID        int         `json:"id"`
	Cap       int         `json:"cap"`
	Pool      bool        `json:"pool"`
	Writes    []int       `json:"writes"`
	Reads     []int       `json:"reads"` // slice sizes, used cyclically
	WriterEOF bool        `json:"writer_eof"`
	Closer    []closerAct `json:"closer"`
	Abandon   int         `json:"abandon"`   // >0: the reader closes the body (e3) after that many bytes
	DrainEOF  bool        `json:"drain_eof"` // close with EOF only after the reader has got every accepted byte
	ErrReads  int         `json:"err_reads"` // the reader stops after that many error returns
	Pace      int64       `json:"pace"`      // seed of the pauses
}

func pause(r *rand.Rand) {
	switch r.Intn(6) {
	case 0, 1:
	case 2, 3:
		runtime.Gosched()
	case 4:
		time.Sleep(time.Duration(1+r.Intn(20)) * time.Microsecond)
	case 5:
		time.Sleep(time.Duration(1+r.Intn(200)) * time.Microsecond)
	}
}

func runScenario(sc scenario, watchdog time.Duration) (evs []event, mismatch string, stuck bool) {
	pool := &sync.Pool{New: func() interface{} { return pipe.NewFixedBuffer(make([]byte, sc.Cap)) }}
	var p *pipe.Pipe
	if sc.Pool {
		p = pipe.NewPipeFromBufferPool(pool)
	} else {
		p = pipe.NewPipeWithSize(uint32(sc.Cap))
	}
	rec := newRecorder()
	p.VerifAttach(rec.tracer)
	if sc.ErrReads < 1 {
		sc.ErrReads = 1
	}
	if len(sc.Reads) == 0 {
		sc.Reads = []int{1}
	}

	var others sync.WaitGroup // writer + closer: they never block
	accepted := 0             // bytes accepted by Write, valid after writerDone
	writerDone := make(chan struct{})
	readerDone := make(chan struct{})

	others.Add(1)
	go func() { // writer
		defer others.Done()
		defer close(writerDone)
		rnd := rand.New(rand.NewSource(sc.Pace*3 + 1))
		src := &source{}
		for _, k := range sc.Writes {
			pause(rnd)
			if rnd.Intn(3) == 0 {
				_ = p.Err() // unordered query: exercised for the race detector only
			}
			a := &apiRec{g: "writer", op: "write", asked: k, data: src.take(k)}
			a.panicked = vh.Guard(func() { a.n, a.err = p.Write(a.data) })
			rec.addAPI(a)
			if a.panicked != "" {
				return
			}
			if a.n > 0 {
				accepted += a.n
			}
		}
		if sc.WriterEOF {
			pause(rnd)
			a := &apiRec{g: "writer", op: "close", err: errByClass("eof")}
			a.panicked = vh.Guard(func() { p.CloseWithError(a.err) })
			rec.addAPI(a)
		}
	}()

	others.Add(1)
	go func() { // closer
		defer others.Done()
		rnd := rand.New(rand.NewSource(sc.Pace*3 + 2))
		for _, act := range sc.Closer {
			act := act
			// wait for a position in the linearization order, not for a time
			rec.waitFor(50*time.Millisecond, func() bool { return len(rec.hook) >= act.After })
			pause(rnd)
			a := &apiRec{g: "closer", op: act.Op}
			if act.Op != "release" {
				a.err = errByClass(act.E)
			}
			a.panicked = vh.Guard(func() {
				switch act.Op {
				case "close":
					p.CloseWithError(a.err)
				case "break":
					p.BreakWithError(a.err)
				case "release":
					p.Release(pool)
				}
			})
			rec.addAPI(a)
			if a.panicked != "" {
				return
			}
		}
	}()

	go func() { // reader
		defer close(readerDone)
		defer rec.markReaderExited()
		rnd := rand.New(rand.NewSource(sc.Pace*3 + 3))
		nerr, got, abandoned := 0, 0, false
		for i := 0; nerr < sc.ErrReads; i++ {
			pause(rnd)
			k := sc.Reads[i%len(sc.Reads)]
			buf := make([]byte, k)
			a := &apiRec{g: "reader", op: "read", asked: k}
			a.panicked = vh.Guard(func() { a.n, a.err = p.Read(buf) })
			if a.n >= 0 && a.n <= len(buf) {
				a.data = buf[:a.n]
			}
			rec.addAPI(a)
			if a.panicked != "" {
				return
			}
			if a.err != nil {
				nerr++
			}
			got += a.n
			if a.err == nil && a.n == 0 && k > 0 {
				return // a Read that returns nothing without error: do not spin, the trace shows it
			}
			if sc.Abandon > 0 && !abandoned && got >= sc.Abandon {
				abandoned = true
				c := &apiRec{g: "reader", op: "close", err: errByClass("e3")}
				c.panicked = vh.Guard(func() { p.CloseWithError(c.err) })
				rec.addAPI(c)
			}
		}
	}()

	others.Wait()
	stuckAt := -1
	finish := func() ([]event, string, bool) {
		inflight := map[string]bool{}
		if stuckAt >= 0 {
			inflight["read"] = true
		}
		evs, mismatch := rec.merge(sc.ID, sc.Cap, stuckAt, inflight)
		if stuckAt >= 0 {
			p.VerifAttach(nil)
			vh.Guard(func() { p.BreakWithError(errCleanup) })
			select {
			case <-readerDone:
			case <-time.After(5 * time.Second):
			}
		}
		return evs, mismatch, stuckAt >= 0
	}
	readerFinished := func() bool { return rec.readerExited } // requires rec.mu (a waitFor predicate)
	if sc.DrainEOF {
		// the stream ends only after everything accepted has been consumed: a reader that
		// sleeps through a Write is then never woken by a later close
		<-writerDone
		ok := rec.waitSettled(watchdog, func() bool { return rec.readBytes >= accepted || readerFinished() })
		if !ok {
			stuckAt = rec.nHook()
			return finish()
		}
	}
	// closed system: somebody closes in the end
	if !rec.waitFor(0, readerFinished) {
		a := &apiRec{g: "main", op: "close", err: errByClass("eof")}
		a.panicked = vh.Guard(func() { p.CloseWithError(a.err) })
		rec.addAPI(a)
	}
	if !rec.waitSettled(watchdog, readerFinished) {
		stuckAt = rec.nHook()
	}
	return finish()
}

func concMain() {
	watchdog := 10 * time.Second
	var ncases, nstuck, nmis int
	var misEx string
	vh.EachCase(func(line []byte) {
		var sc scenario
		if err := json.Unmarshal(line, &sc); err != nil {
			vh.Emit(map[string]interface{}{"_bad_case": err.Error()})
			return
		}
		ncases++
		if nstuck >= 2 {
			return
		}
		evs, mismatch, stuck := runScenario(sc, watchdog)
		if stuck {
			nstuck++
		}
		if mismatch != "" {
			nmis++
			if misEx == "" {
				misEx = fmt.Sprintf("scenario %d: %s", sc.ID, mismatch)
			}
		}
		for _, e := range evs {
			vh.Emit(e)
		}
	})
	vh.Emit(map[string]interface{}{"summary": true, "cases": ncases, "stuck": nstuck, "mismatch": nmis,
		"mismatch_example": misEx, "drift": 0, "drift_examples": []string{}})
}
