// Command pipe binds the Pipe specs (specs/Pipe) to bfe_util/pipe.
//
//	pipe replay   schedules printed by TLC (GenPipe) on stdin, one JSON object per line;
//	              each is stepped on a real pipe from one controlling goroutine
//	pipe conc     concurrent scenarios on stdin; writer / reader / closer goroutines run freely
//
// Both print the recorded events (one ndjson line per event, ordered per pipe by the
// sequence number the hooks assign under p.mu) for TracePipe.tla, then a summary line.
// Build with -race: a race report on stderr is a violation by itself.
package main

import (
	"fmt"
	"os"

	"verifharness/vh"
)

func main() {
	if len(os.Args) < 2 {
		fmt.Fprintln(os.Stderr, "usage: pipe <replay|conc>")
		os.Exit(2)
	}
	defer vh.Flush()
	switch os.Args[1] {
	case "replay":
		replayMain()
	case "conc":
		concMain()
	default:
		fmt.Fprintln(os.Stderr, "unknown subcommand", os.Args[1])
		vh.Flush()
		os.Exit(2)
	}
}
