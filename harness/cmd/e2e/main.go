// Command e2e: replay driver of the e2e family (C48, C25..C29) and a selftest of harness/e2e.
package main

import (
	"fmt"
	"os"

	"verifharness/vh"
)

func main() {
	defer vh.Flush()
	if len(os.Args) < 2 {
		fmt.Fprintln(os.Stderr, "usage: e2e selftest|pipeline|forward|hop|respond|conn|addr")
		os.Exit(2)
	}
	switch os.Args[1] {
	case "selftest":
		selftest()
	case "pipeline":
		pipeline()
	case "forward":
		forward(nil, nil)
	case "respond":
		respond()
	case "addr":
		addr()
	case "conn":
		connCmd()
	default:
		fmt.Fprintln(os.Stderr, "unknown subcommand", os.Args[1])
		os.Exit(2)
	}
}
