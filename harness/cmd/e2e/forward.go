package main

// C25 / C26: what reaches the backend wire for a given client request.
// A case gives the frontend protocol, method, target, header fields (names/values may contain the
// tokens <CR> <LF> <NUL> <SP> <HT> <DEL> which are replaced by the bytes) and a body.  The harness sends it,
// captures the raw bytes every backend connection received and reports them parsed by Go's
// net/http.ReadRequest (independent reference) plus a byte-level lexing of the header block.

import (
	"bufio"
	"bytes"
	"encoding/json"
	"fmt"
	"io"
	"net/http"
	"strings"
	"sync"
	"time"

	"golang.org/x/net/http2/hpack"

	"verifharness/e2e"
	"verifharness/vh"
)

type fwdField struct {
	N string `json:"n"`
	V string `json:"v"`
}

type fwdCase struct {
	ID      int        `json:"id"`
	Proto   string     `json:"proto"` // h1 | h2
	Method  string     `json:"method"`
	Target  string     `json:"target"`
	Fields  []fwdField `json:"fields"`
	Body    string     `json:"body"`
	Chunked bool       `json:"chunked"` // h1: send the body chunked (with Trailer if Trailers set)
	Trailer []fwdField `json:"trailer"`
}

var tokenRepl = strings.NewReplacer("<CR>", "\r", "<LF>", "\n", "<NUL>", "\x00", "<SP>", " ", "<HT>", "\t",
	"<DEL>", "\x7f", "<COLON>", ":")

type fwdMsg struct {
	Method string     `json:"method"`
	Target string     `json:"target"`
	Proto  string     `json:"proto"`
	Host   string     `json:"host"`
	Fields [][]string `json:"fields"` // every header line as lexed from the wire: [name, value]
	GoHdr  [][]string `json:"gohdr"`  // canonical name/value pairs as Go's parser delivered them
	TE     []string   `json:"te"`
	CL     int64      `json:"cl"`
	Body   string     `json:"body"`
	GoTrl  [][]string `json:"gotrailer"`
}

type fwdObs struct {
	ID       int      `json:"id"`
	Client   string   `json:"client"` // "status:<n>" | "closed" | "reset:<code>" | "timeout" | "goaway"
	Conns    int      `json:"conns"`  // backend connections opened for this case
	Msgs     []fwdMsg `json:"msgs"`   // requests the reference parser found on the backend wire
	Leftover int      `json:"leftover"`
	ParseErr string   `json:"parse_err"`
	WellForm bool     `json:"wellformed"` // NoCtl and every field name is a token
	NoCtl    bool     `json:"noctl"`      // request line of 3 parts; no CR/LF/NUL/DEL inside the request line or a header line
	Strict   [][]string `json:"strict"` // second, strict reading of the first header block: lines split at CRLF, bare CR and bare LF
	Raw      string   `json:"raw"`
	Panic    string   `json:"panic,omitempty"`
}

func isTokenByte(c byte) bool {
	if c >= 'a' && c <= 'z' || c >= 'A' && c <= 'Z' || c >= '0' && c <= '9' {
		return true
	}
	return strings.IndexByte("!#$%&'*+-.^_`|~", c) >= 0
}

// lexHeaderBlock splits the first message's header block strictly at CRLF.
func lexHeaderBlock(raw []byte) (fields [][]string, well, noctl bool) {
	end := bytes.Index(raw, []byte("\r\n\r\n"))
	if end < 0 {
		return nil, false, false
	}
	lines := strings.Split(string(raw[:end]), "\r\n")
	well, noctl = true, true
	for i, ln := range lines {
		if strings.ContainsAny(ln, "\r\n\x00\x7f") {
			well, noctl = false, false
		}
		if i == 0 {
			if len(strings.Split(ln, " ")) != 3 {
				well, noctl = false, false // request-line = method SP target SP version
			}
			continue
		}
		k := strings.IndexByte(ln, ':')
		if k <= 0 {
			well = false
			fields = append(fields, []string{ln, ""})
			continue
		}
		name := ln[:k]
		for j := 0; j < len(name); j++ {
			if !isTokenByte(name[j]) {
				well = false
			}
		}
		fields = append(fields, []string{name, strings.Trim(ln[k+1:], " \t")})
	}
	return fields, well, noctl
}

// strictFields reads the header block the way a parser that takes a bare CR or a bare LF for a line
// end would: every piece that looks like "name: value" is a field.
func strictFields(raw []byte) [][]string {
	end := bytes.Index(raw, []byte("\r\n\r\n"))
	if end < 0 {
		end = len(raw)
	}
	pieces := strings.FieldsFunc(string(raw[:end]), func(r rune) bool { return r == '\r' || r == '\n' })
	var out [][]string
	for i, ln := range pieces {
		if i == 0 {
			continue
		}
		k := strings.IndexByte(ln, ':')
		if k <= 0 {
			out = append(out, []string{ln, ""})
			continue
		}
		out = append(out, []string{ln[:k], strings.Trim(ln[k+1:], " \t")})
	}
	return out
}

func analyseBackend(raws [][]byte, o *fwdObs) {
	var all []byte
	for _, r := range raws {
		all = append(all, r...)
	}
	o.Raw = string(all)
	if len(o.Raw) > 2000 {
		o.Raw = o.Raw[:2000]
	}
	o.WellForm, o.NoCtl = true, true
	for _, raw := range raws {
		if len(raw) == 0 {
			continue // connection opened, nothing written
		}
		br := bufio.NewReader(bytes.NewReader(raw))
		first := true
		if o.Strict == nil {
			o.Strict = strictFields(raw)
		}
		lexed, well, noctl := lexHeaderBlock(raw)
		if !well {
			o.WellForm = false
		}
		if !noctl {
			o.NoCtl = false
		}
		for {
			if _, err := br.Peek(1); err != nil {
				break
			}
			req, err := http.ReadRequest(br)
			if err != nil {
				o.ParseErr = err.Error()
				rest, _ := io.ReadAll(br)
				o.Leftover += len(rest) + 1
				break
			}
			body, berr := io.ReadAll(req.Body)
			if berr != nil {
				o.ParseErr = "body: " + berr.Error()
			}
			m := fwdMsg{Method: req.Method, Target: req.RequestURI, Proto: req.Proto, Host: req.Host,
				TE: req.TransferEncoding, CL: req.ContentLength, Body: string(body)}
			for k, vs := range req.Header {
				for _, v := range vs {
					m.GoHdr = append(m.GoHdr, []string{k, v})
				}
			}
			for k, vs := range req.Trailer {
				for _, v := range vs {
					m.GoTrl = append(m.GoTrl, []string{k, v})
				}
			}
			if first {
				m.Fields = lexed
				first = false
			}
			o.Msgs = append(o.Msgs, m)
		}
	}
}

type fwdWorker struct {
	s  *e2e.Server
	bk *e2e.Backend
	mu sync.Mutex
	wg sync.WaitGroup // backend connections in flight
}

func newFwdWorker(modules []string, files map[string]string) *fwdWorker {
	w := &fwdWorker{}
	var err error
	w.bk, err = e2e.NewBackend(func(c *e2e.BackendConn) {
		w.wg.Add(1)
		defer w.wg.Done()
		c.SetDeadline(time.Now().Add(10 * time.Second))
		_, _, err := c.ReadRequest()
		if err != nil {
			io.WriteString(c.Conn, "HTTP/1.1 400 Bad Request\r\nContent-Length: 0\r\nConnection: close\r\n\r\n")
		} else {
			io.WriteString(c.Conn, "HTTP/1.1 200 OK\r\nContent-Length: 2\r\nX-Verif-Src: backend\r\n\r\nok")
		}
		c.Drain() // BFE closes the backend connection (no idle keep-alive); capture anything that follows
	})
	if err != nil {
		fatal("backend: %v", err)
	}
	w.s, err = e2e.Start(e2e.Options{TLS: true, Modules: modules, Files: files,
		Clusters: []e2e.Cluster{{Name: "c1", Backends: []string{w.bk.Addr}}}})
	if err != nil {
		fatal("start: %v", err)
	}
	return w
}

func (w *fwdWorker) run(c *fwdCase) *fwdObs {
	o := &fwdObs{ID: c.ID}
	start := w.bk.Conns()
	p := vh.Guard(func() {
		switch c.Proto {
		case "h2":
			w.clientH2(c, o)
		default:
			w.clientH1(c, o)
		}
	})
	if p != "" {
		o.Panic = p
	}
	// quiescence: every backend connection opened so far has been closed by the proxy
	time.Sleep(5 * time.Millisecond)
	done := make(chan struct{})
	go func() { w.wg.Wait(); close(done) }()
	select {
	case <-done:
	case <-time.After(12 * time.Second):
	}
	raws := w.bk.Received()
	if len(raws) > start {
		raws = raws[start:]
	} else {
		raws = nil
	}
	o.Conns = len(raws)
	analyseBackend(raws, o)
	return o
}

func (w *fwdWorker) clientH1(c *fwdCase, o *fwdObs) {
	var b strings.Builder
	fmt.Fprintf(&b, "%s %s HTTP/1.1\r\nHost: example.org\r\n", tokenRepl.Replace(c.Method), tokenRepl.Replace(c.Target))
	for _, f := range c.Fields {
		fmt.Fprintf(&b, "%s: %s\r\n", tokenRepl.Replace(f.N), tokenRepl.Replace(f.V))
	}
	body := tokenRepl.Replace(c.Body)
	if c.Chunked {
		b.WriteString("Transfer-Encoding: chunked\r\n\r\n")
		if body != "" {
			fmt.Fprintf(&b, "%x\r\n%s\r\n", len(body), body)
		}
		b.WriteString("0\r\n")
		for _, f := range c.Trailer {
			fmt.Fprintf(&b, "%s: %s\r\n", f.N, f.V)
		}
		b.WriteString("\r\n")
	} else if body != "" {
		fmt.Fprintf(&b, "Content-Length: %d\r\n\r\n%s", len(body), body)
	} else {
		b.WriteString("\r\n")
	}
	h, err := e2e.DialH1(w.s.Addr)
	if err != nil {
		o.Client = "dial:" + err.Error()
		return
	}
	defer h.Close()
	h.Send(b.String())
	r, err := h.ReadResponse(tokenRepl.Replace(c.Method), 15*time.Second)
	if err != nil {
		if strings.Contains(err.Error(), "timeout") {
			o.Client = "timeout"
		} else {
			o.Client = "closed"
		}
		return
	}
	o.Client = fmt.Sprintf("status:%d", r.Status)
}

func (w *fwdWorker) clientH2(c *fwdCase, o *fwdObs) {
	h, err := e2e.DialH2(w.s.TLSAddr)
	if err != nil {
		o.Client = "dial:" + err.Error()
		return
	}
	defer h.Close()
	id := h.NextStreamID()
	fields := []hpack.HeaderField{{Name: ":method", Value: tokenRepl.Replace(c.Method)}, {Name: ":scheme", Value: "https"},
		{Name: ":authority", Value: "example.org"}, {Name: ":path", Value: tokenRepl.Replace(c.Target)}}
	for _, f := range c.Fields {
		fields = append(fields, hpack.HeaderField{Name: tokenRepl.Replace(f.N), Value: tokenRepl.Replace(f.V)})
	}
	body := tokenRepl.Replace(c.Body)
	if body != "" && !c.Chunked {
		fields = append(fields, hpack.HeaderField{Name: "content-length", Value: fmt.Sprint(len(body))})
	}
	if err := h.WriteHeaders(id, fields, body == ""); err != nil {
		o.Client = "write:" + err.Error()
		return
	}
	if body != "" {
		h.WriteData(id, []byte(body), true)
	}
	r := h.ReadStream(id, 15*time.Second)
	switch {
	case r.Status != "":
		o.Client = "status:" + r.Status
	case r.Reset != nil:
		o.Client = fmt.Sprintf("reset:%d", uint32(*r.Reset))
	case r.GoAway != nil:
		o.Client = fmt.Sprintf("goaway:%d", uint32(*r.GoAway))
	case r.ConnErr == "timeout":
		o.Client = "timeout"
	default:
		o.Client = "closed"
	}
}

func forward(modules []string, files map[string]string) {
	var cases []*fwdCase
	vh.EachCase(func(line []byte) {
		c := &fwdCase{}
		if err := json.Unmarshal(line, c); err != nil {
			fatal("bad case: %v", err)
		}
		cases = append(cases, c)
	})
	nw := 8
	if len(cases) < nw {
		nw = 1
	}
	ch := make(chan *fwdCase)
	var wg sync.WaitGroup
	for i := 0; i < nw; i++ {
		w := newFwdWorker(modules, files)
		wg.Add(1)
		go func() {
			defer wg.Done()
			defer w.s.Close()
			defer w.bk.Close()
			for c := range ch {
				vh.Emit(w.run(c))
			}
		}()
	}
	for _, c := range cases {
		ch <- c
	}
	close(ch)
	wg.Wait()
}
