package main

// C29: which client address BFE uses and sends upstream.  Two servers (127.0.0.1 and [::1]) with
// mod_trust_clientip + mod_header; the trusted-source table is reloaded between the trusted and
// the untrusted half of the cases.  Route rules on req_cip_range send the request to a differently
// tagged backend depending on the address used for conditions; the backend captures X-Real-Ip,
// X-Real-Port, X-Forwarded-For.

import (
	"encoding/json"
	"fmt"
	"net"
	"net/http"
	"strings"
	"sync"
	"time"

	"verifharness/e2e"
	"verifharness/vh"
)

type addrCase struct {
	ID      int      `json:"id"`
	Fam     string   `json:"fam"`
	Trusted bool     `json:"trusted"`
	Hist    string   `json:"hist"` // fresh | revoked (untrusted again after a trusted table, same Version string)
	XRI     []string `json:"xri"`
	XRP     string   `json:"xrp"`
	XFF     string   `json:"xff"`
}

type addrSeen struct {
	tag              string
	realip, realport []string
	xff              []string
}

func addr() {
	var mu sync.Mutex
	seen := map[string]*addrSeen{}
	tags := []struct{ tag, lo, hi string }{
		{"127.0.0.1", "127.0.0.1", "127.0.0.1"}, {"::1", "::1", "::1"}, {"1.2.3.4", "1.2.3.4", "1.2.3.4"},
		{"2001:db8::1", "2001:db8::1", "2001:db8::1"}, {"5.6.7.8", "5.6.7.8", "5.6.7.8"}, {"none", "", ""}}
	var clusters []e2e.Cluster
	var routes []e2e.Route
	var bks []*e2e.Backend
	mk := func(tag string) *e2e.Backend {
		bk, err := e2e.NewBackend(e2e.RespondFunc(func(req *http.Request, body []byte, n int) (string, bool) {
			mu.Lock()
			seen[req.Header.Get("X-Case")] = &addrSeen{tag: tag, realip: req.Header["X-Real-Ip"],
				realport: req.Header["X-Real-Port"], xff: req.Header["X-Forwarded-For"]}
			mu.Unlock()
			return e2e.OK("ok"), false
		}))
		if err != nil {
			fatal("backend: %v", err)
		}
		bks = append(bks, bk)
		return bk
	}
	// first cluster = default route: the client address matched none of the ranges (or is unset)
	clusters = append(clusters, e2e.Cluster{Name: "c_none", Backends: []string{mk("none").Addr}})
	for i, t := range tags[:5] {
		name := fmt.Sprintf("c_%d", i)
		clusters = append(clusters, e2e.Cluster{Name: name, Backends: []string{mk(t.tag).Addr}})
		routes = append(routes, e2e.Route{Cond: fmt.Sprintf("req_cip_range(%q, %q)", t.lo, t.hi), Cluster: name})
	}
	defer func() {
		for _, b := range bks {
			b.Close()
		}
	}()
	trustTable := func(trusted bool) string {
		if trusted {
			return `{"Version":"t","Config":{"lo":[{"Begin":"127.0.0.1","End":"127.0.0.1"},{"Begin":"::1","End":"::1"}]}}`
		}
		return `{"Version":"u","Config":{"idc":[{"Begin":"10.0.0.0","End":"10.255.255.255"}]}}`
	}
	opt := e2e.Options{Clusters: clusters, Routes: routes, Modules: []string{"mod_trust_clientip", "mod_header"},
		Files: map[string]string{"mod_trust_clientip/trust_client_ip.data": trustTable(false),
			"mod_header/header_rule.data": `{"Version":"e2e","Config":{}}`}}
	s4, err := e2e.Start(opt)
	if err != nil {
		fatal("start v4: %v", err)
	}
	defer s4.Close()
	opt.V6 = true
	s6, err := e2e.Start(opt)
	if err != nil {
		fatal("start v6: %v", err)
	}
	defer s6.Close()

	var cases []*addrCase
	vh.EachCase(func(line []byte) {
		c := &addrCase{}
		if err := json.Unmarshal(line, c); err != nil {
			fatal("bad case: %v", err)
		}
		cases = append(cases, c)
	})
	for _, ph := range []struct {
		phase bool
		hist  string
	}{{false, "fresh"}, {true, "fresh"}, {false, "revoked"}} {
		phase := ph.phase
		// the module objects are process-wide: one reload serves both servers (same table file content)
		for _, s := range []*e2e.Server{s4, s6} {
			tt := trustTable(phase)
			if ph.hist == "revoked" {
				// the peer's range is dropped, the Version string stays that of the table before
				tt = strings.Replace(tt, `"Version":"u"`, `"Version":"t"`, 1)
			}
			s.WriteFile("mod_trust_clientip/trust_client_ip.data", tt)
		}
		if err := s6.Reload("mod_trust_clientip", nil); err != nil {
			fatal("reload trust table: %v", err)
		}
		var wg sync.WaitGroup
		sem := make(chan struct{}, 16)
		for _, c := range cases {
			if c.Hist == "" {
				c.Hist = "fresh"
			}
			if c.Trusted != phase || c.Hist != ph.hist {
				continue
			}
			wg.Add(1)
			sem <- struct{}{}
			go func(c *addrCase) {
				defer wg.Done()
				defer func() { <-sem }()
				s := s4
				if c.Fam == "v6" {
					s = s6
				}
				out := map[string]interface{}{"id": c.ID}
				h, err := e2e.DialH1(s.Addr)
				if err != nil {
					out["machinery"] = "dial: " + err.Error()
					vh.Emit(out)
					return
				}
				defer h.Close()
				la := h.Conn.LocalAddr().(*net.TCPAddr)
				var b strings.Builder
				fmt.Fprintf(&b, "GET /addr HTTP/1.1\r\nHost: example.org\r\nX-Case: %d\r\n", c.ID)
				for _, v := range c.XRI {
					fmt.Fprintf(&b, "X-Real-Ip: %s\r\n", v)
				}
				if c.XRP != "" {
					fmt.Fprintf(&b, "X-Real-Port: %s\r\n", c.XRP)
				}
				if c.XFF != "" {
					fmt.Fprintf(&b, "X-Forwarded-For: %s\r\n", c.XFF)
				}
				b.WriteString("\r\n")
				h.Send(b.String())
				r, err := h.ReadResponse("GET", 20*time.Second)
				if err != nil {
					out["client"] = "error: " + err.Error()
				} else {
					out["client"] = fmt.Sprintf("status:%d", r.Status)
				}
				mu.Lock()
				sn := seen[fmt.Sprint(c.ID)]
				mu.Unlock()
				out["peer"] = la.IP.String()
				out["peerport"] = fmt.Sprint(la.Port)
				if sn != nil {
					out["cond"] = sn.tag
					out["realip"] = sn.realip
					out["realport"] = sn.realport
					out["xff"] = sn.xff
				}
				vh.Emit(out)
			}(c)
		}
		wg.Wait()
	}
}
