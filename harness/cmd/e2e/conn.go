package main

// C28: a sequence of request classes pipelined on one raw client connection.  Observation = the
// sequence of responses (status, id of the request the backend answered, number of interim 100s),
// whether the connection ended up closed, whether any backend saw the request text embedded in a
// body, whether bytes arrived that are not a response.

import (
	"encoding/json"
	"fmt"
	"io"
	"net"
	"net/http"
	"sort"
	"strconv"
	"strings"
	"sync"
	"time"

	"github.com/bfenetworks/bfe/bfe_config/bfe_conf"

	"verifharness/e2e"
	"verifharness/vh"
)

type connCase struct {
	ID   int      `json:"id"`
	Reqs []string `json:"reqs"`
	SD   bool     `json:"sd"` // run while the server is in graceful-shutdown state
}

type connResp struct {
	St      int `json:"st"`
	ID      int `json:"id"`
	Interim int `json:"interim"`
	// the response carries "Connection: close"
	Announced bool `json:"announced"`
}

const (
	maxHeaderBytes = 8192
	hdrLimit       = maxHeaderBytes + 4096 // conn.readRequest arms the connection reader with this before each header
	bigBody        = 40000
)

func buildReq(cls string, cid, j int) (raw string, method string) {
	common := fmt.Sprintf("Host: example.org\r\nX-Case: %d\r\nX-Req-Id: %d\r\n", cid, j)
	smug := fmt.Sprintf("GET /smuggled HTTP/1.1\r\nHost: example.org\r\nX-Case: %d\r\n\r\n", cid)
	pad := func(n int) string { return smug + strings.Repeat("x", n-len(smug)) }
	if k := strings.IndexByte(cls, ':'); k > 0 { // "<METHOD>:<none|cl|chunked>"
		m, f := cls[:k], cls[k+1:]
		switch f {
		case "clbig", "chunkedbig":
			// body of bigBody bytes; the embedded request starts exactly hdrLimit bytes after the
			// first byte of this request (where a reader still under the header limit would stop)
			head := fmt.Sprintf("%s /r%d HTTP/1.1\r\n%s", m, j, common)
			if f == "clbig" {
				head += fmt.Sprintf("Content-Length: %d\r\n\r\n", bigBody)
			} else {
				head += fmt.Sprintf("Transfer-Encoding: chunked\r\n\r\n%x\r\n", bigBody)
			}
			var b strings.Builder
			b.WriteString(strings.Repeat("x", hdrLimit-len(head)))
			for b.Len()+len(smug) <= bigBody {
				b.WriteString(smug)
			}
			b.WriteString(strings.Repeat("x", bigBody-b.Len()))
			if f == "chunkedbig" {
				return head + b.String() + "\r\n0\r\n\r\n", m
			}
			return head + b.String(), m
		case "cl":
			return fmt.Sprintf("%s /r%d HTTP/1.1\r\n%sContent-Length: %d\r\n\r\n%s", m, j, common, len(smug), smug), m
		case "chunked":
			return fmt.Sprintf("%s /r%d HTTP/1.1\r\n%sTransfer-Encoding: chunked\r\n\r\n%x\r\n%s\r\n0\r\n\r\n", m, j, common, len(smug), smug), m
		}
		return fmt.Sprintf("%s /r%d HTTP/1.1\r\n%s\r\n", m, j, common), m
	}
	switch cls {
	case "early":
		return fmt.Sprintf("POST /r%d HTTP/1.1\r\n%sX-Beh: early\r\nContent-Length: 3000\r\n\r\n%s", j, common, pad(3000)), "POST"
	case "earlybig":
		return fmt.Sprintf("POST /r%d HTTP/1.1\r\n%sX-Beh: early\r\nContent-Length: 300000\r\n\r\n%s", j, common, pad(300000)), "POST"
	case "expect":
		return fmt.Sprintf("POST /r%d HTTP/1.1\r\n%sExpect: 100-continue\r\nContent-Length: %d\r\n\r\n%s", j, common, len(smug), smug), "POST"
	case "expectearly":
		return fmt.Sprintf("POST /r%d HTTP/1.1\r\n%sExpect: 100-continue\r\nX-Beh: early\r\nContent-Length: 3000\r\n\r\n%s", j, common, pad(3000)), "POST"
	case "expect0":
		return fmt.Sprintf("POST /r%d HTTP/1.1\r\n%sExpect: 100-continue\r\nContent-Length: 0\r\n\r\n", j, common), "POST"
	case "expectbad":
		return fmt.Sprintf("GET /r%d HTTP/1.1\r\n%sExpect: something-else\r\n\r\n", j, common), "GET"
	case "bad":
		return fmt.Sprintf("GET /r%d HTTP/1.1\r\n%sThis-Line-Has-No-Colon\r\n\r\n", j, common), "GET"
	case "oversize":
		return fmt.Sprintf("GET /r%d HTTP/1.1\r\n%sX-Big: %s\r\n\r\n", j, common, strings.Repeat("a", 20000)), "GET"
	case "http10":
		return fmt.Sprintf("GET /r%d HTTP/1.0\r\n%s\r\n", j, common), "GET"
	case "close":
		return fmt.Sprintf("GET /r%d HTTP/1.1\r\n%sConnection: close\r\n\r\n", j, common), "GET"
	}
	return "", ""
}

func connCmd() {
	var mu sync.Mutex
	smuggled := map[string]bool{}
	bk, err := e2e.NewBackend(func(c *e2e.BackendConn) {
		for {
			c.SetDeadline(time.Now().Add(30 * time.Second))
			req, err := http.ReadRequest(c.R)
			if err != nil {
				return
			}
			if strings.HasPrefix(req.URL.Path, "/smuggled") {
				mu.Lock()
				smuggled[req.Header.Get("X-Case")] = true
				mu.Unlock()
			}
			id := req.Header.Get("X-Req-Id")
			if req.Header.Get("X-Beh") == "early" {
				// answer without reading the body, half-close, then drop the connection with the body unread
				io.WriteString(c.Conn, "HTTP/1.1 403 Forbidden\r\nContent-Length: 0\r\nX-Req-Id: "+id+"\r\n\r\n")
				if tc, ok := c.Conn.(*net.TCPConn); ok {
					tc.CloseWrite()
				}
				time.Sleep(100 * time.Millisecond)
				c.Reset()
				return
			}
			io.Copy(io.Discard, req.Body)
			body := "r" + id
			if req.Method == "HEAD" {
				body = ""
			}
			probe := ""
			if req.Header.Get("X-Probe") != "" {
				probe = "X-Probe: 1\r\n"
			}
			io.WriteString(c.Conn, "HTTP/1.1 200 OK\r\nContent-Length: "+strconv.Itoa(len("r"+id))+"\r\nX-Req-Id: "+id+"\r\n"+probe+"\r\n"+body)
		}
	})
	if err != nil {
		fatal("backend: %v", err)
	}
	defer bk.Close()
	s, err := e2e.Start(e2e.Options{Clusters: []e2e.Cluster{{Name: "c1", Backends: []string{bk.Addr}}},
		Tweak: func(cfg *bfe_conf.BfeConfig) { cfg.Server.MaxHeaderBytes = maxHeaderBytes }})
	if err != nil {
		fatal("start: %v", err)
	}
	defer s.Close()

	var cases []*connCase
	vh.EachCase(func(line []byte) {
		c := &connCase{}
		if err := json.Unmarshal(line, c); err != nil {
			fatal("bad case: %v", err)
		}
		cases = append(cases, c)
	})
	sem := make(chan struct{}, 24)
	var wg sync.WaitGroup
	// two phases: first every case of the normally running server, then (the state cannot be left again)
	// the cases served while the server is in graceful shutdown: what ShutdownHandler does first is
	// close(CloseNotifyCh); the listeners stay open here so that the cases can still connect.
	sort.SliceStable(cases, func(a, b int) bool { return !cases[a].SD && cases[b].SD })
	shut := false
	for _, c := range cases {
		if c.SD && !shut {
			wg.Wait()
			close(s.Srv.CloseNotifyCh)
			shut = true
		}
		wg.Add(1)
		sem <- struct{}{}
		go func(c *connCase) {
			defer wg.Done()
			defer func() { <-sem }()
			out := runConnCase(s, c)
			mu.Lock()
			out["smuggled"] = smuggled[fmt.Sprint(c.ID)]
			mu.Unlock()
			vh.Emit(out)
		}(c)
	}
	wg.Wait()
}

// announced: the response carries the connection option "close" (RFC 7230 6.1)
func announced(h http.Header) bool {
	for _, v := range h.Values("Connection") {
		for _, t := range strings.Split(v, ",") {
			if strings.EqualFold(strings.TrimSpace(t), "close") {
				return true
			}
		}
	}
	return false
}

func runConnCase(s *e2e.Server, c *connCase) map[string]interface{} {
	out := map[string]interface{}{"id": c.ID}
	h, err := e2e.DialH1(s.Addr)
	if err != nil {
		out["machinery"] = "dial: " + err.Error()
		return out
	}
	defer h.Close()
	var all strings.Builder
	methods := []string{}
	for j, cls := range c.Reqs {
		raw, m := buildReq(cls, c.ID, j+1)
		all.WriteString(raw)
		methods = append(methods, m)
	}
	go func() { // the server may stop reading (that is legal): never block the reader on the write
		h.Conn.SetWriteDeadline(time.Now().Add(30 * time.Second))
		io.WriteString(h.Conn, all.String())
	}()
	resps := []connResp{}
	closed, garbage, note := false, false, ""
	interim := 0
	for {
		k := len(resps)
		method := "GET"
		if k < len(methods) {
			method = methods[k]
		}
		r, err := h.ReadResponse(method, 30*time.Second)
		if err != nil {
			if isTimeout(err) {
				note = "timeout waiting for a response"
			} else {
				closed = true
				if u := h.Unconsumed(); len(u) > 0 {
					garbage = true
					note = fmt.Sprintf("unparsable bytes: %.80q (%v)", u, err)
				}
			}
			break
		}
		if r.Status == 100 {
			interim++
			continue
		}
		id, _ := strconv.Atoi(r.Header.Get("X-Req-Id"))
		if r.Header.Get("X-Probe") != "" {
			// answer to the probe: the connection was open and in sync after the last response
			break
		}
		if r.UntilEOF {
			// delimited by the end of the connection (e.g. the bare 400/413 replies): nothing can follow
			resps = append(resps, connResp{St: r.Status, ID: id, Interim: interim, Announced: r.Close || announced(r.Header)})
			interim = 0
			closed = true
			break
		}
		if r.BodyErr != "" {
			note = "body: " + r.BodyErr
			garbage = true
		}
		if method != "HEAD" && r.Status == 200 && id > 0 && string(r.Body) != "r"+strconv.Itoa(id) {
			garbage = true
			note = fmt.Sprintf("body %.40q does not belong to request %d", r.Body, id)
		}
		resps = append(resps, connResp{St: r.Status, ID: id, Interim: interim, Announced: r.Close || announced(r.Header)})
		interim = 0
		if len(resps) == len(c.Reqs) {
			// everything answered: is the connection still usable ?
			h.Conn.SetWriteDeadline(time.Now().Add(10 * time.Second))
			io.WriteString(h.Conn, "GET /probe HTTP/1.1\r\nHost: example.org\r\nX-Probe: 1\r\nX-Req-Id: 99\r\n\r\n")
		}
		if len(resps) > len(c.Reqs) {
			garbage = true
			note = "more responses than requests"
			break
		}
	}
	if interim > 0 {
		garbage = true
		note += " dangling interim response"
	}
	out["resps"] = resps
	out["closed"] = closed
	out["garbage"] = garbage
	out["note"] = strings.TrimSpace(note)
	return out
}
