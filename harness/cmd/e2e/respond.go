package main

// C27: replay of Respond.tla rows.  The response the backend (or a module filter) produces is
// dictated by the case and travels in a request header, so all cases share one server.  The client
// is a raw socket; the response bytes are parsed by Go's http.ReadResponse, every byte is accounted
// for, and a probe request on the same connection shows whether it is still open and in sync.

import (
	"encoding/json"
	"fmt"
	"net"
	"net/http"
	"strings"
	"sync"
	"time"

	"github.com/bfenetworks/bfe/bfe_http"
	"github.com/bfenetworks/bfe/bfe_module"

	"verifharness/e2e"
	"verifharness/vh"
)

type respSpec struct {
	ID     int    `json:"id"`
	Method string `json:"method"`
	CV     string `json:"cv"`
	Src    string `json:"src"`
	Status int    `json:"status"`
	Bfr    string `json:"bfr"`
	Bconn  string `json:"bconn"`
	Blen   int    `json:"blen"`
}

func patBody(n int) string {
	const a = "abcdefghijklmnopqrstuvwxyz"
	var b strings.Builder
	for b.Len() < n {
		b.WriteString(a)
	}
	return b.String()[:n]
}

func backendRaw(sp *respSpec, method string) (string, bool) {
	var b strings.Builder
	fmt.Fprintf(&b, "HTTP/1.1 %d %s\r\nX-E2e: e2e-%d\r\n", sp.Status, http.StatusText(sp.Status), sp.ID)
	if sp.Bconn != "none" {
		fmt.Fprintf(&b, "Connection: %s\r\n", sp.Bconn)
	}
	body := patBody(sp.Blen)
	head := method == "HEAD"
	switch sp.Bfr {
	case "cl":
		fmt.Fprintf(&b, "Content-Length: %d\r\n\r\n", sp.Blen)
		if !head {
			b.WriteString(body)
		}
		return b.String(), false
	case "trunc":
		fmt.Fprintf(&b, "Content-Length: %d\r\n\r\n", sp.Blen)
		if !head {
			b.WriteString(body[:sp.Blen/2])
		}
		return b.String(), true
	case "chunked":
		b.WriteString("Transfer-Encoding: chunked\r\n\r\n")
		if !head {
			if sp.Blen > 0 {
				k := sp.Blen/2 + 1
				fmt.Fprintf(&b, "%x\r\n%s\r\n", k, body[:k])
				if sp.Blen-k > 0 {
					fmt.Fprintf(&b, "%x\r\n%s\r\n", sp.Blen-k, body[k:])
				}
			}
			b.WriteString("0\r\n\r\n")
		}
		return b.String(), false
	default: // eof
		b.WriteString("\r\n")
		if !head {
			b.WriteString(body)
		}
		return b.String(), true
	}
}

func respond() {
	bk, err := e2e.NewBackend(e2e.RespondFunc(func(req *http.Request, body []byte, n int) (string, bool) {
		if p := req.Header.Get("X-Probe"); p != "" {
			return e2e.RawResponse(200, [][2]string{{"Content-Length", fmt.Sprint(len(p) + 6)}, {"X-Probe", p}}, "probe-"+p), false
		}
		sp := &respSpec{}
		if err := json.Unmarshal([]byte(req.Header.Get("X-Spec")), sp); err != nil {
			return e2e.RawResponse(500, [][2]string{{"Content-Length", "0"}}, ""), true
		}
		return backendRaw(sp, req.Method)
	}))
	if err != nil {
		fatal("backend: %v", err)
	}
	defer bk.Close()
	s, err := e2e.Start(e2e.Options{Clusters: []e2e.Cluster{{Name: "c1", Backends: []string{bk.Addr}}}})
	if err != nil {
		fatal("start: %v", err)
	}
	defer s.Close()
	s.AddFilter(bfe_module.HandleBeforeLocation, func(c *e2e.Call) (int, *bfe_http.Response) {
		h := c.Req.HttpRequest.Header
		if h.Get("X-Module") == "" {
			return bfe_module.BfeHandlerGoOn, nil
		}
		sp := &respSpec{}
		if err := json.Unmarshal([]byte(h.Get("X-Spec")), sp); err != nil {
			return bfe_module.BfeHandlerGoOn, nil
		}
		hdr := [][2]string{{"X-E2e", fmt.Sprintf("e2e-%d", sp.ID)}}
		if sp.Bfr == "cl" {
			hdr = append(hdr, [2]string{"Content-Length", fmt.Sprint(sp.Blen)})
		}
		return bfe_module.BfeHandlerResponse, e2e.MakeResponse(c.Req, sp.Status, hdr, patBody(sp.Blen))
	})

	var cases []*respSpec
	vh.EachCase(func(line []byte) {
		c := &respSpec{}
		if err := json.Unmarshal(line, c); err != nil {
			fatal("bad case: %v", err)
		}
		cases = append(cases, c)
	})
	sem := make(chan struct{}, 24)
	var wg sync.WaitGroup
	for _, c := range cases {
		wg.Add(1)
		sem <- struct{}{}
		go func(c *respSpec) {
			defer wg.Done()
			defer func() { <-sem }()
			vh.Emit(runRespCase(s, c))
		}(c)
	}
	wg.Wait()
}

func isTimeout(err error) bool {
	ne, ok := err.(net.Error)
	return ok && ne.Timeout()
}

func runRespCase(s *e2e.Server, c *respSpec) map[string]interface{} {
	out := map[string]interface{}{"id": c.ID}
	spec, _ := json.Marshal(c)
	ver, conn := "1.1", ""
	switch c.CV {
	case "10":
		ver = "1.0"
	case "10ka":
		ver, conn = "1.0", "Connection: keep-alive\r\n"
	case "11close":
		conn = "Connection: close\r\n"
	}
	mod := ""
	if c.Src == "module" {
		mod = "X-Module: 1\r\n"
	}
	h, err := e2e.DialH1(s.Addr)
	if err != nil {
		out["machinery"] = "dial: " + err.Error()
		return out
	}
	defer h.Close()
	h.Send(fmt.Sprintf("%s /r%d HTTP/%s\r\nHost: example.org\r\n%s%sX-Spec: %s\r\n\r\n", c.Method, c.ID, ver, conn, mod, spec))
	r, err := h.ReadResponse(c.Method, 30*time.Second)
	if err != nil {
		out["resp"] = "none"
		out["note"] = err.Error()
		out["closed"] = !isTimeout(err)
		out["rawhead"] = string(h.Unconsumed())
		return out
	}
	framing := "eof"
	noBodyStatus := r.Status/100 == 1 || r.Status == 204 || r.Status == 304
	switch {
	case c.Method == "HEAD" || noBodyStatus:
		framing = "none"
	case len(r.TE) > 0 && r.TE[0] == "chunked":
		framing = "chunked"
	case r.ContentLength >= 0:
		framing = "cl"
	}
	out["resp"] = "ok"
	out["status"] = r.Status
	out["proto"] = r.Proto
	out["framing"] = framing
	out["len"] = len(r.Body)
	out["bodyok"] = string(r.Body) == patBody(len(r.Body))
	out["err"] = r.BodyErr != ""
	out["note"] = r.BodyErr
	out["e2e"] = r.Header.Get("X-E2e") == fmt.Sprintf("e2e-%d", c.ID)
	out["clhdr"] = r.Header.Get("Content-Length")
	out["connhdr"] = r.Header.Get("Connection")
	head := string(r.Raw)
	if i := strings.Index(head, "\r\n\r\n"); i >= 0 {
		head = head[:i]
	}
	out["rawhead"] = head
	// closed / in sync ?
	closed, desync := false, ""
	if r.UntilEOF || r.BodyErr != "" {
		cl, extra := h.WaitClose(10 * time.Second)
		closed = cl
		if r.BodyErr != "" && len(extra) > 0 {
			desync = fmt.Sprintf("%d bytes after a broken body", len(extra))
		}
	} else {
		probe := fmt.Sprint(c.ID)
		h.Send("GET /probe HTTP/1.1\r\nHost: example.org\r\nX-Probe: " + probe + "\r\n\r\n")
		r2, err := h.ReadResponse("GET", 30*time.Second)
		switch {
		case err == nil && r2.Status == 200 && string(r2.Body) == "probe-"+probe:
			closed = false
		case err == nil:
			desync = fmt.Sprintf("probe answered by status %d body %.40q", r2.Status, r2.Body)
		case isTimeout(err):
			desync = "probe unanswered, connection open"
		default:
			closed = true
			if u := h.Unconsumed(); len(u) > 0 {
				desync = fmt.Sprintf("garbage after the response: %.60q", u)
			}
		}
	}
	out["closed"] = closed
	out["desync"] = desync
	return out
}
