package main

// C48: replay of Pipeline behaviours.  Three counting filters per callback point; every filter
// looks up the verdict the TLC-generated plan gives it for the case the connection/request
// belongs to, records its invocation and returns that verdict.  The harness only observes:
// invocations (with the verdicts returned), what the client received, backend contacts,
// whether the connection was closed.  All judging is done by TracePipeline.tla.

import (
	"crypto/tls"
	"encoding/json"
	"fmt"
	"net"
	"net/http"
	"strings"
	"sync"
	"syscall"
	"time"

	"github.com/bfenetworks/bfe/bfe_http"
	"github.com/bfenetworks/bfe/bfe_module"

	"verifharness/e2e"
	"verifharness/vh"
)

type pcall struct {
	P string `json:"p"`
	I int    `json:"i"`
	V string `json:"v"`
}

type pipeCase struct {
	ID    int     `json:"id"`
	TLS   bool    `json:"tls"`
	Calls []pcall `json:"calls"`
	ExpM  struct {
		Sent   string `json:"sent"`
		Bk     int    `json:"bk"`
		Closed bool   `json:"closed"`
	} `json:"expM"`

	mu   sync.Mutex
	plan map[string]string // "p:i" -> verdict
	obs  []pcall
	bk   int
}

var pointIDs = map[string]int{"A": bfe_module.HandleAccept, "H": bfe_module.HandleHandshake,
	"BL": bfe_module.HandleBeforeLocation, "FP": bfe_module.HandleFoundProduct,
	"AL": bfe_module.HandleAfterLocation, "FW": bfe_module.HandleForward,
	"RR": bfe_module.HandleReadResponse, "RF": bfe_module.HandleRequestFinish, "FN": bfe_module.HandleFinish}

var verdictIDs = map[string]int{"GoOn": bfe_module.BfeHandlerGoOn, "Finish": bfe_module.BfeHandlerFinish,
	"Redirect": bfe_module.BfeHandlerRedirect, "Response": bfe_module.BfeHandlerResponse,
	"Close": bfe_module.BfeHandlerClose}

type pipeReg struct {
	mu     sync.Mutex
	byAddr map[string]*pipeCase // client socket address -> case, registered BEFORE connect()
	byID   map[string]*pipeCase
	bySess sync.Map // *bfe_basic.Session -> *pipeCase, set by the first accept filter
}

func (r *pipeReg) addr(a string, wait time.Duration) *pipeCase {
	deadline := time.Now().Add(wait)
	for {
		r.mu.Lock()
		c := r.byAddr[a]
		r.mu.Unlock()
		if c != nil || time.Now().After(deadline) {
			return c
		}
		time.Sleep(200 * time.Microsecond)
	}
}

const maxChain = 3

func pipeline() {
	reg := &pipeReg{byAddr: map[string]*pipeCase{}, byID: map[string]*pipeCase{}}
	bk, err := e2e.NewBackend(e2e.RespondFunc(func(req *http.Request, body []byte, n int) (string, bool) {
		id := req.Header.Get("X-Case")
		if req.Header.Get("X-Req") == "1" {
			reg.mu.Lock()
			c := reg.byID[id]
			reg.mu.Unlock()
			if c != nil {
				c.mu.Lock()
				c.bk++
				c.mu.Unlock()
			}
		}
		return e2e.RawResponse(200, [][2]string{{"Content-Length", "7"}, {"X-Verif-Src", "backend"},
			{"X-Echo-Req", req.Header.Get("X-Req")}}, "backend"), false
	}))
	if err != nil {
		fatal("backend: %v", err)
	}
	defer bk.Close()
	s, err := e2e.Start(e2e.Options{TLS: true, NextProtos: []string{"http/1.1"},
		Clusters: []e2e.Cluster{{Name: "c1", Backends: []string{bk.Addr}}}})
	if err != nil {
		fatal("start: %v", err)
	}
	defer s.Close()
	for pname, pid := range pointIDs {
		for i := 1; i <= maxChain; i++ {
			pname, i := pname, i
			err := s.AddFilter(pid, func(c *e2e.Call) (int, *bfe_http.Response) {
				var pc *pipeCase
				if c.Req != nil {
					h := c.Req.HttpRequest.Header
					if h.Get("X-Req") != "1" {
						return bfe_module.BfeHandlerGoOn, nil
					}
					reg.mu.Lock()
					pc = reg.byID[h.Get("X-Case")]
					reg.mu.Unlock()
				} else if v, ok := reg.bySess.Load(c.Session); ok {
					pc = v.(*pipeCase)
				} else if pname == "A" {
					// ephemeral ports are reused: only the accept point resolves the address (the
					// client registered it before connecting); later session points use the session
					pc = reg.addr(c.Session.RemoteAddr.String(), 10*time.Second)
					if pc != nil {
						reg.bySess.Store(c.Session, pc)
					}
				}
				if pc == nil {
					return bfe_module.BfeHandlerGoOn, nil
				}
				key := fmt.Sprintf("%s:%d", pname, i)
				pc.mu.Lock()
				v := pc.plan[key]
				if v == "" {
					v = "GoOn"
				}
				pc.obs = append(pc.obs, pcall{pname, i, v})
				pc.mu.Unlock()
				switch v {
				case "Response":
					if c.Req != nil {
						return verdictIDs[v], e2e.MakeResponse(c.Req, 403,
							[][2]string{{"X-Verif-Src", "filter:" + key}}, "filter:"+key)
					}
				case "Redirect":
					if c.Req != nil {
						e2e.SetRedirect(c.Req, "http://redirect.example/"+key, 302)
					}
				}
				return verdictIDs[v], nil
			})
			if err != nil {
				fatal("AddFilter: %v", err)
			}
		}
	}

	var cases []*pipeCase
	vh.EachCase(func(line []byte) {
		c := &pipeCase{}
		if err := json.Unmarshal(line, c); err != nil {
			fatal("bad case: %v", err)
		}
		c.plan = map[string]string{}
		for _, k := range c.Calls {
			c.plan[fmt.Sprintf("%s:%d", k.P, k.I)] = k.V
		}
		cases = append(cases, c)
	})
	sem := make(chan struct{}, 32)
	var wg sync.WaitGroup
	for _, c := range cases {
		wg.Add(1)
		sem <- struct{}{}
		go func(c *pipeCase) {
			defer wg.Done()
			defer func() { <-sem }()
			runPipeCase(s, reg, c)
		}(c)
	}
	wg.Wait()
}

// classifyResp names the response by its source.  "Exactly that response" includes the body: a
// response whose status line / headers come from one source and whose body carries bytes of
// another one (the backend's body, a filter's body) is "mixed".
func classifyResp(r *e2e.Response) string {
	src := r.Header.Get("X-Verif-Src")
	body := string(r.Body)
	foreign := func(own string) bool {
		rest := body
		if own != "" {
			rest = strings.Replace(rest, own, "", 1)
		}
		return strings.Contains(rest, "backend") || strings.Contains(rest, "filter:")
	}
	switch {
	case r.Status == 200 && src == "backend":
		if body == "backend" {
			return "backend"
		}
		return "mixed"
	case r.Status == 403 && strings.HasPrefix(src, "filter:"):
		if body == src {
			return src
		}
		return "mixed"
	case r.Status == 302 && strings.HasPrefix(r.Header.Get("Location"), "http://redirect.example/"):
		// the redirect's own body is empty or a short note naming the target; nothing of any other response
		if foreign("") || src != "" {
			return "mixed"
		}
		return "redirect:" + strings.TrimPrefix(r.Header.Get("Location"), "http://redirect.example/")
	}
	if foreign("") {
		return "mixed"
	}
	return "other"
}

func runPipeCase(s *e2e.Server, reg *pipeReg, c *pipeCase) {
	id := fmt.Sprint(c.ID)
	out := map[string]interface{}{"id": c.ID, "tls": c.TLS}
	sent, closed, note := "none", false, ""
	addr := s.Addr
	if c.TLS {
		addr = s.TLSAddr
	}
	reg.mu.Lock()
	reg.byID[id] = c
	reg.mu.Unlock()
	// bind the client socket first and register its address before connect(): the accept filter
	// can then never see an unregistered (or a previous case's) address
	d := net.Dialer{Timeout: 20 * time.Second, Control: func(network, address string, rc syscall.RawConn) error {
		var cerr error
		rc.Control(func(fd uintptr) {
			if cerr = syscall.Bind(int(fd), &syscall.SockaddrInet4{Addr: [4]byte{127, 0, 0, 1}}); cerr != nil {
				return
			}
			sa, e := syscall.Getsockname(int(fd))
			if e != nil {
				cerr = e
				return
			}
			if in4, ok := sa.(*syscall.SockaddrInet4); ok {
				reg.mu.Lock()
				reg.byAddr[fmt.Sprintf("127.0.0.1:%d", in4.Port)] = c
				reg.mu.Unlock()
			}
		})
		return cerr
	}}
	raw, err := d.Dial("tcp4", addr)
	if err != nil {
		out["machinery"] = "dial: " + err.Error()
		vh.Emit(out)
		return
	}
	var conn net.Conn = raw
	hsFailed := false
	if c.TLS {
		tc := tls.Client(raw, &tls.Config{InsecureSkipVerify: true, NextProtos: []string{"http/1.1"},
			ServerName: "example.org"})
		raw.SetDeadline(time.Now().Add(20 * time.Second))
		if err := tc.Handshake(); err != nil {
			hsFailed = true
			closed = true // the server closed (or broke) the connection before any application byte
			note = "handshake: " + err.Error()
			if ne, ok := err.(net.Error); ok && ne.Timeout() {
				closed = false
			}
		}
		raw.SetDeadline(time.Time{})
		conn = tc
	}
	h1 := e2e.NewH1(conn)
	if !hsFailed {
		h1.Send("GET /c" + id + " HTTP/1.1\r\nHost: example.org\r\nX-Case: " + id + "\r\nX-Req: 1\r\n\r\n")
		r, err := h1.ReadResponse("GET", 20*time.Second)
		if err != nil {
			ne, isNet := err.(net.Error)
			switch {
			case isNet && ne.Timeout():
				note = "no response within 20s"
			case len(h1.Unconsumed()) == 0:
				closed = true // EOF / reset with not a single byte received
			default:
				sent, closed = "other", true
				note = "unparsable response: " + err.Error()
			}
		} else {
			sent = classifyResp(r)
			out["status"] = r.Status
			out["body"] = fmt.Sprintf("%.200q", r.Body)
			out["clen"] = r.ContentLength
			if r.BodyErr != "" {
				note = "body: " + r.BodyErr
			}
			// is the connection still usable?  a second request that passes all filters
			h1.Send("GET /c" + id + "-2 HTTP/1.1\r\nHost: example.org\r\nX-Case: " + id + "\r\nX-Req: 2\r\n\r\n")
			r2, err := h1.ReadResponse("GET", 20*time.Second)
			if err != nil {
				closed = true
				if ne, ok := err.(net.Error); ok && ne.Timeout() {
					closed = false
					note += " second request unanswered"
				} else if len(h1.Unconsumed()) != 0 {
					sent = "other"
					note += " garbage after response"
				}
			} else if r2.Header.Get("X-Echo-Req") != "2" {
				sent = "other-extra"
				note += " extra response after the first"
			}
		}
	}
	h1.Close()
	// wait for the connection-finish callbacks (server side of the connection is done)
	wantFN := 0
	for _, k := range c.Calls {
		if k.P == "FN" {
			wantFN++
		}
	}
	deadline := time.Now().Add(5 * time.Second)
	for time.Now().Before(deadline) {
		c.mu.Lock()
		n := 0
		for _, k := range c.obs {
			if k.P == "FN" {
				n++
			}
		}
		c.mu.Unlock()
		if n >= wantFN {
			break
		}
		time.Sleep(2 * time.Millisecond)
	}
	time.Sleep(20 * time.Millisecond)
	c.mu.Lock()
	obs := append(make([]pcall, 0, len(c.obs)), c.obs...)
	nbk := c.bk
	c.mu.Unlock()
	out["calls"] = obs
	out["sent"] = sent
	out["bk"] = nbk
	out["closed"] = closed
	out["note"] = strings.TrimSpace(note)
	vh.Emit(out)
}

func fatal(f string, a ...interface{}) {
	vh.Emit(map[string]interface{}{"fatal": fmt.Sprintf(f, a...)})
	vh.Flush()
	panic(fmt.Sprintf(f, a...))
}
