package main

import (
	"fmt"
	"time"

	"github.com/bfenetworks/bfe/bfe_http"
	"github.com/bfenetworks/bfe/bfe_module"
	"golang.org/x/net/http2/hpack"

	"verifharness/e2e"
	"verifharness/vh"
)

func selftest() {
	t0 := time.Now()
	bk, err := e2e.NewBackend(e2e.Respond(e2e.OK("hello"), false))
	if err != nil {
		panic(err)
	}
	defer bk.Close()
	mk := func() *e2e.Server {
		s, err := e2e.Start(e2e.Options{TLS: true, Clusters: []e2e.Cluster{{Name: "c1", Backends: []string{bk.Addr}}}})
		if err != nil {
			panic(err)
		}
		return s
	}
	s1 := mk()
	defer s1.Close()
	s2 := mk()
	defer s2.Close()
	n := 0
	s2.AddFilter(bfe_module.HandleBeforeLocation, func(c *e2e.Call) (int, *bfe_http.Response) {
		n++
		return bfe_module.BfeHandlerGoOn, nil
	})
	out := map[string]interface{}{"start_s": time.Since(t0).Seconds()}
	for i, s := range []*e2e.Server{s1, s2} {
		c, err := e2e.DialH1(s.Addr)
		if err != nil {
			panic(err)
		}
		c.Send("GET /x HTTP/1.1\r\nHost: example.org\r\n\r\n")
		r, err := c.ReadResponse("GET", 5*time.Second)
		if err != nil {
			panic(err)
		}
		out[fmt.Sprintf("h1_%d", i)] = fmt.Sprintf("%d %q raw=%d", r.Status, r.Body, len(r.Raw))
		c.Close()
		h, err := e2e.DialH2(s.TLSAddr)
		if err != nil {
			panic(err)
		}
		id := h.NextStreamID()
		h.WriteHeaders(id, []hpack.HeaderField{{Name: ":method", Value: "GET"}, {Name: ":scheme", Value: "https"},
			{Name: ":authority", Value: "example.org"}, {Name: ":path", Value: "/y"}}, true)
		hr := h.ReadStream(id, 5*time.Second)
		out[fmt.Sprintf("h2_%d", i)] = fmt.Sprintf("%s %q ended=%v err=%s", hr.Status, hr.Body, hr.Ended, hr.ConnErr)
		h.Close()
	}
	out["filter_calls_s2"] = n
	out["backend_conns"] = bk.Conns()
	out["first_backend_bytes"] = string(bk.Received()[0])
	out["reload"] = fmt.Sprint(s1.ReloadServerData(), s1.ReloadGslb())
	vh.Emit(out)
}
