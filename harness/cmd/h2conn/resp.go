package main

import (
	"golang.org/x/net/http2/hpack"

	http "github.com/bfenetworks/bfe/bfe_http"
)

type respRun struct{}

func (r *respRun) serve(w http.ResponseWriter, req *http.Request)                {}
func (r *respRun) onData(s uint32, d []byte, es bool)                            {}
func (r *respRun) onRst(s uint32, code uint32)                                   {}
func (r *respRun) onHeaders(s uint32, f []hpack.HeaderField, es bool, err error) {}
func cmdResp()                                                                   {}
func cmdFlood()                                                                  {}
