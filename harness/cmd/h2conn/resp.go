package main

import (
	"encoding/json"
	"fmt"
	"os"
	"runtime"
	"strconv"
	"sync"
	"sync/atomic"

	"golang.org/x/net/http2/hpack"

	http "github.com/bfenetworks/bfe/bfe_http"

	"verifharness/vh"
)

// C38: a handler script (TLC-enumerated, specs/H2/ConnResp.tla) is run in a handler of the real
// server; the decoded response on stream 1 is reported as `obs`.

type respWrite struct {
	N     int  `json:"n"`
	Flush bool `json:"flush"`
}
type respHdr struct {
	Name string `json:"name"`
	Val  string `json:"val"`
}
type respScript struct {
	Method   string      `json:"method"`
	Status   int         `json:"status"`
	Hdrs     []respHdr   `json:"hdrs"`
	Plan     []respWrite `json:"plan"`
	Trailers string      `json:"trailers"`
	CL       string      `json:"cl"`
}

type respObs struct {
	Status   int         `json:"status"`
	Pseudo   [][2]string `json:"pseudo"`
	Hdrs     [][2]string `json:"hdrs"`
	Trailers [][2]string `json:"trailers"`
	Frames   []string    `json:"frames"` // H | D | T(railers) | R(st), in order
	ES       []bool      `json:"es"`
	BodyLen  int         `json:"body_len"`
	BodyOK   bool        `json:"body_ok"`
	Rst      int         `json:"rst"`
	Wrote    []int       `json:"wrote"`
	WErr     []string    `json:"werr"`
	HpackErr string      `json:"hpack_err"`
	Hang     bool        `json:"hang"`
	Panic    string      `json:"panic"`
}

type respRun struct {
	script respScript
	mu     sync.Mutex
	obs    respObs
	off    int
}

func (r *respRun) serve(w http.ResponseWriter, req *http.Request) {
	s := r.script
	for _, h := range s.Hdrs {
		w.Header().Add(h.Name, h.Val)
	}
	if s.Trailers == "declared" {
		w.Header().Set("Trailer", "X-T1")
	}
	if s.CL == "exact" {
		total := 0
		for _, p := range s.Plan {
			total += p.N
		}
		w.Header().Set("Content-Length", strconv.Itoa(total))
	}
	if s.Status != 0 {
		w.WriteHeader(s.Status)
	}
	woff := 0
	for _, p := range s.Plan {
		data := make([]byte, p.N)
		for i := range data {
			data[i] = pat(woff + i)
		}
		n, err := w.Write(data)
		woff += n
		r.mu.Lock()
		r.obs.Wrote = append(r.obs.Wrote, n)
		if err != nil {
			r.obs.WErr = append(r.obs.WErr, err.Error())
		} else {
			r.obs.WErr = append(r.obs.WErr, "")
		}
		r.mu.Unlock()
		if p.Flush {
			if f, ok := w.(http.Flusher); ok {
				f.Flush()
			}
		}
	}
	switch s.Trailers {
	case "declared":
		w.Header().Set("X-T1", "v1")
	case "prefix":
		w.Header().Set("Trailer:X-T2", "v2")
	}
}

func (r *respRun) onHeaders(sid uint32, fields []hpack.HeaderField, es bool, err error) {
	if sid != 1 {
		return
	}
	r.mu.Lock()
	defer r.mu.Unlock()
	if err != nil {
		r.obs.HpackErr = err.Error()
	}
	first := true
	for _, f := range r.obs.Frames {
		if f == "H" {
			first = false
		}
	}
	isInfo := false
	if first {
		for _, f := range fields {
			if f.Name == ":status" {
				if c, _ := strconv.Atoi(f.Value); c >= 100 && c < 200 {
					isInfo = true
				}
			}
		}
	}
	if isInfo {
		r.obs.Frames = append(r.obs.Frames, "I")
		r.obs.ES = append(r.obs.ES, es)
		return
	}
	if first {
		r.obs.Frames = append(r.obs.Frames, "H")
		for _, f := range fields {
			if len(f.Name) > 0 && f.Name[0] == ':' {
				r.obs.Pseudo = append(r.obs.Pseudo, [2]string{f.Name, f.Value})
				if f.Name == ":status" {
					r.obs.Status, _ = strconv.Atoi(f.Value)
				}
			} else {
				r.obs.Hdrs = append(r.obs.Hdrs, [2]string{f.Name, f.Value})
			}
		}
	} else {
		r.obs.Frames = append(r.obs.Frames, "T")
		for _, f := range fields {
			r.obs.Trailers = append(r.obs.Trailers, [2]string{f.Name, f.Value})
		}
	}
	r.obs.ES = append(r.obs.ES, es)
}

func (r *respRun) onData(sid uint32, d []byte, es bool) {
	if sid != 1 {
		return
	}
	r.mu.Lock()
	defer r.mu.Unlock()
	r.obs.Frames = append(r.obs.Frames, "D")
	r.obs.ES = append(r.obs.ES, es)
	for i, b := range d {
		if b != pat(r.off+i) {
			r.obs.BodyOK = false
		}
	}
	r.off += len(d)
	r.obs.BodyLen = r.off
}

func (r *respRun) onRst(sid uint32, code uint32) {
	if sid != 1 {
		return
	}
	r.mu.Lock()
	defer r.mu.Unlock()
	r.obs.Frames = append(r.obs.Frames, "R")
	r.obs.ES = append(r.obs.ES, false)
	r.obs.Rst = int(code)
}

type respCase struct {
	ID     int        `json:"id"`
	Script respScript `json:"script"`
}

func runResp(rc *respCase) respObs {
	c := &Case{ID: rc.ID, Cfg: Cfg{SW: 0, MaxS: 10, OSW: 1 << 20, MFS: -1, OCWAdd: 1 << 20}}
	cr := newCaseRun(c)
	cr.resp = &respRun{script: rc.Script}
	cr.resp.obs = respObs{Rst: -1, BodyOK: true, Pseudo: [][2]string{}, Hdrs: [][2]string{}, Trailers: [][2]string{},
		Frames: []string{}, ES: []bool{}, Wrote: []int{}, WErr: []string{}}
	defer cr.release()
	if !cr.start() {
		cr.resp.obs.Hang = true
		return cr.resp.obs
	}
	req := "get"
	if rc.Script.Method == "HEAD" {
		req = "head"
	}
	cr.step(Step{A: "c", K: "HEADERS", S: 1, ES: true, Req: req, CL: -1, IWS: -1, MFS: -1})
	cr.resp.mu.Lock()
	defer cr.resp.mu.Unlock()
	o := cr.resp.obs
	o.Hang = cr.hang
	if v := cr.panicText.Load(); v != nil {
		o.Panic = v.(string)
	}
	return o
}

func cmdResp() {
	var all []*respCase
	vh.EachCase(func(line []byte) {
		c := &respCase{}
		if err := json.Unmarshal(line, c); err != nil {
			fmt.Fprintln(os.Stderr, "bad case:", err)
			os.Exit(2)
		}
		all = append(all, c)
	})
	res := make([]map[string]interface{}, len(all))
	workers := runtime.NumCPU() * 2
	if workers > 16 {
		workers = 16
	}
	var wg sync.WaitGroup
	idx := int64(-1)
	for w := 0; w < workers; w++ {
		wg.Add(1)
		go func() {
			defer wg.Done()
			for {
				i := int(atomic.AddInt64(&idx, 1))
				if i >= len(all) {
					return
				}
				var o respObs
				p := vh.Guard(func() { o = runResp(all[i]) })
				if p != "" {
					o.Hang = true
					o.Panic = "harness: " + p
				}
				res[i] = map[string]interface{}{"id": all[i].ID, "obs": o}
			}
		}()
	}
	wg.Wait()
	for _, r := range res {
		vh.Emit(r)
	}
	vh.Emit(map[string]interface{}{"summary": true, "cases": len(all)})
}
