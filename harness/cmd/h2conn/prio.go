package main

// C36 on the wire: the operation histories TLC generates from specs/H2/Priority.tla (OpenStream with /
// without priority, PRIORITY, Close) are sent as real frames (HEADERS carrying the priority fields,
// PRIORITY, RST_STREAM) to a real serverConn; after each operation the parent pointers of the streams
// map are read on the serve loop.  Layer P: no stream is its own ancestor, and the loop keeps
// answering (priority processing terminated).  Model stream s is wire stream 2s-1.

import (
	"encoding/json"
	"fmt"
	"sync/atomic"
	"time"

	"golang.org/x/net/http2"
	"golang.org/x/net/http2/hpack"

	"verifharness/vh"
)

type wprioOp struct {
	K    string `json:"k"`
	S    uint32 `json:"s"`
	Hp   bool   `json:"hp"`
	Dep  uint32 `json:"dep"`
	Excl bool   `json:"excl"`
	W    uint8  `json:"w"`
}

type wprioCase struct {
	ID  int `json:"id"`
	Ops []struct {
		Op wprioOp `json:"op"`
	} `json:"ops"`
}

func wid(s uint32) uint32 {
	if s == 0 {
		return 0
	}
	return 2*s - 1
}

func runWprio(c *wprioCase) map[string]interface{} {
	out := map[string]interface{}{"id": c.ID, "ok": true}
	fail := func(sig, detail string) map[string]interface{} {
		out["ok"], out["sig"], out["detail"] = false, sig, detail
		return out
	}
	cr := newCaseRun(&Case{ID: c.ID, Cfg: Cfg{MaxS: 1000, OSW: -1, MFS: -1}})
	defer cr.release()
	if !cr.start() {
		out["machinery"] = "connection did not start"
		return out
	}
	open := map[uint32]bool{}
	var maxOpened uint32
	steps := 0
	for i, o := range c.Ops {
		op := o.Op
		p := http2.PriorityParam{StreamDep: wid(op.Dep), Exclusive: op.Excl, Weight: op.W}
		var err error
		switch op.K {
		case "open":
			if op.S <= maxOpened {
				continue // stream ids only grow on a connection
			}
			cr.encBuf.Reset()
			for _, f := range reqFields["get"] {
				cr.enc.WriteField(hpack.HeaderField{Name: f[0], Value: f[1]})
			}
			hp := http2.HeadersFrameParam{StreamID: wid(op.S), BlockFragment: cr.encBuf.Bytes(), EndStream: true, EndHeaders: true}
			if op.Hp {
				hp.Priority = p
				if p.StreamDep == 0 && !p.Exclusive && p.Weight == 0 {
					hp.Priority.Weight = 1 // the framer takes the zero PriorityParam for "no priority"
				}
			}
			err = cr.fr.WriteHeaders(hp)
			open[op.S], maxOpened = true, op.S
		case "prio":
			err = cr.fr.WritePriority(wid(op.S), p)
		case "close":
			if !open[op.S] {
				continue
			}
			err = cr.fr.WriteRSTStream(wid(op.S), http2.ErrCodeCancel)
			delete(open, op.S)
		}
		if err != nil {
			break // the server closed the connection (a connection error is its right): nothing more to observe
		}
		steps++
		settled := cr.settle()
		if cr.serverDone() {
			break
		}
		type obs struct {
			par  map[uint32]uint32
			walk map[uint32]int
			ok   bool
		}
		ch := make(chan obs, 1)
		go func() {
			p, w, ok := cr.vc.PrioWalks(64)
			ch <- obs{p, w, ok}
		}()
		shape := fmt.Sprintf("%s/excl=%v/wire", op.K, op.Excl)
		select {
		case ob := <-ch:
			if !ob.ok {
				out["steps"] = steps
				return out
			}
			for id, n := range ob.walk {
				if n < 0 {
					return fail("cycle/"+shape, fmt.Sprintf("after op %d %+v: ancestor walk from wire stream %d does not reach the root; parents=%v", i+1, op, id, ob.par))
				}
			}
		case <-time.After(10 * time.Second):
			return fail("hang/"+shape, fmt.Sprintf("after op %d %+v: the serve loop no longer answers (settled=%v)", i+1, op, settled))
		}
		if n := atomic.LoadInt32(&cr.panics); n > 0 {
			return fail("panic/"+shape, fmt.Sprint(cr.panicText.Load()))
		}
	}
	out["steps"] = steps
	return out
}

func cmdPrio() {
	settleTimeout = 8 * time.Second
	hangs := 0
	vh.EachCase(func(line []byte) {
		var c wprioCase
		if err := json.Unmarshal(line, &c); err != nil {
			vh.Emit(map[string]interface{}{"_bad_case": err.Error()})
			return
		}
		if hangs >= 3 {
			vh.Emit(map[string]interface{}{"id": c.ID, "ok": true, "skipped": true})
			return
		}
		r := runWprio(&c)
		if s, _ := r["sig"].(string); len(s) > 4 && s[:4] == "hang" {
			hangs++
		}
		vh.Emit(r)
	})
}
