package main

import (
	"errors"
	"io"
	"net"
	"sync"
	"time"
)

// half is one direction of an in-memory duplex connection: a byte queue with optional
// capacity (0 = unbounded) whose blocking state can be inspected from outside, so that
// "the peer has consumed everything and is waiting for more" is an exact predicate and
// not a timing guess.
type half struct {
	mu       sync.Mutex
	cond     *sync.Cond
	buf      []byte
	capacity int  // 0: writes never block
	closed   bool // no more data will be written; readers get EOF after draining
	rwait    int  // readers blocked on an empty buffer
	wwait    int  // writers blocked on a full buffer
	nread    int64
	nwritten int64
}

func newHalf(capacity int) *half {
	h := &half{capacity: capacity}
	h.cond = sync.NewCond(&h.mu)
	return h
}

var errClosedConn = errors.New("use of closed network connection")

func (h *half) read(p []byte) (int, error) {
	h.mu.Lock()
	defer h.mu.Unlock()
	for len(h.buf) == 0 {
		if h.closed {
			return 0, io.EOF
		}
		h.rwait++
		h.cond.Wait()
		h.rwait--
	}
	n := copy(p, h.buf)
	h.buf = h.buf[n:]
	h.nread += int64(n)
	h.cond.Broadcast()
	return n, nil
}

func (h *half) write(p []byte) (int, error) {
	h.mu.Lock()
	defer h.mu.Unlock()
	total := 0
	for len(p) > 0 {
		if h.closed {
			return total, errClosedConn
		}
		room := len(p)
		if h.capacity > 0 {
			room = h.capacity - len(h.buf)
			if room <= 0 {
				h.wwait++
				h.cond.Wait()
				h.wwait--
				continue
			}
			if room > len(p) {
				room = len(p)
			}
		}
		h.buf = append(h.buf, p[:room]...)
		h.nwritten += int64(room)
		p = p[room:]
		total += room
		h.cond.Broadcast()
	}
	return total, nil
}

func (h *half) close() {
	h.mu.Lock()
	h.closed = true
	h.cond.Broadcast()
	h.mu.Unlock()
}

// state: buffered bytes, blocked readers, blocked writers, closed.
func (h *half) state() (n, rwait, wwait int, closed bool) {
	h.mu.Lock()
	defer h.mu.Unlock()
	return len(h.buf), h.rwait, h.wwait, h.closed
}

// discard drops whatever is buffered (only used after the writer side was closed).
func (h *half) discard() {
	h.mu.Lock()
	h.buf = h.buf[:0]
	h.mu.Unlock()
}

// peek copies up to len(p) buffered bytes without consuming them.
func (h *half) peek(p []byte) int {
	h.mu.Lock()
	defer h.mu.Unlock()
	return copy(p, h.buf)
}

type memAddr string

func (a memAddr) Network() string { return "mem" }
func (a memAddr) String() string  { return string(a) }

// endpoint is one end of the duplex connection.  Deadlines are accepted and ignored: nothing
// in the cases depends on a timeout firing, and a wall-clock deadline would make runs
// load-dependent.
type endpoint struct {
	r, w   *half
	local  memAddr
	remote memAddr
	once   sync.Once
}

func (e *endpoint) Read(p []byte) (int, error)  { return e.r.read(p) }
func (e *endpoint) Write(p []byte) (int, error) { return e.w.write(p) }
func (e *endpoint) Close() error {
	e.once.Do(func() {
		e.w.close()
		e.r.close()
	})
	return nil
}
func (e *endpoint) LocalAddr() net.Addr                { return e.local }
func (e *endpoint) RemoteAddr() net.Addr               { return e.remote }
func (e *endpoint) SetDeadline(t time.Time) error      { return nil }
func (e *endpoint) SetReadDeadline(t time.Time) error  { return nil }
func (e *endpoint) SetWriteDeadline(t time.Time) error { return nil }

// newMemPair returns (client end, server end).  s2cCap bounds the server->client direction.
func newMemPair(name string, s2cCap int) (*endpoint, *endpoint) {
	c2s := newHalf(0)
	s2c := newHalf(s2cCap)
	cl := &endpoint{r: s2c, w: c2s, local: memAddr(name), remote: memAddr("server")}
	sv := &endpoint{r: c2s, w: s2c, local: memAddr("server"), remote: memAddr(name)}
	return cl, sv
}
