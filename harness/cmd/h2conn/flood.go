package main

import (
	"encoding/json"
	"fmt"
	"os"
	"sync/atomic"
	"time"

	"golang.org/x/net/http2"

	"verifharness/vh"
)

// C37: the client stops reading and floods the real server with frames that elicit control
// frames; after every burst the connection state and serverConn.queuedControlFrames are
// sampled (snapshot on the serve loop, which never blocks); finally the client resumes reading
// and counts what it still receives.

type floodBurst struct {
	K string `json:"k"` // PING | WU0 | DATAC | SETTINGS
	N int    `json:"n"`
}
type floodCase struct {
	ID     int          `json:"id"`
	Cap    int          `json:"cap"`
	GoAway bool         `json:"goaway"` // graceful GOAWAY(NO_ERROR) sent by the server before the flood
	Hist   int          `json:"hist"`   // PINGs exchanged (answer read) before the client stops reading
	Bursts []floodBurst `json:"bursts"`
}
type floodSample struct {
	K      string `json:"k"`
	N      int    `json:"n"`
	Queued int    `json:"queued"` // serverConn.queuedControlFrames; -1: connection already closed
	Real   int    `json:"real"`   // control frames really pending in the write scheduler
	Closed bool   `json:"closed"`
}
type floodObs struct {
	Limit    int           `json:"limit"`
	Samples  []floodSample `json:"samples"`
	Received int           `json:"received"` // control frames read after resuming
	Closed   bool          `json:"closed"`   // connection closed by the server at the end
	Hang     bool          `json:"hang"`
	Panic    string        `json:"panic"`
}

func (cr *caseRun) floodSettle() (queued, real int, closed, ok bool) {
	deadline := time.Now().Add(settleTimeout)
	okCount := 0
	for i := 0; ; i++ {
		q, snap, have := cr.quiescentOnce()
		if q {
			okCount++
			if okCount >= 2 {
				if cr.serverDone() {
					return -1, -1, true, true
				}
				if have {
					return snap.QueuedCtl, snap.ZeroQ, false, true
				}
			}
		} else {
			okCount = 0
		}
		if time.Now().After(deadline) {
			return 0, 0, cr.serverDone(), false
		}
		if i < 50 {
			time.Sleep(20 * time.Microsecond)
		} else {
			time.Sleep(time.Millisecond)
		}
	}
}

func runFlood(fc *floodCase) floodObs {
	c := &Case{ID: fc.ID, Cfg: Cfg{SW: 0, MaxS: 10, OSW: -1, MFS: -1, Cap: fc.Cap}}
	cr := newCaseRun(c)
	defer cr.release()
	o := floodObs{Samples: []floodSample{}}
	if !cr.start() {
		o.Hang = true
		return o
	}
	o.Limit = cr.vc.Limit()
	// prelude: stream 1 is opened and closed again (for DATA on a closed stream)
	cr.step(Step{A: "c", K: "HEADERS", S: 1, ES: true, Req: "get", CL: -1, IWS: -1, MFS: -1})
	cr.step(Step{A: "h", S: 1, Op: "ret"})
	if cr.hang {
		o.Hang = true
		return o
	}
	// the connection's past: ordinary PING exchanges, each answered and the answer read
	for i := 0; i < fc.Hist; i++ {
		cr.step(Step{A: "c", K: "PING", IWS: -1, MFS: -1, CL: -1})
		if cr.hang {
			o.Hang = true
			return o
		}
	}
	if fc.GoAway {
		// graceful shutdown notification: GOAWAY(NO_ERROR), the connection stays up
		cr.stepNo++
		cr.closeCh <- true
		if !cr.settle() {
			o.Hang = true
			return o
		}
		seen := false
		for _, e := range cr.evs {
			if e.Ev == "s" && e.K == "GOAWAY" {
				seen = true
			}
		}
		if !seen {
			o.Hang = true
			o.Panic = "harness: no GOAWAY after the shutdown notification"
			return o
		}
	}
	before := len(cr.evs)
	cr.stall = true
	var ping [8]byte
	for _, b := range fc.Bursts {
		for i := 0; i < b.N; i++ {
			var err error
			switch b.K {
			case "PING":
				err = cr.fr.WritePing(false, ping)
			case "WU0":
				err = cr.fr.WriteWindowUpdate(3, 0)
			case "DATAC":
				err = cr.fr.WriteData(1, false, []byte{0})
			case "SETTINGS":
				err = cr.fr.WriteSettings()
			default:
				err = fmt.Errorf("unknown flood kind %q", b.K)
			}
			if err != nil {
				break // connection closed by the server
			}
		}
		q, real, closed, ok := cr.floodSettle()
		if !ok {
			o.Hang = true
			return o
		}
		o.Samples = append(o.Samples, floodSample{K: b.K, N: b.N, Queued: q, Real: real, Closed: closed})
	}
	// resume reading
	cr.stall = false
	if _, _, _, ok := cr.floodSettle(); !ok {
		o.Hang = true
		return o
	}
	for _, e := range cr.evs[before:] {
		if e.Ev == "s" && (e.K == "PINGACK" || e.K == "RST" || e.K == "WU" || e.K == "SETACK") {
			o.Received++
		}
	}
	o.Closed = cr.serverDone()
	if v := cr.panicText.Load(); v != nil {
		o.Panic = v.(string)
	}
	return o
}

func cmdFlood() {
	var all []*floodCase
	vh.EachCase(func(line []byte) {
		c := &floodCase{}
		if err := json.Unmarshal(line, c); err != nil {
			fmt.Fprintln(os.Stderr, "bad case:", err)
			os.Exit(2)
		}
		all = append(all, c)
	})
	res := make([]map[string]interface{}, len(all))
	idx := int64(-1)
	done := make(chan bool)
	workers := 4
	for w := 0; w < workers; w++ {
		go func() {
			for {
				i := int(atomic.AddInt64(&idx, 1))
				if i >= len(all) {
					done <- true
					return
				}
				var o floodObs
				p := vh.Guard(func() { o = runFlood(all[i]) })
				if p != "" {
					o.Hang = true
					o.Panic = "harness: " + p
				}
				res[i] = map[string]interface{}{"id": all[i].ID, "obs": o}
			}
		}()
	}
	for w := 0; w < workers; w++ {
		<-done
	}
	for _, r := range res {
		vh.Emit(r)
	}
	vh.Emit(map[string]interface{}{"summary": true, "cases": len(all)})
}

var _ = http2.ClientPreface
