// Command h2conn binds specs/H2/Conn*.tla (C33, C34, C35, C37, C38) to the real bfe_http2
// server: one real serverConn per case on an in-memory connection, a scripted standard peer
// (golang.org/x/net/http2 Framer + hpack) and scripted handlers.
package main

import (
	"fmt"
	"os"

	"verifharness/vh"
)

func main() {
	if len(os.Args) < 2 {
		fmt.Fprintln(os.Stderr, "usage: h2conn <run|resp|flood>")
		os.Exit(2)
	}
	defer vh.Flush()
	switch os.Args[1] {
	case "run":
		cmdRun()
	case "resp":
		cmdResp()
	case "flood":
		cmdFlood()
	case "prio":
		cmdPrio()
	default:
		fmt.Fprintln(os.Stderr, "unknown subcommand", os.Args[1])
		vh.Flush()
		os.Exit(2)
	}
}
