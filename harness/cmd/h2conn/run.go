package main

import (
	"bytes"
	"encoding/json"
	"fmt"
	"io"
	"net"
	"os"
	"runtime"
	"strconv"
	"sync"
	"sync/atomic"
	"time"

	"golang.org/x/net/http2"
	"golang.org/x/net/http2/hpack"

	http "github.com/bfenetworks/bfe/bfe_http"
	"github.com/bfenetworks/bfe/bfe_http2"

	"verifharness/vh"
)

// ---------------------------------------------------------------- case format

// Cfg: per-case connection parameters (real octets).
type Cfg struct {
	SW     uint32 `json:"sw"`     // Server.MaxUploadBufferPerStream (advertised stream receive window); 0 = default 65535
	MaxS   uint32 `json:"maxs"`   // Server.MaxConcurrentStreams
	OSW    int64  `json:"osw"`    // client's SETTINGS_INITIAL_WINDOW_SIZE sent with the preface; -1 = not sent (65535)
	MFS    int64  `json:"mfs"`    // client's SETTINGS_MAX_FRAME_SIZE sent with the preface; -1 = not sent (16384)
	OCWAdd uint32 `json:"ocwadd"` // WINDOW_UPDATE(0, ocwadd) sent with the preface; 0 = none
	Cap    int    `json:"cap"`    // capacity of the server->client direction (0 unbounded)
}

// Step: one stimulus (client frame "c" or handler command "h").
type Step struct {
	A    string `json:"a"`
	K    string `json:"k"`
	S    uint32 `json:"s"`
	N    int    `json:"n"` // DATA: total flow-controlled length; handler: byte count
	P    int    `json:"p"` // DATA: octets of padding incl. the pad-length octet (0 = not padded)
	ES   bool   `json:"es"`
	Inc  int64  `json:"inc"`
	Code uint32 `json:"code"`
	IWS  int64  `json:"iws"`
	MFS  int64  `json:"mfs"`
	Req  string `json:"req"`
	CL   int64  `json:"cl"`
	NEH  bool   `json:"neh"` // HEADERS without END_HEADERS
	Dep  uint32 `json:"dep"`
	Op   string `json:"op"`
}

type Case struct {
	ID    int             `json:"id"`
	Cfg   Cfg             `json:"cfg"`
	Steps []Step          `json:"steps"`
	Resp  json.RawMessage `json:"resp,omitempty"` // C38 script (resp.go)
}

// Ev is one trace event.  Every field is always present so that the TLA+ trace modules can
// access them without DOMAIN tests.
type Ev struct {
	Cid   int    `json:"cid"`
	Ev    string `json:"ev"` // init | c | hc | s | h | q | end
	K     string `json:"k"`
	S     int    `json:"s"`
	N     int    `json:"n"`
	P     int    `json:"p"`
	ES    bool   `json:"es"`
	Inc   int64  `json:"inc"`
	Code  int    `json:"code"`
	IWS   int64  `json:"iws"`
	MFS   int64  `json:"mfs"`
	Req   string `json:"req"`
	CL    int64  `json:"cl"`
	Op    string `json:"op"`
	Res   string `json:"res"`
	First int    `json:"first"`
	Ord   bool   `json:"ord"`
	Runs  []Run  `json:"runs"`
	// q / init
	Closed bool `json:"closed"`
	Panics int  `json:"panics"`
	Hang   bool `json:"hang"`
	Step   int  `json:"step"`
}

// Run: a maximal run of equal octets observed by a handler Read (tag of the DATA frame, count).
type Run struct {
	T int `json:"t"`
	N int `json:"n"`
}

// MObs: Layer-M diagnostics at a quiescent point (never fed to the Layer-P validation).
type MObs struct {
	M       bool              `json:"m"`
	Cid     int               `json:"cid"`
	Step    int               `json:"step"`
	Done    bool              `json:"done"`
	InC     int32             `json:"inC"`
	OutC    int32             `json:"outC"`
	MaxSid  uint32            `json:"maxSid"`
	Queued  int               `json:"queued"`
	Streams map[string]MObsSt `json:"streams"`
}
type MObsSt struct {
	State string `json:"st"`
	In    int32  `json:"in"`
	Out   int32  `json:"out"`
	Buf   int    `json:"buf"`
	QLen  int    `json:"q"`
}

// ---------------------------------------------------------------- handlers

const (
	hIdle = iota
	hRead
	hWrite
	hReturned
)

type hcmd struct {
	op string
	n  int
}

type hstate struct {
	cr   *caseRun
	s    uint32
	cmds chan hcmd
	busy int32 // atomic: hIdle..hReturned
	w    http.ResponseWriter
	r    *http.Request
	woff int
	got  int64 // request body octets reported by completed Reads (guarded by cr.hmu)
}

// done records the completion event of a handler command and marks the handler idle in ONE
// critical section with the quiescence check (which holds cr.hmu): the driver sees either the
// command still running or its event.
func (h *hstate) done(e Ev, read int) {
	h.cr.hmu.Lock()
	h.cr.hevs = append(h.cr.hevs, e)
	h.got += int64(read)
	atomic.StoreInt32(&h.busy, hIdle)
	h.cr.hmu.Unlock()
}

func pat(i int) byte { return byte(i % 251) }

type theHandler struct{}

var (
	casesMu sync.Mutex
	cases   = map[string]*caseRun{}
)

func (theHandler) ServeHTTP(w http.ResponseWriter, r *http.Request) {
	casesMu.Lock()
	cr := cases[r.RemoteAddr]
	casesMu.Unlock()
	if cr == nil {
		return
	}
	if cr.resp != nil {
		cr.resp.serve(w, r)
		return
	}
	sid := uint32(r.State.SerialNumber-1)*2 + 1
	h := &hstate{cr: cr, s: sid, cmds: make(chan hcmd, 64), w: w, r: r}
	_, _, hasBody := bfe_http2.VerifH2connBodyState(r.Body)
	cr.hmu.Lock()
	cr.handlers[sid] = h
	cr.hevs = append(cr.hevs, Ev{Ev: "h", S: int(sid), Op: "start", Req: r.Method, ES: !hasBody, CL: r.ContentLength})
	cr.hmu.Unlock()
	buf := []byte(nil)
	for c := range h.cmds {
		switch c.op {
		case "read":
			if len(buf) < c.n {
				buf = make([]byte, c.n)
			}
			atomic.StoreInt32(&h.busy, hRead)
			n, err := r.Body.Read(buf[:c.n])
			res := "ok"
			if err == io.EOF {
				res = "eof"
			} else if err != nil {
				res = "err"
			}
			h.done(Ev{Ev: "h", S: int(sid), Op: "read", N: n, Res: res, Runs: runsOf(buf[:n])}, n)
		case "write":
			atomic.StoreInt32(&h.busy, hWrite)
			data := make([]byte, c.n)
			for i := range data {
				data[i] = pat(h.woff + i)
			}
			n, err := w.Write(data)
			h.woff += n
			if f, ok := w.(http.Flusher); ok {
				f.Flush()
			}
			res := "ok"
			if err != nil {
				res = "err"
			}
			h.done(Ev{Ev: "h", S: int(sid), Op: "write", N: n, Res: res}, 0)
		case "hdr":
			atomic.StoreInt32(&h.busy, hWrite)
			w.WriteHeader(200)
			if f, ok := w.(http.Flusher); ok {
				f.Flush()
			}
			h.done(Ev{Ev: "h", S: int(sid), Op: "hdr", Res: "ok"}, 0)
		case "closebody":
			atomic.StoreInt32(&h.busy, hWrite)
			r.Body.Close()
			h.done(Ev{Ev: "h", S: int(sid), Op: "closebody", Res: "ok"}, 0)
		case "wret":
			// write without flushing and return: the response's last DATA frame carries END_STREAM
			atomic.StoreInt32(&h.busy, hReturned)
			data := make([]byte, c.n)
			for i := range data {
				data[i] = pat(h.woff + i)
			}
			n, _ := w.Write(data)
			h.woff += n
			cr.hev(Ev{Ev: "h", S: int(sid), Op: "wret", N: n, Res: "ok"})
			return
		case "ret":
			atomic.StoreInt32(&h.busy, hReturned)
			cr.hev(Ev{Ev: "h", S: int(sid), Op: "ret", Res: "ok"})
			return
		}
	}
	atomic.StoreInt32(&h.busy, hReturned)
}

func runsOf(b []byte) []Run {
	out := []Run{}
	for _, x := range b {
		if len(out) > 0 && out[len(out)-1].T == int(x) {
			out[len(out)-1].N++
		} else {
			out = append(out, Run{int(x), 1})
		}
	}
	return out
}

// ---------------------------------------------------------------- one case

type caseRun struct {
	c       *Case
	name    string
	cl, sv  *endpoint
	fr      *http2.Framer
	enc     *hpack.Encoder
	encBuf  bytes.Buffer
	dec     *hpack.Decoder
	vc      *bfe_http2.VerifH2connConn
	vcCh    chan *bfe_http2.VerifH2connConn
	served  chan struct{} // closed when ServeConn has returned (after notePanic ran)
	closeCh chan bool     // BaseConfig.CloseNotifyCh: graceful shutdown notification

	hmu      sync.Mutex
	handlers map[uint32]*hstate
	hevs     []Ev // handler events not yet merged into the trace

	evs       []Ev
	mobs      []MObs
	panics    int32
	panicText atomic.Value
	goAwayErr bool
	sawEOF    bool
	dataTag   int
	rcvd      map[uint32]int // response body octets received per stream
	hdrFrag   []byte
	hdrSID    uint32
	hdrES     bool
	lastLoop  int
	stepNo    int
	hang      bool
	resp      *respRun
	stall     bool // C37: the client does not read
	pingSeq   uint64
}

func (cr *caseRun) hev(e Ev) {
	cr.hmu.Lock()
	cr.hevs = append(cr.hevs, e)
	cr.hmu.Unlock()
}

func (cr *caseRun) emit(e Ev) {
	e.Cid = cr.c.ID
	e.Step = cr.stepNo
	if e.Runs == nil {
		e.Runs = []Run{}
	}
	cr.evs = append(cr.evs, e)
}

var installOnce sync.Once

func install() {
	installOnce.Do(func() {
		bfe_http2.VerifH2connInstall(
			func(c net.Conn, vc *bfe_http2.VerifH2connConn) {
				casesMu.Lock()
				cr := cases[c.RemoteAddr().String()]
				casesMu.Unlock()
				if cr != nil {
					cr.vcCh <- vc
				}
			},
			func(c net.Conn, v interface{}) {
				casesMu.Lock()
				cr := cases[c.RemoteAddr().String()]
				casesMu.Unlock()
				if cr != nil {
					atomic.AddInt32(&cr.panics, 1)
					cr.panicText.Store(fmt.Sprint(v))
				}
			})
	})
}

var caseSeq int64

func newCaseRun(c *Case) *caseRun {
	install()
	cr := &caseRun{c: c, handlers: map[uint32]*hstate{}, rcvd: map[uint32]int{}, vcCh: make(chan *bfe_http2.VerifH2connConn, 1), lastLoop: -1}
	cr.name = "case-" + strconv.FormatInt(atomic.AddInt64(&caseSeq, 1), 10)
	cr.cl, cr.sv = newMemPair(cr.name, c.Cfg.Cap)
	cr.fr = http2.NewFramer(cr.cl, cr.cl)
	cr.fr.AllowIllegalWrites = true
	cr.fr.AllowIllegalReads = true
	cr.fr.SetMaxReadFrameSize(1 << 24)
	cr.enc = hpack.NewEncoder(&cr.encBuf)
	cr.dec = hpack.NewDecoder(4096, nil)
	casesMu.Lock()
	cases[cr.name] = cr
	casesMu.Unlock()
	return cr
}

func (cr *caseRun) release() {
	cr.hmu.Lock()
	for _, h := range cr.handlers {
		close(h.cmds)
	}
	cr.hmu.Unlock()
	cr.cl.Close()
	if cr.served != nil {
		select {
		case <-cr.served:
		case <-time.After(20 * time.Second):
		}
	}
	casesMu.Lock()
	delete(cases, cr.name)
	casesMu.Unlock()
}

var settleTimeout = 30 * time.Second

// start performs the connection preface and waits for the first quiescent point.
func (cr *caseRun) start() bool {
	cfg := cr.c.Cfg
	srv := &bfe_http2.Server{MaxConcurrentStreams: cfg.MaxS, MaxUploadBufferPerStream: cfg.SW}
	cr.closeCh = make(chan bool, 1)
	base := &http.Server{ReadTimeout: time.Hour, GracefulShutdownTimeout: time.Hour, CloseNotifyCh: cr.closeCh}
	// preface + SETTINGS are in the buffer before the server starts (firstSettingsTimeout)
	cr.cl.Write([]byte(http2.ClientPreface))
	var ss []http2.Setting
	if cfg.OSW >= 0 {
		ss = append(ss, http2.Setting{ID: http2.SettingInitialWindowSize, Val: uint32(cfg.OSW)})
	}
	if cfg.MFS >= 0 {
		ss = append(ss, http2.Setting{ID: http2.SettingMaxFrameSize, Val: uint32(cfg.MFS)})
	}
	cr.fr.WriteSettings(ss...)
	if cfg.OCWAdd > 0 {
		cr.fr.WriteWindowUpdate(0, cfg.OCWAdd)
	}
	cr.fr.WriteSettingsAck() // acknowledges the server's first SETTINGS (sent unconditionally)
	cr.served = make(chan struct{})
	go func() {
		defer close(cr.served)
		srv.ServeConn(cr.sv, &bfe_http2.ServeConnOpts{BaseConfig: base, Handler: theHandler{}})
	}()
	select {
	case cr.vc = <-cr.vcCh:
	case <-time.After(settleTimeout):
		return false
	}
	ok := cr.settle()
	// the handshake frames are not part of the trace
	sw := int64(cfg.SW)
	if sw == 0 {
		sw = 65535
	}
	osw, mfs := cfg.OSW, cfg.MFS
	if osw < 0 {
		osw = 65535
	}
	if mfs < 0 {
		mfs = 16384
	}
	cr.evs = cr.evs[:0]
	cr.mobs = cr.mobs[:0]
	cr.emit(Ev{Ev: "init", N: 65535, P: int(sw), Inc: 65535 + int64(cfg.OCWAdd), IWS: osw, MFS: mfs, Code: int(cfg.MaxS)})
	return ok
}

func (cr *caseRun) serverDone() bool {
	if cr.served == nil {
		return false
	}
	select {
	case <-cr.served:
		return true
	default:
		return false
	}
}

// drainFrames parses every complete frame buffered in the server->client direction.
func (cr *caseRun) drainFrames() {
	if cr.stall {
		return
	}
	var hdr [9]byte
	for {
		n, _, wwait, closed := cr.cl.r.state()
		if n < 9 {
			if closed {
				// the server closed the connection; a truncated frame at the very end
				// (its writer was interrupted) is dropped
				cr.cl.r.discard()
				cr.sawEOF = true
			}
			return
		}
		cr.cl.r.peek(hdr[:])
		l := int(hdr[0])<<16 | int(hdr[1])<<8 | int(hdr[2])
		if n < 9+l {
			if closed {
				cr.cl.r.discard()
				cr.sawEOF = true
				return
			}
			if wwait == 0 {
				return
			}
			// bounded transport: the server's writer is blocked in the middle of this frame;
			// reading it (blocking) is what lets the writer go on
		}
		f, err := cr.fr.ReadFrame()
		if err != nil {
			cr.emit(Ev{Ev: "s", K: "UNPARSABLE", Res: err.Error()})
			continue
		}
		cr.onFrame(f)
	}
}

func (cr *caseRun) onFrame(f http2.Frame) {
	fh := f.Header()
	e := Ev{Ev: "s", S: int(fh.StreamID), N: int(fh.Length)}
	switch f := f.(type) {
	case *http2.DataFrame:
		e.K = "DATA"
		d := f.Data()
		e.N = int(fh.Length)
		e.P = int(fh.Length) - len(d)
		e.ES = f.StreamEnded()
		e.Ord = true
		off := cr.rcvd[fh.StreamID]
		if len(d) > 0 {
			e.First = int(d[0])
		} else {
			e.First = int(pat(off))
		}
		for i, b := range d {
			if b != pat(off+i) {
				e.Ord = false
				break
			}
		}
		cr.rcvd[fh.StreamID] = off + len(d)
		if cr.resp != nil {
			cr.resp.onData(fh.StreamID, d, f.StreamEnded())
		}
	case *http2.HeadersFrame:
		cr.hdrFrag = append(cr.hdrFrag[:0], f.HeaderBlockFragment()...)
		cr.hdrSID = fh.StreamID
		cr.hdrES = f.StreamEnded()
		if !f.HeadersEnded() {
			return
		}
		cr.headersDone()
		return
	case *http2.ContinuationFrame:
		cr.hdrFrag = append(cr.hdrFrag, f.HeaderBlockFragment()...)
		if !f.HeadersEnded() {
			return
		}
		cr.headersDone()
		return
	case *http2.RSTStreamFrame:
		e.K = "RST"
		e.Code = int(f.ErrCode)
		if cr.resp != nil {
			cr.resp.onRst(fh.StreamID, uint32(f.ErrCode))
		}
	case *http2.WindowUpdateFrame:
		e.K = "WU"
		e.Inc = int64(f.Increment)
	case *http2.SettingsFrame:
		if f.IsAck() {
			e.K = "SETACK"
		} else {
			e.K = "SETTINGS"
		}
	case *http2.PingFrame:
		if f.IsAck() {
			e.K = "PINGACK"
		} else {
			e.K = "PING"
		}
		e.Inc = int64(uint64(f.Data[0])<<56 | uint64(f.Data[1])<<48 | uint64(f.Data[2])<<40 | uint64(f.Data[3])<<32 |
			uint64(f.Data[4])<<24 | uint64(f.Data[5])<<16 | uint64(f.Data[6])<<8 | uint64(f.Data[7]))
	case *http2.GoAwayFrame:
		e.K = "GOAWAY"
		e.Code = int(f.ErrCode)
		e.S = int(f.LastStreamID)
		if f.ErrCode != 0 {
			cr.goAwayErr = true
		}
	case *http2.PushPromiseFrame:
		e.K = "PUSH"
	default:
		e.K = "OTHER"
	}
	cr.emit(e)
}

func (cr *caseRun) headersDone() {
	e := Ev{Ev: "s", K: "HEADERS", S: int(cr.hdrSID), ES: cr.hdrES}
	fields, err := cr.dec.DecodeFull(cr.hdrFrag)
	if err != nil {
		e.Res = "hpack:" + err.Error()
	}
	for _, hf := range fields {
		if hf.Name == ":status" {
			e.Code, _ = strconv.Atoi(hf.Value)
		}
	}
	if cr.resp != nil {
		cr.resp.onHeaders(cr.hdrSID, fields, cr.hdrES, err)
	}
	cr.emit(e)
}

func (cr *caseRun) drainHandlerEvents() {
	cr.hmu.Lock()
	evs := cr.hevs
	cr.hevs = nil
	cr.hmu.Unlock()
	for _, e := range evs {
		cr.emit(e)
	}
}

// quiescentOnce evaluates the quiescence predicate once (see docs/h2conn.md):
// the server has consumed every octet the client wrote and its reader is blocked waiting
// for more; the serve loop is not writing and has nothing it could write; every handler is
// idle or blocked on something only a new stimulus can provide; the client has parsed every
// octet the server wrote.
func (cr *caseRun) quiescentOnce() (q bool, snap bfe_http2.VerifH2connSnap, haveSnap bool) {
	cr.drainFrames()
	cr.drainHandlerEvents()
	done := cr.serverDone()
	n, rwait, _, _ := cr.sv.r.state()
	if !done {
		if cr.goAwayErr {
			return false, snap, false // the server is about to close the connection
		}
		if n != 0 || rwait == 0 {
			return false, snap, false
		}
		var ok bool
		snap, ok = cr.vc.Snapshot()
		if !ok {
			return false, snap, false
		}
		haveSnap = true
		stable := snap.Loop == cr.lastLoop+1
		cr.lastLoop = snap.Loop
		if snap.InGoAway && snap.GoAwayCode != 0 {
			return false, snap, true
		}
		writerIdle := !snap.Writing && !snap.NeedFlush
		if cr.stall {
			_, _, wwait, _ := cr.cl.r.state()
			writerIdle = writerIdle || (snap.Writing && wwait > 0)
		}
		if !stable || !writerIdle {
			return false, snap, true
		}
	}
	cr.hmu.Lock()
	defer cr.hmu.Unlock()
	for sid, h := range cr.handlers {
		st, live := snap.Streams[sid]
		blockedW := live && st.QLen > 0 && (!snap.Writing || cr.stall)
		switch atomic.LoadInt32(&h.busy) {
		case hIdle:
		case hRead:
			// blocked in Read for good only if the pipe is open and empty AND every octet that
			// ever left the pipe has been reported by a completed Read (a Read that has
			// returned but not reported yet looks the same otherwise)
			bn, bdone, hasBody := bfe_http2.VerifH2connBodyState(h.r.Body)
			if !hasBody || bn > 0 || bdone || !live || st.BodyBytes-int64(st.BodyLen) != h.got {
				return false, snap, haveSnap
			}
		case hWrite:
			if done || !blockedW {
				return false, snap, haveSnap
			}
		case hReturned:
			if !done && live && !blockedW {
				return false, snap, haveSnap
			}
		}
	}
	if !done {
		for sid, st := range snap.Streams {
			if _, ok := cr.handlers[sid]; !ok {
				// handler goroutine not started yet, or the server's own 400 handler is running
				if !(st.QLen > 0 && !snap.Writing) {
					return false, snap, haveSnap
				}
			}
		}
	}
	if len(cr.hevs) > 0 {
		return false, snap, haveSnap
	}
	if !cr.stall {
		if n, _, _, _ := cr.cl.r.state(); n != 0 {
			return false, snap, haveSnap
		}
	}
	return true, snap, haveSnap
}

// settle waits for two consecutive positive evaluations of the quiescence predicate and
// appends the "q" event.  A timeout is reported as hang (never decided here).
func (cr *caseRun) settle() bool {
	deadline := time.Now().Add(settleTimeout)
	okCount := 0
	var snap bfe_http2.VerifH2connSnap
	var have bool
	for i := 0; ; i++ {
		q, s, h := cr.quiescentOnce()
		if q {
			okCount++
			snap, have = s, h
			if okCount >= 2 {
				break
			}
		} else {
			okCount = 0
		}
		if time.Now().After(deadline) {
			cr.hang = true
			cr.emit(Ev{Ev: "q", Hang: true, Closed: cr.serverDone(), Panics: int(atomic.LoadInt32(&cr.panics))})
			return false
		}
		if i < 20 {
			runtime.Gosched()
		} else if i < 200 {
			time.Sleep(50 * time.Microsecond)
		} else {
			time.Sleep(time.Millisecond)
		}
	}
	done := cr.serverDone()
	cr.emit(Ev{Ev: "q", Closed: done, Panics: int(atomic.LoadInt32(&cr.panics))})
	m := MObs{M: true, Cid: cr.c.ID, Step: cr.stepNo, Done: done, Streams: map[string]MObsSt{}}
	if have && !done {
		m.InC, m.OutC, m.MaxSid, m.Queued = snap.Inflow, snap.Flow, snap.MaxStreamID, snap.QueuedCtl
		for id, st := range snap.Streams {
			m.Streams[strconv.Itoa(int(id))] = MObsSt{State: st.State, In: st.Inflow, Out: st.Flow, Buf: st.BodyLen, QLen: st.QLen}
		}
	}
	cr.mobs = append(cr.mobs, m)
	return true
}

var reqFields = map[string][][2]string{
	"get":            {{":method", "GET"}, {":scheme", "https"}, {":path", "/"}, {":authority", "h2conn.test"}},
	"post":           {{":method", "POST"}, {":scheme", "https"}, {":path", "/"}, {":authority", "h2conn.test"}},
	"head":           {{":method", "HEAD"}, {":scheme", "https"}, {":path", "/"}, {":authority", "h2conn.test"}},
	"nomethod":       {{":scheme", "https"}, {":path", "/"}, {":authority", "h2conn.test"}},
	"nopath":         {{":method", "GET"}, {":scheme", "https"}, {":authority", "h2conn.test"}},
	"emptypath":      {{":method", "GET"}, {":scheme", "https"}, {":path", ""}, {":authority", "h2conn.test"}},
	"noscheme":       {{":method", "GET"}, {":path", "/"}, {":authority", "h2conn.test"}},
	"duppath":        {{":method", "GET"}, {":scheme", "https"}, {":path", "/"}, {":path", "/b"}, {":authority", "h2conn.test"}},
	"badpseudo":      {{":method", "GET"}, {":scheme", "https"}, {":path", "/"}, {":foo", "bar"}},
	"resppseudo":     {{":method", "GET"}, {":scheme", "https"}, {":path", "/"}, {":status", "200"}},
	"upper":          {{":method", "GET"}, {":scheme", "https"}, {":path", "/"}, {"X-Upper", "1"}},
	"connhdr":        {{":method", "GET"}, {":scheme", "https"}, {":path", "/"}, {"connection", "close"}},
	"te":             {{":method", "GET"}, {":scheme", "https"}, {":path", "/"}, {"te", "gzip"}},
	"tetrailers":     {{":method", "GET"}, {":scheme", "https"}, {":path", "/"}, {"te", "trailers"}},
	"pseudoafter":    {{":method", "GET"}, {":scheme", "https"}, {"x-a", "1"}, {":path", "/"}},
	"trailers":       {{"x-trailer", "1"}},
	"trailerspseudo": {{":path", "/"}},
	"trailersupper":  {{"X-Trailer", "1"}},
}

func (cr *caseRun) sendClient(st Step) error {
	fr := cr.fr
	switch st.K {
	case "HEADERS":
		fields, ok := reqFields[st.Req]
		if !ok {
			return fmt.Errorf("unknown request class %q", st.Req)
		}
		cr.encBuf.Reset()
		for _, f := range fields {
			cr.enc.WriteField(hpack.HeaderField{Name: f[0], Value: f[1]})
		}
		if st.CL >= 0 {
			cr.enc.WriteField(hpack.HeaderField{Name: "content-length", Value: strconv.FormatInt(st.CL, 10)})
		}
		return fr.WriteHeaders(http2.HeadersFrameParam{StreamID: st.S, BlockFragment: cr.encBuf.Bytes(), EndStream: st.ES, EndHeaders: !st.NEH})
	case "CONT":
		return fr.WriteContinuation(st.S, true, nil)
	case "DATA":
		cr.dataTag++
		tag := byte(cr.dataTag%250 + 1)
		if st.P > 0 {
			if st.P > 256 || st.P > st.N {
				return fmt.Errorf("bad padding %d for length %d", st.P, st.N)
			}
			return fr.WriteDataPadded(st.S, st.ES, bytes.Repeat([]byte{tag}, st.N-st.P), make([]byte, st.P-1))
		}
		return fr.WriteData(st.S, st.ES, bytes.Repeat([]byte{tag}, st.N))
	case "RST":
		return fr.WriteRSTStream(st.S, http2.ErrCode(st.Code))
	case "WU":
		return fr.WriteWindowUpdate(st.S, uint32(st.Inc))
	case "SETTINGS":
		var ss []http2.Setting
		if st.IWS >= 0 {
			ss = append(ss, http2.Setting{ID: http2.SettingInitialWindowSize, Val: uint32(st.IWS)})
		}
		if st.MFS >= 0 {
			ss = append(ss, http2.Setting{ID: http2.SettingMaxFrameSize, Val: uint32(st.MFS)})
		}
		return fr.WriteSettings(ss...)
	case "SETACK":
		return fr.WriteSettingsAck()
	case "PING", "PINGACK":
		cr.pingSeq++
		var d [8]byte
		for i := 0; i < 8; i++ {
			d[i] = byte(cr.pingSeq >> uint(56-8*i))
		}
		if err := fr.WritePing(st.K == "PINGACK", d); err != nil {
			return err
		}
		return nil
	case "PRIORITY":
		return fr.WritePriority(st.S, http2.PriorityParam{StreamDep: st.Dep, Weight: 15})
	case "PUSH":
		return fr.WritePushPromise(http2.PushPromiseParam{StreamID: st.S, PromiseID: 2, BlockFragment: []byte{0x82}, EndHeaders: true})
	case "UNKNOWN":
		return fr.WriteRawFrame(http2.FrameType(0xfa), 0, st.S, []byte{1, 2, 3})
	}
	return fmt.Errorf("unknown client frame kind %q", st.K)
}

func (cr *caseRun) step(st Step) {
	cr.stepNo++
	switch st.A {
	case "c":
		e := Ev{Ev: "c", K: st.K, S: int(st.S), N: st.N, P: st.P, ES: st.ES, Inc: st.Inc, Code: int(st.Code), IWS: st.IWS, MFS: st.MFS, Req: st.Req, CL: st.CL}
		if e.IWS > 2147483647 {
			e.IWS = -2 // not representable in TLC; ConnP reads -2 as "above 2^31-1"
		}
		if st.K == "PING" || st.K == "PINGACK" {
			e.Inc = int64(cr.pingSeq + 1)
		}
		if st.NEH {
			e.Op = "neh"
		}
		if st.K == "DATA" {
			e.First = (cr.dataTag+1)%250 + 1
		}
		cr.emit(e)
		if err := cr.sendClient(st); err != nil {
			// the server already closed the connection: the write is lost
			cr.emit(Ev{Ev: "c", K: "LOST", Res: err.Error()})
		}
	case "race":
		cr.race(st)
	case "wrace":
		cr.wrace(st)
	case "h":
		cr.hmu.Lock()
		h := cr.handlers[st.S]
		cr.hmu.Unlock()
		if h == nil || atomic.LoadInt32(&h.busy) != hIdle {
			// Layer-M drift: the model expected an idle handler here.  Not an event.
			cr.mobs = append(cr.mobs, MObs{M: true, Cid: cr.c.ID, Step: -cr.stepNo})
			return
		}
		cr.emit(Ev{Ev: "hc", S: int(st.S), Op: st.Op, N: st.N})
		if st.Op == "ret" {
			atomic.StoreInt32(&h.busy, hReturned)
		} else if st.Op == "read" {
			atomic.StoreInt32(&h.busy, hRead)
		} else {
			atomic.StoreInt32(&h.busy, hWrite)
		}
		h.cmds <- hcmd{st.Op, st.N}
	}
	cr.settle()
}

// race: a handler Read and a client RST_STREAM for the same stream reach the serve loop at the
// same time.  The loop is parked (Hold), the handler takes its octets out of the body pipe and
// blocks handing the body-read note to the loop, the RST_STREAM frame is read by the frame
// reader and blocks on readFrameCh; then the loop is released and its select decides the order.
func (cr *caseRun) race(st Step) {
	cr.hmu.Lock()
	h := cr.handlers[st.S]
	cr.hmu.Unlock()
	if h == nil || atomic.LoadInt32(&h.busy) != hIdle {
		cr.mobs = append(cr.mobs, MObs{M: true, Cid: cr.c.ID, Step: -cr.stepNo})
		return
	}
	before, _, hasBody := bfe_http2.VerifH2connBodyState(h.r.Body)
	release, held := cr.vc.Hold()
	cr.emit(Ev{Ev: "hc", S: int(st.S), Op: "read", N: st.N})
	atomic.StoreInt32(&h.busy, hRead)
	h.cmds <- hcmd{"read", st.N}
	if held && hasBody && before > 0 {
		want := before - st.N
		if want < 0 {
			want = 0
		}
		deadline := time.Now().Add(settleTimeout)
		for {
			n, _, _ := bfe_http2.VerifH2connBodyState(h.r.Body)
			if n <= want || time.Now().After(deadline) {
				break
			}
			time.Sleep(20 * time.Microsecond)
		}
	}
	cr.emit(Ev{Ev: "c", K: "RST", S: int(st.S), Code: int(st.Code), IWS: -1, MFS: -1, CL: -1})
	if err := cr.fr.WriteRSTStream(st.S, http2.ErrCode(st.Code)); err != nil {
		cr.emit(Ev{Ev: "c", K: "LOST", Res: err.Error()})
	} else if held {
		deadline := time.Now().Add(settleTimeout)
		for {
			if n, _, _, _ := cr.sv.r.state(); n == 0 || time.Now().After(deadline) {
				break
			}
			time.Sleep(20 * time.Microsecond)
		}
		time.Sleep(200 * time.Microsecond) // let the reader reach its send on readFrameCh
	}
	release()
}

// wrace: the client's RST_STREAM is processed while the server's last frame of that stream
// (DATA with END_STREAM) is in flight in the writer goroutine.  The client stops reading (the
// transport of such cases is bounded), the handler writes n octets unflushed and returns, the
// final DATA frame blocks in the writer; the RST_STREAM is sent and processed; the client reads
// again and the write completes.
func (cr *caseRun) wrace(st Step) {
	cr.hmu.Lock()
	h := cr.handlers[st.S]
	cr.hmu.Unlock()
	if h == nil || atomic.LoadInt32(&h.busy) != hIdle {
		cr.mobs = append(cr.mobs, MObs{M: true, Cid: cr.c.ID, Step: -cr.stepNo})
		return
	}
	cr.stall = true
	cr.emit(Ev{Ev: "hc", S: int(st.S), Op: "wret", N: st.N})
	atomic.StoreInt32(&h.busy, hReturned)
	h.cmds <- hcmd{"wret", st.N}
	deadline := time.Now().Add(settleTimeout)
	for {
		if _, _, wwait, _ := cr.cl.r.state(); wwait > 0 || time.Now().After(deadline) || cr.serverDone() {
			break
		}
		time.Sleep(20 * time.Microsecond)
	}
	cr.emit(Ev{Ev: "c", K: "RST", S: int(st.S), Code: int(st.Code), Op: "inflight", IWS: -1, MFS: -1, CL: -1})
	if err := cr.fr.WriteRSTStream(st.S, http2.ErrCode(st.Code)); err != nil {
		cr.emit(Ev{Ev: "c", K: "LOST", Res: err.Error()})
	} else {
		for {
			if n, rwait, _, _ := cr.sv.r.state(); (n == 0 && rwait > 0) || time.Now().After(deadline) || cr.serverDone() {
				break
			}
			time.Sleep(20 * time.Microsecond)
		}
	}
	cr.stall = false
}

func runCase(c *Case) (evs []Ev, mobs []MObs, panicText string) {
	cr := newCaseRun(c)
	defer cr.release()
	if !cr.start() {
		cr.emit(Ev{Ev: "q", Hang: true})
		cr.emit(Ev{Ev: "end"})
		return cr.evs, cr.mobs, ""
	}
	cr.emit(Ev{Ev: "q", Closed: cr.serverDone(), Panics: int(atomic.LoadInt32(&cr.panics))})
	for _, st := range c.Steps {
		if cr.hang {
			break
		}
		cr.step(st)
	}
	cr.emit(Ev{Ev: "end"})
	if v := cr.panicText.Load(); v != nil {
		panicText = v.(string)
	}
	return cr.evs, cr.mobs, panicText
}

// ---------------------------------------------------------------- subcommand run

func cmdRun() {
	var all []*Case
	vh.EachCase(func(line []byte) {
		c := &Case{}
		if err := json.Unmarshal(line, c); err != nil {
			fmt.Fprintln(os.Stderr, "bad case:", err)
			os.Exit(2)
		}
		all = append(all, c)
	})
	type out struct {
		evs   []Ev
		mobs  []MObs
		ptext string
	}
	res := make([]out, len(all))
	workers := runtime.NumCPU() * 2
	if workers > 16 {
		workers = 16
	}
	if s := os.Getenv("H2CONN_WORKERS"); s != "" {
		workers, _ = strconv.Atoi(s)
	}
	var wg sync.WaitGroup
	idx := int64(-1)
	for w := 0; w < workers; w++ {
		wg.Add(1)
		go func() {
			defer wg.Done()
			for {
				i := int(atomic.AddInt64(&idx, 1))
				if i >= len(all) {
					return
				}
				var o out
				p := vh.Guard(func() { o.evs, o.mobs, o.ptext = runCase(all[i]) })
				if p != "" {
					o.evs = append(o.evs, Ev{Cid: all[i].ID, Ev: "q", Hang: true, Res: "harness panic: " + p, Runs: []Run{}}, Ev{Cid: all[i].ID, Ev: "end", Runs: []Run{}})
				}
				res[i] = o
			}
		}()
	}
	wg.Wait()
	nev := 0
	for i, o := range res {
		for _, e := range o.evs {
			vh.Emit(e)
			nev++
		}
		for _, m := range o.mobs {
			vh.Emit(m)
		}
		if o.ptext != "" {
			vh.Emit(map[string]interface{}{"panic": true, "cid": all[i].ID, "text": o.ptext})
		}
	}
	vh.Emit(map[string]interface{}{"summary": true, "cases": len(all), "events": nev})
}
