package main

import (
	"github.com/bfenetworks/bfe/bfe_basic/condition/parser"

	"verifharness/vh"
)

func protosRun() {
	vh.Emit(map[string]interface{}{"protos": parser.VerifFuncProtos()})
}
