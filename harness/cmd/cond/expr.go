package main

import (
	"encoding/json"
	"fmt"
	"strings"

	"verifharness/vh"
)

// C16: a case is a token string over p1..p3 ! && || ( ) with the truth table dictated by
// the spec (entry k = assignment k, bit j-1 of k = truth of pj).
type exprCase struct {
	ID   int      `json:"id"`
	Toks []string `json:"toks"`
	TT   []bool   `json:"tt"`
}

// A rendering set: three primitives whose truth is controlled independently through the request.
type primRender struct {
	text string
	set  func(r *ReqSpec, v bool)
}

var renderSets = [][]primRender{
	{
		{`req_method_in("GET")`, func(r *ReqSpec, v bool) { r.Method = map[bool]string{true: "GET", false: "POST"}[v] }},
		{`req_path_prefix_in("/p2", false)`, func(r *ReqSpec, v bool) { r.Path = map[bool]string{true: "/p2/x", false: "/zz"}[v] }},
		{`req_header_key_in("X-P3")`, func(r *ReqSpec, v bool) {
			if v {
				r.Headers = append(r.Headers, []string{"X-P3", "1"})
			}
		}},
	},
	{
		{`req_host_in("t.example")`, func(r *ReqSpec, v bool) { r.Host = map[bool]string{true: "t.example", false: "f.example"}[v] }},
		{`req_query_key_in("k2")`, func(r *ReqSpec, v bool) {
			if v {
				r.Query = append(r.Query, []string{"k2", "1", "1"})
			}
		}},
		{`req_cookie_key_in("c3")`, func(r *ReqSpec, v bool) {
			if v {
				r.Cookies = append(r.Cookies, []string{"c3", "1"})
			}
		}},
	},
	{
		{`req_proto_secure()`, func(r *ReqSpec, v bool) { r.Secure = v }},
		{`req_port_in("8080")`, func(r *ReqSpec, v bool) { r.Port = map[bool]string{true: "8080", false: "81"}[v] }},
		{"req_url_regmatch(`^/r3`)", func(r *ReqSpec, v bool) { r.Path = map[bool]string{true: "/r3", false: "/zz"}[v] }},
	},
}

func assignmentReq(set []primRender, a int) *ReqSpec {
	r := &ReqSpec{}
	for j, p := range set {
		p.set(r, (a>>uint(j))&1 == 1)
	}
	return r
}

// canonical shape of a token string: primitives renamed A, B, C by first appearance.
func shape(toks []string) string {
	names := map[string]string{}
	var b strings.Builder
	for _, t := range toks {
		if strings.HasPrefix(t, "p") {
			if _, ok := names[t]; !ok {
				names[t] = string(rune('A' + len(names)))
			}
			b.WriteString(names[t])
		} else {
			b.WriteString(t)
		}
	}
	return b.String()
}

var seps = []string{" ", "", "  ", "\t", "\n", " \r\n "}

func renderExpr(toks []string, set []primRender, sep func() string) string {
	var b strings.Builder
	for i, t := range toks {
		if i > 0 {
			b.WriteString(sep())
		}
		switch t {
		case "p1":
			b.WriteString(set[0].text)
		case "p2":
			b.WriteString(set[1].text)
		case "p3":
			b.WriteString(set[2].text)
		default:
			b.WriteString(t)
		}
	}
	return b.String()
}

func exprRun() {
	// sanity of the renderings: every primitive alone follows its bit (otherwise the
	// binding itself is broken -> machinery failure, not a C16 verdict)
	for si, set := range renderSets {
		for j, p := range set {
			c, out, det := buildGuarded(p.text)
			if out != "ok" {
				vh.Emit(map[string]interface{}{"_sanity": fmt.Sprintf("set %d primitive %s: build %s %s", si, p.text, out, det)})
				return
			}
			for a := 0; a < 8; a++ {
				req, err := assignmentReq(set, a).Request()
				if err != nil {
					vh.Emit(map[string]interface{}{"_sanity": err.Error()})
					return
				}
				got, _ := matchGuarded(c, req)
				want := map[bool]string{true: "T", false: "F"}[(a>>uint(j))&1 == 1]
				if got != want {
					vh.Emit(map[string]interface{}{"_sanity": fmt.Sprintf("set %d primitive %s under assignment %d: got %s want %s", si, p.text, a, got, want)})
					return
				}
			}
		}
	}
	rnd := vh.Rand(16)
	n, bad := 0, 0
	vh.EachCase(func(line []byte) {
		var c exprCase
		if err := json.Unmarshal(line, &c); err != nil {
			vh.Emit(map[string]interface{}{"_sanity": "bad case: " + err.Error()})
			return
		}
		n++
		// canonical rendering (single spaces, a set picked by id) + one seeded alternative
		for alt := 0; alt < 2; alt++ {
			set := renderSets[(c.ID+alt)%len(renderSets)]
			sep := func() string { return " " }
			if alt == 1 {
				set = renderSets[rnd.Intn(len(renderSets))]
				sep = func() string { return seps[rnd.Intn(len(seps))] }
			}
			text := renderExpr(c.Toks, set, sep)
			res := vh.Result{ID: c.ID, OK: true}
			cond, out, det := buildGuarded(text)
			if out != "ok" {
				kind := map[string]string{"error": "reject", "panic": "panic", "hang": "hang"}[out]
				res.OK = false
				res.Sig = kind + "/" + shape(c.Toks)
				res.Detail = fmt.Sprintf("condition.Build(%q): %s %s; the documented grammar accepts it", text, out, det)
			} else {
				obs := make([]string, len(c.TT))
				for a := range c.TT {
					req, err := assignmentReq(set, a).Request()
					if err != nil {
						vh.Emit(map[string]interface{}{"_sanity": err.Error()})
						return
					}
					obs[a], det = matchGuarded(cond, req)
					want := map[bool]string{true: "T", false: "F"}[c.TT[a]]
					if obs[a] != want && res.OK {
						res.OK = false
						if obs[a] == "panic" || obs[a] == "hang" {
							res.Sig = obs[a] + "/" + shape(c.Toks)
						} else {
							res.Sig = "value/" + shape(c.Toks)
						}
						res.Detail = fmt.Sprintf("%q with (p1,p2,p3)=(%v,%v,%v): Match=%s, documented precedence gives %s %s",
							text, a&1 == 1, a&2 == 2, a&4 == 4, obs[a], want, det)
					}
				}
				res.Obs = strings.Join(obs, "")
			}
			if !res.OK {
				bad++
				res.Case = c
				vh.Emit(res)
				break
			}
		}
	})
	vh.Emit(map[string]interface{}{"summary": true, "cases": n, "bad": bad})
}
