// Command cond binds the Cond specs (specs/Cond) to bfe_basic/condition:
//
//	expr    C16  token strings + truth tables  -> condition.Build + Match on real requests
//	syntax  C17  token strings / char strings / calls with verdict ok|error|any -> condition.Build
//	prim    C18  (primitive, arguments, request, expected boolean) -> Build + Match
//	protos       dump parser.funcProtos (cross-check of the spec's signature table)
package main

import (
	"fmt"
	"os"

	"verifharness/vh"
)

func main() {
	if len(os.Args) < 2 {
		fmt.Fprintln(os.Stderr, "usage: cond <expr|syntax|prim|protos>")
		os.Exit(2)
	}
	defer vh.Flush()
	switch os.Args[1] {
	case "expr":
		exprRun()
	case "syntax":
		syntaxRun()
	case "prim":
		primRun()
	case "protos":
		protosRun()
	default:
		fmt.Fprintln(os.Stderr, "unknown subcommand", os.Args[1])
		vh.Flush()
		os.Exit(2)
	}
}
