package main

func primRun() {}
