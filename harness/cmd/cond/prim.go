package main

import (
	"encoding/json"
	"fmt"
	"math/rand"
	"strings"

	"verifharness/vh"
)

// C18 cases (specs/Cond/CondPrim.tla): conditions x requests x relation.
type primArg struct {
	S      *string   `json:"s"`
	B      *bool     `json:"b"`
	IP     *IPSpec   `json:"ip"`
	IPList []IPSpec  `json:"iplist"`
	Time   *TimeSpec `json:"time"`
	Tod    *TimeSpec `json:"tod"`
}

type primCond struct {
	Prim string    `json:"prim"`
	Args []primArg `json:"args"`
}

type primCase struct {
	ID    int        `json:"id"`
	G     string     `json:"g"`
	Tag   string     `json:"tag"`
	Conds []primCond `json:"conds"`
	Reqs  []ReqSpec  `json:"reqs"`
	Rel   string     `json:"rel"`
}

func (a *primArg) render(rnd *rand.Rand, canonical bool) string {
	switch {
	case a.S != nil:
		return strLit(*a.S, rnd, canonical)
	case a.B != nil:
		if *a.B {
			return "true"
		}
		return "false"
	case a.IP != nil:
		return `"` + a.IP.String() + `"`
	case a.IPList != nil:
		var xs []string
		for i := range a.IPList {
			xs = append(xs, a.IPList[i].String())
		}
		return `"` + strings.Join(xs, "|") + `"`
	case a.Time != nil:
		return `"` + a.Time.Full() + `"`
	case a.Tod != nil:
		return `"` + a.Tod.OfDay() + `"`
	}
	return `""`
}

func (c *primCond) render(rnd *rand.Rand, canonical bool) string {
	parts := make([]string, len(c.Args))
	for i := range c.Args {
		parts[i] = c.Args[i].render(rnd, canonical)
	}
	sep := ", "
	if !canonical && rnd.Intn(2) == 0 {
		sep = ","
	}
	return c.Prim + "(" + strings.Join(parts, sep) + ")"
}

func primRun() {
	rnd := vh.Rand(18)
	n, bad := 0, 0
	vh.EachCase(func(line []byte) {
		var c primCase
		if err := json.Unmarshal(line, &c); err != nil || len(c.Conds) == 0 || len(c.Reqs) == 0 {
			vh.Emit(map[string]interface{}{"_sanity": fmt.Sprintf("bad case %s: %v", line, err)})
			return
		}
		n++
		prim := c.Conds[0].Prim
		fail := func(what, detail string) {
			bad++
			vh.Emit(vh.Result{ID: c.ID, OK: false, Sig: prim + "/" + c.Tag + "/" + what, Detail: detail, Case: c})
		}
		for alt := 0; alt < 2; alt++ {
			var texts []string
			obs := ""
			for ci := range c.Conds {
				text := c.Conds[ci].render(rnd, alt == 0)
				texts = append(texts, text)
				cond, out, det := buildGuarded(text)
				if out == "panic" || out == "hang" {
					fail("build-"+out+"-"+panicSite(det), fmt.Sprintf("condition.Build(%q): %s %s", text, out, det))
					return
				}
				if out != "ok" {
					if c.Rel != "G" {
						fail("build-error", fmt.Sprintf("condition.Build(%q) failed: %s; the documents define this call", text, det))
					}
					return
				}
				for ri := range c.Reqs {
					req, err := c.Reqs[ri].Request()
					if err != nil {
						vh.Emit(map[string]interface{}{"_sanity": err.Error()})
						return
					}
					m, mdet := matchGuarded(cond, req)
					if m == "panic" || m == "hang" {
						fail("match-"+m+"-"+panicSite(mdet), fmt.Sprintf("%q on %q: %s %s", text, c.Reqs[ri].raw(), m, mdet))
						return
					}
					obs += m
				}
			}
			okv := true
			switch c.Rel {
			case "T", "F":
				okv = obs == c.Rel
			case "ONE":
				okv = strings.Count(obs, "T") == 1
			case "NONE":
				okv = strings.Count(obs, "T") == 0
			case "SAME":
				okv = len(obs) == 2 && obs[0] == obs[1]
			}
			if !okv {
				var raws []string
				for ri := range c.Reqs {
					raws = append(raws, c.Reqs[ri].raw())
				}
				fail("exp"+c.Rel+"-got"+obs, fmt.Sprintf("%s on %q (session %s): Match gave %s, documented matching requires %s",
					strings.Join(texts, " ; "), raws, sessionDesc(&c.Reqs[0]), obs, c.Rel))
				return
			}
		}
	})
	vh.Emit(map[string]interface{}{"summary": true, "cases": n, "bad": bad})
}

func sessionDesc(r *ReqSpec) string {
	var xs []string
	if r.Secure {
		xs = append(xs, fmt.Sprintf("tls sni=%q clientauth=%v ca=%q", r.Sni, r.CAuth, r.CA))
	}
	if r.Cip != nil {
		xs = append(xs, "cip="+r.Cip.String())
	}
	if r.Sip != nil {
		xs = append(xs, "sip="+r.Sip.String())
	}
	if r.Vip != nil {
		xs = append(xs, "vip="+r.Vip.String())
	}
	if len(r.Tags) > 0 {
		xs = append(xs, fmt.Sprintf("tags=%v", r.Tags))
	}
	if r.Res != nil {
		xs = append(xs, fmt.Sprintf("response=%d %v", r.Res.Code, r.Res.Headers))
	}
	if r.Trusted {
		xs = append(xs, "trusted")
	}
	return strings.Join(xs, " ")
}
