package main

import (
	"encoding/json"
	"fmt"
	"math/rand"
	"os"
	"regexp"
	"strings"

	"verifharness/vh"
)

// C17 cases (see specs/Cond/CondSyntax.tla, CondCalls.tla):
//   {"kind":"raw"|"guided","toks":[..],"expect":"ok"|"error"}
//   {"kind":"chars","toks":[..],"expect":"any"}
//   {"kind":"call","prim":..,"args":[{"t":"S|B|I","k":kind,"c":class}],"expect":"ok"|"error"|"gray"}
type synArg struct {
	T string `json:"t"`
	K string `json:"k"`
	C string `json:"c"`
}

type synCase struct {
	ID     int      `json:"id"`
	Kind   string   `json:"kind"`
	Toks   []string `json:"toks"`
	Prim   string   `json:"prim"`
	Args   []synArg `json:"args"`
	Expect string   `json:"expect"`
	Text   string   `json:"text,omitempty"` // replay: the exact rendered string
}

type alphabet struct {
	Tokens       map[string][]string            `json:"tokens"`
	Chars        map[string]string              `json:"chars"`
	CharContexts []string                       `json:"char_contexts"`
	CallContexts []string                       `json:"call_contexts"`
	Literals     map[string][]string            `json:"literals"`
	Values       map[string]map[string][]string `json:"values"`
}

func loadAlphabet(path string) *alphabet {
	b, err := os.ReadFile(path)
	if err != nil {
		fmt.Fprintln(os.Stderr, "alphabet:", err)
		vh.Flush()
		os.Exit(2)
	}
	var a alphabet
	if err := json.Unmarshal(b, &a); err != nil {
		fmt.Fprintln(os.Stderr, "alphabet:", err)
		vh.Flush()
		os.Exit(2)
	}
	return &a
}

func pick(rnd *rand.Rand, xs []string, canonical bool) string {
	if canonical || len(xs) == 1 {
		return xs[0]
	}
	return xs[rnd.Intn(len(xs))]
}

// string literal of the condition language for value v: the scanner does not unescape, so values
// with a backslash or a double quote need the raw form (as the documents recommend for regexps)
func strLit(v string, rnd *rand.Rand, canonical bool) string {
	if strings.ContainsAny(v, "\\\"\n") {
		return "`" + v + "`"
	}
	if !canonical && !strings.Contains(v, "`") && rnd.Intn(3) == 0 {
		return "`" + v + "`"
	}
	return `"` + v + `"`
}

var punct = map[string]bool{"(": true, ")": true, ",": true}

func renderToks(a *alphabet, toks []string, rnd *rand.Rand, canonical bool) string {
	var b strings.Builder
	for i, t := range toks {
		if i > 0 {
			sep := " "
			if !canonical {
				switch rnd.Intn(5) {
				case 0:
					// no separator only next to punctuation (never glue two word/operator tokens)
					if punct[t] || punct[toks[i-1]] {
						sep = ""
					}
				case 1:
					sep = "\t"
				case 2:
					sep = " \n "
				}
			}
			b.WriteString(sep)
		}
		b.WriteString(pick(rnd, a.Tokens[t], canonical))
	}
	return b.String()
}

func renderChars(a *alphabet, toks []string) string {
	var b strings.Builder
	for _, t := range toks {
		b.WriteString(a.Chars[t])
	}
	return b.String()
}

func renderCall(a *alphabet, c *synCase, rnd *rand.Rand, canonical bool) (string, error) {
	var parts []string
	for _, arg := range c.Args {
		switch arg.T {
		case "S":
			vals := a.Values[arg.K][arg.C]
			if len(vals) == 0 {
				return "", fmt.Errorf("alphabet has no value for kind %s class %s", arg.K, arg.C)
			}
			parts = append(parts, strLit(pick(rnd, vals, canonical), rnd, canonical))
		default:
			parts = append(parts, pick(rnd, a.Literals[arg.T], canonical))
		}
	}
	sep := ", "
	if !canonical && rnd.Intn(2) == 0 {
		sep = ","
	}
	return c.Prim + "(" + strings.Join(parts, sep) + ")", nil
}

var frameRe = regexp.MustCompile(`github\.com/bfenetworks/bfe/[\w/]+\.((?:\(\*?\w+\)\.)?\w+)`)

// first bfe frame of a recovered panic (skipping the harness): identifies the failing shape
func panicSite(detail string) string {
	for _, m := range frameRe.FindAllStringSubmatch(detail, -1) {
		return strings.NewReplacer("(", "", ")", "", "*", "").Replace(m[1])
	}
	return "unknown"
}

func callClasses(c *synCase) string {
	var cs []string
	for _, a := range c.Args {
		if a.T == "S" {
			cs = append(cs, a.K+":"+a.C)
		} else {
			cs = append(cs, a.T)
		}
	}
	return c.Prim + "(" + strings.Join(cs, ",") + ")"
}

func syntaxRun() {
	if len(os.Args) < 3 {
		fmt.Fprintln(os.Stderr, "usage: cond syntax <alphabet.json>")
		vh.Flush()
		os.Exit(2)
	}
	a := loadAlphabet(os.Args[2])
	rnd := vh.Rand(17)
	dreq, err := (&ReqSpec{Path: "/a", Query: [][]string{{"k", "v", "1"}}, Cip: &IPSpec{4, 1}, Sip: &IPSpec{4, 1}, Vip: &IPSpec{4, 2},
		Res: &ResSpec{Code: 200}}).Request()
	if err != nil {
		vh.Emit(map[string]interface{}{"_sanity": err.Error()})
		return
	}
	n, bad, built := 0, 0, 0
	vh.EachCase(func(line []byte) {
		var c synCase
		if err := json.Unmarshal(line, &c); err != nil {
			vh.Emit(map[string]interface{}{"_sanity": "bad case: " + err.Error()})
			return
		}
		n++
		// renderings of this case
		var texts []string
		switch {
		case c.Text != "":
			texts = []string{c.Text}
		case c.Kind == "chars":
			s := renderChars(a, c.Toks)
			for _, ctx := range a.CharContexts {
				texts = append(texts, strings.Replace(ctx, "%s", s, 1))
			}
		case c.Kind == "call":
			for i, ctx := range a.CallContexts {
				s, err := renderCall(a, &c, rnd, i == 0)
				if err != nil {
					vh.Emit(map[string]interface{}{"_sanity": err.Error()})
					return
				}
				texts = append(texts, strings.Replace(ctx, "%s", s, 1))
			}
		default:
			texts = []string{renderToks(a, c.Toks, rnd, true), renderToks(a, c.Toks, rnd, false)}
		}
		what := c.Kind + "/" + strings.Join(c.Toks, " ")
		if c.Kind == "call" {
			what = "call/" + callClasses(&c)
		}
		for _, text := range texts {
			cond, out, det := buildGuarded(text)
			sig := ""
			switch {
			case out == "panic" || out == "hang":
				sig = out + "/" + panicSite(det)
				if out == "hang" {
					sig = "hang/Build"
				}
			case c.Expect == "ok" && out != "ok":
				sig = "reject/" + what
			case c.Expect == "error" && out != "error":
				sig = "accept/" + what
			}
			if sig == "" && out == "ok" {
				// "a usable condition": Match on an ordinary request must not panic or hang either
				built++
				if m, mdet := matchGuarded(cond, dreq); m == "panic" || m == "hang" {
					sig = m + "/Match/" + panicSite(mdet)
					det = mdet
				}
			}
			if sig != "" {
				bad++
				c.Text = text
				vh.Emit(vh.Result{ID: c.ID, OK: false, Sig: sig, Case: c,
					Detail: fmt.Sprintf("condition.Build(%q): %s (spec: %s) %s", text, out, c.Expect, det)})
				break
			}
		}
	})
	vh.Emit(map[string]interface{}{"summary": true, "cases": n, "bad": bad, "built": built})
}
