package main

import (
	"fmt"
	"net"
	"strings"
	"time"

	"github.com/bfenetworks/bfe/bfe_basic"
	"github.com/bfenetworks/bfe/bfe_basic/condition"
	"github.com/bfenetworks/bfe/bfe_bufio"
	"github.com/bfenetworks/bfe/bfe_http"
	"github.com/bfenetworks/bfe/bfe_tls"

	"verifharness/vh"
)

// ReqSpec is the abstract request of a case; everything is turned into a real
// bfe_basic.Request by parsing a rendered HTTP/1.1 request head with bfe_http.ReadRequest
// (the way the server produces requests) and filling the session the way bfe_server does.
type ReqSpec struct {
	Method  string      `json:"method"`
	Host    string      `json:"host"`
	Port    string      `json:"port"`
	Path    string      `json:"path"`
	Query   [][]string  `json:"query"`   // [key, value, "1" if rendered with '=']
	Headers [][]string  `json:"headers"` // [key, value]
	Cookies [][]string  `json:"cookies"` // [key, value]
	Secure  bool        `json:"secure"`
	Sni     string      `json:"sni"`
	CAuth   bool        `json:"cauth"`
	CA      string      `json:"ca"`
	Cip     *IPSpec     `json:"cip"`
	Sip     *IPSpec     `json:"sip"`
	Vip     *IPSpec     `json:"vip"`
	Tags    [][]string  `json:"tags"` // [name, tag, tag, ...]
	Time    *TimeSpec   `json:"time"` // X-Bfe-Debug-Time
	Trusted bool        `json:"trusted"`
	Res     *ResSpec    `json:"res"`
}

type IPSpec struct {
	Fam int `json:"fam"` // 4 | 6 ; 0 = absent
	N   int `json:"n"`
}

type TimeSpec struct {
	Sec  int    `json:"sec"`  // local wall clock: base + sec seconds
	Zone string `json:"zone"` // military zone letter
	Abs  bool   `json:"abs"`  // absent
}

type ResSpec struct {
	Code    int        `json:"code"`
	Headers [][]string `json:"headers"`
}

// alphabet map for addresses: n is an offset from a base address; the offsets the spec
// uses (0,1,2,255,256,257,...) cross byte boundaries.
func (s *IPSpec) IP() net.IP {
	if s == nil || s.Fam == 0 {
		return nil
	}
	if s.Fam == 4 {
		v := uint32(10)<<24 + uint32(s.N)
		return net.IPv4(byte(v>>24), byte(v>>16), byte(v>>8), byte(v))
	}
	ip := net.ParseIP("2001:db8::")
	v := uint32(s.N)
	ip[12], ip[13], ip[14], ip[15] = byte(v>>24), byte(v>>16), byte(v>>8), byte(v)
	return ip
}

func (s *IPSpec) String() string {
	ip := s.IP()
	if ip == nil {
		return ""
	}
	return ip.String()
}

var timeBase = time.Date(2019, 2, 4, 0, 0, 0, 0, time.UTC)

// local wall-clock rendering yyyymmddhhmmss + zone letter
func (t *TimeSpec) Full() string {
	return timeBase.Add(time.Duration(t.Sec)*time.Second).Format("20060102150405") + t.Zone
}

// hhmmss + zone letter; sec is taken modulo one day
func (t *TimeSpec) OfDay() string {
	return timeBase.Add(time.Duration(t.Sec)*time.Second).Format("150405") + t.Zone
}

func (r *ReqSpec) raw() string {
	var b strings.Builder
	m := r.Method
	if m == "" {
		m = "GET"
	}
	p := r.Path
	if p == "" {
		p = "/"
	}
	b.WriteString(m + " " + p)
	for i, q := range r.Query {
		if i == 0 {
			b.WriteString("?")
		} else {
			b.WriteString("&")
		}
		b.WriteString(q[0])
		if len(q) < 3 || q[2] == "1" {
			b.WriteString("=" + q[1])
		}
	}
	b.WriteString(" HTTP/1.1\r\n")
	h := r.Host
	if h == "" {
		h = "dflt.example"
	}
	if r.Port != "" {
		h += ":" + r.Port
	}
	b.WriteString("Host: " + h + "\r\n")
	for _, kv := range r.Headers {
		b.WriteString(kv[0] + ": " + kv[1] + "\r\n")
	}
	if len(r.Cookies) > 0 {
		var cs []string
		for _, kv := range r.Cookies {
			cs = append(cs, kv[0]+"="+kv[1])
		}
		b.WriteString("Cookie: " + strings.Join(cs, "; ") + "\r\n")
	}
	if r.Time != nil && !r.Time.Abs {
		b.WriteString("X-Bfe-Debug-Time: " + r.Time.Full() + "\r\n")
	}
	b.WriteString("\r\n")
	return b.String()
}

// Build the real request.  An error here is a harness (machinery) problem.
func (r *ReqSpec) Request() (*bfe_basic.Request, error) {
	raw := r.raw()
	hr, err := bfe_http.ReadRequest(bfe_bufio.NewReader(strings.NewReader(raw)), 65536)
	if err != nil {
		return nil, fmt.Errorf("ReadRequest(%q): %v", raw, err)
	}
	ses := bfe_basic.NewSession(nil)
	ses.IsSecure = r.Secure
	ses.Proto = "HTTP/1.1"
	if r.Secure {
		ses.Proto = "https"
		ses.TlsState = &bfe_tls.ConnectionState{ServerName: r.Sni, ClientAuth: r.CAuth, ClientCAName: r.CA}
	}
	if ip := r.Sip.IP(); ip != nil {
		ses.RemoteAddr = &net.TCPAddr{IP: ip, Port: 40000}
	}
	if ip := r.Vip.IP(); ip != nil {
		ses.Vip = ip
		ses.Vport = 80
	}
	ses.SetTrustSource(r.Trusted)
	req := bfe_basic.NewRequest(hr, nil, nil, ses, nil)
	if ip := r.Cip.IP(); ip != nil {
		req.ClientAddr = &net.TCPAddr{IP: ip, Port: 40001}
	}
	for _, t := range r.Tags {
		req.AddTags(t[0], t[1:])
	}
	if r.Res != nil {
		res := &bfe_http.Response{StatusCode: r.Res.Code, Status: fmt.Sprintf("%d X", r.Res.Code),
			Proto: "HTTP/1.1", ProtoMajor: 1, ProtoMinor: 1, Header: make(bfe_http.Header)}
		for _, kv := range r.Res.Headers {
			res.Header.Add(kv[0], kv[1])
		}
		req.HttpResponse = res
	}
	return req, nil
}

// buildGuarded calls condition.Build under recover and a watchdog.
// outcome: "ok" | "error" | "panic" | "hang"
func buildGuarded(s string) (c condition.Condition, outcome string, detail string) {
	var err error
	p, fin := vh.GuardTimeout(10*time.Second, func() { c, err = condition.Build(s) })
	switch {
	case !fin:
		return nil, "hang", "condition.Build did not return within 10s"
	case p != "":
		return nil, "panic", p
	case err != nil:
		return nil, "error", err.Error()
	case c == nil:
		return nil, "error", "nil condition without error"
	}
	return c, "ok", ""
}

// matchGuarded calls c.Match under recover and a watchdog. outcome: "T" | "F" | "panic" | "hang"
func matchGuarded(c condition.Condition, req *bfe_basic.Request) (string, string) {
	var v bool
	p, fin := vh.GuardTimeout(10*time.Second, func() { v = c.Match(req) })
	switch {
	case !fin:
		return "hang", "Match did not return within 10s"
	case p != "":
		return "panic", p
	case v:
		return "T", ""
	}
	return "F", ""
}
