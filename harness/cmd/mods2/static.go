package main

import (
	"bytes"
	"encoding/json"
	"fmt"
	"io"
	"net"
	"os"
	"path/filepath"
	"strings"

	"github.com/bfenetworks/bfe/bfe_http"
	"github.com/bfenetworks/bfe/bfe_module"
	"github.com/bfenetworks/bfe/bfe_modules/mod_static"

	"verifharness/vh"
)

// ---- case format (printed by specs/Mod/GenStatic.tla) ----

type staticOutcome struct {
	K    string   `json:"k"` // file | s404 | noserve | status
	F    []string `json:"f"`
	CE   string   `json:"ce"`
	Code int      `json:"code"`
}

type staticCase struct {
	ID       int             `json:"id"`
	Hdr      string          `json:"hdr"`
	Files    [][]string      `json:"files"`
	Root     []string        `json:"root"`
	Segs     []string        `json:"segs"`
	Method   string          `json:"method"`
	Def      string          `json:"def"`
	Compress bool            `json:"compress"`
	AE       string          `json:"ae"`
	Allow    []staticOutcome `json:"allow"`
	ExpM     staticOutcome   `json:"expM"`
}

type staticObs struct {
	Ret    string `json:"ret"`
	Status int    `json:"status"`
	File   string `json:"file"` // tree-relative path of the file whose bytes were served, "" none, "?" unknown bytes
	CL     string `json:"cl"`
	CE     string `json:"ce"`
	Body   int    `json:"body"`
	Parse  string `json:"parse,omitempty"`
	Target string `json:"target"`
}

type staticTree struct {
	top     string
	root    string
	content map[string][]byte // relative path -> bytes
	bySize  map[int]string
}

// materialise creates the spec's tree below a fresh temp dir.  Every file gets unique bytes
// and a unique size, so that a served body (GET) or a Content-Length (HEAD) identifies the file.
func materialise(files [][]string, root []string) *staticTree {
	t := &staticTree{top: tempDir("verif-static-"), content: map[string][]byte{}, bySize: map[int]string{}}
	t.root = filepath.Join(t.top, filepath.Join(root...))
	for i, f := range files {
		rel := strings.Join(f, "/")
		var b []byte
		if f[len(f)-1] != "empty" {
			b = []byte(fmt.Sprintf("VERIF-FILE %s\n", rel))
			b = append(b, bytes.Repeat([]byte{byte('a' + i%26)}, 17*(i+1))...)
			for t.bySize[len(b)] != "" {
				b = append(b, '.')
			}
		}
		if other, dup := t.bySize[len(b)]; dup {
			fatal("tree: %s and %s have the same size", rel, other)
		}
		t.content[rel] = b
		t.bySize[len(b)] = rel
		mustWrite(filepath.Join(t.top, rel), string(b))
	}
	return t
}

type staticKey struct {
	def      string
	compress bool
}

func newStaticModule(t *staticTree, k staticKey) *bfe_module.HandlerList {
	cr := tempDir("verif-static-conf-")
	mustWrite(filepath.Join(cr, "mod_static", "mod_static.conf"), fmt.Sprintf(
		"[basic]\nDataPath = mod_static/static_rule.data\nMimeTypePath = mod_static/mime_type.data\nEnableCompress = %v\n\n[log]\nOpenDebug = false\n",
		k.compress))
	mustWrite(filepath.Join(cr, "mod_static", "mime_type.data"),
		`{"Version": "verif", "Config": {".txt": "text/plain", ".html": "text/html"}}`)
	rule := map[string]interface{}{
		"Version": "verif",
		"Config": map[string]interface{}{
			"p_static": []interface{}{map[string]interface{}{
				"Cond":   "default_t()",
				"Action": map[string]interface{}{"Cmd": "BROWSE", "Params": []string{t.root, k.def}},
			}},
		},
	}
	mustWrite(filepath.Join(cr, "mod_static", "static_rule.data"), mustJSON(rule))
	l, err := initModule(mod_static.NewModuleStatic(), cr)
	if err != nil {
		fatal("mod_static init: %v", err)
	}
	hl := l.cbs.GetHandlerList(bfe_module.HandleFoundProduct)
	if hl == nil {
		fatal("mod_static registered no HandleFoundProduct filter")
	}
	os.RemoveAll(cr)
	return hl
}

func concreteSeg(s string) string {
	switch s {
	case "<long>":
		return strings.Repeat("a", 300)
	case "<rawnul>":
		return "a\x00b"
	}
	return s
}

func (t *staticTree) identify(body []byte) string {
	if len(body) == 0 {
		return ""
	}
	for rel, b := range t.content {
		if len(b) > 0 && bytes.Equal(b, body) {
			return rel
		}
	}
	// partial / concatenated content of any file also counts as "file content"
	for rel, b := range t.content {
		if len(b) > 0 && (bytes.Contains(body, b) || (len(body) >= 16 && bytes.Contains(b, body))) {
			return "~" + rel
		}
	}
	if bytes.Contains(body, []byte("VERIF-FILE")) {
		return "~?"
	}
	return "?"
}

func (t *staticTree) matches(c *staticCase, o *staticObs, a staticOutcome) bool {
	switch a.K {
	case "file":
		rel := strings.Join(a.F, "/")
		want, ok := t.content[rel]
		if !ok {
			return false
		}
		if o.Ret != "response" || o.Status != 200 || o.CE != a.CE || o.CL != fmt.Sprint(len(want)) {
			return false
		}
		if c.Method == "HEAD" {
			return o.Body == 0
		}
		return (len(want) == 0 && o.Body == 0) || o.File == rel
	case "s404":
		return o.Status == 404 && o.File == "" || (o.Status == 404 && o.File == "?")
	case "noserve":
		return o.Status >= 400 && (o.File == "" || o.File == "?")
	case "status":
		return o.Status == a.Code && (o.File == "" || o.File == "?")
	}
	return false
}

func staticRun() {
	var tree *staticTree
	mods := map[staticKey]*bfe_module.HandlerList{}
	defer func() {
		if tree != nil {
			os.RemoveAll(tree.top)
		}
	}()
	vh.EachCase(func(line []byte) {
		var c staticCase
		if err := json.Unmarshal(line, &c); err != nil {
			fatal("bad case: %v", err)
		}
		if c.Hdr == "tree" {
			tree = materialise(c.Files, c.Root)
			return
		}
		if tree == nil {
			fatal("case before tree header")
		}
		k := staticKey{c.Def, c.Compress}
		hl := mods[k]
		if hl == nil {
			hl = newStaticModule(tree, k)
			mods[k] = hl
		}
		segs := make([]string, len(c.Segs))
		for i, s := range c.Segs {
			segs[i] = concreteSeg(s)
		}
		target := "/" + strings.Join(segs, "/")
		raw := c.Method + " " + target + " HTTP/1.1\r\nHost: static.example.org\r\n"
		if c.AE != "" {
			raw += "Accept-Encoding: " + c.AE + "\r\n"
		}
		if c.Method == "POST" || c.Method == "PUT" {
			raw += "Content-Length: 0\r\n"
		}
		raw += "\r\n"
		obs := staticObs{Target: target}
		if len(obs.Target) > 120 {
			obs.Target = obs.Target[:120] + "..."
		}
		var resp *bfe_http.Response
		pan := vh.Guard(func() {
			hr, err := parseRequest(raw)
			if err != nil {
				// the server answers 400 and never reaches the module
				obs.Parse = err.Error()
				obs.Ret = "parse-reject"
				obs.Status = 400
				return
			}
			req := wrapRequest(hr, "p_static", net.ParseIP("10.0.0.1"))
			var ret int
			ret, resp = hl.FilterRequest(req)
			obs.Ret = retName(ret)
			if resp != nil {
				obs.Status = resp.StatusCode
				obs.CL = resp.Header.Get("Content-Length")
				obs.CE = resp.Header.Get("Content-Encoding")
				if resp.Body != nil {
					b, rerr := io.ReadAll(io.LimitReader(resp.Body, 1<<20))
					resp.Body.Close()
					if rerr != nil {
						obs.Parse = "body read: " + rerr.Error()
					}
					obs.Body = len(b)
					obs.File = tree.identify(b)
				}
			}
		})
		r := result{ID: c.ID, Obs: obs}
		if pan != "" {
			r.Sig, r.Detail = "static/panic", pan
			vh.Emit(r)
			return
		}
		for _, a := range c.Allow {
			if tree.matches(&c, &obs, a) {
				r.OK = true
				break
			}
		}
		if !r.OK {
			r.Sig = staticSig(tree, &c, &obs)
			r.Detail = fmt.Sprintf("%s %q (def=%q compress=%v ae=%q): observed %+v, Layer P allows %+v",
				c.Method, obs.Target, c.Def, c.Compress, c.AE, obs, c.Allow)
		}
		if !tree.matches(&c, &obs, c.ExpM) {
			r.Drift = fmt.Sprintf("mechanism model expects %+v, code did %+v", c.ExpM, obs)
		}
		vh.Emit(r)
	})
	vh.Emit(map[string]interface{}{"summary": true})
}

// staticSig is the canonical signature of a Layer-P failure.
func staticSig(t *staticTree, c *staticCase, o *staticObs) string {
	servedRel := strings.TrimPrefix(o.File, "~")
	switch {
	case o.File != "" && o.File != "?" && !strings.HasPrefix(servedRel, strings.TrimPrefix(t.root, t.top+"/")+"/"):
		return "static/outside-root/" + servedRel
	case o.Ret != "response" && o.Ret != "parse-reject":
		return "static/not-answered/" + o.Ret
	case c.Method != "GET" && c.Method != "HEAD" && o.Status < 400:
		return "static/method-served/" + c.Method
	case o.Status == 200 && o.File != "" && o.File != "?":
		for _, a := range c.Allow {
			if a.K == "file" && strings.Join(a.F, "/") == servedRel {
				return fmt.Sprintf("static/bad-headers/%s/cl=%s/ce=%s", servedRel, o.CL, o.CE)
			}
		}
		return "static/wrong-file/" + servedRel
	case o.Status == 200:
		return fmt.Sprintf("static/bad-200/cl=%s/body=%d", o.CL, o.Body)
	default:
		kinds := []string{}
		for _, a := range c.Allow {
			kinds = append(kinds, a.K)
		}
		return fmt.Sprintf("static/status-%d-for-%s", o.Status, strings.Join(kinds, "+"))
	}
}
