package main

import (
	"bytes"
	"compress/gzip"
	"encoding/json"
	"fmt"
	"io"
	"math/rand"
	"net"
	"os"
	"path/filepath"
	"strings"
	"time"

	"github.com/andybalholm/brotli"

	"github.com/bfenetworks/bfe/bfe_http"
	"github.com/bfenetworks/bfe/bfe_module"
	"github.com/bfenetworks/bfe/bfe_modules/mod_compress"

	"verifharness/vh"
)

// ---- case format (printed by specs/Mod/GenCompress.tla) ----

type aeItem struct {
	C string `json:"c"`
	Q string `json:"q"`
	F string `json:"f"`
}

type compressIn struct {
	AE struct {
		Present bool     `json:"present"`
		List    []aeItem `json:"list"`
	} `json:"ae"`
	Rule    string `json:"rule"`
	CE      string `json:"ce"`
	CL      bool   `json:"cl"`
	Kind    string `json:"kind"`
	Body    string `json:"body"`
	Flush   int    `json:"flush"`
	Quality string `json:"quality"`
}

type compressDecision struct {
	Enc string `json:"enc"`
}

type compressCase struct {
	ID    int                `json:"id"`
	In    compressIn         `json:"in"`
	Allow []compressDecision `json:"allow"`
	ExpM  compressDecision   `json:"expM"`
}

type compressObs struct {
	AE      string `json:"ae"`
	Ret     string `json:"ret"`
	CEAfter string `json:"ce_after"`
	CLAfter string `json:"cl_after"`
	InLen   int    `json:"in_len"`
	OutLen  int    `json:"out_len"`
	Reads   int    `json:"reads"`
	Decoded string `json:"decoded,omitempty"`
}

const compressHost = "c.example.org"

func renderAE(in *compressIn) string {
	parts := []string{}
	for _, it := range in.AE.List {
		s := it.C
		if it.Q != "" {
			switch it.F {
			case "t":
				s += ";q=" + it.Q
			case "s":
				s += " ;q=" + it.Q
			case "a":
				s += "; q=" + it.Q
			default:
				fatal("unknown weight form %q", it.F)
			}
		}
		parts = append(parts, s)
	}
	return strings.Join(parts, ", ")
}

func qualityOf(rule, q string) int {
	if rule == "brotli" {
		if q == "hi" {
			return brotli.BestCompression
		}
		return brotli.BestSpeed
	}
	if q == "hi" {
		return gzip.BestCompression
	}
	return gzip.BestSpeed
}

func productName(rule string, flush int, q string) string {
	return fmt.Sprintf("p_%s_%d_%s", rule, flush, q)
}

type compressEnv struct {
	dir  string
	mods map[string]*bfe_module.HandlerList
}

// module returns a mod_compress instance whose rule file has one product per
// (action, FlushSize, Quality) the run needs.
func (e *compressEnv) module(in *compressIn) *bfe_module.HandlerList {
	key := productName(in.Rule, in.Flush, in.Quality)
	if hl := e.mods[key]; hl != nil {
		return hl
	}
	cr := filepath.Join(e.dir, key)
	mustWrite(filepath.Join(cr, "mod_compress", "mod_compress.conf"),
		"[basic]\nProductRulePath = mod_compress/compress_rule.data\n\n[log]\nOpenDebug = false\n")
	cfg := map[string]interface{}{}
	cmd := map[string]string{"gzip": "GZIP", "brotli": "BROTLI"}[in.Rule]
	if cmd != "" {
		cfg[key] = []interface{}{map[string]interface{}{
			"Cond": fmt.Sprintf("req_host_in(%q)", compressHost),
			"Action": map[string]interface{}{"Cmd": cmd, "Quality": qualityOf(in.Rule, in.Quality),
				"FlushSize": in.Flush},
		}}
	} else {
		// a product with a rule that exists but is for someone else's host
		cfg["p_other"] = []interface{}{map[string]interface{}{
			"Cond":   fmt.Sprintf("req_host_in(%q)", compressHost),
			"Action": map[string]interface{}{"Cmd": "GZIP", "Quality": 1, "FlushSize": in.Flush},
		}}
	}
	mustWrite(filepath.Join(cr, "mod_compress", "compress_rule.data"),
		mustJSON(map[string]interface{}{"Version": "verif", "Config": cfg}))
	l, err := initModule(mod_compress.NewModuleCompress(), cr)
	if err != nil {
		fatal("mod_compress init: %v", err)
	}
	hl := l.cbs.GetHandlerList(bfe_module.HandleReadResponse)
	if hl == nil {
		fatal("mod_compress registered no HandleReadResponse filter")
	}
	e.mods[key] = hl
	return hl
}

func makeBody(class string, flush int, rnd *rand.Rand) []byte {
	text := func(n int) []byte {
		b := make([]byte, 0, n+64)
		for len(b) < n {
			b = append(b, fmt.Sprintf("line %d of the backend body; lorem ipsum dolor sit amet %d\n", len(b), rnd.Intn(1000))...)
		}
		return b[:n]
	}
	switch class {
	case "empty":
		return nil
	case "one":
		return []byte("x")
	case "small":
		return text(100)
	case "flush-1":
		return text(flush - 1)
	case "flush":
		return text(flush)
	case "flush+1":
		return text(flush + 1)
	case "multi":
		return text(3*flush + 7)
	case "large":
		return text(40000 + rnd.Intn(5000))
	case "random":
		b := make([]byte, 9000+rnd.Intn(3000))
		rnd.Read(b)
		return b
	}
	fatal("unknown body class %q", class)
	return nil
}

// chunkReader hands the body out in pieces of seeded sizes (a backend writing in bursts).
type chunkReader struct {
	b      []byte
	rnd    *rand.Rand
	closed bool
}

func (c *chunkReader) Read(p []byte) (int, error) {
	if len(c.b) == 0 {
		return 0, io.EOF
	}
	n := 1 + c.rnd.Intn(3000)
	if c.rnd.Intn(4) == 0 {
		n = 1 + c.rnd.Intn(5)
	}
	if n > len(p) {
		n = len(p)
	}
	if n > len(c.b) {
		n = len(c.b)
	}
	copy(p, c.b[:n])
	c.b = c.b[n:]
	return n, nil
}

func (c *chunkReader) Close() error { c.closed = true; return nil }

// drain reads the (possibly filtered) body with seeded buffer sizes.
func drain(r io.Reader, rnd *rand.Rand, small bool) (out []byte, reads int, err error) {
	sizes := []int{1, 3, 7, 64, 512, 4096, 32 * 1024}
	mode := rnd.Intn(len(sizes) + 1)
	if !small && mode < 3 {
		mode += 3 // byte-wise reads only for bodies of a few KB
	}
	idle := 0
	for {
		sz := sizes[rnd.Intn(len(sizes))]
		if mode < len(sizes) {
			sz = sizes[mode]
		}
		buf := make([]byte, sz)
		n, e := r.Read(buf)
		reads++
		out = append(out, buf[:n]...)
		if e == io.EOF {
			return out, reads, nil
		}
		if e != nil {
			return out, reads, e
		}
		if n == 0 {
			idle++
			if idle > 10000 {
				return out, reads, fmt.Errorf("stall: 10000 empty reads without EOF")
			}
		} else {
			idle = 0
		}
		if len(out) > 64<<20 {
			return out, reads, fmt.Errorf("runaway output")
		}
	}
}

func decode(enc string, data []byte) ([]byte, error) {
	switch enc {
	case "gzip":
		zr, err := gzip.NewReader(bytes.NewReader(data))
		if err != nil {
			return nil, err
		}
		zr.Multistream(false)
		out, err := io.ReadAll(zr)
		if err != nil {
			return out, err
		}
		// nothing may follow the single gzip member
		br := bytes.NewReader(data)
		zr2, _ := gzip.NewReader(br)
		zr2.Multistream(false)
		io.Copy(io.Discard, zr2)
		if br.Len() != 0 {
			return out, fmt.Errorf("%d bytes after the gzip member", br.Len())
		}
		return out, nil
	case "br":
		return io.ReadAll(brotli.NewReader(bytes.NewReader(data)))
	}
	return nil, fmt.Errorf("unknown coding %q", enc)
}

func compressRun() {
	e := &compressEnv{dir: tempDir("verif-compress-"), mods: map[string]*bfe_module.HandlerList{}}
	defer os.RemoveAll(e.dir)
	rnd := vh.Rand(54)
	vh.EachCase(func(line []byte) {
		var c compressCase
		if err := json.Unmarshal(line, &c); err != nil {
			fatal("bad case: %v", err)
		}
		in := &c.In
		hl := e.module(in)
		product := productName(in.Rule, in.Flush, in.Quality)
		host := compressHost
		switch in.Rule {
		case "nocond":
			product, host = "p_other", "elsewhere.example.org"
		case "noprod":
			product = "p_none"
		}
		method := "GET"
		status := 200
		body := makeBody(in.Body, in.Flush, rnd)
		declared := len(body)
		switch in.Kind {
		case "HEAD200":
			method, declared, body = "HEAD", len(body), nil
		case "204":
			status, declared, body = 204, 0, nil
		case "304":
			status, declared, body = 304, len(body), nil
		}
		hs := []string{}
		obs := compressObs{InLen: len(body)}
		if in.AE.Present {
			obs.AE = renderAE(in)
			hs = append(hs, "Accept-Encoding: "+obs.AE)
		} else {
			obs.AE = "<absent>"
		}
		raw := method + " /page HTTP/1.1\r\nHost: " + host + "\r\n" + strings.Join(append(hs, ""), "\r\n") + "\r\n"
		var out []byte
		var rerr error
		var res *bfe_http.Response
		src := &chunkReader{b: body, rnd: rnd}
		pan, finished := vh.GuardTimeout(60*time.Second, func() {
			hr, err := parseRequest(raw)
			if err != nil {
				fatal("harness request does not parse: %v\n%q", err, raw)
			}
			req := wrapRequest(hr, product, net.ParseIP("10.0.0.1"))
			res = &bfe_http.Response{StatusCode: status, Proto: "HTTP/1.1", ProtoMajor: 1, ProtoMinor: 1,
				Header: bfe_http.Header{}, Request: hr, ContentLength: -1}
			res.Header.Set("Content-Type", "text/plain")
			if in.CE != "" {
				res.Header.Set("Content-Encoding", in.CE)
			}
			if in.CL {
				res.Header.Set("Content-Length", fmt.Sprint(declared))
				res.ContentLength = int64(declared)
			}
			res.Body = src
			obs.Ret = retName(hl.FilterResponse(req, res))
			obs.CEAfter = res.Header.Get("Content-Encoding")
			obs.CLAfter = res.Header.Get("Content-Length")
			out, obs.Reads, rerr = drain(res.Body, rnd, len(body) <= 5000)
			res.Body.Close()
			obs.OutLen = len(out)
		})
		r := result{ID: c.ID}
		cls := fmt.Sprintf("ae=%s/rule=%s/ce=%s/kind=%s/body=%s", obs.AE, in.Rule, in.CE, in.Kind, in.Body)
		fail := func(kind, detail string) {
			if r.Sig == "" {
				r.Sig = "compress/" + kind + "/" + cls
				r.Detail = detail
			}
		}
		allowed := func(enc string) bool {
			for _, a := range c.Allow {
				if a.Enc == enc {
					return true
				}
			}
			return false
		}
		clBefore := ""
		if in.CL {
			clBefore = fmt.Sprint(declared)
		}
		obsEnc := ""
		switch {
		case !finished:
			fail("hang", "no end of body within 60 s")
		case pan != "":
			fail("panic", pan)
		case obs.Ret != "goon":
			fail("not-goon", "the response filter returned "+obs.Ret)
		case rerr != nil:
			fail("read-error", rerr.Error())
		case obs.CEAfter == in.CE:
			// untouched: same bytes, same framing headers
			if !bytes.Equal(out, body) {
				fail("body-changed-without-content-encoding", fmt.Sprintf("Content-Encoding still %q but %d bytes became %d different bytes",
					in.CE, len(body), len(out)))
			} else if obs.CLAfter != clBefore {
				fail("content-length-changed", fmt.Sprintf("Content-Length %q -> %q on an unmodified body", clBefore, obs.CLAfter))
			}
		default:
			obsEnc = obs.CEAfter
			if !allowed(obsEnc) {
				why := "coding-not-permitted"
				if in.CE != "" && in.CE != "identity" {
					why = "already-encoded"
				} else if in.AE.Present {
					why = "not-accepted"
				}
				fail(why, fmt.Sprintf("response was given Content-Encoding %q; Accept-Encoding %q, rule %s, backend Content-Encoding %q; Layer P allows %+v",
					obsEnc, obs.AE, in.Rule, in.CE, c.Allow))
			}
			if obs.CLAfter != "" {
				fail("stale-content-length", fmt.Sprintf("Content-Length %q kept on a %s body of %d bytes", obs.CLAfter, obsEnc, len(out)))
			}
			dec, derr := decode(obsEnc, out)
			if derr != nil {
				fail("decode-error", fmt.Sprintf("%s decode of %d bytes: %v", obsEnc, len(out), derr))
			} else if !bytes.Equal(dec, body) {
				obs.Decoded = fmt.Sprintf("%d bytes", len(dec))
				fail("decode-mismatch", fmt.Sprintf("%s body decodes to %d bytes, backend sent %d", obsEnc, len(dec), len(body)))
			}
			if !src.closed {
				fail("source-not-closed", "closing the filtered body did not close the backend body")
			}
		}
		r.Obs = obs
		r.OK = r.Sig == ""
		if finished && pan == "" && obsEnc != c.ExpM.Enc {
			r.Drift = fmt.Sprintf("%s: mechanism model expects enc=%q, code chose %q", cls, c.ExpM.Enc, obsEnc)
		}
		vh.Emit(r)
	})
	vh.Emit(map[string]interface{}{"summary": true})
}
