// Command mods2 binds specs/Mod/{Static,Access,Compress}.tla to the real modules
// mod_static (C50), mod_auth_basic / mod_auth_jwt / mod_secure_link / mod_block /
// mod_auth_request (C51) and mod_compress (C54).
//
// Every module is constructed as bfe does it (NewModuleX + Init on a generated conf root, so
// the real configuration loaders run) and is driven through the callbacks it registered
// (bfe_module.BfeCallbacks handler lists) with real bfe_basic.Request / bfe_http.Response
// objects.  Expectations come from the TLC-printed cases (field "allow" = Layer P, decisive;
// "expM" = Layer M, diagnostic).
package main

import (
	"fmt"
	"os"

	"verifharness/vh"
)

func main() {
	if len(os.Args) < 2 {
		fmt.Fprintln(os.Stderr, "usage: mods2 <static|access|compress>")
		os.Exit(2)
	}
	defer vh.Flush()
	switch os.Args[1] {
	case "static":
		staticRun()
	case "access":
		accessRun()
	case "compress":
		compressRun()
	default:
		fmt.Fprintln(os.Stderr, "unknown subcommand", os.Args[1])
		vh.Flush()
		os.Exit(2)
	}
}
