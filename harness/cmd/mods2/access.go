package main

import (
	"crypto"
	"crypto/ecdsa"
	"crypto/elliptic"
	"crypto/hmac"
	"crypto/md5"
	"crypto/rand"
	"crypto/rsa"
	"crypto/sha1"
	"crypto/sha256"
	"crypto/sha512"
	"crypto/x509"
	"encoding/base64"
	"encoding/hex"
	"encoding/json"
	"encoding/pem"
	"fmt"
	"hash"
	"math/big"
	"net"
	"net/http"
	"net/url"
	"os"
	"path/filepath"
	"strings"
	"time"
	"unicode"

	"golang.org/x/crypto/bcrypt"

	"github.com/bfenetworks/bfe/bfe_basic"
	"github.com/bfenetworks/bfe/bfe_http"
	"github.com/bfenetworks/bfe/bfe_module"
	"github.com/bfenetworks/bfe/bfe_modules/mod_auth_basic"
	"github.com/bfenetworks/bfe/bfe_modules/mod_auth_jwt"
	"github.com/bfenetworks/bfe/bfe_modules/mod_auth_request"
	"github.com/bfenetworks/bfe/bfe_modules/mod_block"
	"github.com/bfenetworks/bfe/bfe_modules/mod_secure_link"

	"github.com/baidu/go-lib/web-monitor/web_monitor"

	"verifharness/vh"
)

// ---- case format (printed by specs/Mod/GenAccess.tla) ----

type verdict struct {
	V     string `json:"v"` // admit | deny | close
	Code  int    `json:"code"`
	Chal  string `json:"chal"`
	Realm string `json:"realm"`
}

type jwtTok struct {
	Alg    string `json:"alg"`
	Signer string `json:"signer"`
	Exp    string `json:"exp"`
	Nbf    string `json:"nbf"`
	Iat    string `json:"iat"`
	Tamper string `json:"tamper"`
	Hdr    string `json:"hdr"`
}

type blockRule struct {
	M   bool   `json:"m"`
	Cmd string `json:"cmd"`
}

type accessIn struct {
	Scheme string      `json:"scheme"`
	Cover  string      `json:"cover"`
	Realm  string      `json:"realm"`
	Cred   string      `json:"cred"`
	Keys   string      `json:"keys"`
	Tok    *jwtTok     `json:"tok"`
	Rule   string      `json:"rule"`
	Cls    string      `json:"cls"`
	Form   string      `json:"form"`
	Pt     int         `json:"pt"`
	G      []blockRule `json:"g"`
	P      []blockRule `json:"p"`
	HasP   bool        `json:"hasp"`
	Ans    string      `json:"ans"`
}

type jwkSpec struct {
	ID  string `json:"id"`
	Kty string `json:"kty"`
	Alg string `json:"alg"`
}

type accessCase struct {
	ID          int                  `json:"id"`
	Hdr         string               `json:"hdr"`
	BlockRanges map[string][][]int   `json:"blockranges"`
	KeySets     map[string][]jwkSpec `json:"keysets"`
	In          accessIn             `json:"in"`
	Allow       []verdict            `json:"allow"`
	ExpM        verdict              `json:"expM"`
}

type accessObs struct {
	Ret    string `json:"ret"`
	Status int    `json:"status,omitempty"`
	WWW    string `json:"www,omitempty"`
	Note   string `json:"note,omitempty"`
}

const (
	hostCovered = "auth.example.org"
	hostOther   = "other.example.org"
	upstreamWWW = `Verif realm="upstream"`
)

type accessEnv struct {
	dir     string
	hdr     *accessCase
	basic   map[string]*bfe_module.HandlerList // by realm
	jwt     map[string]*bfe_module.HandlerList // by keyset|realm
	slink   *bfe_module.HandlerList
	blockIP *bfe_module.HandlerList
	blockRq *bfe_module.HandlerList
	blockWh *web_monitor.WebHandlers
	blockCf string
	authUp  *bfe_module.HandlerList
	authDn  *bfe_module.HandlerList
	// key material
	secrets map[string][]byte
	rsaKeys map[string]*rsa.PrivateKey
	ecKeys  map[string]*ecdsa.PrivateKey
	bcryptH string
}

func b64u(b []byte) string { return base64.RawURLEncoding.EncodeToString(b) }

func productAndHost(cover, product string) (string, string) {
	switch cover {
	case "rule":
		return product, hostCovered
	case "nocond":
		return product, hostOther
	}
	return "p_none", hostCovered
}

func condHost() string { return fmt.Sprintf("req_host_in(%q)", hostCovered) }

// ------------------------------------------------------------------ basic

const (
	apr1Doc   = "$apr1$mI7SilJz$CWwYJyYKbhVDNl26sdUSh/" // docs/en_us/modules/mod_auth_basic: user1, 123456
	shaDoc    = "{SHA}fEqNCco3Yq9h5ZUglD3CZJT4lBs="     // docs: user2, 123456
	apr1Colon = "$apr1$Zx9QpL2m$HBsOmkrKV9qh3J.BwWdnG." // openssl passwd -apr1 -salt Zx9QpL2m 'a:b:c'
)

func shaHash(pw string) string {
	s := sha1.Sum([]byte(pw))
	return "{SHA}" + base64.StdEncoding.EncodeToString(s[:])
}

func (e *accessEnv) basicModule(realm string) *bfe_module.HandlerList {
	if hl := e.basic[realm]; hl != nil {
		return hl
	}
	if shaHash("123456") != shaDoc {
		fatal("self-check: {SHA} of the documented example does not reproduce")
	}
	cr := filepath.Join(e.dir, "basic-"+fmt.Sprint(len(e.basic)))
	userfile := filepath.Join(cr, "mod_auth_basic", "userfile")
	mustWrite(userfile, strings.Join([]string{
		"# users of the verification harness",
		"u_apr1:" + apr1Doc,
		"u_sha:" + shaDoc + ":u_sha, 123456",
		"u_bcrypt:" + e.bcryptH,
		"u_colon:" + apr1Colon,
		"u_utf8:" + shaHash("pässwörd"),
		"#u_off:" + shaDoc,
		"",
	}, "\n"))
	mustWrite(filepath.Join(cr, "mod_auth_basic", "mod_auth_basic.conf"),
		"[basic]\nDataPath = mod_auth_basic/auth_basic_rule.data\n\n[log]\nOpenDebug = false\n")
	rule := map[string]interface{}{"Cond": condHost(), "UserFile": userfile}
	if realm != "" {
		rule["Realm"] = realm
	}
	mustWrite(filepath.Join(cr, "mod_auth_basic", "auth_basic_rule.data"), mustJSON(map[string]interface{}{
		"Version": "verif", "Config": map[string]interface{}{"p_basic": []interface{}{rule}}}))
	l, err := initModule(mod_auth_basic.NewModuleAuthBasic(), cr)
	if err != nil {
		fatal("mod_auth_basic init: %v", err)
	}
	hl := l.cbs.GetHandlerList(bfe_module.HandleFoundProduct)
	e.basic[realm] = hl
	return hl
}

func basicHeader(cred string) (string, bool) {
	enc := func(s string) string { return base64.StdEncoding.EncodeToString([]byte(s)) }
	switch cred {
	case "right-apr1":
		return "Basic " + enc("u_apr1:123456"), true
	case "right-sha":
		return "Basic " + enc("u_sha:123456"), true
	case "right-bcrypt":
		return "Basic " + enc("u_bcrypt:pw-bcrypt"), true
	case "right-colon":
		return "Basic " + enc("u_colon:a:b:c"), true
	case "right-lower-scheme":
		return "basic " + enc("u_sha:123456"), true
	case "right-utf8":
		return "Basic " + enc("u_utf8:pässwörd"), true
	case "wrong-pass":
		return "Basic " + enc("u_apr1:654321"), true
	case "empty-pass":
		return "Basic " + enc("u_apr1:"), true
	case "pass-prefix":
		return "Basic " + enc("u_apr1:12345"), true
	case "pass-extended":
		return "Basic " + enc("u_apr1:1234567"), true
	case "other-users-pass":
		return "Basic " + enc("u_apr1:pw-bcrypt"), true
	case "hash-as-pass":
		return "Basic " + enc("u_sha:"+shaDoc), true
	case "pass-case":
		return "Basic " + enc("u_colon:A:B:C"), true
	case "unknown-user":
		return "Basic " + enc("nobody:123456"), true
	case "user-case":
		return "Basic " + enc("U_APR1:123456"), true
	case "commented-user":
		return "Basic " + enc("u_off:123456"), true
	case "empty-user":
		return "Basic " + enc(":123456"), true
	case "no-colon":
		return "Basic " + enc("u_apr1"), true
	case "bad-b64":
		return "Basic !!!not-base64!!!", true
	case "no-space":
		return "Basic" + enc("u_apr1:123456"), true
	case "empty-b64":
		return "Basic ", true
	case "bearer-scheme":
		return "Bearer " + enc("u_apr1:123456"), true
	case "digest-scheme":
		return `Digest username="u_apr1", realm="Restricted", response="123456"`, true
	case "none":
		return "", false
	case "empty-header":
		return "", true
	}
	fatal("unknown basic credential class %q", cred)
	return "", false
}

func rawGet(target, host string, headers ...string) string {
	raw := "GET " + target + " HTTP/1.1\r\nHost: " + host + "\r\n"
	for _, h := range headers {
		raw += h + "\r\n"
	}
	return raw + "\r\n"
}

func (e *accessEnv) runFilter(hl *bfe_module.HandlerList, raw, product string, obs *accessObs) {
	hr, err := parseRequest(raw)
	if err != nil {
		fatal("harness request does not parse: %v\n%q", err, raw)
	}
	req := wrapRequest(hr, product, net.ParseIP("10.9.0.50"))
	ret, resp := hl.FilterRequest(req)
	fillObs(obs, ret, resp)
}

func fillObs(obs *accessObs, ret int, resp *bfe_http.Response) {
	obs.Ret = retName(ret)
	if resp != nil {
		obs.Status = resp.StatusCode
		if resp.Header != nil {
			obs.WWW = resp.Header.Get("WWW-Authenticate")
		}
	}
}

func (e *accessEnv) doBasic(in *accessIn, obs *accessObs) {
	hl := e.basicModule(in.Realm)
	product, host := productAndHost(in.Cover, "p_basic")
	val, present := basicHeader(in.Cred)
	hs := []string{}
	if present {
		hs = append(hs, "Authorization: "+val)
	}
	e.runFilter(hl, rawGet("/private/x", host, hs...), product, obs)
}

// ------------------------------------------------------------------ jwt

func (e *accessEnv) jwk(k jwkSpec) map[string]interface{} {
	j := map[string]interface{}{"kid": k.ID}
	if k.Alg != "" {
		j["alg"] = k.Alg
	}
	switch k.Kty {
	case "oct":
		j["kty"] = "oct"
		j["k"] = b64u(e.secrets[k.ID])
	case "rsa":
		pub := e.rsaKeys[k.ID].PublicKey
		j["kty"] = "RSA"
		j["n"] = b64u(pub.N.Bytes())
		j["e"] = b64u(big.NewInt(int64(pub.E)).Bytes())
	case "ec":
		pub := e.ecKeys[k.ID].PublicKey
		j["kty"] = "EC"
		j["crv"] = "P-256"
		j["x"] = b64u(pad32(pub.X.Bytes()))
		j["y"] = b64u(pad32(pub.Y.Bytes()))
	default:
		fatal("unknown kty %q", k.Kty)
	}
	return j
}

func pad32(b []byte) []byte {
	if len(b) >= 32 {
		return b
	}
	return append(make([]byte, 32-len(b)), b...)
}

func (e *accessEnv) jwtModule(keys, realm string) *bfe_module.HandlerList {
	key := keys + "|" + realm
	if hl := e.jwt[key]; hl != nil {
		return hl
	}
	specs, ok := e.hdr.KeySets[keys]
	if !ok {
		fatal("key set %q not in header", keys)
	}
	cr := filepath.Join(e.dir, "jwt-"+fmt.Sprint(len(e.jwt)))
	jwks := []interface{}{}
	for _, k := range specs {
		jwks = append(jwks, e.jwk(k))
	}
	keyfile := filepath.Join(cr, "mod_auth_jwt", "key_file")
	mustWrite(keyfile, mustJSON(jwks))
	mustWrite(filepath.Join(cr, "mod_auth_jwt", "mod_auth_jwt.conf"),
		"[basic]\nDataPath = mod_auth_jwt/auth_jwt_rule.data\n\n[log]\nOpenDebug = false\n")
	rule := map[string]interface{}{"Cond": condHost(), "KeyFile": keyfile}
	if realm != "" {
		rule["Realm"] = realm
	}
	mustWrite(filepath.Join(cr, "mod_auth_jwt", "auth_jwt_rule.data"), mustJSON(map[string]interface{}{
		"Version": "verif", "Config": map[string]interface{}{"p_jwt": []interface{}{rule}}}))
	l, err := initModule(mod_auth_jwt.NewModuleAuthJWT(), cr)
	if err != nil {
		fatal("mod_auth_jwt init (%s): %v", keys, err)
	}
	hl := l.cbs.GetHandlerList(bfe_module.HandleFoundProduct)
	e.jwt[key] = hl
	return hl
}

func hashFor(alg string) (crypto.Hash, func() hash.Hash) {
	switch alg[2:] {
	case "384":
		return crypto.SHA384, sha512.New384
	case "512":
		return crypto.SHA512, sha512.New
	}
	return crypto.SHA256, sha256.New
}

// sign produces the JWS signature bytes (RFC 7515 / 7518) with stdlib crypto only.
func (e *accessEnv) sign(alg, signer string, input []byte) []byte {
	if signer == "nosig" {
		return nil
	}
	if alg == "none" {
		alg = "HS256" // a stray signature on an unsecured token
	}
	ch, hf := hashFor(alg)
	h := hf()
	h.Write(input)
	digest := h.Sum(nil)
	switch alg[:2] {
	case "HS":
		var secret []byte
		if signer == "r1pub" {
			der, err := x509.MarshalPKIXPublicKey(&e.rsaKeys["r1"].PublicKey)
			if err != nil {
				fatal("marshal: %v", err)
			}
			secret = pem.EncodeToMemory(&pem.Block{Type: "PUBLIC KEY", Bytes: der})
		} else {
			secret = e.secrets[signer]
		}
		if secret == nil {
			fatal("no secret %q", signer)
		}
		m := hmac.New(hf, secret)
		m.Write(input)
		return m.Sum(nil)
	case "RS":
		s, err := rsa.SignPKCS1v15(rand.Reader, e.rsaKeys[signer], ch, digest)
		if err != nil {
			fatal("rsa sign: %v", err)
		}
		return s
	case "PS":
		s, err := rsa.SignPSS(rand.Reader, e.rsaKeys[signer], ch, digest,
			&rsa.PSSOptions{SaltLength: rsa.PSSSaltLengthEqualsHash})
		if err != nil {
			fatal("pss sign: %v", err)
		}
		return s
	case "ES":
		r, s, err := ecdsa.Sign(rand.Reader, e.ecKeys[signer], digest)
		if err != nil {
			fatal("ecdsa sign: %v", err)
		}
		return append(pad32(r.Bytes()), pad32(s.Bytes())...)
	}
	fatal("unknown alg %q", alg)
	return nil
}

func (e *accessEnv) token(t *jwtTok) string {
	now := time.Now().Unix()
	future, past := now+3600, now-3600
	claims := map[string]interface{}{"sub": "verif", "role": "user"}
	// the time claims are independent components (specs/Mod/Access.tla: exp x nbf x iat)
	switch t.Exp {
	case "absent":
	case "future":
		claims["exp"] = future
	case "past":
		claims["exp"] = past
	default:
		fatal("unknown exp class %q", t.Exp)
	}
	switch t.Nbf {
	case "absent":
	case "past":
		claims["nbf"] = past
	case "future":
		claims["nbf"] = future
	default:
		fatal("unknown nbf class %q", t.Nbf)
	}
	switch t.Iat {
	case "absent":
	case "past":
		claims["iat"] = past
	case "soon":
		claims["iat"] = now + 20 // a small clock skew
	case "far":
		claims["iat"] = future
	default:
		fatal("unknown iat class %q", t.Iat)
	}
	hb, _ := json.Marshal(map[string]string{"alg": t.Alg, "typ": "JWT"})
	pb, _ := json.Marshal(claims)
	input := b64u(hb) + "." + b64u(pb)
	sig := e.sign(t.Alg, t.Signer, []byte(input))
	switch t.Tamper {
	case "payload":
		claims["role"] = "admin"
		pb2, _ := json.Marshal(claims)
		input = b64u(hb) + "." + b64u(pb2)
	case "sig":
		if len(sig) == 0 {
			sig = []byte{1, 2, 3}
		} else {
			sig = append([]byte{}, sig...)
			sig[len(sig)/2] ^= 0x40
		}
	}
	if t.Hdr == "two-segments" {
		return input
	}
	return input + "." + b64u(sig)
}

func (e *accessEnv) doJWT(in *accessIn, obs *accessObs) {
	hl := e.jwtModule(in.Keys, in.Realm)
	product, host := productAndHost(in.Cover, "p_jwt")
	tok := e.token(in.Tok)
	hs := []string{}
	switch in.Tok.Hdr {
	case "bearer", "two-segments":
		hs = append(hs, "Authorization: Bearer "+tok)
	case "absent":
	case "lower":
		hs = append(hs, "Authorization: bearer "+tok)
	case "two-spaces":
		hs = append(hs, "Authorization: Bearer  "+tok)
	case "basic-scheme":
		hs = append(hs, "Authorization: Basic "+tok)
	case "no-token":
		hs = append(hs, "Authorization: Bearer")
	case "extra-part":
		hs = append(hs, "Authorization: Bearer "+tok+" x")
	default:
		fatal("unknown header form %q", in.Tok.Hdr)
	}
	e.runFilter(hl, rawGet("/api/x", host, hs...), product, obs)
}

// ------------------------------------------------------------------ secure link

func slinkEncode(origin string) string {
	s := md5.Sum([]byte(origin))
	t := base64.StdEncoding.EncodeToString(s[:])
	t = strings.ReplaceAll(t, "+", "-")
	t = strings.ReplaceAll(t, "/", "_")
	return strings.ReplaceAll(t, "=", "")
}

func (e *accessEnv) slinkModule() *bfe_module.HandlerList {
	if e.slink != nil {
		return e.slink
	}
	// the documented example doubles as a self-check of the harness' own checksum function
	if slinkEncode("2147483647/s/link127.0.0.1 secret") != "_e4Nc3iduzkWRm01TBBNYw" {
		fatal("self-check: secure-link example of the docs does not reproduce")
	}
	cr := filepath.Join(e.dir, "slink")
	mustWrite(filepath.Join(cr, "mod_secure_link", "mod_secure_link.conf"),
		"[basic]\nDataPath = mod_secure_link/secure_link_rule.data\n\n[log]\nOpenDebug = false\n")
	node := func(t, p string) map[string]string { return map[string]string{"Type": t, "Param": p} }
	conf := map[string]interface{}{
		"Version": "verif",
		"Config": map[string]interface{}{
			"p_doc": []interface{}{map[string]interface{}{
				"Cond": condHost(), "ChecksumKey": "sign", "ExpiresKey": "time",
				"ExpressionNodes": []interface{}{node("query", "time"), node("uri", ""), node("remote_addr", ""), node("label", " secret")},
			}},
			"p_hdr": []interface{}{map[string]interface{}{
				"Cond":            condHost(),
				"ExpressionNodes": []interface{}{node("label", "s3cr3t"), node("header", "X-Token"), node("host", "")},
			}},
			"p_exp": []interface{}{map[string]interface{}{
				"Cond": condHost(), "ChecksumKey": "md5", "ExpiresKey": "e",
				"ExpressionNodes": []interface{}{node("label", "k3y"), node("query", "e"), node("query", "id")},
			}},
		},
	}
	mustWrite(filepath.Join(cr, "mod_secure_link", "secure_link_rule.data"), mustJSON(conf))
	l, err := initModule(mod_secure_link.NewModuleSecureLink(), cr)
	if err != nil {
		fatal("mod_secure_link init: %v", err)
	}
	e.slink = l.cbs.GetHandlerList(bfe_module.HandleAfterLocation)
	if e.slink == nil {
		fatal("mod_secure_link registered no HandleAfterLocation filter")
	}
	return e.slink
}

func swapCase(s string) string {
	r := []rune(s)
	for i, c := range r {
		if unicode.IsUpper(c) {
			r[i] = unicode.ToLower(c)
		} else if unicode.IsLower(c) {
			r[i] = unicode.ToUpper(c)
		}
	}
	return string(r)
}

// doSlink builds a link for the rule's node list.  nodes: ordered (name, value) pairs; the
// label's name is "label".  cls decides which values are signed and which are sent.
func (e *accessEnv) doSlink(in *accessIn, obs *accessObs) {
	hl := e.slinkModule()
	now := time.Now().Unix()
	future, past := fmt.Sprint(now+3600), fmt.Sprint(now-3600)
	type nv struct{ name, val string }
	var nodes []nv
	var ckKey, expKey, product string
	switch in.Rule {
	case "doc":
		product, ckKey, expKey = "p_doc", "sign", "time"
		nodes = []nv{{"exp", future}, {"uri", "/s/link"}, {"remote", "127.0.0.1"}, {"label", " secret"}}
	case "hdr":
		product, ckKey, expKey = "p_hdr", "md5", ""
		nodes = []nv{{"label", "s3cr3t"}, {"token", "tok123"}, {"host", hostCovered}}
	case "exp":
		product, ckKey, expKey = "p_exp", "md5", "e"
		nodes = []nv{{"label", "k3y"}, {"exp", future}, {"id", "42"}}
	default:
		fatal("unknown secure-link rule %q", in.Rule)
	}
	product, host := productAndHost(in.Cover, product)
	get := func(name string) string {
		for _, n := range nodes {
			if n.name == name {
				return n.val
			}
		}
		return ""
	}
	set := func(name, v string) {
		for i := range nodes {
			if nodes[i].name == name {
				nodes[i].val = v
			}
		}
	}
	concat := func(ns []nv) string {
		s := ""
		for _, n := range ns {
			s += n.val
		}
		return s
	}
	sendCk, sendExp := true, expKey != ""
	// 1. what gets signed
	switch in.Cls {
	case "expired", "tampered-exp":
		set("exp", past)
	case "no-exp":
		set("exp", "")
	case "nan-exp":
		set("exp", "abc")
	}
	signed := concat(nodes)
	switch in.Cls {
	case "wrong-secret":
		cp := append([]nv{}, nodes...)
		for i := range cp {
			if cp[i].name == "label" {
				cp[i].val = "guess"
			}
		}
		signed = concat(cp)
	case "wrong-order":
		cp := []nv{}
		for i := len(nodes) - 1; i >= 0; i-- {
			cp = append(cp, nodes[i])
		}
		signed = concat(cp)
	case "node-omitted":
		signed = concat(append(append([]nv{}, nodes[:1]...), nodes[2:]...))
	}
	ck := slinkEncode(signed)
	// 2. what gets sent
	switch in.Cls {
	case "tampered-exp":
		set("exp", future)
	case "tampered-node":
		switch in.Rule {
		case "doc":
			set("remote", "127.0.0.2")
		case "hdr":
			set("token", "tok124")
		case "exp":
			set("id", "43")
		}
	case "padded":
		ck += "=="
	case "hex-md5":
		s := md5.Sum([]byte(signed))
		ck = hex.EncodeToString(s[:])
	case "case-changed":
		if swapCase(ck) == ck {
			obs.Note = "checksum has no letters; class degenerates"
		}
		ck = swapCase(ck)
	case "no-cksum":
		sendCk = false
	case "empty-cksum":
		ck = ""
	case "no-exp":
		sendExp = false
	}
	q := url.Values{}
	if sendCk {
		q.Set(ckKey, ck)
	}
	if sendExp {
		q.Set(expKey, get("exp"))
	}
	switch in.Rule {
	case "doc":
		// Built the way the module's own tests and the documented link-generation example do
		// (RequestURI without the signature arguments, RemoteAddr without a port).
		u, _ := url.Parse("/s/link?" + q.Encode())
		hr := &bfe_http.Request{Method: "GET", URL: u, Host: host, Header: bfe_http.Header{},
			Proto: "HTTP/1.1", ProtoMajor: 1, ProtoMinor: 1}
		req := wrapRequest(hr, product, net.ParseIP("127.0.0.1"))
		hr.RequestURI = get("uri")
		hr.RemoteAddr = get("remote")
		ret, resp := hl.FilterRequest(req)
		fillObs(obs, ret, resp)
	case "hdr":
		e.runFilter(hl, rawGet("/dl/file.bin?"+q.Encode(), host, "X-Token: "+get("token")), product, obs)
	case "exp":
		q.Set("id", get("id"))
		e.runFilter(hl, rawGet("/dl/x?"+q.Encode(), host), product, obs)
	}
}

// ------------------------------------------------------------------ mod_block

func blockAddr(form string, pt int) net.IP {
	switch form {
	case "v4-4":
		return net.IPv4(10, 20, 30, byte(100+pt)).To4()
	case "v4-16":
		return net.IPv4(10, 20, 30, byte(100+pt)).To16()
	case "v6":
		return net.ParseIP(fmt.Sprintf("2001:db8::%x", 0x100+pt))
	}
	fatal("unknown address form %q", form)
	return nil
}

func (e *accessEnv) blockModule() {
	if e.blockIP != nil {
		return
	}
	cr := filepath.Join(e.dir, "block")
	lines := []string{}
	for _, fam := range []string{"v4", "v6"} {
		form := map[string]string{"v4": "v4-4", "v6": "v6"}[fam]
		for _, r := range e.hdr.BlockRanges[fam] {
			if len(r) != 2 {
				fatal("bad range %v", r)
			}
			if r[0] == r[1] {
				lines = append(lines, blockAddr(form, r[0]).String())
			} else {
				lines = append(lines, blockAddr(form, r[0]).String()+" "+blockAddr(form, r[1]).String())
			}
		}
	}
	if len(lines) == 0 {
		fatal("no block ranges in header")
	}
	mustWrite(filepath.Join(cr, "mod_block", "ip_blocklist.data"), strings.Join(lines, "\n")+"\n")
	mustWrite(filepath.Join(cr, "mod_block", "mod_block.conf"),
		"[basic]\nProductRulePath = mod_block/block_rules.data\nIPBlocklistPath = mod_block/ip_blocklist.data\n\n[log]\nOpenDebug = false\n")
	mustWrite(filepath.Join(cr, "mod_block", "block_rules.data"),
		`{"Version": "verif0", "Config": {}}`)
	l, err := initModule(mod_block.NewModuleBlock(), cr)
	if err != nil {
		fatal("mod_block init: %v", err)
	}
	e.blockIP = l.cbs.GetHandlerList(bfe_module.HandleAccept)
	e.blockRq = l.cbs.GetHandlerList(bfe_module.HandleFoundProduct)
	e.blockWh = l.whs
	if e.blockIP == nil || e.blockRq == nil {
		fatal("mod_block registered no filters")
	}
}

func (e *accessEnv) doBlockIP(in *accessIn, obs *accessObs) {
	e.blockModule()
	sess := bfe_basic.NewSession(nil)
	sess.RemoteAddr = &net.TCPAddr{IP: blockAddr(in.Form, in.Pt), Port: 40000}
	obs.Ret = retName(e.blockIP.FilterAccept(sess))
	obs.Note = sess.RemoteAddr.IP.String()
}

func (e *accessEnv) doBlockRule(in *accessIn, obs *accessObs) {
	e.blockModule()
	mk := func(rs []blockRule, pfx string) []interface{} {
		out := []interface{}{}
		for i, r := range rs {
			cond := `req_cip_range("10.8.0.0", "10.8.0.255")`
			if r.M {
				cond = `req_cip_range("10.9.0.0", "10.9.0.255")`
			}
			out = append(out, map[string]interface{}{
				"name": fmt.Sprintf("%s%d", pfx, i+1), "cond": cond,
				"action": map[string]interface{}{"cmd": r.Cmd, "params": []string{}},
			})
		}
		return out
	}
	cfg := map[string]interface{}{}
	if len(in.G) > 0 {
		cfg["global"] = mk(in.G, "g")
	}
	if in.HasP {
		cfg["p_block"] = mk(in.P, "p")
	}
	body := mustJSON(map[string]interface{}{"Version": "verif", "Config": cfg})
	if body != e.blockCf {
		path := filepath.Join(e.dir, "block", "mod_block", "block_rules.reload.data")
		mustWrite(path, body)
		// reload through the handler the module registered (what the monitor port does)
		h, err := e.blockWh.GetHandler(web_monitor.WebHandleReload, "mod_block.product_rule_table")
		if err != nil {
			fatal("mod_block reload handler: %v", err)
		}
		f, ok := h.(func(url.Values) error)
		if !ok {
			fatal("mod_block reload handler has type %T", h)
		}
		if err := f(url.Values{"path": {path}}); err != nil {
			fatal("mod_block reload of %s: %v", body, err)
		}
		e.blockCf = body
	}
	e.runFilter(e.blockRq, rawGet("/x", hostCovered), "p_block", obs)
}

// ------------------------------------------------------------------ mod_auth_request

func (e *accessEnv) authModules() {
	if e.authUp != nil {
		return
	}
	ln, err := net.Listen("tcp", "127.0.0.1:0")
	if err != nil {
		fatal("listen: %v", err)
	}
	go http.Serve(ln, http.HandlerFunc(func(w http.ResponseWriter, r *http.Request) {
		switch r.Header.Get("X-Verif-Answer") {
		case "200":
			w.WriteHeader(200)
		case "204":
			w.WriteHeader(204)
		case "401":
			w.Header().Set("WWW-Authenticate", upstreamWWW)
			w.WriteHeader(401)
		case "401-nochal":
			w.WriteHeader(401)
		case "403":
			w.WriteHeader(403)
		case "302":
			w.Header().Set("Location", "/elsewhere")
			w.WriteHeader(302)
		case "404":
			w.WriteHeader(404)
		default:
			w.WriteHeader(500)
		}
	}))
	dead, err := net.Listen("tcp", "127.0.0.1:0")
	if err != nil {
		fatal("listen: %v", err)
	}
	deadAddr := dead.Addr().String()
	dead.Close()
	mkmod := func(name, addr string) *bfe_module.HandlerList {
		cr := filepath.Join(e.dir, name)
		mustWrite(filepath.Join(cr, "mod_auth_request", "mod_auth_request.conf"), fmt.Sprintf(
			"[basic]\nDataPath = mod_auth_request/auth_request_rule.data\nAuthAddress = http://%s/auth\nAuthTimeout = 3000\n\n[log]\nOpenDebug = false\n", addr))
		mustWrite(filepath.Join(cr, "mod_auth_request", "auth_request_rule.data"), mustJSON(map[string]interface{}{
			"Version": "verif",
			"Config": map[string]interface{}{
				"p_auth":     []interface{}{map[string]interface{}{"Cond": condHost(), "Enable": true}},
				"p_disabled": []interface{}{map[string]interface{}{"Cond": condHost(), "Enable": false}},
			}}))
		l, err := initModule(mod_auth_request.NewModuleAuthRequest(), cr)
		if err != nil {
			fatal("mod_auth_request init: %v", err)
		}
		return l.cbs.GetHandlerList(bfe_module.HandleFoundProduct)
	}
	e.authUp = mkmod("authreq-up", ln.Addr().String())
	e.authDn = mkmod("authreq-down", deadAddr)
}

func (e *accessEnv) doAuthReq(in *accessIn, obs *accessObs) {
	e.authModules()
	hl := e.authUp
	if in.Ans == "down" {
		hl = e.authDn
	}
	var product, host string
	if in.Cover == "disabled" {
		product, host = "p_disabled", hostCovered
	} else {
		product, host = productAndHost(in.Cover, "p_auth")
	}
	e.runFilter(hl, rawGet("/guarded", host, "X-Verif-Answer: "+in.Ans), product, obs)
}

// ------------------------------------------------------------------ driver

func fits(o *accessObs, a verdict) bool {
	switch a.V {
	case "admit":
		return o.Ret == "goon"
	case "close":
		return o.Ret == "close"
	case "deny":
		if o.Ret != "response" {
			return false
		}
		if a.Code != 0 && o.Status != a.Code {
			return false
		}
		if a.Code == 0 && o.Status < 400 {
			return false
		}
		switch a.Chal {
		case "Basic", "Bearer":
			return o.WWW == fmt.Sprintf("%s realm=%q", a.Chal, a.Realm)
		case "Copied":
			return o.WWW == upstreamWWW
		}
		return true
	}
	return false
}

func accessClass(in *accessIn) string {
	switch in.Scheme {
	case "basic":
		return fmt.Sprintf("cover=%s/cred=%s", in.Cover, in.Cred)
	case "jwt":
		return fmt.Sprintf("cover=%s/keys=%s/alg=%s/signer=%s/exp=%s/nbf=%s/iat=%s/tamper=%s/hdr=%s",
			in.Cover, in.Keys, in.Tok.Alg, in.Tok.Signer, in.Tok.Exp, in.Tok.Nbf, in.Tok.Iat, in.Tok.Tamper, in.Tok.Hdr)
	case "slink":
		return fmt.Sprintf("cover=%s/rule=%s/cls=%s", in.Cover, in.Rule, in.Cls)
	case "blockip":
		return fmt.Sprintf("form=%s/pt=%d", in.Form, in.Pt)
	case "blockrule":
		f := func(rs []blockRule) string {
			s := ""
			for _, r := range rs {
				m := "n"
				if r.M {
					m = "y"
				}
				s += m + r.Cmd[:1]
			}
			return s
		}
		return fmt.Sprintf("g=%s/p=%s/hasp=%v", f(in.G), f(in.P), in.HasP)
	case "authreq":
		return fmt.Sprintf("cover=%s/ans=%s", in.Cover, in.Ans)
	}
	return "?"
}

func obsWord(o *accessObs) string {
	switch o.Ret {
	case "goon":
		return "admitted"
	case "response":
		return fmt.Sprintf("denied-%d", o.Status)
	case "close":
		return "closed"
	}
	return o.Ret
}

func accessRun() {
	e := &accessEnv{dir: tempDir("verif-access-"), basic: map[string]*bfe_module.HandlerList{},
		jwt: map[string]*bfe_module.HandlerList{}, secrets: map[string][]byte{},
		rsaKeys: map[string]*rsa.PrivateKey{}, ecKeys: map[string]*ecdsa.PrivateKey{}}
	defer os.RemoveAll(e.dir)
	// Key material: the verdicts do not depend on the key bits, so the system CSPRNG is used.
	e.secrets["k1"] = []byte("verif-secret-one-0123456789abcdef")
	e.secrets["k2"] = []byte("verif-secret-two-fedcba9876543210")
	e.secrets["kx"] = []byte("not-a-configured-secret-xxxxxxxxx")
	for _, id := range []string{"r1", "rx"} {
		k, err := rsa.GenerateKey(rand.Reader, 2048)
		if err != nil {
			fatal("rsa keygen: %v", err)
		}
		e.rsaKeys[id] = k
	}
	for _, id := range []string{"e1", "ex"} {
		k, err := ecdsa.GenerateKey(elliptic.P256(), rand.Reader)
		if err != nil {
			fatal("ec keygen: %v", err)
		}
		e.ecKeys[id] = k
	}
	bh, err := bcrypt.GenerateFromPassword([]byte("pw-bcrypt"), bcrypt.MinCost)
	if err != nil {
		fatal("bcrypt: %v", err)
	}
	e.bcryptH = "$2y$" + strings.TrimPrefix(string(bh), "$2a$") // the prefix htpasswd -B writes

	vh.EachCase(func(line []byte) {
		var c accessCase
		if err := json.Unmarshal(line, &c); err != nil {
			fatal("bad case: %v", err)
		}
		if c.Hdr == "access" {
			e.hdr = &c
			return
		}
		if e.hdr == nil {
			fatal("case before header")
		}
		obs := accessObs{}
		pan, finished := vh.GuardTimeout(20*time.Second, func() {
			switch c.In.Scheme {
			case "basic":
				e.doBasic(&c.In, &obs)
			case "jwt":
				e.doJWT(&c.In, &obs)
			case "slink":
				e.doSlink(&c.In, &obs)
			case "blockip":
				e.doBlockIP(&c.In, &obs)
			case "blockrule":
				e.doBlockRule(&c.In, &obs)
			case "authreq":
				e.doAuthReq(&c.In, &obs)
			default:
				fatal("unknown scheme %q", c.In.Scheme)
			}
		})
		r := result{ID: c.ID, Obs: obs}
		cls := accessClass(&c.In)
		switch {
		case !finished:
			r.Sig, r.Detail = c.In.Scheme+"/hang/"+cls, "no answer within 20 s"
		case pan != "":
			r.Sig, r.Detail = c.In.Scheme+"/panic/"+cls, pan
		default:
			for _, a := range c.Allow {
				if fits(&obs, a) {
					r.OK = true
					break
				}
			}
			if !r.OK {
				r.Sig = fmt.Sprintf("%s/%s/%s", c.In.Scheme, obsWord(&obs), cls)
				r.Detail = fmt.Sprintf("observed %+v; Layer P allows %+v", obs, c.Allow)
			}
			if !fits(&obs, c.ExpM) {
				r.Drift = fmt.Sprintf("%s: mechanism model expects %+v, code did %+v", cls, c.ExpM, obs)
			}
		}
		vh.Emit(r)
	})
	vh.Emit(map[string]interface{}{"summary": true})
}
