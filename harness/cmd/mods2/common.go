package main

import (
	"encoding/json"
	"fmt"
	"net"
	"os"
	"path/filepath"
	"strings"

	"github.com/baidu/go-lib/web-monitor/web_monitor"

	"github.com/bfenetworks/bfe/bfe_basic"
	"github.com/bfenetworks/bfe/bfe_bufio"
	"github.com/bfenetworks/bfe/bfe_http"
	"github.com/bfenetworks/bfe/bfe_module"

	"verifharness/vh"
)

// fatal reports a machinery problem (not a verdict) and exits non-zero.
func fatal(format string, a ...interface{}) {
	fmt.Fprintf(os.Stderr, "mods2: "+format+"\n", a...)
	vh.Flush()
	os.Exit(3)
}

func mustWrite(path, content string) {
	if err := os.MkdirAll(filepath.Dir(path), 0o755); err != nil {
		fatal("mkdir %s: %v", path, err)
	}
	if err := os.WriteFile(path, []byte(content), 0o644); err != nil {
		fatal("write %s: %v", path, err)
	}
}

func mustJSON(v interface{}) string {
	b, err := json.MarshalIndent(v, "", " ")
	if err != nil {
		fatal("json: %v", err)
	}
	return string(b)
}

func tempDir(prefix string) string {
	d, err := os.MkdirTemp("", prefix)
	if err != nil {
		fatal("mkdtemp: %v", err)
	}
	return d
}

// loaded is a module initialised the way bfe_server does it: Init(callbacks, web handlers, conf root).
type loaded struct {
	cbs *bfe_module.BfeCallbacks
	whs *web_monitor.WebHandlers
}

func initModule(m bfe_module.BfeModule, confRoot string) (*loaded, error) {
	l := &loaded{cbs: bfe_module.NewBfeCallbacks(), whs: web_monitor.NewWebHandlers()}
	if err := m.Init(l.cbs, l.whs, confRoot); err != nil {
		return nil, err
	}
	return l, nil
}

// parseRequest runs the real request parser on raw bytes (what the server does per request).
func parseRequest(raw string) (*bfe_http.Request, error) {
	return bfe_http.ReadRequest(bfe_bufio.NewReader(strings.NewReader(raw)), 8192)
}

// wrapRequest builds the bfe_basic.Request the server would hand to the callbacks.
func wrapRequest(hr *bfe_http.Request, product string, client net.IP) *bfe_basic.Request {
	sess := bfe_basic.NewSession(nil)
	sess.RemoteAddr = &net.TCPAddr{IP: client, Port: 40000}
	hr.RemoteAddr = sess.RemoteAddr.String()
	req := bfe_basic.NewRequest(hr, nil, nil, sess, nil)
	req.ClientAddr = sess.RemoteAddr
	req.Route.Product = product
	return req
}

func retName(ret int) string {
	switch ret {
	case bfe_module.BfeHandlerGoOn:
		return "goon"
	case bfe_module.BfeHandlerResponse:
		return "response"
	case bfe_module.BfeHandlerClose:
		return "close"
	case bfe_module.BfeHandlerFinish:
		return "finish"
	case bfe_module.BfeHandlerRedirect:
		return "redirect"
	}
	return fmt.Sprintf("ret%d", ret)
}

type result struct {
	ID     int         `json:"id"`
	OK     bool        `json:"ok"`
	Sig    string      `json:"sig,omitempty"`
	Detail string      `json:"detail,omitempty"`
	Drift  string      `json:"drift,omitempty"`
	Obs    interface{} `json:"obs,omitempty"`
}
