// Package vh holds the small runtime shared by all harness commands:
// ndjson case input, ndjson result output, panic/timeout guards, seeded randomness.
package vh

import (
	"bufio"
	"encoding/json"
	"fmt"
	"math/rand"
	"os"
	"runtime/debug"
	"strconv"
	"sync"
	"time"
)

var (
	outMu sync.Mutex
	out   = bufio.NewWriterSize(os.Stdout, 1<<20)
)

// Emit writes one ndjson line to stdout.
func Emit(v interface{}) {
	b, err := json.Marshal(v)
	if err != nil {
		b, _ = json.Marshal(map[string]string{"_emit_error": err.Error()})
	}
	outMu.Lock()
	out.Write(b)
	out.WriteByte('\n')
	outMu.Unlock()
}

// Flush must be called before exit.
func Flush() {
	outMu.Lock()
	out.Flush()
	outMu.Unlock()
}

// EachCase reads ndjson from stdin and calls f for every line.
func EachCase(f func(line []byte)) {
	sc := bufio.NewScanner(os.Stdin)
	sc.Buffer(make([]byte, 1<<20), 1<<28)
	for sc.Scan() {
		b := sc.Bytes()
		if len(b) == 0 {
			continue
		}
		c := make([]byte, len(b))
		copy(c, b)
		f(c)
	}
}

// Guard runs f and returns a non-empty description if it panicked.
func Guard(f func()) (panicked string) {
	defer func() {
		if r := recover(); r != nil {
			panicked = fmt.Sprintf("panic: %v\n%s", r, trimStack(debug.Stack()))
		}
	}()
	f()
	return ""
}

func trimStack(b []byte) string {
	if len(b) > 1500 {
		b = b[:1500]
	}
	return string(b)
}

// GuardTimeout runs f in a goroutine; returns ("", true) when it finished in time,
// (panic text, true) when it panicked and ("", false) when the watchdog expired
// (the goroutine is leaked; callers should stop using the object).
func GuardTimeout(d time.Duration, f func()) (panicked string, finished bool) {
	done := make(chan string, 1)
	go func() { done <- Guard(f) }()
	select {
	case p := <-done:
		return p, true
	case <-time.After(d):
		return "", false
	}
}

// Seed returns VERIF_SEED (default 1).
func Seed() int64 {
	s, err := strconv.ParseInt(os.Getenv("VERIF_SEED"), 10, 64)
	if err != nil {
		return 1
	}
	return s
}

// Rand returns a generator derived from VERIF_SEED and a stream id.
func Rand(stream int64) *rand.Rand {
	return rand.New(rand.NewSource(Seed()*1000003 + stream))
}

// Tier returns VERIF_TIER (quick by default).
func Tier() string {
	if os.Getenv("VERIF_TIER") == "thorough" {
		return "thorough"
	}
	return "quick"
}

// Result is the conventional per-case result line.
type Result struct {
	ID     interface{} `json:"id,omitempty"`
	OK     bool        `json:"ok"`
	Sig    string      `json:"sig,omitempty"`    // canonical signature of the failure
	Detail string      `json:"detail,omitempty"` // human-readable
	Drift  string      `json:"drift,omitempty"`  // Layer-M (mechanism) mismatch, diagnostic only
	Obs    interface{} `json:"obs,omitempty"`    // what the real code did
	Case   interface{} `json:"case,omitempty"`   // the input case (for replay files)
}
