package e2e

import (
	"bufio"
	"bytes"
	"fmt"
	"io"
	"net"
	"net/http"
	"sync"
	"time"
)

// Backend is a scripted net.Listener.  Every accepted connection runs handler(conn) in its
// own goroutine; all bytes the connection receives are captured.
type Backend struct {
	Addr string

	ln      net.Listener
	handler func(c *BackendConn)
	mu      sync.Mutex
	conns   []*BackendConn
	last    time.Time // last accept / received byte
	closed  bool
}

// BackendConn is one accepted connection of a Backend.
type BackendConn struct {
	net.Conn
	Index int           // 0-based accept order on this backend
	R     *bufio.Reader // buffered reader over the captured stream (use it, not Conn.Read)

	b   *Backend
	mu  sync.Mutex
	raw bytes.Buffer
}

type teeReader struct{ c *BackendConn }

func (t teeReader) Read(p []byte) (int, error) {
	n, err := t.c.Conn.Read(p)
	if n > 0 {
		t.c.mu.Lock()
		t.c.raw.Write(p[:n])
		t.c.mu.Unlock()
		t.c.b.touch()
	}
	return n, err
}

// NewBackend listens on 127.0.0.1:0.
func NewBackend(handler func(c *BackendConn)) (*Backend, error) {
	return NewBackendOn("tcp4", "127.0.0.1:0", handler)
}

// NewBackendOn listens on the given network/address (e.g. "tcp6", "[::1]:0").
func NewBackendOn(network, addr string, handler func(c *BackendConn)) (*Backend, error) {
	ln, err := net.Listen(network, addr)
	if err != nil {
		return nil, err
	}
	b := &Backend{Addr: ln.Addr().String(), ln: ln, handler: handler, last: time.Now()}
	go b.loop()
	return b, nil
}

func (b *Backend) touch() {
	b.mu.Lock()
	b.last = time.Now()
	b.mu.Unlock()
}

func (b *Backend) loop() {
	for {
		c, err := b.ln.Accept()
		if err != nil {
			return
		}
		b.mu.Lock()
		bc := &BackendConn{Conn: c, Index: len(b.conns), b: b}
		bc.R = bufio.NewReader(teeReader{bc})
		b.conns = append(b.conns, bc)
		b.last = time.Now()
		b.mu.Unlock()
		go func() {
			defer c.Close()
			b.handler(bc)
		}()
	}
}

// Close stops the listener and closes all accepted connections.
func (b *Backend) Close() {
	b.mu.Lock()
	b.closed = true
	cs := append([]*BackendConn(nil), b.conns...)
	b.mu.Unlock()
	b.ln.Close()
	for _, c := range cs {
		c.Conn.Close()
	}
}

// Conns is the number of connections accepted so far.
func (b *Backend) Conns() int {
	b.mu.Lock()
	defer b.mu.Unlock()
	return len(b.conns)
}

// Received returns a snapshot of the raw bytes received, per connection in accept order.
func (b *Backend) Received() [][]byte {
	b.mu.Lock()
	cs := append([]*BackendConn(nil), b.conns...)
	b.mu.Unlock()
	out := make([][]byte, len(cs))
	for i, c := range cs {
		out[i] = c.Raw()
	}
	return out
}

// WaitQuiet returns once the backend saw no accept and no byte for `quiet`, or after max.
func (b *Backend) WaitQuiet(quiet, max time.Duration) {
	deadline := time.Now().Add(max)
	for time.Now().Before(deadline) {
		b.mu.Lock()
		idle := time.Since(b.last)
		b.mu.Unlock()
		if idle >= quiet {
			return
		}
		time.Sleep(quiet / 4)
	}
}

// Raw is a snapshot of everything this connection received so far.
func (c *BackendConn) Raw() []byte {
	c.mu.Lock()
	defer c.mu.Unlock()
	return append([]byte(nil), c.raw.Bytes()...)
}

// ReadRequest parses one request with Go's net/http (independent of bfe_http) and reads its
// body completely; Body is replaced by the bytes read.
func (c *BackendConn) ReadRequest() (*http.Request, []byte, error) {
	req, err := http.ReadRequest(c.R)
	if err != nil {
		return nil, nil, err
	}
	body, err := io.ReadAll(req.Body)
	req.Body.Close()
	return req, body, err
}

// Reset closes the connection with RST (SO_LINGER 0).
func (c *BackendConn) Reset() {
	if tc, ok := c.Conn.(*net.TCPConn); ok {
		tc.SetLinger(0)
	}
	c.Conn.Close()
}

// Drain reads until EOF/error (captures everything the peer still sends).
func (c *BackendConn) Drain() { io.Copy(io.Discard, c.R) }

// ---------------------------------------------------------------- canned scripts

// ClosedPort returns a loopback address on which nothing listens (connect is refused).
func ClosedPort() string {
	ln, err := net.Listen("tcp4", "127.0.0.1:0")
	if err != nil {
		return "127.0.0.1:1"
	}
	a := ln.Addr().String()
	ln.Close()
	return a
}

// AcceptClose closes every connection immediately.
func AcceptClose(c *BackendConn) {}

// ReadThenReset reads one request, then resets the connection.
func ReadThenReset(c *BackendConn) {
	c.ReadRequest()
	c.Reset()
}

// Stall reads whatever arrives and never answers for d, then closes.
func Stall(d time.Duration) func(c *BackendConn) {
	return func(c *BackendConn) {
		c.Conn.SetReadDeadline(time.Now().Add(d))
		c.Drain()
	}
}

// Respond answers every request on the connection with the given raw bytes (keep-alive until
// the peer closes).  closeAfter closes the connection after the first response.
func Respond(raw string, closeAfter bool) func(c *BackendConn) {
	return RespondFunc(func(*http.Request, []byte, int) (string, bool) { return raw, closeAfter })
}

// RespondFunc: f gets the parsed request, its body and the request ordinal on this connection and
// returns the raw response bytes and whether to close afterwards.
func RespondFunc(f func(req *http.Request, body []byte, n int) (raw string, closeAfter bool)) func(c *BackendConn) {
	return func(c *BackendConn) {
		for n := 0; ; n++ {
			req, body, err := c.ReadRequest()
			if err != nil {
				return
			}
			raw, cl := f(req, body, n)
			if _, err := io.WriteString(c.Conn, raw); err != nil {
				return
			}
			if cl {
				// let the peer read everything before FIN
				if tc, ok := c.Conn.(*net.TCPConn); ok {
					tc.CloseWrite()
					c.Conn.SetReadDeadline(time.Now().Add(2 * time.Second))
					c.Drain()
				}
				return
			}
		}
	}
}

// RawResponse formats "HTTP/1.1 <status> X\r\n<headers>\r\n<body>" without adding anything.
func RawResponse(status int, headers [][2]string, body string) string {
	var b bytes.Buffer
	fmt.Fprintf(&b, "HTTP/1.1 %d %s\r\n", status, http.StatusText(status))
	for _, kv := range headers {
		fmt.Fprintf(&b, "%s: %s\r\n", kv[0], kv[1])
	}
	b.WriteString("\r\n")
	b.WriteString(body)
	return b.String()
}

// OK is a 200 response with Content-Length.
func OK(body string) string {
	return RawResponse(200, [][2]string{{"Content-Length", fmt.Sprint(len(body))}}, body)
}
