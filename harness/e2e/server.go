// Package e2e starts an in-process bfe_server.BfeServer exactly as bfe_server.StartUp does,
// from a generated conf-root, plus scripted backends and raw protocol clients.
// See README.md for the API and its guarantees.
package e2e

import (
	"encoding/json"
	"fmt"
	"io"
	"net"
	"net/url"
	"os"
	"path/filepath"
	"regexp"
	"strconv"
	"strings"
	"sync"
	"time"

	"github.com/baidu/go-lib/web-monitor/web_monitor"
	"github.com/bfenetworks/bfe/bfe_basic"
	"github.com/bfenetworks/bfe/bfe_config/bfe_conf"
	"github.com/bfenetworks/bfe/bfe_http"
	"github.com/bfenetworks/bfe/bfe_module"
	"github.com/bfenetworks/bfe/bfe_modules"
	"github.com/bfenetworks/bfe/bfe_server"
)

// Product is the single product every generated conf-root routes to.
const Product = "p"

// Cluster describes one backend cluster of the generated configuration.
type Cluster struct {
	Name     string
	Backends []string // "ip:port" (Backend.Addr, ClosedPort()); one sub-cluster "<name>.sub"
	Weights  []int    // optional, default 1 each
	// Conf is merged section-wise into the default cluster conf, e.g.
	// {"BackendConf": {"RetryLevel": 1, "TimeoutResponseHeader": 300}, "GslbBasic": {"RetryMax": 3}}
	Conf map[string]map[string]interface{}
}

// Route is one route rule of product "p" (evaluated in order; a final default_t() -> first
// cluster is always appended).
type Route struct {
	Cond    string
	Cluster string
}

// Options for Start.  The zero value is a plain HTTP proxy with no modules and no cluster.
type Options struct {
	Clusters   []Cluster
	Routes     []Route
	Modules    []string          // enable list (bfe.conf "Modules = ..."), default none
	Files      map[string]string // conf-root relative path -> content, written after the copy of conf/
	TLS        bool              // also serve HTTPS on TLSAddr
	NextProtos []string          // tls_rule_conf DefaultNextProtos, default ["h2","http/1.1"]
	V6         bool              // listen on [::1] instead of 127.0.0.1
	Tweak      func(cfg *bfe_conf.BfeConfig)
}

// Server is one running in-process BFE.
type Server struct {
	Srv      *bfe_server.BfeServer
	ConfRoot string
	Addr     string // plain HTTP listener
	TLSAddr  string // HTTPS listener ("" unless Options.TLS)

	ln, lnTLS net.Listener
	tmp       string
	closeOnce sync.Once
}

var (
	setModulesOnce sync.Once
	startMu        sync.Mutex // NewBfeServer/InitHttps touch package globals (bfe_http2.SetServerRule, ...)
)

// RepoConf returns the conf directory the conf-root is copied from ($VERIF_REPO/conf or /repo/conf).
func RepoConf() string {
	r := os.Getenv("VERIF_REPO")
	if r == "" {
		r = "/repo"
	}
	return filepath.Join(r, "conf")
}

func copyTree(src, dst string) error {
	return filepath.Walk(src, func(p string, info os.FileInfo, err error) error {
		if err != nil {
			return err
		}
		rel, _ := filepath.Rel(src, p)
		out := filepath.Join(dst, rel)
		if info.IsDir() {
			return os.MkdirAll(out, 0o755)
		}
		in, err := os.Open(p)
		if err != nil {
			return err
		}
		defer in.Close()
		o, err := os.OpenFile(out, os.O_CREATE|os.O_WRONLY|os.O_TRUNC, 0o644)
		if err != nil {
			return err
		}
		defer o.Close()
		_, err = io.Copy(o, in)
		return err
	})
}

var modulesLine = regexp.MustCompile(`(?m)^\s*#?\s*Modules\s*=.*\n`)

// Start builds the conf-root and the server and begins serving.
func Start(o Options) (*Server, error) {
	tmp, err := os.MkdirTemp("", "verif-e2e-")
	if err != nil {
		return nil, err
	}
	s := &Server{tmp: tmp, ConfRoot: filepath.Join(tmp, "conf")}
	ok := false
	defer func() {
		if !ok {
			s.Close()
		}
	}()
	if err := copyTree(RepoConf(), s.ConfRoot); err != nil {
		return nil, fmt.Errorf("copy conf: %v", err)
	}
	// bfe.conf: module enable list
	confPath := filepath.Join(s.ConfRoot, "bfe.conf")
	b, err := os.ReadFile(confPath)
	if err != nil {
		return nil, err
	}
	txt := modulesLine.ReplaceAllString(string(b), "")
	mods := ""
	for _, m := range o.Modules {
		mods += "Modules = " + m + "\n"
	}
	txt = strings.Replace(txt, "[Server]\n", "[Server]\n"+mods, 1)
	if err := os.WriteFile(confPath, []byte(txt), 0o644); err != nil {
		return nil, err
	}
	// TLS rule file: the shipped one uses `;`-separated NextProtos parameters which
	// url.ParseQuery rejects since Go 1.17.
	np := o.NextProtos
	if len(np) == 0 {
		np = []string{"h2", "http/1.1"}
	}
	rule := map[string]interface{}{"Version": "e2e", "DefaultNextProtos": np, "Config": map[string]interface{}{}}
	if err := s.writeJSON("tls_conf/tls_rule_conf.data", rule); err != nil {
		return nil, err
	}
	if err := s.SetClusters(o.Clusters, o.Routes); err != nil {
		return nil, err
	}
	for rel, content := range o.Files {
		if err := s.WriteFile(rel, content); err != nil {
			return nil, err
		}
	}

	startMu.Lock()
	defer startMu.Unlock()
	cfg, err := bfe_conf.BfeConfigLoad(confPath, s.ConfRoot)
	if err != nil {
		return nil, fmt.Errorf("BfeConfigLoad: %v", err)
	}
	cfg.Server.MonitorPort = 0
	if o.Tweak != nil {
		o.Tweak(&cfg)
	}
	setModulesOnce.Do(bfe_modules.SetModules)
	srv := bfe_server.NewBfeServer(cfg, s.ConfRoot, "e2e")
	if err := srv.InitHttp(); err != nil {
		return nil, fmt.Errorf("InitHttp: %v", err)
	}
	if err := srv.InitHttps(); err != nil {
		return nil, fmt.Errorf("InitHttps: %v", err)
	}
	if err := srv.InitDataLoad(); err != nil {
		return nil, fmt.Errorf("InitDataLoad: %v", err)
	}
	if err := srv.InitWebMonitor(0); err != nil {
		return nil, fmt.Errorf("InitWebMonitor: %v", err)
	}
	if err := srv.RegisterModules(cfg.Server.Modules); err != nil {
		return nil, fmt.Errorf("RegisterModules: %v", err)
	}
	if err := srv.InitModules(); err != nil {
		return nil, fmt.Errorf("InitModules: %v", err)
	}
	s.Srv = srv
	host := "127.0.0.1"
	network := "tcp4"
	if o.V6 {
		host, network = "[::1]", "tcp6"
	}
	if s.ln, err = net.Listen(network, host+":0"); err != nil {
		return nil, err
	}
	s.Addr = s.ln.Addr().String()
	srv.HttpListener = s.ln
	go srv.ServeHttp(s.ln)
	if o.TLS {
		if s.lnTLS, err = net.Listen(network, host+":0"); err != nil {
			return nil, err
		}
		s.TLSAddr = s.lnTLS.Addr().String()
		hl := bfe_server.NewHttpsListener(s.lnTLS, srv.TLSConfig)
		srv.HttpsListener = hl
		go srv.ServeHttps(hl)
	}
	ok = true
	return s, nil
}

// Close stops accepting, and removes the conf-root.  Connections still open are closed by
// their clients; BFE has no Stop(), its background goroutines (health checks, module timers)
// stay until the process exits.
func (s *Server) Close() {
	s.closeOnce.Do(func() {
		if s.ln != nil {
			s.ln.Close()
		}
		if s.lnTLS != nil {
			s.lnTLS.Close()
		}
		os.RemoveAll(s.tmp)
	})
}

// WriteFile writes a file below the conf-root (directories are created).
func (s *Server) WriteFile(rel, content string) error {
	p := filepath.Join(s.ConfRoot, rel)
	if err := os.MkdirAll(filepath.Dir(p), 0o755); err != nil {
		return err
	}
	tmp := p + ".tmp"
	if err := os.WriteFile(tmp, []byte(content), 0o644); err != nil {
		return err
	}
	return os.Rename(tmp, p)
}

func (s *Server) writeJSON(rel string, v interface{}) error {
	b, err := json.MarshalIndent(v, "", " ")
	if err != nil {
		return err
	}
	return s.WriteFile(rel, string(b))
}

func defaultClusterConf() map[string]map[string]interface{} {
	return map[string]map[string]interface{}{
		"BackendConf": {"TimeoutConnSrv": 20000, "TimeoutResponseHeader": 50000,
			"MaxIdleConnsPerHost": 0, "RetryLevel": 0},
		"CheckConf": {"Schem": "tcp", "FailNum": 1000, "CheckInterval": 1000},
		"GslbBasic": {"CrossRetry": 0, "RetryMax": 2},
		"ClusterBasic": {"TimeoutReadClient": 30000, "TimeoutWriteClient": 60000,
			"TimeoutReadClientAgain": 30000, "ReqWriteBufferSize": 512, "ReqFlushInterval": 0,
			"ResFlushInterval": -1, "CancelOnClientClose": false},
	}
}

// SetClusters (re)writes host_rule / vip_rule / route_rule / cluster_conf / cluster_table / gslb
// data files.  It does not reload; call ReloadServerData / ReloadGslb.
// Every Host routes to product "p" (DefaultProduct); hosts "example.org" and "p.example" are
// listed explicitly.
func (s *Server) SetClusters(cs []Cluster, routes []Route) error {
	ver := strconv.FormatInt(time.Now().UnixNano(), 10)
	dp := Product
	host := map[string]interface{}{"Version": ver, "DefaultProduct": &dp,
		"Hosts":    map[string][]string{"pTag": {"example.org", "p.example"}},
		"HostTags": map[string][]string{Product: {"pTag"}}}
	vip := map[string]interface{}{"Version": ver, "Vips": map[string][]string{Product: {"111.111.111.111"}}}
	rules := []map[string]string{}
	for _, r := range routes {
		rules = append(rules, map[string]string{"Cond": r.Cond, "ClusterName": r.Cluster})
	}
	if len(cs) > 0 {
		rules = append(rules, map[string]string{"Cond": "default_t()", "ClusterName": cs[0].Name})
	}
	route := map[string]interface{}{"Version": ver, "ProductRule": map[string]interface{}{Product: rules}}
	cconf := map[string]interface{}{}
	ctable := map[string]interface{}{}
	gslb := map[string]interface{}{}
	for _, c := range cs {
		cc := defaultClusterConf()
		for sec, kv := range c.Conf {
			if cc[sec] == nil {
				cc[sec] = map[string]interface{}{}
			}
			for k, v := range kv {
				cc[sec][k] = v
			}
		}
		cconf[c.Name] = cc
		bks := []map[string]interface{}{}
		for i, a := range c.Backends {
			h, p, err := net.SplitHostPort(a)
			if err != nil {
				return fmt.Errorf("backend %q: %v", a, err)
			}
			port, _ := strconv.Atoi(p)
			w := 1
			if i < len(c.Weights) {
				w = c.Weights[i]
			}
			bks = append(bks, map[string]interface{}{"Addr": h, "Name": fmt.Sprintf("%s.b%d", c.Name, i),
				"Port": port, "Weight": w})
		}
		ctable[c.Name] = map[string]interface{}{c.Name + ".sub": bks}
		gslb[c.Name] = map[string]int{"GSLB_BLACKHOLE": 0, c.Name + ".sub": 100}
	}
	if err := s.writeJSON("server_data_conf/host_rule.data", host); err != nil {
		return err
	}
	if err := s.writeJSON("server_data_conf/vip_rule.data", vip); err != nil {
		return err
	}
	if err := s.writeJSON("server_data_conf/route_rule.data", route); err != nil {
		return err
	}
	if err := s.writeJSON("server_data_conf/cluster_conf.data",
		map[string]interface{}{"Version": ver, "Config": cconf}); err != nil {
		return err
	}
	if err := s.writeJSON("cluster_conf/cluster_table.data",
		map[string]interface{}{"Version": ver, "Config": ctable}); err != nil {
		return err
	}
	return s.writeJSON("cluster_conf/gslb.data",
		map[string]interface{}{"Clusters": gslb, "Hostname": "", "Ts": ver})
}

// ReloadServerData is the /reload/server_data_conf action.
func (s *Server) ReloadServerData() error { return s.Srv.ServerDataConfReload(nil) }

// ReloadGslb is the /reload/gslb_data_conf action.
func (s *Server) ReloadGslb() error { return s.Srv.GslbDataConfReload(nil) }

// Reload invokes any registered /reload/<command> handler (server or module, e.g. "mod_header",
// "mod_trust_clientip", "tls_conf") the way the web monitor does, without HTTP.
func (s *Server) Reload(command string, params url.Values) (err error) {
	defer func() {
		if p := recover(); p != nil {
			err = fmt.Errorf("reload panic: %v", p)
		}
	}()
	f, err := s.Srv.Monitor.WebHandlers.GetHandler(web_monitor.WebHandleReload, command)
	if err != nil {
		return err
	}
	switch h := f.(type) {
	case func() error:
		return h()
	case func(map[string][]string) error:
		return h(params)
	case func(url.Values) error:
		return h(params)
	case func(url.Values) (string, error):
		_, err = h(params)
		return err
	}
	return fmt.Errorf("unsupported reload handler type %T", f)
}

// ---------------------------------------------------------------- filters

// Call is what a filter installed with AddFilter sees.  Req/Res are nil at the points that
// do not have them (accept/handshake/finish have only Session; request points have no Res).
type Call struct {
	Point   int
	Req     *bfe_basic.Request
	Res     *bfe_http.Response
	Session *bfe_basic.Session
}

// AddFilter appends a filter at any of the nine callback points (bfe_module.HandleAccept ..
// HandleFinish) through srv.CallBacks.AddFilter.  The returned verdict is one of
// bfe_module.BfeHandler{GoOn,Finish,Redirect,Response,Close}; resp is used only at request
// points (BeforeLocation, FoundProduct, AfterLocation) with BfeHandlerResponse.
func (s *Server) AddFilter(point int, f func(c *Call) (verdict int, resp *bfe_http.Response)) error {
	cb := s.Srv.CallBacks
	switch point {
	case bfe_module.HandleAccept, bfe_module.HandleHandshake, bfe_module.HandleFinish:
		return cb.AddFilter(point, func(sess *bfe_basic.Session) int {
			v, _ := f(&Call{Point: point, Session: sess})
			return v
		})
	case bfe_module.HandleBeforeLocation, bfe_module.HandleFoundProduct, bfe_module.HandleAfterLocation:
		return cb.AddFilter(point, func(req *bfe_basic.Request) (int, *bfe_http.Response) {
			return f(&Call{Point: point, Req: req, Session: req.Session})
		})
	case bfe_module.HandleForward:
		return cb.AddFilter(point, func(req *bfe_basic.Request) int {
			v, _ := f(&Call{Point: point, Req: req, Session: req.Session})
			return v
		})
	case bfe_module.HandleReadResponse, bfe_module.HandleRequestFinish:
		return cb.AddFilter(point, func(req *bfe_basic.Request, res *bfe_http.Response) int {
			v, _ := f(&Call{Point: point, Req: req, Res: res, Session: req.Session})
			return v
		})
	}
	return fmt.Errorf("invalid callback point %d", point)
}

// MakeResponse builds a module-style response for a BfeHandlerResponse verdict
// (same construction as bfe_basic.CreateInternalResp, with caller-chosen headers).
func MakeResponse(req *bfe_basic.Request, status int, hdr [][2]string, body string) *bfe_http.Response {
	res := new(bfe_http.Response)
	res.StatusCode = status
	res.Header = make(bfe_http.Header)
	for _, kv := range hdr {
		res.Header.Add(kv[0], kv[1])
	}
	res.Body = io.NopCloser(strings.NewReader(body))
	res.ContentLength = int64(len(body))
	if req != nil {
		res.Request = req.HttpRequest
	}
	return res
}

// SetRedirect fills req.Redirect for a BfeHandlerRedirect verdict.
func SetRedirect(req *bfe_basic.Request, url string, code int) {
	req.Redirect.Url = url
	req.Redirect.Code = code
}
