package e2e

import (
	"bufio"
	"bytes"
	"crypto/tls"
	"errors"
	"fmt"
	"io"
	"net"
	"net/http"
	"sync"
	"time"

	"golang.org/x/net/http2"
	"golang.org/x/net/http2/hpack"
)

// ---------------------------------------------------------------- HTTP/1 raw client

// H1 is a raw HTTP/1 client connection.  Responses are parsed by Go's net/http.ReadResponse
// (independent of bfe_http); every byte received is accounted for.
type H1 struct {
	Conn net.Conn

	br       *bufio.Reader
	mu       sync.Mutex
	all      bytes.Buffer // every byte received
	consumed int          // bytes handed out through ReadResponse so far
}

type h1tee struct{ c *H1 }

func (t h1tee) Read(p []byte) (int, error) {
	n, err := t.c.Conn.Read(p)
	if n > 0 {
		t.c.mu.Lock()
		t.c.all.Write(p[:n])
		t.c.mu.Unlock()
	}
	return n, err
}

// DialH1 connects to addr (plain TCP).
func DialH1(addr string) (*H1, error) {
	c, err := net.DialTimeout("tcp", addr, 5*time.Second)
	if err != nil {
		return nil, err
	}
	return NewH1(c), nil
}

// DialH1TLS connects with Go's crypto/tls offering only http/1.1.
func DialH1TLS(addr string) (*H1, error) {
	c, err := tls.DialWithDialer(&net.Dialer{Timeout: 5 * time.Second}, "tcp", addr,
		&tls.Config{InsecureSkipVerify: true, NextProtos: []string{"http/1.1"}, ServerName: "example.org"})
	if err != nil {
		return nil, err
	}
	return NewH1(c), nil
}

// NewH1 wraps an established connection.
func NewH1(c net.Conn) *H1 {
	h := &H1{Conn: c}
	h.br = bufio.NewReader(h1tee{h})
	return h
}

// Send writes raw bytes.
func (c *H1) Send(b string) error {
	c.Conn.SetWriteDeadline(time.Now().Add(10 * time.Second))
	_, err := io.WriteString(c.Conn, b)
	return err
}

// Response is one parsed response with its exact bytes.
type Response struct {
	Status        int
	Proto         string
	Header        http.Header
	TE            []string // Transfer-Encoding as seen by the parser
	ContentLength int64    // -1 unknown
	Close         bool     // parser's verdict: connection closes after this response
	Body          []byte
	BodyErr       string // non-empty if the body could not be read completely
	Raw           []byte // exactly the bytes this response occupied on the wire
	UntilEOF      bool   // body was delimited by connection close
}

// ReadResponse parses the next response for a request with the given method.  timeout bounds
// the whole read.  Interim (1xx) responses are returned like any other; call again.
func (c *H1) ReadResponse(method string, timeout time.Duration) (*Response, error) {
	c.Conn.SetReadDeadline(time.Now().Add(timeout))
	defer c.Conn.SetReadDeadline(time.Time{})
	res, err := http.ReadResponse(c.br, &http.Request{Method: method})
	if err != nil {
		return nil, err
	}
	r := &Response{Status: res.StatusCode, Proto: res.Proto, Header: res.Header, TE: res.TransferEncoding,
		ContentLength: res.ContentLength, Close: res.Close}
	r.UntilEOF = res.ContentLength == -1 && len(res.TransferEncoding) == 0 && method != "HEAD" &&
		res.StatusCode >= 200 && res.StatusCode != 204 && res.StatusCode != 304
	body, berr := io.ReadAll(res.Body)
	res.Body.Close()
	r.Body = body
	if berr != nil {
		r.BodyErr = berr.Error()
	}
	c.mu.Lock()
	end := c.all.Len() - c.br.Buffered()
	r.Raw = append([]byte(nil), c.all.Bytes()[c.consumed:end]...)
	c.consumed = end
	c.mu.Unlock()
	return r, nil
}

// WaitClose reads until the peer closes (EOF or reset) or the timeout expires.  It returns
// whether the connection was closed and any bytes that arrived and were not consumed by
// ReadResponse.
func (c *H1) WaitClose(timeout time.Duration) (closed bool, extra []byte) {
	c.Conn.SetReadDeadline(time.Now().Add(timeout))
	defer c.Conn.SetReadDeadline(time.Time{})
	_, err := io.Copy(io.Discard, c.br)
	var ne net.Error
	if errors.As(err, &ne) && ne.Timeout() {
		closed = false
	} else {
		closed = true // EOF (err == nil) or reset
	}
	c.mu.Lock()
	extra = append([]byte(nil), c.all.Bytes()[c.consumed:]...)
	c.consumed = c.all.Len()
	c.mu.Unlock()
	return
}

// Unconsumed returns bytes received but not (yet) consumed by ReadResponse, without reading.
func (c *H1) Unconsumed() []byte {
	c.mu.Lock()
	defer c.mu.Unlock()
	return append([]byte(nil), c.all.Bytes()[c.consumed:]...)
}

// Close closes the client side.
func (c *H1) Close() { c.Conn.Close() }

// ---------------------------------------------------------------- HTTP/2 raw client

// H2 is a frame-level HTTP/2 client over TLS (Go crypto/tls + x/net/http2 Framer + hpack).
type H2 struct {
	Conn *tls.Conn
	Fr   *http2.Framer

	hbuf bytes.Buffer
	enc  *hpack.Encoder
	dec  *hpack.Decoder
	cur  []hpack.HeaderField
	next uint32
	// frames of other streams / connection seen while waiting
	GoAway *http2.GoAwayFrame
}

// DialH2 handshakes TLS with ALPN h2, sends the preface and an empty SETTINGS frame and waits
// for the server's SETTINGS (acknowledging it).
func DialH2(addr string) (*H2, error) {
	c, err := tls.DialWithDialer(&net.Dialer{Timeout: 5 * time.Second}, "tcp", addr,
		&tls.Config{InsecureSkipVerify: true, NextProtos: []string{"h2"}, ServerName: "example.org"})
	if err != nil {
		return nil, err
	}
	if p := c.ConnectionState().NegotiatedProtocol; p != "h2" {
		c.Close()
		return nil, fmt.Errorf("ALPN negotiated %q, want h2", p)
	}
	h := &H2{Conn: c, next: 1}
	h.enc = hpack.NewEncoder(&h.hbuf)
	h.dec = hpack.NewDecoder(4096, func(f hpack.HeaderField) { h.cur = append(h.cur, f) })
	c.SetDeadline(time.Now().Add(10 * time.Second))
	if _, err := io.WriteString(c, http2.ClientPreface); err != nil {
		return nil, err
	}
	h.Fr = http2.NewFramer(c, c)
	h.Fr.AllowIllegalWrites = true
	if err := h.Fr.WriteSettings(); err != nil {
		return nil, err
	}
	for {
		f, err := h.Fr.ReadFrame()
		if err != nil {
			return nil, fmt.Errorf("waiting for server SETTINGS: %v", err)
		}
		if sf, ok := f.(*http2.SettingsFrame); ok && !sf.IsAck() {
			h.Fr.WriteSettingsAck()
			break
		}
	}
	c.SetDeadline(time.Time{})
	return h, nil
}

// NextStreamID returns a fresh odd stream id.
func (c *H2) NextStreamID() uint32 {
	id := c.next
	c.next += 2
	return id
}

// WriteHeaders hpack-encodes fields verbatim (no validation, no lower-casing) and sends one
// HEADERS frame with END_HEADERS.
func (c *H2) WriteHeaders(streamID uint32, fields []hpack.HeaderField, endStream bool) error {
	c.hbuf.Reset()
	for _, f := range fields {
		if err := c.enc.WriteField(f); err != nil {
			return err
		}
	}
	c.Conn.SetWriteDeadline(time.Now().Add(10 * time.Second))
	return c.Fr.WriteHeaders(http2.HeadersFrameParam{StreamID: streamID, BlockFragment: c.hbuf.Bytes(),
		EndStream: endStream, EndHeaders: true})
}

// WriteData sends one DATA frame.
func (c *H2) WriteData(streamID uint32, data []byte, endStream bool) error {
	c.Conn.SetWriteDeadline(time.Now().Add(10 * time.Second))
	return c.Fr.WriteData(streamID, endStream, data)
}

// H2Response is what the server sent on one stream.
type H2Response struct {
	Status   string
	Fields   []hpack.HeaderField // response header block, in order, including :status
	Trailers []hpack.HeaderField
	Body     []byte
	Ended    bool           // END_STREAM seen
	Reset    *http2.ErrCode // RST_STREAM received
	GoAway   *http2.ErrCode // GOAWAY received while waiting
	ConnErr  string         // read error (EOF = connection closed)
}

// ReadStream reads frames until the stream ends (END_STREAM, RST_STREAM), the connection
// fails, or the timeout expires (ConnErr "timeout").  SETTINGS and PING are acknowledged and
// flow-control windows are replenished.
func (c *H2) ReadStream(streamID uint32, timeout time.Duration) *H2Response {
	r := &H2Response{}
	c.Conn.SetReadDeadline(time.Now().Add(timeout))
	defer c.Conn.SetReadDeadline(time.Time{})
	gotHeaders := false
	for {
		f, err := c.Fr.ReadFrame()
		if err != nil {
			var ne net.Error
			if errors.As(err, &ne) && ne.Timeout() {
				r.ConnErr = "timeout"
			} else {
				r.ConnErr = err.Error()
			}
			return r
		}
		switch f := f.(type) {
		case *http2.SettingsFrame:
			if !f.IsAck() {
				c.Fr.WriteSettingsAck()
			}
		case *http2.PingFrame:
			if !f.IsAck() {
				c.Fr.WritePing(true, f.Data)
			}
		case *http2.GoAwayFrame:
			ec := f.ErrCode
			r.GoAway = &ec
			c.GoAway = f
		case *http2.RSTStreamFrame:
			if f.StreamID == streamID {
				ec := f.ErrCode
				r.Reset = &ec
				return r
			}
		case *http2.HeadersFrame:
			frag := append([]byte(nil), f.HeaderBlockFragment()...)
			ended := f.HeadersEnded()
			for !ended {
				nf, err := c.Fr.ReadFrame()
				if err != nil {
					r.ConnErr = err.Error()
					return r
				}
				cf, ok := nf.(*http2.ContinuationFrame)
				if !ok {
					r.ConnErr = "expected CONTINUATION"
					return r
				}
				frag = append(frag, cf.HeaderBlockFragment()...)
				ended = cf.HeadersEnded()
			}
			c.cur = nil
			if _, err := c.dec.Write(frag); err != nil {
				r.ConnErr = "hpack: " + err.Error()
				return r
			}
			c.dec.Close()
			if f.StreamID != streamID {
				continue
			}
			if !gotHeaders {
				gotHeaders = true
				r.Fields = c.cur
				for _, hf := range c.cur {
					if hf.Name == ":status" {
						r.Status = hf.Value
					}
				}
			} else {
				r.Trailers = c.cur
			}
			if f.StreamEnded() {
				r.Ended = true
				return r
			}
		case *http2.DataFrame:
			if n := len(f.Data()); n > 0 {
				c.Fr.WriteWindowUpdate(0, uint32(n))
				if f.StreamID == streamID && !f.StreamEnded() {
					c.Fr.WriteWindowUpdate(streamID, uint32(n))
				}
			}
			if f.StreamID == streamID {
				r.Body = append(r.Body, f.Data()...)
				if f.StreamEnded() {
					r.Ended = true
					return r
				}
			}
		}
	}
}

// Close closes the connection.
func (c *H2) Close() { c.Conn.Close() }
