package e2e

// SPDY/3.1 client for the in-process BFE: Go's crypto/tls (ALPN "spdy/3.1") + the repository's own
// bfe_spdy.Framer (no independent SPDY implementation exists offline).  One request at a time.

import (
	"crypto/tls"
	"errors"
	"fmt"
	"net"
	"strconv"
	"strings"
	"time"

	bfe_http "github.com/bfenetworks/bfe/bfe_http"
	spdy "github.com/bfenetworks/bfe/bfe_spdy"
)

// SPDY is one SPDY/3.1 connection to the TLS listener.
type SPDY struct {
	Conn   net.Conn
	Framer *spdy.Framer

	nextID   uint32 // next client stream id (odd)
	sendConn int64  // session send window (what the server lets us send)
	initWin  int64  // server's SETTINGS_INITIAL_WINDOW_SIZE for new streams
	// GoAway is set once the server announced GOAWAY (status inside).
	GoAway *spdy.GoAwayFrame
}

const spdyChunk = 16384

// DialSPDY connects to tlsAddr offering only "spdy/3.1"; it fails if the server selects anything else.
func DialSPDY(tlsAddr string) (*SPDY, error) {
	c, err := tls.DialWithDialer(&net.Dialer{Timeout: 5 * time.Second}, "tcp", tlsAddr,
		&tls.Config{InsecureSkipVerify: true, NextProtos: []string{spdy.NextProtoTLS}, ServerName: "example.org"})
	if err != nil {
		return nil, err
	}
	if p := c.ConnectionState().NegotiatedProtocol; p != spdy.NextProtoTLS {
		c.Close()
		return nil, fmt.Errorf("server selected %q, not %q", p, spdy.NextProtoTLS)
	}
	fr, err := spdy.NewFramer(c, c)
	if err != nil {
		c.Close()
		return nil, err
	}
	return &SPDY{Conn: c, Framer: fr, nextID: 1, sendConn: 65536, initWin: 65536}, nil
}

// SPDYStreamError is returned by Do when the server reset the stream.
type SPDYStreamError struct {
	StreamID uint32
	Status   spdy.RstStreamStatus
}

func (e *SPDYStreamError) Error() string {
	return fmt.Sprintf("spdy: RST_STREAM(%d) status %d", e.StreamID, e.Status)
}

// SPDYGoAwayError is returned by Do when the server sent GOAWAY before the reply was complete.
type SPDYGoAwayError struct {
	LastGood uint32
	Status   spdy.GoAwayStatus
}

func (e *SPDYGoAwayError) Error() string {
	return fmt.Sprintf("spdy: GOAWAY last-good %d status %d", e.LastGood, e.Status)
}

// Do sends one request on the next odd stream id and reads until its reply is complete.
// body == nil: FLAG_FIN on the SYN_STREAM; body != nil (also empty): DATA frame(s) within the
// server's flow-control windows, the last one (an empty one for an empty body) with FLAG_FIN.
// timeout bounds the whole exchange.
func (c *SPDY) Do(method, path, host string, hdr map[string]string, body []byte, timeout time.Duration) (status int, respBody []byte, err error) {
	id := c.nextID
	c.nextID += 2
	c.Conn.SetDeadline(time.Now().Add(timeout))
	defer c.Conn.SetDeadline(time.Time{})

	syn := &spdy.SynStreamFrame{StreamId: spdy.StreamId(id), Headers: bfe_http.Header{
		":method": {method}, ":path": {path}, ":version": {"HTTP/1.1"}, ":host": {host}, ":scheme": {"https"}}}
	for k, v := range hdr {
		syn.Headers[strings.ToLower(k)] = []string{v}
	}
	if body == nil {
		syn.CFHeader.Flags = spdy.ControlFlagFin
	}
	if err = c.Framer.WriteFrame(syn); err != nil {
		return 0, nil, err
	}

	sendStream := c.initWin
	pending, finSent := body, body == nil
	gotReply, done := false, false

	for !done {
		// send as much of the body as the windows allow
		for !finSent {
			n := int64(len(pending))
			if n > spdyChunk {
				n = spdyChunk
			}
			if n > sendStream {
				n = sendStream
			}
			if n > c.sendConn {
				n = c.sendConn
			}
			if n <= 0 && len(pending) > 0 {
				break // blocked on flow control: go and read WINDOW_UPDATEs
			}
			d := &spdy.DataFrame{StreamId: spdy.StreamId(id), Data: pending[:n]}
			pending = pending[n:]
			if len(pending) == 0 {
				d.Flags = spdy.DataFlagFin
				finSent = true
			}
			if err = c.Framer.WriteFrame(d); err != nil {
				return status, respBody, err
			}
			sendStream -= n
			c.sendConn -= n
		}

		f, rerr := c.Framer.ReadFrame()
		if rerr != nil {
			return status, respBody, rerr
		}
		switch g := f.(type) {
		case *spdy.SettingsFrame:
			for _, s := range g.FlagIdValues {
				if s.Id == spdy.SettingsInitialWindowSize {
					sendStream += int64(s.Value) - c.initWin
					c.initWin = int64(s.Value)
				}
			}
		case *spdy.PingFrame:
			if g.Id%2 == 0 { // server-initiated: echo
				if err = c.Framer.WriteFrame(&spdy.PingFrame{Id: g.Id}); err != nil {
					return status, respBody, err
				}
			}
		case *spdy.WindowUpdateFrame:
			switch uint32(g.StreamId) {
			case 0:
				c.sendConn += int64(g.DeltaWindowSize)
			case id:
				sendStream += int64(g.DeltaWindowSize)
			}
		case *spdy.SynReplyFrame:
			if uint32(g.StreamId) != id {
				break
			}
			gotReply = true
			st := g.Headers.Get(":status")
			if len(st) >= 3 {
				status, _ = strconv.Atoi(st[:3])
			}
			if status == 0 {
				return 0, nil, fmt.Errorf("spdy: SYN_REPLY without usable :status (%q)", st)
			}
			done = g.StreamEnded()
		case *spdy.DataFrame:
			if n := len(g.Data); n > 0 { // give the octets back: session always, stream while it is open
				if err = c.Framer.WriteFrame(&spdy.WindowUpdateFrame{StreamId: 0, DeltaWindowSize: uint32(n)}); err != nil {
					return status, respBody, err
				}
				if uint32(g.StreamId) == id && !g.StreamEnded() {
					if err = c.Framer.WriteFrame(&spdy.WindowUpdateFrame{StreamId: g.StreamId, DeltaWindowSize: uint32(n)}); err != nil {
						return status, respBody, err
					}
				}
			}
			if uint32(g.StreamId) != id {
				break
			}
			if !gotReply {
				return status, respBody, errors.New("spdy: DATA before SYN_REPLY")
			}
			respBody = append(respBody, g.Data...)
			done = g.StreamEnded()
		case *spdy.RstStreamFrame:
			if uint32(g.StreamId) == id {
				return status, respBody, &SPDYStreamError{id, g.Status}
			}
		case *spdy.GoAwayFrame:
			c.GoAway = g
			return status, respBody, &SPDYGoAwayError{uint32(g.LastGoodStreamId), g.Status}
		}
	}
	return status, respBody, nil
}

// Close closes the connection.
func (c *SPDY) Close() {
	c.Framer.ReleaseWriter()
	c.Conn.Close()
}
