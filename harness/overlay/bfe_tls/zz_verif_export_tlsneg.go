// Added to package bfe_tls at build time through `go build -overlay` (never committed to /repo).
//
// A TLS *client* driver whose ClientHello is given field by field (client_version, ordered cipher
// suite list incl. signalling values such as TLS_FALLBACK_SCSV, curves / point formats present or
// absent, ALPN list, SNI, session id, ticket).  Needed because neither crypto/tls nor bfe_tls's
// own Client() lets a caller choose these (both filter signalling suites, neither can resume by
// session id).  Everything after the hello is bfe_tls's own client state machine
// (processServerHello, doFullHandshake, establishKeys, readSessionTicket, readFinished,
// sendFinished); this file only sequences it exactly like clientHandshake does.  No server-side
// logic (the code under verification) is copied or touched.
package bfe_tls

import (
	"errors"
	"fmt"
	"io"
)

// VerifTlsnegSession is what a client keeps to resume (by ticket or by session id).
type VerifTlsnegSession struct {
	Vers      uint16
	Suite     uint16
	Master    []byte
	Ticket    []byte // non-empty: RFC 5077 resumption
	SessionID []byte // used when Ticket is empty: session-id resumption
}

// VerifTlsnegHello describes the ClientHello to send.
type VerifTlsnegHello struct {
	Vers            uint16   // client_version
	MinVers         uint16   // lowest version this client accepts in ServerHello
	CipherSuites    []uint16 // exactly as sent
	Curves          []uint16 // nil: no supported_curves extension
	Points          []uint8  // nil: no ec_point_formats extension
	ALPN            []string
	ServerName      string
	TicketSupported bool
	Session         *VerifTlsnegSession // offered for resumption (nil: none)
}

// VerifTlsnegResult is what the client saw.
type VerifTlsnegResult struct {
	HelloVers       uint16 // ServerHello.server_version
	Suite           uint16
	ALPN            string // ServerHello ALPN extension ("" if absent)
	SessionID       []byte // ServerHello.session_id
	TicketSupported bool
	DidResume       bool
	NewTicket       []byte // NewSessionTicket content, if any
	Master          []byte
}

// VerifTlsnegClientHandshake runs a client handshake on c (created with Client(conn, cfg)) with
// the given hello.  c.config supplies InsecureSkipVerify / client certificates only.
func VerifTlsnegClientHandshake(c *Conn, h *VerifTlsnegHello) (*VerifTlsnegResult, error) {
	c.handshakeMutex.Lock()
	defer c.handshakeMutex.Unlock()
	res, err := c.verifTlsnegClientHandshake(h)
	if err != nil {
		c.handshakeErr = err
	}
	return res, err
}

func (c *Conn) verifTlsnegClientHandshake(h *VerifTlsnegHello) (*VerifTlsnegResult, error) {
	if c.config == nil {
		c.config = defaultConfig()
	}
	hello := &clientHelloMsg{
		vers:                h.Vers,
		compressionMethods:  []uint8{compressionNone},
		random:              make([]byte, 32),
		serverName:          h.ServerName,
		supportedPoints:     h.Points,
		secureRenegotiation: true,
		alpnProtocols:       h.ALPN,
		cipherSuites:        h.CipherSuites,
		ticketSupported:     h.TicketSupported,
	}
	for _, cv := range h.Curves {
		hello.supportedCurves = append(hello.supportedCurves, CurveID(cv))
	}
	if _, err := io.ReadFull(c.config.rand(), hello.random); err != nil {
		return nil, err
	}
	if hello.vers >= VersionTLS12 {
		hello.signatureAndHashes = supportedSKXSignatureAlgorithms
	}
	var session *ClientSessionState
	if s := h.Session; s != nil {
		session = &ClientSessionState{sessionTicket: s.Ticket, vers: s.Vers, cipherSuite: s.Suite,
			masterSecret: s.Master}
		if len(s.Ticket) > 0 {
			hello.ticketSupported = true
			hello.sessionTicket = s.Ticket
			hello.sessionId = make([]byte, 16)
			if _, err := io.ReadFull(c.config.rand(), hello.sessionId); err != nil {
				return nil, err
			}
		} else {
			hello.sessionId = s.SessionID
		}
	}

	c.writeRecord(recordTypeHandshake, hello.marshal())

	msg, err := c.readHandshake()
	if err != nil {
		return nil, err
	}
	serverHello, ok := msg.(*serverHelloMsg)
	if !ok {
		c.sendAlert(alertUnexpectedMessage)
		return nil, unexpectedMessageError(serverHello, msg)
	}
	res := &VerifTlsnegResult{HelloVers: serverHello.vers, Suite: serverHello.cipherSuite,
		ALPN: serverHello.alpnProtocol, SessionID: serverHello.sessionId,
		TicketSupported: serverHello.ticketSupported}

	if serverHello.vers > h.Vers || serverHello.vers < h.MinVers || serverHello.vers < VersionTLS10 {
		c.sendAlert(alertProtocolVersion)
		return res, fmt.Errorf("verif client: server selected unsupported protocol version %x", serverHello.vers)
	}
	c.vers = serverHello.vers
	c.haveVers = true

	suite := mutualCipherSuite(h.CipherSuites, serverHello.cipherSuite)
	if suite == nil {
		c.sendAlert(alertHandshakeFailure)
		return res, errors.New("verif client: server selected an unsupported cipher suite")
	}

	hs := &clientHandshakeState{
		c:            c,
		serverHello:  serverHello,
		hello:        hello,
		suite:        suite,
		finishedHash: newFinishedHash(c.vers),
		session:      session,
	}
	hs.finishedHash.Write(hs.hello.marshal())
	hs.finishedHash.Write(hs.serverHello.marshal())

	isResume, err := hs.processServerHello()
	if err != nil {
		return res, err
	}
	res.DidResume = isResume
	if isResume {
		if session.vers != c.vers || session.cipherSuite != suite.id {
			// what every standard client does (RFC 5246 7.4.1.3 / F.1.4)
			c.sendAlert(alertHandshakeFailure)
			return res, fmt.Errorf("verif client: server resumed a session with different parameters (session %x/%04x, hello %x/%04x)",
				session.vers, session.cipherSuite, c.vers, suite.id)
		}
		if err := hs.establishKeys(); err != nil {
			return res, err
		}
		if err := hs.readSessionTicket(); err != nil {
			return res, err
		}
		if err := hs.readFinished(); err != nil {
			return res, err
		}
		if err := hs.sendFinished(); err != nil {
			return res, err
		}
	} else {
		if err := hs.doFullHandshake(); err != nil {
			return res, err
		}
		if err := hs.establishKeys(); err != nil {
			return res, err
		}
		if err := hs.sendFinished(); err != nil {
			return res, err
		}
		if err := hs.readSessionTicket(); err != nil {
			return res, err
		}
		if err := hs.readFinished(); err != nil {
			return res, err
		}
	}
	if hs.session != nil && hs.session != session {
		res.NewTicket = hs.session.sessionTicket
	}
	res.Master = hs.masterSecret
	c.clientProtocol = serverHello.alpnProtocol
	c.didResume = isResume
	c.handshakeComplete = true
	c.cipherSuite = suite.id
	return res, nil
}

// VerifTlsnegMarshalSession / VerifTlsnegUnmarshalSession expose the server-side session record
// format (what goes into tickets and into the ServerSessionCache) for forging cache entries.
func VerifTlsnegMarshalSession(vers, suite uint16, master []byte, certs [][]byte) []byte {
	s := &sessionState{vers: vers, cipherSuite: suite, masterSecret: master, certificates: certs}
	return s.marshal()
}

func VerifTlsnegUnmarshalSession(b []byte) (vers, suite uint16, master []byte, certs [][]byte, ok bool) {
	s := new(sessionState)
	cp := append([]byte(nil), b...)
	if !s.unmarshal(cp) {
		return 0, 0, nil, nil, false
	}
	return s.vers, s.cipherSuite, s.masterSecret, s.certificates, true
}

// VerifTlsnegForgeTicket seals a session record with the package's own encryptTicket under the
// given key (what an attacker holding some *other* key, or a peer server, would produce).
func VerifTlsnegForgeTicket(key [32]byte, vers, suite uint16, master []byte, certs [][]byte) ([]byte, error) {
	c := &Conn{config: &Config{SessionTicketKey: key}}
	return c.encryptTicket(&sessionState{vers: vers, cipherSuite: suite, masterSecret: master, certificates: certs})
}
