// Added to package bfe_tls at build time through `go build -overlay` (never committed to /repo).
// Thin accessors for the tlsrec verification family (C42, C43, C45): no logic, only calls.
package bfe_tls

import (
	"errors"
	"net"
)

// VerifTlsrecRemovePadding calls removePadding and returns (bytes removed, good).
func VerifTlsrecRemovePadding(payload []byte) (int, byte) {
	out, good := removePadding(payload)
	return len(payload) - len(out), good
}

// VerifTlsrecRemovePaddingSSL30 calls removePaddingSSL30 and returns (bytes removed, good).
func VerifTlsrecRemovePaddingSSL30(payload []byte) (int, byte) {
	out, good := removePaddingSSL30(payload)
	return len(payload) - len(out), good
}

// VerifTlsrecNewMsg returns a pointer to a zero value of the named handshake message struct
// (or of sessionState), nil for an unknown name.
func VerifTlsrecNewMsg(name string) interface{} {
	switch name {
	case "clientHello":
		return new(clientHelloMsg)
	case "serverHello":
		return new(serverHelloMsg)
	case "certificate":
		return new(certificateMsg)
	case "serverKeyExchange":
		return new(serverKeyExchangeMsg)
	case "certificateStatus":
		return new(certificateStatusMsg)
	case "serverHelloDone":
		return new(serverHelloDoneMsg)
	case "clientKeyExchange":
		return new(clientKeyExchangeMsg)
	case "finished":
		return new(finishedMsg)
	case "nextProto":
		return new(nextProtoMsg)
	case "certificateRequest":
		return new(certificateRequestMsg)
	case "certificateVerify":
		return new(certificateVerifyMsg)
	case "newSessionTicket":
		return new(newSessionTicketMsg)
	case "sessionState":
		return new(sessionState)
	}
	return nil
}

type verifTlsrecCodec interface {
	marshal() []byte
	unmarshal([]byte) bool
}

type verifTlsrecEq interface {
	equal(interface{}) bool
}

// VerifTlsrecMarshal calls m.marshal().
func VerifTlsrecMarshal(m interface{}) []byte { return m.(verifTlsrecCodec).marshal() }

// VerifTlsrecUnmarshal calls m.unmarshal(data).
func VerifTlsrecUnmarshal(m interface{}, data []byte) bool {
	return m.(verifTlsrecCodec).unmarshal(data)
}

// VerifTlsrecEqual calls a.equal(b) (the package's own comparison).
func VerifTlsrecEqual(a, b interface{}) bool { return a.(verifTlsrecEq).equal(b) }

// VerifTlsrecKeyedPair returns a client-side and a server-side Conn over the two transports whose
// record layers are keyed for (vers, suite) as after a completed handshake, without running one.
// Needed for SSL 3.0 (no available standard peer speaks it; bfe_tls's own client refuses it): it
// only sequences the package's own key schedule exactly like establishKeys + changeCipherSpec do
// (keysFromMasterSecret, suite.cipher / suite.mac / suite.aead, prepareCipherSpec,
// changeCipherSpec); no record-layer logic is copied.
func VerifTlsrecKeyedPair(cconn, sconn net.Conn, vers, suiteID uint16, master, crand, srand []byte) (*Conn, *Conn, error) {
	var suite *cipherSuite
	for _, s := range cipherSuites {
		if s.id == suiteID {
			suite = s
		}
	}
	if suite == nil {
		return nil, nil, errors.New("verif: unknown cipher suite")
	}
	cMAC, sMAC, cKey, sKey, cIV, sIV := keysFromMasterSecret(vers, master, crand, srand, suite.macLen, suite.keyLen, suite.ivLen)
	mk := func(key, iv, mac []byte, read bool) (interface{}, macFunction) {
		if suite.aead != nil {
			return suite.aead(key, iv), nil
		}
		return suite.cipher(key, iv, read), suite.mac(vers, mac)
	}
	client := &Conn{conn: cconn, config: &Config{}, isClient: true}
	server := &Conn{conn: sconn, config: &Config{}}
	for _, c := range []*Conn{client, server} {
		c.vers, c.haveVers, c.cipherSuite = vers, true, suiteID
	}
	type half struct {
		hc           *halfConn
		key, iv, mac []byte
		read         bool
	}
	for _, h := range []half{
		{&client.out, cKey, cIV, cMAC, false}, {&server.in, cKey, cIV, cMAC, true},
		{&server.out, sKey, sIV, sMAC, false}, {&client.in, sKey, sIV, sMAC, true},
	} {
		ci, m := mk(h.key, h.iv, h.mac, h.read)
		h.hc.prepareCipherSpec(vers, ci, m)
		if err := h.hc.changeCipherSpec(); err != nil {
			return nil, nil, err
		}
	}
	client.handshakeComplete, server.handshakeComplete = true, true
	return client, server, nil
}

// VerifTlsrecForgeCBC builds, with the sending half of c (a block-cipher suite), one
// application-data record whose plaintext is data | MAC(data) | pad, pad given byte by byte by the
// caller (its last byte is the padding-length byte).  It is a sender that does not use
// padToBlockSize: the MAC, the CBC object, the explicit IV rule and the sequence counter are the
// connection's own, sequenced like halfConn.encrypt.  The receiving side is not involved.
func VerifTlsrecForgeCBC(c *Conn, data, pad, explicitIV []byte) ([]byte, error) {
	hc := &c.out
	hc.Lock()
	defer hc.Unlock()
	cbc, ok := hc.cipher.(cbcMode)
	if !ok || hc.mac == nil {
		return nil, errors.New("verif: not a CBC cipher state")
	}
	bs := cbc.BlockSize()
	hdr := []byte{byte(recordTypeApplicationData), byte(hc.version >> 8), byte(hc.version),
		byte(len(data) >> 8), byte(len(data))}
	mac := hc.mac.MAC(nil, hc.seq[0:], hdr, data)
	var plain []byte
	plain = append(plain, data...)
	plain = append(plain, mac...)
	plain = append(plain, pad...)
	if len(plain)%bs != 0 {
		return nil, errors.New("verif: data+MAC+padding is not a whole number of blocks")
	}
	var body []byte
	if hc.version >= VersionTLS11 {
		if len(explicitIV) != bs {
			return nil, errors.New("verif: explicit IV of one block needed")
		}
		body = append(body, explicitIV...)
		cbc.SetIV(explicitIV)
	}
	enc := make([]byte, len(plain))
	cbc.CryptBlocks(enc, plain)
	body = append(body, enc...)
	hc.incSeq()
	rec := []byte{byte(recordTypeApplicationData), byte(hc.version >> 8), byte(hc.version),
		byte(len(body) >> 8), byte(len(body))}
	return append(rec, body...), nil
}
