// Added to package bfe_tls at build time through `go build -overlay` (never committed to /repo).
// Thin accessors for the tlsrec verification family (C42, C43, C45): no logic, only calls.
package bfe_tls

// VerifTlsrecRemovePadding calls removePadding and returns (bytes removed, good).
func VerifTlsrecRemovePadding(payload []byte) (int, byte) {
	out, good := removePadding(payload)
	return len(payload) - len(out), good
}

// VerifTlsrecRemovePaddingSSL30 calls removePaddingSSL30 and returns (bytes removed, good).
func VerifTlsrecRemovePaddingSSL30(payload []byte) (int, byte) {
	out, good := removePaddingSSL30(payload)
	return len(payload) - len(out), good
}

// VerifTlsrecNewMsg returns a pointer to a zero value of the named handshake message struct
// (or of sessionState), nil for an unknown name.
func VerifTlsrecNewMsg(name string) interface{} {
	switch name {
	case "clientHello":
		return new(clientHelloMsg)
	case "serverHello":
		return new(serverHelloMsg)
	case "certificate":
		return new(certificateMsg)
	case "serverKeyExchange":
		return new(serverKeyExchangeMsg)
	case "certificateStatus":
		return new(certificateStatusMsg)
	case "serverHelloDone":
		return new(serverHelloDoneMsg)
	case "clientKeyExchange":
		return new(clientKeyExchangeMsg)
	case "finished":
		return new(finishedMsg)
	case "nextProto":
		return new(nextProtoMsg)
	case "certificateRequest":
		return new(certificateRequestMsg)
	case "certificateVerify":
		return new(certificateVerifyMsg)
	case "newSessionTicket":
		return new(newSessionTicketMsg)
	case "sessionState":
		return new(sessionState)
	}
	return nil
}

type verifTlsrecCodec interface {
	marshal() []byte
	unmarshal([]byte) bool
}

type verifTlsrecEq interface {
	equal(interface{}) bool
}

// VerifTlsrecMarshal calls m.marshal().
func VerifTlsrecMarshal(m interface{}) []byte { return m.(verifTlsrecCodec).marshal() }

// VerifTlsrecUnmarshal calls m.unmarshal(data).
func VerifTlsrecUnmarshal(m interface{}, data []byte) bool {
	return m.(verifTlsrecCodec).unmarshal(data)
}

// VerifTlsrecEqual calls a.equal(b) (the package's own comparison).
func VerifTlsrecEqual(a, b interface{}) bool { return a.(verifTlsrecEq).equal(b) }
