// Added to package bfe_http at build time through `go build -overlay` (never committed to /repo).
// Wrappers the http1 verification harness needs to reach the unexported chunked codec.
package bfe_http

import "io"

// VerifNewChunkedReader exposes newChunkedReader.
func VerifNewChunkedReader(r io.Reader) io.Reader { return newChunkedReader(r) }

// VerifNewChunkedWriter exposes newChunkedWriter.
func VerifNewChunkedWriter(w io.Writer) io.WriteCloser { return newChunkedWriter(w) }
