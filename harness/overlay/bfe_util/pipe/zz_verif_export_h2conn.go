// Added to package pipe at build time through `go build -overlay` (never committed to /repo).
// Family h2conn: read-only view of a Pipe used for quiescence detection (is a handler blocked in
// Read really blocked?) and for the Layer-M diagnostics.
package pipe

// VerifH2connState returns the number of buffered unread bytes and whether the pipe was closed
// (CloseWithError / BreakWithError, io.EOF included).
func (p *Pipe) VerifH2connState() (n int, closed bool) {
	p.mu.Lock()
	defer p.mu.Unlock()
	if p.b != nil {
		n = p.b.Len()
	}
	return n, p.err != nil || p.breakErr != nil
}
