// Added to package bfe_balance at build time through `go build -overlay` (never committed to /repo).
package bfe_balance

import "github.com/bfenetworks/bfe/bfe_balance/bal_gslb"

// VerifClusters returns the cluster -> balancer map.
func (t *BalTable) VerifClusters() map[string]*bal_gslb.BalanceGslb {
	t.lock.RLock()
	defer t.lock.RUnlock()
	out := map[string]*bal_gslb.BalanceGslb{}
	for k, v := range t.balTable {
		out[k] = v
	}
	return out
}
