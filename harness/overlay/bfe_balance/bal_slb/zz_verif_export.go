// Added to package bal_slb at build time through `go build -overlay` (never committed to /repo).
// Read-only accessors the verification harness needs.
package bal_slb

import "github.com/bfenetworks/bfe/bfe_balance/backend"

// VerifState is the mechanism-level state of one backend slot.
type VerifState struct {
	Name    string
	Addr    string
	Weight  int
	Current int
	Avail   bool
	Conn    int
}

// VerifBackends returns the backend objects in list order.
func (brr *BalanceRR) VerifBackends() []*backend.BfeBackend {
	brr.Lock()
	defer brr.Unlock()
	out := make([]*backend.BfeBackend, 0, len(brr.backends))
	for _, b := range brr.backends {
		out = append(out, b.backend)
	}
	return out
}

// VerifSnapshot returns (name, addr, weight, current, avail, conn) in list order.
func (brr *BalanceRR) VerifSnapshot() []VerifState {
	brr.Lock()
	defer brr.Unlock()
	out := make([]VerifState, 0, len(brr.backends))
	for _, b := range brr.backends {
		out = append(out, VerifState{b.backend.Name, b.backend.AddrInfo, b.weight, b.current,
			b.backend.Avail(), b.backend.ConnNum()})
	}
	return out
}
