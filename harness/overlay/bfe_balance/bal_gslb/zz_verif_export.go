// Added to package bal_gslb at build time through `go build -overlay` (never committed to /repo).
package bal_gslb

import "github.com/bfenetworks/bfe/bfe_balance/bal_slb"

// VerifSub is a read-only view of one sub-cluster.
type VerifSub struct {
	Name   string
	Weight int
	Type   int
	RR     *bal_slb.BalanceRR
	Ptr    *SubCluster
}

// VerifSubs returns the sub-clusters in list order.
func (bal *BalanceGslb) VerifSubs() []VerifSub {
	bal.lock.Lock()
	defer bal.lock.Unlock()
	out := make([]VerifSub, 0, len(bal.subClusters))
	for _, s := range bal.subClusters {
		out = append(out, VerifSub{s.Name, s.weight, s.sType, s.backends, s})
	}
	return out
}
