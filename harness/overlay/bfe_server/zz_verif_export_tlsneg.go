// Added to package bfe_server at build time through `go build -overlay` (never committed to /repo).
// Accessor only: lets the tlsneg harness accept connections on an HttpsListener (what ServeHttps
// does with ln.tlsListener), so that session-ticket-key rotation is exercised through the server's
// real reload entry point HttpsListener.UpdateSessionTicketKey.
package bfe_server

import "net"

// VerifTlsnegAccept accepts the next TLS server connection of the listener.
func (l *HttpsListener) VerifTlsnegAccept() (net.Conn, error) {
	return l.tlsListener.Accept()
}
