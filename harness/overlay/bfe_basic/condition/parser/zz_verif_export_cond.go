package parser

// Verification export (added through -overlay, never part of the repository):
// read-only view of the primitive prototype table.

// VerifFuncProtos returns name -> argument type names ("STRING", "BOOL", ...).
func VerifFuncProtos() map[string][]string {
	out := make(map[string][]string, len(funcProtos))
	for name, args := range funcProtos {
		ts := make([]string, 0, len(args))
		for _, a := range args {
			ts = append(ts, a.String())
		}
		out[name] = ts
	}
	return out
}
