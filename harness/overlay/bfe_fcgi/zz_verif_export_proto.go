// Added to package bfe_fcgi at build time through `go build -overlay` (never committed to /repo).
package bfe_fcgi

import "io"

// VerifNewClient builds a client on an already established connection (what Dial does after
// net.Dial), so that the harness can use a synchronous net.Pipe with exact delivery boundaries.
func VerifNewClient(rwc io.ReadWriteCloser) *FCGIClient {
	return &FCGIClient{rwc: rwc, keepAlive: false, reqId: 1}
}
