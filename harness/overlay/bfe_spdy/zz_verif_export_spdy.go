// Overlay export for the spdy family (C39, C40).  Added to package bfe_spdy at build time
// (go build -overlay); only accessors / thin wrappers, no logic of its own.
package bfe_spdy

import (
	"net"

	http "github.com/bfenetworks/bfe/bfe_http"
)

// VerifCompressBlock pushes an arbitrary (possibly malformed) *decompressed* header block
// through this framer's own zlib header compressor -- the very compressor/dictionary/
// stream state WriteFrame uses -- and returns the compressed bytes (sync-flushed), exactly
// what writeSynStreamFrame & co. do with the block produced by writeHeaderValueBlock.
func (f *Framer) VerifCompressBlock(block []byte) ([]byte, error) {
	if _, err := f.headerCompressor.Write(block); err != nil {
		return nil, err
	}
	if err := f.headerCompressor.Flush(); err != nil {
		return nil, err
	}
	out := append([]byte(nil), f.headerBuf.Bytes()...)
	f.headerBuf.Reset()
	return out, nil
}

// VerifServeConn runs the SPDY server on an arbitrary net.Conn: the body of the
// closure returned by NewProtoHandler without the *tls.Conn parameter type.
func VerifServeConn(conf *Server, hs *http.Server, c net.Conn, h http.Handler) {
	if conf == nil {
		conf = new(Server)
	}
	if sc := conf.handleConn(hs, c, h); sc != nil {
		sc.serve()
	}
}

// VerifFrameLength exposes the unexported length field of a control frame header.
func VerifFrameLength(h ControlFrameHeader) uint32 { return h.length }
