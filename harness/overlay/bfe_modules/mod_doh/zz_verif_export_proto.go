// Added to package mod_doh at build time through `go build -overlay` (never committed to /repo).
package mod_doh

// VerifMaxPostMsgLength is the configured upper bound of a POSTed DNS message.
func VerifMaxPostMsgLength() int64 { return maxPostMsgLength }
