//go:build verif

package mod_prison

// Verification accessor (family mods1, C53).  The rule file gives CheckPeriod / StayPeriod
// in whole seconds; the conformance harness plays schedules with millisecond periods, so it
// overrides the two converted fields of an already loaded rule.  Nothing else is touched.

// VerifSetPeriods sets checkPeriodNs / stayPeriodNs of rule `name` of `product`.
func (m *ModulePrison) VerifSetPeriods(product, name string, checkNs, stayNs int64) bool {
	rules, ok := m.productTable.getRules(product)
	if !ok {
		return false
	}
	for i := range rules.ruleList {
		if rules.ruleList[i].name == name {
			rules.ruleList[i].checkPeriodNs = checkNs
			rules.ruleList[i].stayPeriodNs = stayNs
			return true
		}
	}
	return false
}
