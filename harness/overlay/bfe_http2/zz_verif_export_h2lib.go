// Added to package bfe_http2 at build time through `go build -overlay` (never committed to /repo).
// Family h2lib (C36): a priority tree made of real *stream objects, driven through the real
// adjustStreamPriority / serverConn.processPriority.  No logic is copied: Open does what
// processHeaders does around the call (insert into the map, adjust if the PRIORITY flag is set),
// Close does what closeStream does to the stream and the map (state = stateClosed, delete).
package bfe_http2

// VerifH2libTree is a serverConn reduced to its streams map plus every stream object ever made.
type VerifH2libTree struct {
	sc  *serverConn
	all map[uint32]*stream
}

func VerifH2libNewTree() *VerifH2libTree {
	return &VerifH2libTree{sc: &serverConn{streams: make(map[uint32]*stream)}, all: make(map[uint32]*stream)}
}

// Put creates the stream object id; open ones are entered into the streams map.
func (t *VerifH2libTree) Put(id uint32, open bool) {
	// a closed stream is left by closeStream with state == stateClosed, out of the map,
	// parent pointers (its own and those pointing at it) kept
	st := &stream{id: id, sc: t.sc, state: stateClosed}
	t.all[id] = st
	if open {
		st.state = stateOpen
		t.sc.streams[id] = st
	}
}

// SetParent sets the parent pointer of id (0 = nil); both objects must exist.
func (t *VerifH2libTree) SetParent(id, parent uint32) {
	if parent == 0 {
		t.all[id].parent = nil
		return
	}
	t.all[id].parent = t.all[parent]
}

// Open: a new stream arrives with HEADERS (optionally carrying priority).
func (t *VerifH2libTree) Open(id uint32, hasPrio bool, p PriorityParam) {
	st := &stream{id: id, sc: t.sc, state: stateOpen}
	t.all[id] = st
	t.sc.streams[id] = st
	if hasPrio {
		adjustStreamPriority(t.sc.streams, st.id, p)
	}
}

// Priority: a PRIORITY frame for stream id.
func (t *VerifH2libTree) Priority(id uint32, p PriorityParam) error {
	return t.sc.processPriority(&PriorityFrame{
		FrameHeader:   FrameHeader{valid: true, Type: FramePriority, Length: 5, StreamID: id},
		PriorityParam: p,
	})
}

// Close does to the object and the map what closeStream does: state = stateClosed, delete from
// the streams map; the object and the pointers to it stay.
func (t *VerifH2libTree) Close(id uint32) {
	if st, ok := t.sc.streams[id]; ok {
		st.state = stateClosed
		delete(t.sc.streams, id)
	}
}

// StateClosed reports whether the object id carries state == stateClosed.
func (t *VerifH2libTree) StateClosed(id uint32) bool { return t.all[id].state == stateClosed }

// Parents returns id -> parent id (0 = nil) for every object.
func (t *VerifH2libTree) Parents() map[uint32]uint32 {
	out := make(map[uint32]uint32, len(t.all))
	for id, st := range t.all {
		if st.parent != nil {
			out[id] = st.parent.id
		} else {
			out[id] = 0
		}
	}
	return out
}

// WalkLen returns the number of steps the ancestor walk from id makes before it reaches nil,
// or -1 if it does not within limit steps.
func (t *VerifH2libTree) WalkLen(id uint32, limit int) int {
	n := 0
	for p := t.all[id]; p != nil; p = p.parent {
		n++
		if n > limit {
			return -1
		}
	}
	return n
}

// IsOpen reports whether id is in the streams map.
func (t *VerifH2libTree) IsOpen(id uint32) bool { _, ok := t.sc.streams[id]; return ok }

// Weight of stream object id.
func (t *VerifH2libTree) Weight(id uint32) uint8 { return t.all[id].weight }
