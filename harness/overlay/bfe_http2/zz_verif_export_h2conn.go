// Added to package bfe_http2 at build time through `go build -overlay` (never committed to /repo).
// Family h2conn (C33, C34, C35, C37, C38): read-only access to a live serverConn through the
// package's own test hooks (testHookGetServerConn / testHookCh / testHookOnPanic).  No logic is
// copied; Snapshot runs on the serve goroutine (the only writer of the fields it reads).
package bfe_http2

import (
	"net"
	"sync"
)

// VerifH2connStream is the serve-loop view of one stream in sc.streams.
type VerifH2connStream struct {
	State     string // Open | HalfClosedRemote | HalfClosedLocal | ...
	Inflow    int32  // st.inflow.n
	Flow      int32  // st.flow.n
	HasBody   bool
	BodyLen   int   // bytes buffered in the body pipe
	BodyBytes int64 // st.bodyBytes: octets ever written into the body pipe
	BodyDone  bool  // pipe closed (any error incl. EOF)
	QLen      int   // frames queued in the write scheduler for this stream
	HeadData  int   // len(p) of the head if it is a DATA write, else -1
}

// VerifH2connSnap is one consistent snapshot of the connection taken on the serve goroutine.
type VerifH2connSnap struct {
	Loop        int
	Writing     bool
	NeedFlush   bool
	QueuedCtl   int
	ZeroQ       int
	InGoAway    bool
	GoAwayCode  uint32
	Inflow      int32
	Flow        int32
	MaxStreamID uint32
	CurOpen     uint32
	MaxFrame    uint32
	InitWin     int32
	NeedAck     bool
	Streams     map[uint32]VerifH2connStream
}

// VerifH2connConn wraps a live server connection.
type VerifH2connConn struct{ sc *serverConn }

var (
	verifH2connMu      sync.Mutex
	verifH2connOnConn  func(c net.Conn, vc *VerifH2connConn)
	verifH2connOnPanic func(c net.Conn, v interface{})
)

// VerifH2connInstall installs the package's test hooks (process-wide).  onConn is called from
// ServeConn just before serve() starts; onPanic when the serve goroutine recovered a panic.
func VerifH2connInstall(onConn func(c net.Conn, vc *VerifH2connConn), onPanic func(c net.Conn, v interface{})) {
	verifH2connMu.Lock()
	defer verifH2connMu.Unlock()
	verifH2connOnConn = onConn
	verifH2connOnPanic = onPanic
	testHookGetServerConn = func(sc *serverConn) {
		sc.testHookCh = make(chan func(int))
		if verifH2connOnConn != nil {
			verifH2connOnConn(sc.conn, &VerifH2connConn{sc})
		}
	}
	testHookOnPanic = func(sc *serverConn, v interface{}) bool {
		if verifH2connOnPanic != nil {
			verifH2connOnPanic(sc.conn, v)
		}
		return false
	}
}

// Done is closed when serve() has ended.
func (vc *VerifH2connConn) Done() <-chan struct{} { return vc.sc.doneServing }

// Limit is the control-frame queue limit of this server.
func (vc *VerifH2connConn) Limit() int { return vc.sc.srv.maxQueuedControlFrames() }

// Snapshot runs on the serve loop; ok=false when the loop has ended.
func (vc *VerifH2connConn) Snapshot() (snap VerifH2connSnap, ok bool) {
	sc := vc.sc
	ch := make(chan VerifH2connSnap, 1)
	fn := func(loop int) {
		s := VerifH2connSnap{
			Loop: loop, Writing: sc.writingFrame, NeedFlush: sc.needsFrameFlush,
			QueuedCtl: sc.queuedControlFrames, ZeroQ: len(sc.writeSched.zero.s),
			InGoAway: sc.inGoAway, GoAwayCode: uint32(sc.goAwayCode),
			Inflow: sc.inflow.n, Flow: sc.flow.n, MaxStreamID: sc.maxStreamID,
			CurOpen: sc.curOpenStreams, MaxFrame: sc.writeSched.maxFrameSize,
			InitWin: sc.initialWindowSize, NeedAck: sc.needToSendSettingsAck,
			Streams: make(map[uint32]VerifH2connStream, len(sc.streams)),
		}
		for id, st := range sc.streams {
			v := VerifH2connStream{State: st.state.String(), Inflow: st.inflow.n, Flow: st.flow.n, HeadData: -1, BodyBytes: st.bodyBytes}
			if st.body != nil {
				v.HasBody = true
				v.BodyLen, v.BodyDone = st.body.VerifH2connState()
			}
			if q, ok := sc.writeSched.sq[id]; ok {
				v.QLen = len(q.s)
				if len(q.s) > 0 {
					if wd, ok := q.s[0].write.(*writeData); ok {
						v.HeadData = len(wd.p)
					}
				}
			}
			s.Streams[id] = v
		}
		ch <- s
	}
	select {
	case sc.testHookCh <- fn:
		return <-ch, true
	case <-sc.doneServing:
		return snap, false
	}
}

// Hold parks the serve loop inside a testHookCh function until release is called: whatever
// reaches the loop's channels meanwhile (a frame from the reader, a handler's body-read note, a
// write request) is pending at the same time when the loop resumes, and select picks among them.
// ok=false when the loop has ended.
func (vc *VerifH2connConn) Hold() (release func(), ok bool) {
	sc := vc.sc
	entered := make(chan struct{})
	rel := make(chan struct{})
	fn := func(int) {
		close(entered)
		<-rel
	}
	select {
	case sc.testHookCh <- fn:
		<-entered
		return func() { close(rel) }, true
	case <-sc.doneServing:
		return func() {}, false
	}
}

// VerifH2connBodyState reports the state of a request body pipe from the handler side:
// bytes buffered, and whether the pipe has been closed.  ok=false for a body-less request.
func VerifH2connBodyState(b interface{}) (n int, done bool, ok bool) {
	rb, isRB := b.(*RequestBody)
	if !isRB || rb.pipe == nil {
		return 0, true, false
	}
	n, done = rb.pipe.VerifH2connState()
	return n, done, true
}

// PrioWalks runs on the serve loop (C36 on the wire): for every stream in the streams map its parent
// id (0 = nil) and the number of steps its ancestor walk makes before it reaches nil (-1: it does not
// within limit steps, i.e. the stream is below or on a cycle).  ok=false when the loop has ended.
func (vc *VerifH2connConn) PrioWalks(limit int) (parent map[uint32]uint32, walk map[uint32]int, ok bool) {
	sc := vc.sc
	type res struct {
		p map[uint32]uint32
		w map[uint32]int
	}
	ch := make(chan res, 1)
	fn := func(int) {
		r := res{map[uint32]uint32{}, map[uint32]int{}}
		for id, st := range sc.streams {
			if st.parent != nil {
				r.p[id] = st.parent.id
			} else {
				r.p[id] = 0
			}
			n := 0
			for p := st; p != nil; p = p.parent {
				n++
				if n > limit {
					n = -1
					break
				}
			}
			r.w[id] = n
		}
		ch <- r
	}
	select {
	case sc.testHookCh <- fn:
		r := <-ch
		return r.p, r.w, true
	case <-sc.doneServing:
		return nil, nil, false
	}
}
