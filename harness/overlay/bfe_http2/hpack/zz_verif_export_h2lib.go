// Added to package hpack at build time through `go build -overlay` (never committed to /repo).
// Family h2lib (C30/C31): read-only views of the encoder's and the decoder's dynamic table.
package hpack

// VerifH2libTab is a dynamic table, newest entry first (Ents[0] has index 62).
type VerifH2libTab struct {
	Ents    []HeaderField
	Size    uint32 // the size field the code maintains
	Max     uint32 // current maximum size
	Allowed uint32 // decoder: upper bound for size updates; encoder: maxSizeLimit
	MinSize uint32 // encoder only
	Pending bool   // encoder only: tableSizeUpdate
}

func verifH2libView(dt *dynamicTable) VerifH2libTab {
	t := VerifH2libTab{Size: dt.size, Max: dt.maxSize, Allowed: dt.allowedMaxSize}
	for i := len(dt.ents) - 1; i >= 0; i-- {
		t.Ents = append(t.Ents, dt.ents[i])
	}
	return t
}

func (e *Encoder) VerifH2libTable() VerifH2libTab {
	t := verifH2libView(&e.dynTab)
	t.Allowed, t.MinSize, t.Pending = e.maxSizeLimit, e.minSize, e.tableSizeUpdate
	return t
}

func (d *Decoder) VerifH2libTable() VerifH2libTab { return verifH2libView(&d.dynTab) }

// VerifH2libStatic returns a copy of the static table (index 1 first).
func VerifH2libStatic() []HeaderField { return append([]HeaderField(nil), staticTable[:]...) }
