\* C40: server model vs wire-level obligations, exhaustive within the constants
CONSTANTS
  IDS = @IDS@
  MAXS = @MAXS@
  DSIZES = @DSIZES@
  WUDS = @WUDS@
  IWS = @IWS@
  HWRITES = @HWRITES@
  CLS = @CLS@
  MaxSteps = @STEPS@
INIT Init
NEXT Next
INVARIANTS OutcomeOK InWindowOK ReplenishOK OutWindowOK ViewOK StartedOK IdsOK NoPanic PendOK InflowOK
CHECK_DEADLOCK FALSE
