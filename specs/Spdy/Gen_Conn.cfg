CONSTANTS
  IDS = @IDS@
  MAXS = @MAXS@
  DSIZES = @DSIZES@
  WUDS = @WUDS@
  IWS = @IWS@
  HWRITES = @HWRITES@
  CLS = @CLS@
  MaxSteps = @STEPS@
  MaxNoise = @NOISE@
INIT GInit
NEXT GNext
INVARIANTS Emit
CHECK_DEADLOCK FALSE
