---------------------------- MODULE GenFrame ----------------------------
(* Case generator for C39.  A case is what goes over ONE connection (one pair of    *)
(* framers, one zlib context): a prefix of well-formed header-bearing frames written *)
(* by the real writer (they move the compression state), then one final shape --    *)
(* written (rt) or laid out raw, possibly malformed.  Every item carries the Layer-P *)
(* verdict p, the Layer-M prediction m, and ng (name comparison gray).              *)
(* mode mc : exhaustive, MaxWarm small.   mode sim : TLC -simulate, longer prefixes. *)
EXTENDS FrameDefs, Json
CONSTANTS MaxWarm, WarmK, WarmN, WarmV
VARIABLES seq, fin
gvars == <<seq, fin>>

Item(s) == [s |-> s, p |-> PVerdict(s), m |-> MOutcome(s), ng |-> NameGray(s)]

Warm == {s \in RtHdr : s.k \in WarmK /\ s.fl = 0 /\ s.np = 1 /\ s.n1 \in WarmN /\ s.v1 \in WarmV}

GInit == seq = <<>> /\ fin = FALSE
GNext == /\ ~fin
         /\ \/ Len(seq) < MaxWarm /\ \E s \in Warm : seq' = Append(seq, Item(s)) /\ fin' = FALSE
            \/ \E s \in Shapes : seq' = Append(seq, Item(s)) /\ fin' = TRUE

Emit == fin => PrintT(ToJson([seq |-> seq]))
=========================================================================
