---------------------------- MODULE GenFrame ----------------------------
(* Case generator for C39.  A case is what goes over ONE connection (one pair of    *)
(* framers, one zlib context): a prefix of `want` frames handed to the real writer -- *)
(* well-formed header-bearing ones (they move the compression state) and ones the    *)
(* writer must refuse (they must leave no trace) --, then one final                  *)
(* shape -- written (rt) or laid out raw, possibly malformed.  Every item carries    *)
(* the Layer-P verdict p, the Layer-M prediction m, and ng (name comparison gray).  *)
(* mode mc : exhaustive over (prefix, final).   mode sim : TLC -simulate.           *)
(* The case is printed from the dedicated single-successor step Fin.                *)
EXTENDS FrameDefs, Json
CONSTANTS MaxWarm, WarmK, WarmN, WarmV,
          RejK      \* frame kinds of the reader-rejected frames used inside prefixes
VARIABLES seq, want, last, fin
gvars == <<seq, want, last, fin>>

Item(s) == [s |-> s, p |-> PVerdict(s), m |-> MOutcome(s), ng |-> NameGray(s)]

Warm == {s \in RtHdr : s.k \in WarmK /\ s.fl = 0 /\ s.np = 1 /\ s.n1 \in WarmN /\ s.v1 \in WarmV}

GInit == seq = <<>> /\ want \in 0..MaxWarm /\ last = FALSE /\ fin = FALSE
\* prefix frames: written ones (they move the compression state), ones the writer refuses (they
\* must not) and ones the reader rejects with a stream error (their block must be consumed whole)
AddWarm == /\ ~last /\ Len(seq) < want
           /\ \E s \in Warm \cup RtRefused \cup RdRejected(RejK) : seq' = Append(seq, Item(s))
           /\ UNCHANGED <<want, last, fin>>
Final == /\ ~last /\ Len(seq) = want
         /\ \E s \in Shapes : seq' = Append(seq, Item(s))
         /\ last' = TRUE /\ UNCHANGED <<want, fin>>
Fin == last /\ ~fin /\ fin' = TRUE /\ UNCHANGED <<seq, want, last>>
GNext == AddWarm \/ Final \/ Fin

Emit == fin => PrintT(ToJson([seq |-> seq]))
=========================================================================
