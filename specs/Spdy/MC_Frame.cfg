\* C39: M refines P over the whole shape space
CONSTANTS
  RN1 = @RN1@
  RN2 = @RN2@
  RV1 = @RV1@
  RV2 = @RV2@
  BMs = @BMS@
  WN1 = @WN1@
  WN2 = @WN2@
  WV1 = @WV1@
  WV2 = @WV2@
INIT Init
NEXT Next
INVARIANTS Refines AllocOK BoundaryOK TypeOK
CHECK_DEADLOCK FALSE
