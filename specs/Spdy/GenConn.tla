----------------------------- MODULE GenConn -----------------------------
(* Script generator for C40: Conn plus a history.  A script is a sequence of steps   *)
(* (client frames and handler steps); every step carries                             *)
(* (for syn steps x is the declared content-length, -1 = none)                       *)
(*   allowed : Layer P -- the set of outcomes the draft permits for this frame,      *)
(*   m       : Layer M -- the outcome the model takes,                               *)
(*   exp     : the observable state after the step: Layer-P bounds (started, consC /  *)
(*             cons = what WINDOW_UPDATEs must add up to, lim / limC = the most DATA   *)
(*             the client's windows permit, quiet) and Layer-M exact values (wu, out,  *)
(*             rep, fin, rsts, st, h) used to synchronise the lock-step replay.        *)
(* mode mc: every script up to MaxSteps.  mode sim: TLC -simulate.                    *)
(* The script is printed from the dedicated single-successor step Fin.               *)
EXTENDS Conn, Json
CONSTANT MaxNoise    \* bound on steps that address a stream that is not live (they all end the same way)
VARIABLES hist, fin, noise
gvars == <<vars, hist, fin, noise>>

SafeAdd(a, b) == IF b > MAX31 - a THEN MAX31 ELSE a + b     \* TLC integers are 32 bit
Exp == [wuC |-> wuC, consC |-> consC, outC |-> outC, limC |-> SafeAdd(outC, Max(0, cgC)),
        goaway |-> goaway, dead |-> dead, started |-> started,
        rsts |-> {[id |-> r[1], code |-> r[2]] : r \in rsts},
        s |-> {[id |-> i, st |-> st[i], h |-> h[i], wu |-> wuS[i], cons |-> cons[i], acc |-> acc[i],
                out |-> out[i], lim |-> SafeAdd(out[i], Max(0, cgS[i])), rep |-> replied[i],
                fin |-> (i \in fins), quiet |-> (i \in quiet), buf |-> buf[i]] : i \in IDS}]

Noisy(a, id) == \/ a \in {"ping", "goaway", "headers"}
                \/ a \in {"data", "wu", "rst"} /\ id # 0 /\ ~Live(id)
Rec(a, id, x, f, allowed, why) ==
  /\ ~fin /\ fin' = FALSE
  /\ noise' = IF Noisy(a, id) THEN noise + 1 ELSE noise
  /\ noise' <= MaxNoise
  /\ hist' = Append(hist, [a |-> a, id |-> id, x |-> x, f |-> f, allowed |-> allowed, why |-> why, m |-> react', exp |-> Exp'])

GInit == Init /\ hist = <<>> /\ fin = FALSE /\ noise = 0

GNext ==
  \/ \E id \in IDS, f \in BOOLEAN, cl \in CLS \cup {NoCL} : Syn(id, f, cl) /\ Rec("syn", id, cl, f, AllowedSyn(id), WhySyn(id))
  \/ /\ UNCHANGED decl
     /\ \/ \E id \in IDS, f \in BOOLEAN : SynBad(id, f) /\ Rec("synbad", id, 0, f, AllowedSynBad(id), WhySynBad(id))
        \/ \E id \in IDS, len \in DSIZES, f \in BOOLEAN :
               Data(id, len, f) /\ Rec("data", id, len, f, AllowedData(id, len, f), WhyData(id, len, f))
        \/ \E id \in IDS \cup {0}, d \in WUDS : Wu(id, d) /\ Rec("wu", id, d, FALSE, AllowedWu(id, d), WhyWu(id, d))
        \/ \E id \in IDS : RstC(id) /\ Rec("rst", id, 0, FALSE, AllowedRst(id), WhyRst(id))
        \/ \E v \in IWS : Settings(v) /\ Rec("settings", 0, v, FALSE, AllowedSettings(v), WhySettings(v))
        \/ \E k \in {"ping", "goaway", "headers"} : Other(k) /\ Rec(k, 1, 0, FALSE, {"acc"}, k)
        \/ \E id \in IDS, k \in DSIZES : HRead(id, k) /\ Rec("hread", id, k, FALSE, {"acc"}, "hread")
        \/ \E id \in IDS : HReply(id) /\ Rec("hreply", id, 0, FALSE, {"acc"}, "hreply")
        \/ \E id \in IDS, k \in HWRITES : HWrite(id, k) /\ Rec("hwrite", id, k, FALSE, {"acc"}, "hwrite")
        \/ \E id \in IDS : HFinish(id) /\ Rec("hfinish", id, 0, FALSE, {"acc", Tok(RstCancel)}, "hfinish:" \o State(id))
  \/ /\ ~Alive /\ ~fin /\ fin' = TRUE /\ UNCHANGED <<vars, hist, noise>>

Emit == fin => PrintT(ToJson([steps |-> hist]))
==========================================================================
