------------------------------ MODULE FrameDefs ------------------------------
(* C39 -- SPDY/3.1 framing (bfe_spdy/frame_read.go, frame_write.go).                  *)
(*                                                                                    *)
(* A *shape* is an abstract frame: frame kind + class of every field the draft        *)
(* (spdy-protocol-draft3-1, sections 2.2, 2.6) constrains.  The classes are           *)
(* concretised by the harness from alphabet.json.  Two modes:                         *)
(*   mode "rt"  : the frame is produced by Framer.WriteFrame from a frame struct and  *)
(*                read back by a second Framer (shared zlib context);                 *)
(*   mode "raw" : the bytes are laid out by hand (header blocks compressed with the   *)
(*                framer's own compressor) -- possibly malformed.                     *)
(*                                                                                    *)
(* Layer P  (PVerdict, PAllocOK, boundary rule) -- what the property dictates:        *)
(*   "ok"     the reader must return the frame with exactly the fields written,       *)
(*   "err"    the reader must return an error (no frame),                             *)
(*   "either" the draft leaves it open / is ambiguous (gray): no accept/reject        *)
(*            verdict; panics, allocation and the boundary rule still apply.          *)
(*   "serr"   like "err" (no frame), and the connection stays usable: the frames     *)
(*            that follow keep their own verdict (stream error, block fully consumed). *)
(*   "refused" (mode rt only) the writer must return an error and leave no trace:     *)
(*            no octet on the wire, compression context untouched -- all later frames *)
(*            of the sequence keep their own verdict.                                 *)
(*   Boundary rule: whenever the reader returns a frame (no error) it has consumed    *)
(*   exactly 8 + declared length octets, i.e. the next frame is read correctly.       *)
(*   Allocation: memory allocated before the octets are seen <= PreallocCap.          *)
(* Layer M  (MOutcome, MPrealloc) -- the checks in the order the code makes them      *)
(*   (as the code is after the accepted fix commits).                                 *)
(* TLC checks  M refines P  for every shape (Refines, AllocOK, BoundaryOK).           *)
EXTENDS Integers, Sequences, FiniteSets, TLC

CONSTANTS
  RN1, RN2,      \* name classes of pair 1 / pair 2 in raw header blocks
  RV1, RV2,      \* value classes
  BMs,           \* block malformations
  WN1, WN2,      \* name classes for written (rt) header blocks
  WV1, WV2

HdrKinds   == {"syn", "reply", "headers"}
FixedKinds == {"rst", "ping", "goaway", "wu"}

NA == "na"
Base == [mode |-> "raw", k |-> NA, len |-> "exact", fl |-> 0, sid |-> "odd", aux |-> NA,
         np |-> 0, n1 |-> NA, v1 |-> NA, n2 |-> NA, v2 |-> NA, bm |-> "none"]

---------------------------------------------------------------------------
(* The shape space *)

FlagsOf(k) == IF k = "syn" THEN {0, 1, 2} ELSE {0, 1}

\* header blocks (np pairs)
Blocks(N1, V1, N2, V2) ==
  {[np |-> 0, n1 |-> NA, v1 |-> NA, n2 |-> NA, v2 |-> NA]}
  \cup {[np |-> 1, n1 |-> a, v1 |-> b, n2 |-> NA, v2 |-> NA] : a \in N1, b \in V1}
  \cup {[np |-> 2, n1 |-> a, v1 |-> b, n2 |-> c, v2 |-> d] : a \in N1, b \in V1, c \in N2, d \in V2}

WithBlock(s, b) == [s EXCEPT !.np = b.np, !.n1 = b.n1, !.v1 = b.v1, !.n2 = b.n2, !.v2 = b.v2]

BmApplies(bm, b) ==
  CASE bm \in {"none", "cntmore", "cnt1025", "cnthuge", "trail", "notzlib"} -> TRUE
    [] bm \in {"namebig", "namemax", "valbig", "valmax", "truncval"} -> b.np >= 1
    [] bm = "truncname" -> /\ b.np >= 1
                           /\ (IF b.np = 1 THEN b.n1 ELSE b.n2) \notin {"empty"}
    [] OTHER -> FALSE

\* raw header frames: every block x block malformation on a canonical fixed part ...
RawHdrBlock ==
  UNION {{WithBlock([Base EXCEPT !.k = k, !.bm = bm], b) :
             k \in HdrKinds, b \in {x \in Blocks(RN1 \ {"dup"}, RV1, RN2, RV2) : BmApplies(bm, x)}} :
         bm \in BMs}
\* ... and every fixed part on a canonical block
OneLc == [np |-> 1, n1 |-> "lc", v1 |-> "v", n2 |-> NA, v2 |-> NA]
RawHdrFixed ==
  UNION {{WithBlock([Base EXCEPT !.k = k, !.fl = f, !.sid = s, !.len = l], OneLc) :
            f \in FlagsOf(k), s \in {"odd", "zero", "hi"}, l \in {"exact", "ltfixed", "zero", "cut"}} :
         k \in HdrKinds}

RawFixed ==
  {[Base EXCEPT !.k = k, !.len = l, !.fl = f, !.sid = s, !.aux = a] :
      k \in {"rst"}, l \in {"exact", "short", "long", "zero"}, f \in {0, 1},
      s \in {"odd", "zero", "hi"}, a \in {"nz", "zero"}}
  \cup {[Base EXCEPT !.k = "ping", !.len = l, !.fl = f, !.sid = s] :
      l \in {"exact", "long", "zero"}, f \in {0, 1}, s \in {"odd", "zero", "hi"}}
  \cup {[Base EXCEPT !.k = "goaway", !.len = l, !.fl = f, !.sid = s, !.aux = a] :
      l \in {"exact", "short", "long", "zero"}, f \in {0, 1}, s \in {"odd", "zero", "hi"}, a \in {"nz", "zero"}}
  \cup {[Base EXCEPT !.k = "wu", !.len = l, !.fl = f, !.sid = s, !.aux = a] :
      l \in {"exact", "short", "long", "zero"}, f \in {0, 1}, s \in {"odd", "zero", "hi"},
      a \in {"pos", "zero", "hi"}}

\* SETTINGS: np entries present, count field per bm, declared length per len
RawSettings ==
  {s \in {[Base EXCEPT !.k = "settings", !.np = n, !.bm = bm, !.len = l, !.fl = f] :
            n \in 0..2, bm \in {"none", "cntmore", "cnthuge", "cntless"},
            l \in {"exact", "short", "long"}, f \in {0, 1}} : ~(s.np = 0 /\ s.bm = "cntless")}

RawData ==
  {[Base EXCEPT !.k = "data", !.len = l, !.fl = f, !.sid = s] :
      l \in {"exact", "zero", "long", "big"}, f \in {0, 1}, s \in {"odd", "zero"}}

RawUnknown == {[Base EXCEPT !.k = "unknown", !.aux = a] : a \in {"t5", "t10", "tffff"}}

RawShapes == RawHdrBlock \cup RawHdrFixed \cup RawFixed \cup RawSettings \cup RawData \cup RawUnknown

\* frames produced by the writer: always well-formed by construction
RtHdr ==
  {WithBlock([Base EXCEPT !.mode = "rt", !.k = k, !.fl = f], b) :
      k \in HdrKinds, f \in {0, 1}, b \in Blocks(WN1, WV1, WN2, WV2)}
RtOther ==
  {[Base EXCEPT !.mode = "rt", !.k = "rst", !.aux = "nz"],
   [Base EXCEPT !.mode = "rt", !.k = "ping"],
   [Base EXCEPT !.mode = "rt", !.k = "goaway", !.aux = "nz"],
   [Base EXCEPT !.mode = "rt", !.k = "goaway", !.aux = "zero", !.sid = "zero"],
   [Base EXCEPT !.mode = "rt", !.k = "wu", !.aux = "pos"],
   [Base EXCEPT !.mode = "rt", !.k = "wu", !.aux = "pos", !.sid = "zero"]}
  \cup {[Base EXCEPT !.mode = "rt", !.k = "settings", !.np = n, !.fl = f] : n \in 0..2, f \in {0, 1}}
  \cup {[Base EXCEPT !.mode = "rt", !.k = "data", !.len = l, !.fl = f] : l \in {"exact", "zero", "big"}, f \in {0, 1}}
\* frame structs the WRITER must refuse (frame_write.go: ZeroStreamId, InvalidControlFrame,
\* InvalidDataFrame): WriteFrame returns an error and leaves NO trace -- nothing on the wire,
\* nothing in the shared compression context; every later frame still round-trips.
RtRefused ==
  {WithBlock([Base EXCEPT !.mode = "rt", !.k = k, !.sid = "zero"], OneLc) : k \in HdrKinds}
  \cup {[Base EXCEPT !.mode = "rt", !.k = "rst", !.sid = "zero", !.aux = "nz"],
        [Base EXCEPT !.mode = "rt", !.k = "rst", !.aux = "zero"],          \* status 0
        [Base EXCEPT !.mode = "rt", !.k = "ping", !.sid = "zero"],
        [Base EXCEPT !.mode = "rt", !.k = "data", !.sid = "zero"],
        [Base EXCEPT !.mode = "rt", !.k = "data", !.sid = "hi"]}            \* control bit set
RtShapes == RtHdr \cup RtOther \cup RtRefused

\* raw header frames the READER must reject with a stream error, usable inside a sequence
\* (illegal name in pair 1 with a further pair behind it, or in the last pair)
RdRejected(K) == {s \in RawHdrBlock : s.k \in K /\ s.bm = "none" /\ s.np >= 1 /\ s.v1 = "v"
                                      /\ (s.np = 2 => s.v2 = "v")
                                      /\ (IF s.np = 1 THEN {s.n1} ELSE {s.n1, s.n2}) \cap {"uc", "empty", "dup"} # {}}

Shapes == RawShapes \cup RtShapes

---------------------------------------------------------------------------
(* Layer P: the verdict the draft dictates *)

Names(s) == IF s.np = 0 THEN {} ELSE IF s.np = 1 THEN {s.n1} ELSE {s.n1, s.n2}
Vals(s)  == IF s.np = 0 THEN {} ELSE IF s.np = 1 THEN {s.v1} ELSE {s.v1, s.v2}

\* 2.6.10: name length > 0, lower case, no duplicates: "MUST issue a stream error"
HardNames == {"uc", "empty", "dup"}
\* octets >= 0x80 in names, names the HTTP layering forbids (3.2.1): framing layer silent
GrayNames == {"na8", "forbid"}
GrayVals  == {"nul0"}
HardBM    == {"cntmore", "cnt1025", "cnthuge", "namebig", "namemax", "valbig", "valmax",
              "truncname", "truncval", "notzlib"}

\* "serr": the block is structurally intact, only its names are illegal -- a STREAM error (2.6.10,
\* 2.4.2): the frame is refused, but the session goes on, so the reader must have consumed the whole
\* block (the zlib context is shared by all later header blocks of the connection).
PHdr(s) ==
  IF s.len # "exact" \/ s.bm \in HardBM THEN "err"
  ELSE IF Names(s) \cap HardNames # {} THEN (IF s.bm = "none" THEN "serr" ELSE "err")
  ELSE IF s.bm = "trail" \/ Names(s) \cap GrayNames # {} \/ Vals(s) \cap GrayVals # {} \/ s.sid = "zero"
       THEN "either" ELSE "ok"

PFixed(s) ==
  IF s.len # "exact" THEN "err"                       \* 2.6.x: "this value is always 8 / 4"
  ELSE IF s.fl # 0 THEN "either"                      \* "Flags: none defined"
  ELSE CASE s.k = "rst"    -> IF s.sid = "zero" \/ s.aux = "zero" THEN "either" ELSE "ok"
         [] s.k = "ping"   -> IF s.sid = "zero" THEN "either" ELSE "ok"
         [] s.k = "goaway" -> "ok"
         [] s.k = "wu"     -> IF s.aux = "zero" THEN "either" ELSE "ok"

PSettings(s) == IF s.len = "exact" /\ s.bm = "none" THEN "ok" ELSE "err"

PData(s) == IF s.len = "long" THEN "err"             \* fewer octets than declared: no frame
            ELSE IF s.sid = "zero" THEN "either" ELSE "ok"

PVerdict(s) ==
  IF s \in RtRefused THEN "refused"
  ELSE IF s.mode = "rt" THEN "ok"
  ELSE CASE s.k \in HdrKinds   -> PHdr(s)
         [] s.k \in FixedKinds -> PFixed(s)
         [] s.k = "settings"   -> PSettings(s)
         [] s.k = "data"       -> PData(s)
         [] s.k = "unknown"    -> "either"             \* 2.2.1: may be ignored or refused

\* written names: equality of the name read back is judged modulo case; for octet
\* strings that are not UTF-8 (class bad8) the name comparison is gray
NameGray(s) == "bad8" \in Names(s)

\* allocation made before the announced octets have been seen (octets)
PreallocCap(frameOctets) == 64 * frameOctets + 1048576

---------------------------------------------------------------------------
(* Layer M: the checks as the code makes them (after fix commits) *)

Chunk == 4096      \* readBlockBytes: larger fields grow with the data actually read

ForbiddenHit(s) == "forbid" \in Names(s)   \* concretised as connection / keep-alive

MHdr(s) ==
  IF s.len \in {"ltfixed", "zero"} THEN "err"          \* fixed part / zlib stream short
  ELSE IF s.bm = "notzlib" THEN "err"
  ELSE IF s.bm \in {"cnt1025", "cnthuge"} THEN "err"    \* > MaxNumHeaders
  ELSE IF s.len = "cut" THEN "err"                      \* decompressor hits the limit
  ELSE IF s.bm \in {"namebig", "namemax", "valbig", "valmax", "truncname", "truncval", "cntmore"} THEN "err"
  ELSE IF Names(s) \cap HardNames # {} THEN (IF s.bm = "none" THEN "serr" ELSE "err")  \* error kept, block finished
  ELSE IF ForbiddenHit(s) THEN "err"                    \* InvalidHeaderPresent
  ELSE IF s.sid = "zero" THEN "err"
  ELSE "ok"                                            \* incl. bm = trail (not noticed)

MFixed(s) ==
  CASE s.k = "rst"    -> IF s.len # "exact" \/ s.aux = "zero" \/ s.sid = "zero" THEN "err" ELSE "ok"
    [] s.k = "ping"   -> IF s.len # "exact" \/ s.sid = "zero" \/ s.fl # 0 THEN "err" ELSE "ok"
    [] s.k = "goaway" -> IF s.fl # 0 \/ s.len # "exact" THEN "err" ELSE "ok"
    [] s.k = "wu"     -> IF s.fl # 0 \/ s.len # "exact" THEN "err" ELSE "ok"

MOutcome(s) ==
  IF s \in RtRefused THEN "refused"          \* every check precedes the first octet written / compressed
  ELSE IF s.mode = "rt" THEN "ok"
  ELSE CASE s.k \in HdrKinds   -> MHdr(s)
         [] s.k \in FixedKinds -> MFixed(s)
         [] s.k = "settings"   -> IF s.len = "exact" /\ s.bm = "none" THEN "ok" ELSE "err"
         [] s.k = "data"       -> IF s.len = "long" \/ s.sid = "zero" THEN "err" ELSE "ok"
         [] s.k = "unknown"    -> "err"

\* octets allocated for a length-prefixed field before its octets are read
Announced(s) == CASE s.bm \in {"namebig", "valbig"} -> 4194304
                  [] s.bm \in {"namemax", "valmax"} -> 2147483647   \* stands for 2^32-1
                  [] OTHER -> 64
MPrealloc(s) == IF s.k = "data" THEN (IF s.len \in {"big", "long"} THEN 100000 ELSE 64)
                ELSE IF Announced(s) <= Chunk THEN Announced(s) ELSE Chunk
FrameOctets(s) == IF s.k = "data" /\ s.len \in {"big", "long"} THEN 100008 ELSE 24

\* octets consumed when a frame is returned: the whole frame, nothing else
MConsumedWholeFrame(s) == MOutcome(s) = "ok" =>
  CASE s.k \in FixedKinds -> s.len = "exact"
    [] s.k = "settings"   -> s.len = "exact" /\ s.bm = "none"
    [] OTHER -> TRUE
=============================================================================
