------------------------------ MODULE Frame ------------------------------
(* C39 -- SPDY/3.1 framing.  The model: one shape in, one outcome out; TLC checks   *)
(* over the whole shape space that Layer M (the checks the code makes, in order)    *)
(* refines Layer P (the verdict the draft dictates).  All definitions, with the     *)
(* commentary, are in FrameDefs.tla; GenFrame.tla enumerates the cases replayed on  *)
(* the real framers.                                                                 *)
EXTENDS FrameDefs
VARIABLES shape, phase, out
vars == <<shape, phase, out>>

Init == shape \in Shapes /\ phase = "in" /\ out = NA
Parse == phase = "in" /\ phase' = "done" /\ out' = MOutcome(shape) /\ UNCHANGED shape
Next == Parse
Spec == Init /\ [][Next]_vars

Refines == phase = "done" =>
              /\ (PVerdict(shape) = "ok"  => out = "ok")
              /\ (PVerdict(shape) = "err" => out = "err")
              /\ (PVerdict(shape) = "refused" <=> out = "refused")
              /\ (PVerdict(shape) = "serr" => out = "serr")
AllocOK == MPrealloc(shape) <= PreallocCap(FrameOctets(shape))
BoundaryOK == MConsumedWholeFrame(shape)
TypeOK == out \in {NA, "ok", "err", "serr", "refused"} /\ PVerdict(shape) \in {"ok", "err", "serr", "either", "refused"}
=============================================================================
