CONSTANTS
  RN1 = @RN1@
  RN2 = @RN2@
  RV1 = @RV1@
  RV2 = @RV2@
  BMs = @BMS@
  WN1 = @WN1@
  WN2 = @WN2@
  WV1 = @WV1@
  WV2 = @WV2@
  MaxWarm = @MAXWARM@
  WarmK = @WARMK@
  WarmN = @WARMN@
  WarmV = @WARMV@
  RejK = @REJK@
INIT GInit
NEXT GNext
INVARIANTS Emit
CHECK_DEADLOCK FALSE
