------------------------------- MODULE Conn -------------------------------
(* C40 -- the SPDY/3.1 server of bfe_spdy (server_conn.go, server_process_frame.go,   *)
(* server_flow_control.go, server_write_sched.go, flow.go) on ONE connection.          *)
(*                                                                                     *)
(* Actions: one per client frame kind (the processXxx function of the serve loop) and  *)
(* one per step of a request handler (read body, send reply header, write body,        *)
(* finish).  Handler steps interleave freely with client frames: handler completion is *)
(* a concurrent action.  Octet counts are real (U = 16384 = the server's DATA frame    *)
(* size, W = 65536 = both initial windows).                                            *)
(*                                                                                     *)
(* Layer P -- only what the client sees on the wire and what the handler gets:         *)
(*   Allowed(..)   for every client frame the SET of outcomes spdy-protocol-draft3-1   *)
(*                 permits: "acc" (no error reaction), "rst:<status>" on that stream,  *)
(*                 "goaway" / "close" (session error);                                  *)
(*   InWindowOK    DATA is accepted only inside the windows the server advertised      *)
(*                 (initial + WINDOW_UPDATEs sent - DATA accepted >= 0);               *)
(*   ReplenishOK   WINDOW_UPDATEs sent = octets the handlers consumed (session), and   *)
(*                 never more than consumed (stream);                                   *)
(*   OutWindowOK   DATA is sent only inside the windows the client granted;            *)
(*   StartedOK     a handler runs only for a SYN_STREAM the draft accepts;              *)
(*   QuietOK       nothing more is sent on a stream after RST_STREAM / FIN;            *)
(*   NoPanic       no internal "panic(...)" condition of the code is reachable.        *)
(* Layer M -- the state the code keeps (maxStreamID, streams map, flow / inflow per    *)
(*   stream and connection, curOpenStreams, inGoAway, body pipe fill, write queue).    *)
EXTENDS Integers, Sequences, FiniteSets, TLC

CONSTANTS
  IDS,        \* stream ids the client uses (odd, even, out of order are all in here)
  MAXS,       \* Server.MaxConcurrentStreams
  DSIZES,     \* DATA payload sizes the client sends
  WUDS,       \* WINDOW_UPDATE deltas the client sends
  IWS,        \* SETTINGS_INITIAL_WINDOW_SIZE values the client sends
  HWRITES,    \* body sizes a handler writes in one call
  CLS,        \* content-lengths a SYN_STREAM without FIN may declare (besides declaring none)
  MaxSteps    \* bound on the length of a behaviour

U     == 16384
W     == 65536
MAX31 == 2147483647
NoCL  == 0 - 1          \* no content-length declared

RstProtocol == 1   RstInvalid == 2   RstRefused == 3   RstCancel == 5
RstFlow == 7       RstInUse == 8     RstClosed == 9

VARIABLES
  \* ---- Layer M: server state
  maxId, goaway, dead, st, nOpen,
  sIn, cIn,           \* inbound flow control (server's view of what the client may send)
  sOut, cOut, iw,     \* outbound flow control, client's SETTINGS_INITIAL_WINDOW_SIZE
  buf,                \* octets in the request body pipe, not yet read by the handler
  h,                  \* handler: "none" | "run" | "blocked" (in Write) | "done"
  replied, pend,      \* SYN_REPLY sent; octets of handler data queued behind flow control
  decl,               \* declared content-length of the request (-1 = none); body octets so far = acc
  \* ---- Layer P: observable history
  react,              \* outcome of the last client frame
  started,            \* ids for which a handler was started
  acc, accC,          \* DATA octets accepted per stream / session
  cons, consC,        \* octets consumed by handlers
  wuS, wuC,           \* WINDOW_UPDATE octets sent by the server
  out, outC,          \* DATA octets sent by the server
  cgS, cgC,           \* the client's view of the send windows it has granted (may be < 0)
  rsts,               \* RST_STREAM frames sent by the server: set of <<id, status>>
  fins,               \* streams on which the server sent FLAG_FIN
  quiet,              \* streams on which the server must stay silent from now on
  over,               \* the server sent DATA beyond a window the client had granted
  bad,                \* Layer-P obligation violated in this step (history flag) or ""
  panic,              \* an internal panic condition was hit
  n                   \* steps so far

mvars == <<maxId, goaway, dead, st, nOpen, sIn, cIn, sOut, cOut, iw, buf, h, replied, pend, decl>>
pvars == <<react, started, acc, accC, cons, consC, wuS, wuC, out, outC, cgS, cgC, rsts, fins, quiet, over, bad, panic>>
vars  == <<mvars, pvars, n>>

Live(id)  == st[id] \in {"open", "hcr"}                 \* in sc.streams
State(id) == IF st[id] # "idle" THEN st[id] ELSE IF id <= maxId THEN "closed" ELSE "idle"
Min(a, b) == IF a < b THEN a ELSE b
Max(a, b) == IF a > b THEN a ELSE b
\* flow.add: refuses a sum above 2^31-1 (negative windows are legal, 2.6.8)
AddOverflows(w, d) == w > 0 /\ d > MAX31 - w

---------------------------------------------------------------------------
(* Layer P: the outcomes the draft allows for a client frame, given the state *)

SessionErr == {"goaway", "close"}
Tok(c) == "rst:" \o ToString(c)
Rst(codes) == {Tok(c) : c \in codes}

AllowedSyn(id) ==
  IF goaway THEN {"acc"}                                           \* 2.6.6: ignore after GOAWAY
  ELSE IF id % 2 = 0 \/ id < maxId                                  \* 2.3.2: wrong parity / decreasing
       THEN SessionErr \cup Rst({RstProtocol, RstInvalid, RstRefused})
  ELSE IF id = maxId                                               \* 2.3.2: same id again
       THEN SessionErr \cup Rst({RstProtocol, RstInUse})
  ELSE IF nOpen >= MAXS                                            \* 2.6.4 / 2.4.2 REFUSED_STREAM
       THEN SessionErr \cup Rst({RstRefused, RstProtocol})
  ELSE {"acc"}

\* a well-framed SYN_STREAM whose request is malformed (3.2.1: missing / invalid :method, :path,
\* :version, :host, :scheme): the id rules come first and the id counts as USED whatever happens to
\* the request; the request itself is refused (BFE: stream error PROTOCOL_ERROR; a 400 reply or a
\* session error would be legal too) and no handler may run.
AllowedSynBad(id) ==
  IF id % 2 = 0 \/ id <= maxId \/ nOpen >= MAXS THEN AllowedSyn(id)
  ELSE SessionErr \cup Rst({RstProtocol, RstInvalid, RstRefused}) \cup {"acc"}

\* 3.2.1: DATA lengths that do not add up to the declared content-length: "MUST return a 400 (Bad
\* Request)" -- a 400 reply ("acc" on the wire), BFE's stream error PROTOCOL_ERROR, or a session error
ClOver(id, len)      == decl[id] >= 0 /\ acc[id] + len > decl[id]
ClShort(id, len, fin) == fin /\ decl[id] >= 0 /\ acc[id] + len < decl[id]
AllowedData(id, len, fin) ==
  CASE State(id) = "idle"   -> SessionErr \cup Rst({RstInvalid, RstProtocol})          \* 2.2.2
    [] State(id) = "hcr"    -> SessionErr \cup Rst({RstClosed, RstProtocol, RstInvalid}) \* 2.3.6
    [] State(id) = "closed" -> SessionErr \cup Rst({RstInvalid, RstClosed, RstProtocol, RstCancel}) \cup {"acc"}
    [] State(id) = "open"   ->
         LET overW == len > 0 /\ (len > sIn[id] \/ len > cIn)                          \* 2.6.8
             clBad == ClOver(id, len) \/ ClShort(id, len, fin)
         IN IF overW /\ clBad THEN SessionErr \cup Rst({RstFlow, RstProtocol})
            ELSE IF overW THEN SessionErr \cup Rst({RstFlow})
            ELSE IF clBad THEN SessionErr \cup Rst({RstProtocol}) \cup {"acc"}
            ELSE {"acc"}      \* incl. the empty DATA frame with FLAG_FIN that ends any request

AllowedWu(id, d) ==
  IF d = 0 THEN SessionErr \cup Rst({RstProtocol, RstFlow}) \cup {"acc"}               \* draft silent
  ELSE IF id = 0 THEN (IF AddOverflows(cOut, d) THEN SessionErr ELSE {"acc"})
  ELSE IF ~Live(id) THEN {"acc"} \cup Rst({RstInvalid, RstProtocol, RstClosed}) \cup SessionErr
  ELSE IF AddOverflows(sOut[id], d) THEN SessionErr \cup Rst({RstFlow})                \* 2.6.8
  ELSE {"acc"}

AllowedRst(id) == IF State(id) = "idle" THEN {"acc"} \cup SessionErr ELSE {"acc"}      \* never RST for RST
AllowedSettings(v) ==
  IF \E id \in IDS : Live(id) /\ v > iw /\ AddOverflows(sOut[id], v - iw)
    THEN SessionErr \cup Rst({RstFlow}) ELSE {"acc"}

\* the case of the draft a client frame falls into (names the expectation in reports)
WhySyn(id) == IF id % 2 = 0 THEN "syn:even" ELSE IF id < maxId THEN "syn:decreasing" ELSE IF id = maxId THEN "syn:same-id"
              ELSE IF nOpen >= MAXS THEN "syn:over-max-streams" ELSE "syn:ok"
WhySynBad(id) == IF WhySyn(id) = "syn:ok" THEN "synbad:malformed-request" ELSE "synbad:" \o WhySyn(id)
WhyData(id, len, fin) ==
  CASE State(id) = "idle" -> "data:idle-stream" [] State(id) = "hcr" -> "data:half-closed"
    [] State(id) = "closed" -> "data:closed-stream"
    [] OTHER -> IF ClOver(id, len) THEN "data:over-content-length"
                ELSE IF len > 0 /\ len > sIn[id] THEN "data:over-stream-window"
                ELSE IF len > 0 /\ len > cIn THEN "data:over-session-window"
                ELSE IF ClShort(id, len, fin) THEN "data:fin-short-of-content-length"
                ELSE IF decl[id] = 0 THEN "data:ok-content-length-0"
                ELSE IF decl[id] > 0 THEN "data:ok-content-length-n" ELSE "data:ok"
WhyWu(id, d) == IF d = 0 THEN "wu:zero-delta" ELSE IF id = 0 THEN (IF AddOverflows(cOut, d) THEN "wu:session-overflow" ELSE "wu:session-ok")
                ELSE IF ~Live(id) THEN "wu:dead-stream" ELSE IF AddOverflows(sOut[id], d) THEN "wu:stream-overflow"
                ELSE IF sOut[id] < 0 THEN "wu:stream-ok-negative-window" ELSE "wu:stream-ok"
WhyRst(id) == "rst:" \o State(id)
WhySettings(v) == IF AllowedSettings(v) # {"acc"} THEN "settings:overflow" ELSE IF v < iw THEN "settings:shrink" ELSE "settings:grow"

---------------------------------------------------------------------------
(* Layer M helpers *)

\* closeStream: the stream leaves the map, the body pipe is torn down, a blocked writer returns
CloseSt(id, S) == [S EXCEPT ![id] = "closed"]

\* scheduler: queued handler data leaves as windows allow (frames of <= U octets, any stream order):
\* the TOTAL that can leave is determined; with one sender the split is too.
Sendable(so, co, pd, sset) == LET tot == [i \in IDS |-> IF i \in sset THEN Max(0, Min(pd[i], so[i])) ELSE 0]
                              IN tot
RECURSIVE SumF(_, _)
SumF(f, S) == IF S = {} THEN 0 ELSE LET x == CHOOSE y \in S : TRUE IN f[x] + SumF(f, S \ {x})

\* Flush: send what the windows allow.  Deterministic when at most one stream has data queued or
\* the session window does not bind; otherwise the split is the scheduler's choice.
Flush(so, co, pd, lv) ==
  LET want == Sendable(so, co, pd, lv)
      tot  == SumF(want, IDS)
  IN IF co <= 0 THEN [i \in IDS |-> 0]
     ELSE IF tot <= co THEN want
     ELSE LET one == CHOOSE i \in IDS : want[i] > 0    \* session window binds: modelled for 1 sender
          IN [i \in IDS |-> IF i = one THEN Min(want[i], co) ELSE 0]
MultiSender(so, co, pd, lv) == Cardinality({i \in IDS : Sendable(so, co, pd, lv)[i] > 0}) > 1
                               /\ SumF(Sendable(so, co, pd, lv), IDS) > co

---------------------------------------------------------------------------
Init ==
  /\ maxId = 0 /\ goaway = FALSE /\ dead = FALSE /\ nOpen = 0
  /\ st = [i \in IDS |-> "idle"]
  /\ sIn = [i \in IDS |-> 0] /\ cIn = W
  /\ sOut = [i \in IDS |-> 0] /\ cOut = W /\ iw = W
  /\ buf = [i \in IDS |-> 0]
  /\ h = [i \in IDS |-> "none"] /\ replied = [i \in IDS |-> FALSE] /\ pend = [i \in IDS |-> 0]
  /\ decl = [i \in IDS |-> NoCL]
  /\ react = "acc" /\ started = {}
  /\ acc = [i \in IDS |-> 0] /\ accC = 0 /\ cons = [i \in IDS |-> 0] /\ consC = 0
  /\ wuS = [i \in IDS |-> 0] /\ wuC = 0 /\ out = [i \in IDS |-> 0] /\ outC = 0
  /\ cgS = [i \in IDS |-> 0] /\ cgC = W
  /\ rsts = {} /\ fins = {} /\ quiet = {} /\ over = FALSE /\ bad = "" /\ panic = FALSE /\ n = 0

Alive == ~dead /\ ~goaway /\ n < MaxSteps
Step  == n' = n + 1

\* the outcome of the step must lie in the allowed set (checked again on the real reply)
Outcome(o, allowed) == react' = o /\ bad' = IF o \in allowed THEN "" ELSE "outcome"

\* data leaves after a step that may have opened windows / queued data
\* (so, co, pd, stt: the new values)
SendPart(so, co, pd, stt, hh) ==
  LET lv   == {i \in IDS : stt[i] \in {"open", "hcr"}}
      sent == Flush(so, co, pd, lv)
      tot  == SumF(sent, IDS)
  IN /\ ~MultiSender(so, co, pd, lv)      \* scripts where the scheduler's choice shows are not generated
     /\ sOut' = [i \in IDS |-> so[i] - sent[i]]
     /\ cOut' = co - tot
     /\ pend' = [i \in IDS |-> pd[i] - sent[i]]
     /\ out'  = [i \in IDS |-> out[i] + sent[i]]
     /\ outC' = outC + tot
     /\ h' = [i \in IDS |-> IF hh[i] = "blocked" /\ (pd[i] - sent[i] = 0 \/ stt[i] \notin {"open", "hcr"})
                              THEN "run" ELSE hh[i]]

\* client-view windows after the server sent (cgS/cgC are updated by the caller for grants)
ClientView(cs, cc) ==
  /\ cgS' = [i \in IDS |-> cs[i] - (out'[i] - out[i])]
  /\ cgC' = cc - (outC' - outC)
  /\ over' = (over \/ (outC' - outC) > Max(0, cc) \/ \E i \in IDS : (out'[i] - out[i]) > Max(0, cs[i]))

NoSend == UNCHANGED <<sOut, cOut, pend, out, outC, h, cgS, cgC, over>>

\* ---- SYN_STREAM (processSynStream)
Syn(id, fin, cl) ==
  /\ Alive /\ Step
  \* a content-length is declared only where it matters: request with a body, SYN_STREAM acceptable
  /\ (cl # NoCL => ~fin /\ ~(id % 2 = 0 \/ id <= maxId) /\ nOpen + 1 <= MAXS)
  /\ decl' = IF ~(id % 2 = 0 \/ id <= maxId) /\ nOpen + 1 <= MAXS THEN [decl EXCEPT ![id] = cl] ELSE decl
  /\ LET A == AllowedSyn(id) IN
     IF id % 2 = 0 \/ id < maxId THEN           \* ConnectionError(ProtocolError) -> GOAWAY
        /\ Outcome("goaway", A) /\ goaway' = TRUE
        /\ UNCHANGED <<maxId, dead, st, nOpen, sIn, cIn, iw, buf, replied, started, acc, accC, cons, consC,
                       wuS, wuC, rsts, fins, quiet, panic>>
        /\ NoSend
     ELSE IF id = maxId THEN                    \* StreamError(ProtocolError): RST, closes a live stream
        /\ Outcome(Tok(RstProtocol), A)
        /\ rsts' = rsts \cup {<<id, RstProtocol>>}
        /\ st' = IF Live(id) THEN CloseSt(id, st) ELSE st
        /\ nOpen' = IF Live(id) THEN nOpen - 1 ELSE nOpen
        /\ quiet' = quiet \cup {id}
        /\ pend' = [pend EXCEPT ![id] = 0]
        /\ h' = [h EXCEPT ![id] = IF @ = "blocked" THEN "run" ELSE @]
        /\ UNCHANGED <<maxId, goaway, dead, sIn, cIn, sOut, cOut, iw, buf, replied, started, acc, accC, cons, consC,
                       wuS, wuC, out, outC, cgS, cgC, over, fins, panic>>
     ELSE IF nOpen + 1 > MAXS THEN              \* plain error: the connection is closed
        /\ Outcome("close", A) /\ dead' = TRUE /\ maxId' = id
        /\ UNCHANGED <<goaway, st, nOpen, sIn, cIn, iw, buf, replied, started, acc, accC, cons, consC,
                       wuS, wuC, rsts, fins, quiet, panic>>
        /\ NoSend
     ELSE
        /\ Outcome("acc", A)
        /\ maxId' = id /\ nOpen' = nOpen + 1
        /\ st' = [st EXCEPT ![id] = IF fin THEN "hcr" ELSE "open"]
        /\ sIn' = [sIn EXCEPT ![id] = W]
        /\ sOut' = [sOut EXCEPT ![id] = iw]
        /\ cgS' = [cgS EXCEPT ![id] = iw]
        /\ h' = [h EXCEPT ![id] = "run"] /\ started' = started \cup {id}
        /\ UNCHANGED <<goaway, dead, cIn, cOut, iw, buf, replied, pend, acc, accC, cons, consC, wuS, wuC,
                       out, outC, cgC, over, rsts, fins, quiet, panic>>

\* ---- SYN_STREAM carrying a malformed request (processSynStream + newWriterAndRequest failing)
SynBad(id, fin) ==
  /\ Alive /\ Step
  /\ LET A == AllowedSynBad(id) IN
     IF id % 2 = 0 \/ id < maxId THEN
        /\ Outcome("goaway", A) /\ goaway' = TRUE
        /\ UNCHANGED <<maxId, dead, st, nOpen, sIn, cIn, iw, buf, replied, started, acc, accC, cons, consC,
                       wuS, wuC, rsts, fins, quiet, panic>>
        /\ NoSend
     ELSE IF id = maxId THEN
        /\ Outcome(Tok(RstProtocol), A)
        /\ rsts' = rsts \cup {<<id, RstProtocol>>}
        /\ st' = IF Live(id) THEN CloseSt(id, st) ELSE st
        /\ nOpen' = IF Live(id) THEN nOpen - 1 ELSE nOpen
        /\ quiet' = quiet \cup {id}
        /\ pend' = [pend EXCEPT ![id] = 0]
        /\ h' = [h EXCEPT ![id] = IF @ = "blocked" THEN "run" ELSE @]
        /\ UNCHANGED <<maxId, goaway, dead, sIn, cIn, sOut, cOut, iw, buf, replied, started, acc, accC, cons, consC,
                       wuS, wuC, out, outC, cgS, cgC, over, fins, panic>>
     ELSE IF nOpen + 1 > MAXS THEN
        /\ Outcome("close", A) /\ dead' = TRUE /\ maxId' = id
        /\ UNCHANGED <<goaway, st, nOpen, sIn, cIn, iw, buf, replied, started, acc, accC, cons, consC,
                       wuS, wuC, rsts, fins, quiet, panic>>
        /\ NoSend
     ELSE                                       \* the id is used up; stream error, no handler
        /\ Outcome(Tok(RstProtocol), A)
        /\ maxId' = id
        /\ rsts' = rsts \cup {<<id, RstProtocol>>}
        /\ st' = [st EXCEPT ![id] = "closed"] /\ quiet' = quiet \cup {id}
        /\ UNCHANGED <<goaway, dead, nOpen, sIn, cIn, iw, buf, replied, started, acc, accC, cons, consC,
                       wuS, wuC, fins, panic>>
        /\ NoSend

\* a stream error on a live stream: RST_STREAM + closeStream
ResetLive(id, code) ==
  /\ rsts' = rsts \cup {<<id, code>>}
  /\ st' = CloseSt(id, st) /\ nOpen' = nOpen - 1
  /\ quiet' = quiet \cup {id}
  /\ pend' = [pend EXCEPT ![id] = 0]
  /\ h' = [h EXCEPT ![id] = IF @ = "blocked" THEN "run" ELSE @]

\* ---- DATA (processData)
Data(id, len, fin) ==
  /\ Alive /\ Step
  /\ LET A == AllowedData(id, len, fin) IN
     IF ~Live(id) THEN                          \* not in the map: RST INVALID_STREAM
        /\ Outcome(Tok(RstInvalid), A)
        /\ rsts' = rsts \cup {<<id, RstInvalid>>}
        /\ UNCHANGED <<maxId, goaway, dead, st, nOpen, sIn, cIn, iw, buf, replied, started, acc, accC, cons, consC,
                       wuS, wuC, fins, quiet, panic>>
        /\ NoSend
     ELSE IF st[id] # "open" THEN               \* half closed (remote): RST STREAM_ALREADY_CLOSED
        /\ Outcome(Tok(RstClosed), A)
        /\ ResetLive(id, RstClosed)
        /\ UNCHANGED <<maxId, goaway, dead, sIn, cIn, sOut, cOut, iw, buf, replied, started, acc, accC, cons, consC,
                       wuS, wuC, out, outC, cgS, cgC, over, fins, panic>>
     ELSE IF ClOver(id, len) THEN               \* more than declared: body closed, RST PROTOCOL_ERROR
        /\ Outcome(Tok(RstProtocol), A)
        /\ ResetLive(id, RstProtocol)
        /\ UNCHANGED <<maxId, goaway, dead, sIn, cIn, sOut, cOut, iw, buf, replied, started, acc, accC, cons, consC,
                       wuS, wuC, out, outC, cgS, cgC, over, fins, panic>>
     ELSE IF len > 0 /\ Min(sIn[id], cIn) < len THEN    \* beyond the window: RST FLOW_CONTROL_ERROR
        /\ Outcome(Tok(RstFlow), A)
        /\ ResetLive(id, RstFlow)
        /\ UNCHANGED <<maxId, goaway, dead, sIn, cIn, sOut, cOut, iw, buf, replied, started, acc, accC, cons, consC,
                       wuS, wuC, out, outC, cgS, cgC, over, fins, panic>>
     ELSE IF ClShort(id, len, fin) THEN         \* octets taken, then FIN short of the declaration: RST
        /\ Outcome(Tok(RstProtocol), A)
        /\ sIn' = [sIn EXCEPT ![id] = @ - len] /\ cIn' = cIn - len
        /\ acc' = [acc EXCEPT ![id] = @ + len] /\ accC' = accC + len
        /\ ResetLive(id, RstProtocol)
        /\ UNCHANGED <<maxId, goaway, dead, sOut, cOut, iw, buf, replied, started, cons, consC,
                       wuS, wuC, out, outC, cgS, cgC, over, fins, panic>>
     ELSE
        /\ Outcome("acc", A)
        /\ sIn' = [sIn EXCEPT ![id] = @ - len] /\ cIn' = cIn - len
        /\ buf' = [buf EXCEPT ![id] = @ + len]
        /\ acc' = [acc EXCEPT ![id] = @ + len] /\ accC' = accC + len
        /\ st' = IF fin THEN [st EXCEPT ![id] = "hcr"] ELSE st
        /\ panic' = (panic \/ buf[id] + len > W)          \* "internal error: bad Writer"
        /\ UNCHANGED <<maxId, goaway, dead, nOpen, iw, replied, started, cons, consC, wuS, wuC, rsts, fins, quiet>>
        /\ NoSend

\* ---- WINDOW_UPDATE (processWindowUpdate)
Wu(id, d) ==
  /\ Alive /\ Step
  /\ LET A == AllowedWu(id, d) IN
     IF id = 0 THEN
        IF AddOverflows(cOut, d) THEN           \* goAwayFlowError
           /\ Outcome("goaway", A) /\ goaway' = TRUE
           /\ UNCHANGED <<maxId, dead, st, nOpen, sIn, cIn, iw, buf, replied, started, acc, accC, cons, consC,
                          wuS, wuC, rsts, fins, quiet, panic>>
           /\ NoSend
        ELSE
           /\ Outcome("acc", A)
           /\ SendPart(sOut, cOut + d, pend, st, h) /\ ClientView(cgS, cgC + d)
           /\ UNCHANGED <<maxId, goaway, dead, st, nOpen, sIn, cIn, iw, buf, replied, started, acc, accC, cons, consC,
                          wuS, wuC, rsts, fins, quiet, panic>>
     ELSE IF ~Live(id) THEN                     \* unknown / closed stream: ignored
        /\ Outcome("acc", A)
        /\ UNCHANGED <<maxId, goaway, dead, st, nOpen, sIn, cIn, iw, buf, replied, started, acc, accC, cons, consC,
                       wuS, wuC, rsts, fins, quiet, panic>>
        /\ NoSend
     ELSE IF AddOverflows(sOut[id], d) THEN     \* StreamError(FlowControlError)
        /\ Outcome(Tok(RstFlow), A)
        /\ ResetLive(id, RstFlow)
        /\ UNCHANGED <<maxId, goaway, dead, sIn, cIn, sOut, cOut, iw, buf, replied, started, acc, accC, cons, consC,
                       wuS, wuC, out, outC, cgS, cgC, over, fins, panic>>
     ELSE
        /\ Outcome("acc", A)
        /\ SendPart([sOut EXCEPT ![id] = @ + d], cOut, pend, st, h)
        /\ ClientView([cgS EXCEPT ![id] = @ + d], cgC)
        /\ UNCHANGED <<maxId, goaway, dead, st, nOpen, sIn, cIn, iw, buf, replied, started, acc, accC, cons, consC,
                       wuS, wuC, rsts, fins, quiet, panic>>

\* ---- RST_STREAM from the client (processResetStream)
RstC(id) ==
  /\ Alive /\ Step
  /\ LET A == AllowedRst(id) IN
     IF State(id) = "idle" THEN                 \* ConnectionError(ProtocolError)
        /\ Outcome("goaway", A) /\ goaway' = TRUE
        /\ UNCHANGED <<maxId, dead, st, nOpen, sIn, cIn, iw, buf, replied, started, acc, accC, cons, consC,
                       wuS, wuC, rsts, fins, quiet, panic>>
        /\ NoSend
     ELSE IF Live(id) THEN
        /\ Outcome("acc", A)
        /\ st' = CloseSt(id, st) /\ nOpen' = nOpen - 1 /\ quiet' = quiet \cup {id}
        /\ pend' = [pend EXCEPT ![id] = 0]
        /\ h' = [h EXCEPT ![id] = IF @ = "blocked" THEN "run" ELSE @]
        /\ UNCHANGED <<maxId, goaway, dead, sIn, cIn, sOut, cOut, iw, buf, replied, started, acc, accC, cons, consC,
                       wuS, wuC, out, outC, cgS, cgC, over, rsts, fins, panic>>
     ELSE
        /\ Outcome("acc", A)
        /\ UNCHANGED <<maxId, goaway, dead, st, nOpen, sIn, cIn, iw, buf, replied, started, acc, accC, cons, consC,
                       wuS, wuC, rsts, fins, quiet, panic>>
        /\ NoSend

\* ---- SETTINGS with INITIAL_WINDOW_SIZE (processSettingInitialWindowSize)
Settings(v) ==
  /\ Alive /\ Step
  /\ LET A == AllowedSettings(v)
         g == v - iw
     IN IF \E id \in IDS : Live(id) /\ g > 0 /\ AddOverflows(sOut[id], g) THEN
           /\ Outcome("goaway", A) /\ goaway' = TRUE /\ iw' = v
           /\ UNCHANGED <<maxId, dead, st, nOpen, sIn, cIn, buf, replied, started, acc, accC, cons, consC,
                          wuS, wuC, rsts, fins, quiet, panic>>
           /\ NoSend
        ELSE
           /\ Outcome("acc", A) /\ iw' = v
           /\ SendPart([i \in IDS |-> IF Live(i) THEN sOut[i] + g ELSE sOut[i]], cOut, pend, st, h)
           /\ ClientView([i \in IDS |-> IF Live(i) THEN cgS[i] + g ELSE cgS[i]], cgC)
           /\ UNCHANGED <<maxId, goaway, dead, st, nOpen, sIn, cIn, buf, replied, started, acc, accC, cons, consC,
                          wuS, wuC, rsts, fins, quiet, panic>>

\* ---- frames the server ignores or merely echoes: PING, GOAWAY, HEADERS from the client
Other(k) ==
  /\ Alive /\ Step /\ k \in {"ping", "goaway", "headers"}
  /\ Outcome("acc", {"acc"})
  /\ UNCHANGED <<mvars, started, acc, accC, cons, consC, wuS, wuC, out, outC, cgS, cgC, over, rsts, fins, quiet, panic>>

---------------------------------------------------------------------------
(* handler steps *)

\* r.Body.Read of k octets (noteBodyRead: session WINDOW_UPDATE always, stream one while open)
HRead(id, k) ==
  /\ Alive /\ Step /\ h[id] = "run" /\ Live(id) /\ k > 0 /\ k <= buf[id]
  /\ buf' = [buf EXCEPT ![id] = @ - k]
  /\ cons' = [cons EXCEPT ![id] = @ + k] /\ consC' = consC + k
  /\ wuC' = wuC + k /\ cIn' = cIn + k
  /\ IF st[id] = "open" THEN wuS' = [wuS EXCEPT ![id] = @ + k] /\ sIn' = [sIn EXCEPT ![id] = @ + k]
                         ELSE UNCHANGED <<wuS, sIn>>
  /\ panic' = (panic \/ AddOverflows(cIn, k))           \* "sent too many window updates"
  /\ react' = "acc" /\ bad' = ""
  /\ UNCHANGED <<maxId, goaway, dead, st, nOpen, iw, replied, started, acc, accC, rsts, fins, quiet>>
  /\ NoSend

\* w.WriteHeader + Flush: SYN_REPLY
HReply(id) ==
  /\ Alive /\ Step /\ h[id] = "run" /\ Live(id) /\ ~replied[id]
  /\ replied' = [replied EXCEPT ![id] = TRUE]
  /\ react' = "acc" /\ bad' = ""
  /\ UNCHANGED <<maxId, goaway, dead, st, nOpen, sIn, cIn, iw, buf, started, acc, accC, cons, consC, wuS, wuC,
                 rsts, fins, quiet, panic>>
  /\ NoSend

\* w.Write(k octets) + Flush: SYN_REPLY if needed, then DATA as the windows allow; the handler
\* is blocked until everything left or the stream is closed
HWrite(id, k) ==
  /\ Alive /\ Step /\ h[id] = "run" /\ Live(id)
  /\ replied' = [replied EXCEPT ![id] = TRUE]
  /\ SendPart(sOut, cOut, [pend EXCEPT ![id] = k], st, [h EXCEPT ![id] = "blocked"])
  /\ ClientView(cgS, cgC)
  /\ react' = "acc" /\ bad' = ""
  /\ UNCHANGED <<maxId, goaway, dead, st, nOpen, sIn, cIn, iw, buf, started, acc, accC, cons, consC, wuS, wuC,
                 rsts, fins, quiet, panic>>

\* the handler returns: FLAG_FIN on SYN_REPLY or on an empty DATA frame; a stream the client has
\* not finished is then reset with CANCEL (wroteFrame), otherwise just closed
HFinish(id) ==
  /\ Alive /\ Step /\ h[id] = "run"
  /\ h' = [h EXCEPT ![id] = "done"]
  /\ react' = (IF st[id] = "open" THEN Tok(RstCancel) ELSE "acc") /\ bad' = ""
  /\ IF Live(id) THEN
        /\ replied' = [replied EXCEPT ![id] = TRUE]
        /\ fins' = fins \cup {id} /\ quiet' = quiet \cup {id}
        /\ st' = CloseSt(id, st) /\ nOpen' = nOpen - 1
        /\ rsts' = IF st[id] = "open" THEN rsts \cup {<<id, RstCancel>>} ELSE rsts
     ELSE UNCHANGED <<replied, fins, quiet, st, nOpen, rsts>>
  /\ UNCHANGED <<maxId, goaway, dead, sIn, cIn, sOut, cOut, iw, buf, pend, started, acc, accC, cons, consC,
                 wuS, wuC, out, outC, cgS, cgC, over, panic>>

Next ==
  \/ \E id \in IDS, fin \in BOOLEAN, cl \in CLS \cup {NoCL} : Syn(id, fin, cl)
  \/ /\ UNCHANGED decl
     /\ \/ \E id \in IDS, fin \in BOOLEAN : SynBad(id, fin)
        \/ \E id \in IDS, len \in DSIZES, fin \in BOOLEAN : Data(id, len, fin)
        \/ \E id \in IDS \cup {0}, d \in WUDS : Wu(id, d)
        \/ \E id \in IDS : RstC(id)
        \/ \E v \in IWS : Settings(v)
        \/ \E k \in {"ping", "goaway", "headers"} : Other(k)
        \/ \E id \in IDS, k \in DSIZES : HRead(id, k)
        \/ \E id \in IDS : HReply(id)
        \/ \E id \in IDS, k \in HWRITES : HWrite(id, k)
        \/ \E id \in IDS : HFinish(id)

Spec == Init /\ [][Next]_vars

---------------------------------------------------------------------------
(* Layer P invariants: checked by TLC on the model, and on every replayed step against the code *)

OutcomeOK   == bad = ""
\* the server never accepted DATA beyond what it had advertised
InWindowOK  == /\ \A i \in IDS : st[i] # "idle" => acc[i] <= W + wuS[i]
               /\ accC <= W + wuC
\* windows are replenished by exactly the octets consumed (session) / at most (stream)
ReplenishOK == /\ wuC = consC
               /\ \A i \in IDS : wuS[i] <= cons[i] /\ cons[i] <= acc[i]
\* DATA is never sent beyond what the client granted (the client's view of a window goes below
\* zero only through a SETTINGS decrease, never through a send)
OutWindowOK == ~over
\* ... precisely: model windows and client view coincide (the server sees every grant)
ViewOK      == /\ cgC = cOut
               /\ \A i \in IDS : Live(i) => cgS[i] = sOut[i]
\* a handler runs only for SYN_STREAMs the draft accepts; never more than MAXS at a time
StartedOK   == /\ \A i \in started : i % 2 = 1 /\ i <= maxId
               /\ nOpen = Cardinality({i \in IDS : Live(i)}) /\ nOpen <= MAXS
\* id monotonicity over ALL ids the client used, refused ones included: maxId is the highest id of
\* any SYN_STREAM that passed the id rules, so a stream can only be live / a handler started with an
\* id that was above every earlier one
IdsOK       == \A i \in IDS : (st[i] # "idle" \/ i \in started) => i <= maxId
NoPanic     == ~panic
PendOK      == \A i \in IDS : pend[i] >= 0 /\ (pend[i] > 0 => Live(i) /\ h[i] = "blocked")
InflowOK    == cIn >= 0 /\ cIn <= W /\ \A i \in IDS : sIn[i] >= 0 /\ sIn[i] <= W /\ buf[i] <= W
=============================================================================
