------------------------------ MODULE GenFcgi ------------------------------
(* Case generator for C55: the inputs of Fcgi with what Layer P expects (T, minrec, keep) and, as *)
(* a diagnostic, the record boundaries of the mechanism model (expM).                             *)
EXTENDS Fcgi, Json
VARIABLE fin

GInit == Init /\ fin = FALSE
GNext == \/ Next /\ fin' = FALSE
         \/ phase = "done" /\ ~fin /\ fin' = TRUE /\ UNCHANGED vars

PadOf(i) == IF padmode = 0 THEN 0 ELSE << 5, 255, 0, 7 >>[(i % 4) + 1]
ParamLens == LET ps == SelectSeq(recs, LAMBDA r : r.t = "PARAMS" /\ r.n > 0)
             IN [i \in 1..Len(ps) |-> ps[i].n]

Emit == fin =>
  IF side = "req"
    THEN PrintT(ToJson([kind |-> "req", pairs |-> pairs, body |-> blen,
                        T |-> Total(pairs), minrec |-> MinRecords(Total(pairs)), expM |-> ParamLens]))
    ELSE PrintT(ToJson([kind |-> "resp",
                        script |-> [i \in 1..Len(script) |-> [t |-> script[i].t, n |-> script[i].n, pad |-> PadOf(i)]],
                        cuts |-> cuts, keep |-> StdoutIdx(script)]))
=============================================================================
