\* C46: every shape x payload x split into at most MaxChunks deliveries
CONSTANTS
  MaxChunks = @CHUNKS@
  PayLevel = @PAY@
INIT Init
NEXT Next
INVARIANTS Sound Stable Decided TypeOK
CHECK_DEADLOCK FALSE
