-------------------------------- MODULE Doh --------------------------------
(***************************************************************************)
(* C56  DNS over HTTPS front end (RFC 8484 4.1, RFC 6891 6.1.1, RFC 7871 6)*)
(*                                                                         *)
(* Layer P (what the property dictates, per request shape):                *)
(*   Allowed = {"fwd"}        a well-formed GET (?dns= base64url without   *)
(*                            padding) or POST (body = the message, within *)
(*                            the size limit) must be forwarded;           *)
(*             {"rej"}        other methods, no / undecodable dns          *)
(*                            parameter, bytes that are not a DNS message, *)
(*                            a body larger than the limit: rejected,      *)
(*                            never truncated and sent;                    *)
(*             {"fwd","rej"}  shapes the documents leave to the server     *)
(*                            (padded or standard-alphabet base64, two dns *)
(*                            parameters, POST with another content type). *)
(*   A forwarded message is the client's message plus, in exactly one OPT  *)
(*   record, a client-subnet option with FAMILY 1 / SOURCE PREFIX 32 for   *)
(*   an IPv4 client and FAMILY 2 / 128 for an IPv6 client — the client is  *)
(*   ClientAddr when a trusted proxy supplied one, else the TCP peer; how  *)
(*   the IP is held in memory (4 or 16 bytes) must not matter.  If the     *)
(*   client's own query already carries a client-subnet option, whether    *)
(*   it is kept or replaced is not dictated (only the single OPT is).      *)
(*                                                                         *)
(*   Delivery: a POST body arrives through the HTTP body reader, framed by  *)
(*   Content-Length or chunked.  If fewer bytes arrive than were declared   *)
(*   (sender gone, connection reset, chunked body without its last chunk)   *)
(*   the bytes at hand are NOT the client's message — wherever the cut      *)
(*   falls, also on a DNS record boundary where the prefix happens to parse *)
(*   — and the request is rejected: forwarded = the complete query, or      *)
(*   nothing.                                                               *)
(*                                                                         *)
(* Layer M: mod_doh.RequestToDnsMsg as implemented (requestToMsgGet,       *)
(* requestToMsgPost, setClientSubnet), two steps: Decode, AddSubnet.       *)
(***************************************************************************)
EXTENDS Integers, Sequences, FiniteSets, TLC

CONSTANTS Limit,           \* maxPostMsgLength
          Level            \* 1: core input space, 2: full product

Methods == {"GET", "POST", "PUT"}
Encs    == {"ok", "padded", "std", "bad", "missing", "dup", "empty"}
Ctypes  == {"dns", "other", "none"}
Sizes   == {"small", "limit", "over1", "overrr", "huge"}
Msgs    == {"valid", "short", "garbage"}
Cfams   == {"v4", "v4in16", "v6"}        \* v4in16: an IPv4 address held as 16 bytes (net.ParseIP)
Vias    == {"remote", "client"}
Ednss   == {"none", "opt", "optdo", "cookie", "ecs"}
Frames  == {"cl", "chunked"}               \* how a POST body is framed: Content-Length / chunked
\* complete; the body ends early exactly before the last DNS record (after the 12-byte header if there
\* is no record behind the question); ends one byte early; the connection is reset after half of it
Delivs  == {"complete", "cutrr", "cutmid", "reset"}

SizeOf(c) == CASE c = "small" -> 35 [] c = "limit" -> Limit [] c = "over1" -> Limit + 1
               [] c = "overrr" -> Limit + 51 [] c = "huge" -> 2 * Limit + 77

InD(m, e, ct, sz, msg, cf, via, ed, fr, dl) ==
  [method |-> m, enc |-> e, ctype |-> ct, size |-> sz, msg |-> msg, cfam |-> cf, via |-> via, edns |-> ed,
   frame |-> fr, deliv |-> dl]
In(m, e, ct, sz, msg, cf, via, ed) ==
  InD(m, e, ct, sz, msg, cf, via, ed, IF m = "GET" THEN "-" ELSE "cl", IF m = "GET" THEN "-" ELSE "complete")

\* the input space: GET varies the encoding, POST the content type and the size; a broken message
\* only in the otherwise regular request
Inputs ==
  LET addr == IF Level = 1 THEN {<< "v4", "remote" >>, << "v4in16", "client" >>, << "v6", "remote" >>, << "v6", "client" >>}
              ELSE Cfams \X Vias
  IN   {In("GET", e, "-", "small", "valid", a[1], a[2], ed) : e \in Encs, a \in addr, ed \in Ednss}
  \cup {In("GET", "ok", "-", "small", g, a[1], a[2], "none") : g \in Msgs, a \in addr}
  \cup {In("POST", "-", ct, sz, "valid", a[1], a[2], ed) : ct \in Ctypes, sz \in Sizes, a \in addr, ed \in Ednss}
  \cup {In("POST", "-", "dns", "small", g, a[1], a[2], "none") : g \in Msgs, a \in addr}
  \cup {In("PUT", "-", "dns", "small", "valid", a[1], a[2], "none") : a \in addr}
  \* the regular POST (within the limit) under every framing and every way the body can end
  \cup {InD("POST", "-", "dns", sz, "valid", a[1], a[2], ed, fr, dl) :
          sz \in {"small", "limit"}, a \in addr, ed \in Ednss, fr \in Frames, dl \in Delivs}

------------------------------------------------------------------------------
(* Layer P                                                                  *)
MustReject(i) ==
  \/ i.method \notin {"GET", "POST"}
  \/ i.method = "GET" /\ i.enc \in {"bad", "missing", "empty"}
  \/ i.msg # "valid"
  \/ i.method = "POST" /\ SizeOf(i.size) > Limit
  \/ i.deliv \notin {"-", "complete"}                   \* not the client's message: never a prefix of it
Either(i) ==
  \/ i.method = "GET" /\ i.enc \in {"padded", "std", "dup"}
  \/ i.method = "POST" /\ i.ctype \in {"other", "none"}
Allowed(i) == IF MustReject(i) THEN {"rej"} ELSE IF Either(i) THEN {"fwd", "rej"} ELSE {"fwd"}

Family(i) == IF i.cfam = "v6" THEN 2 ELSE 1          \* RFC 7871 6: FAMILY per the address family of the client
Prefix(i) == IF i.cfam = "v6" THEN 128 ELSE 32       \* the whole address, as the property states

ForwardOK(i, f) ==
  /\ f.nopt = 1                                        \* RFC 6891 6.1.1: at most one OPT record
  /\ f.keeps                                           \* the client's sections, options, DO bit
  /\ i.edns # "ecs" => (f.necs = 1 /\ f.fam = Family(i) /\ f.prefix = Prefix(i))

------------------------------------------------------------------------------
(* Layer M                                                                  *)
VARIABLES in, stage, decoded, fwd
vars == << in, stage, decoded, fwd >>

None == [nopt |-> 0, necs |-> 0, fam |-> 0, prefix |-> 0, keeps |-> TRUE]

Init == in \in Inputs /\ stage = "request" /\ decoded = FALSE /\ fwd = None

\* requestToMsgGet / requestToMsgPost + dns.Msg.Unpack
Decode ==
  /\ stage = "request"
  /\ LET ok == CASE in.method = "GET"  -> in.enc = "ok" /\ in.msg = "valid"      \* one dns value, RawURLEncoding
                 [] in.method = "POST" -> /\ in.deliv = "complete"       \* the body reader's error ends ReadAll
                                          /\ SizeOf(in.size) <= Limit /\ in.msg = "valid"   \* no content-type test
                 [] OTHER              -> FALSE
     IN decoded' = ok /\ stage' = IF ok THEN "message" ELSE "rejected"
  /\ UNCHANGED << in, fwd >>

\* setClientSubnet: ClientAddr before RemoteAddr; To4() decides the family; the query's OPT is reused
AddSubnet ==
  /\ stage = "message"
  /\ LET four == in.cfam \in {"v4", "v4in16"}                \* net.IP.To4() # nil for both representations
     IN fwd' = [nopt   |-> 1,
                necs   |-> 1,                                 \* a client-supplied one is replaced
                fam    |-> IF four THEN 1 ELSE 2,
                prefix |-> IF four THEN 32 ELSE 128,
                keeps  |-> TRUE]
  /\ stage' = "forwarded"
  /\ UNCHANGED << in, decoded >>

Next == Decode \/ AddSubnet
Spec == Init /\ [][Next]_vars

Outcome == CASE stage = "forwarded" -> "fwd" [] stage = "rejected" -> "rej" [] OTHER -> "-"

Verdict   == Outcome # "-" => Outcome \in Allowed(in)
Forwarded == stage = "forwarded" => ForwardOK(in, fwd)
TypeOK    == stage \in {"request", "message", "rejected", "forwarded"}

\* RFC 7871 7.1.1 / 6: FAMILY 1 is IPv4 (32-bit addresses), FAMILY 2 is IPv6 (128-bit)
ASSUME Family(In("GET", "ok", "-", "small", "valid", "v4in16", "client", "none")) = 1
ASSUME Prefix(In("GET", "ok", "-", "small", "valid", "v6", "remote", "none")) = 128
=============================================================================
