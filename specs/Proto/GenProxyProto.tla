--------------------------- MODULE GenProxyProto ---------------------------
(* Case generator for C46: every (shape, payload, split) of ProxyProto with what Layer P allows. *)
(* One JSON object per case; the harness (cmd/proto proxyproto) turns the symbols into bytes.    *)
EXTENDS ProxyProto, Json
VARIABLE fin

RECURSIVE SumLen(_, _)
SumLen(r, i) == IF i = 0 THEN 0 ELSE Len(r[i]) + SumLen(r, i - 1)
CutPos(r) == {SumLen(r, i) : i \in 1..(Len(r) - 1)}

GInit == Init /\ fin = FALSE
GNext == ~fin /\ fin' = TRUE /\ UNCHANGED vars

Emit == fin => PrintT(ToJson([shape   |-> Key(shape),
                              syms    |-> Names(Stream(shape, pay)),
                              hlen    |-> HLen,
                              cuts    |-> CutPos(rest),
                              allowed |-> Allowed(shape),
                              gray    |-> Gray(shape),
                              expM    |-> Try(Stream(shape, pay), TRUE).out]))
=============================================================================
