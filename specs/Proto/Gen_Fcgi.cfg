CONSTANTS
  NameLens = @NAMES@
  ValLens = @VALS@
  MaxPairs = @PAIRS@
  BodyLens = @BODIES@
  MaxData = @DATA@
  MaxCuts = @CUTS@
  Sides = @SIDES@
INIT GInit
NEXT GNext
INVARIANTS Emit
CHECK_DEADLOCK FALSE
