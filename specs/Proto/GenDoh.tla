------------------------------- MODULE GenDoh -------------------------------
(* Case generator for C56: every input of Doh with Layer P's expectation (allowed, fam, prefix) *)
(* and the mechanism model's outcome (expM, diagnostic).                                         *)
EXTENDS Doh, Json
VARIABLE fin

GInit == Init /\ fin = FALSE
GNext == \/ Next /\ fin' = FALSE
         \/ stage \in {"rejected", "forwarded"} /\ ~fin /\ fin' = TRUE /\ UNCHANGED vars

Emit == fin => PrintT(ToJson([method |-> in.method, enc |-> in.enc, ctype |-> in.ctype, size |-> in.size,
                              msg |-> in.msg, cfam |-> in.cfam, via |-> in.via, edns |-> in.edns,
                              frame |-> in.frame, deliv |-> in.deliv,
                              allowed |-> Allowed(in), gray |-> FALSE,
                              fam |-> Family(in), prefix |-> Prefix(in), expM |-> Outcome]))
=============================================================================
