CONSTANTS
  Limit = @LIMIT@
  Level = @LEVEL@
INIT GInit
NEXT GNext
INVARIANTS Emit
CHECK_DEADLOCK FALSE
