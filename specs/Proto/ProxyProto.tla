----------------------------- MODULE ProxyProto -----------------------------
(***************************************************************************)
(* C46  PROXY protocol (HAProxy "proxy-protocol.txt", sections 2.1 and 2.2)*)
(*                                                                         *)
(* Layer P is the SENDER's view: a shape says which header a conformant    *)
(* (or, for the defect shapes, a broken) sender produced, Hdr(shape) is    *)
(* the header as a sequence of abstract symbols (alphabet.json maps every  *)
(* symbol to bytes), Allowed(shape) is the set of outcomes the document    *)
(* permits:                                                                *)
(*    "addr"   the advertised source/destination are reported              *)
(*    "real"   the real socket addresses are reported (UNKNOWN, LOCAL,     *)
(*             UNSPEC, no header at all)                                   *)
(*    "reject" the connection is ended, nothing reaches the application    *)
(* and in the first two cases the application reads exactly the symbols    *)
(* after the header.                                                       *)
(*                                                                         *)
(* Layer M is the RECEIVER as bfe_proxy implements it (header.go Read,     *)
(* v1.go parseVersion1, v2.go parseVersion2, conn.go checkProxyHeader): a  *)
(* blocking reader over the deliveries; Try(buf, eof) is what it can decide*)
(* from the symbols received so far.  TLC checks, for every shape, payload *)
(* and split of the byte stream into deliveries, that the decision lies in *)
(* Allowed, consumes exactly the header, is never revised, and is reached  *)
(* at the latest when the sender closes.                                   *)
(***************************************************************************)
EXTENDS Integers, Sequences, FiniteSets, TLC

CONSTANTS MaxChunks,      \* deliveries per connection
          PayLevel        \* 1: small payload set, 2: all payload shapes

\* payloads (symbol names): none, plain data, data that looks like another v1 / v2 header (must
\* reach the application untouched), data larger than the header limit and the read buffer
Payloads == IF PayLevel = 1 THEN { << >>, << "d1" >>, << "dH" >>, << "dB" >> }
            ELSE { << >>, << "d1" >>, << "dH" >>, << "dV" >>, << "d1", "d2" >>, << "dB" >>, << "d1", "dB" >> }

S(k)     == [k |-> k, n |-> 0]
SN(k, n) == [k |-> k, n |-> n]
Name(s)  == IF s.k \in {"L", "T", "X", "VC", "F"} THEN s.k \o ToString(s.n) ELSE s.k
Names(q) == [i \in 1..Len(q) |-> Name(q[i])]

------------------------------------------------------------------------------
(* Layer P: shapes (sender's view)                                          *)

Sh(ver, cmd, fam, form, tlv, defect) ==
  [ver |-> ver, cmd |-> cmd, fam |-> fam, form |-> form, tlv |-> tlv, defect |-> defect]

V1Good ==
     {Sh("v1", "-", "TCP4", f, 0, "none") : f \in {"plain", "max"}}
  \cup {Sh("v1", "-", "TCP6", f, 0, "none") : f \in {"plain", "max", "mapped"}}
  \cup {Sh("v1", "-", "UNKNOWN", f, 0, "none") : f \in {"none", "plain", "max", "junk", "junkl"}}

V1Bad ==
     {Sh("v1", "-", fam, "plain", 0, d) : fam \in {"TCP4", "TCP6"},
                                          d \in {"nocr", "badfam", "mismatch", "badport", "short", "noeol"}}
  \cup {Sh("v1", "-", "UNKNOWN", "none", 0, d) : d \in {"nocr", "noeol"}}

V2Good ==
     {Sh("v2", "PROXY", fam, "plain", t, "none") : fam \in {"TCP4", "TCP6"}, t \in {0, 7, 300}}
  \cup {Sh("v2", "PROXY", "TCP6", "mapped", t, "none") : t \in {0, 7}}
  \cup {Sh("v2", "PROXY", "UNSPEC", "none", t, "none") : t \in {0, 7}}
  \cup {Sh("v2", "LOCAL", "UNSPEC", "none", t, "none") : t \in {0, 7}}
  \cup {Sh("v2", "LOCAL", "TCP4", "plain", t, "none") : t \in {0, 7}}

\* families a TCP listener is free to refuse or to accept with the real addresses: no verdict
V2Gray == {Sh("v2", "PROXY", fam, "plain", 0, "none") : fam \in {"UDP4", "UDP6", "UNIX"}}

V2Bad == {Sh("v2", "PROXY", "TCP4", "plain", 0, d) :
            d \in {"badver1", "badver3", "badcmd", "badfam", "badproto", "shortlen", "trunc", "sigonly", "nolen"}}

\* no header at all: the first symbol says how the stream starts
NoHdr == {Sh("none", "-", f, "none", 0, "none") : f \in {"nG", "nP", "nX", "nC", "nT", "nS"}}

Shapes == V1Good \cup V1Bad \cup V2Good \cup V2Gray \cup V2Bad \cup NoHdr

\* "nS": fewer than 12 bytes starting with 'P' — not a message of any protocol bfe serves; gray
Gray(sh) == sh \in V2Gray \/ (sh.ver = "none" /\ sh.fam = "nS")

\* shapes whose header is cut short by the end of the stream: no payload can follow
Truncated(sh) == sh.defect \in {"noeol", "trunc", "sigonly", "nolen"}

Allowed(sh) ==
  CASE Gray(sh)                                   -> {"addr", "real", "reject"}
    [] sh.ver = "none"                            -> {"real"}
    [] sh.defect # "none"                         -> {"reject"}
    [] sh.ver = "v1" /\ sh.fam = "UNKNOWN"        ->
         \* "If the CRLF sequence is not found in the first 107 characters, the receiver
         \*  should declare the line invalid" — should, hence both
         IF sh.form = "junkl" THEN {"real", "reject"} ELSE {"real"}
    [] sh.ver = "v1"                              -> {"addr"}
    [] sh.cmd = "LOCAL"                           -> {"real"}
    [] sh.fam = "UNSPEC"                          -> {"real", "reject"}   \* "free to accept ... or to reject"
    [] OTHER                                      -> {"addr"}

\* ---- the header on the wire
V1Addr(fam, form, side) ==
  CASE fam = "TCP4" /\ form = "plain"  -> S(side \o "4")
    [] fam = "TCP4" /\ form = "max"    -> S(side \o "4m")
    [] fam = "TCP6" /\ form = "plain"  -> S(side \o "6")
    [] fam = "TCP6" /\ form = "max"    -> S(side \o "6m")
    [] fam = "TCP6" /\ form = "mapped" -> S(side \o "6x")
    [] fam = "UNKNOWN" /\ form = "plain" -> S(side \o "4")
    [] OTHER                           -> S(side \o "6m")      \* UNKNOWN max: the 107-byte line
V1Port(form, side) == IF form = "max" THEN S(side \o "pm") ELSE S(side \o "p")

V1Fields(fam, afam, form) ==
  << S("_"), S(fam), S("_"), V1Addr(afam, form, "S"), S("_"), V1Addr(afam, form, "D"),
     S("_"), V1Port(form, "s"), S("_"), V1Port(form, "d") >>

Other(fam) == IF fam = "TCP4" THEN "TCP6" ELSE "TCP4"

HdrV1(sh) ==
  LET sig  == << S("P"), S("ROXY") >>
      crlf == << S("CR"), S("LF") >>
      full == V1Fields(sh.fam, sh.fam, sh.form)
  IN CASE sh.fam = "UNKNOWN" /\ sh.form = "none" ->
            sig \o << S("_"), S("UNKNOWN") >> \o
            (CASE sh.defect = "nocr" -> << S("LF") >> [] sh.defect = "noeol" -> << >> [] OTHER -> crlf)
       [] sh.fam = "UNKNOWN" /\ sh.form \in {"junk", "junkl"} ->
            sig \o << S("_"), S("UNKNOWN"), S("_"), S(IF sh.form = "junk" THEN "JUNK" ELSE "JUNKL") >> \o crlf
       [] sh.defect = "none"     -> sig \o full \o crlf
       [] sh.defect = "nocr"     -> sig \o full \o << S("LF") >>
       [] sh.defect = "noeol"    -> sig \o full
       [] sh.defect = "badfam"   -> sig \o V1Fields("TCP5", sh.fam, sh.form) \o crlf
       [] sh.defect = "mismatch" -> sig \o V1Fields(sh.fam, Other(sh.fam), sh.form) \o crlf
       [] sh.defect = "badport"  -> sig \o SubSeq(full, 1, 9) \o << S("pbad") >> \o crlf
       [] sh.defect = "short"    -> sig \o SubSeq(full, 1, 8) \o crlf

FamByte(fam) ==
  CASE fam = "UNSPEC" -> 0  [] fam = "TCP4" -> 17 [] fam = "UDP4" -> 18
    [] fam = "TCP6"   -> 33 [] fam = "UDP6" -> 34 [] fam = "UNIX" -> 49
AddrLen(fam) ==
  CASE fam \in {"TCP4", "UDP4"} -> 12 [] fam \in {"TCP6", "UDP6"} -> 36 [] fam = "UNIX" -> 216 [] OTHER -> 0
AddrSym(sh) ==
  CASE sh.fam \in {"TCP4", "UDP4"} -> << S("A4") >>
    [] sh.fam \in {"TCP6", "UDP6"} -> << S(IF sh.form = "mapped" THEN "A6x" ELSE "A6") >>
    [] sh.fam = "UNIX"             -> << S("AU") >>
    [] OTHER                       -> << >>

HdrV2(sh) ==
  LET sig == << S("Q1"), S("Q2"), S("Q3") >>
      vc  == CASE sh.defect = "badver1" -> 17 [] sh.defect = "badver3" -> 49 [] sh.defect = "badcmd" -> 34
               [] sh.cmd = "LOCAL" -> 32 [] OTHER -> 33
      fb  == CASE sh.defect = "badfam" -> 65 [] sh.defect = "badproto" -> 19 [] OTHER -> FamByte(sh.fam)
      tlv == IF sh.tlv = 0 THEN << >> ELSE << SN("T", sh.tlv) >>
  IN CASE sh.defect = "sigonly"  -> sig
       [] sh.defect = "nolen"    -> sig \o << SN("VC", vc), SN("F", fb) >>
       [] sh.defect = "shortlen" -> sig \o << SN("VC", vc), SN("F", fb), SN("L", 11), SN("X", 11) >>
       [] sh.defect = "trunc"    -> sig \o << SN("VC", vc), SN("F", fb), SN("L", 12), SN("X", 7) >>
       [] OTHER -> sig \o << SN("VC", vc), SN("F", fb), SN("L", AddrLen(sh.fam) + sh.tlv) >> \o AddrSym(sh) \o tlv

Hdr(sh) == CASE sh.ver = "v1" -> HdrV1(sh) [] sh.ver = "v2" -> HdrV2(sh) [] OTHER -> << >>
\* a stream without header starts with the symbol named by the shape (it is application data)
Lead(sh) == IF sh.ver = "none" THEN << S(sh.fam) >> ELSE << >>

Key(sh) == CASE sh.ver = "v1" -> "v1/" \o sh.fam \o "/" \o sh.form \o "/" \o sh.defect
             [] sh.ver = "v2" -> "v2/" \o sh.cmd \o "/" \o sh.fam \o "-" \o sh.form \o "/tlv" \o ToString(sh.tlv) \o "/" \o sh.defect
             [] OTHER         -> "none/" \o sh.fam

PaySeq(p) == [i \in 1..Len(p) |-> S(p[i])]
PayOK(sh, p) == Truncated(sh) => p = << >>

------------------------------------------------------------------------------
(* Layer M: the receiver (bfe_proxy), deciding from what has arrived        *)

More   == [out |-> "more",   used |-> 0]
Rej    == [out |-> "reject", used |-> 0]
Pass   == [out |-> "real",   used |-> 0]
Wait(eof) == IF eof THEN Rej ELSE More        \* a blocking Peek/Read: more data, or EOF = error

IsAddr(fam, s) == \/ fam = "TCP4" /\ s.k \in {"S4", "D4", "S4m", "D4m"}
                  \/ fam = "TCP6" /\ s.k \in {"S6", "D6", "S6m", "D6m", "S6x", "D6x"}
IsPort(s) == s.k \in {"sp", "dp", "spm", "dpm"}

FirstLF(b) == IF \E i \in 1..Len(b) : b[i].k = "LF"
              THEN CHOOSE i \in 1..Len(b) : b[i].k = "LF" /\ \A j \in 1..(i-1) : b[j].k # "LF" ELSE 0

\* parseVersion1: ReadString('\n'), CRLF check, split on single spaces
Try1(b, eof) ==
  LET lf == FirstLF(b) IN
  IF lf = 0 THEN Wait(eof)
  ELSE IF lf < 4 \/ b[lf-1].k # "CR" THEN Rej
  ELSE LET f == SubSeq(b, 3, lf - 2) IN          \* what follows "PROXY"
       IF Len(f) >= 2 /\ f[1].k = "_" /\ f[2].k = "UNKNOWN" /\ (Len(f) = 2 \/ f[3].k = "_")
         THEN [out |-> "real", used |-> lf]      \* rest of the line ignored, real addresses
       ELSE IF /\ Len(f) = 10
               /\ \A i \in {1, 3, 5, 7, 9} : f[i].k = "_"
               /\ f[2].k \in {"TCP4", "TCP6"}
               /\ IsAddr(f[2].k, f[4]) /\ IsAddr(f[2].k, f[6])
               /\ IsPort(f[8]) /\ IsPort(f[10])
         THEN [out |-> "addr", used |-> lf]
       ELSE Rej

BlockSize(s) == CASE s.k = "A4" -> 12 [] s.k = "A6" -> 36 [] s.k = "A6x" -> 36 [] s.k = "AU" -> 216
                  [] s.k \in {"T", "X"} -> s.n [] OTHER -> -1

\* number of symbols after position 6 that make up exactly n bytes; 0 if not (yet) available
RECURSIVE Cover(_, _, _)
Cover(b, i, n) == IF n = 0 THEN i - 1
                  ELSE IF i > Len(b) \/ BlockSize(b[i]) < 0 \/ BlockSize(b[i]) > n THEN 0
                  ELSE Cover(b, i + 1, n - BlockSize(b[i]))

\* parseVersion2: 12 signature bytes, version/command, family/protocol, length, block
Try2(b, eof) ==
  IF Len(b) < 4 THEN Wait(eof)
  ELSE IF b[4].k # "VC" \/ b[4].n \notin {32, 33} THEN Rej            \* supportedCommand
  ELSE IF Len(b) < 5 THEN Wait(eof)
  ELSE LET local == b[4].n = 32
           fb    == b[5].n IN
       IF ~local /\ fb \notin {17, 18, 33, 34, 49, 50} THEN Rej        \* supportedTransportProtocol
  ELSE IF Len(b) < 6 THEN Wait(eof)
  ELSE LET n   == b[6].n
           min == CASE fb \in {17, 18} -> 12 [] fb \in {33, 34} -> 36 [] fb \in {49, 50} -> 216 [] OTHER -> 0 IN
       IF ~local /\ n < min THEN Rej                                   \* validateLength
  ELSE LET last == IF n = 0 THEN 6 ELSE Cover(b, 7, n) IN
       IF last = 0 THEN Wait(eof)                                      \* Peek(length)
       ELSE IF local THEN [out |-> "real", used |-> last]              \* block discarded
       ELSE IF fb \in {17, 33} THEN [out |-> "addr", used |-> last]
       ELSE Rej       \* DGRAM / UNIX on a TCP listener: no TCP address can be made of it (gray shapes)

\* header.go Read: Peek(1), Peek(5), Peek(12)
Try(b, eof) ==
  IF Len(b) = 0 THEN Wait(eof)
  ELSE IF b[1].k = "P" THEN
         IF Len(b) < 2 THEN Wait(eof) ELSE IF b[2].k = "ROXY" THEN Try1(b, eof) ELSE Pass
  ELSE IF b[1].k = "Q1" THEN
         IF Len(b) < 3 THEN Wait(eof)
         ELSE IF b[2].k = "Q2" /\ b[3].k = "Q3" THEN Try2(b, eof) ELSE Pass
  ELSE IF b[1].k = "nS" THEN Wait(eof)           \* 'P' + fewer than 12 bytes: Peek(12) needs more
  ELSE Pass

------------------------------------------------------------------------------
(* The system: one connection                                               *)

VARIABLES shape, pay, rest, buf, eof, verdict
vars == << shape, pay, rest, buf, eof, verdict >>

Stream(sh, p) == Hdr(sh) \o Lead(sh) \o PaySeq(p)

\* all ways of cutting a sequence of length n into at most MaxChunks non-empty pieces
RECURSIVE UpTo(_, _)
UpTo(n, k) == IF k = 0 THEN {{}} ELSE LET r == UpTo(n, k - 1) IN r \cup {c \cup {x} : c \in r, x \in 1..n}
CutSets(n) == UpTo(n - 1, MaxChunks - 1)       \* sets of fewer than MaxChunks cut positions
RECURSIVE Pieces(_, _, _)
Pieces(s, cuts, from) ==
  IF cuts = {} THEN << SubSeq(s, from, Len(s)) >>
  ELSE LET c == CHOOSE x \in cuts : \A y \in cuts : x <= y
       IN << SubSeq(s, from, c) >> \o Pieces(s, cuts \ {c}, c + 1)

Init == /\ shape \in Shapes
        /\ pay \in {p \in Payloads : PayOK(shape, p)}
        /\ \E c \in CutSets(Len(Stream(shape, pay))) : rest = Pieces(Stream(shape, pay), c, 1)
        /\ buf = << >> /\ eof = FALSE /\ verdict = More

Decide(b, e) == IF verdict.out = "more" THEN Try(b, e) ELSE verdict

Deliver == /\ rest # << >>
           /\ buf' = buf \o Head(rest) /\ rest' = Tail(rest)
           /\ verdict' = Decide(buf', eof)
           /\ UNCHANGED << shape, pay, eof >>
Close   == /\ rest = << >> /\ ~eof
           /\ eof' = TRUE
           /\ verdict' = Decide(buf, TRUE)
           /\ UNCHANGED << shape, pay, rest, buf >>
Next == Deliver \/ Close
Spec == Init /\ [][Next]_vars

\* ---- obligations
HLen == Len(Hdr(shape))
Sound  == verdict.out # "more" =>
            /\ verdict.out \in Allowed(shape)
            /\ (verdict.out # "reject" /\ ~Gray(shape)) => verdict.used = HLen   \* application stream = payload
Stable == verdict.out # "more" => Try(buf, eof) = verdict       \* a decision is never revised by later data
Decided == eof => verdict.out # "more"                          \* no hang once the sender has closed
TypeOK == /\ verdict.out \in {"more", "addr", "real", "reject"}
          /\ verdict.used \in 0..Len(buf)
=============================================================================
