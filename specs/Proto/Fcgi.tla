-------------------------------- MODULE Fcgi --------------------------------
(***************************************************************************)
(* C55  FastCGI (FastCGI Specification 1.0: 3.3 records, 3.4 name-value    *)
(* pairs, 5.1-5.5 record types, 6.2 responder)                             *)
(*                                                                         *)
(* side = "req":  the web-server side encodes a parameter map and a body.  *)
(*   Layer P (ReqOK): the record stream is BEGIN_REQUEST, non-empty PARAMS *)
(*   records, one empty PARAMS record, non-empty STDIN records, one empty  *)
(*   STDIN record; every content length is in 1..65535 (a length is 16 bit *)
(*   on the wire); the PARAMS contents add up to the 3.4 encoding of the   *)
(*   pairs (1-byte lengths below 128, 4-byte lengths from 128 on, nothing  *)
(*   cut), the STDIN contents to the body.                                 *)
(*   Layer M: bfe_fcgi.writePairs / newWriter / streamWriter as they work: *)
(*   a 65500-byte buffered writer that is flushed before a pair that would *)
(*   not fit, and that cuts larger writes into 65500-byte records.         *)
(*                                                                         *)
(* side = "resp": the application answers with STDOUT / STDERR records and *)
(*   END_REQUEST.  Layer P (RespOK): the response handed to HTTP is the    *)
(*   concatenation of the STDOUT contents, in order, nothing else.         *)
(*   Layer M: streamReader.Read / record.read: one record at a time,       *)
(*   records of other streams skipped, END_REQUEST ends the stream.        *)
(*   How the bytes of the records are cut into deliveries (cuts) does not  *)
(*   influence either layer: reads block until a record is complete.       *)
(***************************************************************************)
EXTENDS Integers, Sequences, FiniteSets, TLC

CONSTANTS NameLens, ValLens,   \* candidate name / value lengths (bytes)
          MaxPairs,            \* parameters per request
          BodyLens,            \* candidate body lengths
          MaxData,             \* data records per response script
          MaxCuts,             \* delivery cuts per response
          Sides                \* subset of {"req", "resp"}

MaxContent == 65535            \* FastCGI 3.3: contentLength is 16 bit
BufSize    == 65500            \* bfe_fcgi maxWrite (mechanism)

------------------------------------------------------------------------------
(* Layer P, request side                                                    *)
SizeLen(n) == IF n < 128 THEN 1 ELSE 4                      \* 3.4
PairLen(p) == SizeLen(p.nl) + SizeLen(p.vl) + p.nl + p.vl
RECURSIVE Total(_)
Total(ps)  == IF ps = << >> THEN 0 ELSE PairLen(Head(ps)) + Total(Tail(ps))
MinRecords(n) == (n + MaxContent - 1) \div MaxContent

RECURSIVE SumOf(_, _)
SumOf(recs, t) == IF recs = << >> THEN 0
                  ELSE (IF Head(recs).t = t THEN Head(recs).n ELSE 0) + SumOf(Tail(recs), t)

\* the grammar of one request as a sequence of [t, n] records (n = content length)
ReqOK(recs, ps, blen) ==
  /\ Len(recs) >= 3
  /\ recs[1] = [t |-> "BEGIN", n |-> 8]
  /\ \E e \in 2..(Len(recs) - 1) :                          \* e: the empty PARAMS record
       /\ recs[e] = [t |-> "PARAMS", n |-> 0]
       /\ \A i \in 2..(e - 1) : recs[i].t = "PARAMS" /\ recs[i].n \in 1..MaxContent
       /\ \A i \in (e + 1)..(Len(recs) - 1) : recs[i].t = "STDIN" /\ recs[i].n \in 1..MaxContent
  /\ recs[Len(recs)] = [t |-> "STDIN", n |-> 0]
  /\ SumOf(recs, "PARAMS") = Total(ps)
  /\ SumOf(recs, "STDIN") = blen

------------------------------------------------------------------------------
(* Layer P, response side                                                   *)
DataRecs == {[t |-> "out", n |-> c] : c \in {"t", "s", "m"}} \cup {[t |-> "err", n |-> c] : c \in {"t", "s"}}
OutZ == [t |-> "out", n |-> "z"]
ErrZ == [t |-> "err", n |-> "z"]
End  == [t |-> "end", n |-> "z"]
\* 6.2: STDOUT is always closed by an empty record, STDERR may be; END_REQUEST comes last
Tails == { << OutZ, End >>, << ErrZ, OutZ, End >>, << OutZ, ErrZ, End >> }

RECURSIVE SeqsUpTo(_, _)
SeqsUpTo(S, n) == IF n = 0 THEN { << >> }
                  ELSE LET r == SeqsUpTo(S, n - 1) IN r \cup {Append(q, x) : q \in {y \in r : Len(y) = n - 1}, x \in S}

Scripts == {pre \o tl : pre \in SeqsUpTo(DataRecs, MaxData), tl \in Tails}
StdoutIdx(sc) == SelectSeq([i \in 1..Len(sc) |-> i], LAMBDA i : sc[i].t = "out")
RespOK(kept, sc) == kept = StdoutIdx(sc)

------------------------------------------------------------------------------
VARIABLES side, pairs, blen, k, buffered, nn, recs, phase,      \* request side
          script, padmode, cuts, pos, kept                       \* response side
vars == << side, pairs, blen, k, buffered, nn, recs, phase, script, padmode, cuts, pos, kept >>
reqv  == << pairs, blen, k, buffered, nn, recs >>
respv == << script, padmode, cuts, pos, kept >>

PairSet == [nl : NameLens, vl : ValLens]

RECURSIVE UpTo(_, _)
UpTo(n, c) == IF c = 0 THEN {{}} ELSE LET r == UpTo(n, c - 1) IN r \cup {s \cup {x} : s \in r, x \in 1..n}

Init ==
  /\ side \in Sides
  /\ phase = "start"
  /\ k = 1 /\ buffered = 0 /\ nn = 0 /\ recs = << >> /\ pos = 1 /\ kept = << >>
  /\ IF side = "req"
       THEN /\ pairs \in (SeqsUpTo(PairSet, MaxPairs) \ { << >> })
            /\ blen \in BodyLens
            /\ script = << >> /\ padmode = 0 /\ cuts = {}
       ELSE /\ script \in Scripts
            /\ padmode \in {0, 1}
            /\ cuts \in UpTo(3 * Len(script) - 1, MaxCuts)      \* 3 symbols per record: header, content, padding
            /\ pairs = << >> /\ blen = 0

\* ---- Layer M, request side --------------------------------------------
Put(t, n) == recs' = Append(recs, [t |-> t, n |-> n])

\* writing m more bytes through the buffered writer: full 65500-byte records, lazily flushed
RECURSIVE Fulls(_, _)
Fulls(t, c) == IF c = 0 THEN << >> ELSE << [t |-> t, n |-> BufSize] >> \o Fulls(t, c - 1)
Through(t, buf, m) ==
  LET tot == buf + m
      c   == IF tot = 0 THEN 0 ELSE (tot - 1) \div BufSize
  IN [out |-> Fulls(t, c), buf |-> tot - c * BufSize]

Begin == /\ side = "req" /\ phase = "start"
         /\ Put("BEGIN", 8) /\ phase' = "params"
         /\ UNCHANGED << side, pairs, blen, k, buffered, nn, respv >>

\* writePairs, one iteration: flush first if the pair does not fit behind what was written since the
\* last explicit flush, then sizes + name + value through the writer
WritePair ==
  /\ side = "req" /\ phase = "params" /\ k <= Len(pairs)
  /\ LET m     == PairLen(pairs[k])
         pre   == nn + m > BufSize
         fl    == IF pre /\ buffered > 0 THEN << [t |-> "PARAMS", n |-> buffered] >> ELSE << >>
         b0    == IF pre THEN 0 ELSE buffered
         w     == Through("PARAMS", b0, m)
     IN /\ recs' = recs \o fl \o w.out
        /\ buffered' = w.buf
        /\ nn' = (IF pre THEN 0 ELSE nn) + m
  /\ k' = k + 1
  /\ UNCHANGED << side, pairs, blen, phase, respv >>

CloseParams ==
  /\ side = "req" /\ phase = "params" /\ k > Len(pairs)
  /\ recs' = recs \o (IF buffered > 0 THEN << [t |-> "PARAMS", n |-> buffered] >> ELSE << >>)
                  \o << [t |-> "PARAMS", n |-> 0] >>
  /\ buffered' = 0 /\ phase' = "body"
  /\ UNCHANGED << side, pairs, blen, k, nn, respv >>

\* io.Copy(body, req) + Close: the same writer for STDIN
WriteBody ==
  /\ side = "req" /\ phase = "body"
  /\ LET w == Through("STDIN", 0, blen)
     IN recs' = recs \o w.out \o (IF w.buf > 0 THEN << [t |-> "STDIN", n |-> w.buf] >> ELSE << >>)
                     \o << [t |-> "STDIN", n |-> 0] >>
  /\ phase' = "done"
  /\ UNCHANGED << side, pairs, blen, k, buffered, nn, respv >>

\* ---- Layer M, response side -------------------------------------------
\* record.read + streamReader.Read: END_REQUEST ends the stream, only STDOUT content is returned
ReadRec ==
  /\ side = "resp" /\ phase = "start" /\ pos <= Len(script)
  /\ IF script[pos].t = "end"
       THEN phase' = "done" /\ UNCHANGED << kept, pos >>
       ELSE /\ kept' = IF script[pos].t = "out" THEN Append(kept, pos) ELSE kept
            /\ pos' = pos + 1 /\ UNCHANGED phase
  /\ UNCHANGED << side, reqv, script, padmode, cuts >>

Next == Begin \/ WritePair \/ CloseParams \/ WriteBody \/ ReadRec
Spec == Init /\ [][Next]_vars

------------------------------------------------------------------------------
(* obligations                                                              *)
ReqFaithful  == (side = "req" /\ phase = "done") => ReqOK(recs, pairs, blen)
RecordBound  == \A i \in 1..Len(recs) : recs[i].n <= MaxContent
RespFaithful == (side = "resp" /\ phase = "done") => RespOK(kept, script)
\* every script is read to its END_REQUEST (no record left, none read beyond)
RespComplete == (side = "resp" /\ phase = "done") => pos = Len(script)
TypeOK == phase \in {"start", "params", "body", "done"} /\ buffered \in 0..BufSize

\* FastCGI 3.4's own examples of the length encoding
ASSUME SizeLen(127) = 1 /\ SizeLen(128) = 4
ASSUME PairLen([nl |-> 11, vl |-> 3]) = 16          \* two 1-byte lengths + 11 + 3
=============================================================================
