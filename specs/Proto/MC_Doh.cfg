\* C56: the whole request space
CONSTANTS
  Limit = @LIMIT@
  Level = @LEVEL@
INIT Init
NEXT Next
INVARIANTS Verdict Forwarded TypeOK
CHECK_DEADLOCK FALSE
