\* C55: all parameter vectors over the length classes, all bodies, all response scripts
CONSTANTS
  NameLens = @NAMES@
  ValLens = @VALS@
  MaxPairs = @PAIRS@
  BodyLens = @BODIES@
  MaxData = @DATA@
  MaxCuts = @CUTS@
  Sides = @SIDES@
INIT Init
NEXT Next
INVARIANTS ReqFaithful RecordBound RespFaithful RespComplete TypeOK
CHECK_DEADLOCK FALSE
