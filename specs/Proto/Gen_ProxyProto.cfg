CONSTANTS
  MaxChunks = @CHUNKS@
  PayLevel = @PAY@
INIT GInit
NEXT GNext
INVARIANTS Emit
CHECK_DEADLOCK FALSE
