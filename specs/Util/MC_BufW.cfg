\* C22 writer: all op sequences up to MaxAcc bytes
CONSTANTS
  B = 16
  WriteSizes = @WS@
  FromSizes = @FS@
  FromChunks = @FC@
  MaxAcc = @MAXACC@
INIT Init
NEXT Next
INVARIANTS ReplyOK WStream CounterOK BufferOK
CHECK_DEADLOCK FALSE
