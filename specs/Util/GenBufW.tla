---------------------------- MODULE GenBufW ----------------------------
(* Behaviour generator for the C22 writer (xn = Buffered() afterwards, diagnostic).  *)
EXTENDS BufW, Json
CONSTANT MaxOps
VARIABLES h, fin
gvars == <<vars, h, fin>>

GInit == Init /\ h = <<>> /\ fin = FALSE
Op(o) == /\ ~fin /\ Len(h) < MaxOps /\ fin' = FALSE
         /\ h' = Append(h, o @@ [xn |-> n'])
GNext ==
  \/ \E len \in WriteSizes : Write(len, TRUE) /\ Op([op |-> "write", a |-> len, ch |-> 0, e |-> FALSE])
  \/ \E len \in WriteSizes : Write(len, FALSE) /\ Op([op |-> "writestring", a |-> len, ch |-> 0, e |-> FALSE])
  \/ WriteByte /\ Op([op |-> "writebyte", a |-> 1, ch |-> 0, e |-> FALSE])
  \/ Flush /\ Op([op |-> "flush", a |-> 0, ch |-> 0, e |-> FALSE])
  \/ \E len \in FromSizes, c \in FromChunks, e \in BOOLEAN :
        ReadFrom(len, c, e) /\ Op([op |-> "readfrom", a |-> len, ch |-> c, e |-> e])
  \/ Len(h) = MaxOps /\ ~fin /\ fin' = TRUE /\ UNCHANGED <<vars, h>>
Emit == fin => PrintT(ToJson([kind |-> "w", urf |-> urf, ops |-> h]))
========================================================================
