----------------------------- MODULE BufioP -----------------------------
(* C22  Layer P of bfe_bufio: what the buffered Reader / Writer must deliver and    *)
(* what their byte counters must show, in terms of the underlying byte stream only. *)
(* Nothing here mentions r, w, fill, chunk sizes or the internal error latch.       *)
(*                                                                                *)
(* Reader: S is the underlying stream (symbols 0 = 'x', 1 = CR, 2 = LF), pos the    *)
(* number of its bytes the caller has consumed so far.  Every P-action takes the    *)
(* reply the implementation gave (rep), judges it (verdict v) and moves pos.        *)
(* TotalRead must equal pos after every call.  Where the documentation leaves a     *)
(* choice (how many bytes a Read returns, EOF together with the last bytes or       *)
(* after them, ErrBufferFull vs EOF when exactly a buffer-full remains) the reply   *)
(* is checked for membership, not equality.                                         *)
(*                                                                                *)
(* Writer: acc = bytes accepted from the caller so far, und = bytes handed to the   *)
(* underlying writer so far.  und is always a prefix of acc, equal to it after       *)
(* Flush; TotalWrite must equal Len(acc).                                           *)
EXTENDS Integers, Sequences

CONSTANT B                      \* buffer size given to NewReaderSize / NewWriterSize

CR == 1
LF == 2
\* error codes of a reply
ENil == 0
EEOF == 1
EFull == 2                      \* ErrBufferFull
EUnByte == 3                    \* ErrInvalidUnreadByte
EUnRune == 4                    \* ErrInvalidUnreadRune

VARIABLES S, pos,
          un,                   \* what may be unread now: "byte" (the last call was a read that
                                \* consumed >= 1 byte), "rune" (it was ReadRune), "none" (anything
                                \* else: Unread* is outside the documented contract, not judged)
          acc, und,             \* writer
          v                     \* verdict on the last reply: "ok" or the name of the broken clause
pvars == <<S, pos, un, acc, und, v>>

Min(a, b) == IF a < b THEN a ELSE b
Rem == Len(S) - pos
Sub(p, n) == SubSeq(S, p + 1, p + n)
\* offset (1-based, from pos) of the first d at or after pos; 0 = none
FirstIdx(d) == LET I == {i \in 1..Rem : S[pos + i] = d}
               IN  IF I = {} THEN 0 ELSE CHOOSE i \in I : \A j \in I : i <= j
IsPrefixOf(a, b) == Len(a) <= Len(b) /\ a = SubSeq(b, 1, Len(a))

PInitR(s) == S = s /\ pos = 0 /\ un = "none" /\ acc = <<>> /\ und = <<>> /\ v = "ok"
PInitW    == S = <<>> /\ pos = 0 /\ un = "none" /\ acc = <<>> /\ und = <<>> /\ v = "ok"
KeepW == UNCHANGED <<acc, und>>
KeepR == UNCHANGED <<S, pos, un>>

--------------------------------------------------------------------------
\* Reader.  rep = [n, data, err] (+ pfx for ReadLine)

\* Read(p), len(p) = m >= 1
PRead(m, rep) ==
  /\ v' = IF Rem = 0 THEN (IF rep.n = 0 /\ rep.err = EEOF THEN "ok" ELSE "Read/at-eof")
          ELSE IF ~(rep.n \in 1..Min(m, Rem)) THEN "Read/count"
          ELSE IF rep.data # Sub(pos, rep.n) THEN "Read/data"
          ELSE IF ~(rep.err = ENil \/ (rep.err = EEOF /\ pos + rep.n = Len(S))) THEN "Read/err"
          ELSE "ok"
  /\ pos' = pos + rep.n
  /\ un' = IF rep.n > 0 THEN "byte" ELSE "none"
  /\ UNCHANGED S /\ KeepW

\* ReadByte / ReadRune (ASCII stream: a rune is one byte)
POne(name, rep, kind) ==
  /\ v' = IF Rem = 0 THEN (IF rep.n = 0 /\ rep.err = EEOF THEN "ok" ELSE name \o "/at-eof")
          ELSE IF rep.n # 1 \/ rep.err # ENil THEN name \o "/count"
          ELSE IF rep.data # Sub(pos, 1) THEN name \o "/data"
          ELSE "ok"
  /\ pos' = pos + rep.n
  /\ un' = IF rep.n > 0 THEN kind ELSE "none"
  /\ UNCHANGED S /\ KeepW
PReadByte(rep) == POne("ReadByte", rep, "byte")
PReadRune(rep) == POne("ReadRune", rep, "rune")

\* UnreadByte: in contract right after a read that consumed something
PUnreadByte(rep) ==
  /\ v' = IF un = "none" \/ rep.err = ENil THEN "ok" ELSE "UnreadByte/refused"
  /\ pos' = IF rep.err = ENil /\ pos > 0 THEN pos - 1 ELSE pos
  /\ un' = "none"
  /\ UNCHANGED S /\ KeepW

\* UnreadRune: succeeds right after ReadRune, must fail after any other read
PUnreadRune(rep) ==
  /\ v' = IF un = "rune" THEN (IF rep.err = ENil THEN "ok" ELSE "UnreadRune/refused")
          ELSE IF un = "byte" THEN (IF rep.err = EUnRune THEN "ok" ELSE "UnreadRune/accepted-after-other-read")
          ELSE "ok"
  /\ pos' = IF rep.err = ENil /\ pos > 0 THEN pos - 1 ELSE pos
  /\ un' = "none"
  /\ UNCHANGED S /\ KeepW

\* ReadSlice(delim)
PReadSlice(d, rep) ==
  LET i == FirstIdx(d)
      c == Len(rep.data) IN
  /\ v' = IF i > 0 /\ i <= B
            THEN (IF c # i \/ rep.data # Sub(pos, i) THEN "ReadSlice/data"
                  ELSE IF rep.err # ENil THEN "ReadSlice/err" ELSE "ok")
          ELSE IF Rem > B
            THEN (IF c # B \/ rep.data # Sub(pos, B) THEN "ReadSlice/data-full"
                  ELSE IF rep.err # EFull THEN "ReadSlice/err-full" ELSE "ok")
          ELSE IF c # Rem \/ rep.data # Sub(pos, Rem) THEN "ReadSlice/data-eof"
          ELSE IF Rem < B /\ rep.err # EEOF THEN "ReadSlice/err-eof"
          ELSE IF Rem = B /\ rep.err \notin {EEOF, EFull} THEN "ReadSlice/err-eof"
          ELSE "ok"
  /\ pos' = pos + c
  /\ un' = IF c > 0 THEN "byte" ELSE "none"
  /\ UNCHANGED S /\ KeepW

\* ReadLine: number of bytes the reply implies were consumed, -1 if the reply is not allowed
LineConsumed(rep) ==
  LET i == FirstIdx(LF)
      c == Len(rep.data) IN
  IF Rem = 0 THEN (IF c = 0 /\ ~rep.pfx /\ rep.err = EEOF THEN 0 ELSE 0 - 1)
  ELSE IF rep.err # ENil THEN 0 - 1
  ELSE IF i > 0 /\ i <= B
    THEN LET body == IF i >= 2 /\ S[pos + i - 1] = CR THEN i - 2 ELSE i - 1
         IN  IF ~rep.pfx /\ c = body /\ rep.data = Sub(pos, body) THEN i ELSE 0 - 1
  ELSE IF rep.pfx       \* the line does not fit: a non-empty beginning, never cutting between CR and LF
    THEN IF /\ Rem >= B /\ c \in 1..B /\ rep.data = Sub(pos, c)
            /\ ~(S[pos + c] = CR /\ pos + c + 1 <= Len(S) /\ S[pos + c + 1] = LF)
           THEN c ELSE 0 - 1
  ELSE IF Rem <= B /\ c = Rem /\ rep.data = Sub(pos, Rem) THEN Rem ELSE 0 - 1

PReadLine(rep) ==
  LET c == LineConsumed(rep) IN
  /\ v' = IF c < 0 THEN "ReadLine/reply" ELSE "ok"
  /\ pos' = IF c < 0 THEN pos ELSE pos + c
  /\ un' = IF c > 0 /\ ~rep.pfx THEN "byte" ELSE "none"
  /\ UNCHANGED S /\ KeepW

\* ReadBytes / ReadString(delim): independent of the buffer size
PReadBytes(d, rep) ==
  LET i == FirstIdx(d)
      want == IF i > 0 THEN i ELSE Rem
      c == Len(rep.data) IN
  /\ v' = IF c # want \/ rep.data # Sub(pos, want) THEN "ReadBytes/data"
          ELSE IF rep.err # (IF i > 0 THEN ENil ELSE EEOF) THEN "ReadBytes/err"
          ELSE "ok"
  /\ pos' = pos + c
  /\ un' = IF c > 0 THEN "byte" ELSE "none"
  /\ UNCHANGED S /\ KeepW

\* Peek(n), 0 <= n <= B: consumes nothing
PPeek(n, rep) ==
  LET want == Min(n, Rem) IN
  /\ v' = IF Len(rep.data) # want \/ rep.data # Sub(pos, want) THEN "Peek/data"
          ELSE IF rep.err # (IF Rem >= n THEN ENil ELSE EEOF) THEN "Peek/err"
          ELSE "ok"
  /\ pos' = pos /\ un' = "none"
  /\ UNCHANGED S /\ KeepW

\* WriteTo(w): everything that is left, in order, no error
PWriteTo(rep) ==
  /\ v' = IF rep.n # Rem \/ rep.data # Sub(pos, Rem) THEN "WriteTo/data"
          ELSE IF rep.err # ENil THEN "WriteTo/err" ELSE "ok"
  /\ pos' = Len(S) /\ un' = "none"
  /\ UNCHANGED S /\ KeepW

--------------------------------------------------------------------------
\* Writer.  data = bytes offered by the call, rep = [n, err], delta = bytes that reached the
\* underlying writer during the call (error-free underlying writer).
PWrite(name, data, rep, delta) ==
  /\ acc' = acc \o data
  /\ und' = und \o delta
  /\ v' = IF rep.n # Len(data) \/ rep.err # ENil THEN name \o "/short"
          ELSE IF ~IsPrefixOf(und \o delta, acc \o data) THEN name \o "/stream"
          ELSE "ok"
  /\ KeepR
PFlush(rep, delta) ==
  /\ acc' = acc /\ und' = und \o delta
  /\ v' = IF rep.err # ENil THEN "Flush/err"
          ELSE IF und \o delta # acc THEN "Flush/stream" ELSE "ok"
  /\ KeepR

--------------------------------------------------------------------------
\* Layer-P obligations as state predicates
ReplyOK  == v = "ok"
WStream  == IsPrefixOf(und, acc)
\* the counters: TotalRead = pos, TotalWrite = Len(acc)   (compared by Layer M / the trace)
=========================================================================
