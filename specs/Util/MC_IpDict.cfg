\* C19: all sequences of <= MaxR ranges and multisets of <= MaxS singles over 2 x A addresses
CONSTANTS
  A = @A@
  MaxR = @MAXR@
  MaxS = @MAXS@
INIT Init
NEXT Next
INVARIANT MRefinesP
CHECK_DEADLOCK FALSE
