CONSTANTS
  B = 16
  WriteSizes = @WS@
  FromSizes = @FS@
  FromChunks = @FC@
  MaxAcc = @MAXACC@
  MaxOps = @OPS@
INIT GInit
NEXT GNext
INVARIANT Emit
CHECK_DEADLOCK FALSE
