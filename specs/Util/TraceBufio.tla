--------------------------- MODULE TraceBufio ---------------------------
(* Trace validation of real executions of bfe_bufio (and, as an independent witness,   *)
(* of the standard library's bufio) against Layer P.  trace.ndjson: recorded cases     *)
(* back to back; "new" starts a case (reader: the stream; writer: nothing), then one   *)
(* event per call with the real reply and the counter read right after it (tot; -1 =   *)
(* the object has no counter).  Every reply is judged by the P-action of its method;   *)
(* failures are collected in `bad`, the rest of a failed case is skipped.              *)
EXTENDS BufioP, Json, TLC

TraceLog == ndJsonDeserialize("trace.ndjson")

VARIABLES l, dead, bad
tvars == <<pvars, l, dead, bad>>

Ev == TraceLog[l]
Mark(why) == bad' = bad \cup {[cid |-> Ev.cid, l |-> l, why |-> why]}

TInit == l = 1 /\ dead = FALSE /\ bad = {} /\ PInitW

TNew == /\ Ev.ev = "new"
        /\ S' = Ev.s /\ pos' = 0 /\ un' = "none" /\ acc' = <<>> /\ und' = <<>> /\ v' = "ok"
        /\ dead' = FALSE /\ UNCHANGED bad

Skip == Ev.ev # "new" /\ dead /\ UNCHANGED <<pvars, dead, bad>>

Rp == [n |-> Ev.n, data |-> Ev.data, err |-> Ev.err, pfx |-> Ev.pfx]
ROps == {"read", "readbyte", "readrune", "unreadbyte", "unreadrune", "readslice", "readbytes",
         "readline", "peek", "writeto"}
WOps == {"write", "writestring", "writebyte", "flush", "readfrom"}

Apply == CASE Ev.ev = "read"       -> PRead(Ev.a, Rp)
           [] Ev.ev = "readbyte"   -> PReadByte(Rp)
           [] Ev.ev = "readrune"   -> PReadRune(Rp)
           [] Ev.ev = "unreadbyte" -> PUnreadByte(Rp)
           [] Ev.ev = "unreadrune" -> PUnreadRune(Rp)
           [] Ev.ev = "readslice"  -> PReadSlice(Ev.a, Rp)
           [] Ev.ev = "readbytes"  -> PReadBytes(Ev.a, Rp)
           [] Ev.ev = "readline"   -> PReadLine(Rp)
           [] Ev.ev = "peek"       -> PPeek(Ev.a, Rp)
           [] Ev.ev = "writeto"    -> PWriteTo(Rp)
           [] Ev.ev = "flush"      -> PFlush(Rp, Ev.delta)
           [] OTHER                -> PWrite(Ev.ev, Ev.data, Rp, Ev.delta)

Oblig == IF v' # "ok" THEN v'
         ELSE IF Ev.tot < 0 THEN "ok"
         ELSE IF Ev.ev \in ROps /\ Ev.tot # pos' THEN "TotalRead/" \o Ev.ev
         ELSE IF Ev.ev \in WOps /\ Ev.tot # Len(acc') THEN "TotalWrite/" \o Ev.ev
         ELSE "ok"

TOp == /\ Ev.ev # "new" /\ ~dead
       /\ IF Ev.err < 0
            THEN Mark(IF Ev.err = 0 - 2 THEN "hang" ELSE "panic") /\ dead' = TRUE /\ UNCHANGED pvars
          ELSE /\ Apply
               /\ LET o == Oblig IN
                    IF o = "ok" THEN UNCHANGED <<dead, bad>> ELSE Mark(o) /\ dead' = TRUE

TNext == /\ l <= Len(TraceLog) /\ l' = l + 1
         /\ (TNew \/ Skip \/ TOp)

Report == (l = Len(TraceLog) + 1) =>
             PrintT(ToJson([done |-> TRUE, consumed |-> l - 1, bad |-> bad]))
Accepted == TLCGet("stats").diameter - 1 = Len(TraceLog)
=========================================================================
