------------------------------ MODULE BufR ------------------------------
(* C22  Layer M of bfe_bufio.Reader: buf[r:w], fill() (slide + one underlying Read), *)
(* the latched error, lastByte / lastRuneSize and the TotalRead counter, one action   *)
(* per public method, written as the code does it (after the accepted fixes).         *)
(* lb is 1 when lastByte holds a byte (always the last consumed one where Unread* is   *)
(* generated), -1 when it is invalid.                                                *)
(* The buffer always holds a window of the stream: buf[r:w] = S[f-(w-r)+1 .. f] where *)
(* f = bytes fetched from the source so far (checked: WindowOK).                      *)
(*                                                                                  *)
(* The source delivers at most chunks[nr] bytes per Read call (cyclic pattern), and,  *)
(* if eofd, reports io.EOF together with the last bytes.  A zero-length Read returns  *)
(* (0, nil).  TLC checks every reply against Layer P (ReplyOK) and TotalRead = pos    *)
(* (CounterOK) in every reachable state: no history bound, the state space is finite. *)
EXTENDS BufioP, FiniteSets, TLC

CONSTANTS Classes,      \* stream alphabet classes: subset of {"x","X","r","n"}; "X" = Pad times 'x'
          Pad,
          MaxSyms,      \* streams = all class sequences of length <= MaxSyms ...
          MaxLen,       \* ... that expand to at most MaxLen bytes
          ChunkPats,    \* set of chunk patterns, coded: c < 1000 is <<c>>, a*1000+b is <<a, b>>
          EofModes,     \* subset of BOOLEAN: EOF together with the last bytes?
          ReadSizes, PeekSizes, Delims

VARIABLES m,            \* [r, w, f, err, lb, lr, nr, total]
          chunks, eofd
mvars == <<m, chunks, eofd>>
vars  == <<pvars, mvars>>

RECURSIVE Rep(_, _)
Rep(x, n) == IF n = 0 THEN <<>> ELSE <<x>> \o Rep(x, n - 1)
ClassBytes(c) == IF c = "x" THEN <<0>> ELSE IF c = "X" THEN Rep(0, Pad)
                 ELSE IF c = "r" THEN <<CR>> ELSE <<LF>>
RECURSIVE Expand(_)
Expand(cs) == IF cs = <<>> THEN <<>> ELSE ClassBytes(Head(cs)) \o Expand(Tail(cs))
Streams == {s \in {Expand(cs) : cs \in UNION {[1..n -> Classes] : n \in 0..MaxSyms}} : Len(s) <= MaxLen}

DecodePat(c) == IF c >= 1000 THEN <<c \div 1000, c % 1000>> ELSE <<c>>
Min3(a, b, c) == Min(a, Min(b, c))
Off(mm) == mm.f - (mm.w - mm.r)                 \* stream offset of buf[r]
Bufd(mm) == mm.w - mm.r
\* first k in 1..Buffered with the k-th buffered byte = d; 0 = none
FirstInWin(mm, d) == LET I == {k \in 1..Bufd(mm) : S[Off(mm) + k] = d}
                     IN  IF I = {} THEN 0 ELSE CHOOSE k \in I : \A j \in I : k <= j
Chunk(mm) == chunks[mm.nr + 1]
NextNr(mm) == (mm.nr + 1) % Len(chunks)

\* underlying Read into a slice of length cap at source offset mm.f: [n, eof]
Src(mm, cap) == LET avail == Len(S) - mm.f
                    n == Min3(cap, Chunk(mm), avail)
                IN  IF cap = 0 THEN [n |-> 0, e |-> ENil, called |-> FALSE]
                    ELSE IF avail = 0 THEN [n |-> 0, e |-> EEOF, called |-> FALSE]
                    ELSE [n |-> n, e |-> IF eofd /\ n = avail THEN EEOF ELSE ENil, called |-> TRUE]

\* Reader.fill
Fill(mm) == LET s  == IF mm.r > 0 THEN [mm EXCEPT !.w = mm.w - mm.r, !.r = 0] ELSE mm
                rd == Src(s, B - s.w)
            IN  [s EXCEPT !.w = s.w + rd.n, !.f = s.f + rd.n,
                          !.nr = IF rd.called THEN NextNr(s) ELSE s.nr,
                          !.err = IF rd.e # ENil THEN rd.e ELSE s.err]

Reply(n, data, err) == [n |-> n, data |-> data, err |-> err, pfx |-> FALSE]
Consume(mm, n) == [mm EXCEPT !.r = mm.r + n, !.total = mm.total + n]
Last(mm, n) == IF n > 0 THEN [mm EXCEPT !.lb = 1, !.lr = 0 - 1] ELSE mm   \* after consuming

Init == /\ \E s \in Streams : PInitR(s)
        /\ chunks \in {DecodePat(c) : c \in ChunkPats} /\ eofd \in EofModes
        /\ m = [r |-> 0, w |-> 0, f |-> 0, err |-> ENil, lb |-> 0 - 1, lr |-> 0 - 1, nr |-> 0, total |-> 0]
Cfg == UNCHANGED <<chunks, eofd>>

\* Reader.Read
Read(n) ==
  LET empty == m.w = m.r IN
  /\ Cfg
  /\ IF empty /\ m.err # ENil
       THEN m' = [m EXCEPT !.err = ENil] /\ PRead(n, Reply(0, <<>>, m.err))
     ELSE IF empty /\ n >= B                         \* large read, empty buffer: read directly into p
       THEN LET rd == Src(m, n) IN
            /\ m' = IF rd.n > 0
                      THEN [m EXCEPT !.f = m.f + rd.n, !.nr = NextNr(m), !.lb = 1,
                                     !.lr = 0 - 1, !.total = m.total + rd.n]
                      ELSE m
            /\ PRead(n, Reply(rd.n, SubSeq(S, m.f + 1, m.f + rd.n), rd.e))
     ELSE LET m1 == IF empty THEN Fill(m) ELSE m IN
          IF m1.w = m1.r
            THEN m' = [m1 EXCEPT !.err = ENil] /\ PRead(n, Reply(0, <<>>, m1.err))
          ELSE LET k  == Min(n, Bufd(m1))
                   m2 == Consume(m1, k) IN
               /\ m' = Last(m2, k)
               /\ PRead(n, Reply(k, SubSeq(S, Off(m1) + 1, Off(m1) + k), ENil))

\* Reader.ReadByte / ReadRune (ASCII)
One(isRune) ==
  LET m1 == IF m.w = m.r /\ m.err = ENil THEN Fill(m) ELSE m
      m0 == IF isRune THEN [m1 EXCEPT !.lr = 0 - 1] ELSE m1 IN
  /\ Cfg
  /\ IF m1.w = m1.r
       THEN /\ m' = [m0 EXCEPT !.err = ENil, !.lr = 0 - 1]
            /\ IF isRune THEN PReadRune(Reply(0, <<>>, m1.err)) ELSE PReadByte(Reply(0, <<>>, m1.err))
     ELSE LET m2 == Consume(m1, 1) IN
          /\ m' = [m2 EXCEPT !.lb = 1, !.lr = IF isRune THEN 1 ELSE 0 - 1]
          /\ IF isRune THEN PReadRune(Reply(1, <<S[Off(m1) + 1]>>, ENil))
                       ELSE PReadByte(Reply(1, <<S[Off(m1) + 1]>>, ENil))
ReadByte == One(FALSE)
ReadRune == One(TRUE)

Dec(t, k) == IF t >= k THEN t - k ELSE t
\* Reader.UnreadByte (generated only where the contract defines it)
UnreadByte ==
  /\ un # "none" /\ Cfg
  /\ IF m.r = m.w /\ m.lb >= 0
       THEN \* buffer empty: the remembered byte is put into buf[0]
            /\ m' = [m EXCEPT !.w = 1, !.r = 0, !.lb = 0 - 1, !.lr = 0 - 1, !.total = Dec(m.total, 1)]
            /\ PUnreadByte(Reply(0, <<>>, ENil))
     ELSE IF m.r <= 0
       THEN m' = [m EXCEPT !.lr = 0 - 1] /\ PUnreadByte(Reply(0, <<>>, EUnByte))
     ELSE /\ m' = [m EXCEPT !.r = m.r - 1, !.lb = 0 - 1, !.lr = 0 - 1, !.total = Dec(m.total, 1)]
          /\ PUnreadByte(Reply(0, <<>>, ENil))

\* Reader.UnreadRune
UnreadRune ==
  /\ un # "none" /\ Cfg
  /\ IF m.lr < 0 \/ m.r = 0
       THEN m' = m /\ PUnreadRune(Reply(0, <<>>, EUnRune))
     ELSE /\ m' = [m EXCEPT !.r = m.r - m.lr, !.total = Dec(m.total, m.lr), !.lb = 0 - 1, !.lr = 0 - 1]
          /\ PUnreadRune(Reply(0, <<>>, ENil))

\* Reader.ReadSlice: [m, c = bytes consumed (= returned), err]
RECURSIVE RS(_, _)
RS(mm, d) ==
  LET k == FirstInWin(mm, d) IN
  IF k > 0 THEN [m |-> Consume(mm, k), c |-> k, err |-> ENil]
  ELSE IF mm.err # ENil
    THEN [m |-> [Consume(mm, Bufd(mm)) EXCEPT !.err = ENil], c |-> Bufd(mm), err |-> mm.err]
  ELSE LET m2 == Fill(mm) IN
       IF FirstInWin(m2, d) = 0 /\ Bufd(m2) >= B
         THEN [m |-> Consume(m2, Bufd(m2)), c |-> B, err |-> EFull]
       ELSE RS(m2, d)
RSlb(mm, d) == LET rs == RS(mm, d) IN [rs EXCEPT !.m = Last(rs.m, rs.c)]

ReadSlice(d) == LET rs == RSlb(m, d) IN
  /\ Cfg /\ m' = rs.m
  /\ PReadSlice(d, Reply(rs.c, Sub(pos, rs.c), rs.err))

\* Reader.ReadLine
ReadLine == LET rs == RSlb(m, LF) IN
  /\ Cfg
  /\ IF rs.err = EFull
       THEN IF rs.c > 0 /\ S[pos + rs.c] = CR
              THEN \* "\r\n" may straddle the buffer: put the '\r' back
                   /\ m' = [rs.m EXCEPT !.r = rs.m.r - 1, !.total = Dec(rs.m.total, 1)]
                   /\ PReadLine([Reply(rs.c - 1, Sub(pos, rs.c - 1), ENil) EXCEPT !.pfx = TRUE])
            ELSE m' = rs.m /\ PReadLine([Reply(rs.c, Sub(pos, rs.c), ENil) EXCEPT !.pfx = TRUE])
     ELSE IF rs.c = 0
       THEN m' = rs.m /\ PReadLine(Reply(0, <<>>, rs.err))
     ELSE LET drop == IF S[pos + rs.c] # LF THEN 0
                      ELSE IF rs.c > 1 /\ S[pos + rs.c - 1] = CR THEN 2 ELSE 1 IN
          m' = rs.m /\ PReadLine(Reply(rs.c - drop, Sub(pos, rs.c - drop), ENil))

\* Reader.ReadBytes / ReadString: ReadSlice until something other than ErrBufferFull
RECURSIVE RB(_, _, _)
RB(mm, d, got) == LET rs == RSlb(mm, d) IN
  IF rs.err = EFull THEN RB(rs.m, d, got + rs.c) ELSE [rs EXCEPT !.c = got + rs.c]
ReadBytes(d) == LET rb == RB(m, d, 0) IN
  /\ Cfg /\ m' = rb.m
  /\ PReadBytes(d, Reply(rb.c, Sub(pos, rb.c), rb.err))

\* Reader.Peek, n <= B
RECURSIVE PK(_, _)
PK(mm, n) == IF Bufd(mm) < n /\ mm.err = ENil THEN PK(Fill(mm), n) ELSE mm
Peek(n) == LET m1 == PK(m, n)
               k  == Min(n, Bufd(m1)) IN
  /\ Cfg
  /\ m' = IF k < n THEN [m1 EXCEPT !.err = ENil] ELSE m1
  /\ PPeek(n, Reply(k, SubSeq(S, Off(m1) + 1, Off(m1) + k),
                    IF k < n THEN (IF m1.err # ENil THEN m1.err ELSE EFull) ELSE ENil))

\* Reader.WriteTo; wt: the source implements io.WriterTo (hands over the rest in one call)
RECURSIVE WT(_)
WT(mm) == LET m2 == Fill(mm) IN IF m2.r < m2.w THEN WT(Consume(m2, Bufd(m2))) ELSE m2
WriteTo(wt) ==
  LET m1 == Consume(m, Bufd(m))
      m2 == IF wt THEN [m1 EXCEPT !.f = Len(S), !.total = m1.total + (Len(S) - m1.f)]
            ELSE LET m3 == WT(m1) IN [m3 EXCEPT !.err = ENil] IN
  /\ Cfg /\ m' = m2
  /\ PWriteTo(Reply(Len(S) - pos, Sub(pos, Len(S) - pos), ENil))

Next == \/ \E n \in ReadSizes : Read(n)
        \/ ReadByte \/ ReadRune \/ UnreadByte \/ UnreadRune
        \/ \E d \in Delims : ReadSlice(d) \/ ReadBytes(d)
        \/ ReadLine
        \/ \E n \in PeekSizes : Peek(n)
        \/ \E wt \in BOOLEAN : WriteTo(wt)
Spec == Init /\ [][Next]_vars

--------------------------------------------------------------------------
CounterOK == m.total = pos                                   \* TotalRead = bytes consumed
WindowOK  == /\ Off(m) = pos /\ 0 <= m.r /\ m.r <= m.w /\ m.w <= B /\ m.f <= Len(S)
             /\ (m.err # ENil => m.f = Len(S))
==========================================================================
