--------------------------- MODULE GenIpDict ---------------------------
(* Case generator for C19: every finished input with the membership the spec     *)
(* (Layer P) expects for every probe address of the domain.                      *)
EXTENDS IpDict, Json
Emit == fin => PrintT(ToJson([a |-> A, r |-> rs, s |-> ss, exp |-> Members]))
=========================================================================
