\* C19: one run that both checks the mechanism model against Contains (MRefinesP) and prints every
\* finished input with the expected membership (Emit)
CONSTANTS
  A = @A@
  MaxR = @MAXR@
  MaxS = @MAXS@
INIT Init
NEXT Next
INVARIANTS MRefinesP Emit
CHECK_DEADLOCK FALSE
