--------------------------- MODULE GenHashSet ---------------------------
(* Behaviour generator for C20: HashSet plus a history variable; every history of  *)
(* full length is printed as one JSON case (ops with the mechanism's reply, expM). *)
EXTENDS HashSet, Json
CONSTANT MaxOps
VARIABLES h, fin
gvars == <<vars, h, fin>>

GInit == Init /\ h = <<>> /\ fin = FALSE
Op(o) == ~fin /\ Len(h) < MaxOps /\ h' = Append(h, o) /\ fin' = FALSE
GNext ==
  \/ \E k \in Keys : Add(k) /\ Op([op |-> "add", k |-> k, expM |-> reply'.ok])
  \/ \E k \in Keys : Remove(k) /\ Op([op |-> "remove", k |-> k, expM |-> reply'.ok])
  \/ Len(h) = MaxOps /\ ~fin /\ fin' = TRUE /\ UNCHANGED <<vars, h>>
Emit == fin => PrintT(ToJson([cap |-> Cap, valid |-> ValidKeys, hash |-> hm, ops |-> h]))
=========================================================================
