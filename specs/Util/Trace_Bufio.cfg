CONSTANTS
  B = 16
INIT TInit
NEXT TNext
INVARIANT Report
POSTCONDITION Accepted
CHECK_DEADLOCK FALSE
