CONSTANTS
  B = 16
  Pad = 15
  Classes = @CLASSES@
  MaxSyms = @SYMS@
  MaxLen = @MAXLEN@
  ChunkPats = @CHUNKS@
  EofModes = @EOFS@
  ReadSizes = @READS@
  PeekSizes = @PEEKS@
  Delims = @DELIMS@
  MaxOps = @OPS@
INIT GInit
NEXT GNext
INVARIANT Emit
CHECK_DEADLOCK FALSE
