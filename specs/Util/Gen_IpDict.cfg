CONSTANTS
  A = @A@
  MaxR = @MAXR@
  MaxS = @MAXS@
INIT Init
NEXT Next
INVARIANT Emit
CHECK_DEADLOCK FALSE
