----------------------------- MODULE HashSet -----------------------------
(* C20  Layer M of bfe_util/hash_set: hashArray (buckets) + nodePool (singly linked  *)
(* chains, free list threaded through the same `next` array, byte pool = `content`). *)
(* One action per public call, written as the code does it.  TLC checks that the     *)
(* mechanism implements Layer P (HashSetP) for every history within the constants.   *)
EXTENDS HashSetP, Sequences, TLC

CONSTANTS Cap,          \* elemNum
          ValidKeys,    \* keys of legal length
          HashModes,    \* subset of {"const" (all keys collide), "mod" (k % haSize), "pair" (two buckets)}
          MaxSteps      \* history bound (0 = unbounded: the state space is finite anyway)

LoadFactor == 5
HaSize == Cap * LoadFactor
Nodes  == 0..(Cap - 1)
Nil    == 0 - 1
VARIABLES hm,        \* the injected hash function (chosen once, in Init)
          ha,        \* [0..HaSize-1 -> Nodes \cup {Nil}]   bucket heads
          next,      \* [Nodes -> Nodes \cup {Nil}]
          free,      \* head of the free list
          length,    \* np.length
          content,   \* [Nodes -> Keys \cup {0}]            byte pool (0 = never written)
          steps
mvars == <<hm, ha, next, free, length, content, steps>>
vars  == <<pvars, mvars>>

Hash(k) == IF hm = "const" THEN 0
           ELSE IF hm = "pair" THEN k % 2
           ELSE k % HaSize

\* nodes of the list starting at h (bounded walk: a cycle would show up as a repeat)
RECURSIVE Walk(_, _, _)
Walk(h, nx, fuel) == IF h = Nil \/ fuel = 0 THEN <<>> ELSE <<h>> \o Walk(nx[h], nx, fuel - 1)
Chain(h) == Walk(h, next, Cap + 1)
InChain(h, k) == \E i \in 1..Len(Chain(h)) : content[Chain(h)[i]] = k

MFull == length >= Cap
MExist(k) == k \in valid /\ InChain(ha[Hash(k)], k)

Init == /\ PInit(Cap, ValidKeys)
        /\ hm \in HashModes
        /\ ha = [b \in 0..(HaSize - 1) |-> Nil]
        /\ next = [n \in Nodes |-> IF n = Cap - 1 THEN Nil ELSE n + 1]
        /\ free = 0 /\ length = 0
        /\ content = [n \in Nodes |-> 0]
        /\ steps = 0

Tick == /\ (MaxSteps = 0 \/ steps < MaxSteps) /\ steps' = (IF MaxSteps = 0 THEN 0 ELSE steps + 1)
        /\ UNCHANGED hm

\* HashSet.Add
Add(k) ==
  /\ Tick
  /\ IF MFull \/ k \notin valid \/ (free = Nil /\ ~InChain(ha[Hash(k)], k))
       THEN PAdd(k, FALSE) /\ UNCHANGED <<ha, next, free, length, content>>
     ELSE IF InChain(ha[Hash(k)], k)
       THEN PAdd(k, TRUE) /\ UNCHANGED <<ha, next, free, length, content>>
     ELSE LET n == free IN                               \* getFreeNode + add
          /\ free' = next[n]
          /\ next' = [next EXCEPT ![n] = ha[Hash(k)]]
          /\ content' = [content EXCEPT ![n] = k]
          /\ ha' = [ha EXCEPT ![Hash(k)] = n]
          /\ length' = length + 1
          /\ PAdd(k, TRUE)

\* HashSet.Remove -> nodePool.del + recyleNode
Remove(k) ==
  /\ Tick
  /\ IF k \notin valid
       THEN PRemove(k, FALSE) /\ UNCHANGED <<ha, next, free, length, content>>
     ELSE LET h  == ha[Hash(k)]
              ch == Chain(h)
              ix == {i \in 1..Len(ch) : content[ch[i]] = k}
          IN IF ix = {}
               THEN PRemove(k, TRUE) /\ UNCHANGED <<ha, next, free, length, content>>
             ELSE LET i == CHOOSE j \in ix : \A j2 \in ix : j <= j2
                      n == ch[i]
                  IN /\ ha' = IF i = 1 THEN [ha EXCEPT ![Hash(k)] = next[n]] ELSE ha
                     /\ next' = IF i = 1 THEN [next EXCEPT ![n] = free]
                                ELSE [next EXCEPT ![ch[i - 1]] = next[n], ![n] = free]
                     /\ free' = n
                     /\ length' = length - 1
                     /\ UNCHANGED content
                     /\ PRemove(k, TRUE)

Next == \E k \in Keys : Add(k) \/ Remove(k)
Spec == Init /\ [][Next]_vars

--------------------------------------------------------------------------
\* M implements P
ExistOK == \A k \in Keys : MExist(k) = PExist(k)
LenOK   == length = PLen
\* structure: chains and the free list are acyclic and partition the node array
ChainSet(h) == LET c == Chain(h) IN {c[i] : i \in 1..Len(c)}
PoolOK  == LET heads == {b \in 0..(HaSize - 1) : ha[b] # Nil}
               used  == UNION {ChainSet(ha[b]) : b \in heads}
               fr    == Chain(free)
               frs   == {fr[i] : i \in 1..Len(fr)}
           IN  /\ Len(fr) <= Cap /\ Cardinality(frs) = Len(fr)        \* free list acyclic
               /\ \A b \in heads : Len(Chain(ha[b])) <= Cap             \* chains acyclic
               /\ used \cap frs = {} /\ used \cup frs = Nodes
               /\ Cardinality(used) = length
               /\ \A n \in used : content[n] \in valid /\ ha[Hash(content[n])] # Nil
                                  /\ n \in ChainSet(ha[Hash(content[n])])   \* every key in its own bucket
==========================================================================
