-------------------------- MODULE TraceHashSet --------------------------
(* Trace validation of real executions of hash_set.HashSet against Layer P.        *)
(* trace.ndjson: recorded cases back to back; "new" starts a case (capacity, valid  *)
(* key ids), then one event per Add/Remove with the real reply and, observed right  *)
(* after it, the set of key ids for which Exist() said true and Len().  Every       *)
(* Layer-P obligation is evaluated after every event; failures are collected in     *)
(* `bad`, the rest of a failed case is skipped.                                     *)
EXTENDS HashSetP, Sequences, Json, TLC

TraceLog == ndJsonDeserialize("trace.ndjson")

VARIABLES l, dead, bad
tvars == <<pvars, l, dead, bad>>

Ev == TraceLog[l]
Mark(why) == bad' = bad \cup {[cid |-> Ev.cid, l |-> l, why |-> why]}
ToSet(s) == {s[i] : i \in 1..Len(s)}

TInit == l = 1 /\ dead = FALSE /\ bad = {} /\ PInit(0, {})

TNew == /\ Ev.ev = "new"
        /\ cap' = Ev.cap /\ valid' = ToSet(Ev.valid) /\ S' = {} /\ reply' = NoReply
        /\ dead' = FALSE /\ UNCHANGED bad

Skip == Ev.ev # "new" /\ dead /\ UNCHANGED <<pvars, dead, bad>>

\* obligations on the state after the event, in the order in which they are reported
Oblig == IF Ev.ret < 0 THEN (IF Ev.ret = 0 - 2 THEN "hang" ELSE "panic")
         ELSE IF ~ReplyOK' THEN (IF Ev.k \notin valid THEN "invalid-key-accepted"
                                 ELSE IF Ev.ret = 1 THEN "add-beyond-capacity" ELSE "add-refused")
         ELSE IF ToSet(Ev.ex) # S' THEN
                 (IF \E k \in S' : k \notin ToSet(Ev.ex) THEN "member-lost" ELSE "phantom-member")
         ELSE IF Ev.len # Cardinality(S') THEN "len"
         ELSE IF ~Bounded' \/ ~OnlyValid' THEN "bound"
         ELSE "ok"

TOp == /\ Ev.ev \in {"add", "remove"} /\ ~dead
       /\ IF Ev.ev = "add" THEN PAdd(Ev.k, Ev.ret = 1) ELSE PRemove(Ev.k, Ev.ret = 1)
       /\ LET o == Oblig IN
            IF o = "ok" THEN UNCHANGED <<dead, bad>> ELSE Mark(o) /\ dead' = TRUE

TNext == /\ l <= Len(TraceLog) /\ l' = l + 1
         /\ (TNew \/ Skip \/ TOp)

Report == (l = Len(TraceLog) + 1) =>
             PrintT(ToJson([done |-> TRUE, consumed |-> l - 1, bad |-> bad]))
Accepted == TLCGet("stats").diameter - 1 = Len(TraceLog)
=========================================================================
