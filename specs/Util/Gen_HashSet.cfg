CONSTANTS
  K = @K@
  Cap = @CAP@
  ValidKeys = @VALID@
  HashModes = @HASH@
  MaxSteps = 0
  MaxOps = @OPS@
INIT GInit
NEXT GNext
INVARIANTS Emit
CHECK_DEADLOCK FALSE
