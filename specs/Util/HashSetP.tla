---------------------------- MODULE HashSetP ----------------------------
(* C20  Layer P of bfe_util/hash_set: a bounded mathematical set.  Only what the   *)
(* statement talks about and what Add/Remove/Exist/Len return appears here; no      *)
(* buckets, no nodes, no hash function.                                            *)
(*                                                                                *)
(* Keys are abstract ids 1..K; `valid` says which of them have a legal length for  *)
(* the set under test (fixed-length set: exactly elemSize bytes; variable-length   *)
(* set: at most elemSize bytes).                                                   *)
EXTENDS Integers, FiniteSets

CONSTANT K
Keys == 1..K

VARIABLES cap,      \* capacity (elemNum of NewHashSet)
          valid,    \* SUBSET Keys
          S,        \* the set
          reply     \* last reply [op, k, ok, allowed]; allowed = set of permitted `ok` values
pvars == <<cap, valid, S, reply>>

NoReply == [op |-> "none", k |-> 0, ok |-> TRUE, allowed |-> {TRUE}]

PInit(c, v) == cap = c /\ valid = v /\ S = {} /\ reply = NoReply

\* which results may Add(k) report in the current state
\*  - a key of invalid length is rejected
\*  - within capacity the add succeeds
\*  - at capacity: a new key fails; a key that is already a member may report either
\*    (the statement does not say), the set stays the same in both cases
AddAllowed(k) == IF k \notin valid THEN {FALSE}
                 ELSE IF Cardinality(S) < cap THEN {TRUE}
                 ELSE IF k \in S THEN {TRUE, FALSE} ELSE {FALSE}

\* Add(k) returned ok (TRUE = nil error).  The set changes only by a legal successful add.
PAdd(k, ok) == /\ reply' = [op |-> "add", k |-> k, ok |-> ok, allowed |-> AddAllowed(k)]
               /\ S' = IF ok /\ TRUE \in AddAllowed(k) THEN S \cup {k} ELSE S
               /\ UNCHANGED <<cap, valid>>

\* Remove(k): afterwards k is not a member; removing an absent or invalid key changes
\* nothing.  The returned error value is not dictated by the statement.
PRemove(k, ok) == /\ reply' = [op |-> "remove", k |-> k, ok |-> ok, allowed |-> {TRUE, FALSE}]
                  /\ S' = S \ {k}
                  /\ UNCHANGED <<cap, valid>>

--------------------------------------------------------------------------
\* Layer-P obligations
ReplyOK    == reply.ok \in reply.allowed
Bounded    == Cardinality(S) <= cap
OnlyValid  == S \subseteq valid
\* what Exist(k) and Len() must answer in the current state
PExist(k)  == k \in S
PLen       == Cardinality(S)
=========================================================================
