---------------------------- MODULE GenBufR ----------------------------
(* Behaviour generator for the C22 reader: BufR plus a history; every history of full *)
(* length is printed as one JSON case: stream, chunk pattern, EOF mode, the calls with  *)
(* their arguments and the mechanism's prediction (xpos = bytes consumed afterwards,   *)
(* xbuf = Buffered() afterwards; diagnostic only).                                     *)
EXTENDS BufR, Json
CONSTANT MaxOps
VARIABLES h, fin
gvars == <<vars, h, fin>>

GInit == Init /\ h = <<>> /\ fin = FALSE
Op(o) == /\ ~fin /\ Len(h) < MaxOps /\ fin' = FALSE
         /\ h' = Append(h, o @@ [xpos |-> pos', xbuf |-> m'.w - m'.r])
GNext ==
  \/ \E k \in ReadSizes : Read(k) /\ Op([op |-> "read", a |-> k])
  \/ ReadByte /\ Op([op |-> "readbyte", a |-> 0])
  \/ ReadRune /\ Op([op |-> "readrune", a |-> 0])
  \/ UnreadByte /\ Op([op |-> "unreadbyte", a |-> 0])
  \/ UnreadRune /\ Op([op |-> "unreadrune", a |-> 0])
  \/ \E d \in Delims : ReadSlice(d) /\ Op([op |-> "readslice", a |-> d])
  \/ \E d \in Delims : ReadBytes(d) /\ Op([op |-> "readbytes", a |-> d])
  \/ ReadLine /\ Op([op |-> "readline", a |-> 0])
  \/ \E k \in PeekSizes : Peek(k) /\ Op([op |-> "peek", a |-> k])
  \/ \E wt \in BOOLEAN : WriteTo(wt) /\ Op([op |-> "writeto", a |-> IF wt THEN 1 ELSE 0])
  \/ Len(h) = MaxOps /\ ~fin /\ fin' = TRUE /\ UNCHANGED <<vars, h>>
Emit == fin => PrintT(ToJson([kind |-> "r", s |-> S, chunks |-> chunks, eofd |-> eofd, ops |-> h]))
========================================================================
