\* C22 reader: all streams of <= MaxSyms symbol classes, all chunk patterns, all op sequences
CONSTANTS
  B = 16
  Pad = 15
  Classes = @CLASSES@
  MaxSyms = @SYMS@
  MaxLen = @MAXLEN@
  ChunkPats = @CHUNKS@
  EofModes = @EOFS@
  ReadSizes = @READS@
  PeekSizes = @PEEKS@
  Delims = @DELIMS@
INIT Init
NEXT Next
INVARIANTS ReplyOK CounterOK WindowOK
CHECK_DEADLOCK FALSE
