------------------------------ MODULE BufW ------------------------------
(* C22  Layer M of bfe_bufio.Writer: buf[0:n], flush(), the TotalWrite counter; one    *)
(* action per public method as the code does it.  The underlying writer accepts every  *)
(* Write completely (no error), `urf` says whether it also implements io.ReaderFrom.   *)
(* Bytes are all 0 here (the mechanism never looks at them); the recorded executions    *)
(* carry distinguishable bytes and are judged by the same Layer P.                     *)
EXTENDS BufioP, TLC

CONSTANTS WriteSizes,     \* lengths of Write / WriteString arguments
          FromSizes,      \* lengths of the ReadFrom sources
          FromChunks,     \* per-Read chunk limits of a ReadFrom source
          MaxAcc          \* bound on the total number of bytes written

VARIABLES n,              \* bytes in buf
          total,          \* TotalWrite
          urf
mvars == <<n, total, urf>>
vars  == <<pvars, mvars>>

RECURSIVE Zeros(_)
Zeros(k) == IF k = 0 THEN <<>> ELSE <<0>> \o Zeros(k - 1)
Avail == B - n
WReply(k) == [n |-> k, err |-> ENil]

Init == PInitW /\ n = 0 /\ total = 0 /\ urf \in BOOLEAN

\* Writer.Write / WriteString (same structure; WriteString never writes directly).
\* returns [n (buffered afterwards), out (bytes handed down during the call)]
RECURSIVE WLoop(_, _, _, _)
WLoop(len, nb, out, direct) ==
  IF len > B - nb
    THEN IF nb = 0 /\ direct THEN [n |-> 0, out |-> out + len]          \* large write, empty buffer
         ELSE LET k == B - nb IN WLoop(len - k, 0, out + nb + k, direct) \* fill up, flush
  ELSE [n |-> nb + len, out |-> out]

Write(len, direct) ==
  /\ Len(acc) + len <= MaxAcc
  /\ LET r == WLoop(len, n, 0, direct) IN
     /\ n' = r.n /\ total' = total + len /\ UNCHANGED urf
     /\ PWrite(IF direct THEN "Write" ELSE "WriteString", Zeros(len), WReply(len), Zeros(r.out))

\* Writer.WriteByte (WriteRune of an ASCII rune is the same)
WriteByte ==
  /\ Len(acc) + 1 <= MaxAcc
  /\ LET fl == IF Avail <= 0 THEN n ELSE 0 IN
     /\ n' = (n - fl) + 1 /\ total' = total + 1 /\ UNCHANGED urf
     /\ PWrite("WriteByte", <<0>>, WReply(1), Zeros(fl))

Flush == /\ n' = 0 /\ UNCHANGED <<total, urf>>
         /\ PFlush(WReply(0), Zeros(n))

\* Writer.ReadFrom(src): src has len bytes, hands out at most ch per Read, EOF with the last
\* bytes iff eofd.  [n, out]
RECURSIVE RFLoop(_, _, _, _)
RFLoop(left, nb, out, ch) ==
  LET nb1  == IF B - nb = 0 THEN 0 ELSE nb            \* Available() == 0: flush
      out1 == IF B - nb = 0 THEN out + nb ELSE out
      k    == Min(Min(B - nb1, ch), left)
  IN  IF left = 0 THEN [n |-> nb1, out |-> out1]       \* Read returned (0, EOF)
      ELSE RFLoop(left - k, nb1 + k, out1, ch)
ReadFrom(len, ch, eofd) ==
  /\ Len(acc) + len <= MaxAcc
  /\ IF n = 0 /\ urf
       THEN /\ n' = 0 /\ total' = total + len /\ UNCHANGED urf
            /\ PWrite("ReadFrom", Zeros(len), WReply(len), Zeros(len))
     ELSE LET r0 == RFLoop(len, n, 0, ch)
              \* with eofd the loop ends on (m, EOF) and skips the flush check of the next round;
              \* either way a buffer filled exactly is flushed pre-emptively
              fl == IF B - r0.n = 0 THEN r0.n ELSE 0 IN
          /\ n' = r0.n - fl /\ total' = total + len /\ UNCHANGED urf
          /\ PWrite("ReadFrom", Zeros(len), WReply(len), Zeros(r0.out + fl))

Next == \/ \E len \in WriteSizes, direct \in BOOLEAN : Write(len, direct)
        \/ WriteByte \/ Flush
        \/ \E len \in FromSizes, ch \in FromChunks, e \in BOOLEAN : ReadFrom(len, ch, e)
Spec == Init /\ [][Next]_vars

--------------------------------------------------------------------------
CounterOK == total = Len(acc)                               \* TotalWrite = bytes produced
BufferOK  == 0 <= n /\ n <= B /\ Len(und) + n = Len(acc)      \* nothing lost, nothing invented
==========================================================================
