----------------------------- MODULE IpDict -----------------------------
(* C19  IP dictionaries report exact membership  (bfe_util/ipdict).               *)
(*                                                                                *)
(* Address domain: ONE ordered 128-bit space, as the code has it (every address is  *)
(* compared in its 16-byte form, IPv4 a.b.c.d being ::ffff:a.b.c.d).  Four zones of   *)
(* consecutive keys, in 16-byte order, anchored at the ends of the space and of the   *)
(* IPv4-mapped block:                                                                 *)
(*   L  keys 0 .. A          IPv6  ::n              below the IPv4-mapped block       *)
(*   V  keys A+1 .. 2A+1     IPv4  0.0.0.n  (= ::ffff:0.0.0.n)   the mapped block     *)
(*   H  keys 2A+2 .. 3A+2    IPv6  ::1:0:0:n        above the IPv4-mapped block       *)
(*   T  keys 3A+3 .. 4A+2    IPv6  ffff:..:ffff - (A-1-n)   the top of the space; the  *)
(*                           last key is the highest address (nothing lies above it)  *)
(* Ranges and singles are loaded over n < A of each zone, so the address just above   *)
(* L, V and H is probed too, both zero addresses (::, 0.0.0.0) can start a range and   *)
(* the highest address can end one.                                                   *)
(* InsertPair accepts a pair iff both ends are IPv4 or both are not: IPv4 ranges stay *)
(* inside V, IPv6 ranges lie below V, above V, or STRADDLE it (lo in L, hi in H or T)  *)
(* and then contain every IPv4 address.                                               *)
(*                                                                                *)
(* Layer P: Contains.  Layer M: IPItems.Sort (descending sort, mergeItems with    *)
(* its zero-address markers, second sort, truncate) and IPTable.Search (binary    *)
(* search on start, compare end) as the code does them.                           *)
EXTENDS Integers, Sequences, FiniteSets, TLC

CONSTANTS A,        \* loaded addresses per family: 0..A-1
          MaxR,     \* max number of ranges (a sequence: insertion order is an input)
          MaxS      \* max number of singles (a multiset: non-decreasing sequence)

Keys     == 0..(4 * A + 2)                 \* probe domain (n = A of L, V, H is the "one above" address)
IsV4(k)  == k >= A + 1 /\ k <= 2 * A + 1
Fam(k)   == IF IsV4(k) THEN 4 ELSE 6
Num(k)   == k % (A + 1)
InTop(k) == k >= 3 * A + 3
Loadable == {k \in Keys : InTop(k) \/ Num(k) < A}
Zero6    == 0
Zero4    == A + 1
Ranges   == {r \in Loadable \X Loadable : Fam(r[1]) = Fam(r[2]) /\ r[1] <= r[2]}

VARIABLES rs,       \* Seq(Ranges)  in insertion order
          ss,       \* Seq(Loadable) non-decreasing
          fin
vars == <<rs, ss, fin>>

---------------------------------------------------------------------------
\* Layer P
Contains(k) == \/ \E i \in 1..Len(ss) : ss[i] = k
               \/ \E i \in 1..Len(rs) : rs[i][1] <= k /\ k <= rs[i][2]
Members == {k \in Keys : Contains(k)}

---------------------------------------------------------------------------
\* Layer M
\* ipPairs.Less: descending by start, ties by descending end (a strict weak order up
\* to identical items), so the result of sort.Sort is determined by the multiset.
Before(a, b) == a[1] > b[1] \/ (a[1] = b[1] /\ a[2] >= b[2])
RECURSIVE Ins(_, _)
Ins(s, e) == IF s = <<>> THEN <<e>>
             ELSE IF Before(e, s[1]) THEN <<e>> \o s ELSE <<s[1]>> \o Ins(Tail(s), e)
RECURSIVE SortDesc(_)
SortDesc(s) == IF s = <<>> THEN <<>> ELSE Ins(SortDesc(Tail(s)), s[1])

Marker   == <<Zero6, Zero6>>
IsZ6(e)  == e[2] = Zero6
\* The code tests endIP.Equal(IPv6zero) || endIP.Equal(IPv4zero): besides the markers it also skips a
\* real pair 0.0.0.0-0.0.0.0 (the package's tests pin that convention).  Inside one family that is
\* harmless; nested in an IPv6 range that straddles the IPv4-mapped block the pair stays unmerged and
\* shadows the wide range in Search (open finding F-C19-2).  The model has the intended behaviour:
\* only the marker is skipped.
IsZ(e)   == e[2] = Zero6

\* checkMerge(i, j): <<items', mergedNum>>
CheckMerge(it, i, j) ==
  IF it[j][2] >= it[i][1]
    THEN LET ni  == <<it[j][1], IF it[j][2] >= it[i][2] THEN it[j][2] ELSE it[i][2]>>
             it1 == [it EXCEPT ![i] = ni, ![j] = Marker]
             ks  == {k \in (i + 1)..(j - 1) : ~IsZ(it1[k])}
         IN  <<[k \in DOMAIN it1 |-> IF k \in ks THEN Marker ELSE it1[k]], 1 + Cardinality(ks)>>
    ELSE <<it, 0>>

RECURSIVE InnerJ(_, _, _, _)
InnerJ(it, i, j, m) ==
  IF j > Len(it) THEN <<it, m>>
  ELSE IF IsZ6(it[j]) THEN InnerJ(it, i, j + 1, m)      \* (second disjunct of the code tests items[i])
  ELSE LET r == CheckMerge(it, i, j) IN InnerJ(r[1], i, j + 1, m + r[2])

RECURSIVE OuterI(_, _, _)
OuterI(it, i, m) ==
  IF i > Len(it) - 1 THEN <<it, m>>
  ELSE IF IsZ(it[i]) THEN OuterI(it, i + 1, m)
  ELSE LET r == InnerJ(it, i, i + 1, m) IN OuterI(r[1], i + 1, r[2])

\* IPItems.Sort
Sorted == LET s1 == SortDesc(rs)
              r  == OuterI(s1, 1, 0)
              s2 == SortDesc(r[1])
          IN  SubSeq(s2, 1, Len(s2) - r[2])

\* IPTable.Search: sort.Search = least index with start <= k (the predicate is monotone on a
\* descending list), hit iff that item's end >= k
MSearch(k) == \/ \E i \in 1..Len(ss) : ss[i] = k
              \/ LET it  == Sorted
                     idx == {i \in 1..Len(it) : it[i][1] <= k}
                 IN  idx # {} /\ LET i0 == CHOOSE i \in idx : \A j \in idx : i <= j
                                 IN  it[i0][2] >= k

MRefinesP == fin => \A k \in Keys : MSearch(k) = Contains(k)

---------------------------------------------------------------------------
Init == rs = <<>> /\ ss = <<>> /\ fin = FALSE

AddRange == /\ ~fin /\ ss = <<>> /\ Len(rs) < MaxR
            /\ \E r \in Ranges : rs' = Append(rs, r)
            /\ UNCHANGED <<ss, fin>>
AddSingle == /\ ~fin /\ Len(ss) < MaxS
             /\ \E k \in Loadable : /\ (IF ss = <<>> THEN TRUE ELSE ss[Len(ss)] <= k)
                                    /\ ss' = Append(ss, k)
             /\ UNCHANGED <<rs, fin>>
Finish == ~fin /\ fin' = TRUE /\ UNCHANGED <<rs, ss>>
Next == AddRange \/ AddSingle \/ Finish
Spec == Init /\ [][Next]_vars
=========================================================================
