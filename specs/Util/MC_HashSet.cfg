\* C20: all Add/Remove histories over K keys (ValidKeys legal, the others of illegal length)
CONSTANTS
  K = @K@
  Cap = @CAP@
  ValidKeys = @VALID@
  HashModes = @HASH@
  MaxSteps = @STEPS@
INIT Init
NEXT Next
INVARIANTS ReplyOK Bounded OnlyValid ExistOK LenOK PoolOK
CHECK_DEADLOCK FALSE
