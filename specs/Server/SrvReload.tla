--------------------------- MODULE SrvReload ---------------------------
(* C15: hot reload of the server data configuration (host table, route table, cluster   *)
(* table) against concurrent request processing (bfe_server: serverDataConfReload,      *)
(* http_conn.readRequest, find_location, reverseproxy).                                 *)
(* The published configuration is one pointer guarded by confLock.  A request copies    *)
(* the pointer once (its snapshot) and performs every lookup on the snapshot.           *)
(* Reload = build a new configuration, swap the pointer under the lock, then (outside   *)
(* the lock) refresh the transports / gslb settings from the NEW configuration.         *)
(* Layer P: every request observes all its lookups in ONE generation, that generation   *)
(* was the published one at some instant of the request, and a request in flight keeps  *)
(* its generation although reloads complete meanwhile.                                  *)
(* LockDiscipline is the spec-level stand-in for "no data race": no step reads the      *)
(* published pointer without holding the lock.                                          *)
EXTENDS Integers, Sequences, FiniteSets, TLC

CONSTANTS Reqs, Reloaders, MaxGen
Stages == <<"host", "route", "cluster">>

VARIABLES pub,        \* published generation (srv.ServerConf)
          lockHeld,   \* confLock holder or "none"
          rpc,        \* [Reloaders -> {"idle","built","swapped"}]
          built,      \* [Reloaders -> generation being installed]
          ngen,
          qpc,        \* [Reqs -> 0..4]: 0 not started, 1 snapshot taken, 2..4 lookups done
          snap,       \* [Reqs -> generation]
          seen,       \* [Reqs -> Seq(generation)] generation observed by each lookup
          span,       \* [Reqs -> set of generations published during the request]
          unlockedRead \* history: a step read `pub` without the lock
vars == <<pub, lockHeld, rpc, built, ngen, qpc, snap, seen, span, unlockedRead>>

Init == /\ pub = 0 /\ lockHeld = "none" /\ rpc = [x \in Reloaders |-> "idle"]
        /\ built = [x \in Reloaders |-> 0] /\ ngen = 0
        /\ qpc = [q \in Reqs |-> 0] /\ snap = [q \in Reqs |-> 0]
        /\ seen = [q \in Reqs |-> <<>>] /\ span = [q \in Reqs |-> {}]
        /\ unlockedRead = FALSE

\* LoadServerDataConf: a new generation is built from the files
Build(x) == /\ rpc[x] = "idle" /\ ngen < MaxGen
            /\ ngen' = ngen + 1 /\ built' = [built EXCEPT ![x] = ngen + 1]
            /\ rpc' = [rpc EXCEPT ![x] = "built"]
            /\ UNCHANGED <<pub, lockHeld, qpc, snap, seen, span, unlockedRead>>
\* confLock.Lock(); srv.ServerConf = new; confLock.Unlock()  (one critical section)
Swap(x) == /\ rpc[x] = "built" /\ lockHeld = "none"
           /\ pub' = built[x]
           /\ span' = [q \in Reqs |-> IF qpc[q] \in 1..3 THEN span[q] \cup {built[x]} ELSE span[q]]
           /\ rpc' = [rpc EXCEPT ![x] = "swapped"]
           /\ UNCHANGED <<lockHeld, built, ngen, qpc, snap, seen, unlockedRead>>
\* setTransports / SetGslbBasic / SetSlowStart from the NEW configuration (after the fix of C15:
\* the local variable, not the shared field, is read)
PostSwap(x) == /\ rpc[x] = "swapped"
               /\ rpc' = [rpc EXCEPT ![x] = "idle"]
               /\ UNCHANGED <<pub, lockHeld, built, ngen, qpc, snap, seen, span, unlockedRead>>

\* readRequest: srv.GetServerConf() under the lock
Snapshot(q) == /\ qpc[q] = 0 /\ lockHeld = "none"
               /\ snap' = [snap EXCEPT ![q] = pub] /\ span' = [span EXCEPT ![q] = {pub}]
               /\ qpc' = [qpc EXCEPT ![q] = 1]
               /\ UNCHANGED <<pub, lockHeld, rpc, built, ngen, seen, unlockedRead>>
\* host table, route table, cluster table lookups — all on the snapshot
Lookup(q) == /\ qpc[q] \in 1..3
             /\ seen' = [seen EXCEPT ![q] = Append(@, snap[q])]
             /\ qpc' = [qpc EXCEPT ![q] = @ + 1]
             /\ UNCHANGED <<pub, lockHeld, rpc, built, ngen, snap, span, unlockedRead>>

Next == \/ \E x \in Reloaders : Build(x) \/ Swap(x) \/ PostSwap(x)
        \/ \E q \in Reqs : Snapshot(q) \/ Lookup(q)
Spec == Init /\ [][Next]_vars

------------------------------------------------------------------------
OneGeneration == \A q \in Reqs : \A i, j \in 1..Len(seen[q]) : seen[q][i] = seen[q][j]
GenerationWasCurrent == \A q \in Reqs : \A i \in 1..Len(seen[q]) : seen[q][i] \in span[q]
KeepsSnapshot == \A q \in Reqs : qpc[q] >= 1 => \A i \in 1..Len(seen[q]) : seen[q][i] = snap[q]
LockDiscipline == ~unlockedRead
=======================================================================
