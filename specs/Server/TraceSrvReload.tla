------------------------ MODULE TraceSrvReload ------------------------
(* Validates requests recorded from a real in-process BFE under concurrent reloads.     *)
(* Generation g of the test configuration maps the probe host to product P(g) and       *)
(* routes P(g) to cluster "c0", the other product to "c1": any mixture of two            *)
(* generations inside one request sends it to "c1" or fails the lookup.                 *)
(* Events, in the order of one atomic counter:                                          *)
(*   swap_start/swap_end g   a reload publishing generation g runs between them         *)
(*   req_start id / req_end id product cluster status                                   *)
EXTENDS Integers, Sequences, FiniteSets, TLC, Json
Tr == ndJsonDeserialize("trace.ndjson")
VARIABLES l, may, inflight, bad
\* may: generations that may be the published one now; inflight: [id -> generations possibly
\* published at some instant of the request]
tvars == <<l, may, inflight, bad>>
Ev == Tr[l]
Mark(why) == bad' = bad \cup {[cid |-> Ev.cid, l |-> l, why |-> why]}
ProductOf(g) == IF g % 2 = 0 THEN "pa" ELSE "pb"
Fold(f, m) == [i \in DOMAIN f |-> f[i] \cup m]

TInit == l = 1 /\ may = {0} /\ inflight = <<>> /\ bad = {}
TNew == Ev.ev = "new" /\ may' = {Ev.g} /\ inflight' = <<>> /\ UNCHANGED bad
TSwapStart == /\ Ev.ev = "swap_start" /\ may' = may \cup {Ev.g}
              /\ inflight' = Fold(inflight, may') /\ UNCHANGED bad
\* after a reload has returned its generation (or a later one) is published
TSwapEnd == /\ Ev.ev = "swap_end" /\ may' = {g \in may : g >= Ev.g}
            /\ inflight' = Fold(inflight, may') /\ UNCHANGED bad
TReqStart == /\ Ev.ev = "req_start" /\ inflight' = (Ev.id :> may) @@ inflight
             /\ UNCHANGED <<may, bad>>
TReqEnd == /\ Ev.ev = "req_end"
           /\ LET gens == inflight[Ev.id] IN
                IF Ev.status = 0 - 1 THEN Mark("panic-or-no-response")
                ELSE IF Ev.status # 200 THEN Mark("RequestFailedDuringReload")
                ELSE IF Ev.cluster # "c0" THEN Mark("MixedGenerations")
                ELSE IF ~(\E g \in gens : ProductOf(g) = Ev.product) THEN Mark("GenerationNeverCurrent")
                ELSE UNCHANGED bad
           /\ inflight' = [x \in DOMAIN inflight \ {Ev.id} |-> inflight[x]]
           /\ UNCHANGED may
TEnd == Ev.ev = "end" /\ (IF Ev.panic THEN Mark("panic") ELSE UNCHANGED bad) /\ UNCHANGED <<may, inflight>>
TNext == l <= Len(Tr) /\ l' = l + 1 /\ (TNew \/ TSwapStart \/ TSwapEnd \/ TReqStart \/ TReqEnd \/ TEnd)
Report == (l = Len(Tr) + 1) => PrintT(ToJson([done |-> TRUE, consumed |-> l - 1, bad |-> bad]))
Accepted == TLCGet("stats").diameter - 1 = Len(Tr)
=======================================================================
