------------------------ MODULE TraceSrvReload ------------------------
(* Validates requests recorded from a real in-process BFE under concurrent reloads.     *)
(* Generation g of the test configuration maps the probe host to product P(g) and       *)
(* routes P(g) to cluster "c0", the other product to "c1": any mixture of two            *)
(* generations inside one request sends it to "c1" or fails the lookup.                 *)
(* Events, in the order of one atomic counter:                                          *)
(*   swap_start/swap_end g   a reload publishing generation g runs between them         *)
(*   req_start id / req_end id product cluster status                                   *)
EXTENDS Integers, Sequences, FiniteSets, TLC, Json
Tr == ndJsonDeserialize("trace.ndjson")
VARIABLES l, may, inflight, swaps, bad
\* may: generations that may be the published one now; inflight: [id -> generations possibly
\* published at some instant of the request]; swaps: [generation whose reload is running ->
\* generations whose reload RETURNED while it was running] — concurrent reloads may publish in
\* any order, so when the reload of h returns the published generation is h, one whose reload
\* is still running, or one whose reload returned during h's (it may have swapped after h).
tvars == <<l, may, inflight, swaps, bad>>
Ev == Tr[l]
Mark(why) == bad' = bad \cup {[cid |-> Ev.cid, l |-> l, why |-> why]}
ProductOf(g) == IF g % 2 = 0 THEN "pa" ELSE "pb"
Fold(f, m) == [i \in DOMAIN f |-> f[i] \cup m]

TInit == l = 1 /\ may = {0} /\ inflight = <<>> /\ swaps = <<>> /\ bad = {}
TNew == Ev.ev = "new" /\ may' = {Ev.g} /\ inflight' = <<>> /\ swaps' = <<>> /\ UNCHANGED bad
TSwapStart == /\ Ev.ev = "swap_start" /\ may' = may \cup {Ev.g}
              /\ swaps' = (Ev.g :> {}) @@ swaps
              /\ inflight' = Fold(inflight, may') /\ UNCHANGED bad
TSwapEnd == /\ Ev.ev = "swap_end"
            /\ LET running == DOMAIN swaps \ {Ev.g} IN
                 /\ may' = {Ev.g} \cup running \cup swaps[Ev.g]
                 /\ swaps' = [x \in running |-> swaps[x] \cup {Ev.g}]
            /\ inflight' = Fold(inflight, may') /\ UNCHANGED bad
TReqStart == /\ Ev.ev = "req_start" /\ inflight' = (Ev.id :> may) @@ inflight
             /\ UNCHANGED <<may, swaps, bad>>
TReqEnd == /\ Ev.ev = "req_end"
           /\ LET gens == inflight[Ev.id] IN
                IF Ev.status = 0 - 1 THEN Mark("panic-or-no-response")
                ELSE IF Ev.status # 200 THEN Mark("RequestFailedDuringReload")
                ELSE IF Ev.cluster # "c0" THEN Mark("MixedGenerations")
                ELSE IF ~(\E g \in gens : ProductOf(g) = Ev.product) THEN Mark("GenerationNeverCurrent")
                ELSE UNCHANGED bad
           /\ inflight' = [x \in DOMAIN inflight \ {Ev.id} |-> inflight[x]]
           /\ UNCHANGED <<may, swaps>>
\* request to the cluster that balancer-table reloads add and remove: served by the complete new
\* table (200) or refused by the old one (no balancer) — never a half-loaded balancer
TExEnd == /\ Ev.ev = "ex_end"
          /\ (IF Ev.ok THEN UNCHANGED bad ELSE Mark("HalfLoadedBalancerTable"))
          /\ inflight' = [x \in DOMAIN inflight \ {Ev.id} |-> inflight[x]]
          /\ UNCHANGED <<may, swaps>>
\* an HTTPS request (certificate chosen by SNI) during TLS reloads must simply succeed
TTlsEnd == /\ Ev.ev = "tls_end"
           /\ (IF Ev.ok THEN UNCHANGED bad ELSE Mark("TlsRequestFailedDuringReload"))
           /\ inflight' = [x \in DOMAIN inflight \ {Ev.id} |-> inflight[x]]
           /\ UNCHANGED <<may, swaps>>
TEnd == Ev.ev = "end" /\ (IF Ev.panic THEN Mark("panic") ELSE UNCHANGED bad) /\ UNCHANGED <<may, inflight, swaps>>
TNext == l <= Len(Tr) /\ l' = l + 1 /\ (TNew \/ TSwapStart \/ TSwapEnd \/ TReqStart \/ TReqEnd \/ TExEnd \/ TTlsEnd \/ TEnd)
Report == (l = Len(Tr) + 1) => PrintT(ToJson([done |-> TRUE, consumed |-> l - 1, bad |-> bad]))
Accepted == TLCGet("stats").diameter - 1 = Len(Tr)
=======================================================================
