CONSTANTS
  Reqs = {"q1", "q2"}
  Reloaders = {"r1", "r2"}
  MaxGen = @MAXGEN@
INIT Init
NEXT Next
INVARIANTS OneGeneration GenerationWasCurrent KeepsSnapshot LockDiscipline
CHECK_DEADLOCK FALSE
