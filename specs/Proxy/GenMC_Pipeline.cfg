\* C48 quick: model check M against P and print every complete behaviour in the same run
CONSTANTS
  MaxChain = @CHAIN@
  MaxDev = @DEV@
INIT Init
NEXT Next
INVARIANTS TypeOK PChain PVerdict PVisit Emit
CHECK_DEADLOCK FALSE
