-------------------------- MODULE GenInvoke --------------------------
(* Scenario generator for C07/C08: cluster retry settings, request shape, the failure   *)
(* kind each backend of the first-choice sub-cluster (A) and of the other sub-cluster   *)
(* (B) produces, and the attempt at which a HandleForward filter finishes the request.  *)
(* The real retry loop then runs against scripted backends; what it did is recorded and *)
(* validated by TraceInvoke.tla.                                                        *)
EXTENDS Integers, Sequences, FiniteSets, TLC, Json
CONSTANTS MaxRetry, Kinds
VARIABLES sc, done
K == Kinds \cup {"ok"}
SeqsUpTo(S, n) == UNION {[1..m -> S] : m \in 0..n}
Init == /\ sc \in [retryMax : 0..MaxRetry, crossRetry : 0..1, retryGet : BOOLEAN, get : BOOLEAN,
                   nobody : BOOLEAN, subA : SeqsUpTo(K, 2) \ {<<>>}, subB : SeqsUpTo(K, 1),
                   finishAt : 0..3, finishAtEnd : BOOLEAN, conc : 1..3]
        /\ done = FALSE
Next == ~done /\ done' = TRUE /\ UNCHANGED sc
Emit == done => PrintT(ToJson(sc))
======================================================================
