-------------------------- MODULE TracePipeline --------------------------
(* Trace validation for C48: every line of trace.ndjson is what the real server did   *)
(* for one case: the filter invocations it made with the verdicts they returned, what *)
(* the client received, backend contacts, connection state.  Every Layer-P obligation *)
(* of PipelineP is evaluated on every line; failures are collected in `bad`.          *)
EXTENDS PipelineP, Json

Trace == ndJsonDeserialize("trace.ndjson")
VARIABLES l, bad
Ev == Trace[l]

Why(e) == LET x == Expect(e.calls) IN
          IF ~ChainRule(e.calls, TRUE) THEN "chain"
          ELSE IF x.kind = "plain" /\ ~VisitsAll(e.calls, e.tls) THEN "visit"
          ELSE IF e.sent = "mixed" THEN "mixed-response"
          ELSE IF ~SentOK(x, e.sent) THEN "sent"
          ELSE IF x.kind # "gray" /\ e.bk \notin x.bk THEN "backend"
          ELSE IF x.kind # "gray" /\ e.closed \notin x.closed THEN "closed"
          ELSE "ok"

TInit == l = 1 /\ bad = {}
TNext == /\ l <= Len(Trace) /\ l' = l + 1
         /\ LET w == Why(Ev) IN
              bad' = IF w = "ok" THEN bad ELSE bad \cup {[id |-> Ev.id, why |-> w, kind |-> Expect(Ev.calls).kind]}
Report == (l = Len(Trace) + 1) => PrintT(ToJson([done |-> TRUE, consumed |-> l - 1, bad |-> bad]))
==========================================================================
