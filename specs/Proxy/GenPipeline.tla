--------------------------- MODULE GenPipeline ---------------------------
(* Behaviour generator for C48: every complete behaviour of Pipeline is printed as one *)
(* case: the verdict plan (= the invocation history of the model), the Layer-P          *)
(* expectation (sets) and the Layer-M expectation (what the walk of the code gives).    *)
EXTENDS Pipeline, Json


ExpJ == LET e == Expect(calls) IN
        [kind |-> e.kind, sent |-> e.sent, bk |-> e.bk, closed |-> e.closed]

Emit == pc = "DONE" =>
          PrintT(ToJson([tls |-> tls, calls |-> calls, expP |-> ExpJ,
                         expM |-> [sent |-> sent, bk |-> bk, closed |-> closed]]))
==========================================================================
