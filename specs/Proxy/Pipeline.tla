---------------------------- MODULE Pipeline ----------------------------
(* C48 Layer M: the walk of conn.serve / ReverseProxy.ServeHTTP / FinishReq through  *)
(* the callback points as the code does it; TLC checks that it satisfies Layer P     *)
(* (PipelineP) for every chain and verdict sequence.                                 *)
EXTENDS PipelineP
CONSTANT MaxDev         \* bound on the number of non-GoOn verdicts in one behaviour

VARIABLES tls,       \* TLS connection? (then the handshake point exists)
          pc,        \* current point, or "BK" (backend), "END", "DONE"
          idx,       \* next filter of the chain at pc
          calls,     \* invocation history (observable)
          resp,      \* response object in hand: "none" | "backend" | "err500" | "filter:p:i"
          sent,      \* what was written to the client
          bk,        \* backend contacts
          action,    \* "keep" | "closeAfter" | "closeDirect"
          closed     \* connection closed by the server after the request
vars == <<tls, pc, idx, calls, resp, sent, bk, action, closed>>

Init == /\ tls \in BOOLEAN /\ pc = "A" /\ idx = 1 /\ calls = <<>> /\ resp = "none"
        /\ sent = "none" /\ bk = 0 /\ action = "keep" /\ closed = FALSE

NDev == Len(SelectSeq(calls, LAMBDA c : c.v # "GoOn"))

Goto(p) == pc' = p /\ idx' = 1

\* reaction of the server to the result v of the chain at point p whose last filter was i
After(p, i, v) ==
    CASE p = "A" ->
           IF v = "Close" THEN Goto("FN") /\ closed' = TRUE /\ UNCHANGED <<resp, sent, bk, action>>
           ELSE Goto(IF tls THEN "H" ELSE "BL") /\ UNCHANGED <<resp, sent, bk, action, closed>>
      [] p = "H" ->
           IF v = "Close" THEN Goto("FN") /\ closed' = TRUE /\ UNCHANGED <<resp, sent, bk, action>>
           ELSE Goto("BL") /\ UNCHANGED <<resp, sent, bk, action, closed>>
      [] p \in ReqPts ->
           CASE v = "Close"    -> Goto("RF") /\ action' = "closeDirect" /\ UNCHANGED <<resp, sent, bk, closed>>
             [] v = "Finish"   -> Goto("RF") /\ action' = "closeAfter" /\ sent' = "implicit200"
                                  /\ UNCHANGED <<resp, bk, closed>>
             [] v = "Redirect" -> Goto("RF") /\ sent' = Tag("redirect", [p |-> p, i |-> i]) /\ UNCHANGED <<resp, bk, action, closed>>
             [] v = "Response" -> Goto("RR") /\ resp' = Tag("filter", [p |-> p, i |-> i]) /\ UNCHANGED <<sent, bk, action, closed>>
             [] OTHER          -> Goto(Points[Rank(p) + 1]) /\ UNCHANGED <<resp, sent, bk, action, closed>>
      [] p = "FW" ->
           IF v = "Finish"
             THEN Goto("RR") /\ action' = "closeAfter" /\ resp' = "err500" /\ UNCHANGED <<sent, bk, closed>>
             ELSE Goto("RR") /\ bk' = bk + 1 /\ resp' = "backend" /\ UNCHANGED <<sent, action, closed>>
      [] p = "RR" ->
           CASE v = "Finish"   -> Goto("RF") /\ action' = "closeAfter" /\ sent' = "implicit200"
                                  /\ UNCHANGED <<resp, bk, closed>>
             [] v = "Redirect" -> Goto("RF") /\ sent' = Tag("redirect", [p |-> p, i |-> i]) /\ UNCHANGED <<resp, bk, action, closed>>
             [] OTHER          -> Goto("RF") /\ sent' = resp /\ UNCHANGED <<resp, bk, action, closed>>
      [] p = "RF" ->
           /\ Goto("FN")
           /\ action' = IF v = "Finish" /\ action = "keep" THEN "closeAfter" ELSE action
           /\ closed' = (action' # "keep")
           /\ UNCHANGED <<resp, sent, bk>>
      [] p = "FN" -> Goto("DONE") /\ UNCHANGED <<resp, sent, bk, action, closed>>

Filter(v) ==
    /\ pc \in PointSet
    /\ v # "GoOn" => NDev < MaxDev
    /\ calls' = Append(calls, [p |-> pc, i |-> idx, v |-> v])
    /\ UNCHANGED tls
    /\ IF v = "GoOn" /\ idx < MaxChain
         THEN idx' = idx + 1 /\ UNCHANGED <<pc, resp, sent, bk, action, closed>>
         ELSE After(pc, idx, v)

Next == \E v \in Verdicts : Filter(v)
Spec == Init /\ [][Next]_vars

-----------------------------------------------------------------------------
(* M satisfies P: checked by TLC in every state / at the end of every behaviour *)
PChain == ChainRule(calls, pc = "DONE")
PVerdict == pc = "DONE" => Satisfies(Expect(calls), SentClass(sent), bk, closed)
\* the plain behaviour visits every point
PVisit == (pc = "DONE" /\ Devs(calls) = <<>>) => VisitsAll(calls, tls)
TypeOK == /\ pc \in PointSet \cup {"DONE"} /\ idx \in 1..MaxChain /\ bk \in 0..1
          /\ action \in {"keep", "closeAfter", "closeDirect"}
=============================================================================
