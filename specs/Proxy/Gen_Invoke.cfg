CONSTANTS
  MaxRetry = 2
  Kinds = {"connect", "readhdr", "timeout", "rst"}
INIT Init
NEXT Next
INVARIANT Emit
CHECK_DEADLOCK FALSE
