CONSTANTS
  MaxRetry = 2
  Kinds = {"connect", "readhdr", "timeout"}
INIT Init
NEXT Next
INVARIANT Emit
CHECK_DEADLOCK FALSE
