CONSTANTS
  MaxChain = @CHAIN@
  MaxDev = @DEV@
INIT Init
NEXT Next
INVARIANTS Emit
CHECK_DEADLOCK FALSE
