CONSTANTS
  MaxChain = @CHAIN@
INIT TInit
NEXT TNext
INVARIANT Report
CHECK_DEADLOCK FALSE
