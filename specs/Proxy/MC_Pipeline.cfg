\* C48: all chains of MaxChain filters at all nine points, every verdict sequence
CONSTANTS
  MaxChain = @CHAIN@
  MaxDev = @DEV@
INIT Init
NEXT Next
INVARIANTS TypeOK PChain PVerdict PVisit
CHECK_DEADLOCK FALSE
