------------------------- MODULE TraceInvoke -------------------------
(* Validates executions of the real reverse proxy (in-process BFE, scripted backends,   *)
(* connection-counter hooks) against Layer P of Invoke.tla.  Events of one case:        *)
(*   req (settings, request shape), then inc/dec hook events (backend index, sub,       *)
(*   failure kind of that backend, counter value after the change) in hook order,       *)
(*   fin per request, quiet (all counters read at quiescence).                          *)
(* With conc > 1 several identical requests run at once: the per-request obligations    *)
(* (C08) are then evaluated on the per-request attempt lists logged in fin.             *)
EXTENDS Integers, Sequences, FiniteSets, TLC, Json

Tr == ndJsonDeserialize("trace.ndjson")
VARIABLES l, cfg, dead, bad
tvars == <<l, cfg, dead, bad>>
Ev == Tr[l]
Mark(why) == bad' = bad \cup {[cid |-> Ev.cid, l |-> l, why |-> why]} /\ dead' = TRUE
Keep == UNCHANGED <<bad, dead>>

AllowRetry(kind) == kind = "connect" \/ (cfg.retryGet /\ cfg.get /\ cfg.nobody)

TInit == l = 1 /\ cfg = [retryMax |-> 0, crossRetry |-> 0, retryGet |-> FALSE, get |-> TRUE, nobody |-> TRUE]
         /\ dead = FALSE /\ bad = {}
TReq == /\ Ev.ev = "req" /\ cfg' = Ev /\ dead' = FALSE /\ UNCHANGED bad
\* C07: the counter never goes negative
TCount == /\ Ev.ev \in {"inc", "dec"} /\ ~dead
          /\ (IF Ev.n < 0 THEN Mark("NegativeCount") ELSE Keep) /\ UNCHANGED cfg
\* C08 on the attempts of one request: att is a sequence of [sub, kind]
AttemptsVerdict(att) ==
    IF Len(att) > 1 + cfg.retryMax + cfg.crossRetry THEN "TooManyAttempts"
    ELSE IF \E i \in 2..Len(att) : att[i - 1].kind = "ok" THEN "ResendAfterSuccess"
    ELSE IF \E i \in 2..Len(att) : ~AllowRetry(att[i - 1].kind) THEN "UnjustifiedResend"
    ELSE IF \E i \in 1..Len(att) : i > cfg.retryMax + 1 /\ att[i].sub # "B" THEN "CrossAttemptInFirstSub"
    ELSE IF cfg.crossRetry = 0 /\ (\E i \in 1..Len(att) : att[i].sub = "B") THEN "CrossAttemptAlthoughDisabled"
    ELSE "ok"
TFin == /\ Ev.ev = "fin" /\ ~dead
        /\ LET v == IF Ev.panic THEN "panic" ELSE AttemptsVerdict(Ev.att)
           IN IF v = "ok" THEN Keep ELSE Mark(v)
        /\ UNCHANGED cfg
\* C07: back to zero when all requests have finished
TQuiet == /\ Ev.ev = "quiet" /\ ~dead
          /\ (IF \E i \in 1..Len(Ev.conns) : Ev.conns[i] # 0 THEN Mark("NonZeroAtQuiescence") ELSE Keep)
          /\ UNCHANGED cfg
TSkip == dead /\ Ev.ev # "req" /\ Keep /\ UNCHANGED cfg
TNext == l <= Len(Tr) /\ l' = l + 1 /\ (TReq \/ TCount \/ TFin \/ TQuiet \/ TSkip)
Report == (l = Len(Tr) + 1) => PrintT(ToJson([done |-> TRUE, consumed |-> l - 1, bad |-> bad]))
Accepted == TLCGet("stats").diameter - 1 = Len(Tr)
======================================================================
