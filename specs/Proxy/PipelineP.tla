---------------------------- MODULE PipelineP----------------------------
(* C48  Module callbacks run in order and verdicts are honoured.                     *)
(*                                                                                   *)
(* One client connection (plain or TLS) carrying one request through the nine        *)
(* callback points.  At every point a chain of MaxChain filters; each filter, when   *)
(* it is invoked, returns one of the five verdicts (chosen nondeterministically, so  *)
(* TLC visits every chain / verdict sequence at every point).                        *)
(*                                                                                   *)
(* Layer P (decisive) talks only about: the order in which filters are invoked, what *)
(* the client receives, whether a backend was contacted, whether the connection is   *)
(* closed.  Source: docs/en_us/development/module/bfe_callback.md                    *)
(*   GoOn: next filter; Finish: send response, then close connection; Redirect:      *)
(*   redirect directly; Response: send response; Close: close without response       *)
(* and the function types of the points (which verdicts can be expressed where).     *)
(* Layer M (diagnostic) is the walk through ReverseProxy.ServeHTTP / conn.serve.     *)
EXTENDS Integers, Sequences, FiniteSets, TLC

CONSTANTS MaxChain       \* filters per point

Points   == <<"A", "H", "BL", "FP", "AL", "FW", "RR", "RF", "FN">>
PointSet == {Points[k] : k \in 1..Len(Points)}
Verdicts == {"GoOn", "Finish", "Redirect", "Response", "Close"}
ReqPts   == {"BL", "FP", "AL"}

Rank(p) == CHOOSE k \in 1..Len(Points) : Points[k] = p

-----------------------------------------------------------------------------
(* ------------------------------ Layer P --------------------------------- *)

\* (point, verdict) pairs whose effect the documents define.  Everything else is
\* gray: the chain must still stop there, nothing more is asserted.
\*  - session points (func(session) int) have no request: only Close is meaningful
\*  - request points (func(req) (int, *Response)) can express all verdicts
\*  - forward point (func(req) int): Finish (send a response, close)
\*  - response points (func(req, res) int): Finish; ReadResponse also Redirect
Honoured(p, v) ==
    \/ p \in {"A", "H"} /\ v = "Close"
    \/ p \in ReqPts /\ v \in {"Close", "Finish", "Redirect", "Response"}
    \/ p = "FW" /\ v = "Finish"
    \/ p = "RR" /\ v \in {"Finish", "Redirect"}
    \/ p = "RF" /\ v = "Finish"

\* `calls` is the observable invocation history: <<[p, i, v], ...>>
ChainRule(calls, complete) ==
    /\ \A k \in 1..Len(calls) :                       \* points in pipeline order, indices 1,2,.. in order
         /\ k > 1 => \/ calls[k].p = calls[k-1].p /\ calls[k].i = calls[k-1].i + 1 /\ calls[k-1].v = "GoOn"
                     \/ Rank(calls[k].p) > Rank(calls[k-1].p) /\ calls[k].i = 1
                     \* the forward point is visited once per attempt (a failed connect is retried)
                     \/ /\ calls[k].p = "FW" /\ calls[k-1].p = "FW" /\ calls[k].i = 1
                        /\ (calls[k-1].v # "GoOn" \/ calls[k-1].i = MaxChain)
         /\ k = 1 => calls[k].i = 1
    /\ \A k \in 1..Len(calls) :                       \* a chain is left early only by a non-GoOn verdict
         ((k = Len(calls) /\ complete) \/ (k < Len(calls) /\ calls[k+1].p # calls[k].p)) =>
              (calls[k].v # "GoOn" \/ calls[k].i = MaxChain)

Devs(calls) == SelectSeq(calls, LAMBDA c : c.v # "GoOn" /\ c.p # "FN")

AnyOne == "ANY1"     \* exactly one complete response, whatever it is
Tag(kind, c) == kind \o ":" \o c.p \o ":" \o ToString(c.i)

\* What Layer P allows the client/backend/connection observation to be, as sets.
\*   sent  : "none" | "backend" | "filter:p:i" | "redirect:p:i" | other single response
Expect(calls) ==
    LET d == Devs(calls) IN
    IF d = <<>> THEN
        [kind |-> "plain", sent |-> {"backend"}, bk |-> {1}, closed |-> {FALSE}]
    ELSE LET c == d[1] IN
      IF Honoured(c.p, c.v) /\ c.v = "Close" THEN
        [kind |-> "close", sent |-> {"none"}, bk |-> {0}, closed |-> {TRUE}]
      ELSE IF Len(d) > 1 \/ ~Honoured(c.p, c.v) THEN
        [kind |-> "gray", sent |-> {}, bk |-> {}, closed |-> {}]
      ELSE IF c.v = "Finish" THEN
        IF c.p = "RF" THEN [kind |-> "finish", sent |-> {"backend"}, bk |-> {1}, closed |-> {TRUE}]
        ELSE IF c.p = "RR" THEN [kind |-> "finish", sent |-> {AnyOne}, bk |-> {1}, closed |-> {TRUE}]
        \* before the forward: the request is finished here (mod_waf / mod_prison block with this verdict):
        \* it must not reach a backend
        ELSE [kind |-> "finish", sent |-> {AnyOne}, bk |-> {0}, closed |-> {TRUE}]
      ELSE IF c.v = "Redirect" THEN
        [kind |-> "redirect", sent |-> {Tag("redirect", c)}, bk |-> IF c.p = "RR" THEN {1} ELSE {0},
         closed |-> {TRUE, FALSE}]
      ELSE \* Response at a request point
        [kind |-> "response", sent |-> {Tag("filter", c)}, bk |-> {0}, closed |-> {TRUE, FALSE}]

\* does an observation satisfy Layer P ?
\* "mixed": status line / headers of one response followed by body bytes of another one (e.g. a
\* redirect carrying the backend's body).  Never allowed, whatever the plan - not even in gray plans.
SentOK(e, s) == s # "mixed" /\ (e.kind = "gray" \/ s \in e.sent \/ (AnyOne \in e.sent /\ s # "none"))
Satisfies(e, s, b, cl) ==
    SentOK(e, s) /\ (e.kind = "gray" \/ (b \in e.bk /\ cl \in e.closed))

\* the plain behaviour visits every point (H only on TLS connections)
VisitsAll(calls, tls) ==
    \A p \in PointSet : (p = "H" /\ ~tls) \/ \E k \in 1..Len(calls) : calls[k].p = p

SentClass(s) == IF s \in {"implicit200", "err500"} THEN "other" ELSE s
=============================================================================
