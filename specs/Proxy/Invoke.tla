---------------------------- MODULE Invoke ----------------------------
(* C07 / C08: the retry loop of bfe_server.ReverseProxy.clusterInvoke and FinishReq.    *)
(* One action per step of the loop: Balance -> (Dec old; assign) -> HandleForward       *)
(* verdict -> Inc -> RoundTrip outcome -> classify -> maybe loop; FinishReq -> Dec.     *)
(* Several requests run concurrently against shared connection counters.                *)
(* Layer P: C07 conns[b] = number of requests in flight to b (>= 0, 0 at quiescence);   *)
(*          C08 attempts <= 1 + RetryMax + CrossRetry, a request is re-sent only after  *)
(*          a connect failure or when it is a body-less GET and RetryLevel allows it,   *)
(*          a cross attempt goes to another, non-blackhole sub-cluster.                 *)
EXTENDS Integers, Sequences, FiniteSets, TLC

CONSTANTS Reqs,          \* request ids
          Backs,         \* backend ids
          SubOf,         \* [Backs -> {"A","B"}]  A = first-choice sub-cluster, B = the other one
          RetryMax, CrossRetry,
          Kinds          \* failure kinds explored

SubOfDef == <<"A", "A", "B">>       \* model value for SubOf (cfg: SubOf <- SubOfDef)
Outcomes == Kinds \cup {"ok"}
VARIABLES conns,        \* [Backs -> Int]      BfeBackend.connNum
          pc,           \* [Reqs -> phase]
          trans,        \* [Reqs -> Backs \cup {0}]  request.Trans.Backend
          retry,        \* [Reqs -> Nat]       request.RetryTime
          iter,         \* [Reqs -> Nat]       loop counter i (< 20)
          shape,        \* [Reqs -> BOOLEAN] body-less GET and the cluster's RetryLevel allows retrying GETs
          \* history (Layer P)
          inflight,     \* [Reqs -> Backs \cup {0}] backend the request is currently counted against
          sent,         \* [Reqs -> Seq([b, kind])] attempts that reached RoundTrip
          last          \* [Reqs -> outcome of the last attempt or "none"]
vars == <<conns, pc, trans, retry, iter, shape, inflight, sent, last>>

Init == /\ conns = [b \in Backs |-> 0]
        /\ pc = [r \in Reqs |-> "balance"]
        /\ trans = [r \in Reqs |-> 0] /\ retry = [r \in Reqs |-> 0] /\ iter = [r \in Reqs |-> 0]
        /\ shape \in [Reqs -> BOOLEAN]
        /\ inflight = [r \in Reqs |-> 0] /\ sent = [r \in Reqs |-> <<>>]
        /\ last = [r \in Reqs |-> "none"]

AllowRetry(r, kind) == kind = "connect" \/ shape[r]

\* bal.Balance(request): abstract outcome, constrained by the retry budget (see Gslb.tla)
BalanceOk(r, b) ==
    /\ pc[r] = "balance" /\ iter[r] < 20
    /\ retry[r] <= RetryMax + CrossRetry
    /\ (retry[r] <= RetryMax => SubOf[b] = "A") /\ (retry[r] > RetryMax => SubOf[b] = "B")
    \* err == nil: decrement the old backend, assign the new one
    /\ conns' = IF trans[r] # 0 THEN [conns EXCEPT ![trans[r]] = @ - 1] ELSE conns
    /\ inflight' = [inflight EXCEPT ![r] = 0]
    /\ trans' = [trans EXCEPT ![r] = b]
    /\ pc' = [pc EXCEPT ![r] = "forward"]
    /\ UNCHANGED <<retry, iter, shape, sent, last>>

BalanceCrossRetry(r) ==     \* ErrBkCrossRetryBalance: RetryTime++ ; continue
    /\ pc[r] = "balance" /\ iter[r] < 20 /\ retry[r] <= RetryMax + CrossRetry /\ CrossRetry > 0
    /\ retry' = [retry EXCEPT ![r] = @ + 1] /\ iter' = [iter EXCEPT ![r] = @ + 1]
    /\ UNCHANGED <<conns, pc, trans, shape, inflight, sent, last>>

BalanceErr(r) ==            \* any other error (too many retries, no backend ...): break
    /\ pc[r] = "balance"
    /\ pc' = [pc EXCEPT ![r] = "finish"]
    /\ UNCHANGED <<conns, trans, retry, iter, shape, inflight, sent, last>>

\* HandleForward callbacks: GoOn, or Finish (return before IncConnNum)
ForwardGoOn(r) == /\ pc[r] = "forward"
                  /\ conns' = [conns EXCEPT ![trans[r]] = @ + 1]          \* backend.IncConnNum()
                  /\ inflight' = [inflight EXCEPT ![r] = trans[r]]
                  /\ pc' = [pc EXCEPT ![r] = "roundtrip"]
                  /\ UNCHANGED <<trans, retry, iter, shape, sent, last>>
ForwardFinish(r) == /\ pc[r] = "forward"
                    /\ trans' = [trans EXCEPT ![r] = 0]   \* (after the fix of C07) the unused backend is dropped
                    /\ pc' = [pc EXCEPT ![r] = "finish"]
                    /\ UNCHANGED <<conns, retry, iter, shape, inflight, sent, last>>

RoundTrip(r, o) ==
    /\ pc[r] = "roundtrip"
    /\ sent' = [sent EXCEPT ![r] = Append(@, [b |-> trans[r], kind |-> o])]
    /\ last' = [last EXCEPT ![r] = o]
    /\ IF o # "ok" /\ AllowRetry(r, o)
         THEN /\ retry' = [retry EXCEPT ![r] = @ + 1] /\ iter' = [iter EXCEPT ![r] = @ + 1]
              /\ pc' = [pc EXCEPT ![r] = "balance"]
         ELSE /\ pc' = [pc EXCEPT ![r] = "finish"] /\ UNCHANGED <<retry, iter>>
    /\ UNCHANGED <<conns, trans, shape, inflight>>

FinishReq(r) == /\ pc[r] = "finish"
                /\ conns' = IF trans[r] # 0 THEN [conns EXCEPT ![trans[r]] = @ - 1] ELSE conns
                /\ inflight' = [inflight EXCEPT ![r] = 0]
                /\ pc' = [pc EXCEPT ![r] = "done"]
                /\ UNCHANGED <<trans, retry, iter, shape, sent, last>>

Next == \E r \in Reqs :
          \/ \E b \in Backs : BalanceOk(r, b)
          \/ BalanceCrossRetry(r) \/ BalanceErr(r)
          \/ ForwardGoOn(r) \/ ForwardFinish(r)
          \/ \E o \in Outcomes : RoundTrip(r, o)
          \/ FinishReq(r)
Spec == Init /\ [][Next]_vars

------------------------------------------------------------------------
\* C07
CountOK == \A b \in Backs : conns[b] = Cardinality({r \in Reqs : inflight[r] = b})
NonNegative == \A b \in Backs : conns[b] >= 0
ZeroAtQuiescence == (\A r \in Reqs : pc[r] = "done") => \A b \in Backs : conns[b] = 0
\* C08
Bounded == \A r \in Reqs : Len(sent[r]) <= 1 + RetryMax + CrossRetry
ResendJustified == \A r \in Reqs : \A i \in 2..Len(sent[r]) :
                      sent[r][i - 1].kind # "ok" /\ AllowRetry(r, sent[r][i - 1].kind)
CrossElsewhere == \A r \in Reqs : \A i \in 1..Len(sent[r]) :
                      (i > RetryMax + 1) => SubOf[sent[r][i].b] = "B"
=======================================================================
