--------------------------- MODULE GenClientAddr ---------------------------
EXTENDS ClientAddr, Json
Emit == done => PrintT(ToJson([fam |-> fam, trusted |-> trusted, hist |-> hist, xri |-> XriVals, xrp |-> XrpVal, xff |-> XffVal,
                               cls |-> [xri |-> xri, xrp |-> xrp, xff |-> xff],
                               expP |-> ExpP, expM |-> OutM]))
============================================================================
