---------------------------- MODULE ClientAddr ----------------------------
(* C29  Client address cannot be spoofed by untrusted peers.                          *)
(*                                                                                    *)
(* Input: peer family (127.0.0.1 / ::1), is the peer in the trusted-source table,     *)
(* and which of X-Real-Ip / X-Real-Port / X-Forwarded-For the request carries, with   *)
(* which validity.  Symbolic values: PEER / PEERPORT are the socket address of the    *)
(* TCP peer (substituted by the harness).                                             *)
(* Layer P (statement of C29, docs of mod_trust_clientip / mod_header):               *)
(*   untrusted peer: the address used for conditions, and X-Real-Ip / X-Real-Port     *)
(*   sent upstream, equal the socket address whatever the headers say, and            *)
(*   X-Forwarded-For ends with the peer IP;                                           *)
(*   trusted peer with a valid X-Real-Ip (else a valid first X-Forwarded-For element):*)
(*   that address is the client address (conditions, X-Real-Ip upstream).             *)
(*   Trusted peer without a valid address header: gray (nothing asserted).            *)
(* Layer M: setClientAddr + mod_header.setDefaultHeader.                              *)
EXTENDS Integers, Sequences, FiniteSets, TLC

Fams == {"v4", "v6"}
XRIs == {"none", "v4", "v6", "bad", "multi"}      \* multi: two X-Real-Ip lines 1.2.3.4 / 5.6.7.8
XRPs == {"none", "num", "bad"}
XFFs == {"none", "one", "two", "v6", "bad"}

\* how the trusted-source table in force was reached: "fresh" = first table that decides about the peer;
\* "revoked" = an earlier table trusted the peer and a reload (data file with the SAME Version string,
\* the peer's range dropped) removed it.  The property speaks about the table in force, not its history.
Hists == {"fresh", "revoked"}
VARIABLES fam, trusted, hist, xri, xrp, xff, done
vars == <<fam, trusted, hist, xri, xrp, xff, done>>
Init == /\ fam \in Fams /\ trusted \in BOOLEAN /\ hist \in Hists /\ (hist = "revoked" => ~trusted)
        /\ xri \in XRIs /\ xrp \in XRPs /\ xff \in XFFs /\ done = FALSE
Next == ~done /\ done' = TRUE /\ UNCHANGED <<fam, trusted, hist, xri, xrp, xff>>

XriVals == CASE xri = "none" -> <<>> [] xri = "v4" -> <<"1.2.3.4">> [] xri = "v6" -> <<"2001:db8::1">>
             [] xri = "bad" -> <<"999.1.1.1">> [] OTHER -> <<"1.2.3.4", "5.6.7.8">>
XrpVal  == CASE xrp = "none" -> "" [] xrp = "num" -> "4321" [] OTHER -> "abc"
XffVal  == CASE xff = "none" -> "" [] xff = "one" -> "1.2.3.4" [] xff = "two" -> "1.2.3.4, 9.9.9.9"
             [] xff = "v6" -> "2001:db8::1" [] OTHER -> "not-an-ip"

AnyV == "*"
\* the address a trusted peer vouches for ("" = none that is valid)
Vouched == IF xri \in {"v4", "multi"} THEN "1.2.3.4" ELSE IF xri = "v6" THEN "2001:db8::1"
           ELSE IF xri = "bad" THEN ""
           ELSE IF xff \in {"one", "two"} THEN "1.2.3.4" ELSE IF xff = "v6" THEN "2001:db8::1" ELSE ""

(* ------------------------------ Layer P --------------------------------- *)
ExpP ==
    IF ~trusted THEN [realip |-> {"PEER"}, realport |-> {"PEERPORT"}, xfflast |-> {"PEER"}, cond |-> {"PEER"}]
    ELSE IF Vouched # "" /\ xri # "multi"
         THEN [realip |-> {Vouched}, realport |-> {AnyV}, xfflast |-> {AnyV}, cond |-> {Vouched}]
         ELSE [realip |-> {AnyV}, realport |-> {AnyV}, xfflast |-> {AnyV}, cond |-> {AnyV}]
In(x, S) == AnyV \in S \/ x \in S
POK(o) == In(o.realip, ExpP.realip) /\ In(o.realport, ExpP.realport) /\ In(o.xfflast, ExpP.xfflast)
          /\ In(o.cond, ExpP.cond)

(* ------------------------------ Layer M --------------------------------- *)
\* setClientAddr: trusted -> Header.Get(X-Real-Ip) else first XFF element; invalid -> no client address,
\* then mod_header leaves X-Real-* as received and conditions on the client address do not match
ClientM == IF ~trusted THEN "PEER" ELSE Vouched
OutM == [realip   |-> IF ClientM # "" THEN ClientM ELSE IF Len(XriVals) > 0 THEN XriVals[1] ELSE "",
         realport |-> IF ~trusted THEN "PEERPORT"
                      ELSE IF ClientM = "" THEN XrpVal
                      ELSE IF xri \in {"v4", "v6", "multi"} THEN (IF xrp = "num" THEN "4321" ELSE "0")
                      ELSE "0",
         xfflast  |-> "PEER",
         cond     |-> IF ClientM = "" THEN "none" ELSE ClientM]
MSatisfiesP == POK(OutM)
===========================================================================
