CONSTANTS
  Reqs = {@REQS@}
  Backs = {1, 2, 3}
  SubOf <- SubOfDef
  RetryMax = @RETRYMAX@
  CrossRetry = 1
  Kinds = {@KINDS@}
INIT Init
NEXT Next
INVARIANTS CountOK NonNegative ZeroAtQuiescence Bounded ResendJustified CrossElsewhere
CHECK_DEADLOCK FALSE
