\* C18: checks Layer M against Layer P on every case AND prints the cases
CONSTANTS
  Groups = {@GROUPS@}
  StrLen = @STRLEN@
  PatLen = @PATLEN@
  Big = @BIG@
INIT Init
NEXT Next
INVARIANTS MSatisfiesP Emit
CHECK_DEADLOCK FALSE
