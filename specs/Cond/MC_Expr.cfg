\* C16: all sentences up to MaxLen tokens, all assignments; yacc levels as in cond.y
\* (after the fix: %left LOR, %left LAND, %right NOT  =>  1, 2, 3)
CONSTANTS
  MaxLen = @MAXLEN@
  NPrim = 3
  LvlOr = @LVLOR@
  LvlAnd = @LVLAND@
  LvlNot = 3
INIT Init
NEXT Next
INVARIANTS TypeOK GenSound MSatisfiesP
CHECK_DEADLOCK FALSE
