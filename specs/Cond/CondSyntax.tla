--------------------------- MODULE CondSyntax ---------------------------
(* C17 - condition parsing and building are total and type-checked.                 *)
(*                                                                                  *)
(* Four input spaces (variable mode, chosen from constant Modes), each with the       *)
(* verdict Layer P dictates:                                                         *)
(*   "raw"    every token string over the abstract alphabet up to MaxRaw              *)
(*   "guided" grammar-directed token strings (viable prefixes) with up to MaxDev      *)
(*            arbitrary deviations, up to MaxGuided (longer than "raw" can afford)    *)
(*   "plain"  grammar-directed token strings without deviation, up to MaxPlain        *)
(*   "chars"  every character string over a small byte alphabet up to MaxChars;       *)
(*            verdict is the set {ok, error} ("any"): totality only                   *)
(* (argument shapes of calls: module CondCalls)                                       *)
(*                                                                                  *)
(* Token alphabet (concretisation in alphabet.json):                                  *)
(*   K1  name of a documented primitive with signature (STRING)                       *)
(*   K0  name of a documented primitive without parameters                            *)
(*   KX  an identifier that is not a primitive                                        *)
(*   KE  a complete, well-typed call whose argument VALUE is invalid (one token)      *)
(*   ( ) ! && || ,   S B I  string / bool / int literal    J  lexical junk            *)
(* Layer P (statement + condition_grammar.md): "ok" iff the string is a sentence of   *)
(*   CE = CE && CE | CE || CE | ( CE ) | ! CE | name(params)                          *)
(* in which every name is a known primitive called with its documented parameter      *)
(* types and valid values; everything else - junk, unknown primitives, wrong counts    *)
(* or types, bare identifiers (unresolved variables), invalid values - is "error".    *)
(* Layer M: the pipeline of the code (lex; bottom-up reductions; prototype check;      *)
(* unresolved variables) as a rewriting system, independent of the recursive descent.  *)
EXTENDS Integers, Sequences, FiniteSets, TLC

CONSTANTS Modes, MaxRaw, MaxGuided, MaxDev, MaxPlain, MaxChars

Idents == {"K1", "K0", "KX"}
Lits   == {"S", "B", "I"}
BinOps == {"&&", "||"}
TokAlphabet == Idents \cup Lits \cup BinOps \cup {"KE", "(", ")", "!", ",", "J"}
CharAlphabet == {"DQ", "BQ", "BS", "a", "LP", "RP", "AMP", "BAR", "NOT", "COMMA", "SP", "0", "x", "SL", "NL"}

SigOf(id) == IF id = "K1" THEN <<"S">> ELSE IF id = "K0" THEN <<>> ELSE <<"no such primitive">>
Range(s) == {s[k] : k \in 1..Len(s)}

------------------------------------------------------------------------
(* Layer P: recursive descent.  Result [ok: syntax, sem: semantics, i: next position] *)
Fail == [ok |-> FALSE, sem |-> FALSE, i |-> 0]
RECURSIVE RArgs(_, _, _), RExpr(_, _), RLoop(_, _), RTerm(_, _)
\* j points at an expected literal; returns the literal types in field sem's place
RArgs(ts, j, acc) ==
  IF j > Len(ts) \/ ts[j] \notin Lits THEN [ok |-> FALSE, types |-> <<>>, i |-> 0]
  ELSE IF j + 1 <= Len(ts) /\ ts[j+1] = ")" THEN [ok |-> TRUE, types |-> Append(acc, ts[j]), i |-> j + 2]
  ELSE IF j + 1 <= Len(ts) /\ ts[j+1] = "," THEN RArgs(ts, j + 2, Append(acc, ts[j]))
  ELSE [ok |-> FALSE, types |-> <<>>, i |-> 0]
RTerm(ts, i) ==
  IF i > Len(ts) THEN Fail
  ELSE IF ts[i] = "!" THEN RTerm(ts, i + 1)
  ELSE IF ts[i] = "KE" THEN [ok |-> TRUE, sem |-> FALSE, i |-> i + 1]
  ELSE IF ts[i] = "(" THEN
         LET r == RExpr(ts, i + 1) IN
           IF r.ok /\ r.i <= Len(ts) /\ ts[r.i] = ")" THEN [r EXCEPT !.i = r.i + 1] ELSE Fail
  ELSE IF ts[i] \in Idents THEN
         IF i + 1 <= Len(ts) /\ ts[i+1] = "(" THEN
              IF i + 2 <= Len(ts) /\ ts[i+2] = ")" THEN [ok |-> TRUE, sem |-> SigOf(ts[i]) = <<>>, i |-> i + 3]
              ELSE LET a == RArgs(ts, i + 2, <<>>) IN
                     IF a.ok THEN [ok |-> TRUE, sem |-> SigOf(ts[i]) = a.types, i |-> a.i] ELSE Fail
         ELSE [ok |-> TRUE, sem |-> FALSE, i |-> i + 1]          \* a variable: unresolved in Build
  ELSE Fail
RLoop(ts, lhs) ==
  IF lhs.i <= Len(ts) /\ ts[lhs.i] \in BinOps THEN
       LET r == RTerm(ts, lhs.i + 1) IN
         IF r.ok THEN RLoop(ts, [ok |-> TRUE, sem |-> lhs.sem /\ r.sem, i |-> r.i]) ELSE Fail
  ELSE lhs
RExpr(ts, i) == LET t == RTerm(ts, i) IN IF t.ok THEN RLoop(ts, t) ELSE Fail

VerdictP(ts) ==
  IF "J" \in Range(ts) THEN "error"
  ELSE LET r == RExpr(ts, 1) IN IF r.ok /\ r.i = Len(ts) + 1 /\ r.sem THEN "ok" ELSE "error"

\* examples of the documents (tokenised) and the cases the statement names
ASSUME /\ VerdictP(<<"K1", "(", "S", ")">>) = "ok"                                  \* req_host_in("...")
       /\ VerdictP(<<"K1", "(", "S", ")", "&&", "K1", "(", "S", ")">>) = "ok"      \* ... && req_method_in("GET")
       /\ VerdictP(<<"K0", "(", ")">>) = "ok"                                        \* req_proto_secure()
       /\ VerdictP(<<"!", "(", "K0", "(", ")", "||", "K1", "(", "S", ")", ")">>) = "ok"
       /\ VerdictP(<<"KX", "(", "S", ")">>) = "error"                                \* unknown primitive
       /\ VerdictP(<<"K1", "(", ")">>) = "error" /\ VerdictP(<<"K1", "(", "S", ",", "S", ")">>) = "error"  \* count
       /\ VerdictP(<<"K1", "(", "B", ")">>) = "error" /\ VerdictP(<<"K0", "(", "S", ")">>) = "error"       \* type
       /\ VerdictP(<<"KX", "&&", "K0", "(", ")">>) = "error"                         \* unresolved variable
       /\ VerdictP(<<"K0", "(", ")", "||", "KE">>) = "error"                         \* invalid argument value
       /\ VerdictP(<<>>) = "error" /\ VerdictP(<<"K0", "(", ")", "&&">>) = "error"

------------------------------------------------------------------------
(* Layer M: lexer, then bottom-up reductions on a sentential form over                *)
(*   "E" good atom, "X" atom with a semantic error, ! ( ) && ||, "BAD" stray token.   *)
RECURSIVE Collapse(_, _, _), CallEnd(_, _, _)
\* position after the ")" of a well-formed argument list starting at j (first literal), 0 if malformed
CallEnd(ts, j, acc) ==
  IF j > Len(ts) \/ ts[j] \notin Lits THEN [i |-> 0, types |-> <<>>]
  ELSE IF j + 1 <= Len(ts) /\ ts[j+1] = ")" THEN [i |-> j + 2, types |-> Append(acc, ts[j])]
  ELSE IF j + 1 <= Len(ts) /\ ts[j+1] = "," THEN CallEnd(ts, j + 2, Append(acc, ts[j]))
  ELSE [i |-> 0, types |-> <<>>]
Collapse(ts, i, out) ==
  IF i > Len(ts) THEN out
  ELSE IF ts[i] = "KE" THEN Collapse(ts, i + 1, Append(out, "X"))
  ELSE IF ts[i] \in Idents THEN
         IF i + 1 <= Len(ts) /\ ts[i+1] = "(" THEN
              IF i + 2 <= Len(ts) /\ ts[i+2] = ")" THEN
                   Collapse(ts, i + 3, Append(out, IF SigOf(ts[i]) = <<>> THEN "E" ELSE "X"))   \* prototypeCheck
              ELSE LET c == CallEnd(ts, i + 2, <<>>) IN
                     IF c.i = 0 THEN Append(out, "BAD")
                     ELSE Collapse(ts, c.i, Append(out, IF SigOf(ts[i]) = c.types THEN "E" ELSE "X"))
         ELSE Collapse(ts, i + 1, Append(out, "X"))                 \* collectVariable -> unresolved
  ELSE IF ts[i] \in Lits \cup {","} THEN Append(out, "BAD")
  ELSE Collapse(ts, i + 1, Append(out, ts[i]))
IsAtom(x) == x \in {"E", "X"}
Both(x, y) == IF x = "E" /\ y = "E" THEN "E" ELSE "X"
Splice(s, from, to, x) == SubSeq(s, 1, from - 1) \o <<x>> \o SubSeq(s, to + 1, Len(s))
RECURSIVE Reduce(_)
Reduce(s) ==
  IF \E k \in 1..(Len(s) - 1) : s[k] = "!" /\ IsAtom(s[k+1]) THEN
       LET k == CHOOSE k \in 1..(Len(s) - 1) : s[k] = "!" /\ IsAtom(s[k+1]) IN Reduce(Splice(s, k, k + 1, s[k+1]))
  ELSE IF \E k \in 1..(Len(s) - 2) : s[k] = "(" /\ IsAtom(s[k+1]) /\ s[k+2] = ")" THEN
       LET k == CHOOSE k \in 1..(Len(s) - 2) : s[k] = "(" /\ IsAtom(s[k+1]) /\ s[k+2] = ")" IN
         Reduce(Splice(s, k, k + 2, s[k+1]))
  ELSE IF \E k \in 1..(Len(s) - 2) : IsAtom(s[k]) /\ s[k+1] \in BinOps /\ IsAtom(s[k+2]) THEN
       LET k == CHOOSE k \in 1..(Len(s) - 2) : IsAtom(s[k]) /\ s[k+1] \in BinOps /\ IsAtom(s[k+2]) IN
         Reduce(Splice(s, k, k + 2, Both(s[k], s[k+2])))
  ELSE s
VerdictM(ts) ==
  IF "J" \in Range(ts) THEN "error"                                   \* scanner / lexer error
  ELSE LET f == Reduce(Collapse(ts, 1, <<>>)) IN IF f = <<"E">> THEN "ok" ELSE "error"

------------------------------------------------------------------------
VARIABLES mode,     \* which input space this behaviour enumerates
          toks,     \* the string so far
          st, d,    \* guided / plain: parser situation and open group parentheses
          dev       \* guided: deviations used
vars == <<mode, toks, st, d, dev>>

MaxLen == CASE mode = "raw" -> MaxRaw [] mode = "guided" -> MaxGuided [] mode = "plain" -> MaxPlain [] mode = "chars" -> MaxChars
Alphabet == IF mode = "chars" THEN CharAlphabet ELSE TokAlphabet

\* guided modes: tokens the grammar allows next in situation s, with the situation they lead to
\*   E operand expected; A after an operand; I after an identifier; C0 after the "(" of a call;
\*   CL after a literal in a call; CC after a comma in a call
Viable(s, dd) ==
  CASE s = "E"  -> {<<t, "I", dd>> : t \in Idents} \cup {<<"KE", "A", dd>>, <<"(", "E", dd + 1>>, <<"!", "E", dd>>}
    [] s = "I"  -> {<<"(", "C0", dd>>} \cup {<<t, "E", dd>> : t \in BinOps}
                     \cup (IF dd > 0 THEN {<<")", "A", dd - 1>>} ELSE {})
    [] s = "A"  -> {<<t, "E", dd>> : t \in BinOps} \cup (IF dd > 0 THEN {<<")", "A", dd - 1>>} ELSE {})
    [] s = "C0" -> {<<t, "CL", dd>> : t \in Lits} \cup {<<")", "A", dd>>}
    [] s = "CL" -> {<<",", "CC", dd>>, <<")", "A", dd>>}
    [] s = "CC" -> {<<t, "CL", dd>> : t \in Lits}
Situations == {"E", "A", "I", "C0", "CL", "CC"}

Init == mode \in Modes /\ toks = <<>> /\ st = "E" /\ d = 0 /\ dev = 0
NextRaw == /\ mode \in {"raw", "chars"}
           /\ \E t \in Alphabet : toks' = Append(toks, t)
           /\ UNCHANGED <<st, d, dev>>
NextGuided ==
  /\ mode \in {"guided", "plain"}
  /\ \/ \E v \in Viable(st, d) : toks' = Append(toks, v[1]) /\ st' = v[2] /\ d' = v[3] /\ dev' = dev
     \/ /\ mode = "guided" /\ dev < MaxDev
        /\ \E t \in TokAlphabet : t \notin {v[1] : v \in Viable(st, d)} /\ toks' = Append(toks, t)
        /\ st' \in {st, "E", "A"} /\ d' = d /\ dev' = dev + 1    \* inserted / substituted token
Next == Len(toks) < MaxLen /\ (NextRaw \/ NextGuided) /\ UNCHANGED mode

Verdict == IF mode = "chars" THEN "any" ELSE VerdictP(toks)
MSatisfiesP == mode # "chars" => VerdictM(toks) = VerdictP(toks)
TypeOK == mode \in Modes /\ toks \in Seq(Alphabet) /\ st \in Situations /\ d \in 0..MaxLen /\ dev \in 0..MaxDev
========================================================================
