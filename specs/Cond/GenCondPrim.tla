--------------------------- MODULE GenCondPrim ---------------------------
EXTENDS CondPrim, Json
Emit == PrintT(ToJson([g |-> c.g] @@ TheCase))
==========================================================================
