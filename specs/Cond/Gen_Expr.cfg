\* C16 generator: the same state space as MC_Expr.cfg; checks the invariants AND prints the cases
CONSTANTS
  MaxLen = @MAXLEN@
  NPrim = 3
  LvlOr = @LVLOR@
  LvlAnd = @LVLAND@
  LvlNot = 3
INIT Init
NEXT Next
INVARIANTS TypeOK GenSound MSatisfiesP Emit
CHECK_DEADLOCK FALSE
