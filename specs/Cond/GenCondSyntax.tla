--------------------------- MODULE GenCondSyntax ---------------------------
EXTENDS CondSyntax, Json
Emit == PrintT(ToJson([kind |-> Mode, toks |-> toks, expect |-> Verdict]))
============================================================================
