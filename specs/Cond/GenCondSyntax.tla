--------------------------- MODULE GenCondSyntax ---------------------------
EXTENDS CondSyntax, Json
Emit == PrintT(ToJson([kind |-> mode, toks |-> toks, expect |-> Verdict]))
============================================================================
