--------------------------- MODULE CondCalls ---------------------------
(* C17 - argument shapes of primitive calls: (primitive, argument list) -> ok | error | gray *)
(*                                                                                  *)
(* DocSig transcribes docs/en_us/condition/condition_primitive_index.md and the       *)
(* parameter tables of request/*.md, session/*.md, response/*.md, system/time.md:      *)
(* per primitive the parameter KINDS; the TYPE of a kind is BOOL for "bool" and        *)
(* STRING for everything else.  UndocSig lists the primitives that exist in            *)
(* parser/semant.go:funcProtos but in no document: enumerated, never judged (gray).    *)
(* The plugin cross-checks both tables against the real funcProtos at run time.        *)
(*                                                                                  *)
(* Layer P (statement): a call is "ok" iff the argument count and types are the         *)
(* documented ones and every STRING argument has a valid value for its kind; a wrong     *)
(* count or type, or an invalid IP / regexp / hash range / time is "error".  Shapes the   *)
(* documents do not decide (class marked G) are "gray": replayed for panics only.        *)
EXTENDS Integers, Sequences, FiniteSets, TLC

CONSTANT MaxArgs      \* longest argument list tried (documented maximum is 3)

S3   == <<"str", "str", "bool">>
H3   == <<"str", "hash", "bool">>
IPR  == <<"ipA", "ipB">>
DocSig == [
  req_cip_hash_in |-> <<"hash">>, req_cip_range |-> IPR, req_cip_trusted |-> <<>>,
  req_cookie_key_in |-> <<"str">>, req_cookie_value_contain |-> S3, req_cookie_value_in |-> S3,
  req_cookie_value_hash_in |-> H3, req_cookie_value_prefix_in |-> S3, req_cookie_value_suffix_in |-> S3,
  req_header_key_in |-> <<"str">>, req_header_value_contain |-> S3, req_header_value_in |-> S3,
  req_header_value_hash_in |-> H3, req_header_value_prefix_in |-> S3, req_header_value_suffix_in |-> S3,
  req_host_in |-> <<"host">>, req_method_in |-> <<"str">>, req_proto_secure |-> <<>>,
  req_tag_match |-> <<"str", "str">>,
  req_path_in |-> <<"str", "bool">>, req_path_contain |-> <<"str", "bool">>,
  req_path_prefix_in |-> <<"str", "bool">>, req_path_element_prefix_in |-> <<"str", "bool">>,
  req_path_suffix_in |-> <<"str", "bool">>,
  req_query_key_in |-> <<"str">>, req_query_key_prefix_in |-> <<"str">>,
  req_query_value_in |-> S3, req_query_value_hash_in |-> H3,
  req_query_value_prefix_in |-> S3, req_query_value_suffix_in |-> S3,
  req_port_in |-> <<"str">>, req_url_regmatch |-> <<"regexp">>,
  req_vip_in |-> <<"iplist">>, req_vip_range |-> IPR,
  res_code_in |-> <<"str">>, res_header_key_in |-> <<"str">>, res_header_value_in |-> S3,
  ses_sip_range |-> IPR, ses_vip_range |-> IPR,
  ses_tls_sni_in |-> <<"str">>, ses_tls_client_auth |-> <<>>, ses_tls_client_ca_in |-> <<"str">>,
  bfe_time_range |-> <<"timeA", "timeB">>,
  bfe_periodic_time_range |-> <<"todA", "todB", "period">> ]

UndocSig == [
  default_t |-> <<>>, req_proto_match |-> <<"str">>, req_host_regmatch |-> <<"regexp">>,
  req_host_tag_in |-> <<"str">>, req_host_suffix_in |-> <<"str">>, req_path_regmatch |-> <<"regexp">>,
  req_query_exist |-> <<>>, req_query_value_regmatch |-> <<"str", "regexp">>,
  req_query_value_contain |-> S3, req_ua_regmatch |-> <<"regexp">>,
  req_header_value_regmatch |-> <<"str", "regexp">>, req_context_value_in |-> S3 ]

DocPrims   == DOMAIN DocSig
UndocPrims == DOMAIN UndocSig
SigOf(p)   == IF p \in DocPrims THEN DocSig[p] ELSE UndocSig[p]
TypeOf(k)  == IF k = "bool" THEN "B" ELSE "S"
Types(sig) == [j \in 1..Len(sig) |-> TypeOf(sig[j])]

\* value classes of a kind: "V" valid, "I" invalid (must be rejected), "G" documents silent
Classes(k) ==
  CASE k = "str"    -> [plain |-> "V"]
    [] k = "host"   -> [plain |-> "V", withport |-> "G"]
    [] k = "regexp" -> [ok |-> "V", bad |-> "I"]
    [] k = "hash"   -> [one |-> "V", range |-> "V", list |-> "V", eq |-> "V", max |-> "V",
                        rev |-> "I", over |-> "I", neg |-> "I", alpha |-> "I", empty |-> "I",
                        three |-> "I", overrange |-> "I", spaced |-> "G"]
    [] k \in {"ipA", "ipB"} -> [lo4 |-> "V", hi4 |-> "V", lo6 |-> "V", hi6 |-> "V", bad |-> "I", empty |-> "I"]
    [] k = "iplist" -> [v4 |-> "V", v6 |-> "V", mix |-> "V", bad |-> "I", onebad |-> "I", empty |-> "I", spaced |-> "G"]
    [] k \in {"timeA", "timeB"} ->
                       [t1 |-> "V", t2 |-> "V", short |-> "I", spaced |-> "I", nozone |-> "I", badzone |-> "I",
                        alpha |-> "I", empty |-> "I", badmonth |-> "I", lowerzone |-> "G"]
    [] k \in {"todA", "todB"} ->
                       [t1 |-> "V", t2 |-> "V", short |-> "I", sp1 |-> "I", sp6 |-> "I", nozone |-> "I",
                        badzone |-> "I", hour25 |-> "I", empty |-> "I", alpha |-> "I",
                        lowerzone |-> "G", otherzone |-> "G"]
    [] k = "period" -> [empty |-> "V", day |-> "G"]
    [] k = "bool"   -> [b |-> "V"]
ClassNames(k) == DOMAIN Classes(k)
\* the class used for a STRING argument when the call is ill-typed anyway
Canon(k) == CASE k \in {"str", "host"} -> "plain" [] k = "regexp" -> "ok" [] k = "hash" -> "one"
              [] k \in {"ipA", "ipB"} -> "lo4" [] k = "iplist" -> "v4" [] k \in {"timeA", "timeB", "todA", "todB"} -> "t1"
              [] k = "period" -> "empty" [] k = "bool" -> "b"

\* joint conditions of two-argument ranges: "V" ordered, "G" documents silent (reversed range,
\* mixed address families, different zones)
Fam(c) == IF c \in {"lo4", "hi4"} THEN 4 ELSE 6
Joint(sig, cs) ==
  IF Len(sig) >= 2 /\ sig[1] = "ipA" THEN
       (IF Fam(cs[1]) # Fam(cs[2]) THEN "G"
        ELSE IF cs[1] \in {"hi4", "hi6"} /\ cs[2] \in {"lo4", "lo6"} THEN "G" ELSE "V")
  ELSE IF Len(sig) >= 2 /\ sig[1] \in {"timeA", "todA"} THEN
       (IF cs[1] = "t2" /\ cs[2] = "t1" THEN "G" ELSE "V")
  ELSE "V"

\* verdict of a well-typed call with value classes cs
ValueVerdict(sig, cs) ==
  LET marks == {Classes(sig[j])[cs[j]] : j \in 1..Len(sig)} IN
    IF "I" \in marks THEN "error"          \* an invalid value must be rejected whatever the rest is
    ELSE IF "G" \in marks THEN "gray"
    ELSE IF Joint(sig, cs) = "G" THEN "gray" ELSE "ok"

------------------------------------------------------------------------
VARIABLE c      \* the case: [prim, args: Seq([t, k, c]), expect]
vars == <<c>>

TypeVectors == UNION {[1..n -> {"S", "B", "I"}] : n \in 0..MaxArgs}
Arg(t, k, cl) == [t |-> t, k |-> k, c |-> cl]
\* ill-typed call (wrong count or a wrong type somewhere): canonical values
IllTyped(p, tv) ==
  LET sig == SigOf(p) IN
    [prim |-> p,
     args |-> [j \in 1..Len(tv) |->
                 IF tv[j] = "S" THEN Arg("S", IF j <= Len(sig) /\ TypeOf(sig[j]) = "S" THEN sig[j] ELSE "str",
                                          IF j <= Len(sig) /\ TypeOf(sig[j]) = "S" THEN Canon(sig[j]) ELSE "plain")
                 ELSE Arg(tv[j], "lit", "lit")],
     expect |-> IF p \in DocPrims THEN "error" ELSE "gray"]
WellTyped(p, cs) ==
  LET sig == SigOf(p) IN
    [prim |-> p,
     args |-> [j \in 1..Len(sig) |-> Arg(TypeOf(sig[j]), sig[j], cs[j])],
     expect |-> IF p \in DocPrims THEN ValueVerdict(sig, cs) ELSE "gray"]
ClassVectors(sig) == {cs \in [1..Len(sig) -> UNION {ClassNames(sig[j]) : j \in 1..Len(sig)}] :
                        \A j \in 1..Len(sig) : cs[j] \in ClassNames(sig[j])}

Init ==
  \E p \in DocPrims \cup UndocPrims :
    \/ \E tv \in TypeVectors : tv # Types(SigOf(p)) /\ c = IllTyped(p, tv)
    \/ \E cs \in ClassVectors(SigOf(p)) : c = WellTyped(p, cs)
Next == UNCHANGED c

\* documents' own examples (classes of their literals) and the statement's error list
ASSUME /\ ValueVerdict(DocSig.req_cip_range, <<"lo4", "hi4">>) = "ok"            \* ("10.0.0.1", "10.0.0.10")
       /\ ValueVerdict(DocSig.req_cip_hash_in, <<"list">>) = "ok"                \* ("100-200|1000-1000")
       /\ ValueVerdict(DocSig.req_header_value_hash_in, <<"plain", "list", "b">>) = "ok"
       /\ ValueVerdict(DocSig.bfe_time_range, <<"t1", "t2">>) = "ok"             \* ("20190204203000H", "20190204204500H")
       /\ ValueVerdict(DocSig.bfe_periodic_time_range, <<"t1", "t2", "empty">>) = "ok"   \* ("203000H", "204500H", "")
       /\ ValueVerdict(DocSig.req_url_regmatch, <<"ok">>) = "ok"
       /\ ValueVerdict(DocSig.req_vip_in, <<"v4">>) = "ok"
       /\ ValueVerdict(DocSig.req_cip_range, <<"lo4", "bad">>) = "error"
       /\ ValueVerdict(DocSig.bfe_periodic_time_range, <<"sp1", "sp1", "empty">>) = "error"
       /\ ValueVerdict(DocSig.req_cip_hash_in, <<"rev">>) = "error"
       /\ ValueVerdict(DocSig.req_url_regmatch, <<"bad">>) = "error"
       /\ Cardinality(DocPrims) = 44 /\ DocPrims \cap UndocPrims = {}

\* Layer M: the two stages of the code - prototypeCheck (count, then types, by position) and the
\* per-primitive constructor (each STRING argument parsed on its own, then range order) - must give
\* the Layer-P verdict wherever Layer P is decisive.
ProtoCheck(p, args) ==
  LET ty == Types(SigOf(p)) IN
    Len(args) = Len(ty) /\ \A j \in 1..Len(ty) : args[j].t = ty[j]
Construct(p, args) ==         \* TRUE = every per-argument parser and the range-order check succeed
  LET sig == SigOf(p) IN
    /\ \A j \in 1..Len(sig) : Classes(sig[j])[args[j].c] # "I"
    /\ Joint(sig, [j \in 1..Len(sig) |-> args[j].c]) = "V"
VerdictM == IF ProtoCheck(c.prim, c.args) /\ Construct(c.prim, c.args) THEN "ok" ELSE "error"
MSatisfiesP == c.expect # "gray" => VerdictM = c.expect
========================================================================
