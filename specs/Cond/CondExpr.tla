--------------------------- MODULE CondExpr ---------------------------
(* C16 - condition expressions evaluate with the documented precedence.             *)
(*                                                                                  *)
(* Source: docs/en_us/condition/condition_grammar.md (same table in zh_cn):          *)
(*     CE = CE && CE | CE || CE | ( CE ) | ! CE | ConditionPrimitive                  *)
(*     precedence 1 ()  left-to-right ; 2 !  right-to-left ;                          *)
(*                3 &&  left-to-right ; 4 || left-to-right   (1 binds tightest)       *)
(*                                                                                  *)
(* Layer P: a reference evaluator (precedence climbing) that reads the documented    *)
(*          table as data (DocPrec).  Only token strings and truth values appear.    *)
(* Layer M: the mechanism of the code: a yacc-style shift/reduce machine whose        *)
(*          shift/reduce conflicts are resolved by the %left/%right declaration       *)
(*          levels of bfe_basic/condition/parser/cond.y (constants LvlOr, LvlAnd,     *)
(*          LvlNot: a later declaration = a higher level = binds tighter).           *)
(* TLC enumerates every token string up to MaxLen that the grammar accepts (built     *)
(* token by token through viable prefixes) and every truth assignment.               *)
EXTENDS Integers, Sequences, FiniteSets, TLC

CONSTANTS MaxLen,      \* longest token string
          NPrim,       \* number of distinct primitives p1..pN (1..3)
          LvlOr, LvlAnd, LvlNot   \* Layer M: yacc precedence levels as declared in cond.y

AllPrims == <<"p1", "p2", "p3">>
Prims    == {AllPrims[k] : k \in 1..NPrim}
BinOps   == {"&&", "||"}
Tokens   == Prims \cup BinOps \cup {"!", "(", ")"}

PrimIdx(t) == CHOOSE k \in 1..NPrim : AllPrims[k] = t
Pow2(k)    == IF k = 0 THEN 1 ELSE IF k = 1 THEN 2 ELSE IF k = 2 THEN 4 ELSE 8
Assignments == 0..(Pow2(NPrim) - 1)
\* truth of primitive t under assignment a (bit k-1 of a)
Val(t, a) == ((a \div Pow2(PrimIdx(t) - 1)) % 2) = 1
\* An expression denotes the SET of assignments under which it is true (one parse evaluates
\* the whole truth table): primitive -> TrueSet, && -> intersection, || -> union, ! -> complement.
TrueSets   == [t \in Prims |-> {a \in Assignments : Val(t, a)}]     \* constant, evaluated once
TrueSet(t) == TrueSets[t]
Apply(op, x, y) == IF op = "&&" THEN x \cap y ELSE x \cup y
Neg(x) == Assignments \ x

------------------------------------------------------------------------
(* Layer P: the documented table, as data                                            *)
DocPrec == [paren |-> 1, not |-> 2, and |-> 3, or |-> 4]     \* 1 = binds tightest
Loosest == 4
BinPrec(op) == IF op = "&&" THEN DocPrec.and ELSE DocPrec.or

Fail == [ok |-> FALSE, v |-> {}, i |-> 0]

RECURSIVE PExpr(_, _, _), PLoop(_, _, _, _), PUnary(_, _)
\* an operand: primitive, parenthesised expression (level 1) or !operand (level 2, right-to-left)
PUnary(ts, i) ==
  IF i > Len(ts) THEN Fail
  ELSE IF ts[i] = "!" THEN
         LET r == PExpr(ts, i + 1, DocPrec.not) IN
           IF r.ok THEN [r EXCEPT !.v = Neg(r.v)] ELSE Fail
  ELSE IF ts[i] = "(" THEN
         LET r == PExpr(ts, i + 1, Loosest) IN
           IF r.ok /\ r.i <= Len(ts) /\ ts[r.i] = ")" THEN [r EXCEPT !.i = r.i + 1] ELSE Fail
  ELSE IF ts[i] \in Prims THEN [ok |-> TRUE, v |-> TrueSet(ts[i]), i |-> i + 1]
  ELSE Fail
\* left-to-right chain of binary operators that bind at least as tightly as maxp
PLoop(ts, lhs, i, maxp) ==
  IF i <= Len(ts) /\ ts[i] \in BinOps /\ BinPrec(ts[i]) <= maxp THEN
       LET op == ts[i]
           r  == PExpr(ts, i + 1, BinPrec(op) - 1) IN      \* right operand: tighter ops only
         IF r.ok THEN PLoop(ts, [ok |-> TRUE, v |-> Apply(op, lhs.v, r.v), i |-> r.i], r.i, maxp)
         ELSE Fail
  ELSE lhs
PExpr(ts, i, maxp) ==
  LET u == PUnary(ts, i) IN IF u.ok THEN PLoop(ts, u, u.i, maxp) ELSE Fail

ParseP(ts)    == PExpr(ts, 1, Loosest)
AcceptP(ts)   == LET r == ParseP(ts) IN r.ok /\ r.i = Len(ts) + 1
EvalSetP(ts)  == ParseP(ts).v                       \* assignments under which ts is true
EvalP(ts, a)  == a \in EvalSetP(ts)
TruthTable(ts) == LET s == EvalSetP(ts) IN [k \in 1..Pow2(NPrim) |-> (k - 1) \in s]

\* the documentation's own statements, as a guard against transcription slips
A3 == 0..7
V(k, a) == ((a \div Pow2(k - 1)) % 2) = 1
ASSUME NPrim = 3 =>
  /\ \A a \in A3 : EvalP(<<"p1", "&&", "p2">>, a) = (V(1, a) /\ V(2, a))      \* req_host_in(..) && req_method_in(..)
  /\ \A a \in A3 : EvalP(<<"p1", "||", "p2", "&&", "p3">>, a) = (V(1, a) \/ (V(2, a) /\ V(3, a)))   \* && (3) before || (4)
  /\ \A a \in A3 : EvalP(<<"p1", "&&", "p2", "||", "p3">>, a) = ((V(1, a) /\ V(2, a)) \/ V(3, a))
  /\ \A a \in A3 : EvalP(<<"!", "p1", "&&", "p2">>, a) = ((~V(1, a)) /\ V(2, a))                  \* ! (2) before && (3)
  /\ \A a \in A3 : EvalP(<<"!", "p1", "||", "p2">>, a) = ((~V(1, a)) \/ V(2, a))
  /\ \A a \in A3 : EvalP(<<"!", "(", "p1", "||", "p2", ")">>, a) = ~(V(1, a) \/ V(2, a))          \* () (1) first
  /\ \A a \in A3 : EvalP(<<"(", "p1", "||", "p2", ")", "&&", "p3">>, a) = ((V(1, a) \/ V(2, a)) /\ V(3, a))
  /\ \A a \in A3 : EvalP(<<"!", "!", "p1">>, a) = V(1, a)                                          \* ! right-to-left
  /\ ~AcceptP(<<"p1", "&&">>) /\ ~AcceptP(<<"(", "p1">>) /\ ~AcceptP(<<"p1", "p2">>) /\ ~AcceptP(<<>>)

------------------------------------------------------------------------
(* Layer M: yacc shift/reduce with precedence declarations.                          *)
(* Stack items are records [k, s]: k = "v" for a reduced expr (s = the set of         *)
(* assignments making it true), otherwise k is the operator / parenthesis token.     *)
Lvl(op)   == IF op = "&&" THEN LvlAnd ELSE IF op = "||" THEN LvlOr ELSE LvlNot
IsVal(x)  == x.k = "v"
Item(k)   == [k |-> k, s |-> {}]
ValItem(s) == [k |-> "v", s |-> s]
\* rule `expr: expr OP expr` (level of OP, %left) against lookahead la
ReduceBin(op, la) == \/ la \in {")", "$"}
                     \/ la \in BinOps /\ Lvl(op) >= Lvl(la)        \* equal level: %left => reduce
\* rule `expr: NOT expr` (level of NOT, %right) against lookahead la
ReduceNot(la)     == \/ la \in {")", "$"}
                     \/ la \in BinOps /\ LvlNot > Lvl(la)
Pop(st, n) == SubSeq(st, 1, Len(st) - n)
Reject == [ok |-> FALSE, v |-> {}]

RECURSIVE SR(_, _, _)
SR(ts, st, i) ==
  LET la == IF i <= Len(ts) THEN ts[i] ELSE "$"
      n  == Len(st) IN
  IF n >= 3 /\ IsVal(st[n]) /\ st[n-1].k \in BinOps /\ IsVal(st[n-2]) /\ ReduceBin(st[n-1].k, la) THEN
       SR(ts, Append(Pop(st, 3), ValItem(Apply(st[n-1].k, st[n-2].s, st[n].s))), i)
  ELSE IF n >= 2 /\ IsVal(st[n]) /\ st[n-1].k = "!" /\ ReduceNot(la) THEN
       SR(ts, Append(Pop(st, 2), ValItem(Neg(st[n].s))), i)
  ELSE IF n >= 3 /\ st[n].k = ")" /\ IsVal(st[n-1]) /\ st[n-2].k = "(" THEN
       SR(ts, Append(Pop(st, 3), st[n-1]), i)
  ELSE IF la = "$" THEN
       (IF n = 1 /\ IsVal(st[1]) THEN [ok |-> TRUE, v |-> st[1].s] ELSE Reject)
  ELSE IF la \in Prims THEN
       (IF n > 0 /\ (IsVal(st[n]) \/ st[n].k = ")") THEN Reject
        ELSE SR(ts, Append(st, ValItem(TrueSet(la))), i + 1))
  ELSE IF la \in {"(", "!"} THEN
       (IF n > 0 /\ (IsVal(st[n]) \/ st[n].k = ")") THEN Reject
        ELSE SR(ts, Append(st, Item(la)), i + 1))
  ELSE \* binary operator or ")" : needs a value on top
       (IF n > 0 /\ IsVal(st[n]) THEN SR(ts, Append(st, Item(la)), i + 1) ELSE Reject)
EvalM(ts) == SR(ts, <<>>, 1)

------------------------------------------------------------------------
(* State space: viable prefixes of the grammar.                                      *)
VARIABLES toks, d        \* token string so far, open parentheses
vars == <<toks, d>>

WantOperand(ts) == ts = <<>> \/ ts[Len(ts)] \in BinOps \cup {"(", "!"}
Complete        == toks # <<>> /\ d = 0 /\ ~WantOperand(toks)

Init == toks = <<>> /\ d = 0
Next ==
  /\ Len(toks) < MaxLen
  /\ \E t \in Tokens :
       /\ IF WantOperand(toks) THEN t \in Prims \cup {"(", "!"}
          ELSE t \in BinOps \cup (IF d > 0 THEN {")"} ELSE {})
       /\ toks' = Append(toks, t)
       /\ d' = IF t = "(" THEN d + 1 ELSE IF t = ")" THEN d - 1 ELSE d
       \* still completable within the bound
       /\ d' + (IF WantOperand(toks') THEN 1 ELSE 0) <= MaxLen - Len(toks')

\* every generated sentence is a sentence of the documented grammar
GenSound == Complete => AcceptP(toks)
\* the mechanism (yacc levels) computes the documented value for every assignment
MSatisfiesP == Complete => LET m == EvalM(toks) IN m.ok /\ m.v = EvalSetP(toks)
TypeOK == toks \in Seq(Tokens) /\ d \in 0..MaxLen
========================================================================
