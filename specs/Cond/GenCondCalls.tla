--------------------------- MODULE GenCondCalls ---------------------------
EXTENDS CondCalls, Json
Emit == PrintT(ToJson([kind |-> "call", prim |-> c.prim, args |-> c.args, expect |-> c.expect]))
\* the signature tables, for the cross-check against parser.funcProtos (printed once)
SigDump == [p \in DocPrims \cup UndocPrims |-> Types(SigOf(p))]
ASSUME PrintT(ToJson([kind |-> "sigtable", doc |-> [p \in DocPrims |-> Types(DocSig[p])],
                      undoc |-> [p \in UndocPrims |-> Types(UndocSig[p])]]))
===========================================================================
