\* C17 token / character level: checks Layer M against Layer P on every string AND prints the cases
CONSTANTS
  Modes = {@MODES@}
  MaxRaw = @MAXRAW@
  MaxGuided = @MAXGUIDED@
  MaxDev = 1
  MaxPlain = @MAXPLAIN@
  MaxChars = @MAXCHARS@
INIT Init
NEXT Next
INVARIANTS @INV@ Emit
CHECK_DEADLOCK FALSE
