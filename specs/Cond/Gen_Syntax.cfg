\* C17 token / character level: checks Layer M against Layer P on every string AND prints the cases
CONSTANTS
  Mode = "@MODE@"
  MaxLen = @MAXLEN@
  MaxDev = @MAXDEV@
INIT Init
NEXT Next
INVARIANTS MSatisfiesP Emit
CHECK_DEADLOCK FALSE
