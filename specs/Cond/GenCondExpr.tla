--------------------------- MODULE GenCondExpr ---------------------------
(* Case generator for C16: one JSON object per accepted token string with the        *)
(* truth table Layer P dictates (entry k = assignment k-1; bit j-1 = truth of pj).   *)
EXTENDS CondExpr, Json
Emit == Complete => PrintT(ToJson([toks |-> toks, tt |-> TruthTable(toks)]))
==========================================================================
