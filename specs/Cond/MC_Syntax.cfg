CONSTANTS
  Mode = "@MODE@"
  MaxLen = @MAXLEN@
  MaxDev = @MAXDEV@
INIT Init
NEXT Next
INVARIANTS TypeOK MSatisfiesP
CHECK_DEADLOCK FALSE
