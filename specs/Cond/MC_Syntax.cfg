\* C17 token / character level: checks Layer M against Layer P on every string (no printing)
CONSTANTS
  Modes = {@MODES@}
  MaxRaw = @MAXRAW@
  MaxGuided = @MAXGUIDED@
  MaxDev = 1
  MaxPlain = @MAXPLAIN@
  MaxChars = @MAXCHARS@
INIT Init
NEXT Next
INVARIANTS TypeOK MSatisfiesP
CHECK_DEADLOCK FALSE
